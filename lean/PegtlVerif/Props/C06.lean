/-
  Props/C06.lean — property C06: "Reported positions are a function of the consumed prefix only".

  `posOf` is the documented meaning: byte = consumed bytes (+ initial offset), line = initial line +
  number of end-of-line characters in the consumed prefix, column = 1 + bytes since the last of
  them (or initial column + consumed bytes if there is none).  `scanTo` is what a lazy input
  computes (`internal::bump` over the prefix); `C06_scan_spec` shows they coincide.

  `C06_tracked`: in every run, from a tracked cursor, the eagerly tracked cursor after *any*
  invocation (success, failure, exception, any amount of backtracking) is again tracked, and every
  position any observer is given — control hooks, action inputs, the input itself, and (with
  `C05_origin`) parse errors — is the scan position of some consumed prefix; hence eager and lazy
  inputs report identical positions (`C06_lazy_eq_eager`).

  Scope (`TrackOK`): all end-of-line policies except `cr_crlf` — where the property is false, see
  `C06_cr_crlf_witness` (known finding F11) — and byte-oriented atoms (the UTF-8 range atom and the
  integer digit-run atom are covered by the correspondence run only, for now).
-/
import PegtlVerif.Lemmas.TraceInv

namespace Pegtl.C06

/-- Number of end-of-line characters among the first `p` bytes. -/
def countCh (inp : Array UInt8) (ch : UInt8) : Nat → Nat
  | 0 => 0
  | p + 1 => countCh inp ch p + (if inp.getD p 0 = ch then 1 else 0)

/-- Bytes consumed since the last end-of-line character among the first `p` bytes, if any. -/
def sinceCh (inp : Array UInt8) (ch : UInt8) : Nat → Option Nat
  | 0 => none
  | p + 1 => if inp.getD p 0 = ch then some 0 else (sinceCh inp ch p).map (· + 1)

/-- The documented position after consuming `p` bytes. -/
def posOf (cx : Ctx) (p : Nat) : Cursor :=
  ⟨p, cx.init.line + countCh cx.inp cx.eol.ch p,
    match sinceCh cx.inp cx.eol.ch p with
    | some d => 1 + d
    | none => cx.init.col + p⟩

/-- A scan of the prefix (what lazy tracking does) computes exactly the documented position. -/
theorem C06_scan_spec (cx : Ctx) (p : Nat) : scanTo cx p = posOf cx p := by
  induction p with
  | zero => simp [scanTo, posOf, bumpScan, countCh, sinceCh]
  | succ p ih =>
    have : scanTo cx (p + 1) = bumpScan cx.inp cx.eol.ch 1 (scanTo cx p) := by
      unfold scanTo; rw [bumpScan_add]
    rw [this, ih]
    simp only [bumpScan, posOf, countCh, sinceCh]
    split
    · rename_i h; simp [h]; omega
    · rename_i h
      simp only [h, if_false, Nat.add_zero]
      cases sinceCh cx.inp cx.eol.ch p with
      | none => simp; omega
      | some d => simp; omega

/-- The scope of the tracking theorems is exactly "every end-of-line policy but `cr_crlf`": every atom is covered,
    the UTF-8 range atom (a multi-byte sequence contains no end-of-line byte) and the digit run of `maximum_rule`
    included. -/
theorem C06_scope (cx : Ctx) : TrackOK cx ↔ cx.eol ≠ .crCrlf := trackOK_iff cx

/-- Positions are a function of the consumed prefix: after any invocation the tracked cursor is
    that of a scan, and so is every position in every event the invocation produced. -/
theorem C06_tracked (cx : Ctx) (hok : TrackOK cx) (n i : Nat) (a : AMode) (m : RMode) (env : Env) (st : St) (r : Ret)
    (hst : st.cur = posOf cx st.cur.pos) (h : run cx n i a m env st = some r) :
    r.st.cur = posOf cx r.st.cur.pos ∧
    ∀ e ∈ r.raw, EvTracked cx e := by
  have t := run_t cx n i a m env st r h
  have ht : Tracked cx st.cur := fun _ => by rw [C06_scan_spec]; exact hst
  exact ⟨by rw [← C06_scan_spec]; exact t.trk ht hok, t.evs ht⟩

/-- What `EvTracked` gives an observer: the reported triple is `(initial byte + p, posOf p)` for the
    number `p` of bytes consumed — the same for eager and lazy inputs. -/
theorem C06_reported (cx : Ctx) (hok : TrackOK cx) (p : Cursor) (h : RepTracked cx p) :
    ∃ n, p = ⟨cx.init.pos + n, (posOf cx n).line, (posOf cx n).col⟩ := by
  obtain ⟨c, hc, rfl⟩ := h
  refine ⟨c.pos, ?_⟩
  have hc' := hc hok
  rw [C06_scan_spec] at hc'
  unfold Ctx.rep
  split
  · show (⟨_, (scanTo cx c.pos).line, (scanTo cx c.pos).col⟩ : Cursor) = _
    rw [C06_scan_spec]
  · rw [Cursor.mk.injEq]
    exact ⟨rfl, congrArg Cursor.line hc', congrArg Cursor.col hc'⟩

/-- Eager and lazy tracking report identical positions for every tracked cursor. -/
theorem C06_lazy_eq_eager (cx : Ctx) (hok : TrackOK cx) (c : Cursor) (hc : Tracked cx c) :
    ({ cx with lazy := true } : Ctx).rep c = ({ cx with lazy := false } : Ctx).rep c := by
  have hc' := hc hok
  simp only [Ctx.rep, if_true, Bool.false_eq_true, if_false]
  have : bumpScan cx.inp cx.eol.ch c.pos ⟨0, cx.init.line, cx.init.col⟩ = scanTo cx c.pos := rfl
  rw [this, ← hc']

/-- A whole parsing run: the final cursor and every reported position. -/
theorem C06_parse (cx : Ctx) (hok : TrackOK cx) (fuel i : Nat) (a : AMode) (m : RMode) (r : Ret)
    (h : parseTop cx fuel i a m = some r) :
    r.st.cur = posOf cx r.st.cur.pos ∧ ∀ e ∈ r.raw, EvTracked cx e := by
  unfold parseTop at h
  exact C06_tracked cx hok fuel i a m {} cx.start r (by simp [Ctx.start, posOf, countCh, sinceCh]) h

/-! ### The excluded policy: `eol::cr_crlf` (known finding F11) -/

/-- `seq< eol, one<'X'> >` on "\r\nX" under `cr_crlf`: the eager input says line 2, column 2 after the
    match, a scan of the same prefix (a lazy input) says line 2, column 3. -/
def f11G : Grammar := #[⟨true, {}, .seq [1, 2]⟩, ⟨true, {}, .atom .eol⟩, ⟨true, {}, .atom (.one true [88])⟩]

theorem C06_cr_crlf_witness :
    let cx : Ctx := { g := f11G, inp := #[13, 10, 88], eol := .crCrlf }
    ∃ r, parseTop cx 5 0 .action .required = some r ∧ r.res = .ok ∧
      r.st.cur = ⟨3, 2, 2⟩ ∧ posOf cx 3 = ⟨3, 2, 3⟩ := by decide

/-! ### Non-vacuity -/

def exG : Grammar := #[
  ⟨true, { kind := .apply }, .starPartial [1]⟩,
  ⟨true, {}, .sor [2, 3, 4]⟩,
  ⟨true, { kind := .apply0 }, .atom .eol⟩,
  ⟨true, {}, .seq [5, 6]⟩,
  ⟨true, {}, .atom .any⟩,
  ⟨true, {}, .atom (.string [97, 13])⟩,
  ⟨true, {}, .atom (.one true [120])⟩]

theorem exCx_ok : TrackOK ({ g := exG, inp := #[97, 13, 10, 98, 10, 97, 13, 121], eol := .lfCrlf } : Ctx) :=
  ⟨by decide, byteTableB_sound (by decide)⟩

example : ∃ r, parseTop { g := exG, inp := #[97, 13, 10, 98, 10, 97, 13, 121], eol := .lfCrlf } 40 0 .action .required = some r ∧
    r.res = .ok ∧ r.st.cur = ⟨8, 3, 4⟩ := by decide +kernel

end Pegtl.C06
