/-
  Props/C03.lean — property C03: "No rule reads or consumes outside the bounds of the input".

  In the model every read goes through `rd` (`peek_char( off )`) and every advance through
  `bump*`; both set the ghost flag `oob` when they touch anything outside the window
  `[cur, endp)`.  `endp` is the *current* end of the input: the end of the data, the end of a
  `rematch` sub-input, or the end lowered by `limit_bytes`.

  The theorems: no invocation ever sets the flag, and no invocation ever moves the cursor past
  `endp` — for every grammar table, input, action attachment, mode and fuel, by closure of the
  invariant over all rule bodies (Lemmas/Rewind.lean) and per atom from its actual size guard
  (Lemmas/Input.lean `atomStep_frame`, `eolMatch_noob`).

  What this does *not* cover (see DESIGN §9): memory safety of the compiled binary is a runtime
  fact; it is observed by the correspondence run (exact-size heap buffers under ASan, the
  TAO_PEGTL_VERIF hook), not proved.  `memcmp`-style reads of `string`/`istring` are modelled as
  guarded by their size check, not read by read.
-/
import PegtlVerif.Lemmas.Rewind

namespace Pegtl.C03

/-- No read or advance outside the window, in any outcome. -/
theorem C03_no_oob (cx : Ctx) (n i : Nat) (a : AMode) (m : RMode) (env : Env) (st : St) (r : Ret)
    (hle : st.cur.pos ≤ st.endp) (ho : st.oob = false)
    (h : run cx n i a m env st = some r) : r.st.oob = false :=
  (run_good cx n i a m env st r h).noob hle ho

/-- The cursor never passes the end of the window, in any outcome, and the end itself is what it
    was (so sub-inputs and byte limits are always undone). -/
theorem C03_in_bounds (cx : Ctx) (n i : Nat) (a : AMode) (m : RMode) (env : Env) (st : St) (r : Ret)
    (hle : st.cur.pos ≤ st.endp) (h : run cx n i a m env st = some r) :
    r.st.cur.pos ≤ r.st.endp ∧ r.st.endp = st.endp := by
  have g := run_good cx n i a m env st r h
  exact ⟨by rw [g.endp]; exact g.inb hle, g.endp⟩

/-- A whole parsing run from a fresh input: nothing outside `[0, size)` is ever touched. -/
theorem C03_parse (cx : Ctx) (fuel i : Nat) (a : AMode) (m : RMode) (r : Ret)
    (h : parseTop cx fuel i a m = some r) : r.st.oob = false ∧ r.st.cur.pos ≤ cx.inp.size := by
  unfold parseTop at h
  have g := run_good cx fuel i a m {} cx.start r h
  exact ⟨g.noob (by simp [Ctx.start]) rfl, by simpa [Ctx.start] using g.inb (by simp [Ctx.start])⟩

/-- Per atom: the size guard in each `match( in )` is sufficient — every read is inside the window
    and a success advances by at most what is available. -/
theorem C03_atoms (cx : Ctx) (a : Atom) (st : St) (hle : st.cur.pos ≤ st.endp) (ho : st.oob = false) :
    (atomStep cx a st).2.oob = false ∧ (atomStep cx a st).2.cur.pos ≤ st.endp :=
  ⟨(atomStep_frame cx a st).noob hle ho, (atomStep_frame cx a st).inb hle⟩

/-- While a `limit_bytes< N >` guard is active the rule sees a window of at most `N` bytes: the
    invocation of the guarded rule's `match()` starts with `endp = cur + min( avail, N )`, so by
    `C03_no_oob` / `C03_in_bounds` it neither inspects nor consumes anything beyond. -/
theorem C03_limit_bytes_window (cx : Ctx) (core : St → Out) (n : Nat) (st : St) (r : Ret)
    (h : limitBytesCall cx core n st = some r) :
    ∃ r0, core { st with endp := st.cur.pos + min st.avail n } = some r0 ∧ r.st.cur = r0.st.cur ∧
      r.st.oob = r0.st.oob := by
  unfold limitBytesCall at h
  simp only [Option.map_eq_some_iff] at h
  obtain ⟨r0, h0, rfl⟩ := h
  refine ⟨r0, h0, ?_, ?_⟩ <;> split <;> rfl

/-! ### Non-vacuity -/

/-- `seq< string<'a','b'>, eol, star< any > >` on the 3-byte input "ab\r" (a truncated CRLF): the
    run fails cleanly inside the window. -/
def exG : Grammar := #[
  ⟨true, {}, .seq [1, 2, 3]⟩,
  ⟨true, {}, .atom (.string [97, 98])⟩,
  ⟨true, {}, .atom .eol⟩,
  ⟨true, {}, .starPartial [4]⟩,
  ⟨true, {}, .atom .any⟩]

example : ∃ r, parseTop { g := exG, inp := #[97, 98, 13], eol := .crlf } 9 0 .action .required = some r ∧
    r.res = .fail ∧ r.st.oob = false := by decide

example : ∃ r, parseTop { g := exG, inp := #[97, 98, 13, 10, 120] , eol := .crlf } 12 0 .action .required = some r ∧
    r.res = .ok ∧ r.st.cur.pos = 5 ∧ r.st.oob = false := by decide

end Pegtl.C03
