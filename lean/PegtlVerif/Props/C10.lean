/-
  Props/C10.lean — property C10: character-class and encoding rules accept exactly the
  documented sets.

  "Each single-unit rule consumes exactly N bytes when, and only when, the next bytes form a
  complete well-formed unit whose value is in the documented set."

  Model side (Model/Utf.lean, Model/AsciiClasses.lean, Model/Input.lean): transcriptions of
  `Peek::peek` for every Peek class, of `test_one` / `match` of any / one / range / ranges, and of
  `ichar_equal` / `istring::match`.  Spec side (Spec/Unicode.lean): Unicode scalar values, the
  three encoding forms as *encoders*, Table 3-7, integer value of a byte string, the documented
  ASCII / ABNF sets.  `bs` is always the rest of the input from the cursor.

  Every theorem holds for all inputs; the `example`s show both sides of each equivalence are
  inhabited (accepting and rejecting instances).
-/
import PegtlVerif.Lemmas.Utf

namespace Pegtl.C10
open Pegtl Pegtl.Utf Pegtl.Unicode Pegtl.AsciiDoc

/-! ## UTF-8 -/

/-- `utf8::*` decode a unit of `n` bytes with value `cp` exactly when the input starts with the
    UTF-8 encoding of the Unicode scalar value `cp` and `n` is its length: no overlong form, no
    surrogate, nothing above U+10FFFF, no truncated sequence is ever accepted, and every
    well-formed one is. -/
theorem C10_utf8 (bs : List UInt8) (cp n : Nat) :
    peekUtf8 bs = some (cp, n) ↔ isScalar cp ∧ n = encLen cp ∧ bs.take n = encodeUtf8 cp := by
  rw [peekUtf8_eq_A]
  constructor
  · exact utf8A_sound bs cp n
  · rintro ⟨hs, rfl, ht⟩; exact utf8A_complete bs cp hs ht

example : peekUtf8 [0xE2, 0x82, 0xAC, 0x41] = some (0x20AC, 3) := by decide
example : isScalar 0x20AC ∧ 3 = encLen 0x20AC ∧ [0xE2, 0x82, 0xAC, 0x41].take 3 = encodeUtf8 0x20AC := by decide
example : peekUtf8 [0xF4, 0x8F, 0xBF, 0xBF] = some (0x10FFFF, 4) := by decide

/-- Rejection is exact as well: `peek` fails iff the input starts with no encoded scalar value. -/
theorem C10_utf8_reject (bs : List UInt8) :
    peekUtf8 bs = none ↔ ¬ ∃ cp, isScalar cp ∧ bs.take (encLen cp) = encodeUtf8 cp := by
  constructor
  · rintro h ⟨cp, hs, ht⟩
    have := (C10_utf8 bs cp (encLen cp)).mpr ⟨hs, rfl, ht⟩
    rw [h] at this; cases this
  · intro h
    cases hp : peekUtf8 bs with
    | none => rfl
    | some p =>
      obtain ⟨cp, n⟩ := p
      obtain ⟨hs, rfl, ht⟩ := (C10_utf8 bs cp n).mp hp
      exact absurd ⟨cp, hs, ht⟩ h

example : peekUtf8 [0xC0, 0x80] = none := by decide                 -- overlong U+0000
example : peekUtf8 [0xE0, 0x9F, 0xBF] = none := by decide           -- overlong U+07FF
example : peekUtf8 [0xED, 0xA0, 0x80] = none := by decide           -- surrogate U+D800
example : peekUtf8 [0xF4, 0x90, 0x80, 0x80] = none := by decide     -- U+110000
example : peekUtf8 [0xE2, 0x82] = none := by decide                 -- truncated
example : peekUtf8 [0xF8, 0x88, 0x80, 0x80, 0x80] = none := by decide  -- 5-byte form

/-- The accepted byte sequences and their lengths are exactly the rows of Unicode Table 3-7. -/
theorem C10_utf8_table (bs : List UInt8) : (peekUtf8 bs).map (·.2) = table37 bs := by
  rw [peekUtf8_eq_A]; exact utf8A_table37 bs

example : table37 [0xF0, 0x90, 0x80, 0x80] = some 4 ∧ table37 [0xF0, 0x8F, 0x80, 0x80] = none := by decide

/-! ## UTF-16, UTF-32 (both byte orders) -/

/-- `utf16_be::*`, `utf16_le::*`: one non-surrogate unit (2 bytes), or a high surrogate followed by a
    low surrogate (4 bytes) — exactly the UTF-16 encodings of scalar values; lone or swapped
    surrogates and truncated units are rejected. -/
theorem C10_utf16 (e : Endian) (bs : List UInt8) (cp n : Nat) :
    peekUtf16 e bs = some (cp, n) ↔ isScalar cp ∧ n = encLen16 cp ∧ bs.take n = encodeUtf16 e cp :=
  utf16_iff e bs cp n

example : peekUtf16 .big [0xD8, 0x3D, 0xDE, 0x00, 0x00] = some (0x1F600, 4) := by decide
example : peekUtf16 .little [0xAC, 0x20] = some (0x20AC, 2) := by decide
example : isScalar 0x1F600 ∧ 4 = encLen16 0x1F600 ∧
    [0xD8, 0x3D, 0xDE, 0x00, 0x00].take 4 = encodeUtf16 .big 0x1F600 := by decide
example : peekUtf16 .big [0xDC, 0x00, 0xD8, 0x00] = none := by decide      -- low surrogate first
example : peekUtf16 .big [0xD8, 0x00, 0x00, 0x41] = none := by decide      -- high surrogate, no low
example : peekUtf16 .little [0x00, 0xD8, 0x00] = none := by decide         -- truncated pair

/-- `utf32_be::*`, `utf32_le::*`: four bytes whose value is a scalar value. -/
theorem C10_utf32 (e : Endian) (bs : List UInt8) (cp n : Nat) :
    peekUtf32 e bs = some (cp, n) ↔ isScalar cp ∧ n = 4 ∧ bs.take 4 = encodeUtf32 e cp :=
  utf32_iff e bs cp n

/-- The same in value form: at least 4 bytes, their integer value in byte order `e` is a scalar value. -/
theorem C10_utf32_value (e : Endian) (bs : List UInt8) (cp : Nat) :
    peekUtf32 e bs = some (cp, 4) ↔ bs.length ≥ 4 ∧ cp = uintValue e (bs.take 4) ∧ isScalar cp := by
  rw [C10_utf32]
  constructor
  · rintro ⟨hs, _, ht⟩
    have hlt : cp < 256 ^ 4 := by unfold isScalar at hs; omega
    obtain ⟨hl, hv⟩ := (take_eq_uintBytes_iff e 4 cp bs hlt).mp ht
    exact ⟨hl, hv.symm, hs⟩
  · rintro ⟨hl, hv, hs⟩
    have hlt : cp < 256 ^ 4 := by unfold isScalar at hs; omega
    exact ⟨hs, rfl, (take_eq_uintBytes_iff e 4 cp bs hlt).mpr ⟨hl, hv.symm⟩⟩

example : peekUtf32 .big [0x00, 0x10, 0xFF, 0xFF] = some (0x10FFFF, 4) := by decide
example : peekUtf32 .little [0xFF, 0xFF, 0x10, 0x00, 0x99] = some (0x10FFFF, 4) := by decide
example : peekUtf32 .big [0x00, 0x11, 0x00, 0x00] = none := by decide      -- U+110000
example : peekUtf32 .big [0x00, 0x00, 0xDF, 0xFF] = none := by decide      -- surrogate
example : peekUtf32 .little [0x41, 0x00, 0x00] = none := by decide         -- truncated

/-! ## Binary integers `uint8`, `uint16/32/64_{be,le}`, optionally masked -/

/-- The decoded value is the integer value of the next `w` bytes in byte order `e`
    (`Σ bᵢ·256^i` for little-endian, reversed for big-endian), `&`-ed with the mask of a `mask_*`
    rule, and exists iff `w` bytes are available.  (In the model `be` reads go through
    `memcpy` + `__builtin_bswap`, as in endian_gcc.hpp on a little-endian host.) -/
theorem C10_uint (w : Nat) (e : Endian) (m : Option Nat) (bs : List UInt8) (v n : Nat) :
    peekUint w e m bs = some (v, n) ↔
      w ≤ bs.length ∧ n = w ∧ v = masked m (uintValue e (bs.take w)) :=
  peekUint_iff w e m bs v n

example : peekUint 4 .big (some 0x00FFFF00) [1, 2, 3, 4, 5] = some (0x00020300, 4) := by decide
example : peekUint 2 .little none [0x34, 0x12] = some (0x1234, 2) := by decide
example : peekUint 8 .big none [1, 2, 3, 4, 5, 6, 7, 8] = some (0x0102030405060708, 8) := by decide
example : peekUint 1 .big (some 0x0F) [0xA7] = some (0x07, 1) := by decide
example : peekUint 4 .little none [1, 2, 3] = none := by decide

/-! ## `any`, `one`, `not_one`, `range`, `not_range`, `ranges` over every Peek class -/

/-- A rule matches (consuming `n` bytes) iff `Peek` decodes a unit of `n` bytes whose value is
    in the documented set: listed values for `one`, the closed interval for `range`, the
    complement for `not_one` / `not_range` (`found = false`), the union of the intervals plus the
    optional single value for `ranges`, everything for `any`. -/
theorem C10_one_range (p : Peek) (bs : List UInt8) (n : Nat) :
    (∀ found cs, matchUnit (.one found p cs) bs = some n ↔
        ∃ v, p.peek bs = some (v, n) ∧ (v ∈ cs ↔ found = true)) ∧
    (∀ found lo hi, matchUnit (.range found p lo hi) bs = some n ↔
        ∃ v, p.peek bs = some (v, n) ∧ ((lo ≤ v ∧ v ≤ hi) ↔ found = true)) ∧
    (∀ cs, matchUnit (.ranges p cs) bs = some n ↔ ∃ v, p.peek bs = some (v, n) ∧ inPairs cs v) ∧
    (matchUnit (.any p) bs = some n ↔ ∃ v, p.peek bs = some (v, n)) := by
  refine ⟨fun found cs => ?_, fun found lo hi => ?_, fun cs => ?_, ?_⟩
  · rw [matchUnit_iff]; simp only [UnitRule.peekOf, testOne_one]
  · rw [matchUnit_iff]; simp only [UnitRule.peekOf, testOne_range]
  · rw [matchUnit_iff]; simp only [UnitRule.peekOf, UnitRule.testOne, rangesTest_iff]
  · rw [matchUnit_iff]; simp only [UnitRule.peekOf, UnitRule.testOne, and_true]

example : matchUnit (.one true .utf8 [0x41, 0x20AC]) [0xE2, 0x82, 0xAC] = some 3 := by decide
example : matchUnit (.one false .utf8 [0x41, 0x20AC]) [0xE2, 0x82, 0xAC] = none := by decide
example : matchUnit (.range false (.utf16 .big) 0xD7FF 0xE000) [0xD8, 0x00, 0xDC, 0x00] = some 4 := by decide
example : matchUnit (.ranges (.maskUint 2 .little 0x00FF) [0x10, 0x20, 0x80]) [0x80, 0x77] = some 2 := by decide
example : matchUnit (.any (.utf32 .big)) [0, 0, 0xD8, 0] = none := by decide

/-- The ASCII atoms of the matcher model (Model/Input.lean: `Atom.one`, `Atom.range`,
    `Atom.ranges` compare *unsigned* bytes) agree with the `peek_char` rules (`data_t = char`,
    signed on this platform) whenever the bounds are ASCII (< 0x80). -/
theorem C10_one_range_ascii (lo hi c : UInt8) (rest : List UInt8) (found : Bool)
    (hlo : lo.toNat < 128) (hhi : hi.toNat < 128) (cs : List UInt8)
    (rs : List (UInt8 × UInt8)) (single : Option UInt8) :
    (matchUnit (.range found .char (charVal lo) (charVal hi)) (c :: rest) = some 1 ↔
        ((lo ≤ c && c ≤ hi) == found) = true) ∧
    (matchUnit (.one found .char (cs.map charVal)) (c :: rest) = some 1 ↔
        (cs.contains c == found) = true) ∧
    (inRanges rs single c = true ↔ ((∃ r ∈ rs, r.1 ≤ c ∧ c ≤ r.2) ∨ single = some c)) := by
  refine ⟨?_, ?_, inRanges_iff rs single c⟩
  · rw [matchUnit_char _ rfl]
    have h := charVal_range_ascii lo hi c hlo hhi
    simp only [UnitRule.testOne]
    by_cases h1 : charVal lo ≤ charVal c <;> by_cases h2 : charVal c ≤ charVal hi <;>
      by_cases h3 : lo ≤ c <;> by_cases h4 : c ≤ hi <;> cases found <;> simp_all
  · rw [matchUnit_char _ rfl]
    have : (UnitRule.one found .char (cs.map charVal)).testOne (charVal c) = (cs.contains c == found) := by
      simp only [UnitRule.testOne]
      congr 1
      induction cs with
      | nil => rfl
      | cons a t ih =>
        simp only [List.map_cons, List.any_cons, ih, List.contains_cons]
        congr 1
        rw [Bool.eq_iff_iff]; simp [charVal_inj]
    rw [this]
    cases h : (cs.contains c == found) <;> simp

example : matchUnit (.range true .char (charVal 0x30) (charVal 0x39)) [0x35, 0x00] = some 1 := by decide

/-- Outside ASCII bounds the two readings differ: `range< char(0xF0), char(0x10) >` is the signed
    interval −16 … 16 and accepts byte 0xF5, while an unsigned comparison `0xF0 ≤ c ≤ 0x10`
    accepts nothing.  (Witness reported to the main session: `Atom.range` of Model/Input.lean is
    exact only for ASCII bounds.) -/
theorem C10_signed_char_witness :
    matchUnit (.range true .char (charVal 0xF0) (charVal 0x10)) [0xF5] = some 1 ∧
    (((0xF0 : UInt8) ≤ 0xF5 && (0xF5 : UInt8) ≤ 0x10) == true) = false := by decide

/-! ## The ASCII and ABNF classes -/

/-- Every class of ascii.hpp / abnf.hpp that matches one character (`Expected.asciiTable`, kept
    equal to the table re-translated from the headers on every run: Audit/C10Sync.lean) has a
    documented set, fails on empty input, and on a non-empty input consumes exactly one byte iff
    that byte is in the documented set — all 256 byte values of all 29 classes. -/
theorem C10_ascii (name : String) (r : UnitRule) (h : (name, r) ∈ Expected.asciiTable) :
    ∃ P, documented name = some P ∧ matchUnit r [] = none ∧
      ∀ (c : UInt8) (rest : List UInt8),
        matchUnit r (c :: rest) = if P c.toNat = true then some 1 else none :=
  ascii_row name r h

example : ("xdigit", UnitRule.ranges .char [48, 57, 97, 102, 65, 70]) ∈ Expected.asciiTable := by decide
example : documented "xdigit" = some isXdigit ∧ isXdigit 0x66 = true ∧ isXdigit 0x67 = false := ⟨rfl, by decide, by decide⟩
example : (Expected.asciiTable.map (·.1)).length = 29 ∧
    (Expected.asciiTable.map (·.1)).all (fun n => (documented n).isSome) = true := by decide

/-- Instance: `abnf::CTL` accepts exactly 0x00–0x1F and 0x7F. -/
theorem C10_ascii_CTL (c : UInt8) (rest : List UInt8) :
    matchUnit (.ranges .char [0, 31, 127]) (c :: rest) = some 1 ↔ (c.toNat ≤ 0x1F ∨ c.toNat = 0x7F) := by
  obtain ⟨P, hP, _, h⟩ := C10_ascii "abnf.CTL" (.ranges .char [0, 31, 127]) (by decide)
  have : P = CTL := by
    have : documented "abnf.CTL" = some CTL := rfl
    rw [this] at hP; exact (Option.some.inj hP).symm
  subst this
  rw [h]
  simp only [CTL]
  by_cases h1 : c.toNat ≤ 0x1F <;> by_cases h2 : c.toNat = 0x7F <;> simp [h1, h2]

example : matchUnit (.ranges .char [0, 31, 127]) [0x7F] = some 1 ∧
    matchUnit (.ranges .char [0, 31, 127]) [0x80] = none := by decide

/-! ## Case-insensitive strings -/

/-- `ichar_equal< C >( c )` folds exactly the ASCII letters: for a letter `C` it accepts `C` and
    its other case, for any other `C` (digits, `@ [ \` {`, bytes ≥ 0x80 …) only `C` itself. -/
theorem C10_istring (C c : UInt8) :
    icharEqual C c = true ↔
      (isAlpha C.toNat = true ∧ (c = C ∨ c = flipCase C)) ∨ (isAlpha C.toNat = false ∧ c = C) := by
  rw [icharEqual_iff, isAlphaB_eq_doc]

example : icharEqual 0x61 0x41 = true ∧ icharEqual 0x5A 0x7A = true := by decide   -- a/A, Z/z
example : icharEqual 0x40 0x60 = false ∧ icharEqual 0x5B 0x7B = false := by decide -- @/` and [/{ differ by 0x20 but are not letters
example : isAlpha 0x61 = true ∧ flipCase 0x61 = 0x41 ∧ isAlpha 0x40 = false := by decide

/-- `istring< Cs... >` matches iff at least `|Cs|` bytes are available and each compares equal
    under that folding; it then consumes exactly `|Cs|` bytes. -/
theorem C10_istring_match (cs bs : List UInt8) (n : Nat) :
    matchIstring cs bs = some n ↔
      (n = cs.length ∧ cs.length ≤ bs.length ∧
        ∀ i, i < cs.length → icharEqual (cs.getD i 0) (bs.getD i 0) = true) :=
  matchIstring_iff cs bs n

example : matchIstring [0x61, 0x5A, 0x31] [0x41, 0x7A, 0x31, 0x99] = some 3 := by decide
example : matchIstring [0x61, 0x5A, 0x31] [0x41, 0x7A] = none := by decide
example : matchIstring [0x40] [0x60] = none := by decide

/-! ## Consumption -/

/-- A successful single-unit rule consumes exactly the size reported by `Peek`, which is the
    documented length of the unit for the decoded value (1; `w`; the UTF-8 / UTF-16 encoding
    length of the code point; 4), is at least 1 and never exceeds the available input; a failed
    rule consumes nothing. -/
theorem C10_consumes_N (r : UnitRule) (hp : r.peekOf.valid) (bs : List UInt8) :
    (∀ n, matchUnit r bs = some n →
        consumed (matchUnit r bs) = n ∧ 1 ≤ n ∧ n ≤ bs.length ∧
        ∃ v, r.peekOf.peek bs = some (v, n) ∧ n = r.peekOf.unitLen v) ∧
    (matchUnit r bs = none → consumed (matchUnit r bs) = 0) := by
  constructor
  · intro n h
    obtain ⟨v, hv, _⟩ := (matchUnit_iff r bs n).mp h
    obtain ⟨h1, h2, h3⟩ := peek_size r.peekOf hp bs v n hv
    exact ⟨by rw [h]; rfl, h2, h3, v, hv, h1⟩
  · intro h; rw [h]; rfl

example : (UnitRule.range true .utf8 0x7F 0x800).peekOf.valid ∧
    matchUnit (.range true .utf8 0x7F 0x800) [0xDF, 0xBF, 0x41] = some 2 ∧
    Peek.utf8.unitLen 0x7FF = 2 := by
  refine ⟨trivial, by decide, by decide⟩
example : matchUnit (.range true .utf8 0x7F 0x800) [0xE0, 0xA0, 0x81] = none := by decide   -- U+0801: well-formed, outside the set
example : consumed (matchUnit (.any (.utf16 .little)) [0x3D, 0xD8, 0x00, 0xDE, 0x41, 0x00]) = 4 := by decide

end Pegtl.C10
