/-
  Props/C19.lean — C19: error-reporting helpers return the exact source line of any position.

  "For every position obtained from a memory-based input during or after a parsing run,
   at() points to the byte at that position, begin_of_line() and end_of_line() delimit exactly
   the line containing it under the input's end-of-line policy, and line_at() returns exactly
   that line's bytes; none of them ever yields a pointer outside the input data, including for
   inputs constructed with non-default initial byte, line and column counters and for
   positions at the very end."

  Model: Model/Lines.lean (`atOff`, `beginOfLineOff`, `endOfLineOff`, `lineAtOff` transcribe
  memory_input.hpp; offsets are `Int`s relative to `begin()`, so `< 0` or `> size` is a pointer
  outside the data).  Meaning of "the line containing `k`": Spec/Lines.lean
  (`IsLineBegin`, `IsLineEnd`, `IsLine`).

  A position is obtained
    * by `in.bump( k )` / `bytes< k >` followed by `in.position()`  — `posBump cx k`, or
    * after `n` tokens of `sor< eol, any >`                          — `posTok cx n`
      (`C19_tok_positions` reduces these to the first kind),
  with eager or lazy tracking (`cx.lazy`), any of the five policies (`cx.eol`) and any
  initial counters `cx.init = (byte, line, column)`.  Every theorem quantifies over all of
  that and over every input `cx.inp` and every `k ≤ size` (the very end included).

  Result.  With the repaired `at()` (`begin() + ( p.byte - begin_byte() )`, fix F19: the old
  `begin() + p.byte` pointed outside the data for every input whose byte counter does not start at
  0 — the inner input of every `rematch`, for one) the property holds for every initial byte and
  line counter; `begin_of_line`/`line_at` on the first line additionally need initial column 1,
  otherwise it is FALSE of the code (known finding F10, column part): `C19_bol_general` gives the
  value the code computes, `C19_initial_column_witness` is a concrete failure.
  Under `eol::cr_crlf` an eager input that consumed CR LF with `eol` reports column 1 where
  a scan reports 2 (known finding F11 of C06), so `begin_of_line` of the eager and of the
  lazy input differ by one: `C19_crCrlf_eager_witness`.
-/
import PegtlVerif.Lemmas.Lines

namespace Pegtl
namespace C19
open Lines LineSpec

/-! ### Concrete inputs used by the non-vacuity examples -/

/-- `"ab\ncd\r\nef"`, policy `lf_crlf`, lazy tracking, initial counters (byte 0, line 7, column 1). -/
def exLazy : Ctx :=
  { g := #[], inp := #[97, 98, 10, 99, 100, 13, 10, 101, 102], eol := .lfCrlf, lazy := true, init := ⟨0, 7, 1⟩ }

/-- The same bytes, policy `crlf`, eager tracking, initial counters (byte 0, line 1, column 3). -/
def exEager : Ctx :=
  { g := #[], inp := #[97, 98, 10, 99, 100, 13, 10, 101, 102], eol := .crlf, lazy := false, init := ⟨0, 1, 3⟩ }

/-! ### `at` -/

/-- For any initial counters (byte, line, column), eager or lazy, any policy: `at( p )` points to byte `k` of the
    data and lies inside `[begin, end]`. -/
theorem C19_at (cx : Ctx) (k : Nat) (hk : k ≤ cx.inp.size) :
    atOff cx (posBump cx k) = k ∧ 0 ≤ atOff cx (posBump cx k) ∧ atOff cx (posBump cx k) ≤ cx.inp.size := by
  rw [at_posBump]; omega

example : posBump exLazy 4 = ⟨4, 8, 2⟩ := by decide
example : atOff exLazy (posBump exLazy 4) = 4 ∧ 0 ≤ atOff exLazy (posBump exLazy 4) ∧ atOff exLazy (posBump exLazy 4) ≤ 9 :=
  C19_at exLazy 4 (by decide)
/-- initial byte counter 10 (as inside a `rematch` that starts at byte 10): the position reports byte 14, `at` is data offset 4 -/
example : posBump { exLazy with init := ⟨10, 7, 1⟩ } 4 = ⟨14, 8, 2⟩ ∧ atOff { exLazy with init := ⟨10, 7, 1⟩ } (posBump { exLazy with init := ⟨10, 7, 1⟩ } 4) = 4 := by
  decide

/-! ### `begin_of_line` -/

/-- What `begin_of_line( p )` computes for any initial counters: with `b` the true begin of
    the line, `b`, minus `init.column - 1` on the first line. -/
theorem C19_bol_general (cx : Ctx) (k : Nat) (hk : k ≤ cx.inp.size) :
    ∃ b, IsLineBegin cx.eol cx.inp k b ∧
      beginOfLineOff cx (posBump cx k) = (b : Int) - (if b = 0 then (cx.init.col : Int) - 1 else 0) :=
  bol_posBump cx k hk

example : beginOfLineOff exEager (posBump exEager 2) = -2 ∧ IsLineBegin exEager.eol exEager.inp 2 0 := by decide

/-- With initial column 1, or a line-break byte before `k` (any initial byte and line counter),
    `begin_of_line( p )` is exactly the begin of the line containing `k`:
    directly after the last line-break byte before `k`, or the begin of the data. -/
theorem C19_bol (cx : Ctx) (k : Nat) (hk : k ≤ cx.inp.size)
    (hc : cx.init.col = 1 ∨ ∃ j, j < k ∧ isByte cx.inp j (lineBreak cx.eol) = true) :
    ∃ b : Nat, beginOfLineOff cx (posBump cx k) = b ∧ IsLineBegin cx.eol cx.inp k b := by
  obtain ⟨b, hb, he⟩ := bol_posBump cx k hk
  refine ⟨b, ?_, hb⟩
  rw [he]
  by_cases hb0 : b = 0
  · rcases hc with hc | ⟨j, hj, hjb⟩
    · simp [hb0, hc]
    · have := hb.2.2 j hj (by omega); rw [hjb] at this; cases this
  · simp [hb0]

example : ∃ b : Nat, beginOfLineOff exLazy (posBump exLazy 9) = b ∧ IsLineBegin .lfCrlf exLazy.inp 9 b :=
  C19_bol exLazy 9 (by decide) (Or.inl rfl)
example : ∃ b : Nat, beginOfLineOff exEager (posBump exEager 4) = b ∧ IsLineBegin .crlf exEager.inp 4 b :=
  C19_bol exEager 4 (by decide) (Or.inr ⟨2, by decide, by decide⟩)
example : beginOfLineOff exLazy (posBump exLazy 9) = 7 ∧ beginOfLineOff exEager (posBump exEager 4) = 3 := by decide

/-! ### `end_of_line` -/

/-- For any initial counters `end_of_line( p )` is defined (the sub-parse starts inside the
    data), it is the first index at or after `k` where `eolf` matches under the policy —
    an end-of-line sequence or the end of the data —, hence never beyond `end()`, and the
    sub-parse reads no byte outside the data. -/
theorem C19_eol (cx : Ctx) (k : Nat) (hk : k ≤ cx.inp.size) :
    ∃ q : Nat, endOfLineOff cx (posBump cx k) = some (q : Int) ∧ IsLineEnd cx.eol cx.inp k q ∧
      (endOfLineRun cx (posBump cx k)).map (·.oob) = some false := by
  obtain ⟨st, h1, h2, h3⟩ := eol_posBump cx k hk
  exact ⟨st.cur.pos, by simp [endOfLineOff, h1], h2, by simp [h1, h3]⟩

example : ∃ q : Nat, endOfLineOff exLazy (posBump exLazy 4) = some (q : Int) ∧ IsLineEnd .lfCrlf exLazy.inp 4 q ∧
    (endOfLineRun exLazy (posBump exLazy 4)).map (·.oob) = some false :=
  C19_eol exLazy 4 (by decide)
example : endOfLineOff exLazy (posBump exLazy 4) = some 5 ∧ endOfLineOff exLazy (posBump exLazy 9) = some 9 ∧
    endOfLineOff exEager (posBump exEager 0) = some 5 := by decide

/-! ### `line_at` -/

/-- With initial column 1 or not on the first line (any initial byte and line counter), `line_at( p )` is the
    view `[b, q)` with `b` the begin and `q` the end of the line containing `k`;
    `0 ≤ b ≤ k ≤ q ≤ size`, its size is not negative, and its bytes are exactly that line. -/
theorem C19_line (cx : Ctx) (k : Nat) (hk : k ≤ cx.inp.size)
    (hc : cx.init.col = 1 ∨ ∃ j, j < k ∧ isByte cx.inp j (lineBreak cx.eol) = true) :
    ∃ b q : Nat, lineAtOff cx (posBump cx k) = some ((b : Int), (q : Int) - b) ∧
      IsLineBegin cx.eol cx.inp k b ∧ IsLineEnd cx.eol cx.inp k q ∧
      b ≤ k ∧ k ≤ q ∧ q ≤ cx.inp.size ∧
      IsLine cx.eol cx.inp k (viewBytes cx.inp ((b : Int), (q : Int) - b)) := by
  obtain ⟨b, hb, hbl⟩ := C19_bol cx k hk hc
  obtain ⟨q, hq, hql, _⟩ := C19_eol cx k hk
  refine ⟨b, q, by simp [lineAtOff, hq, hb], hbl, hql, hbl.1, hql.1, hql.2.1, b, q, hbl, hql, ?_⟩
  have : ((b : Int) + ((q : Int) - b)).toNat = q := by omega
  simp [viewBytes, this]

example : lineAtOff exLazy (posBump exLazy 4) = some (3, 2) ∧ viewBytes exLazy.inp (3, 2) = [99, 100] ∧
    IsLine .lfCrlf exLazy.inp 4 [99, 100] := by
  refine ⟨by decide, by decide, 3, 5, by decide, by decide, by decide⟩
example := C19_line exEager 8 (by decide) (Or.inr ⟨6, by decide, by decide⟩)

/-- All four helpers stay inside the data: `0 ≤ begin_of_line ≤ at ≤ end_of_line ≤ size`. -/
theorem C19_in_bounds (cx : Ctx) (k : Nat) (hk : k ≤ cx.inp.size)
    (hc : cx.init.col = 1 ∨ ∃ j, j < k ∧ isByte cx.inp j (lineBreak cx.eol) = true) :
    ∃ e : Int, endOfLineOff cx (posBump cx k) = some e ∧
      0 ≤ beginOfLineOff cx (posBump cx k) ∧ beginOfLineOff cx (posBump cx k) ≤ atOff cx (posBump cx k) ∧
      atOff cx (posBump cx k) ≤ e ∧ e ≤ cx.inp.size := by
  obtain ⟨b, hb, hbl⟩ := C19_bol cx k hk hc
  obtain ⟨q, hq, hql, _⟩ := C19_eol cx k hk
  have ha := (C19_at cx k hk).1
  have := hbl.1; have := hql.1; have := hql.2.1
  exact ⟨q, hq, by omega, by omega, by omega, by omega⟩

example := C19_in_bounds exLazy 9 (by decide) (Or.inl rfl)
/-- the input of a `rematch` that begins at byte 10, line 3, column 1: everything inside the data -/
example := C19_in_bounds { exLazy with init := ⟨10, 3, 1⟩ } 9 (by decide) (Or.inl rfl)

/-! ### Positions obtained by parsing with `eol` -/

/-- After `n` tokens of `sor< eol, any >` the reported position is the one a scan of the
    consumed prefix reports — for lazy inputs under every policy, for eager inputs under
    every policy but `cr_crlf` — and the cursor is inside the data; so all theorems above
    apply to it. -/
theorem C19_tok_positions (cx : Ctx) (n : Nat) (h : cx.eol ≠ .crCrlf ∨ cx.lazy = true) :
    ∃ k, k ≤ cx.inp.size ∧ posTok cx n = posBump cx k := by
  obtain ⟨⟨h1, h2⟩, hs⟩ := tokWalk_ok cx n cx.start (start_ok cx).1
  refine ⟨(tokWalk cx n cx.start).cur.pos, by rw [← h1]; exact h2, ?_⟩
  unfold posTok
  apply rep_eq_posBump
  rcases h with h | h
  · exact Or.inr (hs h (start_ok cx).2)
  · exact Or.inl h

example : posTok exEager 6 = posBump exEager 7 ∧ posTok exEager 6 = ⟨7, 3, 1⟩ := by decide
example := C19_tok_positions exEager 6 (Or.inl (by decide))
example := C19_tok_positions { exLazy with eol := .crCrlf } 6 (Or.inr rfl)

/-! ### The failures (known findings F10 — column part —, F11) -/

/-- F10, column: initial column 5: on the first line `begin_of_line( p )` lies before `begin()`. -/
theorem C19_initial_column_witness :
    ∃ (cx : Ctx) (k : Nat), k ≤ cx.inp.size ∧ beginOfLineOff cx (posBump cx k) < 0 :=
  ⟨{ g := #[], inp := #[97, 98, 10, 99, 100], eol := .lf, init := ⟨0, 1, 5⟩ }, 1, by decide, by decide⟩

/-- F11: input CR LF 'b' under `cr_crlf`, one `eol` token consumed: the eager input reports
    column 1, so `begin_of_line` is 2; the lazy input reports column 2, so `begin_of_line`
    is 1 (pointing at the LF), which is the begin of the line by `IsLineBegin`
    (the line-break byte of `cr_crlf` is CR). -/
theorem C19_crCrlf_eager_witness :
    let eager : Ctx := { g := #[], inp := #[13, 10, 98], eol := .crCrlf, lazy := false }
    let lazy : Ctx := { eager with lazy := true }
    beginOfLineOff eager (posTok eager 1) = 2 ∧ beginOfLineOff lazy (posTok lazy 1) = 1 ∧
      IsLineBegin .crCrlf eager.inp 2 1 := by
  decide

end C19
end Pegtl
