/-
  Props/C02.lean — property C02: "A locally failing rule never leaves input consumed".

  Whenever any rule is asked to match with rewinding required and reports local failure, the
  input cursor (offset, line and column) is exactly where it was when the attempt started; the
  look-ahead rules never move the cursor whatever their result; on success the cursor never
  moves backwards.

  The theorems quantify over every grammar table `cx.g` (any nesting of the 25 rule kinds of
  Model/Basic.lean, any action attachment), every input, every apply mode, every fuel, and every
  invocation — `run` is the function every sub-rule call goes through, so "every rule invocation
  occurring inside any parsing run" is an instance.  Helper lemmas are in Lemmas/Rewind.lean.
-/
import PegtlVerif.Lemmas.Rewind

namespace Pegtl.C02

/-- Local failure under `rewind_mode::required` restores byte offset, line and column. -/
theorem C02_fail_restores (cx : Ctx) (n i : Nat) (a : AMode) (env : Env) (st : St) (r : Ret)
    (h : run cx n i a .required env st = some r) (hf : r.res = .fail) : r.st.cur = st.cur :=
  (run_good cx n i a .required env st r h).failCur hf rfl

/-- In every outcome — success, local failure under either mode, exception — the cursor is
    never before the point where the invocation started. -/
theorem C02_monotone (cx : Ctx) (n i : Nat) (a : AMode) (m : RMode) (env : Env) (st : St) (r : Ret)
    (h : run cx n i a m env st = some r) : st.cur.pos ≤ r.st.cur.pos :=
  (run_good cx n i a m env st r h).le

/-- The look-ahead rules `at` and `not_at` leave the cursor where it was, whatever the requested
    rewind mode, whatever the result (success, failure, or an exception passing through), and
    whatever action class (including the `match()`-wrapping ones) is attached. -/
theorem C02_lookahead (cx : Ctx) (i c : Nat) (nd : Node)
    (hn : cx.g[i]? = some nd) (hk : nd.kind = .atR c ∨ nd.kind = .notAt c) :
    ∀ (n : Nat) (a : AMode) (m : RMode) (env : Env) (st : St) (r : Ret),
      run cx n i a m env st = some r → r.st.cur = st.cur := by
  intro n
  induction n with
  | zero => intro a m env st r h; simp [run] at h
  | succ n ih =>
    intro a m env st r h
    simp only [run, nodeCall, hn, Option.map_eq_some_iff] at h
    obtain ⟨r0, h0, rfl⟩ := h
    simp only [bracket_st]
    have hbody : ∀ aa mm ee st' r1, body cx (fun i a m env st => run cx n i a m env st) n nd.kind aa mm ee st' = some r1 →
        r1.st.cur = st'.cur := by
      intro aa mm ee st' r1 h1
      rcases hk with hk | hk <;> rw [hk] at h1 <;>
        simp only [body, Option.map_eq_some_iff] at h1 <;> obtain ⟨r2, _, rfl⟩ := h1
      · rfl
      · simp only [alwaysRestore]; split <;> rfl
    have hcore : ∀ aa ee st' r1, nodeCore cx (fun i a m env st => run cx n i a m env st) n i nd aa m ee st' = some r1 →
        r1.st.cur = st'.cur := by
      intro aa ee st' r1 h1
      unfold nodeCore at h1
      split at h1
      · exact hbody _ _ _ _ _ h1
      · simp only [Option.map_eq_some_iff] at h1
        obtain ⟨r2, h2, rfl⟩ := h1
        exact guardRestore_cur_eq (by simpa using hbody _ _ _ _ _ h2)
    split at h0
    · exact hcore _ _ _ _ h0
    · exact ih _ _ _ _ _ h0
    · exact hcore _ _ _ _ h0
    · exact hcore _ _ _ _ h0
    · unfold limitDepthCall at h0
      split at h0
      · simp only [Option.some.injEq] at h0; subst h0; rfl
      · simp only [Option.map_eq_some_iff] at h0
        obtain ⟨r1, h1, rfl⟩ := h0
        simpa using hcore _ _ _ _ h1
    · unfold limitBytesCall at h0
      simp only [Option.map_eq_some_iff] at h0
      obtain ⟨r1, h1, rfl⟩ := h0
      have := hcore _ _ _ _ h1
      split <;> simpa using this
    · simp only [Option.map_eq_some_iff] at h0
      obtain ⟨r1, h1, rfl⟩ := h0
      simpa using hcore _ _ _ _ h1
    · simp only [Option.map_eq_some_iff] at h0
      obtain ⟨r1, h1, rfl⟩ := h0
      simpa using ih _ _ _ _ _ h1
    · exact hcore _ _ _ _ h0

/-- Every atom's one-argument `match( in )` peeks before it bumps: a failing atom leaves the
    whole cursor unchanged (and no atom ever moves it backwards). -/
theorem C02_atoms (cx : Ctx) (a : Atom) (st : St) :
    ((atomStep cx a st).1 = false → (atomStep cx a st).2.cur = st.cur) ∧
    st.cur.pos ≤ (atomStep cx a st).2.cur.pos :=
  ⟨(atomStep_frame cx a st).fail_cur, (atomStep_frame cx a st).mono⟩

/-- When `match()` itself is responsible for rewinding (the rule has an `apply`, or an `apply0`
    returning `bool`), a local failure restores the cursor for *every* requested rewind mode —
    in particular when a `bool` action vetoes a successful match. -/
theorem C02_action_guard (cx : Ctx) (n i : Nat) (a : AMode) (m : RMode) (env : Env) (st : St) (r : Ret) (nd : Node)
    (hn : cx.g[i]? = some nd) (hc : nd.ctl = true) (hw : (cx.actOf env i nd).wrap = .none)
    (hg : useGuard a (cx.actOf env i nd) = true)
    (h : run cx n i a m env st = some r) (hf : r.res = .fail) : r.st.cur = st.cur := by
  cases n with
  | zero => simp [run] at h
  | succ n =>
    simp only [run, nodeCall, hn, hw, nodeCore, hc, Bool.not_true, Bool.false_eq_true, if_false, hg, if_true,
      Option.map_eq_some_iff] at h
    obtain ⟨r0, ⟨r1, _, rfl⟩, rfl⟩ := h
    simp only [bracket_res, guardRestore_res] at hf
    simp only [bracket_st]
    exact guardRestore_req_cur (by simp [hf])

/-! ### Non-vacuity: concrete runs that meet the hypotheses -/

/-- `seq< one<'a'>, one<'b'> >` on "ax": consumes `a`, fails on `x`, and is back at 0. -/
def exG : Grammar := #[
  ⟨true, {}, .seq [1, 2]⟩,
  ⟨true, {}, .atom (.one true [97])⟩,
  ⟨true, {}, .atom (.one true [98])⟩,
  ⟨true, {}, .atR 0⟩,
  ⟨true, { kind := .apply, isBool := true, vetoMod := 1 }, .seq [1, 1]⟩]

def exCx (inp : Array UInt8) : Ctx := { g := exG, inp := inp }

example : ∃ r, run (exCx #[97, 120]) 5 0 .action .required {} (exCx #[97, 120]).start = some r ∧
    r.res = .fail ∧ r.st.cur = ⟨0, 1, 1⟩ := by decide

example : ∃ r, run (exCx #[97, 98]) 5 0 .action .optional {} (exCx #[97, 98]).start = some r ∧
    r.res = .ok ∧ r.st.cur.pos = 2 := by decide

example : ∃ r, run (exCx #[97, 98]) 5 3 .action .optional {} (exCx #[97, 98]).start = some r ∧
    r.res = .ok ∧ r.st.cur = ⟨0, 1, 1⟩ := by decide

/-- a vetoing `bool` action under `rewind_mode::optional`: matched "aa", vetoed, cursor back at 0 -/
example : ∃ r, run (exCx #[97, 97]) 5 4 .action .optional {} (exCx #[97, 97]).start = some r ∧
    r.res = .fail ∧ r.st.cur = ⟨0, 1, 1⟩ ∧ useGuard .action ((exCx #[97, 97]).actOf {} 4 exG[4]) = true := by decide

end Pegtl.C02
