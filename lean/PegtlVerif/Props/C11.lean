/-
  Props/C11.lean — grammar analysis never certifies a grammar that can loop without progress.

  Model:  `Analyze.abstract g` is the entry table `analyze_cycles< … >` builds from the
          `analyze_traits` of every rule of the node table `g`; `Analyze.problems` is
          `analyze_cycles_impl::problems()` (Model/Analyze.lean).  `run cx n i a m env st` is the
          matcher with fuel `n` (Model/Run.lean); `none` = still running after `n` nested steps.

  `C11_terminates` is the statement PEGTL's documentation (doc/Grammar-Analysis.md) calls
  "conjectured, but not proven", for the analysis and the matcher as modelled here, for **all 23
  rule kinds that have `analyze_traits`** (atoms, seq, sor, star/star_partial, opt/partial, plus, at,
  not_at, until (both forms), rep, rep_min_max, rep_opt, if_then_else, rematch, must, if_must/opt_must,
  raise, try_catch_return_false, try_catch_raise_nested, enable, disable, action).  The two kinds
  without traits, `strict` and `star_strict`, make `analyze<>` fail to compile; the model gives
  them an entry that points to itself, so a table containing them never has zero problems.

  Hypotheses besides `problems (abstract g) = 0`:
    * `WF g` — sub-rule ids are in range and derived nodes are what the templates derive
      (decidable; `decide` proves it for concrete tables);
    * `ActionsWF cx` — actions with a `match()` of their own (`change_action`) do not switch the
      action family in a cycle: such a cycle recurses for ever whatever the grammar is;
    * the start state has its cursor inside the window (`parse()` starts at offset 0).
-/
import PegtlVerif.Lemmas.AnalyzeWitness
import PegtlVerif.Lemmas.AnalyzeClosed

namespace Pegtl
open Analyze

/-! ### the analysis itself terminates -/

/-- `work` is total: on a table whose sub-rule names are all keys, `problems()` gets an answer from
    every DFS with the fuel the model gives it (one unit per key). -/
theorem C11_work_total (A : AGrammar) (hc : Closed A) (e : AId) (he : e ∈ A.ids) (accum : Bool) :
    ∃ x, work A A.fuel [] e accum = some x :=
  work_root_total hc he accum

/-- The analysis terminates on every well-formed table: its entry table is closed, so every DFS that
    `problems()` starts gets an answer (the model's out-of-fuel case never happens). -/
theorem C11_analysis_total (g : Grammar) (hwf : WF g) (e : AId) (he : e ∈ (abstract g).ids) (accum : Bool) :
    ∃ x, work (abstract g) (abstract g).fuel [] e accum = some x :=
  analysis_total hwf he accum

/-- More fuel never changes the answer of `work`. -/
theorem C11_work_fuel_mono (A : AGrammar) (f f' : Nat) (hf : f ≤ f') (S : List AId) (e : AId) (accum : Bool)
    (x : Bool × Nat) (h : work A f S e accum = some x) : work A f' S e accum = some x :=
  work_mono_le A hf h

/-! ### every node terminates; "consumes" is sound -/

/-- With zero problems every node terminates on every state and the DFS results are sound. -/
theorem C11_sound (g : Grammar) (hwf : WF g) (h0 : problems (abstract g) = 0)
    (cx : Ctx) (hg : cx.g = g) (hwrap : ActionsWF cx) :
    ∀ L i, i < g.size → Term cx L i ∧ (consumes (abstract g) (.node i) = true → Cons cx i) := by
  intro L
  induction L using Nat.strongRecOn with
  | _ L ihL =>
    intro i hi
    obtain ⟨b, hb⟩ := problems_zero h0 (node_mem_abstract hi)
    have hout : ∀ j, j < g.size → ∀ L' < L, Term cx L' j := fun j hj L' hL' => (ihL L' hL' j hj).1
    have := sound_main hg hwf hwrap L hout _ _ (Nat.le_refl _) [] i b hb hi
    refine ⟨this.1, fun hc => this.2 ?_⟩
    simpa [consumes, hb] using hc

/-- **C11.**  If the analysis reports zero problems for the table `g`, then
    no input drives any rule of `g` into unbounded recursion or a loop without progress: every
    invocation, from any state inside the window, returns with some finite fuel. -/
theorem C11_terminates (g : Grammar) (hwf : WF g) (h0 : problems (abstract g) = 0)
    (cx : Ctx) (hg : cx.g = g) (hwrap : ActionsWF cx) (i : Nat) (hi : i < g.size) (a : AMode) (m : RMode) (env : Env)
    (st : St) (hin : st.cur.pos ≤ st.endp) : ∃ n, run cx n i a m env st ≠ none := by
  obtain ⟨n, r, h⟩ := (C11_sound g hwf h0 cx hg hwrap st.rem i hi).1 a m env st hin (Nat.le_refl _)
  exact ⟨n, by simp [h]⟩

/-- The same for a whole parse: `parse< Rule_i >( in )` on a fresh input returns. -/
theorem C11_parse_terminates (g : Grammar) (hwf : WF g) (h0 : problems (abstract g) = 0)
    (cx : Ctx) (hg : cx.g = g) (hwrap : ActionsWF cx) (i : Nat) (hi : i < g.size) (a : AMode) (m : RMode) :
    ∃ n, parseTop cx n i a m ≠ none :=
  C11_terminates g hwf h0 cx hg hwrap i hi a m {} cx.start (by simp [Ctx.start])

/-- Contrapositive: a grammar on which some invocation never returns is reported. -/
theorem C11_contrapositive (g : Grammar) (hwf : WF g) (cx : Ctx) (hg : cx.g = g)
    (hwrap : ActionsWF cx) (i : Nat) (hi : i < g.size) (a : AMode) (m : RMode) (env : Env) (st : St) (hin : st.cur.pos ≤ st.endp)
    (hloop : ∀ n, run cx n i a m env st = none) : problems (abstract g) ≠ 0 := by
  intro h0
  obtain ⟨n, hn⟩ := C11_terminates g hwf h0 cx hg hwrap i hi a m env st hin
  exact hn (hloop n)

/-- `m_results`: an entry the analysis marks "consumes" advances the cursor whenever it matches. -/
theorem C11_consumes_sound (g : Grammar) (hwf : WF g) (h0 : problems (abstract g) = 0)
    (cx : Ctx) (hg : cx.g = g) (hwrap : ActionsWF cx) (i : Nat) (hi : i < g.size)
    (hc : consumes (abstract g) (.node i) = true)
    (n : Nat) (a : AMode) (m : RMode) (env : Env) (st : St) (r : Ret) (h : run cx n i a m env st = some r)
    (hok : r.res = .ok) : st.cur.pos < r.st.cur.pos :=
  (C11_sound g hwf h0 cx hg hwrap 0 i hi).2 hc n a m env st r h hok

/-! ### witnesses (the tables are in Lemmas/AnalyzeWitness.lean) -/

/-- Direct left recursion `R = seq< R, 'a' >` is reported. -/
theorem C11_reports_left_recursion : problems (abstract gLeftRec) ≠ 0 := by decide

/-- Left recursion in a non-first alternative, `R = sor< at< 'a' >, seq< R, 'b' > >` (finding F6), is reported. -/
theorem C11_reports_sor_nonfirst : problems (abstract gSorSecond) ≠ 0 := by decide

/-- `star< opt< 'a' > >` is reported. -/
theorem C11_reports_nullable_star : problems (abstract gNullableStar) ≠ 0 := by decide

/-- `until< 'b', star< 'a' > >` is reported. -/
theorem C11_reports_nullable_until : problems (abstract gNullableUntil) ≠ 0 := by decide

/-- Left recursion through the inner rule of `rematch` and through `not_at` is reported. -/
theorem C11_reports_rematch_and_predicate :
    problems (abstract gRematchInner) ≠ 0 ∧ problems (abstract gNotAtRec) ≠ 0 := by decide

/-- The left-recursive witness really loops: no amount of fuel is enough, on any input. -/
theorem C11_left_recursion_loops (inp : Array UInt8) (a : AMode) (m : RMode) (env : Env) (st : St) (n : Nat) :
    run (plainCtx gLeftRec inp) n 0 a m env st = none :=
  leftRec_loops inp a m env st n

/-- Non-vacuity of `C11_terminates`: recursive grammars that meet every hypothesis — a small one and
    one that uses 18 rule kinds (until, rep_min_max, if_then_else, rematch, if_must, opt_must, …). -/
example : WF gGood ∧ problems (abstract gGood) = 0 := by decide
example : WF gRich ∧ problems (abstract gRich) = 0 := by decide

example (inp : Array UInt8) : ∃ n, parseTop (plainCtx gGood inp) n 0 .action .required ≠ none :=
  C11_parse_terminates gGood (by decide) (by decide) _ rfl
    (actionsWF_plainCtx _ _ (by decide)) 0 (by decide) _ _

example (inp : Array UInt8) : ∃ n, parseTop (plainCtx gRich inp) n 0 .action .required ≠ none :=
  C11_parse_terminates gRich (by decide) (by decide) _ rfl
    (actionsWF_plainCtx _ _ (by decide)) 0 (by decide) _ _

/-- Non-vacuity of `C11_contrapositive`: its hypotheses hold for the left-recursive witness. -/
example : problems (abstract gLeftRec) ≠ 0 :=
  C11_contrapositive gLeftRec (by decide) (plainCtx gLeftRec #[97]) rfl
    (actionsWF_plainCtx _ _ (by decide)) 0 (by decide) .action .required {}
    (Ctx.start (plainCtx gLeftRec #[97])) (by simp [Ctx.start])
    (fun n => C11_left_recursion_loops #[97] .action .required {} (Ctx.start (plainCtx gLeftRec #[97])) n)

/-- Non-vacuity of `C11_consumes_sound`: the analysis marks the top rules as consuming. -/
example : consumes (abstract gGood) (.node 0) = true ∧ consumes (abstract gRich) (.node 0) = true := by decide

/-- Non-vacuity of `C11_work_total` / `C11_analysis_total`: the tables are closed / well-formed. -/
example : Closed (abstract gGood) := abstract_closed (by decide)
example : ∃ x, work (abstract gRich) (abstract gRich).fuel [] (.node 0) false = some x :=
  C11_analysis_total gRich (by decide) _ (by decide) _

end Pegtl
