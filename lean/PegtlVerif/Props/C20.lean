/-
  Props/C20.lean — property C20: "The URI grammar accepts exactly RFC 3986 URI references".

  The shipped URI grammar's top-level rules (URI, URI-reference, absolute-URI, IPv4address,
  IPv6address), followed by end of input, accept a byte string if and only if it is derivable from
  the corresponding RFC 3986 production; a global failure counts as rejection and no other kind of
  exception occurs.

  Objects.
  * `Expected.uri` — the node table of contrib/uri.hpp (+ the contrib/abnf.hpp rules it uses),
    translated from the header; every run re-translates /repo's header and proves
    `Gen.uri = Expected.uri` (`C20_sync`, in Audit/C20Sync.lean because Gen/ exists only after a run).
  * `Sem (Gof Expected.uri) …` — the PEG-with-errors semantics of that table (Spec/Peg.lean); the
    executable model `run` refines it for this table (`C20_wft` + C01/C09), and the differential run
    of ./check C20 compares both with the real parser on every explored input.
  * `Derives rfc3986 (.ref X) s` — context-free derivability from RFC 3986 Appendix A
    (Spec/Rfc3986.lean; the same ABNF text the Python oracle reads, `c20_rfc_sync`).

  Proved: soundness ("accepted ⇒ derivable") for all five top-level rules and for every named rule
  of the grammar; exactness of `dec_octet`; the exception discipline.
  Refuted: completeness ("derivable ⇒ accepted"), at the one call site `host` (`C20_host_witness`,
  known finding F9).  Completeness elsewhere is explored by ./check C20, not proved — the property
  is claimed **partial**.
-/
import PegtlVerif.Lemmas.UriSound
import PegtlVerif.Lemmas.UriDecOctet
import PegtlVerif.Lemmas.UriExc
import PegtlVerif.Props.C01

set_option maxRecDepth 16384

namespace Pegtl.C20
open Pegtl Pegtl.Spec Pegtl.Spec.Abnf Pegtl.Spec.Rfc3986 Pegtl.Uri

/-- The top-level rules the property is about. -/
inductive Top | URI | URI_reference | absolute_URI | IPv4address | IPv6address
  deriving DecidableEq, Repr

/-- Node of `struct X` in `Expected.uri`. -/
def Top.rule : Top → Nat
  | .URI => 38 | .URI_reference => 39 | .absolute_URI => 40 | .IPv4address => 4 | .IPv6address => 8

/-- Node of `seq< uri::X, eof >` in `Expected.uri` (what the harness parses with). -/
def Top.root : Top → Nat
  | .URI => 127 | .URI_reference => 129 | .absolute_URI => 130 | .IPv4address => 131 | .IPv6address => 132

/-- The RFC 3986 production of the same name. -/
def Top.rfc : Top → RuleName
  | .URI => .URI | .URI_reference => .URI_reference | .absolute_URI => .absolute_URI
  | .IPv4address => .IPv4address | .IPv6address => .IPv6address

/-- `Top.rule` / `Top.root` are the ids the translator assigned (name tables of Expected/Uri.lean), and every
    root is `seq< X, eof >`. -/
theorem C20_tops :
    Expected.uriTops = [("uri::URI", Top.URI.root), ("uri::URI_reference", Top.URI_reference.root),
      ("uri::absolute_URI", Top.absolute_URI.root), ("uri::IPv4address", Top.IPv4address.root),
      ("uri::IPv6address", Top.IPv6address.root)] ∧
    (∀ X : Top, Expected.uriNames.lookup (match X with
        | .URI => "uri::URI" | .URI_reference => "uri::URI_reference" | .absolute_URI => "uri::absolute_URI"
        | .IPv4address => "uri::IPv4address" | .IPv6address => "uri::IPv6address") = some X.rule) ∧
    (∀ X : Top, G X.root = some (.seq (.ref X.rule) (.seq (.ref 128) .eps))) ∧ G 128 = some (.atom .eof) := by
  refine ⟨by decide, ?_, ?_, by decide +kernel⟩
  · intro X; cases X <;> decide
  · intro X; cases X <;> decide +kernel

example : (Expected.uri[127]?).map (·.kind) = some (.seq [38, 128]) := by decide +kernel

/-! ## The table satisfies the hypotheses of the refinement theorems -/

/-- `Expected.uri` is a well-formed table in the sense of C01/C09 (only offset-based atoms, `rep_min_max` /
    `if_must` shapes as generated, no throwing or vetoing actions): hence, for every input, whatever the
    executable model `run` returns is what `Sem` prescribes (`C01_sound`, `C09_refines`). -/
theorem C20_wft (inp : Array UInt8) : WFT (cxOf inp) :=
  wftCheck_sound (by show wftCheck { g := Expected.uri, inp := #[] } = true; decide +kernel)

example : ∃ r, run (cxOf #[115, 58]) 40 Top.URI.root .action .required {} (cxOf #[115, 58]).start = some r ∧ r.res = .ok := by
  decide +kernel   -- "s:"

/-! ## Exceptions -/

/-- Where the table can raise at all: the `must` nodes, each with the rule it blames, … -/
theorem C20_raise_sites :
    ((List.range Expected.uri.size).filterMap fun i =>
      match ((Expected.uri[i]?).map (·.kind) : Option Kind) with
      | some (Kind.must c) => some (i, c)
      | _ => none) =
      [(83, 84), (85, 41), (86, 87), (91, 92), (93, 94), (97, 2), (119, 33), (120, 22), (123, 17), (126, 18)] ∧
    -- … no `raise`, `try_catch_*` or action node, no action attached anywhere, …
    (Expected.uri.toList.all fun nd => nd.act == {} && match nd.kind with
      | .raise _ | .tryCatchReturnFalse .. | .tryCatchRaiseNested .. | .action .. => false
      | _ => true) = true ∧
    -- … and the `must` nodes are reached only as the tail of these `if_must` / `opt_must` nodes.
    ((List.range Expected.uri.size).filterMap fun i =>
      match ((Expected.uri[i]?).map (·.kind) : Option Kind) with
      | some (Kind.ifMust d _ _) => some (i, d)
      | _ => none) =
      [(13, false), (14, false), (15, false), (116, false), (121, true), (124, true)] := by
  decide +kernel

/-- In the PEG semantics of the table every global failure blames one of the ten `must` targets … -/
theorem C20_sem_errors {eol : Eol} {inp : Array UInt8} {endp i p : Nat} {b : Blame}
    (h : Sem G eol inp endp (.ref i) p (.err b)) : ∃ l, l ∈ mustTargets ∧ b = .parse l := by
  obtain ⟨l, hl, rfl⟩ := sem_err uri_raises h (by simp [RaisesOnly, noCatchN, raiseLabels]) b rfl
  exact ⟨l, by simpa using hl, rfl⟩

/-- … hence a run of the model over the table, on any input and with any fuel, throws nothing but a
    `parse_error` (never a foreign exception, never a nested one) raised by `must` for one of those rules. -/
theorem C20_exceptions (X : Top) (inp : Array UInt8) (n : Nat) (r : Ret) (x : Exc)
    (h : run (cxOf inp) n X.root .action .required {} (cxOf inp).start = some r) (hx : r.res = .thr x) :
    ∃ l c, x = .parse l c ∧ l ∈ mustTargets := by
  have hs := C01.C01_sound (cxOf inp) (C20_wft inp) n X.root .action .required {} _ r (start_valid inp) h
  rw [hx] at hs
  obtain ⟨b, hb, hsem⟩ := hs
  obtain ⟨l, hl, rfl⟩ := C20_sem_errors hsem
  cases x with
  | parse i c =>
    simp only [blameOf, Option.some.injEq, Blame.parse.injEq] at hb
    exact ⟨i, c, rfl, hb ▸ hl⟩
  | nested i c e =>
    simp only [blameOf, Option.map_eq_some_iff] at hb
    obtain ⟨_, _, hb⟩ := hb
    cases hb
  | foreign k s => simp [blameOf] at hb

/-- "s://[x": the `if_must` of `IP_literal` raises at byte 5, blaming `sor< IPvFuture, IPv6address >`. -/
example : ∃ r, run (cxOf #[115, 58, 47, 47, 91, 120]) 60 Top.URI.root .action .required {}
      (cxOf #[115, 58, 47, 47, 91, 120]).start = some r ∧ r.res = .thr (.parse 92 ⟨5, 1, 6⟩) := by
  decide +kernel

/-! ## dec-octet -/

/-- `dec_octet : maximum_rule< std::uint8_t >` is exactly RFC 3986 `dec-octet`
    (`DIGIT / %x31-39 DIGIT / "1" 2DIGIT / "2" %x30-34 DIGIT / "25" %x30-35`):
    (1) as languages: the RFC production derives exactly the canonical decimal numerals ≤ 255;
    (2) as a rule: it succeeds iff the *whole* digit run at the cursor is one `dec-octet` and consumes that
        run (maximal munch — it does not stop after "25" in "256", and fails on a superfluous leading zero). -/
theorem C20_dec_octet :
    (∀ s : List UInt8, Derives rfc3986 (.ref .dec_octet) s ↔
      (Numeral.AllDigits s ∧ Numeral.Canonical s ∧ Numeral.value s ≤ 255)) ∧
    (∀ (eol : Eol) (inp : Array UInt8) (endp p q : Nat),
      atomSem eol inp endp (.maxDigits 255) p = some q ↔
        (Derives rfc3986 (.ref .dec_octet) (digitRunAt inp endp p) ∧ q = p + (digitRunAt inp endp p).length)) ∧
    (Expected.uri[Expected.uriNames.lookup "uri::dec_octet" |>.getD 0]?).map (·.kind) = some (.atom (.maxDigits 255)) :=
  ⟨dec_octet_iff, maxDigits_iff, by decide +kernel⟩

example : Derives rfc3986 (.ref .dec_octet) [50, 53, 53] := (C20_dec_octet.1 _).2 (by decide)          -- "255"
example : ¬ Derives rfc3986 (.ref .dec_octet) [50, 53, 54] := fun h => absurd ((C20_dec_octet.1 _).1 h) (by decide)  -- "256"
example : ¬ Derives rfc3986 (.ref .dec_octet) [48, 49] := fun h => absurd ((C20_dec_octet.1 _).1 h) (by decide)      -- "01"
/-- "1.2.3.45": at offset 6 the rule takes "45"; "1.2.3.456": it fails on "456" rather than taking "45". -/
example : atomSem .lfCrlf #[49, 46, 50, 46, 51, 46, 52, 53] 8 (.maxDigits 255) 6 = some 8 ∧
    atomSem .lfCrlf #[49, 46, 50, 46, 51, 46, 52, 53, 54] 9 (.maxDigits 255) 6 = none := by decide

/-! ## Soundness: accepted ⇒ derivable -/

/-- Rule by rule: whatever a successful invocation of a rule of contrib/uri.hpp consumed — anywhere in any
    input — is derivable from the RFC 3986 production of the same name.  All 39 productions of Appendix A
    (incl. ALPHA / DIGIT / HEXDIG) except `path` … which is covered too; `dcolon`, `opt_userinfo` have no RFC name. -/
theorem C20_rule_sound :
    ∀ p ∈ [(0, RuleName.ALPHA), (1, .DIGIT), (2, .HEXDIG), (3, .dec_octet), (4, .IPv4address), (5, .h16), (6, .ls32),
      (8, .IPv6address), (9, .gen_delims), (10, .sub_delims), (11, .unreserved), (12, .reserved), (13, .IPvFuture),
      (14, .IP_literal), (15, .pct_encoded), (16, .pchar), (17, .query), (18, .fragment), (19, .segment),
      (20, .segment_nz), (21, .segment_nz_nc), (22, .path_abempty), (23, .path_absolute), (24, .path_noscheme),
      (25, .path_rootless), (26, .path_empty), (27, .path), (28, .reg_name), (29, .port), (30, .host), (31, .userinfo),
      (33, .authority), (34, .scheme), (35, .hier_part), (36, .relative_part), (37, .relative_ref), (38, .URI),
      (39, .URI_reference), (40, .absolute_URI)],
    ∀ s, Acc (Gof Expected.uri) p.1 s → Derives rfc3986 (.ref p.2) s := by
  intro p hp
  simp only [List.mem_cons, List.not_mem_nil, or_false] at hp
  rcases hp with rfl | rfl | rfl | rfl | rfl | rfl | rfl | rfl | rfl | rfl | rfl | rfl | rfl | rfl | rfl | rfl | rfl | rfl |
    rfl | rfl | rfl | rfl | rfl | rfl | rfl | rfl | rfl | rfl | rfl | rfl | rfl | rfl | rfl | rfl | rfl | rfl | rfl | rfl | rfl
  all_goals first | exact ALPHA_sound | exact DIGIT_sound | exact HEXDIG_sound | exact dec_octet_sound | exact IPv4address_sound | exact h16_sound | exact ls32_sound | exact IPv6address_sound | exact gen_delims_sound | exact sub_delims_sound | exact unreserved_sound | exact reserved_sound | exact IPvFuture_sound | exact IP_literal_sound | exact pct_encoded_sound | exact pchar_sound | exact query_sound | exact fragment_sound | exact segment_sound | exact segment_nz_sound | exact segment_nz_nc_sound | exact path_abempty_sound | exact path_absolute_sound | exact path_noscheme_sound | exact path_rootless_sound | exact path_empty_sound | exact path_sound | exact reg_name_sound | exact port_sound | exact host_sound | exact userinfo_sound | exact authority_sound | exact scheme_sound | exact hier_part_sound | exact relative_part_sound | exact relative_ref_sound | exact URI_sound | exact URI_reference_sound | exact absolute_URI_sound

/-- The pairs above are the translator's name table (`uri::x_y` ↔ RFC `x-y`; the two unnamed helpers left out). -/
example : (Expected.uriNames.filter fun p => p.1 ≠ "uri::dcolon" ∧ p.1 ≠ "uri::opt_userinfo").map (·.2) =
    [0, 1, 2, 3, 4, 5, 6, 8, 9, 10, 11, 12, 13, 14, 15, 16, 17, 18, 19, 20, 21, 22, 23, 24, 25, 26, 27, 28, 29, 30, 31,
     33, 34, 35, 36, 37, 38, 39, 40] := by decide

/-- **Soundness.**  If `seq< uri::X, eof >` succeeds on an input (PEG semantics of the translated table),
    the input is derivable from the RFC 3986 production `X` — for X ∈ { URI, URI-reference, absolute-URI,
    IPv4address, IPv6address }. -/
theorem C20_sound (X : Top) (eol : Eol) (inp : Array UInt8) (q : Nat)
    (h : Sem (Gof Expected.uri) eol inp inp.size (.ref X.root) 0 (.ok q)) :
    Derives rfc3986 (.ref X.rfc) inp.toList := by
  have hA := (top_inv (C20_tops.2.2.1 X) h).1
  cases X
  · exact URI_sound _ hA
  · exact URI_reference_sound _ hA
  · exact absolute_URI_sound _ hA
  · exact IPv4address_sound _ hA
  · exact IPv6address_sound _ hA

/-- The same about the executable model that the differential run ties to the real parser: if
    `parse< seq< uri::X, eof > >` (as modelled by `run` on `Expected.uri`) returns `true`, the input is
    derivable from the RFC production. -/
theorem C20_sound_run (X : Top) (inp : Array UInt8) (n : Nat) (r : Ret)
    (h : run (cxOf inp) n X.root .action .required {} (cxOf inp).start = some r) (hok : r.res = .ok) :
    Derives rfc3986 (.ref X.rfc) inp.toList := by
  have hs := C01.C01_sound (cxOf inp) (C20_wft inp) n X.root .action .required {} _ r (start_valid inp) h
  rw [hok] at hs
  exact C20_sound X _ inp _ hs

/-- "http://a/b?c#d" is accepted as a URI (so the hypothesis of `C20_sound` is met non-trivially) … -/
example : ∃ r, run (cxOf #[104, 116, 116, 112, 58, 47, 47, 97, 47, 98, 63, 99, 35, 100]) 80 Top.URI.root .action .required {}
      (cxOf #[104, 116, 116, 112, 58, 47, 47, 97, 47, 98, 63, 99, 35, 100]).start = some r ∧ r.res = .ok := by
  decide +kernel

/-- … and "::1.2.3.4" as an IPv6address (seventh alternative, embedded IPv4). -/
example : Derives rfc3986 (.ref .IPv6address) [58, 58, 49, 46, 50, 46, 51, 46, 52] := by
  have h : ∃ r, run (cxOf #[58, 58, 49, 46, 50, 46, 51, 46, 52]) 80 Top.IPv6address.root .action .required {}
      (cxOf #[58, 58, 49, 46, 50, 46, 51, 46, 52]).start = some r ∧ r.res = .ok := by decide +kernel
  obtain ⟨r, hr, hok⟩ := h
  exact C20_sound_run .IPv6address _ 80 r hr hok

/-! ## Completeness fails at `host` (known finding F9) -/

/-- "s://1.2.3.4x" -/
def hostWitness : Array UInt8 := #[115, 58, 47, 47, 49, 46, 50, 46, 51, 46, 52, 120]

/-- **Completeness is false.**  RFC 3986 derives "s://1.2.3.4x" as a URI (host = reg-name "1.2.3.4x"), but
    `seq< uri::URI, eof >` fails on it: `host = sor< IP_literal, IPv4address, reg_name >` commits to the
    IPv4address prefix "1.2.3.4", after which neither `:port`, a path, `?`, `#` nor `eof` matches "x". -/
theorem C20_host_witness :
    Derives rfc3986 (.ref .URI) hostWitness.toList ∧
    Sem (Gof Expected.uri) .lfCrlf hostWitness hostWitness.size (.ref Top.URI.root) 0 .fail := by
  refine ⟨recognise_sound (f := 40) (by decide +kernel), ?_⟩
  have h : ∃ r, run (cxOf hostWitness) 80 Top.URI.root .action .required {} (cxOf hostWitness).start = some r ∧
      r.res = .fail := by decide +kernel
  obtain ⟨r, hr, hf⟩ := h
  have hs := C01.C01_sound (cxOf hostWitness) (C20_wft _) 80 Top.URI.root .action .required {} _ r (start_valid _) hr
  rw [hf] at hs
  exact hs

/-- …and it is not accepted in any other way: the semantics is deterministic. -/
theorem C20_host_witness_not_ok (q : Nat) :
    ¬ Sem (Gof Expected.uri) .lfCrlf hostWitness hostWitness.size (.ref Top.URI.root) 0 (.ok q) :=
  fun h => by cases Sem.det h C20_host_witness.2

/-- The control used by the check to recognise F9: the same input with the IPv4 prefix broken, "s://1-2.3.4x",
    is accepted. -/
example : ∃ r, run (cxOf #[115, 58, 47, 47, 49, 45, 50, 46, 51, 46, 52, 120]) 80 Top.URI.root .action .required {}
      (cxOf #[115, 58, 47, 47, 49, 45, 50, 46, 51, 46, 52, 120]).start = some r ∧ r.res = .ok := by
  decide +kernel

/-
  Not proved (explored by ./check C20 on every run: exhaustive short strings, ABNF samples, mutations,
  IP forms):

    theorem C20_complete (X : Top) (inp : Array UInt8) :
        Derives rfc3986 (.ref X.rfc) inp.toList → ¬ F9shape inp →
        Sem (Gof Expected.uri) .lfCrlf inp inp.size (.ref X.root) 0 (.ok inp.size)

  (false without the `F9shape` exclusion by `C20_host_witness`; with it, a proof has to show for every
  ordered choice of the grammar — `host`, `ls32`, the nine alternatives of `IPv6address`, `path`-like
  choices in `hier_part` / `relative_part`, `URI_reference` — that an earlier alternative matching a
  proper prefix never pre-empts the derivation, and for every greedy `star` / `opt` that the longest
  match is the right one.)
-/

end Pegtl.C20
