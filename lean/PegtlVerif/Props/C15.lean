/-
  Props/C15.lean — property C15: "Integer rules and conversions are exact or report overflow".

  The integer rules of contrib/integer.hpp accept exactly the documented numeral syntax
  (optional sign where allowed, no superfluous leading zeros) and, when converting, either store
  the mathematically exact value in the target type or report overflow (exception, or local
  failure for the bounded rule); they never store a wrapped or truncated value — for every
  integer type (any width `w ≥ 1`, signed and unsigned) and every explicit `Maximum`.

  Model: Model/Integer.lean (transcription of integer.hpp; outcomes `bad` = arithmetic left the
  type's range, `oob` = read/bump outside the window, `fuel` = loop did not terminate).
  Meaning: Spec/Numeral.lean (`value` = positional notation over ℕ, `unsignedLen`/`signedLen` =
  documented syntax, `umax/smax/smin` = ranges of the C++ types).
  Vocabulary: `adv i n` (input after consuming `n` bytes), `ExactOrOverflow`, `Safe`
  (Lemmas/Integer.lean, last section).
-/
import PegtlVerif.Lemmas.Integer

namespace Pegtl.C15
open Pegtl.Integer
open Pegtl.Spec.Numeral (value digitVal AllDigits digitRun Canonical unsignedLen signedLen signedValue umax smax smin)
open Pegtl.Spec

/-! ## Conversions -/

/-- `accumulate_digit< Integer, Maximum >` never wraps: for `Maximum ≤ max(Integer)` and a digit
    `c` it returns `true` with `result*10 + c` exactly when that value is `≤ Maximum` (so every
    intermediate, `result*10` and `result*10 + c`, is `≤ Maximum ≤ max(Integer)`), and `false`
    exactly when it would exceed `Maximum`; the checked arithmetic never leaves the type. -/
theorem C15_acc_digit {tmax max r : Nat} {c : UInt8} (hmax : max ≤ tmax)
    (hc : Numeral.isDigit c = true) :
    (∀ r', accDigit tmax max r c = .ok r' ↔ (r * 10 + digitVal c ≤ max ∧ r' = r * 10 + digitVal c)) ∧
    (accDigit tmax max r c = .overflow ↔ max < r * 10 + digitVal c) ∧
    accDigit tmax max r c ≠ .bad := by
  have hd : c.toNat - 48 ≤ 9 := digitVal_le (by rwa [isDigit_eq_spec])
  rw [accDigit_spec hmax hd]
  unfold digitVal
  by_cases h : r * 10 + (c.toNat - 48) ≤ max
  · rw [if_pos h]
    refine ⟨fun r' => ⟨fun e => ⟨h, ?_⟩, fun e => ?_⟩, ⟨fun e => by simp at e, fun e => by omega⟩, by simp⟩
    · injection e with e; exact e.symm
    · rw [e.2]
  · rw [if_neg h]
    exact ⟨fun r' => ⟨fun e => by simp at e, fun e => absurd e.1 h⟩, ⟨fun _ => by omega, fun _ => rfl⟩, by simp⟩

example : accDigit 255 255 25 53 = .ok 255 := by decide           -- "25" then '5'
example : accDigit 255 255 25 54 = .overflow := by decide         -- "25" then '6'
example : accDigit 255 255 26 48 = .overflow := by decide         -- "26" then '0'
example : (255 : Nat) ≤ 255 ∧ Numeral.isDigit 53 = true := by decide

/-- `convert_positive< Integer, Maximum >` / `convert_unsigned< Unsigned, Maximum >` on a digit
    string: stores exactly `value ds` iff `value ds ≤ Maximum`, reports overflow iff it is larger,
    and no intermediate value leaves the type. -/
theorem C15_positive {tmax max : Nat} (hmax : max ≤ tmax) (ds : List UInt8) (hd : AllDigits ds) :
    (∀ v, convertPositive tmax max ds = .ok v ↔ (value ds ≤ max ∧ v = value ds)) ∧
    (convertPositive tmax max ds = .overflow ↔ max < value ds) ∧
    convertPositive tmax max ds ≠ .bad := by
  rw [convertPositive_spec hmax ds hd]
  by_cases h : value ds ≤ max
  · rw [if_pos h]
    refine ⟨fun v => ⟨fun e => ⟨h, ?_⟩, fun e => by rw [e.2]⟩, ⟨fun e => by simp at e, fun e => by omega⟩, by simp⟩
    injection e with e; exact e.symm
  · rw [if_neg h]
    exact ⟨fun v => ⟨fun e => by simp at e, fun e => absurd e.1 h⟩, ⟨fun _ => by omega, fun _ => rfl⟩, by simp⟩

example : convertPositive 65535 65535 [54, 53, 53, 51, 53] = .ok 65535 := by decide     -- "65535" → uint16
example : convertPositive 65535 65535 [54, 53, 53, 51, 54] = .overflow := by decide     -- "65536"
example : convertPositive 255 100 [49, 48, 49] = .overflow := by decide                 -- "101", Maximum 100
example : AllDigits [54, 53, 53, 51, 53] := by decide

/-- `convert_negative< Signed >` for a `w`-bit type: stores exactly `-(value ds)` iff
    `value ds ≤ 2^(w-1)` (i.e. `-(value ds) ≥ min(Signed)`), reports overflow iff larger.  The
    accumulation happens in the unsigned type with maximum `2^(w-1) ≤ 2^w - 1`, the negation
    `~t + 1` is arithmetic mod `2^w`, and the final conversion is the two's-complement
    reinterpretation — exact, including the most negative value. -/
theorem C15_negative {w : Nat} (hw : 1 ≤ w) (ds : List UInt8) (hd : AllDigits ds) :
    (∀ v, convertNegative w ds = .ok v ↔ (value ds ≤ 2 ^ (w - 1) ∧ v = -(value ds : Int))) ∧
    (convertNegative w ds = .overflow ↔ 2 ^ (w - 1) < value ds) ∧
    convertNegative w ds ≠ .bad := by
  rw [convertNegative_spec hw ds hd]
  by_cases h : value ds ≤ 2 ^ (w - 1)
  · rw [if_pos h]
    refine ⟨fun v => ⟨fun e => ⟨h, ?_⟩, fun e => by rw [e.2]⟩, ⟨fun e => by simp at e, fun e => by omega⟩, by simp⟩
    injection e with e; exact e.symm
  · rw [if_neg h]
    exact ⟨fun v => ⟨fun e => by simp at e, fun e => absurd e.1 h⟩, ⟨fun _ => by omega, fun _ => rfl⟩, by simp⟩

example : convertNegative 8 [49, 50, 56] = .ok (-128) := by decide          -- "-128" → int8
example : convertNegative 8 [49, 50, 57] = .overflow := by decide           -- "-129"
example : convertNegative 32 [50, 49, 52, 55, 52, 56, 51, 54, 52, 56] = .ok (-2147483648) := by decide
example : convertNegative 8 [48] = .ok 0 := by decide                       -- "-0"

/-- `convert_signed< Signed >` on `[sign] digits`: stores exactly the signed value iff it lies in
    `[min(Signed), max(Signed)]`, reports overflow otherwise. -/
theorem C15_signed {w : Nat} (hw : 1 ≤ w) (s : List UInt8)
    (hs : match s with
          | [] => False
          | c :: rest => if c = 45 ∨ c = 43 then AllDigits rest else AllDigits s) :
    (∀ v, convertSigned w s = .ok v ↔
        ((smin w ≤ signedValue s ∧ signedValue s ≤ (smax w : Int)) ∧ v = signedValue s)) ∧
    (convertSigned w s = .overflow ↔ ¬ (smin w ≤ signedValue s ∧ signedValue s ≤ (smax w : Int))) ∧
    convertSigned w s ≠ .bad := by
  rw [convertSigned_spec hw s hs]
  by_cases h : smin w ≤ signedValue s ∧ signedValue s ≤ (smax w : Int)
  · rw [if_pos h]
    refine ⟨fun v => ⟨fun e => ⟨h, ?_⟩, fun e => by rw [e.2]⟩, ⟨fun e => by simp at e, fun e => absurd h e⟩, by simp⟩
    injection e with e; exact e.symm
  · rw [if_neg h]
    exact ⟨fun v => ⟨fun e => by simp at e, fun e => absurd e.1 h⟩, ⟨fun _ => h, fun _ => rfl⟩, by simp⟩

example : convertSigned 16 [45, 51, 50, 55, 54, 56] = .ok (-32768) := by decide     -- "-32768" → int16
example : convertSigned 16 [43, 51, 50, 55, 54, 56] = .overflow := by decide        -- "+32768"
example : convertSigned 16 [51, 50, 55, 54, 55] = .ok 32767 := by decide            -- "32767"
example : (match ([45, 51] : List UInt8) with
           | [] => False
           | c :: rest => if c = 45 ∨ c = 43 then AllDigits rest else AllDigits [45, 51]) := by decide

/-! ## Syntax -/

/-- `unsigned_rule` (`internal::match_unsigned`) accepts exactly `0 | [1-9][0-9]*` with maximal
    munch: it succeeds iff the maximal digit run at the cursor is a canonical numeral, consumes
    exactly that run, and on failure consumes nothing.  The hand-written matcher and the grammar
    `unsigned_rule_new` run by the generic machinery agree with the documented syntax. -/
theorem C15_syntax_u (i : Inp) :
    (unsignedRule i = match unsignedLen i.rest with
                      | some n => .ok (adv i n) 0
                      | none => .fail i) ∧
    unsignedRuleNew i = unsignedRule i := by
  have h := matchUnsigned_spec i
  exact ⟨h, by rw [unsignedRuleNew_spec]; exact h.symm⟩

example : unsignedRule ⟨0, [49, 50, 120]⟩ = .ok ⟨2, [120]⟩ 0 := by decide       -- "12x"
example : unsignedRule ⟨0, [48, 49]⟩ = .fail ⟨0, [48, 49]⟩ := by decide         -- "01": nothing consumed
example : unsignedRule ⟨3, [48]⟩ = .ok ⟨4, []⟩ 0 := by decide                   -- "0" at end of input
example : unsignedLen [48, 49] = none ∧ unsignedLen [49, 50, 120] = some 2 := by decide

/-- `signed_rule` (= `parse< signed_rule_new >` under `rewind_mode::required`) accepts exactly
    `[-+]? ( 0 | [1-9][0-9]* )` with maximal munch; on failure — also after the sign was
    consumed — the input is back at the start. -/
theorem C15_syntax_s (i : Inp) :
    signedRule i = match signedLen i.rest with
                   | some n => .ok (adv i n) 0
                   | none => .fail i :=
  signedRuleNew_spec i

example : signedRule ⟨0, [45, 55, 43]⟩ = .ok ⟨2, [43]⟩ 0 := by decide           -- "-7+"
example : signedRule ⟨0, [45, 120]⟩ = .fail ⟨0, [45, 120]⟩ := by decide         -- "-x": rewound over the sign
example : signedRule ⟨0, [43, 48, 48]⟩ = .fail ⟨0, [43, 48, 48]⟩ := by decide   -- "+00"

/-- The documented syntax is the PEG meaning of the grammars `unsigned_rule_new` and `signed_rule_new`
    given in integer.hpp (with `if_then_else< R, S, T >` read as documented:
    `sor< seq< R, S >, seq< not_at< R >, T > >`): the big-step PEG relation `Sem` of Spec/Peg.lean
    assigns them, at every position `p` of every input, exactly the outcome `unsignedLen` /
    `signedLen` compute on the window `[p, endp)`.  With `C15_syntax_u` / `C15_syntax_s`:
    `unsigned_rule` ≡ Sem of `unsigned_rule_new`, `signed_rule` ≡ Sem of `signed_rule_new`. -/
theorem C15_syntax_peg (G : Nat → Option PExp) (eol : Eol) (inp : Array UInt8) (endp : Nat)
    (he : endp ≤ inp.size) (p : Nat) :
    Sem G eol inp endp unsignedNewE p
      (match unsignedLen (win inp endp p) with
       | some n => .ok (p + n)
       | none => .fail) ∧
    Sem G eol inp endp signedNewE p
      (match signedLen (win inp endp p) with
       | some n => .ok (p + n)
       | none => .fail) :=
  ⟨sem_unsignedNew G eol inp endp he p, sem_signedNew G eol inp endp he p⟩

example : Sem (fun _ => none) .lf #[120, 49, 50, 120] 4 unsignedNewE 1 (.ok 3) :=       -- "x12x" at 1
  (C15_syntax_peg (fun _ => none) .lf #[120, 49, 50, 120] 4 (by decide) 1).1
example : Sem (fun _ => none) .lf #[45, 48, 55] 3 signedNewE 0 .fail :=                 -- "-07"
  (C15_syntax_peg (fun _ => none) .lf #[45, 48, 55] 3 (by decide) 0).2

/-! ## The bounded rule -/

/-- `maximum_rule< Unsigned, Maximum >` (`match_and_convert_unsigned_with_maximum_nothrow`), for a
    `w`-bit `Unsigned` and `Maximum ≤ 2^w - 1`: succeeds — consuming the whole digit run — iff the
    run is a canonical numeral **and** its value is `≤ Maximum`; otherwise it fails locally and
    consumes nothing.  The value it accumulated is exactly `value`. -/
theorem C15_maximum {w max : Nat} (hmax : max ≤ umax w) (i : Inp) :
    (maximumRule w max i =
      if Canonical (digitRun i.rest) ∧ value (digitRun i.rest) ≤ max
      then .ok (adv i (digitRun i.rest).length) 0 else .fail i) ∧
    (matchConvNothrow (umax w) max i =
      if Canonical (digitRun i.rest) ∧ value (digitRun i.rest) ≤ max
      then .ok (adv i (digitRun i.rest).length) (value (digitRun i.rest) : Nat) else .fail i) := by
  have h := matchConvNothrow_spec (tmax := umaxW w) hmax i
  refine ⟨?_, h⟩
  unfold maximumRule
  rw [h]
  by_cases hc : Canonical (digitRun i.rest) ∧ value (digitRun i.rest) ≤ max
  · rw [if_pos hc, if_pos hc]
  · rw [if_neg hc, if_neg hc]

example : maximumRule 8 255 ⟨0, [50, 53, 53, 46]⟩ = .ok ⟨3, [46]⟩ 0 := by decide          -- "255."
example : maximumRule 8 255 ⟨0, [50, 53, 54, 46]⟩ = .fail ⟨0, [50, 53, 54, 46]⟩ := by decide  -- "256."
example : maximumRule 8 255 ⟨0, [50, 53]⟩ = .ok ⟨2, []⟩ 0 := by decide                    -- "25" at end of input
example : maximumRule 16 1000 ⟨0, [49, 48, 48, 49]⟩ = .fail ⟨0, [49, 48, 48, 49]⟩ := by decide
example : (255 : Nat) ≤ umax 8 := by decide

/-! ## Rules that store the converted value -/

/-- Every converting rule stores the exact value or reports overflow, never anything else
    (`ExactOrOverflow`: no syntax match → local failure with the input untouched; value in range →
    exactly the match consumed and exactly the value stored; value out of range → `parse_error`):

    1. `unsigned_rule_with_action` (`apply_mode::action`), `w`-bit state;
    2. `maximum_rule_with_action< Unsigned, Maximum >` (`apply_mode::action`);
    3. `unsigned_rule` with `unsigned_action` attached;
    4. `maximum_rule< Unsigned, Maximum >` with `maximum_action< Unsigned, Maximum >` attached
       (never throws: the rule has already bounded the value);
    5. `signed_rule_with_action` (`apply_mode::action`) = `signed_rule_new` with `signed_action`. -/
theorem C15_with_action {w max : Nat} (hw : 1 ≤ w) (hmax : max ≤ umax w) (i : Inp) :
    ExactOrOverflow i (unsignedLen i.rest) (value (digitRun i.rest) : Nat) 0 (umax w : Nat)
      (unsignedRuleWithAction w i) ∧
    ExactOrOverflow i (unsignedLen i.rest) (value (digitRun i.rest) : Nat) 0 (max : Nat)
      (maximumRuleWithAction w max i) ∧
    ExactOrOverflow i (unsignedLen i.rest) (value (digitRun i.rest) : Nat) 0 (umax w : Nat)
      (withAction unsignedRule (unsignedAction w) i) ∧
    (withAction (maximumRule w max) (maximumAction w max) i =
      if Canonical (digitRun i.rest) ∧ value (digitRun i.rest) ≤ max
      then .ok (adv i (digitRun i.rest).length) (value (digitRun i.rest) : Nat) else .fail i) ∧
    (∀ n, signedLen i.rest = some n →
      ExactOrOverflow i (some n) (signedValue (i.rest.take n)) (smin w) (smax w : Nat)
        (signedRuleWithAction w i)) ∧
    (signedLen i.rest = none → signedRuleWithAction w i = .fail i) := by
  have throwsCase : ∀ m : Nat, m ≤ umaxW w →
      ExactOrOverflow i (unsignedLen i.rest) (value (digitRun i.rest) : Nat) 0 (m : Nat)
        (matchConvThrows (umaxW w) m i) := by
    intro m hm
    obtain ⟨h1, h2, h3⟩ := matchConvThrows_spec (tmax := umaxW w) hm i
    unfold ExactOrOverflow unsignedLen
    by_cases hc : Canonical (digitRun i.rest)
    · simp only [hc, if_true]
      by_cases hv : value (digitRun i.rest) ≤ m
      · have : (0 : Int) ≤ (value (digitRun i.rest) : Nat) ∧ ((value (digitRun i.rest) : Nat) : Int) ≤ (m : Nat) := by omega
        rw [if_pos this]; exact h2 hc hv
      · have : ¬ ((0 : Int) ≤ (value (digitRun i.rest) : Nat) ∧ ((value (digitRun i.rest) : Nat) : Int) ≤ (m : Nat)) := by omega
        rw [if_neg this]
        obtain ⟨k, _, hk⟩ := h3 hc hv
        exact ⟨_, _, hk⟩
    · simp only [hc, if_false]; exact h1 hc
  refine ⟨throwsCase _ (Nat.le_refl _), throwsCase _ hmax, ?_, ?_, ?_, ?_⟩
  · -- unsigned_rule + unsigned_action
    rw [withAction_spec unsignedRule (unsignedAction w) unsignedLen i (matchUnsigned_spec i)]
    unfold ExactOrOverflow
    cases h : unsignedLen i.rest with
    | none => rfl
    | some n =>
      simp only
      rw [unsignedLen_take h]
      unfold unsignedAction
      rw [convertPositive_spec (Nat.le_refl _) _ (digitRun_allDigits _)]
      by_cases hv : value (digitRun i.rest) ≤ umaxW w
      · have : (0 : Int) ≤ (value (digitRun i.rest) : Nat) ∧ ((value (digitRun i.rest) : Nat) : Int) ≤ (umax w : Nat) := by
          unfold umaxW at hv; unfold umax; omega
        rw [if_pos this, if_pos hv]; rfl
      · have : ¬ ((0 : Int) ≤ (value (digitRun i.rest) : Nat) ∧ ((value (digitRun i.rest) : Nat) : Int) ≤ (umax w : Nat)) := by
          unfold umaxW at hv; unfold umax; omega
        rw [if_neg this, if_neg hv]; exact ⟨_, _, rfl⟩
  · -- maximum_rule + maximum_action
    have hrule := (C15_maximum hmax i).1
    rw [withAction_spec (maximumRule w max) (maximumAction w max)
      (fun bs => if Canonical (digitRun bs) ∧ value (digitRun bs) ≤ max then some (digitRun bs).length else none) i
      (by rw [hrule]; by_cases hc : Canonical (digitRun i.rest) ∧ value (digitRun i.rest) ≤ max
          · simp only [if_pos hc]
          · simp only [if_neg hc])]
    by_cases hc : Canonical (digitRun i.rest) ∧ value (digitRun i.rest) ≤ max
    · simp only [if_pos hc]
      rw [take_digitRun]
      unfold maximumAction
      rw [convertPositive_spec (tmax := umaxW w) hmax _ (digitRun_allDigits _), if_pos hc.2]
      rfl
    · simp only [if_neg hc]
  · -- signed_rule_with_action, syntax matches
    intro n hn
    unfold signedRuleWithAction
    rw [withAction_spec signedRuleNew (signedAction w) signedLen i (signedRuleNew_spec i), hn]
    simp only
    unfold signedAction ExactOrOverflow
    rw [convertSigned_spec hw _ (signedLen_shape hn)]
    simp only
    by_cases hr : smin w ≤ signedValue (i.rest.take n) ∧ signedValue (i.rest.take n) ≤ (smax w : Int)
    · rw [if_pos hr, if_pos hr]
    · rw [if_neg hr, if_neg hr]; exact ⟨_, _, rfl⟩
  · -- signed_rule_with_action, no match
    intro hn
    unfold signedRuleWithAction
    rw [withAction_spec signedRuleNew (signedAction w) signedLen i (signedRuleNew_spec i), hn]

example : unsignedRuleWithAction 8 ⟨0, [50, 53, 53, 120]⟩ = .ok ⟨3, [120]⟩ 255 := by decide   -- "255x" → uint8
example : unsignedRuleWithAction 8 ⟨0, [50, 53, 54, 120]⟩ = .thr ⟨2, [54, 120]⟩ 2 := by decide  -- "256x": overflow thrown at byte 2
example : maximumRuleWithAction 16 1000 ⟨0, [49, 48, 48, 48]⟩ = .ok ⟨4, []⟩ 1000 := by decide
example : signedRuleWithAction 8 ⟨0, [45, 49, 50, 56]⟩ = .ok ⟨4, []⟩ (-128) := by decide      -- "-128" → int8
example : signedRuleWithAction 8 ⟨0, [45, 49, 50, 57]⟩ = .thr ⟨0, [45, 49, 50, 57]⟩ 0 := by decide
example : withAction unsignedRule (unsignedAction 8) ⟨0, [51, 48, 48]⟩ = .thr ⟨0, [51, 48, 48]⟩ 0 := by decide
example : signedLen [45, 49, 50, 56] = some 4 ∧ (1 ≤ 8) ∧ (1000 ≤ umax 16) := by decide

/-! ## Window safety and rewinding -/

/-- Every rule-level function of integer.hpp — on every input, for every width `w ≥ 1` and every
    `Maximum ≤ 2^w - 1` — never reads or bumps outside `[current, end)` (`≠ oob`), never computes
    a value outside its type (`≠ bad`), terminates (`≠ fuel`), and when it fails locally the
    input is exactly where it was (nothing consumed). -/
theorem C15_safe {w max : Nat} (hw : 1 ≤ w) (hmax : max ≤ umax w) (i : Inp) :
    Safe i (unsignedRule i) ∧
    Safe i (unsignedRuleNew i) ∧
    Safe i (unsignedRuleWithAction w i) ∧
    Safe i (maximumRule w max i) ∧
    Safe i (maximumRuleWithAction w max i) ∧
    Safe i (maximumRuleWithActionNothing w max i) ∧
    Safe i (signedRule i) ∧
    Safe i (signedRuleWithAction w i) ∧
    Safe i (withAction unsignedRule (unsignedAction w) i) ∧
    Safe i (withAction (maximumRule w max) (maximumAction w max) i) := by
  obtain ⟨a1, a2, a3, a4, a5, a6⟩ := C15_with_action hw hmax i
  have u := (C15_syntax_u i).1
  have hu : Safe i (unsignedRule i) := by
    rw [u]; cases unsignedLen i.rest <;> simp only <;> first | exact Safe.ok _ _ _ | exact Safe.fail _
  have hm : Safe i (maximumRule w max i) := by
    rw [(C15_maximum hmax i).1]; split <;> first | exact Safe.ok _ _ _ | exact Safe.fail _
  refine ⟨hu, ?_, a1.safe, hm, a2.safe, ?_, ?_, ?_, a3.safe, ?_⟩
  · rw [(C15_syntax_u i).2]; exact hu
  · have := a2.safe
    unfold maximumRuleWithActionNothing
    unfold maximumRuleWithAction at this
    cases h : matchConvThrows (umaxW w) max i with
    | ok i' v => exact Safe.ok _ _ _
    | fail i' => rw [h] at this; exact this
    | thr i' p => exact Safe.thr _ _ _
    | oob => rw [h] at this; exact absurd rfl this.1
    | bad => rw [h] at this; exact absurd rfl this.2.1
    | fuel => rw [h] at this; exact absurd rfl this.2.2.1
  · rw [C15_syntax_s]; cases signedLen i.rest <;> simp only <;> first | exact Safe.ok _ _ _ | exact Safe.fail _
  · cases h : signedLen i.rest with
    | none => rw [a6 h]; exact Safe.fail _
    | some n => exact (a5 n h).safe
  · rw [a4]; split <;> first | exact Safe.ok _ _ _ | exact Safe.fail _

example : Safe ⟨0, [49, 50]⟩ (maximumRule 32 4294967295 ⟨0, [49, 50]⟩) :=
  (C15_safe (w := 32) (max := 4294967295) (by decide) (by decide) ⟨0, [49, 50]⟩).2.2.2.1

end Pegtl.C15
