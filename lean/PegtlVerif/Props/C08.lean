/-
  Props/C08.lean — property C08: "Control hooks form a balanced, truthful protocol".

  The protocol is the stack automaton `runHooks` (Lemmas/Hooks.lean): one frame per
  `Control< Rule >::match` invocation; `start` only as the first hook of the innermost open
  invocation of that rule; `apply`/`apply0` at most once, after `start` and before the closing
  hook; exactly one closing hook; and when the invocation returns, the closing hook agrees with
  the result: `success` ⇔ it returned true, `failure` ⇔ it returned false, `unwind` ⇔ an exception
  passed through (if the control has no `unwind()`, the attempt is left open and ends with the
  invocation).  Nesting is that of the call stack because hooks always address the top frame.
-/
import PegtlVerif.Lemmas.Hooks
import PegtlVerif.Lemmas.HookCount
import PegtlVerif.Lemmas.RaiseSource

namespace Pegtl.C08

/-- Every invocation's trace is a complete, properly nested, truthful hook protocol — for every
    grammar table, input, action attachment (void, vetoing, throwing, `match()`-wrapping), mode,
    and for controls with and without `unwind()`. -/
theorem C08_balanced (cx : Ctx) (n i : Nat) (a : AMode) (m : RMode) (env : Env) (st : St) (r : Ret)
    (h : run cx n i a m env st = some r) : ∀ s, runHooks cx.unwind s r.raw = some s :=
  run_hooks cx n i a m env st r h

/-- A whole parsing run, whatever its outcome (including exceptions thrown by `must` rules or by
    actions at any depth), leaves no attempt open. -/
theorem C08_parse (cx : Ctx) (fuel i : Nat) (a : AMode) (m : RMode) (r : Ret)
    (h : parseTop cx fuel i a m = some r) : runHooks cx.unwind [] r.raw = some [] :=
  run_hooks cx fuel i a m {} cx.start r h []

/-- Truthful and exact, locally: what `match()` itself adds around the trace of the rule body
    for a rule visible to the control (no `match()`-wrapping action).  The hooks are `start`, then
    the body's events, then — only if the body matched and an action is enabled for the rule —
    the action call, then exactly one closing hook that agrees with the result. -/
theorem C08_protocol (cx : Ctx) (n i : Nat) (nd : Node) (a : AMode) (m : RMode) (env : Env) (st : St) (r : Ret)
    (hn : cx.g[i]? = some nd) (hc : nd.ctl = true) (hw : (cx.actOf env i nd).wrap = .none)
    (h : run cx (n + 1) i a m env st = some r) :
    ∃ r0 : Ret, ∃ tail : List Ev,
      r.raw = Ev.enter i a m (cx.rep st.cur) :: Ev.start i (cx.rep st.cur) :: r0.raw ++ tail ++
        [Ev.exit i r.res.code (cx.rep r.st.cur)] ∧
      (match r0.res, actionOutcome cx i a (cx.actOf env i nd) st.cur r0.st.cur with
       | .thr _, _ => tail = (if cx.unwind then [Ev.unwind i (cx.rep r0.st.cur)] else []) ∧ r.res = r0.res
       | .fail, _ => tail = [Ev.failure i (cx.rep r0.st.cur)] ∧ r.res = .fail
       | .ok, .noAction => tail = [Ev.success i (cx.rep r0.st.cur)] ∧ r.res = .ok
       | .ok, .accepts => tail = [actEvent cx i (cx.actOf env i nd) env.sd st.cur r0.st.cur, Ev.success i (cx.rep r0.st.cur)] ∧ r.res = .ok
       | .ok, .vetoes => tail = [actEvent cx i (cx.actOf env i nd) env.sd st.cur r0.st.cur, Ev.failure i (cx.rep r0.st.cur)] ∧ r.res = .fail
       | .ok, .throws => tail = actEvent cx i (cx.actOf env i nd) env.sd st.cur r0.st.cur ::
            (if cx.unwind then [Ev.unwind i (cx.rep r0.st.cur)] else []) ∧
            r.res = .thr (.foreign i (cx.actOf env i nd).throwStd)) := by
  simp only [run, nodeCall, hn, hw, nodeCore, hc, Bool.not_true, Bool.false_eq_true, if_false,
    Option.map_eq_some_iff] at h
  obtain ⟨r1, ⟨r0, h0, rfl⟩, rfl⟩ := h
  refine ⟨r0, ?_⟩
  unfold afterBody
  cases hr : r0.res with
  | thr e =>
    refine ⟨_, ?_, rfl, ?_⟩
    · simp [bracket]
    · simp
  | fail =>
    refine ⟨_, ?_, rfl, ?_⟩
    · simp [bracket]
    · simp
  | ok =>
    simp only
    cases ho : actionOutcome cx i a (cx.actOf env i nd) st.cur r0.st.cur with
    | noAction => exact ⟨_, by simp [bracket], rfl, by simp⟩
    | accepts => exact ⟨_, by simp [bracket], rfl, by simp⟩
    | vetoes => exact ⟨_, by simp [bracket], rfl, by simp⟩
    | throws => exact ⟨_, by simp [bracket], rfl, by simp⟩

/-- What the coverage facility relies on: with `unwind()` available, in the trace of any
    invocation every rule has received exactly as many `start`s as `success` + `failure` +
    `unwind` hooks. -/
theorem C08_coverage (cx : Ctx) (hu : cx.unwind = true) (n i : Nat) (a : AMode) (m : RMode) (env : Env)
    (st : St) (r : Ret) (h : run cx n i a m env st = some r) (rule : Nat) :
    cntStart rule r.raw = cntClose rule r.raw := by
  have hb := run_hooks cx n i a m env st r h []
  rw [hu] at hb
  simpa [openFrames] using runHooks_count rule r.raw [] [] hb

/-! ### Non-vacuity: throwing and vetoing actions under controls with and without `unwind()` -/

/-- `T = sor< try_catch_any_return_false< S >, any >`, `S = seq< A, A >`, `A = one<'a'>` with a `bool`
    `apply` on `A` that vetoes at some positions and throws at others. -/
def exG : Grammar := #[
  ⟨true, {}, .sor [1, 4]⟩,
  ⟨true, {}, .tryCatchReturnFalse .any 2⟩,
  ⟨true, { kind := .apply0 }, .seq [3, 3]⟩,
  ⟨true, { kind := .apply, isBool := true, vetoMod := 5, throwMod := 4 }, .atom (.one true [97])⟩,
  ⟨true, {}, .atom .any⟩]

example : ∃ r, parseTop { g := exG, inp := #[97, 97], unwind := true } 9 0 .action .required = some r ∧
    r.res = .ok ∧ (r.raw.any fun e => match e with | .unwind _ _ => true | _ => false) = true ∧
    runHooks true [] r.raw = some [] := by decide +kernel

example : ∃ r, parseTop { g := exG, inp := #[97, 97], unwind := false } 9 0 .action .required = some r ∧
    r.res = .ok ∧ runHooks false [] r.raw = some [] := by decide +kernel

/-- **`raise` only from a must-context or a `raise` rule.**  In every trace, at every `raise` event for rule `j` the
    innermost open invocation is of a `must< j >` or `raise< j >` rule (the hidden `internal::must< j >` node of
    `must`, `if_must`, `opt_must`, `star_must`, `list_must`, …) — or the event is the self-blame of a `limit_depth` /
    `limit_bytes` action class.  No other rule body ever calls `Control< … >::raise`. -/
theorem C08_raise_source (cx : Ctx) (n i : Nat) (a : AMode) (m : RMode) (env : Env) (st : St) (r : Ret)
    (h : run cx n i a m env st = some r) : RL cx r.raw :=
  run_raise cx n i a m env st r h

/-- `n0 = seq< n1 >`, `n1 = must< n2 >`, `n2 = one< 'a' >`: on "b" the raise for `n2` happens inside `n1` — accepted;
    the same event directly inside the `seq` is rejected by the automaton. -/
def rsG : Grammar := #[⟨true, {}, .seq [1, 1]⟩, ⟨false, {}, .must 2⟩, ⟨true, {}, .atom (.one true [97])⟩]

example : (parseTop { g := rsG, inp := #[98] } 6 0 .action .required).map
    (fun r => (r.raw.filter (fun e => !e.raiseNeutral), runRaise { g := rsG, inp := #[98] } [] r.raw)) =
    some ([.enter 0 .action .required ⟨0, 1, 1⟩, .enter 1 .action .optional ⟨0, 1, 1⟩, .enter 2 .action .optional ⟨0, 1, 1⟩,
           .exit 2 0 ⟨0, 1, 1⟩, .raise 2 ⟨0, 1, 1⟩, .exit 1 2 ⟨0, 1, 1⟩, .exit 0 2 ⟨0, 1, 1⟩], some []) := by decide +kernel

example : runRaise { g := rsG, inp := #[98] } []
    [.enter 0 .action .required ⟨0, 1, 1⟩, .raise 2 ⟨0, 1, 1⟩] = none := by decide

end Pegtl.C08
