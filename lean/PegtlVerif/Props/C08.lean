/-
  Props/C08.lean — property C08: "Control hooks form a balanced, truthful protocol".

  The protocol is the stack automaton `runHooks` (Lemmas/Hooks.lean): one frame per
  `Control< Rule >::match` invocation; `start` only as the first hook of the innermost open
  invocation of that rule; `apply`/`apply0` at most once, after `start` and before the closing
  hook; exactly one closing hook; and when the invocation returns, the closing hook agrees with
  the result: `success` ⇔ it returned true, `failure` ⇔ it returned false, `unwind` ⇔ an exception
  passed through (if the control has no `unwind()`, the attempt is left open and ends with the
  invocation).  Nesting is that of the call stack because hooks always address the top frame.
-/
import PegtlVerif.Lemmas.Hooks
import PegtlVerif.Lemmas.HookCount
import PegtlVerif.Lemmas.RaiseSource

namespace Pegtl.C08

/-- Every invocation's trace is a complete, properly nested, truthful hook protocol — for every
    grammar table, input, action attachment (void, vetoing, throwing, `match()`-wrapping), mode,
    for controls with and without `unwind()`, and across control switches (`change_control`,
    `control< C, R >`): each invocation's hooks are judged against the control that ran its `start`;
    and under a `must_if< Errors >` control, where the `failure` hook of a rule that has a message raises
    (`cx.mf`): for exactly those rules an invocation may end `start … failure` and be left by an exception. -/
theorem C08_balanced (cx : Ctx) (n i : Nat) (a : AMode) (m : RMode) (env : Env) (st : St) (r : Ret)
    (h : run cx n i a m env st = some r) : ∀ s, runHooks cx.unwindOf cx.mf s r.raw = some s :=
  run_hooks cx n i a m env st r h

/-- A whole parsing run, whatever its outcome (including exceptions thrown by `must` rules or by
    actions at any depth), leaves no attempt open. -/
theorem C08_parse (cx : Ctx) (fuel i : Nat) (a : AMode) (m : RMode) (r : Ret)
    (h : parseTop cx fuel i a m = some r) : runHooks cx.unwindOf cx.mf [] r.raw = some [] :=
  run_hooks cx fuel i a m {} cx.start r h []

/-- Truthful and exact, locally: what `match()` itself adds around the trace of the rule body
    for a rule visible to the control (no `match()`-wrapping action).  The hooks are `start`, then
    the body's events, then — only if the body matched and an action is enabled for the rule —
    the action call, then exactly one closing hook that agrees with the result. -/
theorem C08_protocol (cx : Ctx) (n i : Nat) (nd : Node) (a : AMode) (m : RMode) (env : Env) (st : St) (r : Ret)
    (hn : cx.g[i]? = some nd) (hc : nd.ctl = true) (hw : (cx.actOf env i nd).wrap = .none) (hm : i ∉ cx.msgs)
    (h : run cx (n + 1) i a m env st = some r) :
    ∃ r0 : Ret, ∃ tail : List Ev,
      r.raw = Ev.enter i a m (cx.rep st.cur) env.ctl :: Ev.start i (cx.rep st.cur) env.ctl :: r0.raw ++ tail ++
        [Ev.exit i r.res.code (cx.rep r.st.cur)] ∧
      (match r0.res, actionOutcome cx i a (cx.actOf env i nd) st.cur r0.st.cur with
       | .thr _, _ => tail = (if cx.unwindOf env.ctl then [Ev.unwind i (cx.rep r0.st.cur)] else []) ∧ r.res = r0.res
       | .fail, _ => tail = [Ev.failure i (cx.rep r0.st.cur)] ∧ r.res = .fail
       | .ok, .noAction => tail = [Ev.success i (cx.rep r0.st.cur)] ∧ r.res = .ok
       | .ok, .accepts => tail = [actEvent cx i (cx.actOf env i nd) env.sd st.cur r0.st.cur, Ev.success i (cx.rep r0.st.cur)] ∧ r.res = .ok
       | .ok, .vetoes => tail = [actEvent cx i (cx.actOf env i nd) env.sd st.cur r0.st.cur, Ev.failure i (cx.rep r0.st.cur)] ∧ r.res = .fail
       | .ok, .throws => tail = actEvent cx i (cx.actOf env i nd) env.sd st.cur r0.st.cur ::
            (if cx.unwindOf env.ctl then [Ev.unwind i (cx.rep r0.st.cur)] else []) ∧
            r.res = .thr (.foreign i (cx.actOf env i nd).throwStd)) := by
  simp only [run, nodeCall, hn, hw, nodeCore, hc, Bool.not_true, Bool.false_eq_true, if_false,
    Option.map_eq_some_iff] at h
  obtain ⟨r1, ⟨r0, h0, rfl⟩, rfl⟩ := h
  refine ⟨r0, ?_⟩
  have hm' : i ∉ (cx.withCtl env.ctl).msgs := fun h => hm (Ctx.mem_withCtl_msgs h)
  unfold afterBody failureHook
  simp only [actionOutcome_withCtl, actEvent_withCtl, Ctx.withCtl_rep, Ctx.withCtl_unwind, hm', if_false]
  cases hr : r0.res with
  | thr e =>
    refine ⟨_, ?_, rfl, ?_⟩
    · simp [bracket]; rfl
    · simp
  | fail =>
    refine ⟨_, ?_, rfl, ?_⟩
    · simp [bracket]
    · simp
  | ok =>
    simp only
    cases ho : actionOutcome cx i a (cx.actOf env i nd) st.cur r0.st.cur with
    | noAction => exact ⟨_, by simp [bracket], rfl, by simp⟩
    | accepts => exact ⟨_, by simp [bracket], rfl, by simp⟩
    | vetoes => exact ⟨_, by simp [bracket], rfl, by simp⟩
    | throws => exact ⟨_, by simp [bracket]; rfl, rfl, by simp⟩

/-- The same under `change_control< C_kc >` attached to the rule: the invocation is seen (entered, exited) by the old
    control, every hook in between is the new control's, and `unwind` is called iff the *new* control defines it. -/
theorem C08_protocol_change_control (cx : Ctx) (n i : Nat) (nd : Node) (kc : Nat) (a : AMode) (m : RMode) (env : Env) (st : St) (r : Ret)
    (hn : cx.g[i]? = some nd) (hc : nd.ctl = true) (hw : (cx.actOf env i nd).wrap = .changeControl kc) (hm : i ∉ cx.msgs)
    (h : run cx (n + 1) i a m env st = some r) :
    ∃ r0 : Ret, ∃ tail : List Ev,
      r.raw = Ev.enter i a m (cx.rep st.cur) env.ctl :: Ev.start i (cx.rep st.cur) kc :: r0.raw ++ tail ++
        [Ev.exit i r.res.code (cx.rep r.st.cur)] ∧
      (match r0.res, actionOutcome cx i a (cx.actOf env i nd) st.cur r0.st.cur with
       | .thr _, _ => tail = (if cx.unwindOf kc then [Ev.unwind i (cx.rep r0.st.cur)] else []) ∧ r.res = r0.res
       | .fail, _ => tail = [Ev.failure i (cx.rep r0.st.cur)] ∧ r.res = .fail
       | .ok, .noAction => tail = [Ev.success i (cx.rep r0.st.cur)] ∧ r.res = .ok
       | .ok, .accepts => tail = [actEvent cx i (cx.actOf env i nd) env.sd st.cur r0.st.cur, Ev.success i (cx.rep r0.st.cur)] ∧ r.res = .ok
       | .ok, .vetoes => tail = [actEvent cx i (cx.actOf env i nd) env.sd st.cur r0.st.cur, Ev.failure i (cx.rep r0.st.cur)] ∧ r.res = .fail
       | .ok, .throws => tail = actEvent cx i (cx.actOf env i nd) env.sd st.cur r0.st.cur ::
            (if cx.unwindOf kc then [Ev.unwind i (cx.rep r0.st.cur)] else []) ∧
            r.res = .thr (.foreign i (cx.actOf env i nd).throwStd)) := by
  simp only [run, nodeCall, hn, hw, nodeCore, hc, Bool.not_true, Bool.false_eq_true, if_false,
    Option.map_eq_some_iff] at h
  obtain ⟨r1, ⟨r0, h0, rfl⟩, rfl⟩ := h
  refine ⟨r0, ?_⟩
  have hm' : i ∉ (cx.withCtl kc).msgs := fun h => hm (Ctx.mem_withCtl_msgs h)
  have hact : cx.actOf { env with ctl := kc } i nd = cx.actOf env i nd := rfl
  simp only [hact]
  unfold afterBody failureHook
  simp only [actionOutcome_withCtl, actEvent_withCtl, Ctx.withCtl_rep, Ctx.withCtl_unwind, hm', if_false]
  cases hr : r0.res with
  | thr e =>
    refine ⟨_, ?_, rfl, ?_⟩
    · simp [bracket]; rfl
    · simp
  | fail =>
    refine ⟨_, ?_, rfl, ?_⟩
    · simp [bracket]
    · simp
  | ok =>
    simp only
    cases ho : actionOutcome cx i a (cx.actOf env i nd) st.cur r0.st.cur with
    | noAction => exact ⟨_, by simp [bracket], rfl, by simp⟩
    | accepts => exact ⟨_, by simp [bracket], rfl, by simp⟩
    | vetoes => exact ⟨_, by simp [bracket], rfl, by simp⟩
    | throws => exact ⟨_, by simp [bracket]; rfl, rfl, by simp⟩

/-- What the coverage facility relies on: with `unwind()` available, in the trace of any
    invocation every rule has received exactly as many `start`s as `success` + `failure` +
    `unwind` hooks. -/
theorem C08_coverage (cx : Ctx) (hu : cx.unwind = true) (n i : Nat) (a : AMode) (m : RMode) (env : Env)
    (st : St) (r : Ret) (h : run cx n i a m env st = some r) (rule : Nat) :
    cntStart rule r.raw = cntClose rule r.raw := by
  have hb := run_hooks cx n i a m env st r h []
  have hall : ∀ k, cx.unwindOf k = true := by intro k; simp [Ctx.unwindOf, hu]
  simpa [openFrames] using runHooks_count hall rule r.raw [] [] hb trivial

/-- **`must_if< Errors >::control`**: a rule `Errors` has a message for never fails locally — whenever its body fails (or
    its `bool` action vetoes) the `failure` hook raises, so the invocation ends in success or in an exception. -/
theorem C08_must_if_never_fails (cx : Ctx) (n i : Nat) (nd : Node) (a : AMode) (m : RMode) (env : Env) (st : St) (r : Ret)
    (hn : cx.g[i]? = some nd) (hc : nd.ctl = true) (hw : (cx.actOf env i nd).wrap = .none) (hk : env.ctl = 0) (hm : i ∈ cx.msgs)
    (h : run cx (n + 1) i a m env st = some r) : r.res ≠ .fail := by
  simp only [run, nodeCall, hn, hw, nodeCore, hc, Bool.not_true, Bool.false_eq_true, if_false,
    Option.map_eq_some_iff] at h
  obtain ⟨r1, ⟨r0, h0, rfl⟩, rfl⟩ := h
  simp only [bracket_res, guardRestore_res, hk, Ctx.withCtl_zero]
  unfold afterBody failureHook
  simp only [hm, if_true]
  cases hr : r0.res with
  | thr e => simp
  | fail => simp
  | ok =>
    simp only
    cases actionOutcome cx i a (cx.actOf env i nd) st.cur r0.st.cur <;> simp [hr]

/-! ### Non-vacuity: throwing and vetoing actions under controls with and without `unwind()` -/

/-- `T = sor< try_catch_any_return_false< S >, any >`, `S = seq< A, A >`, `A = one<'a'>` with a `bool`
    `apply` on `A` that vetoes at some positions and throws at others. -/
def exG : Grammar := #[
  ⟨true, {}, .sor [1, 4]⟩,
  ⟨true, {}, .tryCatchReturnFalse .any 2⟩,
  ⟨true, { kind := .apply0 }, .seq [3, 3]⟩,
  ⟨true, { kind := .apply, isBool := true, vetoMod := 5, throwMod := 4 }, .atom (.one true [97])⟩,
  ⟨true, {}, .atom .any⟩]

example : ∃ r, parseTop { g := exG, inp := #[97, 97], unwind := true } 9 0 .action .required = some r ∧
    r.res = .ok ∧ (r.raw.any fun e => match e with | .unwind _ _ => true | _ => false) = true ∧
    runHooks (fun _ => true) (fun _ => false) [] r.raw = some [] := by decide +kernel

example : ∃ r, parseTop { g := exG, inp := #[97, 97], unwind := false } 9 0 .action .required = some r ∧
    r.res = .ok ∧ runHooks (fun k => k != 0) (fun _ => false) [] r.raw = some [] := by decide +kernel

/-- `n0 = sor< try_catch_any_return_false< n2 >, any >` where `n2 = seq< A, A >` carries `change_control< C1 >` and `A` throws:
    the original control (0) has no `unwind()`, the second one (1) has.  Exactly the invocations whose hooks run under
    control 1 — `n2` itself and the `A`s below it — get an `unwind`; the `try_catch` node, under control 0, is left open and
    ends with its invocation.  The trace is accepted; judged with control 0's rules everywhere it would not be. -/
def ccG : Grammar := #[
  ⟨true, {}, .sor [1, 4]⟩,
  ⟨true, {}, .tryCatchReturnFalse .any 2⟩,
  ⟨true, { wrap := .changeControl 1 }, .seq [3, 3]⟩,
  ⟨true, { kind := .apply, throwMod := 1 }, .atom (.one true [97])⟩,
  ⟨true, {}, .atom .any⟩]

example : ∃ r, parseTop { g := ccG, inp := #[97, 97], unwind := false } 9 0 .action .required = some r ∧
    r.res = .ok ∧
    r.raw.filterMap (fun e => match e with | .unwind i _ => some i | _ => none) = [3, 2] ∧
    runHooks (Ctx.unwindOf { g := ccG, inp := #[97, 97], unwind := false }) (fun _ => false) [] r.raw = some [] ∧
    runHooks (fun _ => false) (fun _ => false) [] r.raw = none := by decide +kernel

/-- `n0 = seq< n1, n2 >`, `n1 = one< 'a' >`, `n2 = one< 'b' >` under `must_if` with a message for `n2`: on "ac" the failure of `n2`
    becomes a parse_error blaming `n2` at byte 1, raised from `n2`'s own failure hook; accepted by the automaton that knows the
    message table, rejected by the one that does not. -/
def miCx : Ctx := { g := #[⟨true, {}, .seq [1, 2]⟩, ⟨true, {}, .atom (.one true [97])⟩, ⟨true, {}, .atom (.one true [98])⟩],
                    inp := #[97, 99], msgs := [2] }

example : ∃ r, parseTop miCx 6 0 .action .required = some r ∧ r.res = .thr (.parse 2 ⟨1, 1, 2⟩) ∧
    r.raw.filter (fun e => match e with | .failure .. | .raise .. | .unwind .. => true | _ => false) =
      [.failure 2 ⟨1, 1, 2⟩, .raise 2 ⟨1, 1, 2⟩, .unwind 0 ⟨0, 1, 1⟩] ∧
    runHooks miCx.unwindOf miCx.mf [] r.raw = some [] ∧ runHooks miCx.unwindOf (fun _ => false) [] r.raw = none ∧
    runRaise miCx [] r.raw = some [] := by decide +kernel

/-- **`raise` only from a must-context or a `raise` rule.**  In every trace, at every `raise` event for rule `j` the
    innermost open invocation is of a `must< j >` or `raise< j >` rule (the hidden `internal::must< j >` node of
    `must`, `if_must`, `opt_must`, `star_must`, `list_must`, …) — or the event is the self-blame of a `limit_depth` /
    `limit_bytes` action class, or the innermost open invocation is of `j` itself and the run's `must_if` control has a
    message for `j` (its `failure` hook raises).  No other rule body ever calls `Control< … >::raise`. -/
theorem C08_raise_source (cx : Ctx) (n i : Nat) (a : AMode) (m : RMode) (env : Env) (st : St) (r : Ret)
    (h : run cx n i a m env st = some r) : RL cx r.raw :=
  run_raise cx n i a m env st r h

/-- `n0 = seq< n1 >`, `n1 = must< n2 >`, `n2 = one< 'a' >`: on "b" the raise for `n2` happens inside `n1` — accepted;
    the same event directly inside the `seq` is rejected by the automaton. -/
def rsG : Grammar := #[⟨true, {}, .seq [1, 1]⟩, ⟨false, {}, .must 2⟩, ⟨true, {}, .atom (.one true [97])⟩]

example : (parseTop { g := rsG, inp := #[98] } 6 0 .action .required).map
    (fun r => (r.raw.filter (fun e => !e.raiseNeutral), runRaise { g := rsG, inp := #[98] } [] r.raw)) =
    some ([.enter 0 .action .required ⟨0, 1, 1⟩ 0, .enter 1 .action .optional ⟨0, 1, 1⟩ 0, .enter 2 .action .optional ⟨0, 1, 1⟩ 0,
           .exit 2 0 ⟨0, 1, 1⟩, .raise 2 ⟨0, 1, 1⟩, .exit 1 2 ⟨0, 1, 1⟩, .exit 0 2 ⟨0, 1, 1⟩], some []) := by decide +kernel

example : runRaise { g := rsG, inp := #[98] } []
    [.enter 0 .action .required ⟨0, 1, 1⟩ 0, .raise 2 ⟨0, 1, 1⟩] = none := by decide

end Pegtl.C08
