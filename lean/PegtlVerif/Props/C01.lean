/-
  Props/C01.lean — property C01: "Core PEG operators match exactly as the PEG formalism defines".

  The formalism is `Spec.Sem` (Spec/Peg.lean): ordered choice takes the first successful
  alternative, repetition is greedy, predicates consume nothing.  A rule `i` of a grammar table
  means `ref i`, whose body is the expansion `Spec.expandKind` of the rule's kind (for the core
  kinds: `seq`, `sor`, `star`, `plus`, `opt`, `at`, `not_at` and the atoms this is the operator
  itself).

  * `C01_sound`: whatever a parsing run returns is what the formalism derives — result, and on
    success the consumed prefix.  It holds for every table satisfying `WFT` (which includes
    every table of core kinds with void actions), every input, apply mode, rewind mode, fuel.
  * `Sem_deterministic`: the formalism derives at most one outcome; hence "exactly".
  * `C01_independent`: the outcome does not depend on the apply mode, the requested rewind
    mode, which void actions are attached, whether rules are visible to the control, or the
    control family.
  * `C01_complete` (Lemmas/Complete.lean): whenever the formalism derives an outcome for a rule at an
    offset, the run from there returns, with that outcome — for every table satisfying `WFT`, certified by
    the grammar analysis or not; `C01_iff`: the runs that return are exactly the derivations.
-/
import PegtlVerif.Lemmas.SemRun
import PegtlVerif.Lemmas.SemDet
import PegtlVerif.Lemmas.WftCheck
import PegtlVerif.Lemmas.Complete
import PegtlVerif.Props.C11

namespace Pegtl.C01
open Pegtl.Spec

/-- Soundness: the run's result is the formalism's outcome for `ref i` at the start offset. -/
theorem C01_sound (cx : Ctx) (wf : WFT cx) (n i : Nat) (a : AMode) (m : RMode) (env : Env) (st : St) (r : Ret)
    (hv : Valid cx st) (h : run cx n i a m env st = some r) :
    match r.res with
    | .ok => SemC cx st.endp (.ref i) st.cur.pos (.ok r.st.cur.pos)
    | .fail => SemC cx st.endp (.ref i) st.cur.pos .fail
    | .thr x => ∃ b, blameOf x = some b ∧ SemC cx st.endp (.ref i) st.cur.pos (.err b) := by
  obtain ⟨o, ho, s⟩ := run_sem cx wf n i a m env st r hv h
  cases hr : r.res with
  | ok => rw [absO_ok hr] at ho; cases ho; exact s
  | fail => rw [absO_fail hr] at ho; cases ho; exact s
  | thr x =>
    obtain ⟨b, rfl, hb⟩ := err_of ho hr
    exact ⟨b, hb, s⟩

/-- The formalism is deterministic: at most one outcome per expression and offset. -/
theorem Sem_deterministic {G eol inp endp e p o₁ o₂}
    (h₁ : Sem G eol inp endp e p o₁) (h₂ : Sem G eol inp endp e p o₂) : o₁ = o₂ := Sem.det h₁ h₂

/-- Success, and the prefix consumed on success, are those of the unique derivation: a run
    succeeds consuming up to `q` only if the formalism says so, and if the formalism says
    anything else the run cannot have succeeded with `q`. -/
theorem C01_exact (cx : Ctx) (wf : WFT cx) (n i : Nat) (a : AMode) (m : RMode) (env : Env) (st : St) (r : Ret)
    (o : Outcome) (hv : Valid cx st) (h : run cx n i a m env st = some r)
    (hs : SemC cx st.endp (.ref i) st.cur.pos o) : absO r = some o := by
  obtain ⟨o', ho', s'⟩ := run_sem cx wf n i a m env st r hv h
  rw [Sem.det hs s']; exact ho'

/-- Independence: two terminating runs of the same rule table on the same input from the same
    offset agree on result and consumed prefix, whatever their apply modes, rewind modes, void
    action attachments, action families, control visibility (`ctl`), `unwind` support, tracking
    mode, initial line/column counters and fuel. -/
theorem C01_independent (cx₁ cx₂ : Ctx) (wf₁ : WFT cx₁) (wf₂ : WFT cx₂)
    (hG : Gof cx₁.g = Gof cx₂.g) (hinp : cx₁.inp = cx₂.inp) (heol : cx₁.eol = cx₂.eol)
    (n₁ n₂ i : Nat) (a₁ a₂ : AMode) (m₁ m₂ : RMode) (env₁ env₂ : Env) (st₁ st₂ : St) (r₁ r₂ : Ret)
    (hv₁ : Valid cx₁ st₁) (hv₂ : Valid cx₂ st₂) (hp : st₁.cur.pos = st₂.cur.pos) (he : st₁.endp = st₂.endp)
    (h₁ : run cx₁ n₁ i a₁ m₁ env₁ st₁ = some r₁) (h₂ : run cx₂ n₂ i a₂ m₂ env₂ st₂ = some r₂) :
    absO r₁ = absO r₂ := by
  obtain ⟨o₁, ho₁, s₁⟩ := run_sem cx₁ wf₁ n₁ i a₁ m₁ env₁ st₁ r₁ hv₁ h₁
  obtain ⟨o₂, ho₂, s₂⟩ := run_sem cx₂ wf₂ n₂ i a₂ m₂ env₂ st₂ r₂ hv₂ h₂
  unfold SemC at s₁ s₂
  rw [hG, hinp, heol, hp, he] at s₁
  rw [ho₁, ho₂, Sem.det s₁ s₂]

/-- `absO` exposes exactly result and consumed prefix: equal abstractions mean the same result
    kind and, on success, the same final offset. -/
theorem C01_absO_meaning (r₁ r₂ : Ret) (h : absO r₁ = absO r₂) (hok : r₁.res = .ok) :
    r₂.res = .ok ∧ r₂.st.cur.pos = r₁.st.cur.pos := by
  rw [absO_ok hok] at h
  exact absO_ok_inv h.symm

/-- **Totality on certified grammars.**  For a table that `analyze` certifies (`problems = 0`, the model of
    contrib/analyze.hpp, C11) and that meets the hypotheses of `C01_sound`: from every state inside the
    window the formalism derives an outcome `o` for every rule, some finite fuel suffices for the run
    to return, and *every* run that returns — whatever its fuel, apply mode and rewind mode — returns
    exactly `o`.  With determinism this is "the matcher computes the PEG semantics", without the
    qualification "if it terminates". -/
theorem C01_total (g : Grammar) (hwf : Pegtl.WF g) (h0 : Analyze.problems (Analyze.abstract g) = 0)
    (cx : Ctx) (hg : cx.g = g) (wf : WFT cx) (i : Nat) (hi : i < g.size) (st : St) (hv : Valid cx st) :
    ∃ o, SemC cx st.endp (.ref i) st.cur.pos o ∧
      (∀ a m env, ∃ n r, run cx n i a m env st = some r) ∧
      (∀ n a m env r, run cx n i a m env st = some r → absO r = some o) := by
  have hwrap : ActionsWF cx := fun j nd hj =>
    ⟨fun _ => 0, fun env fam hc => by rw [(wf.plain env j nd hj).2.2] at hc; exact absurd hc (by simp),
     fun env fam mu hc => by rw [(wf.plain env j nd hj).2.2] at hc; exact absurd hc (by simp)⟩
  have hin : st.cur.pos ≤ st.endp := hv.1
  have term : ∀ a m env, ∃ n r, run cx n i a m env st = some r := by
    intro a m env
    obtain ⟨n, hn⟩ := Pegtl.C11_terminates g hwf h0 cx hg hwrap i hi a m env st hin
    cases hr : run cx n i a m env st with
    | none => exact absurd hr hn
    | some r => exact ⟨n, r, hr⟩
  obtain ⟨n0, r0, h0'⟩ := term .action .required {}
  obtain ⟨o, ho, hs⟩ := run_sem cx wf n0 i .action .required {} st r0 hv h0'
  refine ⟨o, hs, term, ?_⟩
  intro n a m env r h
  exact C01_exact cx wf n i a m env st r o hv h hs

/-- **Completeness.**  Whenever the formalism derives an outcome `o` for rule `i` at the state's offset, the run
    from that state returns for every sufficiently large fuel — in every apply mode, rewind mode and environment —
    and what it returns is `o`.  No termination certificate is assumed: the derivation bounds the recursion
    (through the terminating evaluation `semEvalE_complete` extracts from it). -/
theorem C01_complete (cx : Ctx) (wf : WFT cx) (i : Nat) (st : St) (hv : Valid cx st) (o : Outcome)
    (hs : SemC cx st.endp (.ref i) st.cur.pos o) (a : AMode) (m : RMode) (env : Env) :
    ∃ n r, (∀ n', n ≤ n' → run cx n' i a m env st = some r) ∧ absO r = some o :=
  Complete.run_complete cx wf i st hv o hs a m env

/-- Soundness and completeness together: the outcomes of returning runs are exactly the outcomes the formalism derives. -/
theorem C01_iff (cx : Ctx) (wf : WFT cx) (i : Nat) (st : St) (hv : Valid cx st) (o : Outcome)
    (a : AMode) (m : RMode) (env : Env) :
    (∃ n r, run cx n i a m env st = some r ∧ absO r = some o) ↔ SemC cx st.endp (.ref i) st.cur.pos o := by
  constructor
  · rintro ⟨n, r, h, ha⟩
    obtain ⟨o', ho', s'⟩ := run_sem cx wf n i a m env st r hv h
    rw [ha] at ho'; cases ho'; exact s'
  · intro hs
    obtain ⟨n, r, hr, ha⟩ := C01_complete cx wf i st hv o hs a m env
    exact ⟨n, r, hr n (Nat.le_refl _), ha⟩

/-- The spec evaluator used as the oracle of the differential run decides the formalism. -/
theorem C01_evaluator_decides (cx : Ctx) (endp : Nat) (e : PExp) (p : Nat) (o : Outcome) :
    SemC cx endp e p o ↔ ∃ f, semEvalE (Gof cx.g) cx.eol cx.inp f endp e p = some o := sem_iff_eval

/-! ### Non-vacuity: a recursive grammar that meets the hypotheses, and a run that the theorems apply to -/

/-- `S = sor< seq< a, S, b >, seq< a, b > >` (aⁿbⁿ), `T = seq< S, not_at< any > >`, with a void
    `apply` on `S` and a void `apply0` on `a`. -/
def exG : Grammar := #[
  ⟨true, { kind := .apply }, .sor [1, 2]⟩,
  ⟨true, {}, .seq [3, 0, 4]⟩,
  ⟨true, {}, .seq [3, 4]⟩,
  ⟨true, { kind := .apply0 }, .atom (.one true [97])⟩,
  ⟨true, {}, .atom (.one true [98])⟩,
  ⟨true, {}, .seq [0, 6]⟩,
  ⟨false, {}, .notAt 7⟩,
  ⟨true, {}, .atom .any⟩]

def exCx : Ctx := { g := exG, inp := #[97, 97, 98, 98] }

theorem exCx_wf : WFT exCx := wftCheck_sound (by decide)

theorem exCx_valid : Valid exCx exCx.start := ⟨by decide, by decide⟩

example : ∃ r, run exCx 12 5 .action .required {} exCx.start = some r ∧ r.res = .ok ∧ r.st.cur.pos = 4 := by
  decide

/-- …hence, by `C01_sound`, the formalism derives "aabb" from `T`, consuming all four bytes. -/
example : SemC exCx 4 (.ref 5) 0 (.ok 4) := by
  have h : ∃ r, run exCx 12 5 .action .required {} exCx.start = some r ∧ r.res = .ok ∧ r.st.cur.pos = 4 := by
    decide
  obtain ⟨r, hr, hok, hp⟩ := h
  have := C01_sound exCx exCx_wf 12 5 .action .required {} exCx.start r exCx_valid hr
  rw [hok] at this
  rw [hp] at this
  exact this

/-- the same rule with actions disabled and rewinding optional gives the same abstraction -/
example : (run exCx 12 5 .action .required {} exCx.start).map absO =
      (run exCx 12 5 .nothing .optional {} exCx.start).map absO ∧
    (run exCx 12 5 .action .required {} exCx.start).map (·.surv.length) = some 4 ∧
    (run exCx 12 5 .nothing .optional {} exCx.start).map (·.surv.length) = some 0 := by
  decide +kernel

/-- `exG` is certified by the analysis model and meets the hypotheses: `C01_total` applies to it for every input, e.g. … -/
example (inp : Array UInt8) : ∃ o, SemC { g := exG, inp := inp } inp.size (.ref 5) 0 o :=
  let cx : Ctx := { g := exG, inp := inp }
  have wf : WFT cx := wftCheck_sound
    ((show wftCheck cx = wftCheck ({ g := exG, inp := #[] } : Ctx) from rfl).trans (by decide))
  have hv : Valid cx cx.start := ⟨by simp [Ctx.start], by simp [Ctx.start]⟩
  let ⟨o, ho, _⟩ := C01_total exG (by decide) (by decide) cx rfl wf 5 (by decide) cx.start hv
  ⟨o, by simpa [Ctx.start] using ho⟩

/-- `star< seq< not_at< b >, sor< a, success > > >`: rejected by the grammar analysis (the star's body can succeed
    without consuming: it loops on "a"), so `C01_total` says nothing about it — yet on "ab" the formalism derives
    "matches one byte", and `C01_complete` gives termination of every run on that input. -/
def loopG : Grammar := #[
  ⟨true, {}, .starPartial [1]⟩,
  ⟨true, {}, .seq [2, 3]⟩,
  ⟨true, {}, .notAt 4⟩,
  ⟨true, {}, .sor [5, 6]⟩,
  ⟨true, {}, .atom (.one true [98])⟩,
  ⟨true, {}, .atom (.one true [97])⟩,
  ⟨true, {}, .atom .success⟩]

def loopCx : Ctx := { g := loopG, inp := #[97, 98] }

example : Analyze.problems (Analyze.abstract loopG) ≠ 0 := by decide

example : ∀ a m env, ∃ n r, (∀ n', n ≤ n' → run loopCx n' 0 a m env loopCx.start = some r) ∧ absO r = some (.ok 1) := by
  have wf : WFT loopCx := wftCheck_sound (by decide)
  have hv : Valid loopCx loopCx.start := ⟨by decide, by decide⟩
  have hs : SemC loopCx 2 (.ref 0) 0 (.ok 1) := by
    have h : ∃ r, run loopCx 12 0 .action .required {} loopCx.start = some r ∧ r.res = .ok ∧ r.st.cur.pos = 1 := by
      decide
    obtain ⟨r, hr, hok, hp⟩ := h
    have := C01_sound loopCx wf 12 0 .action .required {} loopCx.start r hv hr
    rw [hok] at this
    rw [hp] at this
    exact this
  exact fun a m env => C01_complete loopCx wf 0 loopCx.start hv (.ok 1) hs a m env

end Pegtl.C01
