/-
  Props/C12.lean — C12: the parse tree is exactly the surviving derivation of the selected rules.

  `buildTree` is the node builder of contrib/parse_tree.hpp (`make_control::state_handler`: push on
  start, pop + attach on success, pop on failure / unwind, nothing at all for leaf-optimised rules)
  run over the trace of the matcher model.  `specT` is the declarative reading of the property:
  the tree of invocations, cut wherever an invocation did not succeed, unselected rules contracted,
  each selected rule's node passed through its transformer.
-/
import PegtlVerif.Lemmas.Tree
import PegtlVerif.Lemmas.SpanTree

namespace Pegtl.C12

/-- **The tree is the surviving derivation.**  For every grammar, action attachment, classification of
    the rules, input, modes and fuel: the trace of the parsing run is the event list of one invocation
    tree `t` (root: the top rule, its result, the reported start and end positions), and — provided
    the leaf optimisation is sound on `t` — `parse_tree::parse` returns a tree iff the parse succeeded,
    and that tree is `specT cls t`: nodes = successful invocations of selected rules all of whose
    enclosing invocations succeeded (inside a succeeding `at` included: tree building does not depend
    on the apply mode), in order and nesting, begin = cursor when the rule was entered, end = cursor
    when it returned; nothing from an invocation that failed locally or was left by an exception. -/
theorem C12_tree (cx : Ctx) (n i : Nat) (a : AMode) (m : RMode) (r : Ret) (cls : Nat → Cls)
    (h : parseTop cx n i a m = some r) :
    ∃ t : Invoc, proj r.raw = t.flat ∧ t.id = i ∧ t.res = r.res.code ∧
      t.b = cx.rep cx.start.cur ∧ t.e = cx.rep r.st.cur ∧
      (leafOKT cls t = true →
        buildTree cls (decide (r.res = .ok)) r.raw = if r.res = .ok then some (specT cls t) else none) := by
  obtain ⟨t, ht, hi, hr, hb, he⟩ := run_tree cx n i a m {} cx.start r h
  refine ⟨t, ht, hi, hr, hb, he, fun hl => ?_⟩
  unfold buildTree
  by_cases hok : r.res = .ok
  · simp only [hok, decide_true, if_true]
    rw [runTree_proj, ht, run_specT cls t ⟨default, []⟩ [] hl]
    simp
  · simp [hok]

mutual
theorem noLeafT (cls : Nat → Cls) (hb : ∀ i, cls i ≠ .leaf) : ∀ t : Invoc, leafOKT cls t = true
  | .mk i a m kc res b e kids => by
    simp only [leafOKT, Bool.and_eq_true]
    refine ⟨?_, noLeafL cls hb kids⟩
    cases hc : cls i with
    | leaf => exact absurd hc (hb i)
    | branch => rfl
    | sel s => rfl
theorem noLeafL (cls : Nat → Cls) (hb : ∀ i, cls i ≠ .leaf) : ∀ ts : List Invoc, leafOKL cls ts = true
  | [] => rfl
  | t :: ts => by simp [leafOKL, noLeafT cls hb t, noLeafL cls hb ts]
end

/-- **…with the real classification, unconditionally.**  For the classification that parse_tree.hpp computes
    at compile time (`clsOf`: selected / `is_leaf< 8 >` / bookkeeping branch) and grammars without action
    classes that carry a `match()` of their own, the side condition always holds: every invocation tree of
    the model respects the rule table (`run_dyn`), and `is_leaf` — a bounded search of the static rule
    graph that gives up (answers "not a leaf") at depth 8 or on recursion — is sound on every such tree
    (`leafOK_of_dynT`).  So the leaf optimisation never changes the tree. -/
theorem C12_tree_static (cx : Ctx) (hnw : NoWraps cx) (selMap : Nat → Option Sel) (n i : Nat) (a : AMode) (m : RMode) (r : Ret)
    (h : parseTop cx n i a m = some r) :
    ∃ t : Invoc, proj r.raw = t.flat ∧ t.id = i ∧ t.res = r.res.code ∧
      buildTree (clsOf cx.g selMap) (decide (r.res = .ok)) r.raw =
        if r.res = .ok then some (specT (clsOf cx.g selMap) t) else none := by
  obtain ⟨t, ht, hi, hr, -, -, hd⟩ := run_dyn cx hnw n i a m {} cx.start r h
  refine ⟨t, ht, hi, hr, ?_⟩
  have hl := leafOK_of_dynT cx.g selMap t hd
  unfold buildTree
  by_cases hok : r.res = .ok
  · simp only [hok, decide_true, if_true]
    rw [runTree_proj, ht, run_specT _ t ⟨default, []⟩ [] hl]
    simp
  · simp [hok]

/-- The classification without the optimisation: every unselected rule does the bookkeeping. -/
def clsPlain (g : Grammar) (selMap : Nat → Option Sel) (j : Nat) : Cls :=
  match selOf g selMap j with
  | some s => .sel s
  | none => .branch

/-- **The optimisation is invisible**: with and without it the same tree is built. -/
theorem C12_leaf_optimisation_invisible (cx : Ctx) (hnw : NoWraps cx) (selMap : Nat → Option Sel) (n i : Nat) (a : AMode)
    (m : RMode) (r : Ret) (h : parseTop cx n i a m = some r) :
    buildTree (clsOf cx.g selMap) (decide (r.res = .ok)) r.raw =
      buildTree (clsPlain cx.g selMap) (decide (r.res = .ok)) r.raw := by
  obtain ⟨t, ht, -, -, -, -, hd⟩ := run_dyn cx hnw n i a m {} cx.start r h
  have hl := leafOK_of_dynT cx.g selMap t hd
  have hl' : leafOKT (clsPlain cx.g selMap) t = true :=
    noLeafT _ (by intro j; simp only [clsPlain]; split <;> simp) t
  have same : SameSel (clsOf cx.g selMap) (clsPlain cx.g selMap) := by
    intro j s
    simp only [clsOf, clsPlain]
    cases selOf cx.g selMap j with
    | some s' => simp
    | none => simp; split <;> simp
  unfold buildTree
  by_cases hok : r.res = .ok
  · simp only [hok, decide_true, if_true]
    rw [runTree_proj (clsOf cx.g selMap), runTree_proj (clsPlain cx.g selMap), ht,
      run_specT _ t ⟨default, []⟩ [] hl, run_specT _ t ⟨default, []⟩ [] hl', specT_sameSel _ _ same t]
  · simp [hok]

/-- A tree is returned if and only if the plain parse succeeds. -/
theorem C12_iff (cx : Ctx) (n i : Nat) (a : AMode) (m : RMode) (r : Ret) (cls : Nat → Cls)
    (h : parseTop cx n i a m = some r)
    (hl : ∀ t : Invoc, proj r.raw = t.flat → leafOKT cls t = true) :
    (buildTree cls (decide (r.res = .ok)) r.raw).isSome = true ↔ r.res = .ok := by
  obtain ⟨t, ht, -, -, -, -, hb⟩ := C12_tree cx n i a m r cls h
  rw [hb (hl t ht)]
  by_cases hok : r.res = .ok <;> simp [hok]

/-- An invocation that did not succeed contributes nothing — whatever succeeded inside it. -/
theorem C12_failed_contributes_nothing (cls : Nat → Cls) (t : Invoc) (h : t.res ≠ 1) : specT cls t = [] := by
  cases t with
  | mk i a m res b e kids =>
    simp only [Invoc.res] at h
    simp [specT, h]

/-- A successful invocation of a rule that is not selected is invisible: its children take its place. -/
theorem C12_unselected_contracted (cls : Nat → Cls) (i : Nat) (a : AMode) (m : RMode) (b e : Cursor) (kids : List Invoc)
    (h : ∀ s, cls i ≠ .sel s) : specT cls (.mk i a m kc 1 b e kids) = specL cls kids := by
  simp only [specT]
  cases hc : cls i with
  | sel s => exact absurd hc (h s)
  | branch => simp
  | leaf => simp

/-- A successful invocation of a selected rule with `store_content`: exactly one node, spanning what the
    rule matched, with the surviving sub-derivation as its children. -/
theorem C12_selected_node (cls : Nat → Cls) (i : Nat) (a : AMode) (m : RMode) (b e : Cursor) (kids : List Invoc)
    (h : cls i = .sel .store) :
    specT cls (.mk i a m kc 1 b e kids) = (0, ⟨i, b, e, true⟩) :: (specL cls kids).lift := by
  simp [specT, h, transformNode, mkNode]

/-! ### children contained in and ordered within their parent -/

/-- **Every invocation tree is well-chained.**  The trace of a run is the event list of one invocation tree in which,
    below every successful invocation of a rule that does not re-read input (every kind except `at`, `not_at` and
    `rematch` with inner rules), the successful sub-invocations are ordered — each starts at or after the end of the
    previous one — and lie within the invocation's own span (`wellT`, `chainOK`).  Any grammar, actions, modes, input. -/
theorem C12_invocations_chained (cx : Ctx) (n i : Nat) (a : AMode) (m : RMode) (env : Env) (st : St) (r : Ret)
    (h : run cx n i a m env st = some r) :
    ∃ t : Invoc, proj r.raw = t.flat ∧ wellT (rrOf cx.g) t = true ∧ t.res = r.res.code ∧
      t.b = cx.rep st.cur ∧ t.e = cx.rep r.st.cur := by
  obtain ⟨t, ht, hw, hres, hb, he, -⟩ := run_span cx n i a m env st r h
  exact ⟨t, ht, hw, hres, hb, he⟩

/-- **Containment and order in the parse tree.**  For a grammar none of whose rules re-reads input (no `at`, `not_at`,
    `rematch< R, S... >`) and without `match()`-carrying action classes: the tree `parse_tree::parse` returns is the
    pre-order of rose trees (`flatTs trees`) in which, below every node, the children's spans are ordered and contained
    in the node's span (`nestedTs`), the roots themselves being ordered within the span the parse consumed — for every
    selector assignment (store / remove_content / fold_one / discard_empty), input, action attachment and mode. -/
theorem C12_children_contained (cx : Ctx) (hnw : NoWraps cx) (hrr : ∀ i, rrOf cx.g i = false) (selMap : Nat → Option Sel)
    (n i : Nat) (a : AMode) (m : RMode) (r : Ret) (h : parseTop cx n i a m = some r) (hok : r.res = .ok) :
    ∃ trees : List TTree, buildTree (clsOf cx.g selMap) true r.raw = some (flatTs trees) ∧ nestedTs trees = true ∧
      chainTs (cx.rep cx.start.cur).pos trees (cx.rep r.st.cur).pos = true := by
  have inv := C12_leaf_optimisation_invisible cx hnw selMap n i a m r h
  simp only [hok, decide_true] at inv
  obtain ⟨t, ht, hw, hres, hb, he, -⟩ := run_span cx n i a m {} cx.start r h
  have hl' : leafOKT (clsPlain cx.g selMap) t = true :=
    noLeafT _ (by intro j; simp only [clsPlain]; split <;> simp) t
  have hbuild : buildTree (clsPlain cx.g selMap) true r.raw = some (specT (clsPlain cx.g selMap) t) := by
    unfold buildTree
    simp only [if_true]
    rw [runTree_proj, ht, run_specT _ t ⟨default, []⟩ [] hl']
    simp
  obtain ⟨hn, hc⟩ := nested_of_wellT (rrOf cx.g) hrr (clsPlain cx.g selMap) t hw
  refine ⟨specTreeT (clsPlain cx.g selMap) t, ?_, hn, ?_⟩
  · rw [inv, hbuild, specT_flat]
  · have := hc (by rw [hres, hok]; rfl)
    rwa [hb, he] at this

/-! ### the built-in transformers change the tree only as documented -/

theorem C12_remove_content (n : TNode) (kids : Forest) :
    transformNode .removeContent n kids = (0, { n with content := false }) :: kids.lift := rfl

theorem C12_fold_one_single (n : TNode) (kids : Forest) (h : kids.roots = 1) :
    transformNode .foldOne n kids = kids := by simp [transformNode, h]

theorem C12_fold_one_other (n : TNode) (kids : Forest) (h : kids.roots ≠ 1) :
    transformNode .foldOne n kids = (0, { n with content := false }) :: kids.lift := by simp [transformNode, h, mkNode]

theorem C12_discard_empty_none (n : TNode) : transformNode .discardEmpty n [] = [] := rfl

theorem C12_discard_empty_some (n : TNode) (kids : Forest) (h : kids ≠ []) :
    transformNode .discardEmpty n kids = (0, { n with content := false }) :: kids.lift := by
  cases kids with
  | nil => exact absurd rfl h
  | cons k ks => simp [transformNode, mkNode]

/-! ### the leaf optimisation: sound whenever no selected rule is invoked below a `leaf` rule -/

/-- With every unselected rule classified `branch` (no optimisation) the side condition is vacuous: the
    optimisation can only matter through `leafOKT`. -/
theorem C12_no_optimisation (cls : Nat → Cls) (hb : ∀ i, cls i ≠ .leaf) : ∀ t : Invoc, leafOKT cls t = true :=
  noLeafT cls hb

/-! ### non-vacuity -/

/-- `n0 = seq< n1, n4 >`, `n1 = sor< n2, n3 >`, `n2 = seq< 'a', 'b' >` (fails on "ac" after `n5` matched), `n3 = seq< n5, 'c' >`,
    `n4 = at< n5 >`…  Selected: 0, 1, 3, 5. -/
def exG : Grammar := #[
  ⟨true, {}, .seq [1, 4]⟩,
  ⟨true, {}, .sor [2, 3]⟩,
  ⟨true, {}, .seq [5, 6]⟩,
  ⟨true, {}, .seq [5, 7]⟩,
  ⟨false, {}, .atR 5⟩,
  ⟨true, {}, .atom (.one true [97])⟩,
  ⟨true, {}, .atom (.one true [98])⟩,
  ⟨true, {}, .atom (.one true [99])⟩]

def exSel : Nat → Option Sel := fun i => if i = 0 ∨ i = 1 ∨ i = 3 ∨ i = 5 then some .store else if i = 2 then some .store else none

/-- "aca": `n2` matches `a` (node for n5!) and then fails: that node must not survive; `n3` matches "ac";
    `at< n5 >` matches the second `a` with actions disabled: its node is in the tree.

    **Containment fails below a look-ahead**: that last node (rule 5, bytes [2,3)) is a child of the root node (rule 0,
    bytes [0,2)) — the property counts matches inside a succeeding and-predicate as part of the tree, and such a match
    lies beyond what its parent consumed.  `C12_children_contained` therefore excludes rules that re-read input
    (KNOWN-FINDING F20 of the check). -/
theorem C12_containment_fails_below_lookahead : (parseTop { g := exG, inp := #[97, 99, 97] } 10 0 .action .required).bind
    (fun r => buildTree (clsOf exG exSel) (decide (r.res = .ok)) r.raw) =
    some [(0, ⟨0, ⟨0, 1, 1⟩, ⟨2, 1, 3⟩, true⟩),
          (1, ⟨1, ⟨0, 1, 1⟩, ⟨2, 1, 3⟩, true⟩),
          (2, ⟨3, ⟨0, 1, 1⟩, ⟨2, 1, 3⟩, true⟩),
          (3, ⟨5, ⟨0, 1, 1⟩, ⟨1, 1, 2⟩, true⟩),
          (1, ⟨5, ⟨2, 1, 3⟩, ⟨3, 1, 4⟩, true⟩)] := by decide +kernel

/-- a failing parse: no tree -/
example : (parseTop { g := exG, inp := #[97, 99] } 10 0 .action .required).bind
    (fun r => buildTree (clsOf exG exSel) (decide (r.res = .ok)) r.raw) = none := by decide +kernel

end Pegtl.C12
