/-
  Props/C17.lean — property C17: the unescape helpers of
  `/repo/include/tao/pegtl/contrib/unescape.hpp` produce exact UTF-8 and reject invalid code points.

  Model: `Model/Unescape.lean` (`utf8AppendUtf32`, `unhexChar`, `unhexString`, `unescapeC…`,
  `unescapeU`, `unescapeX`, `unescapeJ`).  Meaning: `Spec/Utf8Enc.lean` (`isScalar`, `encodeUtf8` =
  Unicode Table 3-6, `decodeUtf8` = Unicode Table 3-7, `utf16Scan`/`utf16Decode`, `value16`, the
  documented escape tables).  Only the property theorems and their non-vacuity examples live here;
  the proofs are in `Lemmas/Unescape.lean`.

  Results of the model: `(bool returned, string afterwards)`; `some …`/`none` = the call returned /
  ran into `std::terminate()`; for the throwing actions `false` = `parse_error` thrown.
-/
import PegtlVerif.Lemmas.Unescape

namespace Pegtl.Unescape

/-! ### `utf8_append_utf32` -/

/-- Appending a Unicode scalar value reports success and appends exactly its UTF-8 encoding
    (for *every* natural number `cp`, in particular every 32-bit value). -/
theorem C17_append (s : List UInt8) (cp : Nat) (h : isScalar cp) :
    utf8AppendUtf32 s cp = (true, s ++ encodeUtf8 cp) :=
  append_scalar s cp h

example : isScalar 0x1F600 ∧ utf8AppendUtf32 [0x61] 0x1F600 = (true, [0x61, 0xF0, 0x9F, 0x98, 0x80]) := by
  decide

/-- Surrogates and everything above U+10FFFF (up to any size) are refused and nothing is appended. -/
theorem C17_reject (s : List UInt8) (cp : Nat) (h : ¬ isScalar cp) :
    utf8AppendUtf32 s cp = (false, s) :=
  append_nonscalar s cp h

example : ¬ isScalar 0xD800 ∧ ¬ isScalar 0xDFFF ∧ ¬ isScalar 0x110000 ∧ ¬ isScalar 0xFFFFFFFF ∧
    utf8AppendUtf32 [0x61] 0xDFFF = (false, [0x61]) := by decide

/-- What is appended is well-formed UTF-8 (Unicode Table 3-7) for exactly that code point, and it
    is self-delimiting: a Table 3-7 decoder reads `cp` back, with the right length, whatever
    follows.  (Ties C17 to the decoder side, C10.) -/
theorem C17_roundtrip (cp : Nat) (t : List UInt8) (h : isScalar cp) :
    decodeUtf8 (encodeUtf8 cp ++ t) = some (cp, encLen cp) :=
  encode_decode cp t h

example : isScalar 0xFFFF ∧ decodeUtf8 (encodeUtf8 0xFFFF ++ [0x41]) = some (0xFFFF, 3) := by decide

/-- "its *unique* well-formed encoding": any byte string that a Table 3-7 decoder accepts as the
    code point `cp` starts with exactly `encodeUtf8 cp`, and `cp` is a scalar value — so the bytes
    appended by `utf8_append_utf32` are the only well-formed UTF-8 sequence for `cp`
    (no overlong forms, no encoded surrogates, nothing above U+10FFFF). -/
theorem C17_unique_wellformed (bs : List UInt8) (cp n : Nat) (h : decodeUtf8 bs = some (cp, n)) :
    isScalar cp ∧ n = encLen cp ∧ bs.take n = encodeUtf8 cp :=
  decode_unique bs cp n h

example : decodeUtf8 [0xE2, 0x82, 0xAC, 0x41] = some (0x20AC, 3) ∧
    decodeUtf8 [0xC0, 0x80] = none ∧ decodeUtf8 [0xED, 0xA0, 0x80] = none ∧
    decodeUtf8 [0xF4, 0x90, 0x80, 0x80] = none := by decide

/-! ### `unescape_j` -/

/-- `unescape_j` applied to the text of one or more consecutive `\uXXXX` escapes (the action input
    starts after the first backslash): the digit groups are read as UTF-16 code units; if that
    sequence is well-formed UTF-16 the action succeeds and appends the UTF-8 encoding of its code
    points — every high·low pair combined into one supplementary code point, every other unit
    encoded on its own; it throws exactly when some surrogate is lone (`utf16Decode = none`), the
    string then holding the encoding of the well-formed prefix before that surrogate. -/
theorem C17_unescape_j (dss : List (List UInt8)) (hne : dss ≠ []) (h : ∀ ds ∈ dss, Group4 ds)
    (s : List UInt8) :
    unescapeJ ((jsonEscapes dss).drop 1) s =
      match utf16Decode (dss.map value16) with
      | some cps => some (true, s ++ cps.flatMap encodeUtf8)
      | none => some (false, s ++ (utf16Scan (dss.map value16)).1.flatMap encodeUtf8) := by
  rw [unescapeJ_eq dss hne h s]
  simp only [utf16Decode]
  cases hb : (utf16Scan (dss.map value16)).2 <;> simp

/-- `\u0041\uD83D\ude00` ↦ `A` followed by U+1F600 (appended to `~`). -/
example : unescapeJ ((jsonEscapes [[48, 48, 52, 49], [68, 56, 51, 68], [100, 101, 48, 48]]).drop 1) [0x7E]
    = some (true, [0x7E, 0x41, 0xF0, 0x9F, 0x98, 0x80]) := by
  rw [C17_unescape_j _ (by decide) (by decide)]; decide

/-- `\u0041\ude00\uD83D`: low surrogate first — rejected, `A` already appended. -/
example : unescapeJ ((jsonEscapes [[48, 48, 52, 49], [100, 101, 48, 48], [68, 56, 51, 68]]).drop 1) []
    = some (false, [0x41]) := by
  rw [C17_unescape_j _ (by decide) (by decide)]; decide

/-- `utf16Decode` rejects exactly the lone surrogates: without surrogates every unit is kept. -/
theorem C17_utf16_no_surrogates (units : List Nat)
    (h : ∀ u ∈ units, ¬ isHighSurrogate u ∧ ¬ isLowSurrogate u) : utf16Decode units = some units := by
  simp only [utf16Decode, scan_no_surrogates units h, if_true]

example : utf16Decode [0x41, 0xD7FF, 0xE000, 0xFFFF] = some [0x41, 0xD7FF, 0xE000, 0xFFFF] ∧
    utf16Decode [0xD800] = none ∧ utf16Decode [0xDC00, 0xD800] = none ∧
    utf16Decode [0xDBFF, 0xDFFF] = some [0x10FFFF] := by decide

/-! ### `unhex_char`, `unhex_string` -/

/-- `unhex_char` maps every hexadecimal digit, either case, to its position in the digit alphabet
    and terminates on every other character (all 256 bytes). -/
theorem C17_unhexChar (c : UInt8) :
    unhexChar c = hexDigitValue c ∧ ((unhexChar c).isSome = isXDigit c) := by
  refine ⟨unhexChar_eq c, ?_⟩
  rw [unhexChar_eq, isXDigit_iff]

example : unhexChar 70 = some 15 ∧ unhexChar 97 = some 10 ∧ unhexChar 57 = some 9 ∧ unhexChar 71 = none := by
  decide

/-- `unhex_string< I >` on a digit string that fits the `w` value bits of `I` (at most `w / 4`
    digits) returns exactly its base-16 value. -/
theorem C17_unhex (w : Nat) (ds : List UInt8) (hx : ∀ c ∈ ds, isXDigit c = true)
    (hw : 4 * ds.length ≤ w) : unhexString w ds = some (value16 ds) :=
  unhexString_exact w ds hx hw

example : (∀ c ∈ [102, 70, 48, 49, 97, 66, 55, 101], isXDigit c = true) ∧
    unhexString 32 [102, 70, 48, 49, 97, 66, 55, 101] = some 0xFF01AB7E := by decide

/-- Longer strings wrap modulo `2 ^ w` (unsigned `I`): the last `w / 4` digits win. -/
theorem C17_unhex_wrap (w : Nat) (ds : List UInt8) (hx : ∀ c ∈ ds, isXDigit c = true) :
    unhexString w ds = some (value16 ds % 2 ^ w) :=
  unhexString_mod w ds hx

example : unhexString 8 [49, 50, 51] = some 0x23 := by decide

/-! ### `unescape_c`, `unescape_u`, `unescape_x` -/

/-- `unescape_c< one< Qs... >, Rs... >`: the character `Qs[i]` (first occurrence) is replaced by
    `Rs[i]`; a character not among `Qs` terminates. -/
theorem C17_unescape_c (qs rs : List UInt8) (hlen : qs.length = rs.length) (s : List UInt8) :
    (∀ i (hi : i < qs.length), (∀ j (hj : j < i), qs[j] ≠ qs[i]) →
        unescapeC qs rs [qs[i]] s = some (s ++ [rs[i]])) ∧
    (∀ c, c ∉ qs → unescapeC qs rs [c] s = none) := by
  constructor
  · intro i hi hfirst
    simp only [unescapeC, applyTwo_first qs rs hlen i hi hfirst, Option.map_some]
  · intro c hc
    simp only [unescapeC, applyTwo_none qs rs c hc, Option.map_none]

example : unescapeC cEscQ cEscR [110] [0x61] = some [0x61, 10] := by decide

/-- The two instantiations shipped with PEGTL (`src/example/pegtl/unescape.cpp`: the C escapes;
    `json_unescape.hpp`: RFC 8259 §7) map every listed character to the documented replacement and
    no other byte to anything. -/
theorem C17_unescape_c_tables (c : UInt8) :
    unescapeCApplyTwo cEscQ cEscR c = tableLookup cEscapeTable c ∧
    unescapeCApplyTwo jEscQ jEscR c = tableLookup jsonEscapeTable c := by
  have h1 := cTable_nat c.toNat c.toNat_lt
  have h2 := jTable_nat c.toNat c.toNat_lt
  rw [UInt8.ofNat_toNat] at h1 h2
  exact ⟨h1, h2⟩

example : tableLookup cEscapeTable 118 = some 11 ∧ tableLookup cEscapeTable 97 = some 7 ∧
    tableLookup jsonEscapeTable 47 = some 47 ∧ tableLookup jsonEscapeTable 97 = none ∧
    tableLookup jsonEscapeTable 116 = some 9 := by decide

/-- `unescape_u` on `u`/`U` followed by up to eight hex digits: the value is appended as UTF-8
    if it is a scalar value; otherwise `parse_error` is thrown and nothing is appended. -/
theorem C17_unescape_u (u : UInt8) (ds : List UInt8) (hx : ∀ c ∈ ds, isXDigit c = true)
    (hl : ds.length ≤ 8) (s : List UInt8) :
    unescapeU (u :: ds) s =
      some (if isScalar (value16 ds) then (true, s ++ encodeUtf8 (value16 ds)) else (false, s)) := by
  simp only [unescapeU, unhexString_exact 32 ds hx (by omega), Option.map_some]
  split
  · rename_i h; rw [append_scalar s _ h]
  · rename_i h; rw [append_nonscalar s _ h]

example : unescapeU [85, 48, 48, 48, 49, 70, 54, 48, 48] [] = some (true, [0xF0, 0x9F, 0x98, 0x80]) ∧
    unescapeU [117, 68, 56, 48, 48] [0x61] = some (false, [0x61]) ∧
    unescapeU [85, 48, 48, 49, 49, 48, 48, 48, 48] [] = some (false, []) := by decide

/-- `unescape_x` on `x` followed by at most two hex digits appends the byte with that value. -/
theorem C17_unescape_x (x : UInt8) (ds : List UInt8) (hx : ∀ c ∈ ds, isXDigit c = true)
    (hl : ds.length ≤ 2) (s : List UInt8) :
    unescapeX (x :: ds) s = some (s ++ [UInt8.ofNat (value16 ds)]) := by
  simp only [unescapeX, unhexString_exact 8 ds hx (by omega), Option.map_some]

example : unescapeX [120, 69, 57] [0x61] = some [0x61, 0xE9] := by decide

end Pegtl.Unescape
