/-
  Props/C18.lean — property C18: "Depth and byte limits are enforced exactly and leave no residue".

  `limit_depth< N >` and `limit_bytes< N >` are action classes with a `match()` of their own; the
  model has them as `Wrap.limitDepth` / `Wrap.limitBytes` around `nodeCore` (Model/Run.lean
  `limitDepthCall`, `limitBytesCall`, transcribed from contrib/limit_depth.hpp and
  contrib/limit_bytes.hpp as repaired by the `fix:` commit that counts from `current()`).
-/
import PegtlVerif.Lemmas.Rewind
import PegtlVerif.Lemmas.Twin
import PegtlVerif.Lemmas.TwinConv

namespace Pegtl.C18

/-- No residue: after *any* invocation — success, local failure, exception — the depth counter
    and the end of the input are what they were. -/
theorem C18_frame (cx : Ctx) (n i : Nat) (a : AMode) (m : RMode) (env : Env) (st : St) (r : Ret)
    (h : run cx n i a m env st = some r) : r.st.depth = st.depth ∧ r.st.endp = st.endp :=
  ⟨(run_good cx n i a m env st r h).depth, (run_good cx n i a m env st r h).endp⟩

/-- A whole run ends with depth 0 and the end at the end of the data. -/
theorem C18_parse_frame (cx : Ctx) (fuel i : Nat) (a : AMode) (m : RMode) (r : Ret)
    (h : parseTop cx fuel i a m = some r) : r.st.depth = 0 ∧ r.st.endp = cx.inp.size := by
  unfold parseTop at h
  have g := run_good cx fuel i a m {} cx.start r h
  exact ⟨by simpa [Ctx.start] using g.depth, by simpa [Ctx.start] using g.endp⟩

/-- The depth limit is exact: the guarded rule's `match()` is entered only when the new depth is at
    most `N`, and then with exactly one level more; otherwise the invocation is a global failure
    blaming `limit_depth< N >` at the current position, with nothing consumed. -/
theorem C18_depth_exact (cx : Ctx) (core : St → Out) (n : Nat) (st : St) (r : Ret)
    (h : limitDepthCall cx core n st = some r) :
    (st.depth + 1 ≤ n ∧ ∃ r0, core { st with depth := st.depth + 1 } = some r0 ∧ r.res = r0.res ∧ r.st.cur = r0.st.cur) ∨
    (n < st.depth + 1 ∧ r.res = .thr (.parse (limitDepthId n) (cx.rep st.cur)) ∧ r.st = st) := by
  unfold limitDepthCall at h
  split at h
  · rename_i hgt
    simp only [Option.some.injEq] at h; subst h
    exact Or.inr ⟨by omega, rfl, rfl⟩
  · rename_i hle
    simp only [Option.map_eq_some_iff] at h
    obtain ⟨r0, h0, rfl⟩ := h
    exact Or.inl ⟨by omega, r0, h0, rfl, rfl⟩

/-- Hence every guarded rule body runs nested at most `N` guarded levels deep. -/
theorem C18_depth_bound (cx : Ctx) (core : St → Out) (n : Nat) (st : St) (r : Ret)
    (h : limitDepthCall cx core n st = some r) (hne : ∀ p, r.res ≠ .thr (.parse (limitDepthId n) p) ∨ r.st ≠ st) :
    st.depth + 1 ≤ n := by
  rcases C18_depth_exact cx core n st r h with ⟨h1, _⟩ | ⟨_, h2, h3⟩
  · exact h1
  · rcases hne (cx.rep st.cur) with h' | h'
    · exact absurd h2 h'
    · exact absurd h3 h'

/-- The byte limit: the guarded `match()` runs in the window `[cur, cur + min( avail, N ))` —
    wherever `cur` is — so (with `C03_no_oob`, `C03_in_bounds`) it can neither inspect nor consume
    more than `N` bytes from where its match started. -/
theorem C18_bytes_bound {rec : Rec} (hrec : GoodRec rec) (cx : Ctx) (k i : Nat) (nd : Node) (a : AMode) (m : RMode)
    (env : Env) (n : Nat) (st : St) (r : Ret) (hle : st.cur.pos ≤ st.endp)
    (h : limitBytesCall cx (nodeCore cx rec k i nd a m env) n st = some r) :
    r.st.cur.pos ≤ st.cur.pos + n ∧ r.st.cur.pos ≤ st.endp ∧ r.st.endp = st.endp ∧
    (st.oob = false → r.st.oob = false) := by
  unfold limitBytesCall at h
  simp only [Option.map_eq_some_iff] at h
  obtain ⟨r0, h0, rfl⟩ := h
  have g := nodeCore_good hrec cx k i nd a m env _ r0 h0
  have hin := g.inb (by simp only [St.avail]; omega)
  have hno := g.noob (by simp only [St.avail]; omega)
  simp only [St.avail] at hin
  refine ⟨?_, ?_, ?_, ?_⟩ <;> split <;> simp only <;> first | omega | exact hno | rfl

/-- When exactly the byte limit raises: the guarded rule matched, stopped at the lowered end, and
    the real input continues beyond it. -/
theorem C18_bytes_raise (cx : Ctx) (core : St → Out) (n : Nat) (st : St) (r : Ret)
    (h : limitBytesCall cx core n st = some r) :
    (∃ p, r.res = .thr (.parse (limitBytesId n) p)) ∨
    (∃ r0, core { st with endp := st.cur.pos + min st.avail n } = some r0 ∧ r.res = r0.res ∧
      ¬ (r0.res = .ok ∧ r0.st.cur.pos = r0.st.endp ∧ st.endp ≠ r0.st.cur.pos)) := by
  unfold limitBytesCall at h
  simp only [Option.map_eq_some_iff] at h
  obtain ⟨r0, h0, rfl⟩ := h
  split
  · exact Or.inl ⟨_, rfl⟩
  · rename_i hc
    exact Or.inr ⟨r0, h0, rfl, hc⟩

/-- **Within the limit the guard is invisible.**  Read `limit_depth< N >` in three ways that differ only at the moment
    the new depth would exceed `N`: the real one raises (`run`), `stuck` does not continue, `off` has the check removed
    (`Lemmas/Twin.lean`).  A `stuck` run returns only if no depth limit was reached anywhere in the run — at any nesting,
    also inside predicates and `try_catch` — and then the guarded run and the unguarded run return that very result:
    same outcome, cursor, trace (every hook, action call and position), surviving actions.  For every grammar, action
    attachment, input, mode and fuel. -/
theorem C18_twin (cx : Ctx) (n i : Nat) (a : AMode) (m : RMode) (env : Env) (st : St) (r : Ret)
    (h : runM .stuck cx n i a m env st = some r) :
    run cx n i a m env st = some r ∧ runM .off cx n i a m env st = some r :=
  ⟨by rw [← runM_raise]; exact runM_stuck_le .raise cx n i a m env st r h, runM_stuck_le .off cx n i a m env st r h⟩

/-- **…and "within the limit" can be read off the trace.**  A guarded run in whose trace no `raise` of a `limit_depth`
    pseudo-rule occurs (`cleanB`: not at top level, not swallowed by a `try_catch`, not inside a predicate) never reached a
    depth limit: it is the `stuck` run, hence also the unguarded run.  So an input parses differently with and without the
    guard only if the guard visibly fired.  (Every combinator's trace contains the traces of the sub-results it used —
    `Lemmas/TwinConv.lean`, `body_clean`.) -/
theorem C18_twin_trace (cx : Ctx) (n i : Nat) (a : AMode) (m : RMode) (env : Env) (st : St) (r : Ret)
    (h : run cx n i a m env st = some r) (hc : cleanB r.raw = true) :
    runM .stuck cx n i a m env st = some r ∧ runM .off cx n i a m env st = some r := by
  have hs : runM .stuck cx n i a m env st = some r := run_clean cx n i a m env st r (filt_some h hc)
  exact ⟨hs, runM_stuck_le .off cx n i a m env st r hs⟩

/-- Contrapositive: if the unguarded run does not return what the guarded run returned, a `limit_depth` raise is in the
    guarded run's trace. -/
theorem C18_guard_visible (cx : Ctx) (n i : Nat) (a : AMode) (m : RMode) (env : Env) (st : St) (r : Ret)
    (h : run cx n i a m env st = some r) (hd : runM .off cx n i a m env st ≠ some r) :
    ∃ e ∈ r.raw, e.isLdRaise = true := by
  by_cases hc : cleanB r.raw = true
  · exact absurd (C18_twin_trace cx n i a m env st r h hc).2 hd
  · have : (r.raw.any fun e => e.isLdRaise) = true := by
      cases hany : r.raw.any (fun e => e.isLdRaise) with
      | true => rfl
      | false =>
        exfalso; apply hc
        simp only [List.any_eq_false] at hany
        simp only [cleanB, List.all_eq_true, Bool.not_eq_true']
        intro e he
        simpa using hany e he
    simp only [List.any_eq_true] at this
    exact this

/-- The `stuck` reading stops exactly where the guard fires: at a guarded rule entered when the depth is already `N`. -/
theorem C18_stuck_exact (cx : Ctx) (core : St → Out) (n : Nat) (st : St) :
    limitDepthCallM .stuck cx core n st = none ↔ (n < st.depth + 1 ∨ core { st with depth := st.depth + 1 } = none) := by
  simp only [limitDepthCallM]
  split
  · rename_i hc; simp; omega
  · rename_i hc
    simp only [Option.map_eq_none_iff]
    constructor
    · intro h; exact Or.inr h
    · rintro (h | h)
      · omega
      · exact h

/-! ### Non-vacuity -/

/-- `R = seq< one<'('>, opt< R >, one<')'> >` with `limit_depth< 3 >` on `R`;
    `B = star< any >` with `limit_bytes< 2 >`, placed after one byte: `T = seq< any, B, star< any > >`. -/
def exG : Grammar := #[
  ⟨true, { wrap := .limitDepth 3 }, .seq [1, 2, 3]⟩,
  ⟨true, {}, .atom (.one true [40])⟩,
  ⟨false, {}, .partialR [0]⟩,
  ⟨true, {}, .atom (.one true [41])⟩,
  ⟨true, { wrap := .limitBytes 2 }, .starPartial [5]⟩,
  ⟨true, {}, .atom .any⟩,
  ⟨true, {}, .seq [5, 4, 7]⟩,
  ⟨true, {}, .starPartial [5]⟩,
  ⟨true, {}, .seq [5, 8]⟩,
  ⟨true, { wrap := .limitBytes 2 }, .seq [5, 5]⟩]

/-- "(())" nests two levels and attempts a third `R` at the first ')': depth 3 ≤ 3, parses, depth back to 0 -/
example : ∃ r, parseTop { g := exG, inp := #[40, 40, 41, 41] } 20 0 .action .required = some r ∧
    r.res = .ok ∧ r.st.cur.pos = 4 ∧ r.st.depth = 0 := by decide +kernel

/-- "((()))" attempts a fourth level: global failure blaming `limit_depth< 3 >` where that attempt
    starts, depth back to 0 -/
example : ∃ r, parseTop { g := exG, inp := #[40, 40, 40, 41, 41, 41] } 20 0 .action .required = some r ∧
    r.res = .thr (.parse (limitDepthId 3) ⟨3, 1, 4⟩) ∧ r.st.depth = 0 := by decide +kernel

/-- the twin runs: on "(())" the stuck reading returns, and it is the guarded and the unguarded result; on "((()))" it does
    not return, the guarded run raises and the unguarded one matches -/
example : ∃ r, runM .stuck { g := exG, inp := #[40, 40, 41, 41] } 20 0 .action .required {} (Ctx.start { g := exG, inp := #[40, 40, 41, 41] }) = some r ∧
    parseTop { g := exG, inp := #[40, 40, 41, 41] } 20 0 .action .required = some r ∧ r.res = .ok := by decide +kernel

example : runM .stuck { g := exG, inp := #[40, 40, 40, 41, 41, 41] } 20 0 .action .required {} (Ctx.start { g := exG, inp := #[40, 40, 40, 41, 41, 41] }) = none ∧
    (∃ r, runM .off { g := exG, inp := #[40, 40, 40, 41, 41, 41] } 20 0 .action .required {} (Ctx.start { g := exG, inp := #[40, 40, 40, 41, 41, 41] }) = some r ∧
      r.res = .ok ∧ r.st.cur.pos = 6 ∧ r.st.depth = 0) := by decide +kernel

/-- the hypothesis of `C18_twin_trace` read off the two traces: clean on "(())", not clean on "((()))" -/
example : (parseTop { g := exG, inp := #[40, 40, 41, 41] } 20 0 .action .required).map (fun r => cleanB r.raw) = some true ∧
    (parseTop { g := exG, inp := #[40, 40, 40, 41, 41, 41] } 20 0 .action .required).map (fun r => cleanB r.raw) = some false := by
  decide +kernel

/-- a greedy `star< any >` under `limit_bytes< 2 >` started at offset 1 of a 5-byte input stops at the
    lowered end and raises; the end is restored -/
example : ∃ r, parseTop { g := exG, inp := #[1, 2, 3, 4, 5] } 20 6 .action .required = some r ∧
    r.res = .thr (.parse (limitBytesId 2) ⟨3, 1, 4⟩) ∧ r.st.endp = 5 := by decide +kernel

/-- `seq< any, any >` under `limit_bytes< 2 >` at offset 1 of a 3-byte input ends exactly at the real
    end: no raise -/
example : ∃ r, parseTop { g := exG, inp := #[1, 2, 3] } 20 8 .action .required = some r ∧ True := by
  decide +kernel

end Pegtl.C18
