/-
  Props/C13.lean — C13: state and action switching is scoped to the rule it is attached to.

  State objects (`state< S, R >`, `change_state< S >`, `change_states< S >`, `change_action_and_state< A, S >`,
  `change_action_and_states< A, S >`) are locals of a `match()` frame.  The model logs their
  construction, their `success` call and their destruction, and every action call logs the nesting
  depth of the state object it was given.
-/
import PegtlVerif.Lemmas.Scope
import PegtlVerif.Lemmas.Hooks
import PegtlVerif.Lemmas.Switch

namespace Pegtl.C13

/-- **Scoping, whole trace.**  For every grammar, attachment of actions and state-switching bases,
    input, modes and fuel: the trace of an invocation entered with `env.sd` live state objects is
    accepted by the state-scope automaton from every stack of that height and leaves it unchanged.
    Hence every state object constructed inside is destroyed inside, in LIFO order (also when the
    invocation fails or is left by an exception); `success` is called at most once per object, only
    while it is the innermost live one, and with the next outer object as outer state; and every
    action call is given the innermost live state object. -/
theorem C13_scopes (cx : Ctx) (n i : Nat) (a : AMode) (m : RMode) (env : Env) (st : St) (r : Ret)
    (h : run cx n i a m env st = some r) : SL env r.raw :=
  run_scope cx n a i m env st r h

/-- For a whole parse: accepted from the empty stack, no state object is left. -/
theorem C13_parse_scopes (cx : Ctx) (n i : Nat) (a : AMode) (m : RMode) (r : Ret)
    (h : parseTop cx n i a m = some r) : runScope [] r.raw = some [] :=
  C13_scopes cx n i a m {} cx.start r h [] rfl

/-- Nothing inside an invocation touches the state objects that were alive when it was entered: all
    state events concern strictly deeper objects, and no action is given an outer object's
    predecessor. -/
theorem C13_deeper (cx : Ctx) (n i : Nat) (a : AMode) (m : RMode) (env : Env) (st : St) (r : Ret)
    (h : run cx n i a m env st = some r) : Deeper env r.raw :=
  run_deeper cx n a i m env st r h

def isCtor (d : Nat) : Ev → Bool | .sctor d' => d == d' | _ => false
def isSucc (d : Nat) : Ev → Bool | .ssucc d' _ _ => d == d' | _ => false
def isDtor (d : Nat) : Ev → Bool | .sdtor d' => d == d' | _ => false

theorem deeper_count {env : Env} {l : List Ev} (h : Deeper env l) (d : Nat) (hd : d ≤ env.sd) :
    (l.filter (isCtor d)).length = 0 ∧ (l.filter (isSucc d)).length = 0 ∧ (l.filter (isDtor d)).length = 0 := by
  refine ⟨?_, ?_, ?_⟩ <;>
  · rw [List.length_eq_zero_iff, List.filter_eq_nil_iff]
    intro e he
    have := (h e he).1
    cases e <;> simp_all [isCtor, isSucc, isDtor, Ev.stateDepth] <;> omega

/-- **`state< S, R >`, exact life cycle.**  The object is constructed before `R` is attempted, with the
    current states as outer states; `R` runs with the new object as its only state; `success( in,
    outer... )` is called exactly when `R` matched — whatever the apply mode — at the cursor after the
    match; the object is destroyed when the frame is left, also by an exception; result and cursor
    are `R`'s. -/
theorem C13_state_rule (cx : Ctx) (rec : Rec) (k : Nat) (d : Bool) (c : Nat) (a : AMode) (m : RMode) (env : Env)
    (st : St) (r : Ret) (h : body cx rec k (.state d c) a m env st = some r) :
    ∃ r0, rec c a m { env with sd := env.sd + 1 } st = some r0 ∧ r.res = r0.res ∧ r.st = r0.st ∧ r.surv = r0.surv ∧
      r.raw = Ev.sctor (env.sd + 1) :: r0.raw ++
        (if r0.res = .ok then [Ev.ssucc (env.sd + 1) (cx.rep r0.st.cur) env.sd] else []) ++ [Ev.sdtor (env.sd + 1)] := by
  simp only [body, Option.map_eq_some_iff] at h
  obtain ⟨r0, h0, rfl⟩ := h
  refine ⟨r0, h0, rfl, rfl, rfl, ?_⟩
  simp [stateScope]

/-- … and therefore: exactly one construction, exactly one destruction, and `success` exactly once
    if the rule matched and never otherwise — counted over the complete trace, nested state scopes
    included. -/
theorem C13_state_rule_once (cx : Ctx) (n : Nat) (d : Bool) (c : Nat) (a : AMode) (m : RMode) (env : Env)
    (st : St) (r : Ret) (h : body cx (run cx n) n (.state d c) a m env st = some r) :
    (r.raw.filter (isCtor (env.sd + 1))).length = 1 ∧ (r.raw.filter (isDtor (env.sd + 1))).length = 1 ∧
    (r.raw.filter (isSucc (env.sd + 1))).length = (if r.res = .ok then 1 else 0) := by
  obtain ⟨r0, h0, hres, -, -, hraw⟩ := C13_state_rule cx (run cx n) n d c a m env st r h
  obtain ⟨hc, hs, hdt⟩ := deeper_count (run_deeper cx n a c m _ st r0 h0) (env.sd + 1) (Nat.le_refl _)
  rw [List.length_eq_zero_iff] at hc hs hdt
  rw [hraw, hres]
  by_cases hok : r0.res = .ok
  · simp [hok, List.filter_cons, List.filter_append, isCtor, isDtor, isSucc, hc, hs, hdt]
  · simp [hok, List.filter_cons, List.filter_append, isCtor, isDtor, isSucc, hc, hs, hdt]

/-- **`change_state< S >` / `change_states< S >` attached to rule `i`.**  The object lives around the rule's
    complete `match()` (hooks and the rule's own action included: they see the new object);
    `Action< Rule >::success` is called iff the rule matched *and* actions are enabled. -/
theorem C13_change_state (cx : Ctx) (rec : Rec) (k i : Nat) (nd : Node) (mu : Bool) (a : AMode) (m : RMode) (env : Env)
    (st : St) (r : Ret) (hn : cx.g[i]? = some nd) (hw : (cx.actOf env i nd).wrap = .changeState mu)
    (h : nodeCall cx rec k i a m env st = some r) :
    ∃ r1, nodeCore cx rec k i nd a m { env with sd := env.sd + 1 } st = some r1 ∧ r.res = r1.res ∧ r.st = r1.st ∧
      r.raw = Ev.enter i a m (cx.rep st.cur) env.ctl :: Ev.sctor (env.sd + 1) :: r1.raw ++
        (if r1.res = .ok ∧ a = .action then [Ev.ssucc (env.sd + 1) (cx.rep r1.st.cur) env.sd] else []) ++
        [Ev.sdtor (env.sd + 1), Ev.exit i r1.res.code (cx.rep r1.st.cur)] := by
  simp only [nodeCall, hn, hw, Option.map_eq_some_iff] at h
  obtain ⟨r0, ⟨r1, h1, rfl⟩, rfl⟩ := h
  refine ⟨r1, h1, by simp, by simp, ?_⟩
  simp [bracket, stateScope]

/-- **`change_action_and_state< A, S >` / `…_states`**: as above, and the rule is re-entered through the
    control with the new action family. -/
theorem C13_change_action_and_state (cx : Ctx) (rec : Rec) (k i : Nat) (nd : Node) (fam : Nat) (mu : Bool) (a : AMode)
    (m : RMode) (env : Env) (st : St) (r : Ret) (hn : cx.g[i]? = some nd)
    (hw : (cx.actOf env i nd).wrap = .changeActionAndState fam mu)
    (h : nodeCall cx rec k i a m env st = some r) :
    ∃ r1, rec i a m { env with fam := fam, sd := env.sd + 1 } st = some r1 ∧ r.res = r1.res ∧ r.st = r1.st ∧
      r.raw = Ev.enter i a m (cx.rep st.cur) env.ctl :: Ev.sctor (env.sd + 1) :: r1.raw ++
        (if r1.res = .ok ∧ a = .action then [Ev.ssucc (env.sd + 1) (cx.rep r1.st.cur) env.sd] else []) ++
        [Ev.sdtor (env.sd + 1), Ev.exit i r1.res.code (cx.rep r1.st.cur)] := by
  simp only [nodeCall, hn, hw, Option.map_eq_some_iff] at h
  obtain ⟨r0, ⟨r1, h1, rfl⟩, rfl⟩ := h
  refine ⟨r1, h1, by simp, by simp, ?_⟩
  simp [bracket, stateScope]

/-- The rule's own action, when `change_state` is attached, is given the *new* state object. -/
theorem C13_own_action_sees_new_state (cx : Ctx) (n i : Nat) (nd : Node) (mu : Bool) (a : AMode) (m : RMode) (env : Env)
    (st : St) (r : Ret) (hn : cx.g[i]? = some nd) (hw : (cx.actOf env i nd).wrap = .changeState mu)
    (h : run cx (n + 1) i a m env st = some r) :
    ∀ e ∈ r.raw, (∀ j sd b c, e = Ev.apply j sd b c → env.sd + 1 ≤ sd) ∧ (∀ j sd c, e = Ev.apply0 j sd c → env.sd + 1 ≤ sd) := by
  simp only [run] at h
  obtain ⟨r1, h1, -, -, hraw⟩ := C13_change_state cx _ n i nd mu a m env st r hn hw h
  have hd := nodeCore_deeper (run_deeper cx n) cx n i nd a m _ st r1 h1
  intro e he
  rw [hraw] at he
  simp only [List.cons_append, List.append_assoc, List.mem_cons, List.mem_append, List.not_mem_nil, or_false] at he
  rcases he with he | he | he | he | he | he
  · subst he; simp
  · subst he; simp
  · exact ⟨(hd e he).2.1, (hd e he).2.2⟩
  · split at he
    · simp only [List.mem_singleton] at he; subst he; simp
    · simp at he
  · subst he; simp
  · subst he; simp

/-! ### the other switches: what exactly they replace

  `change_action`, `enable_action`, `disable_action` (attached to rule `i`) and the rules `enable`,
  `disable`, `action` replace the action family / apply mode for the attempt of that one rule; the
  environment is passed downwards only, so nothing after the rule can be affected. -/

theorem C13_change_action (cx : Ctx) (rec : Rec) (k i : Nat) (nd : Node) (fam : Nat) (a : AMode) (m : RMode) (env : Env)
    (st : St) (hn : cx.g[i]? = some nd) (hw : (cx.actOf env i nd).wrap = .changeAction fam) :
    nodeCall cx rec k i a m env st = (rec i a m { env with fam := fam } st).map (bracket cx i a m env.ctl st) := by
  simp [nodeCall, hn, hw]

theorem C13_disable_action (cx : Ctx) (rec : Rec) (k i : Nat) (nd : Node) (a : AMode) (m : RMode) (env : Env)
    (st : St) (hn : cx.g[i]? = some nd) (hw : (cx.actOf env i nd).wrap = .disableAction) :
    nodeCall cx rec k i a m env st = (nodeCore cx rec k i nd .nothing m env st).map (bracket cx i a m env.ctl st) := by
  simp [nodeCall, hn, hw]

theorem C13_enable_action (cx : Ctx) (rec : Rec) (k i : Nat) (nd : Node) (a : AMode) (m : RMode) (env : Env)
    (st : St) (hn : cx.g[i]? = some nd) (hw : (cx.actOf env i nd).wrap = .enableAction) :
    nodeCall cx rec k i a m env st = (nodeCore cx rec k i nd .action m env st).map (bracket cx i a m env.ctl st) := by
  simp [nodeCall, hn, hw]

/-- A sequence passes the same environment to every element: a switch inside the first element
    (whatever it is) cannot reach the second. -/
theorem C13_seq_env (rec : Rec) (a : AMode) (m : RMode) (env : Env) (c : Nat) (cs : List Nat) (st : St) (r1 : Ret)
    (h1 : rec c a m env st = some r1) (hok : r1.res = .ok) :
    seqAll rec a m env (c :: cs) st = (seqAll rec a m env cs r1.st).map (·.prepend r1.raw r1.surv) := by
  simp only [seqAll, h1, hok]
  cases seqAll rec a m env cs r1.st <;> rfl

/-- **Switch scoping, whole trace.**  The trace of every invocation — any grammar, any attachment of
    `change_action`, `change_action_and_state(s)`, `change_control`, `enable_action`, `disable_action`, any nesting of
    `at`, `not_at`, `enable`, `disable`, `action< F, … >`, `control< C, … >`, any input, outcome and fuel — is accepted by
    the automaton that recomputes, from the rule table alone, the apply mode, the action family and the control family
    of every invocation from its chain of *enclosing* invocations: every rule is entered with exactly the mode and
    through exactly the control its innermost enclosing invocation prescribes, its hooks are run by the control its
    own frame prescribes (the new one under `change_control`), and an action is called only for the innermost open
    rule and only if that rule has an action in the prescribed family and mode.  Since the frame of an invocation is
    popped when it returns, nothing a switch did can reach what comes after the rule it is attached to. -/
theorem C13_switch_scoped (cx : Ctx) (n i : Nat) (a : AMode) (m : RMode) (env : Env) (st : St) (r : Ret)
    (h : run cx n i a m env st = some r) : EL cx a env.fam env.ctl r.raw :=
  run_switch cx n i a m env st r h

/-- For a whole parse: accepted from the single frame "mode `a`, family 0, control 0". -/
theorem C13_parse_switch (cx : Ctx) (n i : Nat) (a : AMode) (m : RMode) (r : Ret)
    (h : parseTop cx n i a m = some r) :
    runEnv cx [⟨0, a, 0, 0, 0, false⟩] r.raw = some [⟨0, a, 0, 0, 0, false⟩] :=
  C13_switch_scoped cx n i a m {} cx.start r h ⟨0, a, 0, 0, 0, false⟩ rfl rfl rfl []

/-- **`change_control< C >` attached to rule `i`**: the rule is entered through the old control (which sees the
    invocation), its `match()` — hooks, own action, sub-rules — runs under the new one. -/
theorem C13_change_control (cx : Ctx) (rec : Rec) (k i : Nat) (nd : Node) (kc : Nat) (a : AMode) (m : RMode) (env : Env)
    (st : St) (hn : cx.g[i]? = some nd) (hw : (cx.actOf env i nd).wrap = .changeControl kc) :
    nodeCall cx rec k i a m env st =
      (nodeCore cx rec k i nd a m { env with ctl := kc } st).map (bracket cx i a m env.ctl st) := by
  simp [nodeCall, hn, hw]

/-- **`control< C, R >`** passes the new control to `R` only; the rule itself has no hooks (it is hidden). -/
theorem C13_control_rule (cx : Ctx) (rec : Rec) (k kc c : Nat) (a : AMode) (m : RMode) (env : Env) (st : St) :
    body cx rec k (.control kc c) a m env st = rec c a m { env with ctl := kc } st := by
  simp [body]

/-! ### non-vacuity -/

/-- `n0 = seq< n1, n2 >`, `n1 = state< S, n3 >`, `n2 = one< 'b' >` with `change_state` and a `bool` action, `n3 = one< 'a' >`
    with an `apply`. -/
def exG : Grammar := #[
  ⟨true, {}, .seq [1, 2]⟩,
  ⟨true, {}, .state false 3⟩,
  ⟨true, { kind := .apply0, isBool := true, vetoMod := 7, wrap := .changeState false }, .atom (.one true [98])⟩,
  ⟨true, { kind := .apply }, .atom (.one true [97])⟩]

example : (parseTop { g := exG, inp := #[97, 98] } 8 0 .action .required).map
    (fun r => (r.res, r.raw.filter (fun e => !e.scopeNeutral))) =
    some (.ok, [.sctor 1, .apply 3 1 ⟨0, 1, 1⟩ ⟨1, 1, 2⟩, .ssucc 1 ⟨1, 1, 2⟩ 0, .sdtor 1,
                .sctor 1, .apply0 2 1 ⟨2, 1, 3⟩, .ssucc 1 ⟨2, 1, 3⟩ 0, .sdtor 1]) := by decide +kernel

/-- the second rule fails: its state object is constructed and destroyed, `success` is not called -/
example : (parseTop { g := exG, inp := #[97, 97] } 8 0 .action .required).map
    (fun r => (r.res, r.raw.filter (fun e => !e.scopeNeutral))) =
    some (.fail, [.sctor 1, .apply 3 1 ⟨0, 1, 1⟩ ⟨1, 1, 2⟩, .ssucc 1 ⟨1, 1, 2⟩ 0, .sdtor 1, .sctor 1, .sdtor 1]) := by decide +kernel

/-- actions disabled: `state<>` still calls `success`, `change_state` does not -/
example : (parseTop { g := exG, inp := #[97, 98] } 8 0 .nothing .required).map
    (fun r => (r.res, r.raw.filter (fun e => !e.scopeNeutral))) =
    some (.ok, [.sctor 1, .ssucc 1 ⟨1, 1, 2⟩ 0, .sdtor 1, .sctor 1, .sdtor 1]) := by decide +kernel

/-- `n0 = seq< n1, n2 >`, `n1 = at< n2 >`, `n2 = one< 'a' >` with an action; family 1 gives `n0` an action and is switched to by
    `change_action` on `n0`. -/
def swG : Grammar := #[
  ⟨true, { wrap := .changeAction 1 }, .seq [1, 2]⟩,
  ⟨true, {}, .atR 2⟩,
  ⟨true, { kind := .apply }, .atom (.one true [97])⟩]

def swCx : Ctx := { g := swG, inp := #[97], fams := #[#[{ kind := .apply0 }, {}, { kind := .apply }]] }

/-- the run: `n2` inside `at` gets no action, `n2` after it does, `n0` gets its family-1 action -/
example : (parseTop swCx 8 0 .action .required).map (fun r => (r.res, r.raw.filter (fun e => !e.switchNeutral))) =
    some (.ok, [.enter 0 .action .required ⟨0, 1, 1⟩ 0, .enter 0 .action .required ⟨0, 1, 1⟩ 0, .start 0 ⟨0, 1, 1⟩ 0,
      .enter 1 .action .optional ⟨0, 1, 1⟩ 0, .start 1 ⟨0, 1, 1⟩ 0, .enter 2 .nothing .optional ⟨0, 1, 1⟩ 0, .start 2 ⟨0, 1, 1⟩ 0,
      .exit 2 1 ⟨1, 1, 2⟩, .exit 1 1 ⟨0, 1, 1⟩,
      .enter 2 .action .optional ⟨0, 1, 1⟩ 0, .start 2 ⟨0, 1, 1⟩ 0, .apply 2 0 ⟨0, 1, 1⟩ ⟨1, 1, 2⟩, .exit 2 1 ⟨1, 1, 2⟩,
      .apply0 0 0 ⟨1, 1, 2⟩, .exit 0 1 ⟨1, 1, 2⟩, .exit 0 1 ⟨1, 1, 2⟩]) := by decide +kernel

/-- the automaton is not trivial: the same events with the action of `n2` moved inside the look-ahead are rejected,
    and so is an `at` that lets its sub-rule run with actions enabled -/
example : runEnv swCx [⟨0, .action, 0, 0, 0, false⟩]
    [.enter 0 .action .required ⟨0, 1, 1⟩ 0, .enter 0 .action .required ⟨0, 1, 1⟩ 0, .enter 1 .action .optional ⟨0, 1, 1⟩ 0,
     .enter 2 .nothing .optional ⟨0, 1, 1⟩ 0, .apply 2 0 ⟨0, 1, 1⟩ ⟨1, 1, 2⟩] = none := by decide
example : runEnv swCx [⟨0, .action, 0, 0, 0, false⟩]
    [.enter 0 .action .required ⟨0, 1, 1⟩ 0, .enter 0 .action .required ⟨0, 1, 1⟩ 0, .enter 1 .action .optional ⟨0, 1, 1⟩ 0,
     .enter 2 .action .optional ⟨0, 1, 1⟩ 0] = none := by decide

/-- `n0 = seq< n1, n2, n3 >`, `n1 = one< 'a' >` with `change_control< C1 >`, `n2 = control< C1, n4 >` (hidden), `n3 = n4 = one< 'a' >`:
    `n1` is entered through control 0 and its hooks run under control 1; `n4` inside `control<>` is entered through
    control 1; `n3` after both is back under control 0. -/
def ccG : Grammar := #[
  ⟨true, {}, .seq [1, 2, 3]⟩,
  ⟨true, { wrap := .changeControl 1 }, .atom (.one true [97])⟩,
  ⟨false, {}, .control 1 4⟩,
  ⟨true, {}, .atom (.one true [97])⟩,
  ⟨true, {}, .atom (.one true [97])⟩]

example : (parseTop { g := ccG, inp := #[97, 97, 97] } 8 0 .action .required).map
    (fun r => (r.res, r.raw.filter (fun e => match e with | .enter .. | .start .. => true | _ => false))) =
    some (.ok, [.enter 0 .action .required ⟨0, 1, 1⟩ 0, .start 0 ⟨0, 1, 1⟩ 0,
      .enter 1 .action .optional ⟨0, 1, 1⟩ 0, .start 1 ⟨0, 1, 1⟩ 1,
      .enter 2 .action .optional ⟨1, 1, 2⟩ 0, .enter 4 .action .optional ⟨1, 1, 2⟩ 1, .start 4 ⟨1, 1, 2⟩ 1,
      .enter 3 .action .optional ⟨2, 1, 3⟩ 0, .start 3 ⟨2, 1, 3⟩ 0]) := by decide +kernel

/-- the automaton rejects a control that leaks out of its rule: `n3` entered through control 1 -/
example : runEnv { g := ccG, inp := #[97, 97, 97] } [⟨0, .action, 0, 0, 0, false⟩]
    [.enter 0 .action .required ⟨0, 1, 1⟩ 0, .start 0 ⟨0, 1, 1⟩ 0, .enter 1 .action .optional ⟨0, 1, 1⟩ 0, .start 1 ⟨0, 1, 1⟩ 1,
     .exit 1 1 ⟨1, 1, 2⟩, .enter 3 .action .optional ⟨1, 1, 2⟩ 1] = none := by decide
/-- … and hooks of `n1` run by the old control -/
example : runEnv { g := ccG, inp := #[97, 97, 97] } [⟨0, .action, 0, 0, 0, false⟩]
    [.enter 0 .action .required ⟨0, 1, 1⟩ 0, .start 0 ⟨0, 1, 1⟩ 0, .enter 1 .action .optional ⟨0, 1, 1⟩ 0, .start 1 ⟨0, 1, 1⟩ 0] = none := by decide

end Pegtl.C13
