/-
  Props/C14.lean — property C14: "The JSON grammar accepts exactly RFC 8259 JSON texts":
  the shipped JSON grammar, followed by end of input, succeeds on a byte string if and only if
  that string is a well-formed UTF-8 encoded JSON text according to RFC 8259, and never throws.

  * The grammar is `Expected.json`: the node table translated from include/tao/pegtl/contrib/json.hpp
    (vlib/translate_grammar.py) plus the rule the harness parses, `top = seq< json::text, eof >`.
    `C14_sync` (Audit/C14Sync.lean, re-proved on every run against the table just re-translated
    from /repo) says it is the table of the header as it is today.
  * The language is `Rfc8259.JsonText` (Spec/Rfc8259.lean): the RFC's ABNF, rule by rule.
  * The semantics is the PEG formalism `Spec.Sem` of the documented expansion of every rule
    (Spec/Peg.lean); by `C09_refines`/`run_sem` every run of the matcher model on a table
    satisfying `WFT` refines it — `C14_run` is the end-to-end statement about `run`.

  Proof structure (Lemmas/Json*.lean): `Sem` ⇄ `SemL` (the same relation on remaining-input lists);
  `SemL` on `Expected.json` ⇄ `P` (json.hpp read as a context-free grammar: token lemmas for `ws`,
  numbers, strings incl. `until< at< '"' >, char_ >` and the `\uXXXX` list, literals, and the
  follow-set argument for ordered choice / greedy repetition); `P` ⇄ the RFC's productions
  (whitespace re-association).  Both directions are complete; nothing is partial.
-/
import PegtlVerif.Lemmas.JsonRfc
import PegtlVerif.Lemmas.SemRun
import PegtlVerif.Lemmas.WftCheck

namespace Pegtl.C14
open Pegtl Pegtl.Spec Pegtl.Rfc8259 Pegtl.Json
open Pegtl.Expected (JsonId.top JsonId.text)

/-- The parsing context of the harness: the translated json.hpp table over the input `s`
    (memory input, default `eol`, no actions). -/
def jsonCx (s : List UInt8) : Ctx := { g := Expected.json, inp := s.toArray }

/-- `top` is the rule the harness parses: `seq< json::text, eof >`. -/
theorem C14_top_is_text_eof :
    Gof Expected.json JsonId.top = some (.seq (.ref JsonId.text) (.seq (.ref 69) .eps)) ∧
    Gof Expected.json 69 = some (.atom .eof) := ⟨rfl, rfl⟩

/-- The table meets the hypotheses of the refinement theorem (`run_sem`, C01/C09): every atom is a
    function of the byte offset, helper nodes are the ones the templates create, no action. -/
theorem C14_wft (s : List UInt8) : WFT (jsonCx s) :=
  wftCheck_sound (show wftCheck (jsonCx []) = true by decide)

/-- No rule of the JSON grammar can throw: the table contains no `must`, `if_must`, `raise` or
    `try_catch` node (and no action), … -/
theorem C14_no_raise_nodes :
    Expected.json.toList.all (fun nd => match nd.kind with
      | .must _ | .ifMust .. | .raise _ | .tryCatchReturnFalse .. | .tryCatchRaiseNested .. => false
      | _ => nd.act == {}) = true := by decide

/-- … hence the formalism never derives a global failure for it, on any input, from any rule. -/
theorem C14_no_throw (eol : Eol) (s : List UInt8) (i p : Nat) (hp : p ≤ s.length) (b : Blame) :
    ¬ Sem (Gof Expected.json) eol s.toArray s.length (.ref i) p (.err b) := by
  intro h
  have := Sem.toL (inp := s.toArray) G_plain h (by simp) rfl (by simpa using hp)
  exact this

example : ¬ Sem (Gof Expected.json) .lfCrlf [0x5B, 0x31].toArray 2 (.ref JsonId.top) 0 (.err (.parse 3)) :=
  C14_no_throw _ _ _ _ (by decide) _

/-- **Soundness.** If `seq< json::text, eof >` succeeds on `s` then it consumed all of `s` and `s` is a
    JSON text of RFC 8259. -/
theorem C14_sound (eol : Eol) (s : List UInt8) (q : Nat)
    (h : Sem (Gof Expected.json) eol s.toArray s.length (.ref JsonId.top) 0 (.ok q)) :
    q = s.length ∧ JsonText s := by
  obtain ⟨_, hq, hl⟩ := Sem.toL (inp := s.toArray) G_plain h (by simp) rfl (Nat.zero_le _)
  simp only [List.drop_zero] at hl
  obtain ⟨hnil, ht⟩ := top_inv hl
  refine ⟨?_, PText_toRfc ht⟩
  have hlen := congrArg List.length hnil
  simp only [List.length_drop, List.length_nil] at hlen
  simp only [List.size_toArray] at hq
  omega

/-- **Completeness.** Every JSON text of RFC 8259 is accepted by `seq< json::text, eof >`, consuming all of it. -/
theorem C14_complete (eol : Eol) (s : List UInt8) (h : JsonText s) :
    Sem (Gof Expected.json) eol s.toArray s.length (.ref JsonId.top) 0 (.ok s.length) := by
  have hl := top_complete (PText_ofRfc h)
  have := SemL.toSem (eol := eol) hl s.toArray 0 (Nat.zero_le _) (by simp)
  simpa [ofL] using this

/-- The two together, with determinism of the formalism: the only outcomes are "success with the
    whole input consumed" — exactly on the JSON texts — and local failure. -/
theorem C14_exact (eol : Eol) (s : List UInt8) (o : Outcome)
    (h : Sem (Gof Expected.json) eol s.toArray s.length (.ref JsonId.top) 0 o) :
    (o = .ok s.length ∧ JsonText s) ∨ (o = .fail ∧ ¬ JsonText s) := by
  cases o with
  | ok q =>
    obtain ⟨rfl, ht⟩ := C14_sound eol s q h
    exact .inl ⟨rfl, ht⟩
  | fail =>
    refine .inr ⟨rfl, fun ht => ?_⟩
    cases Sem.det h (C14_complete eol s ht)
  | err b => exact absurd h (C14_no_throw eol s _ 0 (Nat.zero_le _) b)

/-! ### End to end: the matcher model on the translated table -/

/-- `run_sem` (the refinement theorem of C01/C09) instantiated with the JSON table. -/
theorem C14_run_refines (s : List UInt8) (n : Nat) (a : AMode) (m : RMode) (env : Env) (r : Ret)
    (h : run (jsonCx s) n JsonId.top a m env (jsonCx s).start = some r) :
    ∃ o, absO r = some o ∧ Sem (Gof Expected.json) .lfCrlf s.toArray s.length (.ref JsonId.top) 0 o := by
  have hv : Valid (jsonCx s) (jsonCx s).start := ⟨Nat.zero_le _, Nat.le_refl _⟩
  obtain ⟨o, ho, hs⟩ := run_sem (jsonCx s) (C14_wft s) n JsonId.top a m env _ r hv h
  refine ⟨o, ho, ?_⟩
  simpa [SemC, jsonCx, Ctx.start] using hs

/-- Every terminating run of the model of `parse< seq< json::text, eof > >` on input `s` — whatever
    the apply mode, rewind mode and fuel — succeeds iff `s` is a JSON text of RFC 8259, ends at the end
    of the input when it succeeds, and never returns an exception. -/
theorem C14_run (s : List UInt8) (n : Nat) (a : AMode) (m : RMode) (env : Env) (r : Ret)
    (h : run (jsonCx s) n JsonId.top a m env (jsonCx s).start = some r) :
    (r.res = .ok ↔ JsonText s) ∧ (r.res = .ok → r.st.cur.pos = s.length) ∧ (∀ x, r.res ≠ .thr x) := by
  obtain ⟨o, ho, hs⟩ := C14_run_refines s n a m env r h
  rcases C14_exact _ s o hs with ⟨rfl, ht⟩ | ⟨rfl, hn⟩
  · obtain ⟨hok, hpos⟩ := absO_ok_inv ho
    exact ⟨⟨fun _ => ht, fun _ => hok⟩, fun _ => hpos, fun x hx => (by rw [hok] at hx; cases hx)⟩
  · have hf := absO_fail_inv ho
    refine ⟨⟨fun hk => ?_, fun ht => absurd ht hn⟩, fun hk => ?_, fun x hx => ?_⟩
    · rw [hf] at hk; cases hk
    · rw [hf] at hk; cases hk
    · rw [hf] at hx; cases hx

/-! ### Non-vacuity: both sides of the equivalence are inhabited and refuted by concrete inputs -/

/-- `[1, "a"]` -/
def exDoc : List UInt8 := [0x5B, 0x31, 0x2C, 0x20, 0x22, 0x61, 0x22, 0x5D]

/-- `[01]` (leading zero) -/
def exBad : List UInt8 := [0x5B, 0x30, 0x31, 0x5D]

/-- the model accepts `[1, "a"]` and stops at offset 8 … -/
theorem exDoc_run : ∃ r, run (jsonCx exDoc) 40 JsonId.top .action .required {} (jsonCx exDoc).start = some r ∧
    r.res = .ok ∧ r.st.cur.pos = 8 := by decide +kernel

/-- … so by `C14_run` it is a JSON text of the RFC (a derivation exists without having been written out) -/
example : JsonText exDoc := by
  obtain ⟨r, hr, hok, _⟩ := exDoc_run
  exact (C14_run exDoc 40 .action .required {} r hr).1.mp hok

/-- … and the formalism derives success with all 8 bytes consumed -/
example : Sem (Gof Expected.json) .lfCrlf exDoc.toArray exDoc.length (.ref JsonId.top) 0 (.ok 8) := by
  obtain ⟨r, hr, hok, hp⟩ := exDoc_run
  obtain ⟨o, ho, hs⟩ := C14_run_refines exDoc 40 .action .required {} r hr
  rw [absO_ok hok, hp] at ho; cases ho; exact hs

/-- the model rejects `[01]` (with rewinding required and with rewinding optional) … -/
theorem exBad_run : ∃ r, run (jsonCx exBad) 40 JsonId.top .nothing .optional {} (jsonCx exBad).start = some r ∧
    r.res = .fail := by decide +kernel

/-- … hence, by `C14_run`, `[01]` is not a JSON text of the RFC -/
example : ¬ JsonText exBad := by
  obtain ⟨r, hr, hf⟩ := exBad_run
  intro ht
  have := (C14_run exBad 40 .nothing .optional {} r hr).1.mpr ht
  rw [hf] at this; cases this

/-- a JSON text built from the RFC's productions (`ws value ws` with `value = true`) is accepted -/
example : Sem (Gof Expected.json) .lf ([0x20] ++ (litTrue ++ [0x0A])).toArray 6 (.ref JsonId.top) 0 (.ok 6) :=
  C14_complete .lf _ ⟨[0x20], litTrue, [0x0A], by intro c hc; simp at hc; subst hc; exact .inl rfl, .vTrue,
    by intro c hc; simp at hc; subst hc; exact .inr (.inr (.inl rfl)), rfl⟩

end Pegtl.C14
