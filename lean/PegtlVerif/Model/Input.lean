/-
  Model/Input.lean — the input cursor: window reads, the three `bump` functions of
  internal/bump.hpp, position reporting (eager and lazy), and every atom's
  `match( in )` body transcribed with those primitives.
-/
import PegtlVerif.Model.Basic
import PegtlVerif.Model.Utf

namespace Pegtl

/-- `in.size()` of a memory input. -/
def St.avail (st : St) : Nat := st.endp - st.cur.pos

/-- `in.empty()`. -/
def St.empty (st : St) : Bool := st.cur.pos == st.endp

/-- `in.peek_char( off )`: returns the byte and records a read outside the window. -/
def rd (cx : Ctx) (st : St) (off : Nat) : UInt8 × St :=
  (cx.inp.getD (st.cur.pos + off) 0,
   if st.cur.pos + off < st.endp then st else { st with oob := true })

/-- `internal::bump( iter, count, ch )`. -/
def bumpScan (inp : Array UInt8) (ch : UInt8) : Nat → Cursor → Cursor
  | 0, c => c
  | n + 1, c =>
    bumpScan inp ch n
      (if inp.getD c.pos 0 = ch then ⟨c.pos + 1, c.line + 1, 1⟩ else ⟨c.pos + 1, c.line, c.col + 1⟩)

def bumpInThisLineC (n : Nat) (c : Cursor) : Cursor := ⟨c.pos + n, c.line, c.col + n⟩
def bumpToNextLineC (n : Nat) (c : Cursor) : Cursor := ⟨c.pos + n, c.line + 1, 1⟩

def markOob (st : St) (n : Nat) : St :=
  if st.cur.pos + n ≤ st.endp then st else { st with oob := true }

/-- `in.bump( n )`. -/
def bump (cx : Ctx) (st : St) (n : Nat) : St :=
  { markOob st n with cur := bumpScan cx.inp cx.eol.ch n st.cur }

/-- `in.bump_in_this_line( n )`. -/
def bumpInThisLine (st : St) (n : Nat) : St :=
  { markOob st n with cur := bumpInThisLineC n st.cur }

/-- `in.bump_to_next_line( n )`. -/
def bumpToNextLine (st : St) (n : Nat) : St :=
  { markOob st n with cur := bumpToNextLineC n st.cur }

/-- `bump_help< Rule >( in, n )` with `testAny = Rule::test_any( eol_t::ch )`. -/
def bumpHelp (cx : Ctx) (testAny : Bool) (st : St) (n : Nat) : St :=
  if testAny then bump cx st n else bumpInThisLine st n

/-- The position an observer is given (`in.position()`): for eager inputs the tracked
    counters, for lazy inputs a scan from the beginning of the data. -/
def Ctx.rep (cx : Ctx) (c : Cursor) : Cursor :=
  if cx.lazy then
    let s := bumpScan cx.inp cx.eol.ch c.pos ⟨0, cx.init.line, cx.init.col⟩
    ⟨cx.init.pos + c.pos, s.line, s.col⟩
  else ⟨cx.init.pos + c.pos, c.line, c.col⟩

/-- The cursor a fresh input starts with. -/
def Ctx.start (cx : Ctx) : St :=
  { cur := ⟨0, cx.init.line, cx.init.col⟩, endp := cx.inp.size }

def inRanges (rs : List (UInt8 × UInt8)) (single : Option UInt8) (c : UInt8) : Bool :=
  rs.any (fun r => r.1 ≤ c && c ≤ r.2) || (single == some c)

def isAlphaB (c : UInt8) : Bool := (97 ≤ c && c ≤ 122) || (65 ≤ c && c ≤ 90)

/-- `ichar_equal< C >( c )`. -/
def icharEqual (C c : UInt8) : Bool :=
  if isAlphaB C then (C ||| 0x20) == (c ||| 0x20) else c == C

/-- `memcmp` of the next bytes against a literal; the caller has checked the size. -/
def cmpBytes (cx : Ctx) (eq : UInt8 → UInt8 → Bool) (p : Nat) : List UInt8 → Bool
  | [] => true
  | c :: cs => eq c (cx.inp.getD p 0) && cmpBytes cx eq (p + 1) cs

/-- `Eol::eol_match( in )`: result `(data, size, st')`. -/
def eolMatch (cx : Ctx) (st : St) : Bool × Nat × St :=
  match cx.eol with
  | .lf =>
    let sz := st.avail
    if sz > 0 then
      let (c, st) := rd cx st 0
      if c = 10 then (true, sz, bumpToNextLine st 1) else (false, sz, st)
    else (false, sz, st)
  | .cr =>
    let sz := st.avail
    if sz > 0 then
      let (c, st) := rd cx st 0
      if c = 13 then (true, sz, bumpToNextLine st 1) else (false, sz, st)
    else (false, sz, st)
  | .crlf =>
    let sz := st.avail
    if sz > 1 then
      let (a, st) := rd cx st 0
      if a = 13 then
        let (b, st) := rd cx st 1
        if b = 10 then (true, sz, bumpToNextLine st 2) else (false, sz, st)
      else (false, sz, st)
    else (false, sz, st)
  | .lfCrlf =>
    let sz := st.avail
    if sz > 0 then
      let (a, st) := rd cx st 0
      if a = 10 then (true, 1, bumpToNextLine st 1)
      else if a = 13 && sz > 1 then
        let (b, st) := rd cx st 1
        if b = 10 then (true, 2, bumpToNextLine st 2) else (false, sz, st)
      else (false, sz, st)
    else (false, sz, st)
  | .crCrlf =>
    let sz := st.avail
    if sz > 0 then
      let (a, st) := rd cx st 0
      if a = 13 then
        if sz > 1 then
          let (b, st) := rd cx st 1
          let n := if b = 10 then 2 else 1
          (true, n, bumpToNextLine st n)
        else (true, 1, bumpToNextLine st 1)
      else (false, sz, st)
    else (false, sz, st)

/-- The bytes of the window `[cur, endp)`. -/
def windowBytes (cx : Ctx) (st : St) : List UInt8 := (cx.inp.toList.drop st.cur.pos).take st.avail

def isDigitB (c : UInt8) : Bool := 48 ≤ c && c ≤ 57

/-- Value of a digit string. -/
def digitsValue (ds : List UInt8) : Nat := ds.foldl (fun acc d => acc * 10 + (d.toNat - 48)) 0

/-- `Rule::test_any( eol_t::ch )` for the atoms that use `bump_help`. -/
def Atom.testAny (ch : UInt8) : Atom → Bool
  | .one found cs => cs.contains ch == found
  | .range found lo hi => (lo ≤ ch && ch ≤ hi) == found
  | .ranges rs single => inRanges rs single ch
  | .string cs => cs.contains ch
  | .istring cs => cs.contains ch
  | .utf8Range found lo hi => decide (lo ≤ ch.toNat ∧ ch.toNat ≤ hi) == found
  | .maxDigits _ => false
  | .repOne _ _ c => c == ch
  | _ => true

/-- One atom's `match( in )`. -/
def atomStep (cx : Ctx) (a : Atom) (st : St) : Bool × St :=
  match a with
  | .any => if st.empty then (false, st) else (true, bump cx st 1)
  | .one found cs =>
    if st.empty then (false, st) else
      let (c, st) := rd cx st 0
      if cs.contains c == found then (true, bumpHelp cx (a.testAny cx.eol.ch) st 1) else (false, st)
  | .range found lo hi =>
    if st.empty then (false, st) else
      let (c, st) := rd cx st 0
      if (lo ≤ c && c ≤ hi) == found then (true, bumpHelp cx (a.testAny cx.eol.ch) st 1) else (false, st)
  | .ranges rs single =>
    if st.empty then (false, st) else
      let (c, st) := rd cx st 0
      if inRanges rs single c then (true, bumpHelp cx (a.testAny cx.eol.ch) st 1) else (false, st)
  | .string cs =>
    if st.avail ≥ cs.length then
      if cmpBytes cx (· == ·) st.cur.pos cs then (true, bumpHelp cx (a.testAny cx.eol.ch) st cs.length)
      else (false, st)
    else (false, st)
  | .istring cs =>
    if st.avail ≥ cs.length then
      if cmpBytes cx icharEqual st.cur.pos cs then (true, bumpHelp cx (a.testAny cx.eol.ch) st cs.length)
      else (false, st)
    else (false, st)
  | .bytes n => if st.avail ≥ n then (true, bump cx st n) else (false, st)
  | .eof => (st.empty, st)
  | .bof => (if cx.lazy then st.cur.pos == 0 else cx.init.pos + st.cur.pos == 0, st)
  | .bol => (st.cur.col == 1, st)
  | .eol => let (d, _, st') := eolMatch cx st; (d, st')
  | .eolf => let (d, sz, st') := eolMatch cx st; (d || sz == 0, st')
  | .success => (true, st)
  | .failure => (false, st)
  | .everything => (true, bump cx st st.avail)
  | .require n => (st.avail ≥ n, st)
  | .utf8Range found lo hi =>
    match Utf.peekUtf8 (windowBytes cx st) with
    | some (cp, n) =>
      if decide (lo ≤ cp ∧ cp ≤ hi) == found then (true, bumpHelp cx (a.testAny cx.eol.ch) st n) else (false, st)
    | none => (false, st)
  | .repOne lo hi c =>
    -- rep_one_min_max: look at `in.size( Max + 1 )` bytes, count the leading `c`s
    let w := (windowBytes cx st).take (hi + 1)
    if w.length < lo then (false, st)
    else
      let i := (w.takeWhile (· == c)).length
      if lo ≤ i ∧ i ≤ hi then (true, bumpHelp cx (a.testAny cx.eol.ch) st i) else (false, st)
  | .maxDigits mx =>
    -- match_and_convert_unsigned_with_maximum_nothrow: the whole digit run, no leading zero, value ≤ mx
    let ds := (windowBytes cx st).takeWhile isDigitB
    if ds.isEmpty then (false, st)
    else if ds.length > 1 ∧ ds.head? = some 48 then (false, st)
    else if digitsValue ds ≤ mx then (true, bumpInThisLine st ds.length) else (false, st)

end Pegtl
