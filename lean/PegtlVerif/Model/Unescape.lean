/-
  Model/Unescape.lean — executable transcription of
  `/repo/include/tao/pegtl/contrib/unescape.hpp` (namespace `tao::pegtl::unescape`).

  Conventions (DESIGN §2.2): `std::string` is a `List UInt8` and `s.append(..)`/`s += c` is `++`;
  `unsigned` is a `Nat` (every theorem that needs it carries the bound; the only wrapping
  operations, `r <<= 4; r += d` of `unhex_string<I>`, are written `% 2 ^ w` with `w` the width of
  `I`); `static_cast<char>(x)` is `UInt8.ofNat x` (= `x % 256`, the bit pattern of the `char`);
  bit operations `& >> << |` are Lean's `&&& >>> <<< |||` on `Nat`, token for token
  (`Lemmas/Unescape.lean` turns them into `/ 64`, `% 64`).
  A `const char*` into the matched input is the *suffix* of the input that starts there:
  `b < in.end()` is `rest ≠ []`, `b + 6 < in.end()` is `6 < rest.length`, `b += 6` is `rest.drop 6`
  (a pointer moved past `in.end()` becomes `[]`; it is only ever compared, never dereferenced).
  Results: `none` = `std::terminate()` / failed `assert` (the documented MUST-preconditions were
  violated), `some (true, s)` = normal return with the string `s`, `some (false, s)` = returned
  `false` / threw `parse_error`, the string having been left as `s`.

  Core Lean only (linked into the native driver `drv_c17`).
-/
namespace Pegtl.Unescape

/-- `utf8_append_utf32( std::string& string, const unsigned utf32 )`: the range cascade with the
    explicit surrogate test; returns the `bool` and the string. -/
def utf8AppendUtf32 (s : List UInt8) (utf32 : Nat) : Bool × List UInt8 :=
  if utf32 ≤ 0x7f then
    (true, s ++ [UInt8.ofNat (utf32 &&& 0xff)])
  else if utf32 ≤ 0x7ff then
    (true, s ++ [UInt8.ofNat (((utf32 &&& 0x7c0) >>> 6) ||| 0xc0),
                 UInt8.ofNat ((utf32 &&& 0x03f) ||| 0x80)])
  else if utf32 ≤ 0xffff then
    if utf32 ≥ 0xd800 ∧ utf32 ≤ 0xdfff then
      (false, s)                                   -- nope, this is a UTF-16 surrogate
    else
      (true, s ++ [UInt8.ofNat (((utf32 &&& 0xf000) >>> 12) ||| 0xe0),
                   UInt8.ofNat (((utf32 &&& 0x0fc0) >>> 6) ||| 0x80),
                   UInt8.ofNat ((utf32 &&& 0x003f) ||| 0x80)])
  else if utf32 ≤ 0x10ffff then
    (true, s ++ [UInt8.ofNat (((utf32 &&& 0x1c0000) >>> 18) ||| 0xf0),
                 UInt8.ofNat (((utf32 &&& 0x03f000) >>> 12) ||| 0x80),
                 UInt8.ofNat (((utf32 &&& 0x000fc0) >>> 6) ||| 0x80),
                 UInt8.ofNat ((utf32 &&& 0x00003f) ||| 0x80)])
  else
    (false, s)

/-- `unhex_char< I >( c )`: the three `case` groups `'0'..'9'`, `'a'..'f'`, `'A'..'F'`
    (`I( c - '0' )`, `I( c - 'a' + 10 )`, `I( c - 'A' + 10 )`; every value is `< 16`, so it is the
    same number in every integer type `I`); `default: std::terminate()` is `none`. -/
def unhexChar (c : UInt8) : Option Nat :=
  if 48 ≤ c.toNat ∧ c.toNat ≤ 57 then some (c.toNat - 48)
  else if 97 ≤ c.toNat ∧ c.toNat ≤ 102 then some (c.toNat - 97 + 10)
  else if 65 ≤ c.toNat ∧ c.toNat ≤ 70 then some (c.toNat - 65 + 10)
  else none

/-- The loop of `unhex_string< I >( begin, end )` with `w` = number of value bits of `I`
    (`unsigned` 32, `char`/`unsigned char` 8: the result is the bit pattern of `r`):
    `r <<= 4; r += unhex_char< I >( *begin++ );`. -/
def unhexStringLoop (w : Nat) : List UInt8 → Nat → Option Nat
  | [], r => some r
  | c :: cs, r =>
    match unhexChar c with
    | none => none
    | some d => unhexStringLoop w cs (((r <<< 4) % 2 ^ w + d) % 2 ^ w)

/-- `unhex_string< I >( begin, end )`: `I r = 0; while( begin != end ) …; return r;`. -/
def unhexString (w : Nat) (ds : List UInt8) : Option Nat := unhexStringLoop w ds 0

/-- `append_all::apply`: `s.append( in.begin(), in.size() )`. -/
def appendAll (inp : List UInt8) (s : List UInt8) : List UInt8 := s ++ inp

/-- `unescape_c< T, Rs... >::apply_two( in, { Qs... }, { Rs... } )`: first `i` with `q[i] == c`
    gives `r[i]`; running off the list is `std::terminate()`.  (`static_assert` makes the two
    lists equally long.) -/
def unescapeCApplyTwo : List UInt8 → List UInt8 → UInt8 → Option UInt8
  | q :: qs, r :: rs, c => if q == c then some r else unescapeCApplyTwo qs rs c
  | _, _, _ => none

/-- `unescape_c< one< Qs... >, Rs... >::apply`: `assert( in.size() == 1 ); s += apply_one(…)`. -/
def unescapeC (qs rs : List UInt8) (inp : List UInt8) (s : List UInt8) : Option (List UInt8) :=
  match inp with
  | [c] => (unescapeCApplyTwo qs rs c).map (fun r => s ++ [r])
  | _ => none

/-- `unescape_u::apply`: skips the first input character (`'u'`/`'U'`), converts the rest with
    `unhex_string< unsigned >`, appends; throws `parse_error` when `utf8_append_utf32` refuses. -/
def unescapeU (inp : List UInt8) (s : List UInt8) : Option (Bool × List UInt8) :=
  match inp with
  | [] => none                                          -- assert( !in.empty() )
  | _ :: ds => (unhexString 32 ds).map (utf8AppendUtf32 s)

/-- `unescape_x::apply`: `s += unhex_string< char >( in.begin() + 1, in.end() )`. -/
def unescapeX (inp : List UInt8) (s : List UInt8) : Option (List UInt8) :=
  match inp with
  | [] => none
  | _ :: ds => (unhexString 8 ds).map (fun r => s ++ [UInt8.ofNat r])

/-- The look-ahead of `unescape_j::apply` for the group at `b` whose value is `c`
    (`rest` = bytes from `b`): `some (some cp)` — `c` is a high surrogate, another group follows
    and it is a low surrogate `d`: the pair is `cp`; `some none` — fall through to the single
    escape; `none` — `unhex_char` terminated. -/
def unescapeJPair (rest : List UInt8) (c : Nat) : Option (Option Nat) :=
  if 0xd800 ≤ c ∧ c ≤ 0xdbff ∧ 6 < rest.length then
    match unhexString 32 ((rest.drop 6).take 4) with
    | none => none
    | some d =>
      if 0xdc00 ≤ d ∧ d ≤ 0xdfff then
        some (some ((((c &&& 0x03ff) <<< 10) ||| (d &&& 0x03ff)) + 0x10000))
      else some none
  else some none

/-- The `for( const char* b = in.begin() + 1; b < in.end(); b += 6 )` loop of
    `unescape_j::apply`; `rest` = bytes from `b` to `in.end()`. -/
def unescapeJLoop (rest : List UInt8) (s : List UInt8) : Option (Bool × List UInt8) :=
  match rest with
  | [] => some (true, s)                                -- `b < in.end()` is false: `return true`
  | r0 :: rt =>
    match unhexString 32 ((r0 :: rt).take 4) with       -- c = unhex_string< unsigned >( b, b + 4 )
    | none => none
    | some c =>
      match unescapeJPair (r0 :: rt) c with
      | none => none
      | some (some cp) =>
        -- `b += 6; (void)utf8_append_utf32( s, cp ); continue;` then the loop's own `b += 6`
        unescapeJLoop ((r0 :: rt).drop 12) (utf8AppendUtf32 s cp).2
      | some none =>
        match utf8AppendUtf32 s c with
        | (false, s') => some (false, s')               -- throw parse_error( … )
        | (true, s') => unescapeJLoop ((r0 :: rt).drop 6) s'
termination_by rest.length
decreasing_by all_goals (simp only [List.length_drop, List.length_cons]; omega)

/-- `unescape_j::apply( in, s )`: `in` = `u1234\u5678…` (starts at the first `u`), the
    `assert( ( in.size() + 1 ) % 6 == 0 )` is a precondition. -/
def unescapeJ (inp : List UInt8) (s : List UInt8) : Option (Bool × List UInt8) :=
  if (inp.length + 1) % 6 = 0 then unescapeJLoop (inp.drop 1) s else none

/-! ### The example of `src/example/pegtl/unescape.cpp`

`literal = '"' until< '"', character >`, `character = if_then_else< '\\', escaped, utf8::range >`,
`escaped = sor< x HH, u HHHH, U HHHHHHHH, one< ' " ? \ a b f n r t v > >` with the actions
`unescape_x`, `unescape_u`, `unescape_u`, `unescape_c`, `append_all`.  This is a direct scanner for
the *body* of a literal the grammar accepts (used by the correspondence run to exercise the
actions through a real parse); `none` = the body is not of that form. -/

def cEscQ : List UInt8 := [39, 34, 63, 92, 97, 98, 102, 110, 114, 116, 118]   -- ' " ? \ a b f n r t v
def cEscR : List UInt8 := [39, 34, 63, 92, 7, 8, 12, 10, 13, 9, 11]           -- ' " ? \ \a \b \f \n \r \t \v

/-- JSON: `unescape_c< json::escaped_char, '"', '\\', '/', '\b', '\f', '\n', '\r', '\t' >`. -/
def jEscQ : List UInt8 := [34, 92, 47, 98, 102, 110, 114, 116]
def jEscR : List UInt8 := [34, 92, 47, 8, 12, 10, 13, 9]

def allXDigit (ds : List UInt8) : Bool := ds.all (fun c => (unhexChar c).isSome)

def literalBody : Nat → List UInt8 → List UInt8 → Option (Bool × List UInt8)
  | 0, _, _ => none
  | _, [], s => some (true, s)
  | fuel + 1, 92 :: e :: rest, s =>
    if e == 120 ∧ rest.length ≥ 2 ∧ allXDigit (rest.take 2) then
      match unescapeX (e :: rest.take 2) s with
      | some s' => literalBody fuel (rest.drop 2) s'
      | none => none
    else if e == 117 ∧ rest.length ≥ 4 ∧ allXDigit (rest.take 4) then
      match unescapeU (e :: rest.take 4) s with
      | some (true, s') => literalBody fuel (rest.drop 4) s'
      | r => r
    else if e == 85 ∧ rest.length ≥ 8 ∧ allXDigit (rest.take 8) then
      match unescapeU (e :: rest.take 8) s with
      | some (true, s') => literalBody fuel (rest.drop 8) s'
      | r => r
    else if cEscQ.contains e then
      match unescapeC cEscQ cEscR [e] s with
      | some s' => literalBody fuel rest s'
      | none => none
    else none
  | fuel + 1, c :: rest, s =>
    if c == 92 ∨ c == 34 ∨ c.toNat < 0x20 then none else literalBody fuel rest (appendAll [c] s)

end Pegtl.Unescape
