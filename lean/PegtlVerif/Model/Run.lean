/-
  Model/Run.lean — the matcher.  `run cx n i a m env st` mirrors
  `Control< Rule_i >::match< A, M, Action, Control >( in, st... )` (normal.hpp → match.hpp →
  `Rule::match`), with fuel `n`; each combinator body of internal/*.hpp is transcribed with
  the primitives `rec` (call a sub-rule), `guardRestore` (an `auto_rewind< M >` guard whose
  destructor restores the cursor unless it was released by `m( true )`), window reads,
  `bump*` and `raise`.
-/
import PegtlVerif.Model.Input

namespace Pegtl

/-- Destructor of `auto_rewind< M >()`: restore unless the guarded body succeeded. -/
def guardRestore (m : RMode) (saved : Cursor) (r : Ret) : Ret :=
  if m = .required ∧ r.res ≠ .ok then { r with st := { r.st with cur := saved } } else r

/-- A guard that is never released (`at`, `not_at`): always restore. -/
def alwaysRestore (saved : Cursor) (r : Ret) : Ret :=
  { r with st := { r.st with cur := saved } }

def Ret.prepend (raw surv : List Ev) (r : Ret) : Ret :=
  { r with raw := raw ++ r.raw, surv := surv ++ r.surv }

/-- A failed or aborted invocation contributes no surviving action. -/
def Ret.dropOnFail (r : Ret) : Ret :=
  if r.res = .ok then r else { r with surv := [] }

/-- `( Control< Rules >::match< A, M >( in, st... ) && ... )`. -/
def seqAll (rec : Rec) (a : AMode) (m : RMode) (env : Env) : List Nat → St → Out
  | [], st => some ⟨.ok, st, [], []⟩
  | c :: cs, st =>
    match rec c a m env st with
    | none => none
    | some r1 =>
      match r1.res with
      | .ok =>
        match seqAll rec a m env cs r1.st with
        | none => none
        | some r2 => some (r2.prepend r1.raw r1.surv)
      | _ => some r1

/-- `( Control< Rules >::match< A, ( last ? M : required ) >( in, st... ) || ... )`. -/
def sorAny (rec : Rec) (a : AMode) (m : RMode) (env : Env) : List Nat → St → Out
  | [], st => some ⟨.fail, st, [], []⟩
  | [c], st => rec c a m env st
  | c :: c' :: cs, st =>
    match rec c a .required env st with
    | none => none
    | some r1 =>
      match r1.res with
      | .fail =>
        match sorAny rec a m env (c' :: cs) r1.st with
        | none => none
        | some r2 => some (r2.prepend r1.raw [])
      | _ => some r1

/-- `while( ( Control< Rules >::match< A, required >( in, st... ) && ... ) ) {}  return true;` -/
def loopStar (rec : Rec) (a : AMode) (env : Env) (cs : List Nat) : Nat → St → Out
  | 0, _ => none
  | k + 1, st =>
    match seqAll rec a .required env cs st with
    | none => none
    | some r1 =>
      match r1.res with
      | .ok =>
        match loopStar rec a env cs k r1.st with
        | none => none
        | some r2 => some (r2.prepend r1.raw r1.surv)
      | .fail => some { r1 with res := .ok }
      | .thr _ => some r1

/-- `until< Cond >`: `while( !Cond ) { if( in.empty() ) return false; in.bump(); } return true;` -/
def loopUntil1 (cx : Ctx) (rec : Rec) (a : AMode) (env : Env) (cond : Nat) : Nat → St → Out
  | 0, _ => none
  | k + 1, st =>
    match rec cond a .required env st with
    | none => none
    | some r1 =>
      match r1.res with
      | .ok => some r1
      | .thr _ => some r1
      | .fail =>
        if r1.st.empty then some r1
        else
          match loopUntil1 cx rec a env cond k (bump cx r1.st 1) with
          | none => none
          | some r2 => some (r2.prepend r1.raw [])

/-- `until< Cond, Rule >`: `while( !Cond ) { if( !Rule ) return false; } return true;` -/
def loopUntil2 (rec : Rec) (a : AMode) (env : Env) (cond body : Nat) : Nat → St → Out
  | 0, _ => none
  | k + 1, st =>
    match rec cond a .required env st with
    | none => none
    | some r1 =>
      match r1.res with
      | .ok => some r1
      | .thr _ => some r1
      | .fail =>
        match rec body a .optional env r1.st with
        | none => none
        | some r2 =>
          match r2.res with
          | .ok =>
            match loopUntil2 rec a env cond body k r2.st with
            | none => none
            | some r3 => some (r3.prepend (r1.raw ++ r2.raw) r2.surv)
          | _ => some (r2.prepend r1.raw [])

/-- `for( i = 0; i != n; ++i ) if( !Rule< M > ) return false;  return true;` -/
def repN (rec : Rec) (a : AMode) (m : RMode) (env : Env) (c : Nat) : Nat → St → Out
  | 0, st => some ⟨.ok, st, [], []⟩
  | k + 1, st =>
    match rec c a m env st with
    | none => none
    | some r1 =>
      match r1.res with
      | .ok =>
        match repN rec a m env c k r1.st with
        | none => none
        | some r2 => some (r2.prepend r1.raw r1.surv)
      | _ => some r1

/-- `for( i = 0; ( i != n ) && Rule< required >; ++i ) {}`: result `ok`, or the exception;
    the flag says whether all `n` iterations matched. -/
def repUpTo (rec : Rec) (a : AMode) (env : Env) (c : Nat) : Nat → St → Option (Ret × Bool)
  | 0, st => some (⟨.ok, st, [], []⟩, true)
  | k + 1, st =>
    match rec c a .required env st with
    | none => none
    | some r1 =>
      match r1.res with
      | .ok =>
        match repUpTo rec a env c k r1.st with
        | none => none
        | some (r2, full) => some (r2.prepend r1.raw r1.surv, full)
      | .fail => some ({ r1 with res := .ok, surv := [] }, false)
      | .thr _ => some (r1, false)

/-- `star_strict< Rule, Rules... >` loop. -/
def loopStarStrict (rec : Rec) (a : AMode) (env : Env) (c rest : Nat) : Nat → St → Out
  | 0, _ => none
  | k + 1, st =>
    match rec c a .required env st with
    | none => none
    | some r1 =>
      match r1.res with
      | .fail => some { r1 with res := .ok }
      | .thr _ => some r1
      | .ok =>
        match rec rest a .optional env r1.st with
        | none => none
        | some r2 =>
          match r2.res with
          | .ok =>
            match loopStarStrict rec a env c rest k r2.st with
            | none => none
            | some r3 => some (r3.prepend (r1.raw ++ r2.raw) (r1.surv ++ r2.surv))
          | _ => some (r2.prepend r1.raw [])

/-- `rematch`'s fold over the inner rules: each starts again at `saved` with the end
    lowered to `endIn`. -/
def rematchAll (rec : Rec) (a : AMode) (env : Env) (saved : Cursor) : List Nat → St → Out
  | [], st => some ⟨.ok, st, [], []⟩
  | c :: cs, st =>
    match rec c a .optional env { st with cur := saved } with
    | none => none
    | some r1 =>
      match r1.res with
      | .ok =>
        match rematchAll rec a env saved cs r1.st with
        | none => none
        | some r2 => some (r2.prepend r1.raw r1.surv)
      | _ => some r1

/-- The life of a state object that is a local of a `match()` frame (`state< S, R >`,
    `change_state< S >`, ...): constructed before the rule is attempted, `success( in, outer... )`
    exactly when the rule matched (`callSucc`: and the variant calls it in this apply mode), destroyed
    when the frame is left — by return or by an exception. -/
def stateScope (cx : Ctx) (outer : Nat) (callSucc : Bool) (r : Ret) : Ret :=
  { r with raw := Ev.sctor (outer + 1) :: r.raw ++
      (if r.res = .ok ∧ callSucc = true then [Ev.ssucc (outer + 1) (cx.rep r.st.cur) outer] else []) ++ [Ev.sdtor (outer + 1)] }

@[simp] theorem stateScope_st (cx : Ctx) (o : Nat) (b : Bool) (r : Ret) : (stateScope cx o b r).st = r.st := rfl
@[simp] theorem stateScope_res (cx : Ctx) (o : Nat) (b : Bool) (r : Ret) : (stateScope cx o b r).res = r.res := rfl
@[simp] theorem stateScope_surv (cx : Ctx) (o : Nat) (b : Bool) (r : Ret) : (stateScope cx o b r).surv = r.surv := rfl

def Catch.catches : Catch → Exc → Bool
  | .any, _ => true
  | .std, .foreign _ isStd => isStd
  | .std, _ => true
  | .parse, .foreign _ _ => false
  | .parse, _ => true

/-- The action of rule `i` in the current action family. -/
def Ctx.actOf (cx : Ctx) (env : Env) (i : Nat) (nd : Node) : ActionSpec :=
  if env.fam = 0 then nd.act else ((cx.fams.getD (env.fam - 1) #[]).getD i {})

def ActionSpec.vetoes (s : ActionSpec) (i b e : Nat) : Bool :=
  s.isBool && s.vetoMod != 0 && (b + 2 * e + i) % s.vetoMod == 0

def ActionSpec.throws (s : ActionSpec) (i b e : Nat) : Bool :=
  s.throwMod != 0 && (b + e + i) % s.throwMod == 0

def RuleAct.spec (x : RuleAct) : ActionSpec :=
  { kind := .apply, isBool := x.isBool, vetoMod := x.vetoMod, throwMod := x.throwMod, throwStd := x.throwStd }

/-- `( apply_single< Actions >::match( i2, st... ) && ... )`: the actions are called in order with the action input
    `[b, e)`; the first `false` ends the conjunction; an exception leaves it. -/
def runActs (cx : Ctx) (sd : Nat) (b e : Cursor) : List RuleAct → Res × List Ev
  | [] => (.ok, [])
  | x :: xs =>
    let ev := Ev.ruleApply x.id sd (cx.rep b) (cx.rep e)
    if x.spec.throws x.id (cx.rep b).pos (cx.rep e).pos then (.thr (.foreign x.id x.throwStd), [ev])
    else if x.spec.vetoes x.id (cx.rep b).pos (cx.rep e).pos then (.fail, [ev])
    else ((runActs cx sd b e xs).1, ev :: (runActs cx sd b e xs).2)

/-- `Rule::match< A, M, Action, Control >( in, st... )` for each kind. `k` is the loop budget. -/
def body (cx : Ctx) (rec : Rec) (k : Nat) (kind : Kind) (a : AMode) (m : RMode) (env : Env) (st : St) : Out :=
  match kind with
  | .atom atm =>
    let (b, st') := atomStep cx atm st
    some ⟨if b then .ok else .fail, st', [], []⟩
  | .seq cs =>
    match cs with
    | [c] => rec c a m env st
    | _ => (seqAll rec a .optional env cs st).map fun r => (guardRestore m st.cur r).dropOnFail
  | .sor cs => sorAny rec a m env cs st
  | .starPartial cs => loopStar rec a env cs k st
  | .partialR cs =>
    (seqAll rec a .required env cs st).map fun r =>
      match r.res with
      | .fail => { r with res := .ok }
      | _ => r
  | .plus c =>
    match rec c a m env st with
    | none => none
    | some r1 =>
      match r1.res with
      | .ok => (loopStar rec a env [c] k r1.st).map (·.prepend r1.raw r1.surv)
      | _ => some r1
  | .atR c =>
    (rec c .nothing .optional env st).map fun r => alwaysRestore st.cur r
  | .notAt c =>
    (rec c .nothing .optional env st).map fun r =>
      let r := alwaysRestore st.cur r
      match r.res with
      | .ok => { r with res := .fail, surv := [] }
      | .fail => { r with res := .ok, surv := [] }
      | .thr _ => r
  | .until1 cond => (loopUntil1 cx rec a env cond k st).map fun r => (guardRestore m st.cur r).dropOnFail
  | .until2 cond b => (loopUntil2 rec a env cond b k st).map fun r => (guardRestore m st.cur r).dropOnFail
  | .rep n c => (repN rec a .optional env c n st).map fun r => (guardRestore m st.cur r).dropOnFail
  | .repMinMax lo hi c na =>
    match repN rec a .optional env c lo st with
    | none => none
    | some r1 =>
      match r1.res with
      | .ok =>
        match repUpTo rec a env c (hi - lo) r1.st with
        | none => none
        | some (r2, full) =>
          let r2 := r2.prepend r1.raw r1.surv
          if r2.res = .ok ∧ full then
            match rec na a .optional env r2.st with
            | none => none
            | some r3 => some ((guardRestore m st.cur (r3.prepend r2.raw r2.surv)).dropOnFail)
          else some ((guardRestore m st.cur r2).dropOnFail)
      | _ => some ((guardRestore m st.cur r1).dropOnFail)
  | .repOpt n c => (repUpTo rec a env c n st).map (·.1)
  | .ifThenElse c t e =>
    match rec c a .required env st with
    | none => none
    | some r1 =>
      match r1.res with
      | .ok => (rec t a .optional env r1.st).map fun r2 => (guardRestore m st.cur (r2.prepend r1.raw r1.surv)).dropOnFail
      | .fail => (rec e a .optional env r1.st).map fun r2 => (guardRestore m st.cur (r2.prepend r1.raw [])).dropOnFail
      | .thr _ => some ((guardRestore m st.cur r1).dropOnFail)
  | .strict c rest =>
    match rec c a .required env st with
    | none => none
    | some r1 =>
      match r1.res with
      | .ok => (rec rest a .optional env r1.st).map fun r2 => (guardRestore m st.cur (r2.prepend r1.raw r1.surv)).dropOnFail
      | .fail => some { r1 with res := .ok }
      | .thr _ => some ((guardRestore m st.cur r1).dropOnFail)
  | .starStrict c rest => (loopStarStrict rec a env c rest k st).map fun r => (guardRestore m st.cur r).dropOnFail
  | .rematch head rs =>
    match rs with
    | [] => rec head a m env st
    | _ =>
      match rec head a .optional env st with
      | none => none
      | some r1 =>
        match r1.res with
        | .ok =>
          -- inner input: [ saved, current ) with the outer depth counter untouched
          let outerEnd := r1.st.endp
          let innerSt : St := { r1.st with endp := r1.st.cur.pos, depth := 0 }
          match rematchAll rec a env st.cur rs innerSt with
          | none => none
          | some r2 =>
            let r2 := r2.prepend r1.raw r1.surv
            -- the outer input is at the end of the head match; `m( result )`
            let back : St := { r2.st with cur := r1.st.cur, endp := outerEnd, depth := r1.st.depth }
            some ((guardRestore .required st.cur { r2 with st := back }).dropOnFail)
        | _ => some ((guardRestore .required st.cur r1).dropOnFail)
  | .must c =>
    match rec c a .optional env st with
    | none => none
    | some r1 =>
      match r1.res with
      | .fail =>
        let p := cx.rep r1.st.cur
        some { r1 with res := .thr (.parse c p), raw := r1.raw ++ [Ev.raise c p], surv := [] }
      | _ => some r1
  | .ifMust dflt cond mn =>
    match rec cond a (if dflt then .required else m) env st with
    | none => none
    | some r1 =>
      match r1.res with
      | .ok =>
        (rec mn a m env r1.st).map fun r2 =>
          let r2 := r2.prepend r1.raw r1.surv
          match r2.res with
          | .thr _ => r2.dropOnFail
          | _ => { r2 with res := .ok }
      | .fail => some { r1 with res := if dflt then .ok else .fail }
      | .thr _ => some r1
  | .raise t =>
    let p := cx.rep st.cur
    some ⟨.thr (.parse t p), st, [Ev.raise t p], []⟩
  | .tryCatchReturnFalse ex c =>
    (rec c a .optional env st).map fun r =>
      let r := match r.res with
        | .thr e => if ex.catches e then { r with res := .fail } else r
        | _ => r
      (guardRestore m st.cur r).dropOnFail
  | .tryCatchRaiseNested ex c =>
    (rec c a .optional env st).map fun r =>
      let r := match r.res with
        | .thr e => if ex.catches e then { r with res := .thr (.nested c (cx.rep st.cur) e) } else r
        | _ => r
      (guardRestore .required st.cur r).dropOnFail
  | .enable c => rec c .action m env st
  | .disable c => rec c .nothing m env st
  | .action fam c => rec c a m { env with fam := fam } st
  | .state _ c =>
    (rec c a m { env with sd := env.sd + 1 } st).map (stateScope cx env.sd true)
  | .ifApply c acts =>
    -- actions enabled and at least one action: a `required` guard of its own, the rule with actions, then the actions
    -- with the matched span; otherwise just the rule
    if a = .action ∧ acts ≠ [] then
      (rec c .action .optional env st).map fun r1 =>
        match r1.res with
        | .ok =>
          let ra := runActs cx env.sd st.cur r1.st.cur acts
          (guardRestore .required st.cur { r1 with res := ra.1, raw := r1.raw ++ ra.2, surv := r1.surv ++ ra.2 }).dropOnFail
        | _ => (guardRestore .required st.cur r1).dropOnFail
    else rec c a m env st
  | .control kc c => rec c a m { env with ctl := kc } st
  | .applyR acts =>
    if a = .action ∧ acts ≠ [] then
      let ra := runActs cx env.sd st.cur st.cur acts
      some ({ res := ra.1, st := st, raw := ra.2, surv := ra.2 } : Ret).dropOnFail
    else some ⟨.ok, st, [], []⟩

/-- The sub-rules a `match()` body of this kind can call (`rec` is applied to nothing else). -/
def Kind.calls : Kind → List Nat
  | .atom _ => []
  | .seq cs => cs
  | .sor cs => cs
  | .starPartial cs => cs
  | .partialR cs => cs
  | .plus c => [c]
  | .atR c => [c]
  | .notAt c => [c]
  | .until1 c => [c]
  | .until2 c b => [c, b]
  | .rep _ c => [c]
  | .repMinMax _ _ c na => [c, na]
  | .repOpt _ c => [c]
  | .ifThenElse c t e => [c, t, e]
  | .strict c r => [c, r]
  | .starStrict c r => [c, r]
  | .rematch h rs => h :: rs
  | .must c => [c]
  | .ifMust _ c mn => [c, mn]
  | .raise _ => []
  | .tryCatchReturnFalse _ c => [c]
  | .tryCatchRaiseNested _ c => [c]
  | .enable c => [c]
  | .disable c => [c]
  | .action _ c => [c]
  | .state _ c => [c]
  | .ifApply c _ => [c]
  | .applyR _ => []
  | .control _ c => [c]

/-- `use_guard` of match.hpp: `match()` itself takes a `required` guard exactly when an
    `apply` or a `bool`-returning `apply0` will be called. -/
def useGuard (a : AMode) (act : ActionSpec) : Bool :=
  decide (a = .action) && (act.kind == .apply || (act.kind == .apply0 && act.isBool))

def hasAction (a : AMode) (act : ActionSpec) : Bool :=
  decide (a = .action) && (act.kind == .apply || act.kind == .apply0)

/-- The `apply` / `apply0` observation for rule `i` matched from `saved` to `e`. -/
def actEvent (cx : Ctx) (i : Nat) (act : ActionSpec) (sd : Nat) (saved e : Cursor) : Ev :=
  if act.kind == .apply then Ev.apply i sd (cx.rep saved) (cx.rep e) else Ev.apply0 i sd (cx.rep e)

inductive ActOut | noAction | throws | vetoes | accepts
  deriving DecidableEq, Repr

/-- What the action of rule `i` does when called for the span `[saved, e)`. -/
def actionOutcome (cx : Ctx) (i : Nat) (a : AMode) (act : ActionSpec) (saved e : Cursor) : ActOut :=
  if hasAction a act then
    let bb := if act.kind == .apply then (cx.rep saved).pos else (cx.rep e).pos
    if act.throws i bb (cx.rep e).pos then .throws
    else if act.vetoes i bb (cx.rep e).pos then .vetoes
    else .accepts
  else .noAction

/-- `Control< Rule >::failure( in, st... )`, called by `match()` outside its `unwind` guard and before the rewind guard
    restores the cursor.  Under `must_if< Errors >::control` a rule that has a message raises from here
    (`raise_on_failure`): the local failure becomes a global one blaming the rule at the current position. -/
def failureHook (cx : Ctx) (i : Nat) (c : Cursor) (r : Ret) : Ret :=
  if i ∈ cx.msgs then
    { r with res := .thr (.parse i (cx.rep c)), raw := r.raw ++ [Ev.failure i (cx.rep c), Ev.raise i (cx.rep c)] }
  else
    { r with res := .fail, raw := r.raw ++ [Ev.failure i (cx.rep c)] }

@[simp] theorem failureHook_st (cx : Ctx) (i : Nat) (c : Cursor) (r : Ret) : (failureHook cx i c r).st = r.st := by
  unfold failureHook; split <;> rfl

@[simp] theorem failureHook_surv (cx : Ctx) (i : Nat) (c : Cursor) (r : Ret) : (failureHook cx i c r).surv = r.surv := by
  unfold failureHook; split <;> rfl

theorem failureHook_res_ne_ok (cx : Ctx) (i : Nat) (c : Cursor) (r : Ret) : (failureHook cx i c r).res ≠ .ok := by
  unfold failureHook; split <;> simp

/-- The events of the failure hook preserve every trace predicate closed under concatenation that accepts a lone
    `failure` and a lone `raise`. -/
theorem failureHook_raw_closed {Q : List Ev → Prop} (app : ∀ {a b : List Ev}, Q a → Q b → Q (a ++ b))
    {cx : Ctx} {i : Nat} {c : Cursor} {r : Ret} (hf : Q [Ev.failure i (cx.rep c)]) (hr : i ∈ cx.msgs → Q [Ev.raise i (cx.rep c)])
    (h : Q r.raw) : Q (failureHook cx i c r).raw := by
  unfold failureHook
  split
  · rename_i hm
    exact app h (app (a := [_]) (b := [_]) hf (hr hm))
  · exact app h hf


/-- What match.hpp does after the rule body returned: the action call (only after a match),
    then `success` / `failure`, or `unwind` while an exception passes.  The cursor is not
    touched here; `saved` is `m.inputerator()`, the start of the match. -/
def afterBody (cx : Ctx) (i : Nat) (a : AMode) (act : ActionSpec) (sd : Nat) (saved : Cursor) (r : Ret) : Ret :=
  match r.res with
  | .thr _ => { r with raw := r.raw ++ (if cx.unwind then [Ev.unwind i (cx.rep r.st.cur)] else []) }
  | .fail => failureHook cx i r.st.cur r
  | .ok =>
    let e := cx.rep r.st.cur
    let aev := actEvent cx i act sd saved r.st.cur
    match actionOutcome cx i a act saved r.st.cur with
    | .noAction => { r with raw := r.raw ++ [Ev.success i e] }
    | .throws =>
      { r with res := .thr (.foreign i act.throwStd),
               raw := r.raw ++ [aev] ++ (if cx.unwind then [Ev.unwind i e] else []) }
    | .vetoes => failureHook cx i r.st.cur { r with res := .fail, raw := r.raw ++ [aev] }
    | .accepts => { r with raw := r.raw ++ [aev, Ev.success i e], surv := r.surv ++ [aev] }

/-- Does control family `k` define `unwind()`?  Family 0 is the one `parse` was given; the harness's second family does. -/
def Ctx.unwindOf (cx : Ctx) (k : Nat) : Bool := if k = 0 then cx.unwind else true

/-- The same run seen by the hooks of control family `k`. -/
def Ctx.withCtl (cx : Ctx) (k : Nat) : Ctx := { cx with unwind := cx.unwindOf k, msgs := if k = 0 then cx.msgs else [] }

theorem Ctx.mem_withCtl_msgs {cx : Ctx} {k i : Nat} (h : i ∈ (cx.withCtl k).msgs) : i ∈ cx.msgs := by
  unfold Ctx.withCtl at h
  simp only at h
  split at h
  · exact h
  · simp at h

theorem Ctx.withCtl_msgs_nil {cx : Ctx} (h : cx.msgs = []) (k : Nat) : (cx.withCtl k).msgs = [] := by
  unfold Ctx.withCtl; simp only; split <;> simp [h]

theorem failureHook_plain (cx : Ctx) (h : cx.msgs = []) (i : Nat) (c : Cursor) (r : Ret) :
    failureHook cx i c r = { r with res := .fail, raw := r.raw ++ [Ev.failure i (cx.rep c)] } := by
  simp [failureHook, h]

@[simp] theorem Ctx.withCtl_rep (cx : Ctx) (k : Nat) (c : Cursor) : (cx.withCtl k).rep c = cx.rep c := rfl
@[simp] theorem Ctx.withCtl_zero (cx : Ctx) : cx.withCtl 0 = cx := by simp [Ctx.withCtl, Ctx.unwindOf]

@[simp] theorem Ctx.withCtl_unwind (cx : Ctx) (k : Nat) : (cx.withCtl k).unwind = cx.unwindOf k := rfl
@[simp] theorem Ctx.withCtl_g (cx : Ctx) (k : Nat) : (cx.withCtl k).g = cx.g := rfl
@[simp] theorem actEvent_withCtl (cx : Ctx) (k i : Nat) (act : ActionSpec) (sd : Nat) (b e : Cursor) :
    actEvent (cx.withCtl k) i act sd b e = actEvent cx i act sd b e := rfl
@[simp] theorem actionOutcome_withCtl (cx : Ctx) (k i : Nat) (a : AMode) (act : ActionSpec) (b e : Cursor) :
    actionOutcome (cx.withCtl k) i a act b e = actionOutcome cx i a act b e := rfl

/-- The `enter` / `exit` observations the harness control makes around `Control< Rule >::match`;
    a failed or aborted invocation contributes no surviving action. -/
def bracket (cx : Ctx) (i : Nat) (a : AMode) (m : RMode) (kc : Nat) (st : St) (r : Ret) : Ret :=
  let r := r.dropOnFail
  { r with raw := Ev.enter i a m (cx.rep st.cur) kc :: r.raw ++ [Ev.exit i r.res.code (cx.rep r.st.cur)] }

/-- `tao::pegtl::match< Rule, A, M, Action, Control >( in, st... )` (match.hpp). -/
def nodeCore (cx : Ctx) (rec : Rec) (k : Nat) (i : Nat) (nd : Node) (a : AMode) (m : RMode) (env : Env) (st : St) : Out :=
  if !nd.ctl then
    body cx rec k nd.kind a m env st
  else
    let act := cx.actOf env i nd
    let ug := useGuard a act
    (body cx rec k nd.kind a (if ug then .optional else m) env st).map fun r =>
      let r := afterBody (cx.withCtl env.ctl) i a act env.sd st.cur r
      let r := { r with raw := Ev.start i (cx.rep st.cur) env.ctl :: r.raw }
      guardRestore (if ug then .required else .optional) st.cur r

/-- Ids under which the harness registers the types `limit_depth< N >` / `limit_bytes< N >`
    (the "rule" blamed by `Control< limit_depth< N > >::raise`). -/
def limitDepthId (n : Nat) : Nat := 1000000 + 2 * n
def limitBytesId (n : Nat) : Nat := 1000001 + 2 * n

/-- `limit_depth< N >::match`: a depth guard around `tao::pegtl::match`. -/
def limitDepthCall (cx : Ctx) (core : St → Out) (n : Nat) (st : St) : Out :=
  if st.depth + 1 > n then
    let p := cx.rep st.cur
    some ⟨.thr (.parse (limitDepthId n) p), st, [Ev.raise (limitDepthId n) p], []⟩
  else
    (core { st with depth := st.depth + 1 }).map fun r => { r with st := { r.st with depth := r.st.depth - 1 } }

/-- `limit_bytes< N >::match`: `bytes_guard` lowers the end to `current + min( size, N )` and
    restores it in its destructor; after a match that stopped at the lowered end while the real
    input continues, `Control< limit_bytes >::raise`. -/
def limitBytesCall (cx : Ctx) (core : St → Out) (n : Nat) (st : St) : Out :=
  (core { st with endp := st.cur.pos + min st.avail n }).map fun r =>
    let r' : Ret := { r with st := { r.st with endp := st.endp } }
    if r.res = .ok ∧ r.st.cur.pos = r.st.endp ∧ st.endp ≠ r.st.cur.pos then
      let p := cx.rep r.st.cur
      { r' with res := .thr (.parse (limitBytesId n) p), raw := r.raw ++ [Ev.raise (limitBytesId n) p], surv := [] }
    else r'

/-- `Control< Rule >::match< A, M, Action, Control >( in, st... )` (normal.hpp): through
    `Action< Rule >::match` when the action class has one, else `tao::pegtl::match`; bracketed by
    the harness control's observations. -/
def nodeCall (cx : Ctx) (rec : Rec) (k : Nat) (i : Nat) (a : AMode) (m : RMode) (env : Env) (st : St) : Out :=
  match cx.g[i]? with
  | none => none
  | some nd =>
    (match (cx.actOf env i nd).wrap with
     | .none => nodeCore cx rec k i nd a m env st
     | .changeAction fam => rec i a m { env with fam := fam } st
     | .disableAction => nodeCore cx rec k i nd .nothing m env st
     | .enableAction => nodeCore cx rec k i nd .action m env st
     | .limitDepth n => limitDepthCall cx (nodeCore cx rec k i nd a m env) n st
     | .limitBytes n => limitBytesCall cx (nodeCore cx rec k i nd a m env) n st
     | .changeState _ =>
       (nodeCore cx rec k i nd a m { env with sd := env.sd + 1 } st).map (stateScope cx env.sd (decide (a = AMode.action)))
     | .changeActionAndState fam _ =>
       (rec i a m { env with fam := fam, sd := env.sd + 1 } st).map (stateScope cx env.sd (decide (a = AMode.action)))
     | .changeControl kc => nodeCore cx rec k i nd a m { env with ctl := kc } st
     ).map (bracket cx i a m env.ctl st)

/-- The matcher with fuel. -/
def run (cx : Ctx) (fuel : Nat) (i : Nat) (a : AMode) (m : RMode) (env : Env) (st : St) : Out :=
  match fuel with
  | 0 => none
  | n + 1 => nodeCall cx (fun i a m env st => run cx n i a m env st) n i a m env st

/-- `tao::pegtl::parse< Rule_i, Action, Control, A, M >( in )` on a fresh input. -/
def parseTop (cx : Ctx) (fuel : Nat) (i : Nat) (a : AMode) (m : RMode) : Out :=
  run cx fuel i a m {} cx.start

end Pegtl
