/-
  Model/Basic.lean — data types of the executable model of PEGTL's matching machine.

  Everything here is core Lean only (no Mathlib), so that the driver links as a
  native executable.  See /verif/DESIGN.md §2.2 for the modelling conventions.
-/
namespace Pegtl

/-- `tao::pegtl::apply_mode`. -/
inductive AMode | action | nothing
  deriving DecidableEq, Repr, Inhabited

/-- `tao::pegtl::rewind_mode`. -/
inductive RMode | required | optional
  deriving DecidableEq, Repr, Inhabited

/-- The five end-of-line policies of `tao::pegtl::eol`. -/
inductive Eol | lf | cr | crlf | lfCrlf | crCrlf
  deriving DecidableEq, Repr, Inhabited

/-- `Eol::ch`: the character that `bump()` counts as a line end. -/
def Eol.ch : Eol → UInt8
  | .lf => 10 | .cr => 13 | .crlf => 10 | .lfCrlf => 10 | .crCrlf => 13

/-- `internal::inputerator`: data offset, line, column.  `pos` is the offset from
    the first byte of the data; the reported byte is `init.pos + pos`. -/
structure Cursor where
  pos  : Nat
  line : Nat
  col  : Nat
  deriving DecidableEq, Repr, Inhabited

/-- Rules with a one-argument `match( in )`. -/
inductive Atom
  | any
  | one (found : Bool) (cs : List UInt8)            -- `one` / `not_one`
  | range (found : Bool) (lo hi : UInt8)            -- `range` / `not_range`
  | ranges (rs : List (UInt8 × UInt8)) (single : Option UInt8)
  | string (cs : List UInt8)
  | istring (cs : List UInt8)
  | bytes (n : Nat)
  | eof | bof | bol | eol | eolf
  | success | failure
  | everything
  | require (n : Nat)
  | utf8Range (found : Bool) (lo hi : Nat)          -- `utf8::range` / `utf8::not_range` (code points)
  | repOne (lo hi : Nat) (c : UInt8)               -- contrib `rep_one_min_max< lo, hi, c >`
  | maxDigits (mx : Nat)                            -- `integer::maximum_rule< Unsigned, mx >`
  deriving DecidableEq, Repr, Inhabited

/-- Which exceptions a `try_catch_*` rule names. -/
inductive Catch | any | std | parse
  deriving DecidableEq, Repr, Inhabited


/-- An action class named directly by a rule (`apply< A... >`, `if_apply< R, A... >`), not reached through the action
    family: `A::apply( in, st... )` returning `void` or `bool`.  Generated like `ActionSpec` actions: a `bool` one returns
    false when `(b + 2*e + id) % vetoMod = 0`, any one throws when `(b + e + id) % throwMod = 0`. -/
structure RuleAct where
  id : Nat
  isBool : Bool := false
  vetoMod : Nat := 0
  throwMod : Nat := 0
  throwStd : Bool := false
  deriving DecidableEq, Repr, Inhabited

/-- One constructor per distinct `match()` body (DESIGN §2.2).  Children are node ids. -/
inductive Kind
  | atom (a : Atom)
  | seq (cs : List Nat)
  | sor (cs : List Nat)
  | starPartial (cs : List Nat)
  | partialR (cs : List Nat)
  | plus (c : Nat)
  | atR (c : Nat)
  | notAt (c : Nat)
  | until1 (cond : Nat)
  | until2 (cond body : Nat)
  | rep (n c : Nat)
  | repMinMax (lo hi c na : Nat)
  | repOpt (n c : Nat)
  | ifThenElse (c t e : Nat)
  | strict (c rest : Nat)
  | starStrict (c rest : Nat)
  | rematch (head : Nat) (rs : List Nat)
  | must (c : Nat)
  | ifMust (dflt : Bool) (cond mustNode : Nat)
  | raise (t : Nat)
  | tryCatchReturnFalse (ex : Catch) (c : Nat)
  | tryCatchRaiseNested (ex : Catch) (c : Nat)
  | enable (c : Nat)
  | disable (c : Nat)
  | action (fam c : Nat)
  | state (dflt : Bool) (c : Nat)     -- `state< S, R >`; `dflt`: `S` is default-constructed (else from `in, st...`)
  | ifApply (c : Nat) (acts : List RuleAct)   -- `if_apply< R, A... >`
  | applyR (acts : List RuleAct)              -- `apply< A... >`
  | control (k c : Nat)                       -- `control< Control_k, R >`
  deriving DecidableEq, Repr, Inhabited

inductive ActKind | none | apply | apply0
  deriving DecidableEq, Repr, Inhabited

/-- Action classes with a `match()` of their own (called by `normal< Rule >::match` instead of
    `tao::pegtl::match`): `change_action`, `disable_action`, `enable_action`, contrib `limit_depth`
    and `limit_bytes`, and the state-switching bases.  The two spellings selected by `multi` differ in
    C++ only (how the state is constructed and which `success` overload is called); the model gives
    them the same behaviour and the correspondence run checks both. -/
inductive Wrap
  | none
  | changeAction (fam : Nat)
  | disableAction
  | enableAction
  | limitDepth (n : Nat)
  | limitBytes (n : Nat)
  | changeState (multi : Bool)                    -- `change_state< S >` / `change_states< S >` (`multi`)
  | changeActionAndState (fam : Nat) (multi : Bool)   -- `change_action_and_state< A, S >` / `..._states< A, S >`
  | changeControl (k : Nat)                       -- `change_control< Control_k >`
  deriving DecidableEq, Repr, Inhabited

/-- What the action class template does for one rule.  The harness generates the
    C++ specialisation from the same record: a `bool` action vetoes when
    `(b + 2*e + i) % vetoMod = 0`, an action throws when `(b + e + i) % throwMod = 0`
    (`b = e` for `apply0`); `0` means never. -/
structure ActionSpec where
  kind     : ActKind := .none
  isBool   : Bool := false
  vetoMod  : Nat := 0
  throwMod : Nat := 0
  throwStd : Bool := false
  wrap     : Wrap := .none
  deriving DecidableEq, Repr, Inhabited

structure Node where
  ctl  : Bool            -- `Control< Rule >::enable`
  act  : ActionSpec      -- action of the default family
  kind : Kind
  deriving DecidableEq, Repr, Inhabited

abbrev Grammar := Array Node

inductive Exc
  | parse (i : Nat) (c : Cursor)
  | nested (i : Nat) (c : Cursor) (inner : Exc)
  | foreign (k : Nat) (isStd : Bool)
  deriving DecidableEq, Repr, Inhabited

inductive Res
  | ok | fail | thr (e : Exc)
  deriving DecidableEq, Repr, Inhabited

def Res.code : Res → Nat
  | .fail => 0 | .ok => 1 | .thr _ => 2

def Res.isOk : Res → Bool
  | .ok => true | _ => false

/-- Observable events, in the order the harness control logs them. -/
inductive Ev
  | enter (i : Nat) (a : AMode) (m : RMode) (c : Cursor) (k : Nat)   -- `k`: the control family the rule is invoked through
  | exit (i : Nat) (r : Nat) (c : Cursor)
  | start (i : Nat) (c : Cursor) (k : Nat)                           -- `k`: the control family whose hooks run for this invocation
  | success (i : Nat) (c : Cursor)
  | failure (i : Nat) (c : Cursor)
  | unwind (i : Nat) (c : Cursor)
  | raise (i : Nat) (c : Cursor)
  | apply (i : Nat) (sd : Nat) (b e : Cursor)      -- `sd`: nesting depth of the state object the action was given
  | apply0 (i : Nat) (sd : Nat) (c : Cursor)
  | sctor (d : Nat)                                -- a state object of nesting depth `d` is constructed
  | ssucc (d : Nat) (c : Cursor) (outer : Nat)     -- its `success( in, outer... )` is called at `c`
  | sdtor (d : Nat)                                -- it is destroyed
  | ruleApply (k : Nat) (sd : Nat) (b e : Cursor)  -- `apply< A... >` / `if_apply< R, A... >` call `A_k::apply( [b, e), st... )` directly
  deriving DecidableEq, Repr, Inhabited

/-- Mutable part of the parse input. -/
structure St where
  cur   : Cursor
  endp  : Nat            -- offset of `end()`
  depth : Nat := 0       -- `private_depth`
  oob   : Bool := false  -- ghost: a read or bump outside `[cur, endp)` happened
  deriving DecidableEq, Repr, Inhabited

/-- Template parameters passed downwards (`Action`, `Control`, `States...`). -/
structure Env where
  fam : Nat := 0
  sd  : Nat := 0         -- nesting depth of the current state object (0: the states given to `parse`)
  ctl : Nat := 0         -- control family (0: the one given to `parse`; 2: the harness's second, event-marking family)
  deriving DecidableEq, Repr, Inhabited

/-- Everything immutable during one parsing run. -/
structure Ctx where
  g      : Grammar
  inp    : Array UInt8
  eol    : Eol := .lfCrlf
  lazy   : Bool := false
  init   : Cursor := ⟨0, 1, 1⟩     -- initial byte / line / column counters
  unwind : Bool := true            -- the control family defines `unwind()`
  fams   : Array (Array ActionSpec) := #[]   -- action families ≥ 1 (family 0 is `Node.act`)
  msgs   : List Nat := []          -- the run's control is `must_if< Errors, … >::control`: the rules `Errors` has a message for (`raise_on_failure`)
  deriving Inhabited

structure Ret where
  res  : Res
  st   : St
  raw  : List Ev        -- every event of this invocation
  surv : List Ev        -- action events that belong to completed, not undone matches
  deriving DecidableEq, Repr, Inhabited

/-- `none` = out of fuel (the C++ would still be running). -/
abbrev Out := Option Ret

abbrev Rec := Nat → AMode → RMode → Env → St → Out

end Pegtl
