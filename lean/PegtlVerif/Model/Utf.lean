/-
  Model/Utf.lean — executable transcription of PEGTL's `Peek` classes: the functions that
  decode ONE unit at the cursor and report `{ data, size }` (size 0 = no unit).

  The input is the list of bytes from `in.current()` to `in.end()`; `in.empty()` is `bs = []`,
  `in.size( n ) >= n` is `bs.length ≥ n` (memory input), `in.peek_uint8( k )` is `bs[k]`.
  `{ 0, 0 }` (the falsy pair) is `none`; `{ data, size }` is `some (data, size)`.

  `char32_t` / `uintN_t` values are modelled as `Nat`.  No machine operation of the decoders can
  wrap: the UTF-8 decoder ORs bytes masked to at most 6 bits shifted left by at most 18 bits
  (< 2^21), the UTF-16 pair value is < 2^20 + 2^16, and a `w`-byte read is < 2^(8w)
  (`readUint_lt` in Lemmas/Utf.lean), so the unbounded model and the machine arithmetic agree.

  Mirrors: internal/peek_utf8.hpp, contrib/internal/peek_utf16.hpp, peek_utf32.hpp,
  peek_uint.hpp, peek_mask_uint.hpp, peek_uint8.hpp, peek_mask_uint8.hpp, read_uint.hpp,
  endian.hpp + endian_gcc.hpp (little-endian host branch, see `readUint`), internal/peek_char.hpp.
  Core Lean only.
-/
import PegtlVerif.Spec.Unicode   -- only for the enumeration `Endian`

namespace Pegtl.Utf

/-! ### internal/peek_utf8.hpp -/

/-- `peek_utf8::peek_impl( in, c0 )`. -/
def peekUtf8Impl (bs : List UInt8) (c0 : Nat) : Option (Nat × Nat) :=
  if c0 &&& 0xE0 = 0xC0 then
    if bs.length ≥ 2 then                                   -- in.size( 2 ) >= 2
      let c1 := (bs.getD 1 0).toNat
      if c1 &&& 0xC0 = 0x80 then
        let c := ((c0 &&& 0x1F) <<< 6) ||| (c1 &&& 0x3F)
        if c ≥ 0x80 then some (c, 2) else none
      else none
    else none
  else if c0 &&& 0xF0 = 0xE0 then
    if bs.length ≥ 3 then
      let c1 := (bs.getD 1 0).toNat
      let c2 := (bs.getD 2 0).toNat
      if c1 &&& 0xC0 = 0x80 ∧ c2 &&& 0xC0 = 0x80 then
        let c := ((((c0 &&& 0x0F) <<< 6) ||| (c1 &&& 0x3F)) <<< 6) ||| (c2 &&& 0x3F)
        if c ≥ 0x800 ∧ ¬(c ≥ 0xD800 ∧ c ≤ 0xDFFF) then some (c, 3) else none
      else none
    else none
  else if c0 &&& 0xF8 = 0xF0 then
    if bs.length ≥ 4 then
      let c1 := (bs.getD 1 0).toNat
      let c2 := (bs.getD 2 0).toNat
      let c3 := (bs.getD 3 0).toNat
      if c1 &&& 0xC0 = 0x80 ∧ c2 &&& 0xC0 = 0x80 ∧ c3 &&& 0xC0 = 0x80 then
        let c := ((((((c0 &&& 0x07) <<< 6) ||| (c1 &&& 0x3F)) <<< 6) ||| (c2 &&& 0x3F)) <<< 6) ||| (c3 &&& 0x3F)
        if c ≥ 0x10000 ∧ c ≤ 0x10FFFF then some (c, 4) else none
      else none
    else none
  else none

/-- `peek_utf8::peek( in )`. -/
def peekUtf8 (bs : List UInt8) : Option (Nat × Nat) :=
  match bs with
  | [] => none                                              -- in.empty()
  | b0 :: _ =>
    let c0 := b0.toNat                                      -- in.peek_uint8()
    if c0 &&& 0x80 = 0 then some (c0, 1) else peekUtf8Impl bs c0

/-! ### contrib/internal/endian.hpp, endian_gcc.hpp, read_uint.hpp

The correspondence run executes on a little-endian host (`__BYTE_ORDER__ ==
__ORDER_LITTLE_ENDIAN__`, asserted by the harness), so the branch modelled is:
`to_and_from_le< S >::convert` = identity, `to_and_from_be< S >::convert` = `__builtin_bswapN`. -/

/-- `std::memcpy( &n, p, w )` on a little-endian host: byte `i` lands in bits `8i … 8i+7`. -/
def memcpyLE : Nat → List UInt8 → Nat
  | 0, _ => 0
  | w + 1, bs => (bs.headD 0).toNat ||| (memcpyLE w bs.tail <<< 8)

/-- `__builtin_bswap16/32/64` (`w` = 2, 4, 8): reverse the `w` bytes of `x`. -/
def bswap : Nat → Nat → Nat
  | 0, _ => 0
  | w + 1, x => ((x &&& 0xFF) <<< (8 * w)) ||| bswap w (x >>> 8)

/-- `read_uintN_be::read( p )` = `be_to_h< N >( p )`, `read_uintN_le::read( p )` = `le_to_h< N >( p )`
    for `N` of `w` bytes.  The caller has checked `in.size( w ) >= w`. -/
def readUint (e : Endian) (w : Nat) (bs : List UInt8) : Nat :=
  let n := memcpyLE w bs
  match e with
  | .little => n                 -- to_and_from_le< w >::convert( n ) = n
  | .big => bswap w n            -- to_and_from_be< w >::convert( n ) = __builtin_bswap( n )

/-! ### contrib/internal/peek_utf16.hpp, peek_utf32.hpp -/

/-- `peek_utf16_impl< read_uint16_{be,le} >::peek( in )`. -/
def peekUtf16 (e : Endian) (bs : List UInt8) : Option (Nat × Nat) :=
  if bs.length < 2 then none                                -- in.size( 2 ) < 2
  else
    let t := readUint e 2 bs                                -- R::read( in.current() )
    if t < 0xd800 ∨ t > 0xdfff then some (t, 2)
    else if t ≥ 0xdc00 ∨ bs.length < 4 then none
    else
      let u := readUint e 2 (bs.drop 2)                     -- R::read( in.current() + 2 )
      if u ≥ 0xdc00 ∧ u ≤ 0xdfff then
        some ((((t &&& 0x03ff) <<< 10) ||| (u &&& 0x03ff)) + 0x10000, 4)
      else none

/-- `peek_utf32_impl< read_uint32_{be,le} >::peek( in )`. -/
def peekUtf32 (e : Endian) (bs : List UInt8) : Option (Nat × Nat) :=
  if bs.length < 4 then none
  else
    let t := readUint e 4 bs
    if t ≤ 0x10ffff ∧ ¬(t ≥ 0xd800 ∧ t ≤ 0xdfff) then some (t, 4) else none

/-! ### contrib/internal/peek_uint8.hpp, peek_mask_uint8.hpp, peek_uint.hpp, peek_mask_uint.hpp -/

/-- `peek_uint8::peek` (`m = none`) and `peek_mask_uint8< M >::peek` (`m = some M`). -/
def peekUint8 (m : Option Nat) (bs : List UInt8) : Option (Nat × Nat) :=
  match bs with
  | [] => none                                              -- in.empty()
  | b :: _ =>
    match m with
    | none => some (b.toNat, 1)
    | some M => some ((b.toNat &&& M) % 256, 1)             -- std::uint8_t( in.peek_uint8() & M )

/-- `peek_uint_impl< R >::peek` (`m = none`) and `peek_mask_uint_impl< R, M >::peek`
    (`m = some M`) for `R::type` of `w` bytes (`w` = 2, 4, 8). -/
def peekUintN (w : Nat) (e : Endian) (m : Option Nat) (bs : List UInt8) : Option (Nat × Nat) :=
  if bs.length < w then none                                -- in.size( sizeof( data_t ) ) < sizeof( data_t )
  else
    match m with
    | none => some (readUint e w bs, w)
    | some M => some (readUint e w bs &&& M, w)

/-- All binary `Peek` classes of contrib/uint8/16/32/64.hpp by width in bytes. -/
def peekUint (w : Nat) (e : Endian) (m : Option Nat) (bs : List UInt8) : Option (Nat × Nat) :=
  if w = 1 then peekUint8 m bs else peekUintN w e m bs

/-! ### internal/peek_char.hpp -/

/-- The value of a `char` holding byte `b` on a platform where `char` is signed (x86-64 gcc):
    `data_t = char`, comparisons in `test_one` promote to `int`. -/
def charVal (b : UInt8) : Int := if b.toNat < 128 then (b.toNat : Int) else (b.toNat : Int) - 256

/-- `peek_char::peek( in )`. -/
def peekChar (bs : List UInt8) : Option (Int × Nat) :=
  match bs with
  | [] => none
  | b :: _ => some (charVal b, 1)

end Pegtl.Utf
