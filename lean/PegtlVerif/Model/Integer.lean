/-
  Model/Integer.lean — executable transcription of /repo/include/tao/pegtl/contrib/integer.hpp
  (as it is after the `fix:` commits 1f7d483, 6fa93e4, 71e6b22, 24bead4).

  Conventions
  * Values are unbounded `Nat`/`Int`.  Every C++ arithmetic operation that is performed in an
    integer type with largest value `tmax` is *checked*: if a (sub-)result would exceed `tmax`
    the model answers `bad` ("left the range of the type": wrapped value / undefined behaviour —
    the model says nothing about what the machine does then).  Props/C15.lean proves that
    `bad` is unreachable, so the unbounded model and machine arithmetic agree.
  * The parse input is the window `[current, end)` as a byte list plus the offset of
    `current`: `peek off` is `none` for every read at or beyond `end`, `bump n` is `none`
    beyond `end`; both surface as the result `oob`.  Props/C15.lean proves `oob` unreachable.
  * Loops recurse on a fuel counter that the callers initialise with the number of bytes
    left (+1); `fuel` (out of fuel) is proved unreachable as well.
  Core Lean only (the driver DrvC15 links this file natively).
-/
namespace Pegtl.Integer

/-! ### Conversions (namespace internal) -/

/-- `internal::is_digit( c )`: `( '0' <= c ) && ( c <= '9' )`. -/
def isDigit (c : UInt8) : Bool := 48 ≤ c && c ≤ 57

/-- Result of `accumulate_digit(s)`: new accumulator, `false` (overflow), or an intermediate
    value left the range of the C++ type. -/
inductive Acc
  | ok (r : Nat)
  | overflow
  | bad
  deriving DecidableEq, Repr, Inhabited

/-- `accumulate_digit< Integer, Maximum >( result, digit )` with `tmax` the largest value of
    `Integer`.
    ```
    constexpr Integer cutoff = Maximum / 10;  constexpr Integer cutlim = Maximum % 10;
    const Integer c = digit - '0';
    if( ( result > cutoff ) || ( ( result == cutoff ) && ( c > cutlim ) ) ) return false;
    result *= 10;  result += c;  return true;
    ``` -/
def accDigit (tmax max r : Nat) (digit : UInt8) : Acc :=
  let cutoff := max / 10
  let cutlim := max % 10
  let c := digit.toNat - 48
  if r > cutoff || (r == cutoff && c > cutlim) then .overflow
  else
    let r10 := r * 10          -- result *= 10
    if r10 > tmax then .bad
    else
      let r' := r10 + c        -- result += c
      if r' > tmax then .bad else .ok r'

/-- `accumulate_digits< Integer, Maximum >( result, input )`: the `for( char c : input )` loop. -/
def accDigits (tmax max : Nat) : Nat → List UInt8 → Acc
  | r, [] => .ok r
  | r, c :: cs =>
    match accDigit tmax max r c with
    | .ok r' => accDigits tmax max r' cs
    | e => e

/-- `convert_positive< Integer, Maximum >` and `convert_unsigned< Unsigned, Maximum >`
    (both are `accumulate_digits` on `result == 0`). -/
def convertPositive (tmax max : Nat) (ds : List UInt8) : Acc := accDigits tmax max 0 ds

/-- Largest value of the unsigned / signed `w`-bit type. -/
def umaxW (w : Nat) : Nat := 2 ^ w - 1
def smaxW (w : Nat) : Nat := 2 ^ (w - 1) - 1

/-- Result of the signed conversions. -/
inductive Conv
  | ok (v : Int)
  | overflow
  | bad
  deriving DecidableEq, Repr, Inhabited

/-- `static_cast< Signed >( u )` for a `w`-bit pattern `u < 2^w`: two's-complement
    reinterpretation (modular conversion; g++, and the standard from C++20). -/
def toSigned (w u : Nat) : Int := if u < 2 ^ (w - 1) then (u : Int) else (u : Int) - (2 ^ w : Nat)

/-- `convert_negative< Signed >( result, input )` for a `w`-bit `Signed`:
    ```
    constexpr Unsigned maximum = static_cast< Unsigned >( max< Signed > ) + 1;
    Unsigned temporary = 0;
    if( accumulate_digits< Unsigned, maximum >( temporary, input ) ) {
       result = static_cast< Signed >( static_cast< Unsigned >( ~temporary + 1 ) );
       return true; }
    return false;
    ```
    `~temporary` is the `w`-bit complement `2^w - 1 - temporary` (for 8/16 bit it is computed in
    `int` as `-temporary - 1`, which is the same residue mod `2^w`); `+ 1` and the conversion to
    `Unsigned` are arithmetic mod `2^w` (defined behaviour, nothing to check). -/
def convertNegative (w : Nat) (ds : List UInt8) : Conv :=
  match accDigits (umaxW w) (smaxW w + 1) 0 ds with
  | .ok t =>
    let nt := umaxW w - t              -- ~temporary
    let u := (nt + 1) % 2 ^ w          -- static_cast< Unsigned >( ~temporary + 1 )
    .ok (toSigned w u)                 -- static_cast< Signed >
  | .overflow => .overflow
  | .bad => .bad

def Conv.ofAcc : Acc → Conv
  | .ok r => .ok (r : Int)
  | .overflow => .overflow
  | .bad => .bad

/-- `convert_signed< Signed >( result, input )`: `input[ 0 ] == '-'` → `convert_negative` of the
    rest, else skip one `'+'` and `convert_positive< Signed >`.  An empty view violates the
    documented precondition (`input[ 0 ]` is read): `bad`. -/
def convertSigned (w : Nat) (s : List UInt8) : Conv :=
  match s with
  | [] => .bad
  | c :: rest =>
    if c == 45 then convertNegative w rest
    else
      let ds := if c == 43 then rest else s
      Conv.ofAcc (convertPositive (smaxW w) (smaxW w) ds)

/-! ### The parse input -/

/-- A `memory_input` reduced to what the integer rules touch: the offset of `current` and the
    bytes of the window `[current, end)`. -/
structure Inp where
  pos : Nat
  rest : List UInt8
  deriving DecidableEq, Repr, Inhabited

/-- `in.empty()`. -/
def Inp.empty (i : Inp) : Bool := i.rest.isEmpty
/-- `in.size( n )` (a memory input ignores `n` and returns `end - current`). -/
def Inp.size (i : Inp) : Nat := i.rest.length
/-- `in.peek_char( off )`; `none` = the read is at or beyond `end`. -/
def Inp.peek (i : Inp) (off : Nat) : Option UInt8 := i.rest[off]?
/-- `in.bump_in_this_line( n )`; `none` = beyond `end`. -/
def Inp.bump (i : Inp) (n : Nat) : Option Inp :=
  if n ≤ i.rest.length then some ⟨i.pos + n, i.rest.drop n⟩ else none

/-- Outcome of a rule's `match` (and of `parse<>` for the signed rules).  `st` is the value of
    the state / local variable that receives the converted number (`0` if the rule has none). -/
inductive Res
  | ok (i : Inp) (st : Int)        -- returned true; input afterwards
  | fail (i : Inp)                 -- returned false; input afterwards
  | thr (i : Inp) (at_ : Nat)      -- threw parse_error; input afterwards, reported byte
                                   -- (the state then holds an unspecified partial value)
  | oob                            -- a read or bump outside the window
  | bad                            -- arithmetic left the range of the type
  | fuel                           -- loop ran out of fuel
  deriving DecidableEq, Repr, Inhabited

/-- `in.bump_in_this_line( n ); return true;` -/
def bumpOk (i : Inp) (n : Nat) (st : Int) : Res :=
  match i.bump n with
  | some i' => .ok i' st
  | none => .oob

/-- `( in.size( 2 ) < 2 ) || ( !is_digit( in.peek_char( 1 ) ) )` after a leading `'0'`:
    `bump; return true` or `return false`. -/
def afterZero (i : Inp) : Res :=
  if i.size < 2 then bumpOk i 1 0
  else
    match i.peek 1 with
    | none => .oob
    | some c1 => if !isDigit c1 then bumpOk i 1 0 else .fail i

/-- `while( ( !in.empty() ) && is_digit( in.peek_char() ) ) in.bump_in_this_line();  return true;` -/
def digitLoop : Nat → Inp → Res
  | 0, _ => .fuel
  | n + 1, i =>
    if !i.empty then
      match i.peek 0 with
      | none => .oob
      | some c =>
        if isDigit c then
          match i.bump 1 with
          | some i' => digitLoop n i'
          | none => .oob
        else .ok i 0
    else .ok i 0

/-- `internal::match_unsigned( in )`. -/
def matchUnsigned (i : Inp) : Res :=
  if !i.empty then
    match i.peek 0 with
    | none => .oob
    | some c =>
      if isDigit c then
        if c == 48 then afterZero i
        else
          match i.bump 1 with
          | some i' => digitLoop (i'.size + 1) i'
          | none => .oob
      else .fail i
  else .fail i

/-- The `do { … } while( ( !in.empty() ) && is_digit( c = in.peek_char() ) )` loop of
    `match_and_convert_unsigned_with_maximum_throws`:
    ```
    if( !accumulate_digit< Unsigned, Maximum >( st, c ) ) throw parse_error( "integer overflow", in );
    in.bump_in_this_line();
    ``` -/
def throwsLoop (tmax max : Nat) : Nat → Inp → Nat → UInt8 → Res
  | 0, _, _, _ => .fuel
  | n + 1, i, st, c =>
    match accDigit tmax max st c with
    | .overflow => .thr i i.pos
    | .bad => .bad
    | .ok st' =>
      match i.bump 1 with
      | none => .oob
      | some i' =>
        if !i'.empty then
          match i'.peek 0 with
          | none => .oob
          | some c' => if isDigit c' then throwsLoop tmax max n i' st' c' else .ok i' st'
        else .ok i' st'

/-- `internal::match_and_convert_unsigned_with_maximum_throws< ParseInput, Unsigned, Maximum >( in, st )`
    (assumes `st == 0`). -/
def matchConvThrows (tmax max : Nat) (i : Inp) : Res :=
  if !i.empty then
    match i.peek 0 with
    | none => .oob
    | some c =>
      if isDigit c then
        if c == 48 then afterZero i
        else throwsLoop tmax max (i.size + 1) i 0 c
      else .fail i
  else .fail i

/-- The `do { … ++b; } while( ( in.size( b + 1 ) > b ) && is_digit( c = in.peek_char( b ) ) )` loop of
    `match_and_convert_unsigned_with_maximum_nothrow`, then `in.bump_in_this_line( b ); return true;`. -/
def nothrowLoop (tmax max : Nat) (i : Inp) : Nat → Nat → Nat → UInt8 → Res
  | 0, _, _, _ => .fuel
  | n + 1, b, st, c =>
    match accDigit tmax max st c with
    | .overflow => .fail i
    | .bad => .bad
    | .ok st' =>
      let b' := b + 1
      if i.size > b' then
        match i.peek b' with
        | none => .oob
        | some c' => if isDigit c' then nothrowLoop tmax max i n b' st' c' else bumpOk i b' st'
      else bumpOk i b' st'

/-- `internal::match_and_convert_unsigned_with_maximum_nothrow< ParseInput, Unsigned, Maximum >( in, st )`
    (assumes `st == 0`; the test `c == '0'` comes before `is_digit( c )`). -/
def matchConvNothrow (tmax max : Nat) (i : Inp) : Res :=
  if !i.empty then
    match i.peek 0 with
    | none => .oob
    | some c =>
      if c == 48 then afterZero i
      else if isDigit c then nothrowLoop tmax max i (i.size + 1) 0 0 c
      else .fail i
  else .fail i

/-! ### Rules and actions -/

/-- `unsigned_rule::match( in )` and `unsigned_rule_with_action::match` for `apply_mode::nothing`. -/
def unsignedRule (i : Inp) : Res := matchUnsigned i

/-- `unsigned_rule_with_action::match( in, st )` for `apply_mode::action`, `Unsigned` of `w` bits:
    `st = 0; return match_and_convert_unsigned_with_maximum_throws( in, st );` -/
def unsignedRuleWithAction (w : Nat) (i : Inp) : Res := matchConvThrows (umaxW w) (umaxW w) i

/-- `maximum_rule< Unsigned, Maximum >::match( in )`; the local `st` is dropped. -/
def maximumRule (w max : Nat) (i : Inp) : Res :=
  match matchConvNothrow (umaxW w) max i with
  | .ok i' _ => .ok i' 0
  | r => r

/-- `maximum_rule_with_action< Unsigned, Maximum >::match( in, st )`, `apply_mode::action`. -/
def maximumRuleWithAction (w max : Nat) (i : Inp) : Res := matchConvThrows (umaxW w) max i

/-- `maximum_rule_with_action< Unsigned, Maximum >::match( in )`, `apply_mode::nothing`:
    the same function on a local `st` (still throws on overflow). -/
def maximumRuleWithActionNothing (w max : Nat) (i : Inp) : Res :=
  match matchConvThrows (umaxW w) max i with
  | .ok i' _ => .ok i' 0
  | r => r

/-- The bytes a successful match `i → i'` consumed (`in.string_view()` of the action input). -/
def matched (i i' : Inp) : List UInt8 := i.rest.take (i'.pos - i.pos)

/-- A rule with an attached action, as `match.hpp` runs it: on success the action is applied to
    the matched bytes; if it throws, the rewind guard of `match()` restores the input and the
    `parse_error` carries the position of the beginning of the match. -/
def withAction (rule : Inp → Res) (act : List UInt8 → Conv) (i : Inp) : Res :=
  match rule i with
  | .ok i' _ =>
    match act (matched i i') with
    | .ok v => .ok i' v
    | .overflow => .thr i i.pos
    | .bad => .bad
  | r => r

/-- `unsigned_action::apply( in, st )` (`st = 0; convert_unsigned( st, in.string_view() )` or
    throw "unsigned integer overflow") for a `w`-bit `Unsigned`. -/
def unsignedAction (w : Nat) (s : List UInt8) : Conv := Conv.ofAcc (convertPositive (umaxW w) (umaxW w) s)

/-- `maximum_action< Unsigned, Maximum >::apply`. -/
def maximumAction (w max : Nat) (s : List UInt8) : Conv := Conv.ofAcc (convertPositive (umaxW w) max s)

/-- `signed_action::apply` (`st = 0; convert_signed( st, in.string_view() )` or throw
    "signed integer overflow"). -/
def signedAction (w : Nat) (s : List UInt8) : Conv := convertSigned w s

/-- `one< Cs... >::match( in )` for characters that are not the end-of-line character:
    `if( !in.empty() ) if( test( in.peek_char() ) ) { bump_in_this_line( 1 ); return true; } return false;` -/
def oneOf (test : UInt8 → Bool) (i : Inp) : Res :=
  if !i.empty then
    match i.peek 0 with
    | none => .oob
    | some c => if test c then bumpOk i 1 0 else .fail i
  else .fail i

/-- `unsigned_rule_new` = `if_then_else< one< '0' >, not_at< digit >, plus< digit > >` as the generic
    machinery runs it: the bodies of `if_then_else`, `not_at`, `plus`, `star`, `range`
    (internal/*.hpp) inlined.  `if_then_else` rewinds to its own start when a branch fails. -/
def unsignedRuleNew (i : Inp) : Res :=
  -- if_then_else< one< '0' >, … >
  match oneOf (fun c => c == 48) i with
  | .ok i2 _ =>
    -- not_at< digit >: its guard always rewinds; it fails iff `digit` matches
    match oneOf isDigit i2 with
    | .ok _ _ => .fail i
    | .fail _ => .ok i2 0
    | r => r
  | .fail _ =>
    -- plus< digit > = digit, then star< digit >
    match oneOf isDigit i with
    | .ok i2 _ => digitLoop (i2.size + 1) i2
    | .fail _ => .fail i
    | r => r
  | r => r

/-- `opt< one< '-', '+' > >`: always succeeds. -/
def optSign (i : Inp) : Res :=
  match oneOf (fun c => c == 45 || c == 43) i with
  | .fail _ => .ok i 0
  | r => r

/-- `signed_rule_new` = `seq< opt< one< '-', '+' > >, if_then_else< … > >` run by
    `parse< signed_rule_new, …, rewind_mode::required >( in )`: a failure after the sign rewinds
    to the start (the guard of `seq` under `rewind_mode::required`). -/
def signedRuleNew (i : Inp) : Res :=
  match optSign i with
  | .ok i1 _ =>
    match unsignedRuleNew i1 with
    | .fail _ => .fail i
    | r => r
  | r => r

/-- `signed_rule::match( in )`, and `signed_rule_with_action::match` for `apply_mode::nothing`. -/
def signedRule (i : Inp) : Res := signedRuleNew i

/-- `signed_rule_with_action::match( in, st )`, `apply_mode::action`, `w`-bit `Signed`:
    `parse< signed_rule_new, internal::signed_action_action, … >( in, st )`. -/
def signedRuleWithAction (w : Nat) (i : Inp) : Res := withAction signedRuleNew (signedAction w) i

end Pegtl.Integer
