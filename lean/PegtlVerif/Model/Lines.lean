/-
  Model/Lines.lean — the error-reporting helpers of `memory_input`
  (include/tao/pegtl/memory_input.hpp): `at`, `begin_of_line`, `end_of_line`, `line_at`,
  and the ways a `position` is obtained from an input (`in.bump( k )`, `bytes< k >`,
  a token walk with `sor< eol, any >`), for eager and lazy tracking.

  Pointers are *offsets relative to `begin()`* and they are `Int`s: the C++ computes
  `begin() + p.byte` and `at( p ) - ( p.column - 1 )` without any bounds check, so a
  result below `0` or above `size` is a pointer outside the input data and must stay
  visible in the model.

  Core Lean only.  Re-uses `bumpScan`, `bump`, `eolMatch`, `atomStep`, `Ctx.rep`,
  `Ctx.start` of Model/Input.lean unchanged.
-/
import PegtlVerif.Model.Basic
import PegtlVerif.Model.Input

namespace Pegtl
namespace Lines

/-! ### The four helpers.  A `position` is a `Cursor` whose `pos` field is `position::byte`. -/

/-- `memory_input::at( p )`:  `return this->begin() + ( p.byte - this->begin_byte() );` where `begin_byte()` is the byte
    count that belongs to `begin()` — the initial byte counter the input was constructed (or restarted) with. -/
def atOff (cx : Ctx) (p : Cursor) : Int := (p.pos : Int) - (cx.init.pos : Int)

/-- `memory_input::begin_of_line( p )`:  `return at( p ) - ( p.column - 1 );`
    (`column` is never 0: the constructors assert it and every bump keeps it ≥ 1). -/
def beginOfLineOff (cx : Ctx) (p : Cursor) : Int := atOff cx p - ((p.col : Int) - 1)

/-- `internal::until< internal::at< internal::eolf > >::match` on the sub-input of
    `end_of_line`:

        while( !at< eolf >::match( in ) ) { if( in.empty() ) return false; in.bump(); }
        return true;

    `at<>` rewinds, so only the result of `eolf` is used.  The first argument is fuel
    (`size + 1` suffices, see `Lemmas/Lines.lean`); the ghost flag `oob` of the state
    records a read outside `[current, end)`. -/
def untilAtEolf (cx : Ctx) : Nat → St → Bool × St
  | 0, st => (false, st)
  | n + 1, st =>
    let r := atomStep cx .eolf st
    if r.1 then (true, { st with oob := r.2.oob })
    else if st.empty then (false, { st with oob := r.2.oob })
    else untilAtEolf cx n (bump cx { st with oob := r.2.oob } 1)

/-- The state in which the sub-parse of `end_of_line( p )` stops:

        memory_input< tracking_mode::lazy, Eol, const char* > in( at( p ), this->end(), "" );
        (void)normal< until< at< eolf > > >::match< ... >( in );
        return in.current();

    `none` when `at( p )` does not point into `[begin, end]`: the C++ then runs a parser over
    memory that is not the input (`size()` = `end - current` wraps around) — undefined
    behaviour, which the model does not give a value to. -/
def endOfLineRun (cx : Ctx) (p : Cursor) : Option St :=
  if 0 ≤ atOff cx p ∧ atOff cx p ≤ (cx.inp.size : Int) then
    let st0 : St := { cur := ⟨p.pos - cx.init.pos, 1, 1⟩, endp := cx.inp.size }
    some (untilAtEolf cx (cx.inp.size - (p.pos - cx.init.pos) + 1) st0).2
  else none

/-- `memory_input::end_of_line( p )` as an offset. -/
def endOfLineOff (cx : Ctx) (p : Cursor) : Option Int :=
  (endOfLineRun cx p).map (fun st => (st.cur.pos : Int))

/-- `memory_input::line_at( p )`:
    `const char* b = begin_of_line( p ); return { b, size_t( end_of_line( p ) - b ) };`
    as (offset of `data()`, `size()`); the size is an `Int` so that a wrapped-around
    `size_t` shows as a negative number. -/
def lineAtOff (cx : Ctx) (p : Cursor) : Option (Int × Int) :=
  (endOfLineOff cx p).map (fun e => (beginOfLineOff cx p, e - beginOfLineOff cx p))

/-- The bytes a `string_view` `(off, len)` denotes when it lies inside the data. -/
def viewBytes (inp : Array UInt8) (v : Int × Int) : List UInt8 :=
  (inp.extract v.1.toNat (v.1 + v.2).toNat).toList

/-! ### How positions are obtained -/

/-- `in.bump( k ); in.position()` and `parse< bytes< k > >( in ); in.position()`
    (`bytes< k >::match` is `in.bump( k )`), eager or lazy as `cx.lazy` says. -/
def posBump (cx : Ctx) (k : Nat) : Cursor := cx.rep (bump cx cx.start k).cur

/-- One step of `sor< eol, any >`. -/
def tokStep (cx : Ctx) (st : St) : Bool × St :=
  let r := atomStep cx .eol st
  if r.1 then r else atomStep cx .any st

/-- `n` steps of `sor< eol, any >` (stops where the rule fails, i.e. at the end). -/
def tokWalk (cx : Ctx) : Nat → St → St
  | 0, st => st
  | n + 1, st =>
    let r := tokStep cx st
    if r.1 then tokWalk cx n r.2 else st

/-- The position reported after `n` tokens of `sor< eol, any >`. -/
def posTok (cx : Ctx) (n : Nat) : Cursor := cx.rep (tokWalk cx n cx.start).cur

end Lines
end Pegtl
