/-
  Model/RawString.lean — executable transcription of
  /repo/include/tao/pegtl/contrib/raw_string.hpp (state after the `fix:` commit that added
  the rewind guard to `raw_string::match`):

    internal::raw_string_open< Open, Marker >::match            → `rawOpen` / `openLoop`
    internal::at_raw_string_close< Marker, Close >::match       → `atClose` / `closeMarkers`
    internal::raw_string_until< Cond >::match                   → `untilLoop`   (+ guard in `contentBody`)
    internal::raw_string_until< Cond, Rule >::match             → `untilRuleLoop` (+ guard in `contentBody`)
    match< raw_string<…>::content >  (match.hpp protocol)       → `content`
    raw_string< Open, Marker, Close, Contents... >::match       → `rawString`

  Conventions (DESIGN §2.2): pointers are offsets into the immutable `cx.inp`, the mutable
  input is a returned `St`, a rewind guard is an explicit restore of `St.cur`.  Bounded
  `for` loops are structural recursions on their trip count (running out of trips *is* the
  loop exit); the two `while` loops take fuel and return `none` when it runs out ("the C++
  would still be running").  `Contents...` is an arbitrary PEGTL rule and is modelled as a
  step function `St → Bool × St` (exceptions thrown by `Contents` are not modelled).
  Core Lean only.
-/
import PegtlVerif.Model.Basic
import PegtlVerif.Model.Input

namespace Pegtl.RawString

/-- The three template characters `Open`, `Marker`, `Close`.  (`Open = Marker` does not
    compile in C++: duplicate `case` label in `raw_string_open::match`.) -/
structure Cfg where
  o : UInt8
  m : UInt8
  c : UInt8
  deriving DecidableEq, Repr, Inhabited

/-- Value of `in.peek_char( off )`. -/
@[inline] def peek (cx : Ctx) (st : St) (off : Nat) : UInt8 := (rd cx st off).1

/-- `auto_rewind< M >` + `return m( result )` / `return false`: what the guard's destructor
    leaves in the input, `st0` being the state when the guard was created. -/
def rewindTo (M : RMode) (st0 : St) (r : Bool) (st : St) : St :=
  if r then st else
    match M with
    | .required => { st with cur := st0.cur }
    | .optional => st

/-- The `for( i = 1; i < in.size( i + 1 ); ++i )` loop of `raw_string_open::match`.
    First argument: remaining trips (`in.size() - i`); `none` is `return false`,
    `some (marker_size, in')` is `return true`. -/
def openLoop (cx : Ctx) (k : Cfg) (st : St) : Nat → Nat → Option (Nat × St)
  | 0, _ => none
  | r + 1, i =>
    let ch := peek cx st i
    if ch = k.o then
      -- marker_size = i + 1; in.bump_in_this_line( marker_size ); (void)eol::match( in ); return true;
      let ms := i + 1
      some (ms, (eolMatch cx (bumpInThisLine st ms)).2.2)
    else if ch = k.m then openLoop cx k st r (i + 1)
    else none

/-- `raw_string_open< Open, Marker >::match( in, marker_size )`. -/
def rawOpen (cx : Ctx) (k : Cfg) (st : St) : Option (Nat × St) :=
  if st.empty || peek cx st 0 != k.o then none
  else openLoop cx k st (st.avail - 1) 1

/-- `for( i = 0; i < marker_size - 2; ++i ) if( in.peek_char( i + 1 ) != Marker ) return false;` -/
def closeMarkers (cx : Ctx) (k : Cfg) (st : St) : Nat → Nat → Bool
  | 0, _ => true
  | r + 1, i => if peek cx st (i + 1) != k.m then false else closeMarkers cx k st r (i + 1)

/-- `at_raw_string_close< Marker, Close >::match( in, marker_size )` (consumes nothing). -/
def atClose (cx : Ctx) (k : Cfg) (st : St) (ms : Nat) : Bool :=
  if st.avail < ms then false
  else if peek cx st 0 != k.c then false
  else if peek cx st (ms - 1) != k.c then false
  else closeMarkers cx k st (ms - 2) 0

/-- The `while` loop of `raw_string_until< Cond >::match`. -/
def untilLoop (cx : Ctx) (k : Cfg) (ms : Nat) : Nat → St → Option (Bool × St)
  | 0, _ => none
  | f + 1, st =>
    if atClose cx k st ms then some (true, st)
    else if st.empty then some (false, st)
    else untilLoop cx k ms f (bump cx st 1)

/-- The `while` loop of `raw_string_until< Cond, Rule >::match`; `R` is
    `Control< seq< Contents... > >::match< A, rewind_mode::optional, … >`. -/
def untilRuleLoop (cx : Ctx) (k : Cfg) (ms : Nat) (R : St → Bool × St) : Nat → St → Option (Bool × St)
  | 0, _ => none
  | f + 1, st =>
    if atClose cx k st ms then some (true, st)
    else
      let (r, st') := R st
      if r then untilRuleLoop cx k ms R f st' else some (false, st')

/-- `raw_string_until< Cond, Contents... >::match< A, M, … >( in, marker_size )`:
    `cont = none` is the specialisation without rules. -/
def contentBody (cx : Ctx) (k : Cfg) (cont : Option (St → Bool × St)) (M : RMode)
    (fuel ms : Nat) (st : St) : Option (Bool × St) :=
  let body := match cont with
    | none => untilLoop cx k ms fuel st
    | some R => untilRuleLoop cx k ms R fuel st
  match body with
  | none => none
  | some (r, st') => some (r, rewindTo M st r st')

/-- `Control< content >::match< A, M, … >` = `tao::pegtl::match< content, … >` of match.hpp.
    `act` says that `A = apply_mode::action` and `Action< content >` has a (void) `apply`:
    then match.hpp puts its own `rewind_mode::required` guard around the rule, matches it
    with `rewind_mode::optional`, and on success calls `apply` with the span
    `[guard position, current position)`, returned here as the third component. -/
def content (cx : Ctx) (k : Cfg) (cont : Option (St → Bool × St)) (act : Bool) (M : RMode)
    (fuel ms : Nat) (st : St) : Option (Bool × St × Option (Cursor × Cursor)) :=
  if act then
    match contentBody cx k cont .optional fuel ms st with
    | none => none
    | some (r, st') =>
      some (r, rewindTo .required st r st', if r then some (st.cur, st'.cur) else none)
  else
    match contentBody cx k cont M fuel ms st with
    | none => none
    | some (r, st') => some (r, st', none)

/-- `raw_string< Open, Marker, Close, Contents... >::match< A, M, … >( in )`.
    Result: `none` out of fuel, else `(matched, in', span given to the content action)`. -/
def rawString (cx : Ctx) (k : Cfg) (cont : Option (St → Bool × St)) (act : Bool) (M : RMode)
    (fuel : Nat) (st : St) : Option (Bool × St × Option (Cursor × Cursor)) :=
  -- auto m = in.auto_rewind< M >();  m_t::next_rewind_mode is `optional` for both values of M
  match rawOpen cx k st with
  | none => some (false, st, none)               -- nothing was consumed; the guard restores the same position
  | some (ms, st1) =>
    match content cx k cont act .optional fuel ms st1 with
    | none => none
    | some (true, st2, sp) => some (true, bumpInThisLine st2 ms, sp)   -- in.bump_in_this_line( marker_size ); return m( true );
    | some (false, st2, _) => some (false, rewindTo M st false st2, none)

/-- Enough fuel for the rule-less variant (one trip per remaining byte, plus the exit test). -/
def fuelFor (st : St) : Nat := st.avail + 2

/-- `seq< Rules... >::match< A, rewind_mode::optional, … >` for atoms without actions: the
    rules in order, stopping at the first failure (no rewind in `optional` mode). -/
def seqAtoms (cx : Ctx) : List Atom → St → Bool × St
  | [], st => (true, st)
  | a :: as, st =>
    let (r, st') := atomStep cx a st
    if r then seqAtoms cx as st' else (false, st')

/-- A fresh `memory_input< tracking_mode::eager, Eol >` over `inp`. -/
def mkCtx (inp : Array UInt8) (e : Eol) : Ctx := { g := #[], inp := inp, eol := e }

end Pegtl.RawString
