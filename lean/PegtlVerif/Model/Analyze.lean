/-
  Model/Analyze.lean — the grammar analysis of contrib/analyze.hpp + contrib/analyze_traits.hpp.

  * `AType`, `AEntry`, `AGrammar`  — `internal::analyze_type`, `internal::analyze_entry`, the map
    `analyze_cycles_impl::m_entries` (keys: demangled type names; here `AId`).
  * `traitOf` / `auxOf` / `auxCount` — the table of `analyze_traits< Name, Rule >` specialisations
    (analyze_traits.hpp), applied to the node table of Model/Basic.lean: one case per `Kind`
    (= per `rule_t`), including the auxiliary types a trait mentions (`opt< Rules..., Name >`,
    `seq< Rules..., opt< Name > >`, `sor< seq< Cond, Then >, Else >`, …) which `analyze_insert`
    turns into entries of their own.
  * `abstract` — what `analyze_cycles< Grammar >`'s constructor builds (`analyze_insert`), for the
    whole node table; `abstractFrom` restricts it to what is reachable from one top rule.
  * `work`, `problems` — `analyze_cycles_impl::work` / `problems()`, with the same evaluation order
    and the same short-circuits.

  Core Lean only.
-/
import PegtlVerif.Model.Basic

namespace Pegtl
namespace Analyze

/-- `internal::analyze_type`. -/
inductive AType | any | opt | seq | sor
  deriving DecidableEq, Repr, Inhabited

/-- Key of an entry (C++: the demangled name of a type).  `node i` is the type of node `i` of the
    grammar table; `aux i k` is the `k`-th auxiliary type the trait of node `i` creates. -/
inductive AId
  | node (i : Nat)
  | aux (i k : Nat)
  deriving DecidableEq, Repr, Inhabited

/-- `internal::analyze_entry`: the type and the names of the sub-rules. -/
structure AEntry where
  ty : AType
  subs : List AId
  deriving DecidableEq, Repr, Inhabited

/-- `m_entries`: the keys (in any order — see `problems`) and `find()`. -/
structure AGrammar where
  ids : List AId
  ent : AId → AEntry

/-! ### analyze_traits.hpp -/

/-- Traits of the rules with a one-argument `match( in )`. -/
def atomType : Atom → AType
  | .any => .any                                       -- internal::any< Peek >
  | .one _ _ => .any                                   -- internal::one< R, Peek, Cs... >
  | .range _ _ _ => .any                               -- internal::range
  | .ranges _ _ => .any                                -- internal::ranges
  | .utf8Range _ _ _ => .any                           -- internal::range< R, peek_utf8, Lo, Hi >
  | .repOne lo _ _ => if lo != 0 then .any else .opt   -- rep_one_min_max.hpp: conditional_t< ( Min != 0 ), any, opt >
  | .maxDigits _ => .any                               -- integer.hpp: maximum_rule< Integer, Maximum > : analyze_any_traits<>
  | .string cs => if cs.length != 0 then .any else .opt    -- internal::string< Cs... >
  | .istring cs => if cs.length != 0 then .any else .opt   -- internal::istring< Cs... >
  | .bytes n => if n != 0 then .any else .opt          -- internal::bytes< Cnt >
  | .eof => .opt
  | .bof => .opt
  | .bol => .opt
  | .eol => .any
  | .eolf => .opt
  | .success => .opt
  | .failure => .any
  | .everything => .opt
  | .require _ => .opt

/-- `until< Cond >` has the traits of `Cond::rule_t` (with its own `Name`): follow the chain. -/
def baseKind (g : Grammar) : Nat → Kind → Kind
  | f + 1, .until1 c =>
    match g[c]? with
    | some nd => baseKind g f nd.kind
    | none => .until1 c
  | _, k => k

/-- The kind whose trait node `i` has. -/
def effKind (g : Grammar) (i : Nat) : Kind :=
  match g[i]? with
  | some nd => baseKind g g.size nd.kind
  | none => .atom .failure

/-- `Rules...` of the `internal::must< Rules... >` node that `if_must< D, Cond, Rules... >` calls
    (`must< R >` is one node, `must< R1, R2, ... >` is `seq< must< R1 >, must< R2 >, ... >`,
    `must<>` is `success`). -/
def mustRules (g : Grammar) (mn : Nat) : List Nat :=
  match g[mn]? with
  | some nd =>
    match nd.kind with
    | .must c => [c]
    | .seq ms => ms.map fun m =>
        match g[m]? with
        | some md => (match md.kind with | .must c => c | _ => m)
        | none => m
    | _ => []
  | none => []

def nodes (cs : List Nat) : List AId := cs.map .node

/-- `analyze_traits< Name, Rule >::type_v` and `::subs_t` for `Name` = node `self` whose `rule_t`
    has kind `k`. -/
def traitOf (g : Grammar) (self : Nat) (k : Kind) : AEntry :=
  match k with
  | .atom a => ⟨atomType a, []⟩
  | .seq cs => ⟨.seq, nodes cs⟩                          -- analyze_seq_traits< Rule, Rules... >
  | .sor cs => ⟨.sor, nodes cs⟩                          -- analyze_sor_traits< Rule, Rules... >
  | .starPartial _ => ⟨.opt, [.aux self 0]⟩              -- opt< Rules..., Name >::rule_t = internal::opt< internal::seq< Rules..., Name > >
  | .partialR cs => ⟨.opt, nodes cs⟩                     -- internal::opt< Rule >, internal::partial< Rules... >
  | .plus c => ⟨.seq, [.node c, .aux self 0]⟩            -- seq< Rules..., opt< Name > >::rule_t
  | .atR c => ⟨.opt, [.node c]⟩                          -- opt< Rules... >::rule_t
  | .notAt c => ⟨.opt, [.node c]⟩
  | .until1 _ => ⟨.sor, [.node self]⟩                    -- only for a cyclic `until< Cond >` chain, which is no C++ program
  | .until2 cond _ => ⟨.seq, [.aux self 0, .node cond]⟩  -- seq< star< Rules... >, Cond >::rule_t
  | .rep n c => if n != 0 then ⟨.seq, [.node c]⟩ else ⟨.opt, [.node c]⟩
  | .repMinMax lo _ c _ => if lo != 0 then ⟨.seq, [.node c]⟩ else ⟨.opt, [.node c]⟩
  | .repOpt _ c => ⟨.opt, [.node c]⟩
  | .ifThenElse _ _ e => ⟨.sor, [.aux self 0, .node e]⟩  -- sor< seq< Cond, Then >, Else >::rule_t
  | .strict _ _ => ⟨.sor, [.node self]⟩                  -- no specialisation exists: `analyze` does not compile
  | .starStrict _ _ => ⟨.sor, [.node self]⟩              -- dito
  | .rematch head _ => ⟨.sor, [.node head, .aux self 0]⟩ -- sor< Head, sor< seq< Rules, any >... > >::rule_t
  | .must c => ⟨.seq, [.node c]⟩
  | .ifMust dflt cond mn =>
    match mustRules g mn with
    | [] => if dflt then ⟨.opt, [.node cond]⟩ else ⟨.seq, [.node cond]⟩
    | rs => if dflt then ⟨.opt, [.aux self 0]⟩           -- opt< Cond, Rules... >::rule_t = internal::opt< internal::seq< Cond, Rules... > >
            else ⟨.seq, nodes (cond :: rs)⟩              -- seq< Cond, Rules... >::rule_t
  | .raise _ => ⟨.any, []⟩
  | .tryCatchReturnFalse _ c => ⟨.seq, [.node c]⟩
  | .tryCatchRaiseNested _ c => ⟨.seq, [.node c]⟩
  | .enable c => ⟨.seq, [.node c]⟩
  | .disable c => ⟨.seq, [.node c]⟩
  | .action _ c => ⟨.seq, [.node c]⟩
  | .ifApply c _ => ⟨.seq, [.node c]⟩                     -- analyze_traits< Name, typename Rule::rule_t >: the rule's own entry, here as a one-element seq
  | .control _ c => ⟨.seq, [.node c]⟩                     -- analyze_traits< Name, typename seq< Rules... >::rule_t >
  | .applyR _ => ⟨.opt, []⟩                              -- analyze_opt_traits<>
  | .state _ c => ⟨.seq, [.node c]⟩                       -- analyze_traits< Name, typename seq< Rules... >::rule_t >

/-- How many auxiliary types the trait of kind `k` creates. -/
def auxCount (g : Grammar) (k : Kind) : Nat :=
  match k with
  | .starPartial _ => 1
  | .plus _ => 1
  | .until2 _ _ => 2
  | .ifThenElse _ _ _ => 1
  | .rematch _ rs => if rs.isEmpty then 1 else 2 + rs.length
  | .ifMust dflt _ mn => if dflt && !(mustRules g mn).isEmpty then 1 else 0
  | _ => 0

/-- Traits of the `j`-th auxiliary type of node `self` (whose `rule_t` has kind `k`). -/
def auxOf (g : Grammar) (self : Nat) (k : Kind) (j : Nat) : AEntry :=
  match k with
  | .starPartial cs => ⟨.seq, nodes cs ++ [.node self]⟩         -- internal::seq< Rules..., Name >
  | .plus _ => ⟨.opt, [.node self]⟩                             -- tao::pegtl::opt< Name >
  | .until2 _ body =>
    if j = 0 then ⟨.opt, [.aux self 1]⟩                         -- tao::pegtl::star< Rule >: opt< Rule, Name' >::rule_t
    else ⟨.seq, [.node body, .aux self 0]⟩                      -- internal::seq< Rule, star< Rule > >
  | .ifThenElse c t _ => ⟨.seq, [.node c, .node t]⟩             -- tao::pegtl::seq< Cond, Then >
  | .rematch _ rs =>
    if rs.isEmpty then ⟨.any, []⟩                               -- tao::pegtl::sor<> : internal::failure
    else if j = 0 then ⟨.sor, (List.range rs.length).map fun n => .aux self (2 + n)⟩   -- tao::pegtl::sor< seq< Rules, any >... >
    else if j = 1 then ⟨.any, []⟩                               -- tao::pegtl::any
    else ⟨.seq, [.node (rs.getD (j - 2) 0), .aux self 1]⟩       -- tao::pegtl::seq< Rule, any >
  | .ifMust _ cond mn => ⟨.seq, nodes (cond :: mustRules g mn)⟩ -- internal::seq< Cond, Rules... >
  | _ => ⟨.opt, []⟩

/-- `find( name )->second`. -/
def entryOf (g : Grammar) : AId → AEntry
  | .node i => traitOf g i (effKind g i)
  | .aux i j => auxOf g i (effKind g i) j

/-- The keys node `i` contributes: itself and its auxiliary types. -/
def idsOf (g : Grammar) (i : Nat) : List AId :=
  .node i :: (List.range (auxCount g (effKind g i))).map (.aux i)

/-- `analyze_insert` applied to every node of the table. -/
def abstract (g : Grammar) : AGrammar :=
  ⟨(List.range g.size).flatMap (idsOf g), entryOf g⟩

/-- `analyze` only compiles if every rule has a trait. -/
def Analyzable (g : Grammar) : Prop :=
  ∀ i, i < g.size → match effKind g i with
    | .strict _ _ => False
    | .starStrict _ _ => False
    | .until1 _ => False
    | _ => True

/-! ### analyze.hpp -/

/-- `for( r : subs ) a = a || work( find( r ), accum || a );` — `work` is not called once `a` is true.
    Second component: the increments of `m_problems`. -/
def orLoop (w : AId → Bool → Option (Bool × Nat)) (accum : Bool) : List AId → Bool → Nat → Option (Bool × Nat)
  | [], a, p => some (a, p)
  | r :: rs, a, p =>
    if a then orLoop w accum rs a p
    else
      match w r (accum || a) with
      | none => none
      | some (b, q) => orLoop w accum rs b (p + q)

/-- `for( r : subs ) a = work( find( r ), accum ) && a;` — every alternative is visited. -/
def andLoop (w : AId → Bool → Option (Bool × Nat)) (accum : Bool) : List AId → Bool → Nat → Option (Bool × Nat)
  | [], a, p => some (a, p)
  | r :: rs, a, p =>
    match w r accum with
    | none => none
    | some (b, q) => andLoop w accum rs (b && a) (p + q)

/-- `analyze_cycles_impl::work( entry, accum )` with `m_stack = stack`; `none` = out of fuel. -/
def work (A : AGrammar) : Nat → List AId → AId → Bool → Option (Bool × Nat)
  | 0, _, _, _ => none
  | f + 1, stack, e, accum =>
    if e ∈ stack then
      -- `set_stack_guard` failed: the entry is being worked on
      some (accum, if accum then 0 else 1)
    else
      let en := A.ent e
      let w := work A f (e :: stack)
      match en.ty with
      | .any => (orLoop w accum en.subs false 0).map fun r => (true, r.2)
      | .opt => (orLoop w accum en.subs false 0).map fun r => (false, r.2)
      | .seq => orLoop w accum en.subs false 0
      | .sor => andLoop w accum en.subs true 0

/-- Enough fuel for any DFS whose stack holds distinct keys. -/
def AGrammar.fuel (A : AGrammar) : Nat := A.ids.length + 1

/-- The problems one iteration of the loop in `problems()` adds: `work( i, false )` on an empty stack.
    (Out of fuel cannot happen for a closed table, see `Lemmas/Analyze.lean`; it counts as a problem.) -/
def rootProblems (A : AGrammar) (e : AId) : Nat :=
  match work A A.fuel [] e false with
  | some r => r.2
  | none => 1

/-- `analyze_cycles_impl::problems()`.  The loop starts every DFS with an empty stack and `work` keeps
    no state but the stack and the counter, so the iteration order of the map does not matter. -/
def problems (A : AGrammar) : Nat :=
  (A.ids.map (rootProblems A)).sum

/-- `m_results[ name ]`. -/
def consumes (A : AGrammar) (e : AId) : Bool :=
  match work A A.fuel [] e false with
  | some r => r.1
  | none => false

/-- The keys `analyze_insert< Top >` creates: everything reachable from `Top`. -/
def reach (A : AGrammar) : Nat → List AId → List AId → List AId
  | 0, _, seen => seen
  | _ + 1, [], seen => seen
  | f + 1, e :: todo, seen =>
    if e ∈ seen then reach A f todo seen
    else reach A f ((A.ent e).subs ++ todo) (e :: seen)

def reachFuel (A : AGrammar) : Nat :=
  (A.ids.map fun e => (A.ent e).subs.length + 1).sum + 2

/-- `analyze_cycles< node root >`: the table restricted to what `root` reaches. -/
def abstractFrom (g : Grammar) (root : Nat) : AGrammar :=
  let A := abstract g
  ⟨(reach A (reachFuel A) [.node root] []).reverse, A.ent⟩

/-- `tao::pegtl::analyze< node root >( -1 )`. -/
def analyze (g : Grammar) (root : Nat) : Nat := problems (abstractFrom g root)

end Analyze
end Pegtl
