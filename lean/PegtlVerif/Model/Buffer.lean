/-
  Model/Buffer.lean — `tao::pegtl::buffer_input< Reader, Eol, Source, Chunk >`
  (include/tao/pegtl/buffer_input.hpp) over `Nat` offsets, with the reader given as an arbitrary
  *schedule* of short reads.

  Pointers become offsets into the allocation `new char[ maximum + Chunk ]` (`mem`):
  `m_current.data - m_buffer.get()` is `cur.data`, `m_end - m_buffer.get()` is `endb`,
  `m_maximum` is `maxb`.  The reader (`internal::cstream_reader`, `istream_reader`,
  `cstring_reader`: "copy up to `length` bytes to `buffer`, return how many, 0 only at the end
  of the data") is a stream `stream`, the number of bytes handed out so far `fed`, and a list
  `sched` of the counts its next calls return: a call with request `len` returns
  `min len (max s 1) (stream.size - fed)` where `s` is the next scheduled count (the full
  request when the schedule is used up).  Every legal behaviour of a reader is such a schedule.

  Ghost fields (not present in the C++): `base` — the stream offset of `mem[0]`; `wild` — set
  when the reader or `memmove` touches a byte outside the allocation; `stream` itself.

  Machine arithmetic: the pointer sums `m_current.data + amount` are modelled in `Nat`; the
  model is faithful as long as `address + amount` does not wrap, i.e. for the constant amounts
  all PEGTL rules pass (the former `everything`, which passed `size_t( -1 )`, no longer does).
-/
import PegtlVerif.Model.Input

namespace Pegtl
namespace Buf

/-- `internal::inputerator`: data pointer (as offset into the allocation), byte, line, column. -/
structure It where
  data : Nat
  byte : Nat := 0
  line : Nat := 1
  col  : Nat := 1
  deriving DecidableEq, Repr, Inhabited

structure Buffer where
  stream : Array UInt8          -- ghost: everything the reader will ever deliver
  sched  : List Nat             -- reader: counts returned by its next calls
  fed    : Nat                  -- reader: bytes handed out so far
  mem    : Array UInt8          -- `m_buffer`: the allocation of `maximum + Chunk` bytes
  base   : Nat                  -- ghost: stream offset of `mem[0]`
  cur    : It                   -- `m_current`
  endb   : Nat                  -- `m_end`
  maxb   : Nat                  -- `m_maximum` = `maximum + Chunk`
  chunk  : Nat                  -- `Chunk`
  eol    : Eol := .lfCrlf       -- `Eol` (only `Eol::ch` is used here)
  wild   : Bool := false        -- ghost: something touched memory outside the allocation
  deriving DecidableEq, Repr, Inhabited

/-- The constructor: `m_maximum( maximum + Chunk )`, `m_buffer( new char[ maximum + Chunk ] )`,
    `m_current( m_buffer.get() )`, `m_end( m_buffer.get() )`. -/
def Buffer.init (stream : Array UInt8) (sched : List Nat) (maximum chunk : Nat) (eol : Eol := .lfCrlf) : Buffer :=
  { stream, sched, fed := 0, mem := Array.replicate (maximum + chunk) 0, base := 0,
    cur := { data := 0 }, endb := 0, maxb := maximum + chunk, chunk, eol }

/-- `buffer_occupied()`. -/
def Buffer.occupied (b : Buffer) : Nat := b.endb - b.cur.data
/-- `buffer_free_before_current()`. -/
def Buffer.freeBeforeCurrent (b : Buffer) : Nat := b.cur.data
/-- `buffer_free_after_end()`. -/
def Buffer.freeAfterEnd (b : Buffer) : Nat := b.maxb - b.endb
/-- `buffer_capacity()`. -/
def Buffer.capacity (b : Buffer) : Nat := b.maxb

/-- The logical position: how many bytes of the stream are consumed. -/
def Buffer.logicalPos (b : Buffer) : Nat := b.base + b.cur.data
/-- Stream bytes not yet consumed. -/
def Buffer.remaining (b : Buffer) : Nat := b.stream.size - b.logicalPos

/-- `n` bytes copied from `src[from ..]` to `mem[dst ..]` (writes outside `mem` are dropped here
    and recorded in `wild` by the callers). -/
def copyIn (src : Array UInt8) : Nat → Nat → Nat → Array UInt8 → Array UInt8
  | _, _, 0, mem => mem
  | frm, dst, n + 1, mem => copyIn src (frm + 1) (dst + 1) n (mem.setIfInBounds dst (src.getD frm 0))

/-- What one call `m_reader( m_end, len )` returns. -/
def Buffer.readCount (b : Buffer) (len : Nat) : Nat :=
  let want := match b.sched with
    | [] => len
    | s :: _ => max s 1
  min (min len want) (b.stream.size - b.fed)

/-- One call `m_reader( m_end, len )`: copies the bytes to `mem[endb ..]`, returns the count.
    (`m_end` is advanced by the caller.) -/
def Buffer.read (b : Buffer) (len : Nat) : Nat × Buffer :=
  let r := b.readCount len
  (r, { b with sched := b.sched.tail, fed := b.fed + r,
               mem := copyIn b.stream b.fed b.endb r b.mem,
               wild := b.wild || decide (b.endb + r > b.mem.size) })

inductive Outcome | done | overflow
  deriving DecidableEq, Repr, Inhabited

/-- The loop of `require`:
    `while( buffer_occupied() < amount ) { r = m_reader( m_end, min( buffer_free_after_end(), max( amount - buffer_occupied(), Chunk ) ) ); if( r == 0 ) break; m_end += r; }`.
    The first argument bounds the number of iterations (`require` passes more than the loop can use). -/
def requireLoop (amount : Nat) : Nat → Buffer → Buffer
  | 0, b => b
  | fuel + 1, b =>
    if b.occupied < amount then
      let rb := b.read (min b.freeAfterEnd (max (amount - b.occupied) b.chunk))
      if rb.1 = 0 then rb.2 else requireLoop amount fuel { rb.2 with endb := rb.2.endb + rb.1 }
    else b

/-- `require( amount )`. -/
def Buffer.require (b : Buffer) (amount : Nat) : Outcome × Buffer :=
  if b.cur.data + amount ≤ b.endb then (.done, b)
  else if b.cur.data + amount > b.maxb then (.overflow, b)   -- `throw std::overflow_error`
  else (.done, requireLoop amount (b.stream.size - b.fed + 1) b)

/-- `size( amount )`: `require( amount ); return buffer_occupied();`. -/
def Buffer.size (b : Buffer) (amount : Nat) : Outcome × Nat × Buffer :=
  let r := b.require amount
  (r.1, r.2.occupied, r.2)

/-- `empty()`: `require( 1 ); return m_current.data == m_end;`. -/
def Buffer.empty (b : Buffer) : Outcome × Bool × Buffer :=
  let r := b.require 1
  (r.1, r.2.cur.data == r.2.endb, r.2)

/-- `end( amount )`: `require( amount ); return m_end;` (as offset into the allocation). -/
def Buffer.endOf (b : Buffer) (amount : Nat) : Outcome × Nat × Buffer :=
  let r := b.require amount
  (r.1, r.2.endb, r.2)

/-- `peek_char( offset )` / `peek_uint8( offset )`: `m_current.data[ offset ]`. -/
def Buffer.peek (b : Buffer) (off : Nat) : UInt8 := b.mem.getD (b.cur.data + off) 0

/-- `internal::bump( iter, count, ch )` reading the allocation. -/
def itBump (mem : Array UInt8) (ch : UInt8) : Nat → It → It
  | 0, it => it
  | n + 1, it =>
    itBump mem ch n
      (if mem.getD it.data 0 = ch then ⟨it.data + 1, it.byte + 1, it.line + 1, 1⟩
       else ⟨it.data + 1, it.byte + 1, it.line, it.col + 1⟩)

/-- `bump( count )`. -/
def Buffer.bump (b : Buffer) (n : Nat) : Buffer := { b with cur := itBump b.mem b.eol.ch n b.cur }
/-- `bump_in_this_line( count )`. -/
def Buffer.bumpInThisLine (b : Buffer) (n : Nat) : Buffer :=
  { b with cur := ⟨b.cur.data + n, b.cur.byte + n, b.cur.line, b.cur.col + n⟩ }
/-- `bump_to_next_line( count )`. -/
def Buffer.bumpToNextLine (b : Buffer) (n : Nat) : Buffer :=
  { b with cur := ⟨b.cur.data + n, b.cur.byte + n, b.cur.line + 1, 1⟩ }

/-- `discard()`:
    `if( m_current.data > m_buffer.get() + Chunk ) { s = m_end - m_current.data; memmove( m_buffer.get(), m_current.data, s ); m_current.data = m_buffer.get(); m_end = m_buffer.get() + s; }`. -/
def Buffer.discard (b : Buffer) : Buffer :=
  if b.cur.data > b.chunk then
    let s := b.endb - b.cur.data
    { b with mem := copyIn b.mem b.cur.data 0 s b.mem,
             base := b.base + b.cur.data,
             cur := { b.cur with data := 0 },
             endb := s,
             wild := b.wild || decide (b.cur.data + s > b.mem.size) }
  else b

/-- `rewind_save()`. -/
def Buffer.save (b : Buffer) : It := b.cur
/-- `rewind_restore( data )`. -/
def Buffer.restore (b : Buffer) (it : It) : Buffer := { b with cur := it }

/-- A saved inputerator still denotes a position of the window: its data pointer has not been
    invalidated by a `discard` that moved the window (its byte counter then no longer matches). -/
def Buffer.Valid (b : Buffer) (it : It) : Prop := b.base + it.data = it.byte ∧ it.data ≤ b.endb

instance (b : Buffer) (it : It) : Decidable (b.Valid it) := by unfold Buffer.Valid; infer_instance

/-! ### Operations as data (driver protocol, invariant closure) -/

inductive Op
  | require (n : Nat) | size (n : Nat) | empty | endOf (n : Nat)
  | bump (n : Nat) | bumpInThisLine (n : Nat) | bumpToNextLine (n : Nat)
  | peek (off : Nat) | discard | restore (it : It)
  deriving DecidableEq, Repr, Inhabited

/-- What the caller sees. -/
inductive Obs
  | unit | overflow | num (n : Nat) | bool (v : Bool) | byte (c : UInt8)
  deriving DecidableEq, Repr, Inhabited

/-- The C++ contract of each call: `bump*` only over bytes made available before, `peek` inside
    the window, `rewind_restore` only with a still valid inputerator. -/
def Op.Legal (b : Buffer) : Op → Prop
  | .bump n | .bumpInThisLine n | .bumpToNextLine n => n ≤ b.occupied
  | .peek off => off < b.occupied
  | .restore it => b.Valid it
  | _ => True

instance (b : Buffer) (op : Op) : Decidable (op.Legal b) := by
  cases op <;> unfold Op.Legal <;> infer_instance

def Buffer.step (b : Buffer) : Op → Obs × Buffer
  | .require n => match b.require n with
    | (.done, b') => (.unit, b')
    | (.overflow, b') => (.overflow, b')
  | .size n => match b.size n with
    | (.done, k, b') => (.num k, b')
    | (.overflow, _, b') => (.overflow, b')
  | .empty => match b.empty with
    | (.done, e, b') => (.bool e, b')
    | (.overflow, _, b') => (.overflow, b')
  | .endOf n => match b.endOf n with
    | (.done, k, b') => (.num k, b')
    | (.overflow, _, b') => (.overflow, b')
  | .bump n => (.unit, b.bump n)
  | .bumpInThisLine n => (.unit, b.bumpInThisLine n)
  | .bumpToNextLine n => (.unit, b.bumpToNextLine n)
  | .peek off => (.byte (b.peek off), b)
  | .discard => (.unit, b.discard)
  | .restore it => (.unit, b.restore it)

/-- A sequence of calls, each within its contract (`none` if one is not). -/
def Buffer.runOps : Buffer → List Op → Option Buffer
  | b, [] => some b
  | b, op :: ops => if op.Legal b then (b.step op).2.runOps ops else none

/-! ### The memory_input view -/

/-- The `memory_input` over the whole stream (Model/Input.lean). -/
def Buffer.memCtx (b : Buffer) : Ctx := { g := #[], inp := b.stream, eol := b.eol }

/-- The state of that memory input at the same logical position. -/
def Buffer.view (b : Buffer) : St :=
  { cur := ⟨b.cur.byte, b.cur.line, b.cur.col⟩, endp := b.stream.size }

/-! ### Atoms over the buffer (each `match( in )` with the amounts it really passes) -/

/-- `bump_help< Rule >( in, n )`. -/
def Buffer.bumpHelp (b : Buffer) (testAny : Bool) (n : Nat) : Buffer :=
  if testAny then b.bump n else b.bumpInThisLine n

/-- `Eol::eol_match( in )` of internal/{lf,cr,crlf,lf_crlf,cr_crlf}_eol.hpp: `(outcome, data, size, in)`. -/
def eolMatchBuf (b : Buffer) : Outcome × Bool × Nat × Buffer :=
  match b.eol with
  | .lf =>
    match b.size 1 with
    | (.overflow, _, b) => (.overflow, false, 0, b)
    | (.done, sz, b) =>
      if sz > 0 then
        if b.peek 0 = 10 then (.done, true, sz, b.bumpToNextLine 1) else (.done, false, sz, b)
      else (.done, false, sz, b)
  | .cr =>
    match b.size 1 with
    | (.overflow, _, b) => (.overflow, false, 0, b)
    | (.done, sz, b) =>
      if sz > 0 then
        if b.peek 0 = 13 then (.done, true, sz, b.bumpToNextLine 1) else (.done, false, sz, b)
      else (.done, false, sz, b)
  | .crlf =>
    match b.size 2 with
    | (.overflow, _, b) => (.overflow, false, 0, b)
    | (.done, sz, b) =>
      if sz > 1 then
        if b.peek 0 = 13 then
          if b.peek 1 = 10 then (.done, true, sz, b.bumpToNextLine 2) else (.done, false, sz, b)
        else (.done, false, sz, b)
      else (.done, false, sz, b)
  | .lfCrlf =>
    match b.size 2 with
    | (.overflow, _, b) => (.overflow, false, 0, b)
    | (.done, sz, b) =>
      if sz > 0 then
        if b.peek 0 = 10 then (.done, true, 1, b.bumpToNextLine 1)
        else if b.peek 0 = 13 && sz > 1 then
          if b.peek 1 = 10 then (.done, true, 2, b.bumpToNextLine 2) else (.done, false, sz, b)
        else (.done, false, sz, b)
      else (.done, false, sz, b)
  | .crCrlf =>
    match b.size 2 with
    | (.overflow, _, b) => (.overflow, false, 0, b)
    | (.done, sz, b) =>
      if sz > 0 then
        if b.peek 0 = 13 then
          if sz > 1 then
            let n := if b.peek 1 = 10 then 2 else 1
            (.done, true, n, b.bumpToNextLine n)
          else (.done, true, 1, b.bumpToNextLine 1)
        else (.done, false, sz, b)
      else (.done, false, sz, b)

/-- `memcmp` / `istring_equal` of the next bytes of the window against a literal. -/
def cmpBuf (b : Buffer) (eq : UInt8 → UInt8 → Bool) (off : Nat) : List UInt8 → Bool
  | [] => true
  | c :: cs => eq c (b.peek off) && cmpBuf b eq (off + 1) cs

/-- `everything`: `while( const Size s = in.size( 1 ) ) { in.bump( s ); } return true;`
    (the first argument bounds the iterations). -/
def everythingLoop : Nat → Buffer → Outcome × Buffer
  | 0, b => (.done, b)
  | fuel + 1, b =>
    match b.size 1 with
    | (.overflow, _, b) => (.overflow, b)
    | (.done, s, b) => if s = 0 then (.done, b) else everythingLoop fuel (b.bump s)

/-- `if( const auto t = Peek::peek( in ) ) if( test_one( t.data ) ) { bump_help< Rule >( in, 1 ); return true; } return false;`
    with `peek_char::peek`: `if( in.empty() ) return { 0, 0 }; return { in.peek_char(), 1 };`. -/
def peekOneBuf (b : Buffer) (testAny : Bool) (test : UInt8 → Bool) : Outcome × Bool × Buffer :=
  match b.empty with
  | (.overflow, _, b) => (.overflow, false, b)
  | (.done, true, b) => (.done, false, b)
  | (.done, false, b) =>
    if test (b.peek 0) then (.done, true, b.bumpHelp testAny 1) else (.done, false, b)

/-- The atoms whose `match( in )` is transcribed over the buffer below: all of Model/Basic's atoms
    except contrib's `maximum_rule`, which reaches the input through the digit loop of contrib/integer.hpp. -/
def _root_.Pegtl.Atom.overBuffer : Atom → Bool
  | .maxDigits _ => false
  | _ => true

/-- `while( ( i < size ) && ( in.peek_char( i ) == C ) ) ++i;` of contrib/rep_one_min_max.hpp: `countBuf b c k i` counts on from offset `i`
    with `k = size - i` bytes left to look at. -/
def countBuf (b : Buffer) (c : UInt8) : Nat → Nat → Nat
  | 0, _ => 0
  | k + 1, i => if b.peek i == c then countBuf b c k (i + 1) + 1 else 0

/-- The first `n` buffered bytes: what `peek_uint8( 0 )` … `peek_uint8( n - 1 )` return. -/
def Buffer.window (b : Buffer) (n : Nat) : List UInt8 := (List.range n).map b.peek

/-- The amount `peek_utf8::peek_impl( in, c0 )` passes to its one `in.size( … )` call (0: none of its three branches). -/
def utfNeed (c0 : Nat) : Nat :=
  if c0 &&& 0xE0 = 0xC0 then 2 else if c0 &&& 0xF0 = 0xE0 then 3 else if c0 &&& 0xF8 = 0xF0 then 4 else 0

/-- `peek_utf8::peek( in )` of internal/peek_utf8.hpp on a buffer input: `in.empty()`, `in.peek_uint8()`, then `peek_impl`
    (Model/Utf.lean) on the bytes that its `in.size( 2 | 3 | 4 )` call left buffered — that call's answer is the length
    `peek_impl` compares with, and may exceed the amount. -/
def peekUtf8Buf (b : Buffer) : Outcome × Option (Nat × Nat) × Buffer :=
  match b.empty with
  | (.overflow, _, b) => (.overflow, none, b)
  | (.done, true, b) => (.done, none, b)
  | (.done, false, b) =>
    let c0 := (b.peek 0).toNat
    if c0 &&& 0x80 = 0 then (.done, some (c0, 1), b)
    else if utfNeed c0 = 0 then (.done, none, b)
    else match b.size (utfNeed c0) with
      | (.overflow, _, b) => (.overflow, none, b)
      | (.done, sz, b) => (.done, Utf.peekUtf8Impl (b.window sz) c0, b)

/-- One atom's `match( in )` on a buffer input: `(outcome, result, in)`. -/
def atomStepBuf (a : Atom) (b : Buffer) : Outcome × Bool × Buffer :=
  match a with
  | .any =>
    match b.empty with
    | (.overflow, _, b) => (.overflow, false, b)
    | (.done, true, b) => (.done, false, b)
    | (.done, false, b) => (.done, true, b.bump 1)
  | .one found cs => peekOneBuf b (a.testAny b.eol.ch) fun c => cs.contains c == found
  | .range found lo hi => peekOneBuf b (a.testAny b.eol.ch) fun c => (lo ≤ c && c ≤ hi) == found
  | .ranges rs single => peekOneBuf b (a.testAny b.eol.ch) fun c => inRanges rs single c
  | .string cs =>
    match b.size cs.length with
    | (.overflow, _, b) => (.overflow, false, b)
    | (.done, sz, b) =>
      if sz ≥ cs.length then
        if cmpBuf b (· == ·) 0 cs then (.done, true, b.bumpHelp (a.testAny b.eol.ch) cs.length)
        else (.done, false, b)
      else (.done, false, b)
  | .istring cs =>
    match b.size cs.length with
    | (.overflow, _, b) => (.overflow, false, b)
    | (.done, sz, b) =>
      if sz ≥ cs.length then
        if cmpBuf b icharEqual 0 cs then (.done, true, b.bumpHelp (a.testAny b.eol.ch) cs.length)
        else (.done, false, b)
      else (.done, false, b)
  | .bytes n =>
    match b.size n with
    | (.overflow, _, b) => (.overflow, false, b)
    | (.done, sz, b) => if sz ≥ n then (.done, true, b.bump n) else (.done, false, b)
  | .eof => match b.empty with
    | (.overflow, _, b) => (.overflow, false, b)
    | (.done, e, b) => (.done, e, b)
  | .bof => (.done, b.cur.byte == 0, b)
  | .bol => (.done, b.cur.col == 1, b)
  | .eol => match eolMatchBuf b with
    | (o, d, _, b) => (o, d, b)
  | .eolf => match eolMatchBuf b with
    | (o, d, sz, b) => (o, d || sz == 0, b)
  | .success => (.done, true, b)
  | .failure => (.done, false, b)
  | .everything => match everythingLoop (b.stream.size - b.logicalPos + 1) b with
    | (o, b) => (o, true, b)
  | .require n => match b.size n with
    | (.overflow, _, b) => (.overflow, false, b)
    | (.done, sz, b) => (.done, sz ≥ n, b)
  | .utf8Range found lo hi =>
    match peekUtf8Buf b with
    | (.overflow, _, b) => (.overflow, false, b)
    | (.done, none, b) => (.done, false, b)
    | (.done, some (cp, n), b) =>
      if decide (lo ≤ cp ∧ cp ≤ hi) == found then (.done, true, b.bumpHelp (a.testAny b.eol.ch) n) else (.done, false, b)
  | .maxDigits _ => (.done, false, b)       -- not transcribed (`Atom.overBuffer` is false)
  | .repOne lo hi c =>
    -- rep_one_min_max< Min, Max, C >: `size = in.size( Max + 1 )`; too few bytes: false; count the leading `C`s among `size`
    -- bytes; accept iff Min <= count <= Max
    match b.size (hi + 1) with
    | (.overflow, _, b) => (.overflow, false, b)
    | (.done, sz, b) =>
      if sz < lo then (.done, false, b)
      else
        let i := countBuf b c sz 0
        if lo ≤ i ∧ i ≤ hi then (.done, true, b.bumpHelp (a.testAny b.eol.ch) i) else (.done, false, b)

end Buf
end Pegtl
