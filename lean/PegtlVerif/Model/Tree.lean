/-
  Model/Tree.lean — contrib/parse_tree.hpp: the node builder of `make_control::state_handler` as a
  stack machine over the event trace, the built-in transformers, and the compile-time
  classification of rules (selected / bookkeeping branch / leaf-optimised).

  A tree is kept as its pre-order list of (depth, node): equality of trees is equality of lists.
-/
import PegtlVerif.Model.Run

namespace Pegtl

/-- The built-in selectors (`parse_tree::store_content`, `remove_content`, `fold_one`, `discard_empty`). -/
inductive Sel | store | removeContent | foldOne | discardEmpty
  deriving DecidableEq, Repr, Inhabited

/-- `state_handler< Rule, is_selected_node, is_leaf >`. -/
inductive Cls
  | sel (s : Sel)    -- selected: a node is created
  | branch           -- not selected, bookkeeping: a dummy node whose children are spliced into the parent
  | leaf             -- not selected, `is_leaf< 8, subs_t >`: no bookkeeping at all
  deriving DecidableEq, Repr, Inhabited

/-- `basic_node`: `type`, `m_begin`, `m_end` (`content = false`: `m_end` was reset by `remove_content`). -/
structure TNode where
  id : Nat
  b : Cursor
  e : Cursor
  content : Bool
  deriving DecidableEq, Repr, Inhabited

/-- Pre-order list of (depth, node). -/
abbrev Forest := List (Nat × TNode)

def Forest.lift (f : Forest) : Forest := f.map fun p => (p.1 + 1, p.2)

/-- `children.size()` -/
def Forest.roots (f : Forest) : Nat := (f.filter fun p => p.1 == 0).length

def mkNode (n : TNode) (kids : Forest) : Forest := (0, n) :: kids.lift

/-- `Selector< Rule >::transform( n )` applied to the finished node `n` with children `kids`; the
    result is what is appended to the parent (`[]`: the node was discarded). -/
def transformNode (s : Sel) (n : TNode) (kids : Forest) : Forest :=
  match s with
  | .store => mkNode n kids
  | .removeContent => mkNode { n with content := false } kids
  | .foldOne => if kids.roots = 1 then kids else mkNode { n with content := false } kids
  | .discardEmpty => if kids.isEmpty then [] else mkNode { n with content := false } kids

/-- One entry of `state< Node >::stack`: where the node's rule started and the children so far. -/
structure TFrame where
  b : Cursor
  kids : Forest
  deriving DecidableEq, Repr, Inhabited

/-- The hooks of `make_control< Node, Selector, Control >::state_handler`, driven by the `enter` / `exit`
    observations of every rule invocation (`start` = entered; `success` / `failure` / `unwind` = left with
    result 1 / 0 / 2). -/
def treeStep (cls : Nat → Cls) (stk : List TFrame) : Ev → Option (List TFrame)
  | .enter i _ _ c _ =>
    match cls i with
    | .leaf => some stk
    | _ => some (⟨c, []⟩ :: stk)                       -- state.emplace_back(); start< Rule >( in )
  | .exit i r c =>
    match cls i with
    | .leaf => some stk
    | .branch =>
      match stk with
      | f :: p :: rest =>
        if r = 1 then some ({ p with kids := p.kids ++ f.kids } :: rest)     -- splice the children into the parent
        else some (p :: rest)                                                -- pop_back()
      | _ => none
    | .sel s =>
      match stk with
      | f :: p :: rest =>
        if r = 1 then some ({ p with kids := p.kids ++ transformNode s ⟨i, f.b, c, true⟩ f.kids } :: rest)
        else some (p :: rest)
      | _ => none
  | _ => some stk

def runTree (cls : Nat → Cls) : List TFrame → List Ev → Option (List TFrame)
  | s, [] => some s
  | s, e :: es => match treeStep cls s e with
    | some s' => runTree cls s' es
    | none => none

/-- `parse_tree::parse`: the root node's children after a successful parse (`none`: no tree). -/
def buildTree (cls : Nat → Cls) (ok : Bool) (raw : List Ev) : Option Forest :=
  if ok then
    match runTree cls [⟨default, []⟩] raw with
    | some [f] => some f.kids
    | _ => none
  else none

/-! ### the compile-time classification -/

/-- The rules a rule's `match()` can invoke: `Rule::subs_t`, plus — for `rep_min_max`, `strict`, `star_strict`, `if_must` — the
    derived hidden rule (`not_at< R >`, `seq< Rs... >`, `must< Rs... >`) through which the remaining `subs_t` entries are
    reached.  `is_leaf` computed over these lists is never less conservative than over `subs_t` (a derived rule costs one
    level), and whether an unselected rule is classified `leaf` or `branch` is not observable in the tree. -/
def subsOf (g : Grammar) (i : Nat) : List Nat :=
  match g[i]? with
  | some nd => nd.kind.calls
  | none => []

/-- `is_selected_node< Rule, Selector >`: only rules visible to the control can be selected. -/
def selOf (g : Grammar) (selMap : Nat → Option Sel) (i : Nat) : Option Sel :=
  match g[i]? with
  | some nd => if nd.ctl then selMap i else none
  | none => none

/-- `is_leaf< Level, subs_t, Selector >`. -/
def isLeaf (g : Grammar) (selMap : Nat → Option Sel) : Nat → List Nat → Bool
  | 0, subs => subs.isEmpty
  | l + 1, subs => subs.all fun j => (selOf g selMap j).isNone && isLeaf g selMap l (subsOf g j)

def clsOf (g : Grammar) (selMap : Nat → Option Sel) (i : Nat) : Cls :=
  match selOf g selMap i with
  | some s => .sel s
  | none => if isLeaf g selMap 8 (subsOf g i) then .leaf else .branch

end Pegtl
