/-
  Model/AsciiClasses.lean — the single-unit rules `any`, `one`, `not_one`, `range`, `not_range`,
  `ranges` over an arbitrary `Peek` class, and the shape of the ASCII / ABNF class table.

  Mirrors internal/any.hpp, internal/one.hpp, internal/range.hpp, internal/ranges.hpp
  (`test_one` and `match`), and the `Peek` template parameter used by ascii.hpp, utf8.hpp,
  contrib/utf16.hpp, utf32.hpp, uint8/16/32/64.hpp, abnf.hpp; internal/istring.hpp `match`.
  Core Lean only.
-/
import PegtlVerif.Model.Utf
import PegtlVerif.Model.Input   -- `icharEqual` (internal/istring.hpp `ichar_equal`)

namespace Pegtl.Utf

/-- The `Peek` template argument. -/
inductive Peek
  | char                                              -- internal::peek_char
  | uint8                                             -- internal::peek_uint8
  | maskUint8 (m : Nat)                               -- internal::peek_mask_uint8< M >
  | uint (w : Nat) (e : Endian)                       -- internal::peek_uint{16,32,64}_{be,le}
  | maskUint (w : Nat) (e : Endian) (m : Nat)         -- internal::peek_mask_uint{16,32,64}_{be,le}< M >
  | utf8                                              -- internal::peek_utf8
  | utf16 (e : Endian)                                -- internal::peek_utf16_{be,le}
  | utf32 (e : Endian)                                -- internal::peek_utf32_{be,le}
  deriving DecidableEq, Repr, Inhabited

def liftNat (o : Option (Nat × Nat)) : Option (Int × Nat) := o.map (fun p => ((p.1 : Int), p.2))

/-- `Peek::peek( in )` as `{ data, size }`; `data_t` values as integers (`char` is signed). -/
def Peek.peek : Peek → List UInt8 → Option (Int × Nat)
  | .char, bs => peekChar bs
  | .uint8, bs => liftNat (peekUint8 none bs)
  | .maskUint8 m, bs => liftNat (peekUint8 (some m) bs)
  | .uint w e, bs => liftNat (peekUintN w e none bs)
  | .maskUint w e m, bs => liftNat (peekUintN w e (some m) bs)
  | .utf8, bs => liftNat (peekUtf8 bs)
  | .utf16 e, bs => liftNat (peekUtf16 e bs)
  | .utf32 e, bs => liftNat (peekUtf32 e bs)

/-- A rule that matches one unit.  `found` is `result_on_found` (`true` = `success`).
    Template arguments `Cs…`, `Lo`, `Hi` are `data_t` values. -/
inductive UnitRule
  | any (p : Peek)                                        -- internal::any< Peek >
  | one (found : Bool) (p : Peek) (cs : List Int)         -- internal::one< R, Peek, Cs... >
  | range (found : Bool) (p : Peek) (lo hi : Int)         -- internal::range< R, Peek, Lo, Hi >
  | ranges (p : Peek) (cs : List Int)                     -- internal::ranges< Peek, Cs... >
  deriving DecidableEq, Repr, Inhabited

def UnitRule.peekOf : UnitRule → Peek
  | .any p => p | .one _ p _ => p | .range _ p _ _ => p | .ranges p _ => p

/-- `ranges::test_impl`: `( validate_range< cs[2i], cs[2i+1] >( c ) || ... )` over the
    `sizeof...( Cs ) / 2` pairs, `|| ( c == cs[ last ] )` when the count is odd. -/
def rangesTest : List Int → Int → Bool
  | lo :: hi :: rest, c => (decide (lo ≤ c) && decide (c ≤ hi)) || rangesTest rest c
  | [x], c => c == x
  | [], _ => false

/-- `Rule::test_one( c )`.
    The partial specialisations `one< success, Peek >` = `failure`, `one< failure, Peek >` =
    `any< Peek >`, `range< R, Peek, C, C >` = `one< R, Peek, C >`, `ranges< Peek, Lo, Hi >` =
    `range< success, … >`, `ranges< Peek, C >` = `one< success, Peek, C >`, `ranges< Peek >` =
    `failure` compute the same value as the general bodies transcribed here. -/
def UnitRule.testOne : UnitRule → Int → Bool
  | .any _, _ => true
  | .one found _ cs, c => (cs.any (fun x => c == x)) == found          -- ( ( c == Cs ) || ... ) == R
  | .range found _ lo hi, c => (decide (lo ≤ c) && decide (c ≤ hi)) == found
  | .ranges _ cs, c => rangesTest cs c

/-- `Rule::match( in )`: `some n` = returned `true` after `bump_help( in, t.size )` /
    `in.bump( t.size )` consumed `n` bytes; `none` = returned `false`, nothing consumed.
    (`any< peek_char >` is written `if( !in.empty() ) { in.bump(); return true; }` — same.) -/
def matchUnit (r : UnitRule) (bs : List UInt8) : Option Nat :=
  match r.peekOf.peek bs with
  | none => none
  | some (v, n) => if r.testOne v then some n else none

/-- Bytes consumed by a `match` result. -/
def consumed (o : Option Nat) : Nat := o.getD 0

/-- `istring_equal< Cs... >( r )`: `( ichar_equal< Cs >( *r++ ) && ... )` (internal/istring.hpp);
    the caller has checked the size. -/
def istringEqual : List UInt8 → List UInt8 → Bool
  | [], _ => true
  | C :: cs, bs => icharEqual C (bs.headD 0) && istringEqual cs bs.tail

/-- `istring< Cs... >::match( in )` (`istring<>` is `success`: consumes 0 bytes). -/
def matchIstring (cs : List UInt8) (bs : List UInt8) : Option Nat :=
  if bs.length ≥ cs.length then
    if istringEqual cs bs then some cs.length else none
  else none

/-- One row of the class table translated from ascii.hpp / abnf.hpp. -/
abbrev ClassTable := List (String × UnitRule)

end Pegtl.Utf
