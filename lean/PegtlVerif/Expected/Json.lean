/-
  Expected/Json.lean — the node table of include/tao/pegtl/contrib/json.hpp (+ the rule the C14 harness
  parses, `top = seq< json::text, eof >`): the committed copy the C14 theorems are about.  The check
  re-translates the header into Gen/Json.lean and proves `Gen.json = Expected.json` (Audit/C14Sync.lean).
-/
import PegtlVerif.Model.Basic

namespace Pegtl.Expected

/-- The node table of contrib/json.hpp: entry `i` is the `match()` body of rule `i`; the comment gives the C++ type. -/
def json : Grammar := #[
  ⟨true, {}, .atom (.one true [32, 9, 10, 13])⟩,   -- 0 ws
  ⟨true, {}, .seq [37, 38]⟩,   -- 1 begin_array
  ⟨true, {}, .seq [39, 38]⟩,   -- 2 begin_object
  ⟨true, {}, .atom (.one true [93])⟩,   -- 3 end_array
  ⟨true, {}, .atom (.one true [125])⟩,   -- 4 end_object
  ⟨true, {}, .seq [40, 41, 40]⟩,   -- 5 name_separator
  ⟨true, {}, .seq [42, 38]⟩,   -- 6 value_separator
  ⟨true, {}, .atom (.string [102, 97, 108, 115, 101])⟩,   -- 7 false_
  ⟨true, {}, .atom (.string [110, 117, 108, 108])⟩,   -- 8 null
  ⟨true, {}, .atom (.string [116, 114, 117, 101])⟩,   -- 9 true_
  ⟨true, {}, .plus 43⟩,   -- 10 digits
  ⟨true, {}, .seq [44, 45, 10]⟩,   -- 11 exp
  ⟨true, {}, .seq [47, 10]⟩,   -- 12 frac
  ⟨true, {}, .sor [48, 49]⟩,   -- 13 int_
  ⟨true, {}, .seq [50, 13, 52, 53]⟩,   -- 14 number
  ⟨true, {}, .atom (.ranges [(48, 57), (97, 102), (65, 70)] none)⟩,   -- 15 xdigit
  ⟨true, {}, .seq [54, 57]⟩,   -- 16 unicode
  ⟨true, {}, .atom (.one true [34, 92, 47, 98, 102, 110, 114, 116])⟩,   -- 17 escaped_char
  ⟨true, {}, .sor [17, 16]⟩,   -- 18 escaped
  ⟨true, {}, .atom (.utf8Range true 32 1114111)⟩,   -- 19 unescaped
  ⟨true, {}, .ifThenElse 59 18 19⟩,   -- 20 char_
  ⟨true, {}, .until2 60 20⟩,   -- 21 string_content
  ⟨true, {}, .seq [61, 21, 62]⟩,   -- 22 string
  ⟨true, {}, .until2 60 20⟩,   -- 23 key_content
  ⟨true, {}, .seq [61, 23, 62]⟩,   -- 24 key
  ⟨true, {}, .sor [22, 14, 34, 29, 7, 9, 8]⟩,   -- 25 value
  ⟨true, {}, .seq [25, 38]⟩,   -- 26 array_element
  ⟨true, {}, .seq [26]⟩,   -- 27 next_array_element
  ⟨true, {}, .partialR [63]⟩,   -- 28 array_content
  ⟨true, {}, .seq [1, 28, 3]⟩,   -- 29 array
  ⟨true, {}, .seq [25, 38]⟩,   -- 30 member_value
  ⟨true, {}, .seq [24, 5, 30]⟩,   -- 31 member
  ⟨true, {}, .seq [31]⟩,   -- 32 next_member
  ⟨true, {}, .partialR [66]⟩,   -- 33 object_content
  ⟨true, {}, .seq [2, 33, 4]⟩,   -- 34 object
  ⟨true, {}, .seq [40, 25, 40]⟩,   -- 35 text
  ⟨true, {}, .seq [35, 69]⟩,   -- 36 top
  ⟨true, {}, .atom (.one true [91])⟩,   -- 37 one< char(91) >
  ⟨true, {}, .starPartial [0]⟩,   -- 38 star< ws >
  ⟨true, {}, .atom (.one true [123])⟩,   -- 39 one< char(123) >
  ⟨false, {}, .starPartial [0]⟩,   -- 40 internal::star< ws >
  ⟨true, {}, .atom (.one true [58])⟩,   -- 41 one< char(58) >
  ⟨true, {}, .atom (.one true [44])⟩,   -- 42 one< char(44) >
  ⟨true, {}, .atom (.range true 48 57)⟩,   -- 43 digit
  ⟨true, {}, .atom (.one true [101, 69])⟩,   -- 44 one< char(101), char(69) >
  ⟨true, {}, .partialR [46]⟩,   -- 45 opt< one< char(45), char(43) > >
  ⟨true, {}, .atom (.one true [45, 43])⟩,   -- 46 one< char(45), char(43) >
  ⟨true, {}, .atom (.one true [46])⟩,   -- 47 one< char(46) >
  ⟨true, {}, .atom (.one true [48])⟩,   -- 48 one< char(48) >
  ⟨true, {}, .plus 43⟩,   -- 49 plus< digit >
  ⟨true, {}, .partialR [51]⟩,   -- 50 opt< one< char(45) > >
  ⟨true, {}, .atom (.one true [45])⟩,   -- 51 one< char(45) >
  ⟨true, {}, .partialR [12]⟩,   -- 52 opt< frac >
  ⟨true, {}, .partialR [11]⟩,   -- 53 opt< exp >
  ⟨true, {}, .seq [55, 56]⟩,   -- 54 seq< one< char(117) >, rep< 4, xdigit > >
  ⟨true, {}, .atom (.one true [117])⟩,   -- 55 one< char(117) >
  ⟨true, {}, .rep 4 15⟩,   -- 56 rep< 4, xdigit >
  ⟨false, {}, .starPartial [58]⟩,   -- 57 internal::star< one< char(92) >, seq< one< char(117) >, rep< 4, xdigit > > >
  ⟨false, {}, .seq [59, 54]⟩,   -- 58 internal::seq< one< char(92) >, seq< one< char(117) >, rep< 4, xdigit > > >
  ⟨true, {}, .atom (.one true [92])⟩,   -- 59 one< char(92) >
  ⟨true, {}, .atR 61⟩,   -- 60 at< one< char(34) > >
  ⟨true, {}, .atom (.one true [34])⟩,   -- 61 one< char(34) >
  ⟨true, {}, .atom .any⟩,   -- 62 any
  ⟨false, {}, .seq [26, 64]⟩,   -- 63 internal::seq< array_element, star< value_separator, next_array_element > >
  ⟨true, {}, .starPartial [65]⟩,   -- 64 star< value_separator, next_array_element >
  ⟨false, {}, .seq [6, 27]⟩,   -- 65 internal::seq< value_separator, next_array_element >
  ⟨false, {}, .seq [31, 67]⟩,   -- 66 internal::seq< member, star< value_separator, next_member > >
  ⟨true, {}, .starPartial [68]⟩,   -- 67 star< value_separator, next_member >
  ⟨false, {}, .seq [6, 32]⟩,   -- 68 internal::seq< value_separator, next_member >
  ⟨true, {}, .atom .eof⟩   -- 69 eof
]

/-- Named rules of contrib/json.hpp and their node ids. -/
def jsonNames : List (String × Nat) := [
  ("ws", 0),
  ("begin_array", 1),
  ("begin_object", 2),
  ("end_array", 3),
  ("end_object", 4),
  ("name_separator", 5),
  ("value_separator", 6),
  ("false_", 7),
  ("null", 8),
  ("true_", 9),
  ("digits", 10),
  ("exp", 11),
  ("frac", 12),
  ("int_", 13),
  ("number", 14),
  ("xdigit", 15),
  ("unicode", 16),
  ("escaped_char", 17),
  ("escaped", 18),
  ("unescaped", 19),
  ("char_", 20),
  ("string_content", 21),
  ("string", 22),
  ("key_content", 23),
  ("key", 24),
  ("value", 25),
  ("array_element", 26),
  ("next_array_element", 27),
  ("array_content", 28),
  ("array", 29),
  ("member_value", 30),
  ("member", 31),
  ("next_member", 32),
  ("object_content", 33),
  ("object", 34),
  ("text", 35),
  ("top", 36)
]

namespace JsonId
abbrev ws : Nat := 0
abbrev begin_array : Nat := 1
abbrev begin_object : Nat := 2
abbrev end_array : Nat := 3
abbrev end_object : Nat := 4
abbrev name_separator : Nat := 5
abbrev value_separator : Nat := 6
abbrev false_ : Nat := 7
abbrev null : Nat := 8
abbrev true_ : Nat := 9
abbrev digits : Nat := 10
abbrev exp : Nat := 11
abbrev frac : Nat := 12
abbrev int_ : Nat := 13
abbrev number : Nat := 14
abbrev xdigit : Nat := 15
abbrev unicode : Nat := 16
abbrev escaped_char : Nat := 17
abbrev escaped : Nat := 18
abbrev unescaped : Nat := 19
abbrev char_ : Nat := 20
abbrev string_content : Nat := 21
abbrev string : Nat := 22
abbrev key_content : Nat := 23
abbrev key : Nat := 24
abbrev value : Nat := 25
abbrev array_element : Nat := 26
abbrev next_array_element : Nat := 27
abbrev array_content : Nat := 28
abbrev array : Nat := 29
abbrev member_value : Nat := 30
abbrev member : Nat := 31
abbrev next_member : Nat := 32
abbrev object_content : Nat := 33
abbrev object : Nat := 34
abbrev text : Nat := 35
abbrev top : Nat := 36
end JsonId

end Pegtl.Expected
