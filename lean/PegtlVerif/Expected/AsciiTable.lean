/-
  Expected/AsciiTable.lean — the single-character classes of ascii.hpp and contrib/abnf.hpp
  (and internal/identifier.hpp): the committed copy the C10 theorems are about.  The check
  re-translates the headers into Gen/AsciiTable.lean and proves `Gen = Expected` (Audit/C10Sync.lean).
-/
import PegtlVerif.Model.AsciiClasses

namespace Pegtl.Expected
open Pegtl.Utf

/-- `struct <name> : internal::<rule>< … > {};` for every class that matches one `char`. -/
def asciiTable : ClassTable := [
  ("alnum", .ranges .char [97, 122, 65, 90, 48, 57]),
  ("alpha", .ranges .char [97, 122, 65, 90]),
  ("any", .any .char),
  ("blank", .one true .char [32, 9]),
  ("digit", .range true .char 48 57),
  ("identifier_first", .ranges .char [97, 122, 65, 90, 95]),
  ("identifier_other", .ranges .char [97, 122, 65, 90, 48, 57, 95]),
  ("lower", .range true .char 97 122),
  ("nul", .one true .char [0]),
  ("odigit", .range true .char 48 55),
  ("print", .range true .char 32 126),
  ("seven", .range true .char 0 127),
  ("space", .one true .char [32, 10, 13, 9, 11, 12]),
  ("upper", .range true .char 65 90),
  ("xdigit", .ranges .char [48, 57, 97, 102, 65, 70]),
  ("abnf.ALPHA", .ranges .char [97, 122, 65, 90]),
  ("abnf.BIT", .one true .char [48, 49]),
  ("abnf.CHAR", .range true .char 1 127),
  ("abnf.CR", .one true .char [13]),
  ("abnf.CTL", .ranges .char [0, 31, 127]),
  ("abnf.DIGIT", .range true .char 48 57),
  ("abnf.DQUOTE", .one true .char [34]),
  ("abnf.HEXDIG", .ranges .char [48, 57, 97, 102, 65, 70]),
  ("abnf.HTAB", .one true .char [9]),
  ("abnf.LF", .one true .char [10]),
  ("abnf.OCTET", .any .char),
  ("abnf.SP", .one true .char [32]),
  ("abnf.VCHAR", .range true .char 33 126),
  ("abnf.WSP", .one true .char [32, 9])
]

/-- Every other struct declared in the two headers (multi-character or templated rules). -/
def asciiOther : List String := ["ellipsis", "forty_two", "identifier", "istring", "keyword", "not_one", "not_range", "one", "range", "ranges", "shebang", "string", "three", "two", "abnf.CRLF", "abnf.LWSP"]

end Pegtl.Expected
