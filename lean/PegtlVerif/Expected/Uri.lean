/-
  Expected/Uri.lean — the node table of include/tao/pegtl/contrib/uri.hpp (and the contrib/abnf.hpp rules
  it uses), one node per distinct C++ type, plus the five roots `seq< uri::X, eof >`;
  translated by vlib/c20_translate.py (struct/using declarations -> vlib/gram.py resolver).
  Committed copy the C20 theorems are stated about; every run re-translates the headers into
  Gen/Uri.lean and proves `Gen.uri = Expected.uri` (Audit/C20Sync.lean).
-/
import PegtlVerif.Model.Basic

namespace Pegtl.Expected
open Pegtl

def uri : Grammar := #[
  /-   0 -/ ⟨true, {}, .atom (.ranges [(97, 122), (65, 90)] none)⟩,   -- abnf::ALPHA
  /-   1 -/ ⟨true, {}, .atom (.range true 48 57)⟩,   -- abnf::DIGIT
  /-   2 -/ ⟨true, {}, .atom (.ranges [(48, 57), (97, 102), (65, 70)] none)⟩,   -- abnf::HEXDIG
  /-   3 -/ ⟨true, {}, .atom (.maxDigits 255)⟩,   -- uri::dec_octet
  /-   4 -/ ⟨true, {}, .seq [3, 41, 3, 41, 3, 41, 3]⟩,   -- uri::IPv4address
  /-   5 -/ ⟨true, {}, .repMinMax 1 4 2 42⟩,   -- uri::h16
  /-   6 -/ ⟨true, {}, .sor [43, 4]⟩,   -- uri::ls32
  /-   7 -/ ⟨true, {}, .atom (.string [58, 58])⟩,   -- uri::dcolon
  /-   8 -/ ⟨true, {}, .sor [45, 48, 50, 53, 59, 64, 68, 72, 76]⟩,   -- uri::IPv6address
  /-   9 -/ ⟨true, {}, .atom (.one true [58, 47, 63, 35, 91, 93, 64])⟩,   -- uri::gen_delims
  /-  10 -/ ⟨true, {}, .atom (.one true [33, 36, 38, 39, 40, 41, 42, 43, 44, 59, 61])⟩,   -- uri::sub_delims
  /-  11 -/ ⟨true, {}, .sor [0, 1, 80]⟩,   -- uri::unreserved
  /-  12 -/ ⟨true, {}, .sor [9, 10]⟩,   -- uri::reserved
  /-  13 -/ ⟨true, {}, .ifMust false 81 82⟩,   -- uri::IPvFuture
  /-  14 -/ ⟨true, {}, .ifMust false 89 90⟩,   -- uri::IP_literal
  /-  15 -/ ⟨true, {}, .ifMust false 95 96⟩,   -- uri::pct_encoded
  /-  16 -/ ⟨true, {}, .sor [11, 15, 10, 98]⟩,   -- uri::pchar
  /-  17 -/ ⟨true, {}, .starPartial [99]⟩,   -- uri::query
  /-  18 -/ ⟨true, {}, .starPartial [99]⟩,   -- uri::fragment
  /-  19 -/ ⟨true, {}, .starPartial [16]⟩,   -- uri::segment
  /-  20 -/ ⟨true, {}, .plus 16⟩,   -- uri::segment_nz
  /-  21 -/ ⟨true, {}, .plus 101⟩,   -- uri::segment_nz_nc
  /-  22 -/ ⟨true, {}, .starPartial [103]⟩,   -- uri::path_abempty
  /-  23 -/ ⟨true, {}, .seq [104, 105]⟩,   -- uri::path_absolute
  /-  24 -/ ⟨true, {}, .seq [21, 107]⟩,   -- uri::path_noscheme
  /-  25 -/ ⟨true, {}, .seq [20, 107]⟩,   -- uri::path_rootless
  /-  26 -/ ⟨true, {}, .atom (.success)⟩,   -- uri::path_empty
  /-  27 -/ ⟨true, {}, .sor [24, 25, 23, 22]⟩,   -- uri::path
  /-  28 -/ ⟨true, {}, .starPartial [108]⟩,   -- uri::reg_name
  /-  29 -/ ⟨true, {}, .starPartial [1]⟩,   -- uri::port
  /-  30 -/ ⟨true, {}, .sor [14, 4, 28]⟩,   -- uri::host
  /-  31 -/ ⟨true, {}, .starPartial [109]⟩,   -- uri::userinfo
  /-  32 -/ ⟨true, {}, .partialR [110]⟩,   -- uri::opt_userinfo
  /-  33 -/ ⟨true, {}, .seq [32, 30, 111]⟩,   -- uri::authority
  /-  34 -/ ⟨true, {}, .seq [0, 113]⟩,   -- uri::scheme
  /-  35 -/ ⟨true, {}, .sor [116, 25, 23, 26]⟩,   -- uri::hier_part
  /-  36 -/ ⟨true, {}, .sor [116, 24, 23, 26]⟩,   -- uri::relative_part
  /-  37 -/ ⟨true, {}, .seq [36, 121, 124]⟩,   -- uri::relative_ref
  /-  38 -/ ⟨true, {}, .seq [34, 44, 35, 121, 124]⟩,   -- uri::URI
  /-  39 -/ ⟨true, {}, .sor [38, 37]⟩,   -- uri::URI_reference
  /-  40 -/ ⟨true, {}, .seq [34, 44, 35, 121]⟩,   -- uri::absolute_URI
  /-  41 -/ ⟨true, {}, .atom (.one true [46])⟩,   -- one< char(46) >
  /-  42 -/ ⟨false, {}, .notAt 2⟩,   -- internal::not_at< abnf::HEXDIG >
  /-  43 -/ ⟨true, {}, .seq [5, 44, 5]⟩,   -- seq< uri::h16, one< char(58) >, uri::h16 >
  /-  44 -/ ⟨true, {}, .atom (.one true [58])⟩,   -- one< char(58) >
  /-  45 -/ ⟨true, {}, .seq [46, 6]⟩,   -- seq< rep< 6, uri::h16, one< char(58) > >, uri::ls32 >
  /-  46 -/ ⟨true, {}, .rep 6 47⟩,   -- rep< 6, uri::h16, one< char(58) > >
  /-  47 -/ ⟨false, {}, .seq [5, 44]⟩,   -- internal::seq< uri::h16, one< char(58) > >
  /-  48 -/ ⟨true, {}, .seq [7, 49, 6]⟩,   -- seq< uri::dcolon, rep< 5, uri::h16, one< char(58) > >, uri::ls32 >
  /-  49 -/ ⟨true, {}, .rep 5 47⟩,   -- rep< 5, uri::h16, one< char(58) > >
  /-  50 -/ ⟨true, {}, .seq [51, 7, 52, 6]⟩,   -- seq< opt< uri::h16 >, uri::dcolon, rep< 4, uri::h16, one< char(58) > >, uri::ls32 >
  /-  51 -/ ⟨true, {}, .partialR [5]⟩,   -- opt< uri::h16 >
  /-  52 -/ ⟨true, {}, .rep 4 47⟩,   -- rep< 4, uri::h16, one< char(58) > >
  /-  53 -/ ⟨true, {}, .seq [54, 7, 58, 6]⟩,   -- seq< opt< uri::h16, opt< one< char(58) >, uri::h16 > >, uri::dcolon, rep< 3, uri::h16, one< char(58) > >, uri::ls32 >
  /-  54 -/ ⟨true, {}, .partialR [55]⟩,   -- opt< uri::h16, opt< one< char(58) >, uri::h16 > >
  /-  55 -/ ⟨false, {}, .seq [5, 56]⟩,   -- internal::seq< uri::h16, opt< one< char(58) >, uri::h16 > >
  /-  56 -/ ⟨true, {}, .partialR [57]⟩,   -- opt< one< char(58) >, uri::h16 >
  /-  57 -/ ⟨false, {}, .seq [44, 5]⟩,   -- internal::seq< one< char(58) >, uri::h16 >
  /-  58 -/ ⟨true, {}, .rep 3 47⟩,   -- rep< 3, uri::h16, one< char(58) > >
  /-  59 -/ ⟨true, {}, .seq [60, 7, 63, 6]⟩,   -- seq< opt< uri::h16, rep_opt< 2, one< char(58) >, uri::h16 > >, uri::dcolon, rep< 2, uri::h16, one< char(58) > >, uri::ls32 >
  /-  60 -/ ⟨true, {}, .partialR [61]⟩,   -- opt< uri::h16, rep_opt< 2, one< char(58) >, uri::h16 > >
  /-  61 -/ ⟨false, {}, .seq [5, 62]⟩,   -- internal::seq< uri::h16, rep_opt< 2, one< char(58) >, uri::h16 > >
  /-  62 -/ ⟨true, {}, .repOpt 2 57⟩,   -- rep_opt< 2, one< char(58) >, uri::h16 >
  /-  63 -/ ⟨true, {}, .rep 2 47⟩,   -- rep< 2, uri::h16, one< char(58) > >
  /-  64 -/ ⟨true, {}, .seq [65, 7, 5, 44, 6]⟩,   -- seq< opt< uri::h16, rep_opt< 3, one< char(58) >, uri::h16 > >, uri::dcolon, uri::h16, one< char(58) >, uri::ls32 >
  /-  65 -/ ⟨true, {}, .partialR [66]⟩,   -- opt< uri::h16, rep_opt< 3, one< char(58) >, uri::h16 > >
  /-  66 -/ ⟨false, {}, .seq [5, 67]⟩,   -- internal::seq< uri::h16, rep_opt< 3, one< char(58) >, uri::h16 > >
  /-  67 -/ ⟨true, {}, .repOpt 3 57⟩,   -- rep_opt< 3, one< char(58) >, uri::h16 >
  /-  68 -/ ⟨true, {}, .seq [69, 7, 6]⟩,   -- seq< opt< uri::h16, rep_opt< 4, one< char(58) >, uri::h16 > >, uri::dcolon, uri::ls32 >
  /-  69 -/ ⟨true, {}, .partialR [70]⟩,   -- opt< uri::h16, rep_opt< 4, one< char(58) >, uri::h16 > >
  /-  70 -/ ⟨false, {}, .seq [5, 71]⟩,   -- internal::seq< uri::h16, rep_opt< 4, one< char(58) >, uri::h16 > >
  /-  71 -/ ⟨true, {}, .repOpt 4 57⟩,   -- rep_opt< 4, one< char(58) >, uri::h16 >
  /-  72 -/ ⟨true, {}, .seq [73, 7, 5]⟩,   -- seq< opt< uri::h16, rep_opt< 5, one< char(58) >, uri::h16 > >, uri::dcolon, uri::h16 >
  /-  73 -/ ⟨true, {}, .partialR [74]⟩,   -- opt< uri::h16, rep_opt< 5, one< char(58) >, uri::h16 > >
  /-  74 -/ ⟨false, {}, .seq [5, 75]⟩,   -- internal::seq< uri::h16, rep_opt< 5, one< char(58) >, uri::h16 > >
  /-  75 -/ ⟨true, {}, .repOpt 5 57⟩,   -- rep_opt< 5, one< char(58) >, uri::h16 >
  /-  76 -/ ⟨true, {}, .seq [77, 7]⟩,   -- seq< opt< uri::h16, rep_opt< 6, one< char(58) >, uri::h16 > >, uri::dcolon >
  /-  77 -/ ⟨true, {}, .partialR [78]⟩,   -- opt< uri::h16, rep_opt< 6, one< char(58) >, uri::h16 > >
  /-  78 -/ ⟨false, {}, .seq [5, 79]⟩,   -- internal::seq< uri::h16, rep_opt< 6, one< char(58) >, uri::h16 > >
  /-  79 -/ ⟨true, {}, .repOpt 6 57⟩,   -- rep_opt< 6, one< char(58) >, uri::h16 >
  /-  80 -/ ⟨true, {}, .atom (.one true [45, 46, 95, 126])⟩,   -- one< char(45), char(46), char(95), char(126) >
  /-  81 -/ ⟨true, {}, .atom (.one true [118, 86])⟩,   -- one< char(118), char(86) >
  /-  82 -/ ⟨false, {}, .seq [83, 85, 86]⟩,   -- internal::must< plus< abnf::HEXDIG >, one< char(46) >, plus< sor< uri::unreserved, uri::sub_delims, one< char(58) > > > >
  /-  83 -/ ⟨false, {}, .must 84⟩,   -- internal::must< plus< abnf::HEXDIG > >
  /-  84 -/ ⟨true, {}, .plus 2⟩,   -- plus< abnf::HEXDIG >
  /-  85 -/ ⟨false, {}, .must 41⟩,   -- internal::must< one< char(46) > >
  /-  86 -/ ⟨false, {}, .must 87⟩,   -- internal::must< plus< sor< uri::unreserved, uri::sub_delims, one< char(58) > > > >
  /-  87 -/ ⟨true, {}, .plus 88⟩,   -- plus< sor< uri::unreserved, uri::sub_delims, one< char(58) > > >
  /-  88 -/ ⟨true, {}, .sor [11, 10, 44]⟩,   -- sor< uri::unreserved, uri::sub_delims, one< char(58) > >
  /-  89 -/ ⟨true, {}, .atom (.one true [91])⟩,   -- one< char(91) >
  /-  90 -/ ⟨false, {}, .seq [91, 93]⟩,   -- internal::must< sor< uri::IPvFuture, uri::IPv6address >, one< char(93) > >
  /-  91 -/ ⟨false, {}, .must 92⟩,   -- internal::must< sor< uri::IPvFuture, uri::IPv6address > >
  /-  92 -/ ⟨true, {}, .sor [13, 8]⟩,   -- sor< uri::IPvFuture, uri::IPv6address >
  /-  93 -/ ⟨false, {}, .must 94⟩,   -- internal::must< one< char(93) > >
  /-  94 -/ ⟨true, {}, .atom (.one true [93])⟩,   -- one< char(93) >
  /-  95 -/ ⟨true, {}, .atom (.one true [37])⟩,   -- one< char(37) >
  /-  96 -/ ⟨false, {}, .seq [97, 97]⟩,   -- internal::must< abnf::HEXDIG, abnf::HEXDIG >
  /-  97 -/ ⟨false, {}, .must 2⟩,   -- internal::must< abnf::HEXDIG >
  /-  98 -/ ⟨true, {}, .atom (.one true [58, 64])⟩,   -- one< char(58), char(64) >
  /-  99 -/ ⟨true, {}, .sor [16, 100]⟩,   -- sor< uri::pchar, one< char(47), char(63) > >
  /- 100 -/ ⟨true, {}, .atom (.one true [47, 63])⟩,   -- one< char(47), char(63) >
  /- 101 -/ ⟨true, {}, .sor [11, 15, 10, 102]⟩,   -- sor< uri::unreserved, uri::pct_encoded, uri::sub_delims, one< char(64) > >
  /- 102 -/ ⟨true, {}, .atom (.one true [64])⟩,   -- one< char(64) >
  /- 103 -/ ⟨false, {}, .seq [104, 19]⟩,   -- internal::seq< one< char(47) >, uri::segment >
  /- 104 -/ ⟨true, {}, .atom (.one true [47])⟩,   -- one< char(47) >
  /- 105 -/ ⟨true, {}, .partialR [106]⟩,   -- opt< uri::segment_nz, star< one< char(47) >, uri::segment > >
  /- 106 -/ ⟨false, {}, .seq [20, 107]⟩,   -- internal::seq< uri::segment_nz, star< one< char(47) >, uri::segment > >
  /- 107 -/ ⟨true, {}, .starPartial [103]⟩,   -- star< one< char(47) >, uri::segment >
  /- 108 -/ ⟨true, {}, .sor [11, 15, 10]⟩,   -- sor< uri::unreserved, uri::pct_encoded, uri::sub_delims >
  /- 109 -/ ⟨true, {}, .sor [11, 15, 10, 44]⟩,   -- sor< uri::unreserved, uri::pct_encoded, uri::sub_delims, one< char(58) > >
  /- 110 -/ ⟨false, {}, .seq [31, 102]⟩,   -- internal::seq< uri::userinfo, one< char(64) > >
  /- 111 -/ ⟨true, {}, .partialR [112]⟩,   -- opt< one< char(58) >, uri::port >
  /- 112 -/ ⟨false, {}, .seq [44, 29]⟩,   -- internal::seq< one< char(58) >, uri::port >
  /- 113 -/ ⟨true, {}, .starPartial [114]⟩,   -- star< sor< abnf::ALPHA, abnf::DIGIT, one< char(43), char(45), char(46) > > >
  /- 114 -/ ⟨true, {}, .sor [0, 1, 115]⟩,   -- sor< abnf::ALPHA, abnf::DIGIT, one< char(43), char(45), char(46) > >
  /- 115 -/ ⟨true, {}, .atom (.one true [43, 45, 46])⟩,   -- one< char(43), char(45), char(46) >
  /- 116 -/ ⟨true, {}, .ifMust false 117 118⟩,   -- if_must< two< char(47) >, uri::authority, uri::path_abempty >
  /- 117 -/ ⟨true, {}, .atom (.string [47, 47])⟩,   -- two< char(47) >
  /- 118 -/ ⟨false, {}, .seq [119, 120]⟩,   -- internal::must< uri::authority, uri::path_abempty >
  /- 119 -/ ⟨false, {}, .must 33⟩,   -- internal::must< uri::authority >
  /- 120 -/ ⟨false, {}, .must 22⟩,   -- internal::must< uri::path_abempty >
  /- 121 -/ ⟨true, {}, .ifMust true 122 123⟩,   -- opt_must< one< char(63) >, uri::query >
  /- 122 -/ ⟨true, {}, .atom (.one true [63])⟩,   -- one< char(63) >
  /- 123 -/ ⟨false, {}, .must 17⟩,   -- internal::must< uri::query >
  /- 124 -/ ⟨true, {}, .ifMust true 125 126⟩,   -- opt_must< one< char(35) >, uri::fragment >
  /- 125 -/ ⟨true, {}, .atom (.one true [35])⟩,   -- one< char(35) >
  /- 126 -/ ⟨false, {}, .must 18⟩,   -- internal::must< uri::fragment >
  /- 127 -/ ⟨true, {}, .seq [38, 128]⟩,   -- seq< uri::URI, eof >
  /- 128 -/ ⟨true, {}, .atom (.eof)⟩,   -- eof
  /- 129 -/ ⟨true, {}, .seq [39, 128]⟩,   -- seq< uri::URI_reference, eof >
  /- 130 -/ ⟨true, {}, .seq [40, 128]⟩,   -- seq< uri::absolute_URI, eof >
  /- 131 -/ ⟨true, {}, .seq [4, 128]⟩,   -- seq< uri::IPv4address, eof >
  /- 132 -/ ⟨true, {}, .seq [8, 128]⟩   -- seq< uri::IPv6address, eof >
]

/-- Named rules (`struct X : … {};`) and their node ids. -/
def uriNames : List (String × Nat) := [("abnf::ALPHA", 0), ("abnf::DIGIT", 1), ("abnf::HEXDIG", 2), ("uri::dec_octet", 3), ("uri::IPv4address", 4), ("uri::h16", 5), ("uri::ls32", 6), ("uri::dcolon", 7), ("uri::IPv6address", 8), ("uri::gen_delims", 9), ("uri::sub_delims", 10), ("uri::unreserved", 11), ("uri::reserved", 12), ("uri::IPvFuture", 13), ("uri::IP_literal", 14), ("uri::pct_encoded", 15), ("uri::pchar", 16), ("uri::query", 17), ("uri::fragment", 18), ("uri::segment", 19), ("uri::segment_nz", 20), ("uri::segment_nz_nc", 21), ("uri::path_abempty", 22), ("uri::path_absolute", 23), ("uri::path_noscheme", 24), ("uri::path_rootless", 25), ("uri::path_empty", 26), ("uri::path", 27), ("uri::reg_name", 28), ("uri::port", 29), ("uri::host", 30), ("uri::userinfo", 31), ("uri::opt_userinfo", 32), ("uri::authority", 33), ("uri::scheme", 34), ("uri::hier_part", 35), ("uri::relative_part", 36), ("uri::relative_ref", 37), ("uri::URI", 38), ("uri::URI_reference", 39), ("uri::absolute_URI", 40)]

/-- Roots `seq< X, eof >` the property is about. -/
def uriTops : List (String × Nat) := [("uri::URI", 127), ("uri::URI_reference", 129), ("uri::absolute_URI", 130), ("uri::IPv4address", 131), ("uri::IPv6address", 132)]

end Pegtl.Expected
