/-
  Audit/C10Sync.lean — obligation re-checked on every run of `./check C10`:
  the class table just translated from /repo's ascii.hpp / contrib/abnf.hpp /
  internal/identifier.hpp (Gen/AsciiTable.lean, rewritten by vlib/c10.py before `lake build`)
  is the committed table the C10 theorems are stated about (Expected/AsciiTable.lean).
  Not imported by PegtlVerif.lean (Gen files exist only after a check has run).
-/
import PegtlVerif.Gen.AsciiTable
import PegtlVerif.Expected.AsciiTable

namespace Pegtl.Audit

theorem c10_asciiTable_sync : Pegtl.Gen.asciiTable = Pegtl.Expected.asciiTable := by decide

theorem c10_asciiOther_sync : Pegtl.Gen.asciiOther = Pegtl.Expected.asciiOther := by decide

end Pegtl.Audit
