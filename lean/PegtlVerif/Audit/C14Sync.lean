/-
  Audit/C14Sync.lean — obligation re-checked on every run of `./check C14`:
  the node table just translated from /repo's include/tao/pegtl/contrib/json.hpp
  (Gen/Json.lean, rewritten by vlib/c14.py before `lake build`) is the committed table the C14
  theorems are stated about (Expected/Json.lean).
  Not imported by PegtlVerif.lean (Gen files exist only after a check has run).
-/
import PegtlVerif.Gen.Json
import PegtlVerif.Expected.Json

namespace Pegtl.Audit

/-- `C14_sync`: the translated grammar is the grammar of the theorems. -/
theorem C14_sync : Pegtl.Gen.json = Pegtl.Expected.json := by decide

theorem c14_jsonNames_sync : Pegtl.Gen.jsonNames = Pegtl.Expected.jsonNames := by decide

end Pegtl.Audit
