/-
  Audit/C20Sync.lean — obligations re-checked on every run of `./check C20`:

  * the node table just translated from /repo's contrib/uri.hpp + contrib/abnf.hpp
    (Gen/Uri.lean, rewritten by vlib/c20.py before `lake build`) is the committed table the
    C20 theorems are stated about (Expected/Uri.lean);
  * the rule table just translated from /verif/spec/rfc3986.abnf (Gen/Rfc3986.lean) — the file
    the Python oracle works from — is the table `rfc3986` of Spec/Rfc3986.lean.

  Not imported by PegtlVerif.lean (Gen files exist only after a check has run).
-/
import PegtlVerif.Gen.Uri
import PegtlVerif.Gen.Rfc3986
import PegtlVerif.Expected.Uri
import PegtlVerif.Spec.Rfc3986

namespace Pegtl.Audit

theorem C20_sync : Pegtl.Gen.uri = Pegtl.Expected.uri := by decide +kernel

theorem c20_uriNames_sync : Pegtl.Gen.uriNames = Pegtl.Expected.uriNames := by decide

theorem c20_uriTops_sync : Pegtl.Gen.uriTops = Pegtl.Expected.uriTops := by decide

theorem c20_rfc_sync : ∀ n, Pegtl.Gen.rfc3986 n = Pegtl.Spec.Rfc3986.rfc3986 n := by
  intro n; cases n <;> rfl

theorem c20_ruleNames_sync : Pegtl.Gen.ruleNames = Pegtl.Spec.Rfc3986.ruleNames := by decide

end Pegtl.Audit
