/-
  Lemmas/JsonRfc.lean — json.hpp read as a context-free grammar (`P`, Lemmas/JsonStruct.lean)
  generates exactly the language of RFC 8259 (`Rfc8259.JsonText`).

  The two grammars differ only in where insignificant whitespace is attached: the RFC puts it on
  both sides of the six structural characters (`begin-array = ws %x5B ws`, …), json.hpp after
  every token (`padr`), so that `star< ws >` never has to give anything back.  The proofs move
  whitespace across token boundaries; no PEG semantics is involved.
-/
import PegtlVerif.Lemmas.JsonStruct

namespace Pegtl.Json
open Pegtl Pegtl.Rfc8259

theorem Ws.nil : Ws [] := fun _ h => by simp at h

theorem Ws.append {a b : Str} (ha : Ws a) (hb : Ws b) : Ws (a ++ b) := by
  intro c hc
  rcases List.mem_append.mp hc with h | h
  · exact ha c h
  · exact hb c h

theorem structural_mk {c : UInt8} {a b : Str} (ha : Ws a) (hb : Ws b) : Structural c (a ++ c :: b) :=
  ⟨a, b, ha, hb, rfl⟩

/-! ### `P` ⊆ RFC 8259 -/

/-- What a string of each nonterminal of `P` is in terms of the RFC's productions.  `w₀` is the
    whitespace that the preceding element left pending (the RFC attaches it to the next separator). -/
def ToRfc : PT → Str → Prop
  | .value, v => Derives .value v
  | .elem, e => ∃ v w, e = v ++ w ∧ Derives .value v ∧ Ws w
  | .elemTail, t => ∀ w₀, Ws w₀ → ∃ vs wl, w₀ ++ t = vs ++ wl ∧ Derives .elements vs ∧ Ws wl
  | .arrContent, c => c = [] ∨ ∃ v vs wl, c = v ++ (vs ++ wl) ∧ Derives .value v ∧ Derives .elements vs ∧ Ws wl
  | .array, a => Derives .array a
  | .member, m => ∃ m' w, m = m' ++ w ∧ Derives .member m' ∧ Ws w
  | .memTail, t => ∀ w₀, Ws w₀ → ∃ ms wl, w₀ ++ t = ms ++ wl ∧ Derives .members ms ∧ Ws wl
  | .objContent, c => c = [] ∨ ∃ m ms wl, c = m ++ (ms ++ wl) ∧ Derives .member m ∧ Derives .members ms ∧ Ws wl
  | .object, o => Derives .object o

theorem P_toRfc {t : PT} {s : Str} (h : P t s) : ToRfc t s := by
  induction h with
  | vString hs => exact .vString hs
  | vNumber hn => exact .vNumber hn
  | vObject _ ih => exact .vObject ih
  | vArray _ ih => exact .vArray ih
  | vFalse => exact .vFalse
  | vTrue => exact .vTrue
  | vNull => exact .vNull
  | @elem v w _ hw ih => exact ⟨v, w, rfl, ih, hw⟩
  | elemTailNil => intro w₀ h₀; exact ⟨[], w₀, by simp, .elementsNil, h₀⟩
  | @elemTailCons w e t hw _ _ ihe iht =>
    intro w₀ h₀
    obtain ⟨v, w', rfl, hv, hw'⟩ := ihe
    obtain ⟨vs, wl, hvs, hd, hwl⟩ := iht w' hw'
    refine ⟨(w₀ ++ 0x2C :: w) ++ (v ++ vs), wl, ?_, .elementsCons (structural_mk h₀ hw) hv hd, hwl⟩
    calc w₀ ++ 0x2C :: (w ++ (v ++ w' ++ t)) = (w₀ ++ 0x2C :: w) ++ (v ++ (w' ++ t)) := by simp
      _ = (w₀ ++ 0x2C :: w) ++ (v ++ (vs ++ wl)) := by rw [hvs]
      _ = _ := by simp
  | arrContentNil => exact .inl rfl
  | @arrContentCons e t _ _ ihe iht =>
    obtain ⟨v, w', rfl, hv, hw'⟩ := ihe
    obtain ⟨vs, wl, hvs, hd, hwl⟩ := iht w' hw'
    refine .inr ⟨v, vs, wl, ?_, hv, hd, hwl⟩
    rw [List.append_assoc, hvs]
  | @array w c hw _ ih =>
    rcases ih with rfl | ⟨v, vs, wl, rfl, hv, hd, hwl⟩
    · have := Derives.arrayEmpty (structural_mk (c := 0x5B) Ws.nil hw) (structural_mk (c := 0x5D) Ws.nil Ws.nil)
      show Derives .array _
      simpa using this
    · have := Derives.arrayElements (structural_mk (c := 0x5B) Ws.nil hw) hv hd (structural_mk (c := 0x5D) hwl Ws.nil)
      show Derives .array _
      simpa using this
  | @member k w₁ w₂ e hk h₁ h₂ _ ih =>
    obtain ⟨v, w', rfl, hv, hw'⟩ := ih
    refine ⟨k ++ ((w₁ ++ 0x3A :: w₂) ++ v), w', by simp, .member hk (structural_mk h₁ h₂) hv, hw'⟩
  | memTailNil => intro w₀ h₀; exact ⟨[], w₀, by simp, .membersNil, h₀⟩
  | @memTailCons w m t hw _ _ ihm iht =>
    intro w₀ h₀
    obtain ⟨m', w', rfl, hm, hw'⟩ := ihm
    obtain ⟨ms, wl, hms, hd, hwl⟩ := iht w' hw'
    refine ⟨(w₀ ++ 0x2C :: w) ++ (m' ++ ms), wl, ?_, .membersCons (structural_mk h₀ hw) hm hd, hwl⟩
    calc w₀ ++ 0x2C :: (w ++ (m' ++ w' ++ t)) = (w₀ ++ 0x2C :: w) ++ (m' ++ (w' ++ t)) := by simp
      _ = (w₀ ++ 0x2C :: w) ++ (m' ++ (ms ++ wl)) := by rw [hms]
      _ = _ := by simp
  | objContentNil => exact .inl rfl
  | @objContentCons m t _ _ ihm iht =>
    obtain ⟨m', w', rfl, hm, hw'⟩ := ihm
    obtain ⟨ms, wl, hms, hd, hwl⟩ := iht w' hw'
    refine .inr ⟨m', ms, wl, ?_, hm, hd, hwl⟩
    rw [List.append_assoc, hms]
  | @object w c hw _ ih =>
    rcases ih with rfl | ⟨m, ms, wl, rfl, hm, hd, hwl⟩
    · have := Derives.objectEmpty (structural_mk (c := 0x7B) Ws.nil hw) (structural_mk (c := 0x7D) Ws.nil Ws.nil)
      show Derives .object _
      simpa using this
    · have := Derives.objectMembers (structural_mk (c := 0x7B) Ws.nil hw) hm hd (structural_mk (c := 0x7D) hwl Ws.nil)
      show Derives .object _
      simpa using this

/-- json.hpp's `text` (as a CFG) only derives JSON texts of RFC 8259. -/
theorem PText_toRfc {s : Str} (h : PText s) : JsonText s := by
  obtain ⟨a, v, b, ha, hv, hb, rfl⟩ := h
  exact ⟨a, v, b, ha, P_toRfc hv, hb, rfl⟩

/-! ### RFC 8259 ⊆ `P` -/

/-- Trailing whitespace can be absorbed by the last `padr` of a non-empty construct. -/
def AppWs : PT → Str → Prop
  | .elem, e => ∀ x, Ws x → P .elem (e ++ x)
  | .elemTail, t => t ≠ [] → ∀ x, Ws x → P .elemTail (t ++ x)
  | .arrContent, c => c ≠ [] → ∀ x, Ws x → P .arrContent (c ++ x)
  | .member, m => ∀ x, Ws x → P .member (m ++ x)
  | .memTail, t => t ≠ [] → ∀ x, Ws x → P .memTail (t ++ x)
  | .objContent, c => c ≠ [] → ∀ x, Ws x → P .objContent (c ++ x)
  | _, _ => True

theorem P_appWs {t : PT} {s : Str} (h : P t s) : AppWs t s := by
  induction h with
  | vString _ => trivial
  | vNumber _ => trivial
  | vObject _ _ => trivial
  | vArray _ _ => trivial
  | vFalse => trivial
  | vTrue => trivial
  | vNull => trivial
  | @elem v w hv hw _ =>
    intro x hx
    rw [List.append_assoc]
    exact .elem hv (Ws.append hw hx)
  | elemTailNil => intro h; exact absurd rfl h
  | @elemTailCons w e t hw he ht ihe iht =>
    intro _ x hx
    by_cases h : t = []
    · subst h
      have := P.elemTailCons hw (ihe x hx) .elemTailNil
      simpa using this
    · have := P.elemTailCons hw he (iht h x hx)
      simpa using this
  | arrContentNil => intro h; exact absurd rfl h
  | @arrContentCons e t he ht ihe iht =>
    intro _ x hx
    by_cases h : t = []
    · subst h
      have := P.arrContentCons (ihe x hx) .elemTailNil
      simpa using this
    · have := P.arrContentCons he (iht h x hx)
      simpa using this
  | array _ _ _ => trivial
  | @member k w₁ w₂ e hk h₁ h₂ _ ih =>
    intro x hx
    have := P.member hk h₁ h₂ (ih x hx)
    simpa using this
  | memTailNil => intro h; exact absurd rfl h
  | @memTailCons w m t hw hm ht ihm iht =>
    intro _ x hx
    by_cases h : t = []
    · subst h
      have := P.memTailCons hw (ihm x hx) .memTailNil
      simpa using this
    · have := P.memTailCons hw hm (iht h x hx)
      simpa using this
  | objContentNil => intro h; exact absurd rfl h
  | @objContentCons m t hm ht ihm iht =>
    intro _ x hx
    by_cases h : t = []
    · subst h
      have := P.objContentCons (ihm x hx) .memTailNil
      simpa using this
    · have := P.objContentCons hm (iht h x hx)
      simpa using this
  | object _ _ _ => trivial

/-- An RFC nonterminal in terms of `P`: structured values carry whitespace on both sides, the
    repetitions start with whitespace that belongs (in json.hpp) to the preceding element. -/
def OfRfc : NT → Str → Prop
  | .value, s => ∃ a v b, s = a ++ (v ++ b) ∧ Ws a ∧ Ws b ∧ P .value v
  | .object, s => ∃ a v b, s = a ++ (v ++ b) ∧ Ws a ∧ Ws b ∧ P .object v
  | .array, s => ∃ a v b, s = a ++ (v ++ b) ∧ Ws a ∧ Ws b ∧ P .array v
  | .member, s => P .member s
  | .members, s => ∃ w t, s = w ++ t ∧ Ws w ∧ P .memTail t
  | .elements, s => ∃ w t, s = w ++ t ∧ Ws w ∧ P .elemTail t

theorem Derives_ofRfc {n : NT} {s : Str} (h : Derives n s) : OfRfc n s := by
  induction h with
  | vFalse => exact ⟨[], _, [], by simp, Ws.nil, Ws.nil, .vFalse⟩
  | vNull => exact ⟨[], _, [], by simp, Ws.nil, Ws.nil, .vNull⟩
  | vTrue => exact ⟨[], _, [], by simp, Ws.nil, Ws.nil, .vTrue⟩
  | vObject _ ih => obtain ⟨a, v, b, rfl, ha, hb, hv⟩ := ih; exact ⟨a, v, b, rfl, ha, hb, .vObject hv⟩
  | vArray _ ih => obtain ⟨a, v, b, rfl, ha, hb, hv⟩ := ih; exact ⟨a, v, b, rfl, ha, hb, .vArray hv⟩
  | vNumber hn => exact ⟨[], _, [], by simp, Ws.nil, Ws.nil, .vNumber hn⟩
  | vString hs => exact ⟨[], _, [], by simp, Ws.nil, Ws.nil, .vString hs⟩
  | objectEmpty hb he =>
    obtain ⟨x, y, hx, hy, rfl⟩ := hb
    obtain ⟨x', y', hx', hy', rfl⟩ := he
    exact ⟨x, 0x7B :: ((y ++ x') ++ ([] ++ [0x7D])), y', by simp, hx, hy', .object (Ws.append hy hx') .objContentNil⟩
  | @objectMembers b m ms e hb _ _ he ihm ihms =>
    obtain ⟨x, y, hx, hy, rfl⟩ := hb
    obtain ⟨x', y', hx', hy', rfl⟩ := he
    obtain ⟨w, t, rfl, hw, ht⟩ := ihms
    -- content: the member, absorbing `w` if the tail is empty, then the tail; finally absorb `x'`
    have hc : P .objContent (m ++ (w ++ t)) := by
      by_cases h : t = []
      · subst h
        have := P.objContentCons (P_appWs ihm w hw) .memTailNil
        simpa using this
      · -- `w` in front of a non-empty tail belongs to the member before it
        have := P.objContentCons (P_appWs ihm w hw) ht
        simpa using this
    have hne : m ++ (w ++ t) ≠ [] := by
      obtain ⟨c, u, hm, _⟩ := member_head ihm
      rw [hm]; simp
    have hc' := P_appWs hc hne x' hx'
    refine ⟨x, 0x7B :: (y ++ ((m ++ (w ++ t) ++ x') ++ [0x7D])), y', by simp, hx, hy', .object hy hc'⟩
  | membersNil => exact ⟨[], [], rfl, Ws.nil, .memTailNil⟩
  | @membersCons c m ms hc _ _ ihm ihms =>
    obtain ⟨x, y, hx, hy, rfl⟩ := hc
    obtain ⟨w, t, rfl, hw, ht⟩ := ihms
    refine ⟨x, 0x2C :: (y ++ ((m ++ w) ++ t)), by simp, hx, .memTailCons hy (P_appWs ihm w hw) ht⟩
  | @member k c v hk hc _ ih =>
    obtain ⟨x, y, hx, hy, rfl⟩ := hc
    obtain ⟨a, v', b, rfl, ha, hb, hv⟩ := ih
    have := P.member hk hx (Ws.append hy ha) (.elem hv hb)
    show P .member _
    simpa using this
  | arrayEmpty hb he =>
    obtain ⟨x, y, hx, hy, rfl⟩ := hb
    obtain ⟨x', y', hx', hy', rfl⟩ := he
    exact ⟨x, 0x5B :: ((y ++ x') ++ ([] ++ [0x5D])), y', by simp, hx, hy', .array (Ws.append hy hx') .arrContentNil⟩
  | @arrayElements b v vs e hb _ _ he ihv ihvs =>
    obtain ⟨x, y, hx, hy, rfl⟩ := hb
    obtain ⟨x', y', hx', hy', rfl⟩ := he
    obtain ⟨a, v', b', rfl, ha, hb', hv⟩ := ihv
    obtain ⟨w, t, rfl, hw, ht⟩ := ihvs
    have hc : P .arrContent ((v' ++ (b' ++ w)) ++ t) := .arrContentCons (.elem hv (Ws.append hb' hw)) ht
    have hne : (v' ++ (b' ++ w)) ++ t ≠ [] := by
      obtain ⟨c, u, hm, _⟩ := value_head hv
      rw [hm]; simp
    have hc' := P_appWs hc hne x' hx'
    refine ⟨x, 0x5B :: ((y ++ a) ++ (((v' ++ (b' ++ w)) ++ t ++ x') ++ [0x5D])), y', by simp, hx, hy',
      .array (Ws.append hy ha) hc'⟩
  | elementsNil => exact ⟨[], [], rfl, Ws.nil, .elemTailNil⟩
  | @elementsCons c v vs hc _ _ ihv ihvs =>
    obtain ⟨x, y, hx, hy, rfl⟩ := hc
    obtain ⟨a, v', b, rfl, ha, hb, hv⟩ := ihv
    obtain ⟨w, t, rfl, hw, ht⟩ := ihvs
    refine ⟨x, 0x2C :: ((y ++ a) ++ ((v' ++ (b ++ w)) ++ t)), by simp, hx,
      .elemTailCons (Ws.append hy ha) (.elem hv (Ws.append hb hw)) ht⟩

/-- Every JSON text of RFC 8259 is derived by json.hpp's `text` read as a CFG. -/
theorem PText_ofRfc {s : Str} (h : JsonText s) : PText s := by
  obtain ⟨a, v, b, ha, hv, hb, rfl⟩ := h
  obtain ⟨a', v', b', rfl, ha', hb', hv'⟩ := Derives_ofRfc hv
  exact ⟨a ++ a', v', b' ++ b, Ws.append ha ha', hv', Ws.append hb' hb, by simp⟩

end Pegtl.Json
