/-
  Lemmas/JsonString.lean — token lemmas for the string rules of `Expected.json`:
  `xdigit`, `unicode` (= `list< seq< 'u', rep< 4, xdigit > >, one< '\\' > >`, which swallows a whole
  run `\uXXXX\uXXXX…` as ONE `char_`), `escaped`, `unescaped` (= `utf8::range< 0x20, 0x10FFFF >`),
  `char_`, `string_content` / `key_content` (= `until< at< '"' >, char_ >`), `string` / `key`,
  against `Rfc8259.Char`, `Chars`, `String`.
-/
import PegtlVerif.Lemmas.JsonLex

namespace Pegtl.Json
open Pegtl Pegtl.Spec Pegtl.Rfc8259 Pegtl.Unicode

/-! ### UTF-8: `unescaped` -/

/-- First byte of a well-formed encoding: the code point itself below U+0080, a lead byte ≥ 0xC0 otherwise. -/
theorem enc_head (cp : Nat) (hs : isScalar cp) :
    ∃ b t, encodeUtf8 cp = b :: t ∧ (cp < 0x80 → b.toNat = cp) ∧ (0x80 ≤ cp → 0xC0 ≤ b.toNat) := by
  have hmax : cp ≤ 0x10FFFF := by unfold isScalar at hs; omega
  by_cases h1 : cp < 0x80
  · refine ⟨cp.toUInt8, [], Utf.encodeUtf8_1 h1, fun _ => Utf.toNat_toUInt8 cp (by omega), fun h => by omega⟩
  · by_cases h2 : cp < 0x800
    · refine ⟨_, _, Utf.encodeUtf8_2 (by omega) h2, fun h => by omega, fun _ => ?_⟩
      rw [Utf.toNat_toUInt8 _ (by omega)]; omega
    · by_cases h3 : cp < 0x10000
      · refine ⟨_, _, Utf.encodeUtf8_3 (by omega) h3, fun h => by omega, fun _ => ?_⟩
        rw [Utf.toNat_toUInt8 _ (by omega)]; omega
      · refine ⟨_, _, Utf.encodeUtf8_4 (by omega), fun h => by omega, fun _ => ?_⟩
        rw [Utf.toNat_toUInt8 _ (by omega)]; omega

theorem peek_enc (cp : Nat) (hs : isScalar cp) (t : Str) :
    Utf.peekUtf8 (encodeUtf8 cp ++ t) = some (cp, encLen cp) := by
  rw [Utf.peekUtf8_eq_A]
  apply Utf.utf8A_complete _ _ hs
  rw [← Utf.length_encodeUtf8]
  exact List.take_left'  rfl

theorem unescaped_ok {cp : Nat} (hs : isScalar cp) (h20 : 0x20 ≤ cp) (t : Str) :
    L (.ref 19) (encodeUtf8 cp ++ t) (.ok t) := by
  refine .ref g19 (.atomOk rfl ?_)
  have hmax : cp ≤ 0x10FFFF := by unfold isScalar at hs; omega
  simp only [atomL, peek_enc cp hs t]
  rw [if_pos (by simp; omega)]
  congr 1
  rw [← Utf.length_encodeUtf8]
  exact List.drop_left' rfl

theorem unescaped_inv {r r' : Str} (h : L (.ref 19) r (.ok r')) :
    ∃ cp, isScalar cp ∧ 0x20 ≤ cp ∧ r = encodeUtf8 cp ++ r' := by
  rw [SemL.ref_iff g19, SemL.atom_ok_iff rfl] at h
  simp only [atomL] at h
  split at h
  · rename_i cp n hpk
    split at h
    · rename_i hc
      cases h
      rw [Utf.peekUtf8_eq_A] at hpk
      obtain ⟨hs, _, ht⟩ := Utf.utf8A_sound r cp n hpk
      refine ⟨cp, hs, by simp at hc; omega, ?_⟩
      rw [← ht, List.take_append_drop]
    · cases h
  · cases h

/-- The first byte of an RFC `unescaped` is neither `"` nor `\`. -/
theorem unescaped_head {c : Str} (hu : Unescaped c) :
    ∃ b t, c = b :: t ∧ b ≠ 0x22 ∧ b ≠ 0x5C := by
  obtain ⟨cp, hr, hs, rfl⟩ := hu
  obtain ⟨b, t, he, h1, h2⟩ := enc_head cp hs
  refine ⟨b, t, he, ?_, ?_⟩
  · intro hb; subst hb
    by_cases h : cp < 0x80
    · have := h1 h; simp at this; omega
    · have := h2 (by omega); simp at this
  · intro hb; subst hb
    by_cases h : cp < 0x80
    · have := h1 h; simp at this; omega
    · have := h2 (by omega); simp at this

/-- Conversely: a scalar value ≥ U+0020 whose encoding starts with neither `"` nor `\` is `unescaped`. -/
theorem unescaped_of {cp : Nat} {b : UInt8} {t : Str} (hs : isScalar cp) (h20 : 0x20 ≤ cp)
    (he : encodeUtf8 cp = b :: t) (hq : b ≠ 0x22) (hb : b ≠ 0x5C) : Unescaped (encodeUtf8 cp) := by
  refine ⟨cp, ?_, hs, rfl⟩
  have hmax : cp ≤ 0x10FFFF := by unfold isScalar at hs; omega
  obtain ⟨b', t', he', h1, _⟩ := enc_head cp hs
  rw [he] at he'; cases he'
  by_cases h : cp < 0x80
  · have hb' := h1 h
    have n22 : cp ≠ 0x22 := by
      intro hh; apply hq; rw [← UInt8.toNat_inj, hb', hh]; rfl
    have n5c : cp ≠ 0x5C := by
      intro hh; apply hb; rw [← UInt8.toNat_inj, hb', hh]; rfl
    omega
  · omega

/-! ### `\uXXXX` -/

/-- A `\uXXXX` escape (third alternative of `char`). -/
def UEsc (s : Str) : Prop :=
  ∃ a b c d, s = [0x5C, 0x75, a, b, c, d] ∧ IsHexDig a ∧ IsHexDig b ∧ IsHexDig c ∧ IsHexDig d

theorem UEsc.char {s : Str} (h : UEsc s) : Char s := .inr (.inr h)

/-- Node 54: `seq< one< 'u' >, rep< 4, xdigit > >`. -/
theorem uhex_ok {a b c d : UInt8} (ha : IsHexDig a) (hb : IsHexDig b) (hc : IsHexDig c) (hd : IsHexDig d) (t : Str) :
    L (.ref 54) (0x75 :: a :: b :: c :: d :: t) (.ok t) :=
  .ref g54 (.seqOk (cls_ok g55 (clsByte 117) rfl) (.seqOk
    (.ref g56 (.seqOk (cls_ok g15 clsXdigit ha) (.seqOk (cls_ok g15 clsXdigit hb)
      (.seqOk (cls_ok g15 clsXdigit hc) (.seqOk (cls_ok g15 clsXdigit hd) .eps))))) .eps))

theorem uhex_inv {r r' : Str} (h : L (.ref 54) r (.ok r')) :
    ∃ a b c d, r = 0x75 :: a :: b :: c :: d :: r' ∧ IsHexDig a ∧ IsHexDig b ∧ IsHexDig c ∧ IsHexDig d := by
  rw [SemL.ref_iff g54] at h
  obtain ⟨m1, h1, h⟩ := SemL.seq_ok_iff.mp h
  obtain ⟨m2, h2, h3⟩ := SemL.seq_ok_iff.mp h
  cases SemL.eps_iff.mp h3
  obtain ⟨u, rfl, rfl⟩ := cls_inv g55 (clsByte 117) h1
  rw [SemL.ref_iff g56] at h2
  obtain ⟨n1, x1, h2⟩ := SemL.seq_ok_iff.mp h2
  obtain ⟨n2, x2, h2⟩ := SemL.seq_ok_iff.mp h2
  obtain ⟨n3, x3, h2⟩ := SemL.seq_ok_iff.mp h2
  obtain ⟨n4, x4, h2⟩ := SemL.seq_ok_iff.mp h2
  cases SemL.eps_iff.mp h2
  obtain ⟨a, ha, rfl⟩ := cls_inv g15 clsXdigit x1
  obtain ⟨b, hb, rfl⟩ := cls_inv g15 clsXdigit x2
  obtain ⟨c, hc, rfl⟩ := cls_inv g15 clsXdigit x3
  obtain ⟨d, hd, rfl⟩ := cls_inv g15 clsXdigit x4
  exact ⟨a, b, c, d, rfl, ha, hb, hc, hd⟩

theorem uhex_fail {r : Str} (h : ¬ HeadIn (fun c => c = 0x75) r) : L (.ref 54) r .fail :=
  .ref g54 (.seqFail (cls_fail g55 (clsByte 117) h))

/-- Node 58: `seq< one< '\\' >, seq< one< 'u' >, rep< 4, xdigit > > >` — one further `\uXXXX` of the list. -/
theorem sepUhex_ok {s : Str} (hs : UEsc s) (t : Str) : L (.ref 58) (s ++ t) (.ok t) := by
  obtain ⟨a, b, c, d, rfl, ha, hb, hc, hd⟩ := hs
  exact .ref g58 (.seqOk (cls_ok g59 (clsByte 92) rfl) (.seqOk (uhex_ok ha hb hc hd t) .eps))

theorem sepUhex_inv {r r' : Str} (h : L (.ref 58) r (.ok r')) : ∃ s, r = s ++ r' ∧ UEsc s := by
  rw [SemL.ref_iff g58] at h
  obtain ⟨m1, h1, h⟩ := SemL.seq_ok_iff.mp h
  obtain ⟨m2, h2, h3⟩ := SemL.seq_ok_iff.mp h
  cases SemL.eps_iff.mp h3
  obtain ⟨u, rfl, rfl⟩ := cls_inv g59 (clsByte 92) h1
  obtain ⟨a, b, c, d, rfl, ha, hb, hc, hd⟩ := uhex_inv h2
  exact ⟨[0x5C, 0x75, a, b, c, d], rfl, a, b, c, d, rfl, ha, hb, hc, hd⟩

/-- The list does not continue: the input starts with no `\`, or with `\` and something other than `u`. -/
theorem sepUhex_fail {r : Str}
    (h : ¬ HeadIn (fun c => c = 0x5C) r ∨ ∃ c t, r = 0x5C :: c :: t ∧ c ≠ 0x75) : L (.ref 58) r .fail := by
  rcases h with h | ⟨c, t, rfl, hc⟩
  · exact .ref g58 (.seqFail (cls_fail g59 (clsByte 92) h))
  · refine .ref g58 (.seqOk (cls_ok g59 (clsByte 92) rfl) (.seqFail (uhex_fail ?_)))
    rw [headIn_cons]; exact hc

/-! ### `*char` -/

theorem _root_.Pegtl.Rfc8259.Chars.single {c : Str} (h : Char c) : Chars c := by
  have := Chars.cons h .nil
  rwa [List.append_nil] at this

theorem _root_.Pegtl.Rfc8259.Chars.append {a b : Str} (ha : Chars a) (hb : Chars b) : Chars (a ++ b) := by
  induction ha with
  | nil => exact hb
  | cons hc _ ih => rw [List.append_assoc]; exact .cons hc ih

/-- What follows in the list `star< seq< '\\', 'u', 4 xdigit > >` (node 57) is a sequence of RFC chars. -/
theorem uTail_inv {r r' : Str} (h : L (.star (.ref 58)) r (.ok r')) : ∃ t, r = t ++ r' ∧ Chars t := by
  refine SemL.star_ind (motive := fun r => ∃ t, r = t ++ r' ∧ Chars t) h (fun _ => ⟨[], rfl, .nil⟩) ?_
  rintro x y hxy ⟨t, rfl, ht⟩
  obtain ⟨s, rfl, hs⟩ := sepUhex_inv hxy
  exact ⟨s ++ t, by rw [List.append_assoc], .cons hs.char ht⟩

/-- `unicode` (node 16), entered after the `\`: the consumed text with the `\` in front is `*char`. -/
theorem unicode_inv {r r' : Str} (h : L (.ref 16) r (.ok r')) : ∃ t, r = t ++ r' ∧ Chars (0x5C :: t) := by
  rw [SemL.ref_iff g16] at h
  obtain ⟨m1, h1, h⟩ := SemL.seq_ok_iff.mp h
  obtain ⟨m2, h2, h3⟩ := SemL.seq_ok_iff.mp h
  cases SemL.eps_iff.mp h3
  obtain ⟨a, b, c, d, rfl, ha, hb, hc, hd⟩ := uhex_inv h1
  rw [SemL.ref_iff g57] at h2
  obtain ⟨t, rfl, ht⟩ := uTail_inv h2
  refine ⟨0x75 :: a :: b :: c :: d :: t, rfl, ?_⟩
  exact Chars.cons (c := [0x5C, 0x75, a, b, c, d]) (.inr (.inr ⟨a, b, c, d, rfl, ha, hb, hc, hd⟩)) ht

/-- `escaped = sor< escaped_char, unicode >` (node 18), entered after the `\`. -/
theorem escaped_inv {r r' : Str} (h : L (.ref 18) r (.ok r')) : ∃ t, r = t ++ r' ∧ Chars (0x5C :: t) := by
  rw [SemL.ref_iff g18] at h
  rcases SemL.alt_ok_iff.mp h with h | ⟨_, h⟩
  · obtain ⟨c, hc, rfl⟩ := cls_inv g17 clsEscapedChar h
    exact ⟨[c], rfl, Chars.single (.inr (.inl ⟨c, rfl, hc⟩))⟩
  · rcases SemL.alt_ok_iff.mp h with h | ⟨_, h⟩
    · exact unicode_inv h
    · cases SemL.failE_iff.mp h

/-- `char_ = if_then_else< one< '\\' >, escaped, unescaped >` (node 20) at a position that does not
    start with `"` (guaranteed by `until< at< '"' >, … >`): the consumed text is `*char`
    (several chars when a run of `\uXXXX` is swallowed). -/
theorem char_inv {r r' : Str} (hq : ¬ HeadIn (fun c => c = 0x22) r) (h : L (.ref 20) r (.ok r')) :
    ∃ t, r = t ++ r' ∧ Chars t := by
  rw [SemL.ref_iff g20] at h
  rcases SemL.alt_ok_iff.mp h with h | ⟨_, h⟩
  · obtain ⟨m, h1, h2⟩ := SemL.seq_ok_iff.mp h
    obtain ⟨c, rfl, rfl⟩ := cls_inv g59 (clsByte 92) h1
    obtain ⟨t, rfl, ht⟩ := escaped_inv h2
    exact ⟨0x5C :: t, rfl, ht⟩
  · obtain ⟨m, h1, h2⟩ := SemL.seq_ok_iff.mp h
    obtain ⟨rfl, h1⟩ := SemL.not_ok_iff.mp h1
    have hb := cls_fail_inv g59 (clsByte 92) h1
    obtain ⟨cp, hs, h20, rfl⟩ := unescaped_inv h2
    obtain ⟨b, t, he, _, _⟩ := enc_head cp hs
    refine ⟨encodeUtf8 cp, rfl, Chars.single (.inl (unescaped_of hs h20 he ?_ ?_))⟩
    · intro hh; apply hq; rw [he]; exact ⟨b, _, rfl, hh⟩
    · intro hh; apply hb; rw [he]; exact ⟨b, _, rfl, hh⟩

/-! ### `until< at< one< '"' > >, char_ >` -/

/-- One iteration of the `until` loop: `seq< not_at< at< '"' > >, char_ >`. -/
abbrev strBody : PExp := .seq (.not_ (.ref 60)) (.ref 20)

theorem atQuote_ok {t : Str} : L (.ref 60) (0x22 :: t) (.ok (0x22 :: t)) :=
  .ref g60 (.andOk (cls_ok g61 (clsByte 34) rfl))

theorem atQuote_fail {r : Str} (h : ¬ HeadIn (fun c => c = 0x22) r) : L (.ref 60) r .fail :=
  .ref g60 (.andFail (cls_fail g61 (clsByte 34) h))

theorem atQuote_ok_inv {r r' : Str} (h : L (.ref 60) r (.ok r')) : r' = r ∧ HeadIn (fun c => c = 0x22) r := by
  rw [SemL.ref_iff g60] at h
  obtain ⟨rfl, m, hm⟩ := SemL.and_ok_iff.mp h
  obtain ⟨c, hc, rfl⟩ := cls_inv g61 (clsByte 34) hm
  exact ⟨rfl, c, m, rfl, hc⟩

theorem atQuote_fail_inv {r : Str} (h : L (.ref 60) r .fail) : ¬ HeadIn (fun c => c = 0x22) r := by
  rw [SemL.ref_iff g60] at h
  exact cls_fail_inv g61 (clsByte 34) (SemL.and_fail_iff.mp h)

theorem strLoop_inv {r r' : Str} (h : L (.star strBody) r (.ok r')) : ∃ t, r = t ++ r' ∧ Chars t := by
  refine SemL.star_ind (motive := fun r => ∃ t, r = t ++ r' ∧ Chars t) h (fun _ => ⟨[], rfl, .nil⟩) ?_
  rintro x y hxy ⟨t, rfl, ht⟩
  obtain ⟨m, h1, h2⟩ := SemL.seq_ok_iff.mp hxy
  obtain ⟨rfl, h1⟩ := SemL.not_ok_iff.mp h1
  obtain ⟨s, rfl, hs⟩ := char_inv (atQuote_fail_inv h1) h2
  exact ⟨s ++ t, by rw [List.append_assoc], hs.append ht⟩

/-- `string_content` / `key_content` (nodes 21, 23 have the same expansion). -/
theorem content_inv {r r' : Str} (h : L (.seq (.star strBody) (.ref 60)) r (.ok r')) :
    ∃ t, r = t ++ r' ∧ Chars t ∧ HeadIn (fun c => c = 0x22) r' := by
  obtain ⟨m, h1, h2⟩ := SemL.seq_ok_iff.mp h
  obtain ⟨rfl, hq⟩ := atQuote_ok_inv h2
  obtain ⟨t, rfl, ht⟩ := strLoop_inv h1
  exact ⟨t, rfl, ht, hq⟩

/-- `seq< one< '"' >, content, any >` with the common expansion of `string_content` / `key_content`. -/
theorem quoted_inv {i : Nat} (hg : G i = some (.seq (.star strBody) (.ref 60))) {r r' : Str}
    (h : L (.seq (.ref 61) (.seq (.ref i) (.seq (.ref 62) .eps))) r (.ok r')) :
    ∃ s, r = s ++ r' ∧ Rfc8259.String s := by
  obtain ⟨m1, h1, h⟩ := SemL.seq_ok_iff.mp h
  obtain ⟨m2, h2, h⟩ := SemL.seq_ok_iff.mp h
  obtain ⟨m3, h3, h4⟩ := SemL.seq_ok_iff.mp h
  cases SemL.eps_iff.mp h4
  obtain ⟨q, rfl, rfl⟩ := cls_inv g61 (clsByte 34) h1
  rw [SemL.ref_iff hg] at h2
  obtain ⟨t, rfl, ht, c, u, rfl, rfl⟩ := content_inv h2
  rw [SemL.ref_iff g62, SemL.atom_ok_iff rfl] at h3
  simp only [atomL, Option.some.injEq] at h3
  subst h3
  exact ⟨0x22 :: (t ++ [0x22]), by simp, t, ht, rfl⟩

theorem string_inv {r r' : Str} (h : L (.ref 22) r (.ok r')) : ∃ s, r = s ++ r' ∧ Rfc8259.String s := by
  rw [SemL.ref_iff g22] at h; exact quoted_inv g21 h

theorem key_inv {r r' : Str} (h : L (.ref 24) r (.ok r')) : ∃ s, r = s ++ r' ∧ Rfc8259.String s := by
  rw [SemL.ref_iff g24] at h; exact quoted_inv g23 h

theorem string_fail {r : Str} (h : ¬ HeadIn (fun c => c = 0x22) r) : L (.ref 22) r .fail :=
  .ref g22 (.seqFail (cls_fail g61 (clsByte 34) h))

theorem key_fail {r : Str} (h : ¬ HeadIn (fun c => c = 0x22) r) : L (.ref 24) r .fail :=
  .ref g24 (.seqFail (cls_fail g61 (clsByte 34) h))

/-! ### Completeness of the `until` loop

`A cs`: the loop consumes `cs` up to the closing quote.  `B cs`: inside a `unicode` list (just after
a `\uXXXX`), the list consumes some further `\uXXXX` and the loop then consumes the rest.  Both by
induction on `Chars cs`. -/

theorem notAtQuote_ok {r : Str} (h : ¬ HeadIn (fun c => c = 0x22) r) : L (.not_ (.ref 60)) r (.ok r) :=
  .notFail (atQuote_fail h)

theorem char_head {c : Str} (hc : Char c) : ∃ b t, c = b :: t ∧ b ≠ 0x22 := by
  rcases hc with hu | ⟨e, rfl, _⟩ | ⟨a, b, c', d, rfl, _⟩
  · obtain ⟨b, t, h, hq, _⟩ := unescaped_head hu; exact ⟨b, t, h, hq⟩
  · exact ⟨_, _, rfl, by decide⟩
  · exact ⟨_, _, rfl, by decide⟩

theorem strLoop_complete {cs : Str} (hcs : Chars cs) :
    (∀ rem, HeadIn (fun c => c = 0x22) rem → L (.star strBody) (cs ++ rem) (.ok rem)) ∧
    (∀ rem, HeadIn (fun c => c = 0x22) rem →
      ∃ m, L (.star (.ref 58)) (cs ++ rem) (.ok m) ∧ L (.star strBody) m (.ok rem)) := by
  induction hcs with
  | nil =>
    have hA : ∀ rem, HeadIn (fun c => c = 0x22) rem → L (.star strBody) ([] ++ rem) (.ok rem) := by
      rintro rem ⟨c, t, rfl, rfl⟩
      exact .starDone (.seqFail (.notOk atQuote_ok))
    refine ⟨hA, ?_⟩
    intro rem hq
    refine ⟨rem, .starDone (sepUhex_fail (.inl ?_)), hA rem hq⟩
    obtain ⟨c, t, rfl, rfl⟩ := hq
    rw [List.nil_append, headIn_cons]; decide
  | @cons c cs hc _ ih =>
    obtain ⟨ihA, ihB⟩ := ih
    have hA : ∀ rem, HeadIn (fun c => c = 0x22) rem → L (.star strBody) ((c ++ cs) ++ rem) (.ok rem) := by
      intro rem hq
      rw [List.append_assoc]
      have hnq : ¬ HeadIn (fun c => c = 0x22) (c ++ (cs ++ rem)) := by
        obtain ⟨b, t, rfl, hb⟩ := char_head hc
        rw [List.cons_append, headIn_cons]; exact hb
      rcases hc with hu | ⟨e, rfl, he⟩ | hue
      · -- unescaped
        obtain ⟨cp, hr, hs, rfl⟩ := hu
        obtain ⟨b, t, he, _, hb⟩ := unescaped_head ⟨cp, hr, hs, rfl⟩
        have hnb : ¬ HeadIn (fun c => c = 0x5C) (encodeUtf8 cp ++ (cs ++ rem)) := by
          rw [he, List.cons_append, headIn_cons]; exact hb
        refine .starStep (.seqOk (notAtQuote_ok hnq) (.ref g20 (.altFail (.seqFail (cls_fail g59 (clsByte 92) hnb))
          (.seqOk (.notFail (cls_fail g59 (clsByte 92) hnb)) (unescaped_ok hs (by omega) _))))) (ihA rem hq)
      · -- `\` + one of `" \ / b f n r t`
        exact .starStep (.seqOk (notAtQuote_ok hnq) (.ref g20 (.altOk (.seqOk (cls_ok g59 (clsByte 92) rfl)
          (.ref g18 (.altOk (cls_ok g17 clsEscapedChar he))))))) (ihA rem hq)
      · -- `\uXXXX`: the list continues as far as it can (`ihB`), then the loop
        obtain ⟨a, b, c', d, rfl, ha, hb, hc', hd⟩ := hue
        obtain ⟨m, hm1, hm2⟩ := ihB rem hq
        refine .starStep (.seqOk (notAtQuote_ok hnq) (.ref g20 (.altOk (.seqOk (cls_ok g59 (clsByte 92) rfl)
          (.ref g18 (.altFail (cls_fail g17 clsEscapedChar ?_) (.altOk (.ref g16
            (.seqOk (uhex_ok ha hb hc' hd _) (.seqOk (.ref g57 hm1) .eps)))))))))) hm2
        rintro ⟨x, y, hxy, hx⟩
        cases hxy; revert hx; unfold IsSimpleEscape; decide
    refine ⟨hA, ?_⟩
    intro rem hq
    by_cases hue : UEsc c
    · obtain ⟨m, hm1, hm2⟩ := ihB rem hq
      refine ⟨m, ?_, hm2⟩
      rw [List.append_assoc]
      exact .starStep (sepUhex_ok hue _) hm1
    · refine ⟨(c ++ cs) ++ rem, .starDone (sepUhex_fail ?_), hA rem hq⟩
      rcases hc with hu | ⟨e, rfl, he⟩ | hc
      · left
        obtain ⟨b, t, rfl, _, hb⟩ := unescaped_head hu
        simp only [List.cons_append, headIn_cons]; exact hb
      · right
        refine ⟨e, cs ++ rem, by simp, ?_⟩
        intro h; subst h; unfold IsSimpleEscape at he; revert he; decide
      · exact absurd hc hue

theorem content_complete {cs : Str} (hcs : Chars cs) (t : Str) :
    L (.seq (.star strBody) (.ref 60)) (cs ++ 0x22 :: t) (.ok (0x22 :: t)) :=
  .seqOk ((strLoop_complete hcs).1 _ ⟨_, _, rfl, rfl⟩) atQuote_ok

theorem quoted_complete {i : Nat} (hg : G i = some (.seq (.star strBody) (.ref 60))) {s : Str}
    (hs : Rfc8259.String s) (rem : Str) :
    L (.seq (.ref 61) (.seq (.ref i) (.seq (.ref 62) .eps))) (s ++ rem) (.ok rem) := by
  obtain ⟨cs, hcs, rfl⟩ := hs
  have h2 : L (.ref i) (cs ++ 0x22 :: rem) (.ok (0x22 :: rem)) := .ref hg (content_complete hcs rem)
  have h3 : L (.ref 62) (0x22 :: rem) (.ok rem) := .ref g62 (.atomOk rfl rfl)
  have : (0x22 :: (cs ++ [0x22])) ++ rem = 0x22 :: (cs ++ 0x22 :: rem) := by simp
  rw [this]
  exact .seqOk (cls_ok g61 (clsByte 34) rfl) (.seqOk h2 (.seqOk h3 .eps))

/-- A string of RFC 8259 is matched exactly, whatever follows. -/
theorem string_complete {s : Str} (hs : Rfc8259.String s) (rem : Str) : L (.ref 22) (s ++ rem) (.ok rem) :=
  .ref g22 (quoted_complete g21 hs rem)

theorem key_complete {s : Str} (hs : Rfc8259.String s) (rem : Str) : L (.ref 24) (s ++ rem) (.ok rem) :=
  .ref g24 (quoted_complete g23 hs rem)

theorem string_head {s : Str} (hs : Rfc8259.String s) : HeadIn (fun c => c = 0x22) s := by
  obtain ⟨cs, _, rfl⟩ := hs; exact ⟨_, _, rfl, rfl⟩

end Pegtl.Json
