/-
  Lemmas/RawClosure.lean — a reusable induction principle for properties of the event trace:
  the trace of every combinator body is built from the traces of its sub-rule calls by
  concatenation, plus `raise` events and the events of state objects.  Any predicate closed under
  that holds for every body.  (Instance of RawClosureE.lean for predicates that do not depend on the
  environment.  Used by C08, C04, C06.)
-/
import PegtlVerif.Lemmas.RawClosureE

namespace Pegtl

structure RawClosed (Q : List Ev → Prop) : Prop where
  nil : Q []
  app : ∀ {a b}, Q a → Q b → Q (a ++ b)
  raise : ∀ i c, Q [Ev.raise i c]
  sctor : ∀ d, Q [Ev.sctor d]
  ssucc : ∀ d c o, Q [Ev.ssucc d c o]
  sdtor : ∀ d, Q [Ev.sdtor d]
  /-- calls of rule-level action classes (`apply< A... >`, `if_apply< R, A... >`) -/
  ract : ∀ k sd b e, Q [Ev.ruleApply k sd b e]

def QRec (Q : List Ev → Prop) (rec : Rec) : Prop := ∀ j a m env st r, rec j a m env st = some r → Q r.raw

theorem RawClosed.toE {Q : List Ev → Prop} (hQ : RawClosed Q) : RawClosedE (fun _ => Q) where
  nil := fun _ => hQ.nil
  app := hQ.app
  raise := fun _ => hQ.raise
  fam := id
  ctlf := id
  scope := by
    intro env l o ho q
    have : Ev.sctor (env.sd + 1) :: l ++ o ++ [Ev.sdtor (env.sd + 1)] =
        [Ev.sctor (env.sd + 1)] ++ (l ++ (o ++ [Ev.sdtor (env.sd + 1)])) := by simp
    rw [this]
    refine hQ.app (hQ.sctor _) (hQ.app q (hQ.app ?_ (hQ.sdtor _)))
    rcases ho with rfl | ⟨c, rfl⟩
    · exact hQ.nil
    · exact hQ.ssucc _ _ _

/-- The trace of every rule body satisfies any trace predicate closed under concatenation, `raise`
    events and state-object events, given that the traces of its sub-rule calls do. -/
theorem body_raw {Q : List Ev → Prop} (hQ : RawClosed Q) {rec : Rec} (hrec : QRec Q rec) (cx : Ctx) (k : Nat)
    (kind : Kind) (a : AMode) (m : RMode) (env : Env) (st : St) (r : Ret)
    (h : body cx rec k kind a m env st = some r) : Q r.raw :=
  body_rawE hQ.toE cx k kind a (fun j m env st r h => hrec j a m env st r h)
    (fun j m env st r h => hrec j .nothing m env st r h) (fun _ j m env st r h => hrec j .action m env st r h) m env
    (fun _ acts b e => runActs_raw hQ.nil hQ.app cx env.sd b e (fun k => hQ.ract k _ _ _) acts) st r h

end Pegtl
