/-
  Lemmas/AnalyzeKinds.lean — per rule kind: the trait of analyze_traits.hpp is sound for the
  `match()` body of that kind.  Each lemma takes what a problem-free visit of the kind's entry
  established about the sub-rules (`Pre`, termination on ≤ L bytes, "consumes") and concludes that
  the body terminates on ≤ L bytes and — where the entry reports "consumes" — advances.
-/
import PegtlVerif.Lemmas.AnalyzeSound

namespace Pegtl
open Analyze

section
variable (cx : Ctx)

theorem some_of_map {α β : Type} {x : Option α} {f : α → β} (h : ∃ n, x = some n) : ∃ r, x.map f = some r := by
  obtain ⟨n, rfl⟩ := h
  exact ⟨_, rfl⟩

/-! ### atoms -/

theorem kind_atom (L : Nat) (atm : Atom) :
    BodyTerm cx L (.atom atm) ∧ (atomType atm = .any → BodyAdv cx (.atom atm)) := by
  refine ⟨fun a m env st _ _ => ⟨0, _, rfl⟩, ?_⟩
  intro ht n a m env st r h hok
  simp only [body, Option.some.injEq] at h
  subst h
  have := atomStep_adv cx atm st ht
  cases hb : (atomStep cx atm st).1 with
  | true => exact this hb
  | false => simp [hb] at hok

/-! ### seq -/

theorem kind_seq {L : Nat} {cs : List Nat} {b : Bool} (p : Pre (Term cx L) (Cons cx) cs b)
    (hlt : ∀ c ∈ cs, ∀ L' < L, Term cx L' c) :
    BodyTerm cx L (.seq cs) ∧ (b = true → BodyAdv cx (.seq cs)) := by
  constructor
  · intro a m env st hin hrem
    match cs, p with
    | [], _ => exact ⟨0, _, rfl⟩
    | [c], p =>
      cases p with
      | stop ht _ => exact ht a m env st hin hrem
      | skip ht _ => exact ht a m env st hin hrem
    | c :: c' :: cs', p =>
      obtain ⟨n, r, h⟩ := seqAll_term cx a .optional env p hlt st hin hrem
      exact ⟨n, by simp only [body, h, Option.map_some]; exact ⟨_, rfl⟩⟩
  · intro hb n a m env st r h hok
    match cs, p with
    | [], p => cases p; exact absurd hb (by simp)
    | [c], p =>
      simp only [body] at h
      cases p with
      | stop _ hc => exact hc n a m env st r h hok
      | skip _ p' => cases p'; exact absurd hb (by simp)
    | c :: c' :: cs', p =>
      simp only [body, Option.map_eq_some_iff] at h
      obtain ⟨r0, h0, rfl⟩ := h
      have hok0 : r0.res = .ok := by simpa using hok
      have := seqAll_adv cx a .optional env n p hb st r0 h0 hok0
      rw [dropOnFail_st, guardRestore_ok_st hok0]
      exact this

/-! ### sor -/

theorem kind_sor {L : Nat} {cs : List Nat} {b : Bool} (h : ∀ c ∈ cs, Term cx L c ∧ (b = true → Cons cx c)) :
    BodyTerm cx L (.sor cs) ∧ (b = true → BodyAdv cx (.sor cs)) := by
  constructor
  · intro a m env st hin hrem
    exact sorAny_total cx a env cs m (fun c hc => (h c hc).1) st hin hrem
  · intro hb n a m env st r hr hok
    simp only [body] at hr
    exact sorAny_adv cx a env n cs m (fun c hc => (h c hc).2 hb) st r hr hok

/-! ### star, star_partial -/

theorem kind_star {L : Nat} {cs : List Nat} (p : Pre (Term cx L) (Cons cx) cs true)
    (hlt : ∀ c ∈ cs, ∀ L' < L, Term cx L' c) : BodyTerm cx L (.starPartial cs) := by
  intro a m env st hin hrem
  simp only [body]
  exact loopStar_diag cx (loopStar_term cx a env cs (fun st hin hrem => seqAll_term cx a .required env p hlt st hin hrem)
    (fun n st r h hok => seqAll_adv cx a .required env n p rfl st r h hok) L st hin hrem (Nat.le_refl _))

/-! ### opt, partial -/

theorem kind_partial {L : Nat} {cs : List Nat} {b : Bool} (p : Pre (Term cx L) (Cons cx) cs b)
    (hlt : ∀ c ∈ cs, ∀ L' < L, Term cx L' c) : BodyTerm cx L (.partialR cs) := by
  intro a m env st hin hrem
  obtain ⟨n, r, h⟩ := seqAll_term cx a .required env p hlt st hin hrem
  exact ⟨n, by simp only [body, h, Option.map_some]; exact ⟨_, rfl⟩⟩

/-! ### plus -/

theorem kind_plus {L : Nat} {c : Nat} (ht : Term cx L c) (hc : Cons cx c) (hlt : ∀ L' < L, Term cx L' c) :
    BodyTerm cx L (.plus c) ∧ BodyAdv cx (.plus c) := by
  have p : Pre (Term cx L) (Cons cx) [c] true := Pre.stop ht hc
  have hlt' : ∀ d ∈ [c], ∀ L' < L, Term cx L' d := by
    intro d hd; simp only [List.mem_singleton] at hd; subst hd; exact hlt
  constructor
  · intro a m env st hin hrem
    obtain ⟨n1, r1, h1⟩ := ht a m env st hin hrem
    have w := run_weak cx h1
    by_cases hok : r1.res = .ok
    · obtain ⟨n2, r2, h2⟩ := loopStar_diag cx (loopStar_term cx a env [c]
        (fun st hin hrem => seqAll_term cx a .required env p hlt' st hin hrem)
        (fun n st r h hok => seqAll_adv cx a .required env n p rfl st r h hok) L r1.st (w.inB hin)
        (Nat.le_trans w.rem_le hrem) (Nat.le_refl _))
      refine ⟨max n1 n2, ?_⟩
      have h1' := recLe_max_left cx n1 n2 _ _ _ _ _ _ h1
      have h2' := loopStar_mono (recLe_max_right cx n1 n2) _ _ _ _ _ _ _ (Nat.le_max_right n1 n2) h2
      simp only [body, h1', hok, h2', Option.map_some]
      exact ⟨_, rfl⟩
    · refine ⟨n1, ?_⟩
      simp only [body, h1]
      exact ⟨_, rfl⟩
  · intro n a m env st r h hok
    simp only [body] at h
    split at h
    · exact absurd h (by simp)
    · rename_i r1 h1
      split at h
      · rename_i hres
        simp only [Option.map_eq_some_iff] at h
        obtain ⟨r2, h2, rfl⟩ := h
        have := hc n a m env st r1 h1 hres
        have := (loopStar_weak (run_good cx n) _ _ _ _ _ _ h2).1.le
        simp only [prepend_st]
        omega
      · rename_i hne
        simp only [Option.some.injEq] at h
        subst h
        exact absurd hok (by intro h; exact hne h)

/-! ### at, not_at -/

theorem kind_at {L : Nat} {c : Nat} (ht : Term cx L c) : BodyTerm cx L (.atR c) := by
  intro a m env st hin hrem
  obtain ⟨n, r, h⟩ := ht .nothing .optional env st hin hrem
  exact ⟨n, by simp only [body, h, Option.map_some]; exact ⟨_, rfl⟩⟩

theorem kind_notAt {L : Nat} {c : Nat} (ht : Term cx L c) : BodyTerm cx L (.notAt c) := by
  intro a m env st hin hrem
  obtain ⟨n, r, h⟩ := ht .nothing .optional env st hin hrem
  exact ⟨n, by simp only [body, h, Option.map_some]; exact ⟨_, rfl⟩⟩

/-! ### single sub-rule wrappers: must, try_catch_*, enable, disable, action -/

theorem kind_must {L : Nat} {c : Nat} {b : Bool} (ht : Term cx L c) (hc : b = true → Cons cx c) :
    BodyTerm cx L (.must c) ∧ (b = true → BodyAdv cx (.must c)) := by
  constructor
  · intro a m env st hin hrem
    obtain ⟨n, r, h⟩ := ht a .optional env st hin hrem
    refine ⟨n, ?_⟩
    simp only [body, h]
    split <;> exact ⟨_, rfl⟩
  · intro hb n a m env st r h hok
    simp only [body] at h
    split at h
    · exact absurd h (by simp)
    · rename_i r1 h1
      split at h
      · simp only [Option.some.injEq] at h
        subst h
        exact absurd hok (by simp)
      · simp only [Option.some.injEq] at h
        subst h
        exact hc hb n a .optional env st r1 h1 hok

theorem kind_tcrf {L : Nat} {ex : Catch} {c : Nat} {b : Bool} (ht : Term cx L c) (hc : b = true → Cons cx c) :
    BodyTerm cx L (.tryCatchReturnFalse ex c) ∧ (b = true → BodyAdv cx (.tryCatchReturnFalse ex c)) := by
  constructor
  · intro a m env st hin hrem
    obtain ⟨n, r, h⟩ := ht a .optional env st hin hrem
    exact ⟨n, by simp only [body, h, Option.map_some]; exact ⟨_, rfl⟩⟩
  · intro hb n a m env st r h hok
    simp only [body, Option.map_eq_some_iff] at h
    obtain ⟨r0, h0, rfl⟩ := h
    simp only [dropOnFail_res, guardRestore_res] at hok
    have hok0 : r0.res = .ok := by
      split at hok
      · split at hok
        · exact absurd hok (by simp)
        · exact hok
      · exact hok
    have := hc hb n a .optional env st r0 h0 hok0
    simp only [hok0] at hok ⊢
    rw [dropOnFail_st, guardRestore_ok_st hok0]
    exact this

theorem kind_tcrn {L : Nat} {ex : Catch} {c : Nat} {b : Bool} (ht : Term cx L c) (hc : b = true → Cons cx c) :
    BodyTerm cx L (.tryCatchRaiseNested ex c) ∧ (b = true → BodyAdv cx (.tryCatchRaiseNested ex c)) := by
  constructor
  · intro a m env st hin hrem
    obtain ⟨n, r, h⟩ := ht a .optional env st hin hrem
    exact ⟨n, by simp only [body, h, Option.map_some]; exact ⟨_, rfl⟩⟩
  · intro hb n a m env st r h hok
    simp only [body, Option.map_eq_some_iff] at h
    obtain ⟨r0, h0, rfl⟩ := h
    simp only [dropOnFail_res, guardRestore_res] at hok
    have hok0 : r0.res = .ok := by
      split at hok
      · split at hok
        · exact absurd hok (by simp)
        · exact hok
      · exact hok
    have := hc hb n a .optional env st r0 h0 hok0
    simp only [hok0] at hok ⊢
    rw [dropOnFail_st, guardRestore_ok_st hok0]
    exact this

theorem kind_enable {L : Nat} {c : Nat} {b : Bool} (ht : Term cx L c) (hc : b = true → Cons cx c) :
    BodyTerm cx L (.enable c) ∧ (b = true → BodyAdv cx (.enable c)) :=
  ⟨fun _ m env st hin hrem => ht .action m env st hin hrem,
   fun hb n _ m env st r h hok => hc hb n .action m env st r h hok⟩

theorem kind_disable {L : Nat} {c : Nat} {b : Bool} (ht : Term cx L c) (hc : b = true → Cons cx c) :
    BodyTerm cx L (.disable c) ∧ (b = true → BodyAdv cx (.disable c)) :=
  ⟨fun _ m env st hin hrem => ht .nothing m env st hin hrem,
   fun hb n _ m env st r h hok => hc hb n .nothing m env st r h hok⟩

theorem kind_action {L : Nat} {fam c : Nat} {b : Bool} (ht : Term cx L c) (hc : b = true → Cons cx c) :
    BodyTerm cx L (.action fam c) ∧ (b = true → BodyAdv cx (.action fam c)) :=
  ⟨fun a m env st hin hrem => ht a m { env with fam := fam } st hin hrem,
   fun hb n a m env st r h hok => hc hb n a m { env with fam := fam } st r h hok⟩

theorem kind_control {L : Nat} {kc c : Nat} {b : Bool} (ht : Term cx L c) (hc : b = true → Cons cx c) :
    BodyTerm cx L (.control kc c) ∧ (b = true → BodyAdv cx (.control kc c)) :=
  ⟨fun a m env st hin hrem => ht a m { env with ctl := kc } st hin hrem,
   fun hb n a m env st r h hok => hc hb n a m { env with ctl := kc } st r h hok⟩

theorem kind_state {L : Nat} {d : Bool} {c : Nat} {b : Bool} (ht : Term cx L c) (hc : b = true → Cons cx c) :
    BodyTerm cx L (.state d c) ∧ (b = true → BodyAdv cx (.state d c)) := by
  constructor
  · intro a m env st hin hrem
    obtain ⟨n, r, h⟩ := ht a m { env with sd := env.sd + 1 } st hin hrem
    exact ⟨n, by simp only [body, h, Option.map_some]; exact ⟨_, rfl⟩⟩
  · intro hb n a m env st r h hok
    simp only [body, Option.map_eq_some_iff] at h
    obtain ⟨r0, h0, rfl⟩ := h
    simpa using hc hb n a m { env with sd := env.sd + 1 } st r0 h0 (by simpa using hok)

theorem kind_ifApply {L : Nat} {c : Nat} {acts : List RuleAct} {b : Bool} (ht : Term cx L c) (hc : b = true → Cons cx c) :
    BodyTerm cx L (.ifApply c acts) ∧ (b = true → BodyAdv cx (.ifApply c acts)) := by
  constructor
  · intro a m env st hin hrem
    by_cases hcnd : a = .action ∧ acts ≠ []
    · obtain ⟨n, r, h⟩ := ht .action .optional env st hin hrem
      refine ⟨n, ?_⟩
      simp only [body]
      rw [if_pos hcnd, h]
      exact ⟨_, rfl⟩
    · obtain ⟨n, r, h⟩ := ht a m env st hin hrem
      refine ⟨n, ?_⟩
      simp only [body]
      rw [if_neg hcnd, h]
      exact ⟨_, rfl⟩
  · intro hb n a m env st r h hok
    simp only [body] at h
    split at h
    · simp only [Option.map_eq_some_iff] at h
      obtain ⟨r0, h0, rfl⟩ := h
      split at hok
      · rename_i hr0
        simp only [dropOnFail_res, guardRestore_res] at hok
        have := hc hb n .action .optional env st r0 h0 hr0
        simp only [Ret.dropOnFail, guardRestore, hok]
        simpa using this
      · rename_i hr0
        simp only [dropOnFail_res, guardRestore_res] at hok
        exact absurd hok (by intro h'; exact hr0 h')
    · exact hc hb n a m env st r h hok

theorem kind_applyR (L : Nat) (acts : List RuleAct) : BodyTerm cx L (.applyR acts) := by
  intro a m env st _ _
  refine ⟨0, ?_⟩
  simp only [body]
  split <;> exact ⟨_, rfl⟩

theorem kind_raise (L : Nat) (t : Nat) : BodyTerm cx L (.raise t) ∧ BodyAdv cx (.raise t) := by
  constructor
  · intro a m env st _ _
    exact ⟨0, _, rfl⟩
  · intro n a m env st r h hok
    simp only [body, Option.some.injEq] at h
    subst h
    exact absurd hok (by simp)

/-! ### bounded repetitions -/

theorem repN_total {L : Nat} {c : Nat} (ht : Term cx L c) (a : AMode) (m : RMode) (env : Env) :
    ∀ (k : Nat) (st : St), InB st → st.rem ≤ L → ∃ n r, repN (run cx n) a m env c k st = some r := by
  intro k
  induction k with
  | zero => intro st _ _; exact ⟨0, _, rfl⟩
  | succ k ih =>
    intro st hin hrem
    obtain ⟨n1, r1, h1⟩ := ht a m env st hin hrem
    have w := run_weak cx h1
    cases hres : r1.res with
    | ok =>
      obtain ⟨n2, r2, h2⟩ := ih r1.st (w.inB hin) (Nat.le_trans w.rem_le hrem)
      have h1' := recLe_max_left cx n1 n2 _ _ _ _ _ _ h1
      have h2' := repN_mono (recLe_max_right cx n1 n2) _ _ _ _ _ _ _ h2
      refine ⟨max n1 n2, ?_⟩
      simp only [repN, h1', hres, h2']
      exact ⟨_, rfl⟩
    | fail => exact ⟨n1, by simp only [repN, h1, hres]; exact ⟨_, rfl⟩⟩
    | thr e => exact ⟨n1, by simp only [repN, h1, hres]; exact ⟨_, rfl⟩⟩

theorem repN_adv {c : Nat} (hc : Cons cx c) (a : AMode) (m : RMode) (env : Env) (n : Nat) :
    ∀ (k : Nat) (st : St) (r : Ret), k ≠ 0 → repN (run cx n) a m env c k st = some r → r.res = .ok →
      st.cur.pos < r.st.cur.pos := by
  intro k st r hk h hok
  cases k with
  | zero => exact absurd rfl hk
  | succ k =>
    simp only [repN] at h
    split at h
    · exact absurd h (by simp)
    · rename_i r1 h1
      split at h
      · rename_i hres
        split at h
        · exact absurd h (by simp)
        · rename_i r2 h2
          simp only [Option.some.injEq] at h
          subst h
          have := hc n a m env st r1 h1 hres
          have := (repN_weak (run_good cx n) _ _ _ _ _ _ _ h2).le
          simp only [prepend_st]
          omega
      · rename_i hne
        simp only [Option.some.injEq] at h
        subst h
        exact absurd hok (by intro h; exact hne h)

theorem repUpTo_total {L : Nat} {c : Nat} (ht : Term cx L c) (a : AMode) (env : Env) :
    ∀ (k : Nat) (st : St), InB st → st.rem ≤ L → ∃ n x, repUpTo (run cx n) a env c k st = some x := by
  intro k
  induction k with
  | zero => intro st _ _; exact ⟨0, _, rfl⟩
  | succ k ih =>
    intro st hin hrem
    obtain ⟨n1, r1, h1⟩ := ht a .required env st hin hrem
    have w := run_weak cx h1
    cases hres : r1.res with
    | ok =>
      obtain ⟨n2, ⟨r2, full⟩, h2⟩ := ih r1.st (w.inB hin) (Nat.le_trans w.rem_le hrem)
      have h1' := recLe_max_left cx n1 n2 _ _ _ _ _ _ h1
      have h2' := repUpTo_mono (recLe_max_right cx n1 n2) _ _ _ _ _ _ h2
      refine ⟨max n1 n2, ?_⟩
      simp only [repUpTo, h1', hres, h2']
      exact ⟨_, rfl⟩
    | fail => exact ⟨n1, by simp only [repUpTo, h1, hres]; exact ⟨_, rfl⟩⟩
    | thr e => exact ⟨n1, by simp only [repUpTo, h1, hres]; exact ⟨_, rfl⟩⟩

theorem kind_rep {L : Nat} {k c : Nat} {b : Bool} (ht : Term cx L c) (hc : b = true → k ≠ 0 ∧ Cons cx c) :
    BodyTerm cx L (.rep k c) ∧ (b = true → BodyAdv cx (.rep k c)) := by
  constructor
  · intro a m env st hin hrem
    obtain ⟨n, r, h⟩ := repN_total cx ht a .optional env k st hin hrem
    exact ⟨n, by simp only [body, h, Option.map_some]; exact ⟨_, rfl⟩⟩
  · intro hb n a m env st r h hok
    simp only [body, Option.map_eq_some_iff] at h
    obtain ⟨r0, h0, rfl⟩ := h
    have hok0 : r0.res = .ok := by simpa using hok
    rw [dropOnFail_st, guardRestore_ok_st hok0]
    exact repN_adv cx (hc hb).2 a .optional env n k st r0 (hc hb).1 h0 hok0

theorem kind_repOpt {L : Nat} {k c : Nat} (ht : Term cx L c) : BodyTerm cx L (.repOpt k c) := by
  intro a m env st hin hrem
  obtain ⟨n, x, h⟩ := repUpTo_total cx ht a env k st hin hrem
  exact ⟨n, by simp only [body, h, Option.map_some]; exact ⟨_, rfl⟩⟩

/-! ### rep_min_max -/

theorem kind_repMinMax {L : Nat} {lo hi c na : Nat} {b : Bool} (ht : Term cx L c) (hna : Term cx L na)
    (hc : b = true → lo ≠ 0 ∧ Cons cx c) :
    BodyTerm cx L (.repMinMax lo hi c na) ∧ (b = true → BodyAdv cx (.repMinMax lo hi c na)) := by
  constructor
  · intro a m env st hin hrem
    obtain ⟨n1, r1, h1⟩ := repN_total cx ht a .optional env lo st hin hrem
    have w1 := repN_weak (run_good cx n1) _ _ _ _ _ _ _ h1
    cases hres : r1.res with
    | ok =>
      obtain ⟨n2, ⟨r2, full⟩, h2⟩ := repUpTo_total cx ht a env (hi - lo) r1.st (w1.inB hin) (Nat.le_trans w1.rem_le hrem)
      have w2 := (repUpTo_weak (run_good cx n2) _ _ _ _ _ _ _ h2).1
      by_cases hcond : (r2.prepend r1.raw r1.surv).res = .ok ∧ full = true
      · obtain ⟨n3, r3, h3⟩ := hna a .optional env r2.st (w2.inB (w1.inB hin))
          (Nat.le_trans w2.rem_le (Nat.le_trans w1.rem_le hrem))
        refine ⟨max n1 (max n2 n3), ?_⟩
        have h1' := repN_mono (run_mono cx n1 (max n1 (max n2 n3)) (Nat.le_max_left _ _)) _ _ _ _ _ _ _ h1
        have h2' := repUpTo_mono (run_mono cx n2 (max n1 (max n2 n3))
          (Nat.le_trans (Nat.le_max_left _ _) (Nat.le_max_right _ _))) _ _ _ _ _ _ h2
        have h3' := run_mono cx n3 (max n1 (max n2 n3))
          (Nat.le_trans (Nat.le_max_right _ _) (Nat.le_max_right _ _)) _ _ _ _ _ _ h3
        simp only [body, h1', hres, h2', hcond, and_self, if_true, prepend_st, h3']
        exact ⟨_, rfl⟩
      · refine ⟨max n1 n2, ?_⟩
        have h1' := repN_mono (recLe_max_left cx n1 n2) _ _ _ _ _ _ _ h1
        have h2' := repUpTo_mono (recLe_max_right cx n1 n2) _ _ _ _ _ _ h2
        simp only [body, h1', hres, h2', hcond, if_false]
        exact ⟨_, rfl⟩
    | fail => exact ⟨n1, by simp only [body, h1, hres]; exact ⟨_, rfl⟩⟩
    | thr e => exact ⟨n1, by simp only [body, h1, hres]; exact ⟨_, rfl⟩⟩
  · intro hb n a m env st r h hok
    obtain ⟨hlo, hcc⟩ := hc hb
    simp only [body] at h
    split at h
    · exact absurd h (by simp)
    · rename_i r1 h1
      split at h
      · rename_i hres
        have hadv := repN_adv cx hcc a .optional env n lo st r1 hlo h1 hres
        split at h
        · exact absurd h (by simp)
        · rename_i r2 full h2
          have w2 := (repUpTo_weak (run_good cx n) _ _ _ _ _ _ _ h2).1
          split at h
          · split at h
            · exact absurd h (by simp)
            · rename_i r3 h3
              simp only [Option.some.injEq] at h
              subst h
              have hok0 : (r3.prepend (r2.prepend r1.raw r1.surv).raw (r2.prepend r1.raw r1.surv).surv).res = .ok := by
                simpa using hok
              rw [dropOnFail_st, guardRestore_ok_st hok0]
              have e3 := (run_weak cx h3).le
              have e2 := w2.le
              simp only [prepend_st] at e3 ⊢
              omega
          · simp only [Option.some.injEq] at h
            subst h
            have hok0 : (r2.prepend r1.raw r1.surv).res = .ok := by simpa using hok
            rw [dropOnFail_st, guardRestore_ok_st hok0]
            have := w2.le
            simp only [prepend_st]
            omega
      · rename_i hne
        simp only [Option.some.injEq] at h
        subst h
        exact absurd (by simpa using hok) hne

/-! ### if_then_else -/

theorem kind_ifThenElse {L : Nat} {c t e : Nat} {b b1 : Bool} (p : Pre (Term cx L) (Cons cx) [c, t] b1)
    (hte : Term cx L e) (hlt : ∀ L' < L, Term cx L' t) (hb1 : b = true → b1 = true) (hce : b = true → Cons cx e) :
    BodyTerm cx L (.ifThenElse c t e) ∧ (b = true → BodyAdv cx (.ifThenElse c t e)) := by
  have htc : Term cx L c := by
    cases p with
    | stop h _ => exact h
    | skip h _ => exact h
  constructor
  · intro a m env st hin hrem
    obtain ⟨n1, r1, h1⟩ := htc a .required env st hin hrem
    have w := run_weak cx h1
    cases hres : r1.res with
    | ok =>
      have : ∃ n2 r2, run cx n2 t a .optional env r1.st = some r2 := by
        cases p with
        | stop _ hc =>
          have hadv := hc n1 a .required env st r1 h1 hres
          have := w.rem_lt hin hadv
          exact hlt r1.st.rem (by omega) a .optional env r1.st (w.inB hin) (Nat.le_refl _)
        | skip _ p' =>
          cases p' with
          | stop h _ => exact h a .optional env r1.st (w.inB hin) (Nat.le_trans w.rem_le hrem)
          | skip h _ => exact h a .optional env r1.st (w.inB hin) (Nat.le_trans w.rem_le hrem)
      obtain ⟨n2, r2, h2⟩ := this
      refine ⟨max n1 n2, ?_⟩
      have h1' := recLe_max_left cx n1 n2 _ _ _ _ _ _ h1
      have h2' := recLe_max_right cx n1 n2 _ _ _ _ _ _ h2
      simp only [body, h1', hres, h2', Option.map_some]
      exact ⟨_, rfl⟩
    | fail =>
      obtain ⟨n2, r2, h2⟩ := hte a .optional env r1.st (w.inB hin) (Nat.le_trans w.rem_le hrem)
      refine ⟨max n1 n2, ?_⟩
      have h1' := recLe_max_left cx n1 n2 _ _ _ _ _ _ h1
      have h2' := recLe_max_right cx n1 n2 _ _ _ _ _ _ h2
      simp only [body, h1', hres, h2', Option.map_some]
      exact ⟨_, rfl⟩
    | thr x => exact ⟨n1, by simp only [body, h1, hres]; exact ⟨_, rfl⟩⟩
  · intro hb n a m env st r h hok
    have hb1' := hb1 hb
    subst hb1'
    simp only [body] at h
    split at h
    · exact absurd h (by simp)
    · rename_i r1 h1
      have w1 := run_weak cx h1
      split at h
      · rename_i hres
        simp only [Option.map_eq_some_iff] at h
        obtain ⟨r2, h2, rfl⟩ := h
        have hok0 : (r2.prepend r1.raw r1.surv).res = .ok := by simpa using hok
        rw [dropOnFail_st, guardRestore_ok_st hok0]
        have w2 := run_weak cx h2
        simp only [prepend_st]
        cases p with
        | stop _ hc =>
          have := hc n a .required env st r1 h1 hres
          have := w2.le
          omega
        | skip _ p' =>
          cases p' with
          | stop _ hc =>
            have := hc n a .optional env r1.st r2 h2 (by simpa using hok0)
            have := w1.le
            omega
          | skip _ p'' => cases p''
      · simp only [Option.map_eq_some_iff] at h
        obtain ⟨r2, h2, rfl⟩ := h
        have hok0 : (r2.prepend r1.raw []).res = .ok := by simpa using hok
        rw [dropOnFail_st, guardRestore_ok_st hok0]
        have := hce hb n a .optional env r1.st r2 h2 (by simpa using hok0)
        have := w1.le
        simp only [prepend_st]
        omega
      · rename_i x hx
        simp only [Option.some.injEq] at h
        subst h
        have : r1.res = .ok := by simpa using hok
        rw [this] at hx
        exact absurd hx (by simp)

/-! ### until< Cond, Rule > -/

theorem loopUntil2_term {L : Nat} {cond bd : Nat} (htc : Term cx L cond) (htb : Term cx L bd) (hcb : Cons cx bd)
    (a : AMode) (env : Env) :
    ∀ (R : Nat) (st : St), InB st → st.rem ≤ R → R ≤ L → ∃ n k r, loopUntil2 (run cx n) a env cond bd k st = some r := by
  intro R
  induction R with
  | zero =>
    intro st hin hrem hL
    obtain ⟨n1, r1, h1⟩ := htc a .required env st hin (by omega)
    have w1 := run_weak cx h1
    cases hres : r1.res with
    | ok => exact ⟨n1, 1, by simp only [loopUntil2, h1, hres]; exact ⟨_, rfl⟩⟩
    | thr e => exact ⟨n1, 1, by simp only [loopUntil2, h1, hres]; exact ⟨_, rfl⟩⟩
    | fail =>
      obtain ⟨n2, r2, h2⟩ := htb a .optional env r1.st (w1.inB hin) (by have := w1.rem_le; omega)
      have w2 := run_weak cx h2
      have h1' := recLe_max_left cx n1 n2 _ _ _ _ _ _ h1
      have h2' := recLe_max_right cx n1 n2 _ _ _ _ _ _ h2
      cases hres2 : r2.res with
      | ok =>
        have := w2.rem_lt (w1.inB hin) (hcb n2 a .optional env r1.st r2 h2 hres2)
        have := w1.rem_le
        omega
      | fail => exact ⟨max n1 n2, 1, by simp only [loopUntil2, h1', hres, h2', hres2]; exact ⟨_, rfl⟩⟩
      | thr e => exact ⟨max n1 n2, 1, by simp only [loopUntil2, h1', hres, h2', hres2]; exact ⟨_, rfl⟩⟩
  | succ R ih =>
    intro st hin hrem hL
    obtain ⟨n1, r1, h1⟩ := htc a .required env st hin (by omega)
    have w1 := run_weak cx h1
    cases hres : r1.res with
    | ok => exact ⟨n1, 1, by simp only [loopUntil2, h1, hres]; exact ⟨_, rfl⟩⟩
    | thr e => exact ⟨n1, 1, by simp only [loopUntil2, h1, hres]; exact ⟨_, rfl⟩⟩
    | fail =>
      obtain ⟨n2, r2, h2⟩ := htb a .optional env r1.st (w1.inB hin) (by have := w1.rem_le; omega)
      have w2 := run_weak cx h2
      have h1' := recLe_max_left cx n1 n2 _ _ _ _ _ _ h1
      have h2' := recLe_max_right cx n1 n2 _ _ _ _ _ _ h2
      cases hres2 : r2.res with
      | ok =>
        have hlt := w2.rem_lt (w1.inB hin) (hcb n2 a .optional env r1.st r2 h2 hres2)
        have hle := w1.rem_le
        obtain ⟨n3, k3, r3, h3⟩ := ih r2.st (w2.inB (w1.inB hin)) (by omega) (by omega)
        refine ⟨max (max n1 n2) n3, k3 + 1, ?_⟩
        have h1'' := recLe_max_left cx (max n1 n2) n3 _ _ _ _ _ _ h1'
        have h2'' := recLe_max_left cx (max n1 n2) n3 _ _ _ _ _ _ h2'
        have h3' := loopUntil2_mono (recLe_max_right cx (max n1 n2) n3) _ _ _ _ _ _ _ _ (Nat.le_refl k3) h3
        simp only [loopUntil2, h1'', hres, h2'', hres2, h3']
        exact ⟨_, rfl⟩
      | fail => exact ⟨max n1 n2, 1, by simp only [loopUntil2, h1', hres, h2', hres2]; exact ⟨_, rfl⟩⟩
      | thr e => exact ⟨max n1 n2, 1, by simp only [loopUntil2, h1', hres, h2', hres2]; exact ⟨_, rfl⟩⟩

theorem loopUntil2_adv {cond bd : Nat} (hcc : Cons cx cond) (a : AMode) (env : Env) (n : Nat) :
    ∀ (k : Nat) (st : St) (r : Ret), loopUntil2 (run cx n) a env cond bd k st = some r → r.res = .ok →
      st.cur.pos < r.st.cur.pos := by
  intro k
  induction k with
  | zero => intro st r h; simp [loopUntil2] at h
  | succ k ih =>
    intro st r h hok
    simp only [loopUntil2] at h
    split at h
    · exact absurd h (by simp)
    · rename_i r1 h1
      have w1 := run_weak cx h1
      split at h
      · rename_i hres
        simp only [Option.some.injEq] at h; subst h
        exact hcc n a .required env st r1 h1 hres
      · rename_i e he
        simp only [Option.some.injEq] at h; subst h
        rw [he] at hok; exact absurd hok (by simp)
      · split at h
        · exact absurd h (by simp)
        · rename_i r2 h2
          have w2 := run_weak cx h2
          split at h
          · split at h
            · exact absurd h (by simp)
            · rename_i r3 h3
              simp only [Option.some.injEq] at h; subst h
              have := ih r2.st r3 h3 (by simpa using hok)
              have := w1.le; have := w2.le
              simp only [prepend_st]
              omega
          · rename_i hne
            simp only [Option.some.injEq] at h; subst h
            exact absurd (by simpa using hok) hne

theorem kind_until2 {L : Nat} {cond bd : Nat} {b : Bool} (htc : Term cx L cond) (htb : Term cx L bd)
    (hcb : Cons cx bd) (hcc : b = true → Cons cx cond) :
    BodyTerm cx L (.until2 cond bd) ∧ (b = true → BodyAdv cx (.until2 cond bd)) := by
  constructor
  · intro a m env st hin hrem
    obtain ⟨n, k, r, h⟩ := loopUntil2_term cx htc htb hcb a env L st hin hrem (Nat.le_refl _)
    refine ⟨max n k, ?_⟩
    have h' := loopUntil2_mono (recLe_max_left cx n k) _ _ _ _ _ _ _ _ (Nat.le_max_right n k) h
    simp only [body, h', Option.map_some]
    exact ⟨_, rfl⟩
  · intro hb n a m env st r h hok
    simp only [body, Option.map_eq_some_iff] at h
    obtain ⟨r0, h0, rfl⟩ := h
    have hok0 : r0.res = .ok := by simpa using hok
    rw [dropOnFail_st, guardRestore_ok_st hok0]
    exact loopUntil2_adv cx (hcc hb) a env n n st r0 h0 hok0

/-! ### rematch -/

theorem rematchAll_total {L : Nat} (a : AMode) (env : Env) (saved : Cursor) :
    ∀ (cs : List Nat), (∀ c ∈ cs, Term cx L c) → ∀ st : St, saved.pos ≤ st.endp → st.endp - saved.pos ≤ L →
      ∃ n r, rematchAll (run cx n) a env saved cs st = some r := by
  intro cs
  induction cs with
  | nil => intro _ st _ _; exact ⟨0, _, rfl⟩
  | cons c cs ih =>
    intro hT st hs hrem
    obtain ⟨n1, r1, h1⟩ := hT c (List.mem_cons_self ..) a .optional env { st with cur := saved } hs hrem
    have w := run_weak cx h1
    have he : r1.st.endp = st.endp := w.endp
    cases hres : r1.res with
    | ok =>
      obtain ⟨n2, r2, h2⟩ := ih (fun d hd => hT d (List.mem_cons_of_mem _ hd)) r1.st (by rw [he]; exact hs) (by rw [he]; exact hrem)
      have h1' := recLe_max_left cx n1 n2 _ _ _ _ _ _ h1
      have h2' := rematchAll_mono (recLe_max_right cx n1 n2) _ _ _ _ _ _ h2
      refine ⟨max n1 n2, ?_⟩
      simp only [rematchAll, h1', hres, h2']
      exact ⟨_, rfl⟩
    | fail => exact ⟨n1, by simp only [rematchAll, h1, hres]; exact ⟨_, rfl⟩⟩
    | thr e => exact ⟨n1, by simp only [rematchAll, h1, hres]; exact ⟨_, rfl⟩⟩

theorem kind_rematch {L : Nat} {head : Nat} {rs : List Nat} {b : Bool} (hth : Term cx L head)
    (htr : ∀ c ∈ rs, Term cx L c) (hch : b = true → Cons cx head) :
    BodyTerm cx L (.rematch head rs) ∧ (b = true → BodyAdv cx (.rematch head rs)) := by
  constructor
  · intro a m env st hin hrem
    cases rs with
    | nil => exact hth a m env st hin hrem
    | cons c cs =>
      obtain ⟨n1, r1, h1⟩ := hth a .optional env st hin hrem
      have w := run_weak cx h1
      cases hres : r1.res with
      | ok =>
        have hle := w.le
        have hinb := w.inb hin
        have hrl := w.rem_le
        obtain ⟨n2, r2, h2⟩ := rematchAll_total cx a env st.cur (c :: cs) htr
          { r1.st with endp := r1.st.cur.pos, depth := 0 } hle
          (by unfold St.rem at hrem; have := w.endp; simp only; omega)
        have h1' := recLe_max_left cx n1 n2 _ _ _ _ _ _ h1
        have h2' := rematchAll_mono (recLe_max_right cx n1 n2) _ _ _ _ _ _ h2
        refine ⟨max n1 n2, ?_⟩
        simp only [body, h1', hres, h2']
        exact ⟨_, rfl⟩
      | fail => exact ⟨n1, by simp only [body, h1, hres]; exact ⟨_, rfl⟩⟩
      | thr e => exact ⟨n1, by simp only [body, h1, hres]; exact ⟨_, rfl⟩⟩
  · intro hb n a m env st r h hok
    cases rs with
    | nil =>
      simp only [body] at h
      exact hch hb n a m env st r h hok
    | cons c cs =>
      simp only [body] at h
      split at h
      · exact absurd h (by simp)
      · rename_i r1 h1
        split at h
        · rename_i hres
          split at h
          · exact absurd h (by simp)
          · rename_i r2 h2
            simp only [Option.some.injEq] at h
            subst h
            simp only [dropOnFail_res, guardRestore_res, prepend_res] at hok
            rw [dropOnFail_st, guardRestore_ok_st (by simpa using hok)]
            exact hch hb n a .optional env st r1 h1 hres
        · rename_i hne
          simp only [Option.some.injEq] at h
          subst h
          exact absurd (by simpa using hok) hne

/-! ### until< Cond > -/

theorem loopUntil1_term {L : Nat} {cond : Nat} (htc : Term cx L cond) (a : AMode) (env : Env) :
    ∀ (R : Nat) (st : St), InB st → st.rem ≤ R → R ≤ L → ∃ n k r, loopUntil1 cx (run cx n) a env cond k st = some r := by
  intro R
  induction R with
  | zero =>
    intro st hin hrem hL
    obtain ⟨n1, r1, h1⟩ := htc a .required env st hin (by omega)
    have w1 := run_weak cx h1
    cases hres : r1.res with
    | ok => exact ⟨n1, 1, by simp only [loopUntil1, h1, hres]; exact ⟨_, rfl⟩⟩
    | thr e => exact ⟨n1, 1, by simp only [loopUntil1, h1, hres]; exact ⟨_, rfl⟩⟩
    | fail =>
      have hemp : r1.st.empty = true := by
        have := w1.rem_le
        have := w1.inB hin
        unfold St.rem at *
        unfold InB at *
        simp only [St.empty, beq_iff_eq]
        omega
      exact ⟨n1, 1, by simp only [loopUntil1, h1, hres, hemp, if_true]; exact ⟨_, rfl⟩⟩
  | succ R ih =>
    intro st hin hrem hL
    obtain ⟨n1, r1, h1⟩ := htc a .required env st hin (by omega)
    have w1 := run_weak cx h1
    cases hres : r1.res with
    | ok => exact ⟨n1, 1, by simp only [loopUntil1, h1, hres]; exact ⟨_, rfl⟩⟩
    | thr e => exact ⟨n1, 1, by simp only [loopUntil1, h1, hres]; exact ⟨_, rfl⟩⟩
    | fail =>
      cases hemp : r1.st.empty with
      | true => exact ⟨n1, 1, by simp only [loopUntil1, h1, hres, hemp, if_true]; exact ⟨_, rfl⟩⟩
      | false =>
        have hne : r1.st.cur.pos ≠ r1.st.endp := by simpa [St.empty] using hemp
        have hin1 := w1.inB hin
        have hle := w1.rem_le
        obtain ⟨n2, k2, r2, h2⟩ := ih (bump cx r1.st 1) (bump_inb cx r1.st hin1 hemp)
          (by unfold St.rem InB at *; simp only [bump_pos, bump_endp]; omega) (by omega)
        refine ⟨max n1 n2, k2 + 1, ?_⟩
        have h1' := recLe_max_left cx n1 n2 _ _ _ _ _ _ h1
        have h2' := loopUntil1_mono (recLe_max_right cx n1 n2) cx _ _ _ _ _ _ _ (Nat.le_refl k2) h2
        simp only [loopUntil1, h1', hres, hemp, Bool.false_eq_true, if_false, h2']
        exact ⟨_, rfl⟩

theorem loopUntil1_adv {cond : Nat} (hcc : Cons cx cond) (a : AMode) (env : Env) (n : Nat) :
    ∀ (k : Nat) (st : St) (r : Ret), loopUntil1 cx (run cx n) a env cond k st = some r → r.res = .ok →
      st.cur.pos < r.st.cur.pos := by
  intro k
  induction k with
  | zero => intro st r h; simp [loopUntil1] at h
  | succ k ih =>
    intro st r h hok
    simp only [loopUntil1] at h
    split at h
    · exact absurd h (by simp)
    · rename_i r1 h1
      have w1 := run_weak cx h1
      split at h
      · rename_i hres
        simp only [Option.some.injEq] at h; subst h
        exact hcc n a .required env st r1 h1 hres
      · rename_i e he
        simp only [Option.some.injEq] at h; subst h
        rw [he] at hok; exact absurd hok (by simp)
      · rename_i hf
        split at h
        · simp only [Option.some.injEq] at h; subst h
          rw [hf] at hok; exact absurd hok (by simp)
        · split at h
          · exact absurd h (by simp)
          · rename_i r2 h2
            simp only [Option.some.injEq] at h; subst h
            have e2 := ih _ r2 h2 (by simpa using hok)
            have e1 := w1.le
            simp only [bump_pos] at e2
            simp only [prepend_st]
            omega

theorem kind_until1 {L : Nat} {cond : Nat} {b : Bool} (htc : Term cx L cond) (hcc : b = true → Cons cx cond) :
    BodyTerm cx L (.until1 cond) ∧ (b = true → BodyAdv cx (.until1 cond)) := by
  constructor
  · intro a m env st hin hrem
    obtain ⟨n, k, r, h⟩ := loopUntil1_term cx htc a env L st hin hrem (Nat.le_refl _)
    refine ⟨max n k, ?_⟩
    have h' := loopUntil1_mono (recLe_max_left cx n k) cx _ _ _ _ _ _ _ (Nat.le_max_right n k) h
    simp only [body, h', Option.map_some]
    exact ⟨_, rfl⟩
  · intro hb n a m env st r h hok
    simp only [body, Option.map_eq_some_iff] at h
    obtain ⟨r0, h0, rfl⟩ := h
    have hok0 : r0.res = .ok := by simpa using hok
    rw [dropOnFail_st, guardRestore_ok_st hok0]
    exact loopUntil1_adv cx (hcc hb) a env n n st r0 h0 hok0

/-! ### if_must, opt_must -/

/-- Never a local failure. -/
def NoFail (i : Nat) : Prop := ∀ n a m env st r, run cx n i a m env st = some r → r.res ≠ .fail

/-- A hidden node (`enable_control = false`, so no action can veto) whose body never fails locally
    never fails locally — whatever `match()`-carrying action wraps it. -/
theorem nofail_of_body {i : Nat}
    (h : ∀ nd, cx.g[i]? = some nd → nd.ctl = false ∧
      ∀ n a m env st r, body cx (run cx n) n nd.kind a m env st = some r → r.res ≠ .fail) : NoFail cx i := by
  intro n
  induction n with
  | zero => intro a m env st r hr; simp [run] at hr
  | succ n ih =>
    intro a m env st r hr
    simp only [run, nodeCall] at hr
    split at hr
    · exact absurd hr (by simp)
    · rename_i nd hnd
      obtain ⟨hctl, hb⟩ := h nd hnd
      simp only [Option.map_eq_some_iff] at hr
      obtain ⟨r0, h0, rfl⟩ := hr
      simp only [bracket_res]
      have core : ∀ a ee st r, nodeCore cx (run cx n) n i nd a m ee st = some r → r.res ≠ .fail := by
        intro a ee st r hc
        simp only [nodeCore, hctl, Bool.not_false, if_true] at hc
        exact hb n a m ee st r hc
      split at h0
      · exact core _ _ _ _ h0
      · exact ih _ _ _ _ _ h0
      · exact core _ _ _ _ h0
      · exact core _ _ _ _ h0
      · unfold limitDepthCall at h0
        split at h0
        · simp only [Option.some.injEq] at h0; subst h0; simp
        · simp only [Option.map_eq_some_iff] at h0
          obtain ⟨r1, h1, rfl⟩ := h0
          simpa using core _ _ _ _ h1
      · unfold limitBytesCall at h0
        simp only [Option.map_eq_some_iff] at h0
        obtain ⟨r1, h1, rfl⟩ := h0
        split
        · simp
        · simpa using core _ _ _ _ h1
      · simp only [Option.map_eq_some_iff] at h0
        obtain ⟨r1, h1, rfl⟩ := h0
        simpa using core _ _ _ _ h1
      · simp only [Option.map_eq_some_iff] at h0
        obtain ⟨r1, h1, rfl⟩ := h0
        simpa using ih _ _ _ _ _ h1
      · exact core _ _ _ _ h0

theorem body_must_nofail {c : Nat} {n : Nat} {a : AMode} {m : RMode} {env : Env} {st : St} {r : Ret}
    (h : body cx (run cx n) n (.must c) a m env st = some r) : r.res ≠ .fail := by
  simp only [body] at h
  split at h
  · exact absurd h (by simp)
  · split at h
    · simp only [Option.some.injEq] at h; subst h; simp
    · rename_i hne
      simp only [Option.some.injEq] at h; subst h
      exact fun hf => hne hf

theorem seqAll_nofail' {rec : Rec} (a : AMode) (m : RMode) (env : Env) :
    ∀ (cs : List Nat), (∀ c ∈ cs, ∀ st r, rec c a m env st = some r → r.res ≠ .fail) →
      ∀ st r, seqAll rec a m env cs st = some r → r.res ≠ .fail := by
  intro cs
  induction cs with
  | nil => intro _ st r h; simp only [seqAll, Option.some.injEq] at h; subst h; simp
  | cons c cs ih =>
    intro hc st r h
    simp only [seqAll] at h
    split at h
    · exact absurd h (by simp)
    · rename_i r1 h1
      split at h
      · split at h
        · exact absurd h (by simp)
        · rename_i r2 h2
          simp only [Option.some.injEq] at h; subst h
          simpa using ih (fun d hd => hc d (List.mem_cons_of_mem _ hd)) _ _ h2
      · simp only [Option.some.injEq] at h; subst h
        exact hc c (List.mem_cons_self ..) _ _ h1

/-- The `if_must` / `opt_must` body.  `hmn`: either the condition consumes (then the `must< Rules... >`
    node runs on fewer bytes) or that node terminates on `≤ L` bytes; `hnf`: it never fails locally. -/
theorem kind_ifMust {L : Nat} {dflt : Bool} {cond mn : Nat} {b : Bool} (htc : Term cx L cond)
    (hmn : (Cons cx cond ∧ ∀ L' < L, Term cx L' mn) ∨ Term cx L mn) (hnf : NoFail cx mn)
    (hbd : b = true → dflt = false) (hadv : b = true → Cons cx cond ∨ Cons cx mn) :
    BodyTerm cx L (.ifMust dflt cond mn) ∧ (b = true → BodyAdv cx (.ifMust dflt cond mn)) := by
  constructor
  · intro a m env st hin hrem
    obtain ⟨n1, r1, h1⟩ := htc a (if dflt then .required else m) env st hin hrem
    have w := run_weak cx h1
    cases hres : r1.res with
    | ok =>
      have : ∃ n2 r2, run cx n2 mn a m env r1.st = some r2 := by
        rcases hmn with ⟨hc, hlt⟩ | ht
        · have := w.rem_lt hin (hc n1 a _ env st r1 h1 hres)
          exact hlt r1.st.rem (by omega) a m env r1.st (w.inB hin) (Nat.le_refl _)
        · exact ht a m env r1.st (w.inB hin) (Nat.le_trans w.rem_le hrem)
      obtain ⟨n2, r2, h2⟩ := this
      refine ⟨max n1 n2, ?_⟩
      have h1' := recLe_max_left cx n1 n2 _ _ _ _ _ _ h1
      have h2' := recLe_max_right cx n1 n2 _ _ _ _ _ _ h2
      simp only [body, h1', hres, h2', Option.map_some]
      exact ⟨_, rfl⟩
    | fail => exact ⟨n1, by simp only [body, h1, hres]; exact ⟨_, rfl⟩⟩
    | thr e => exact ⟨n1, by simp only [body, h1, hres]; exact ⟨_, rfl⟩⟩
  · intro hb n a m env st r h hok
    simp only [body] at h
    split at h
    · exact absurd h (by simp)
    · rename_i r1 h1
      have w1 := run_weak cx h1
      split at h
      · rename_i hres
        simp only [Option.map_eq_some_iff] at h
        obtain ⟨r2, h2, rfl⟩ := h
        have w2 := run_weak cx h2
        cases hr : r2.res with
        | fail => exact absurd hr (hnf n a m env r1.st r2 h2)
        | thr e =>
          simp only [prepend_res, hr, dropOnFail_res] at hok
          exact absurd hok (by simp)
        | ok =>
          simp only [prepend_res, hr, prepend_st]
          rcases hadv hb with hc | hc
          · have := hc n a _ env st r1 h1 hres
            have := w2.le
            omega
          · have := hc n a m env r1.st r2 h2 hr
            have := w1.le
            omega
      · rename_i hf
        simp only [Option.some.injEq] at h
        subst h
        -- condition failed: `opt_must` succeeds without consuming, `if_must` fails
        have hd := hbd hb
        subst hd
        simp at hok
      · rename_i e he
        simp only [Option.some.injEq] at h
        subst h
        rw [he] at hok
        exact absurd hok (by simp)

end
end Pegtl
