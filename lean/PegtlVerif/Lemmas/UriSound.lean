/-
  Lemmas/UriSound.lean — rule by rule: what a rule of contrib/uri.hpp accepts is derivable from the
  RFC 3986 production of the same name (`A i ⊑ .ref X`).

  Method: `unf_X` (Lemmas/UriUnfold.lean) gives the language of the rule's body over the named rules it
  mentions; the inclusion into the RFC production is then assembled from the inclusions of the
  sub-rules with the derived rules of ABNF below (`incl_cat`, `incl_alt`, `incl_star`, …).
  Single-character classes are compared by a 256-entry table evaluated by the kernel.
-/
import PegtlVerif.Lemmas.UriUnfold
import PegtlVerif.Lemmas.UriAbnf
import PegtlVerif.Lemmas.UriExc
import PegtlVerif.Lemmas.AtomSem

set_option maxRecDepth 16384

namespace Pegtl.Uri
open Pegtl Pegtl.Spec Pegtl.Spec.Lang Pegtl.Spec.Abnf Pegtl.Spec.Rfc3986

/-- Every string of the language `L` is derivable from the ABNF expression `e` (under RFC 3986). -/
def Incl (L : Lang) (e : AExp RuleName) : Prop := ∀ s, L s → Derives rfc3986 e s

infix:50 " ⊑ " => Incl

theorem incl_ref {L : Lang} {n : RuleName} (h : L ⊑ rfc3986 n) : L ⊑ .ref n := fun s hs => .ref (h s hs)

theorem incl_cat {L₁ L₂ : Lang} {a b} (h₁ : L₁ ⊑ a) (h₂ : L₂ ⊑ b) : cat L₁ L₂ ⊑ .cat a b := by
  rintro s ⟨s₁, s₂, rfl, d₁, d₂⟩
  exact .cat (h₁ _ d₁) (h₂ _ d₂)

theorem incl_alt {L₁ L₂ : Lang} {e} (h₁ : L₁ ⊑ e) (h₂ : L₂ ⊑ e) : alt L₁ L₂ ⊑ e :=
  fun s h => h.elim (h₁ s) (h₂ s)

theorem incl_altL {L : Lang} {a b} (h : L ⊑ a) : L ⊑ .alt a b := fun s hs => .altL (h s hs)
theorem incl_altR {L : Lang} {a b} (h : L ⊑ b) : L ⊑ .alt a b := fun s hs => .altR (h s hs)
theorem incl_empty {e} : Lang.empty ⊑ e := fun _ h => h.elim

theorem incl_eps_rep {hi a} : eps ⊑ .rep 0 hi a := by
  intro s h; cases (show s = [] from h); exact .repNil

theorem incl_star {L : Lang} {a} (h : L ⊑ a) : Star L ⊑ .rep 0 none a := by
  intro s hs
  induction hs with
  | nil => exact .repNil
  | cons h₁ _ ih => exact .repCons (by simp) (h _ h₁) ih

theorem incl_plus {L : Lang} {a} (h : L ⊑ a) : cat L (Star L) ⊑ .rep 1 none a := by
  rintro s ⟨s₁, s₂, rfl, d₁, d₂⟩
  exact .repCons (by simp) (h _ d₁) (incl_star h _ d₂)

theorem derives_opt {a : AExp RuleName} {s} (h : Derives rfc3986 a s) : Derives rfc3986 (.rep 0 (some 1) a) s := by
  have := Derives.repCons (lo := 0) (hi := some 1) (by simp) h (Derives.repNil (g := rfc3986) (hi := some 0) (a := a))
  simpa using this

theorem incl_opt {L : Lang} {a} (h : L ⊑ a) : alt L eps ⊑ .rep 0 (some 1) a :=
  incl_alt (fun s hs => derives_opt (h s hs)) incl_eps_rep

theorem incl_pow1 {L : Lang} {a} (h : L ⊑ a) : ∀ n, pow1 n L ⊑ .rep (n + 1) (some (n + 1)) a
  | 0 => by
    intro s hs
    have := Derives.repCons (lo := 1) (hi := some 1) (by simp) (h s hs) (Derives.repNil (g := rfc3986) (hi := some 0) (a := a))
    simpa using this
  | n + 1 => by
    rintro s ⟨s₁, s₂, rfl, d₁, d₂⟩
    exact .repCons (by simp) (h _ d₁) (incl_pow1 h n _ d₂)

theorem incl_upto1 {L : Lang} {a} (h : L ⊑ a) : ∀ k, upto1 k L ⊑ .rep 0 (some (k + 1)) a
  | 0 => incl_opt h
  | k + 1 => by
    refine incl_alt ?_ incl_eps_rep
    rintro s ⟨s₁, s₂, rfl, d₁, d₂⟩
    exact .repCons (by simp) (h _ d₁) (incl_upto1 h k _ d₂)

/-! ### Single characters -/

theorem class_table (e : AExp RuleName) (P : UInt8 → Bool)
    (h : ∀ n, n < 256 → P (UInt8.ofNat n) = true → recognise rfc3986 12 e [UInt8.ofNat n] = true) :
    ∀ c, P c = true → Derives rfc3986 e [c] := by
  intro c hc
  have := h c.toNat c.toNat_lt (by simpa using hc)
  simp only [UInt8.ofNat_toNat] at this
  exact recognise_sound this

theorem incl_chs {cs : List UInt8} {e : AExp RuleName}
    (h : ∀ n, n < 256 → cs.contains (UInt8.ofNat n) = true → recognise rfc3986 12 e [UInt8.ofNat n] = true) :
    chs cs ⊑ e := by
  intro s hs
  obtain ⟨c, hc, rfl⟩ := atomLang_one hs
  exact class_table e (fun c => cs.contains c) h c (by simpa using hc)

theorem incl_ranges {rs : List (UInt8 × UInt8)} {e : AExp RuleName}
    (h : ∀ n, n < 256 → rs.any (fun r => r.1 ≤ UInt8.ofNat n && UInt8.ofNat n ≤ r.2) = true →
      recognise rfc3986 12 e [UInt8.ofNat n] = true) :
    AtomLang (.ranges rs none) ⊑ e := by
  intro s hs
  obtain ⟨c, ⟨r, hr, h1, h2⟩, rfl⟩ := atomLang_ranges hs
  refine class_table e (fun c => rs.any (fun r => r.1 ≤ c && c ≤ r.2)) h c ?_
  simp only [List.any_eq_true, Bool.and_eq_true, decide_eq_true_eq]
  exact ⟨r, hr, h1, h2⟩

theorem incl_range {lo hi : UInt8} {e : AExp RuleName}
    (h : ∀ n, n < 256 → (lo ≤ UInt8.ofNat n && UInt8.ofNat n ≤ hi) = true →
      recognise rfc3986 12 e [UInt8.ofNat n] = true) :
    AtomLang (.range true lo hi) ⊑ e := by
  intro s hs
  obtain ⟨c, h1, h2, rfl⟩ := atomLang_range hs
  refine class_table e (fun c => lo ≤ c && c ≤ hi) h c ?_
  simp only [Bool.and_eq_true, decide_eq_true_eq]
  exact ⟨h1, h2⟩

/-! ### Character classes -/

theorem ALPHA_sound : A 0 ⊑ .ref .ALPHA := fun s h => incl_ranges (by decide +kernel) s (unf_ALPHA s h)
theorem DIGIT_sound : A 1 ⊑ .ref .DIGIT := fun s h => incl_range (by decide +kernel) s (unf_DIGIT s h)
theorem HEXDIG_sound : A 2 ⊑ .ref .HEXDIG := fun s h => incl_ranges (by decide +kernel) s (unf_HEXDIG s h)
theorem gen_delims_sound : A 9 ⊑ .ref .gen_delims := fun s h => incl_chs (by decide +kernel) s (unf_gen_delims s h)
theorem sub_delims_sound : A 10 ⊑ .ref .sub_delims := fun s h => incl_chs (by decide +kernel) s (unf_sub_delims s h)

/-! ### dec-octet -/

/-- the digit character `'0' + i`. -/
def dg (i : Nat) : UInt8 := UInt8.ofNat (48 + i)

theorem digit_idx {c : UInt8} (h₁ : 48 ≤ c) (h₂ : c ≤ 57) : ∃ i, i < 10 ∧ c = dg i := by
  rw [UInt8.le_iff_toNat_le] at h₁ h₂
  have e1 : (48 : UInt8).toNat = 48 := rfl
  have e2 : (57 : UInt8).toNat = 57 := rfl
  rw [e1] at h₁; rw [e2] at h₂
  refine ⟨c.toNat - 48, by omega, ?_⟩
  unfold dg
  rw [show 48 + (c.toNat - 48) = c.toNat by omega]
  simp

theorem dg_val {i : Nat} (h : i < 10) : (dg i).toNat - 48 = i := by
  unfold dg
  rw [UInt8.toNat_ofNat']
  omega

/-- Every canonical decimal numeral ≤ 255 (one to three digits) is an RFC 3986 `dec-octet`
    (1 110 numerals, each run through the ABNF recogniser by the kernel). -/
def decOctetTableOk : Bool :=
  (List.range 10).all fun i => (List.range 10).all fun j => (List.range 10).all fun k =>
    recognise rfc3986 12 (.ref .dec_octet) [dg i] &&
    (i == 0 || recognise rfc3986 12 (.ref .dec_octet) [dg i, dg j]) &&
    (i == 0 || !(decide (i * 100 + j * 10 + k ≤ 255)) || recognise rfc3986 12 (.ref .dec_octet) [dg i, dg j, dg k])

theorem dec_octet_table {i j k : Nat} (hi : i < 10) (hj : j < 10) (hk : k < 10) :
    recognise rfc3986 12 (.ref .dec_octet) [dg i] = true ∧
    (i ≠ 0 → recognise rfc3986 12 (.ref .dec_octet) [dg i, dg j] = true) ∧
    (i ≠ 0 → i * 100 + j * 10 + k ≤ 255 → recognise rfc3986 12 (.ref .dec_octet) [dg i, dg j, dg k] = true) := by
  have h : decOctetTableOk = true := by decide +kernel
  simp only [decOctetTableOk, List.all_eq_true, List.mem_range, Bool.and_eq_true, Bool.or_eq_true, beq_iff_eq,
    Bool.not_eq_true', decide_eq_false_iff_not] at h
  obtain ⟨⟨h1, h2⟩, h3⟩ := h i hi j hj k hk
  refine ⟨h1, fun h0 => ?_, fun h0 hv => ?_⟩
  · rcases h2 with h2 | h2
    · exact absurd h2 h0
    · exact h2
  · rcases h3 with (h3 | h3) | h3
    · exact absurd h3 h0
    · exact absurd hv h3
    · exact h3

theorem foldl_ge : ∀ (l : List UInt8) (acc : Nat), acc ≤ l.foldl (fun acc d => acc * 10 + (d.toNat - 48)) acc
  | [], _ => Nat.le_refl _
  | d :: l, acc => by
    simp only [List.foldl_cons]
    exact Nat.le_trans (by omega) (foldl_ge l _)

theorem dec_octet_of_digits {s : List UInt8} (hne : s ≠ []) (hd : ∀ c ∈ s, 48 ≤ c ∧ c ≤ 57)
    (hz : ¬(s.length > 1 ∧ s.head? = some 48))
    (hv : s.foldl (fun acc d => acc * 10 + (d.toNat - 48)) 0 ≤ 255) : Derives rfc3986 (.ref .dec_octet) s := by
  match s, hne, hd, hz, hv with
  | [a], _, hd, _, _ =>
    obtain ⟨i, hi, rfl⟩ := digit_idx (hd a (by simp)).1 (hd a (by simp)).2
    exact recognise_sound (dec_octet_table hi (j := 0) (k := 0) (by omega) (by omega)).1
  | [a, b], _, hd, hz, _ =>
    obtain ⟨i, hi, rfl⟩ := digit_idx (hd a (by simp)).1 (hd a (by simp)).2
    obtain ⟨j, hj, rfl⟩ := digit_idx (hd b (by simp)).1 (hd b (by simp)).2
    have hi0 : i ≠ 0 := by
      rintro rfl
      exact hz ⟨by simp, rfl⟩
    exact recognise_sound ((dec_octet_table hi hj (k := 0) (by omega)).2.1 hi0)
  | [a, b, c], _, hd, hz, hv =>
    obtain ⟨i, hi, rfl⟩ := digit_idx (hd a (by simp)).1 (hd a (by simp)).2
    obtain ⟨j, hj, rfl⟩ := digit_idx (hd b (by simp)).1 (hd b (by simp)).2
    obtain ⟨k, hk, rfl⟩ := digit_idx (hd c (by simp)).1 (hd c (by simp)).2
    have hi0 : i ≠ 0 := by
      rintro rfl
      exact hz ⟨by simp, rfl⟩
    simp only [List.foldl_cons, List.foldl_nil, dg_val hi, dg_val hj, dg_val hk] at hv
    exact recognise_sound ((dec_octet_table hi hj hk).2.2 hi0 (by omega))
  | a :: b :: c :: d :: rest, _, hd, hz, hv =>
    exfalso
    obtain ⟨i, hi, rfl⟩ := digit_idx (hd a (by simp)).1 (hd a (by simp)).2
    have hi0 : i ≠ 0 := by
      rintro rfl
      exact hz ⟨by simp, rfl⟩
    simp only [List.foldl_cons, dg_val hi] at hv
    have := foldl_ge rest ((((0 * 10 + i) * 10 + (b.toNat - 48)) * 10 + (c.toNat - 48)) * 10 + (d.toNat - 48))
    omega

theorem dec_octet_sound : A 3 ⊑ .ref .dec_octet := by
  intro s h
  obtain ⟨hne, hd, hz, hv⟩ := atomLang_maxDigits (unf_dec_octet s h)
  exact dec_octet_of_digits hne hd hz hv

/-! ### Literals -/

theorem incl_ch {c : UInt8} : ch c ⊑ .lit [c] := by
  intro s hs
  obtain ⟨c', hc, rfl⟩ := atomLang_one hs
  cases (List.mem_singleton.mp hc)
  exact .lit (by simp [litMatch])

theorem incl_string {cs : List UInt8} : AtomLang (.string cs) ⊑ .lit cs := by
  intro s hs
  cases atomLang_string hs
  exact .lit (by simp [litMatch])

theorem incl_success {hi a} : AtomLang .success ⊑ .rep 0 hi a := by
  intro s hs
  cases atomLang_success hs
  exact .repNil

/-! ### IPv4address, h16, ls32 -/

theorem IPv4address_sound : A 4 ⊑ .ref .IPv4address := fun s h =>
  incl_ref (incl_cat dec_octet_sound (incl_cat incl_ch (incl_cat dec_octet_sound (incl_cat incl_ch
    (incl_cat dec_octet_sound (incl_cat incl_ch dec_octet_sound)))))) s (unf_IPv4address s h)

theorem h16_sound : A 5 ⊑ .ref .h16 := by
  intro s h
  have h : cat (A 2) (upto1 2 (A 2)) s := unf_h16 s h
  obtain ⟨s₁, s₂, rfl, d₁, d₂⟩ := h
  exact .ref (.repCons (by simp) (HEXDIG_sound _ d₁) (incl_upto1 HEXDIG_sound 2 _ d₂))

theorem ls32_sound : A 6 ⊑ .ref .ls32 := fun s h =>
  incl_ref (incl_alt (incl_altL (incl_cat h16_sound (incl_cat incl_ch h16_sound))) (incl_altR IPv4address_sound)) s (unf_ls32 s h)

theorem dcolon_sound : A 7 ⊑ .lit [58, 58] := fun s h => incl_string s (unf_dcolon s h)

/-! ### unreserved, pct-encoded, pchar and the path / query / fragment rules -/

theorem unreserved_sound : A 11 ⊑ .ref .unreserved := fun s h =>
  incl_ref (incl_alt (incl_altL ALPHA_sound) (incl_alt (incl_altR (incl_altL DIGIT_sound))
    (incl_altR (incl_altR (incl_chs (by decide +kernel)))))) s (unf_unreserved s h)

theorem reserved_sound : A 12 ⊑ .ref .reserved := fun s h =>
  incl_ref (incl_alt (incl_altL gen_delims_sound) (incl_altR sub_delims_sound)) s (unf_reserved s h)

theorem pct_encoded_sound : A 15 ⊑ .ref .pct_encoded := fun s h =>
  incl_ref (incl_cat incl_ch (incl_cat HEXDIG_sound HEXDIG_sound)) s (unf_pct_encoded s h)

theorem pchar_sound : A 16 ⊑ .ref .pchar := fun s h =>
  incl_ref (incl_alt (incl_altL unreserved_sound) (incl_alt (incl_altR (incl_altL pct_encoded_sound))
    (incl_alt (incl_altR (incl_altR (incl_altL sub_delims_sound)))
      (incl_altR (incl_altR (incl_altR (incl_chs (by decide +kernel)))))))) s (unf_pchar s h)

theorem query_sound : A 17 ⊑ .ref .query := fun s h =>
  incl_ref (incl_star (incl_alt (incl_altL pchar_sound) (incl_altR (incl_chs (by decide +kernel))))) s (unf_query s h)

theorem fragment_sound : A 18 ⊑ .ref .fragment := fun s h =>
  incl_ref (incl_star (incl_alt (incl_altL pchar_sound) (incl_altR (incl_chs (by decide +kernel))))) s (unf_fragment s h)

theorem segment_sound : A 19 ⊑ .ref .segment := fun s h => incl_ref (incl_star pchar_sound) s (unf_segment s h)

theorem segment_nz_sound : A 20 ⊑ .ref .segment_nz := fun s h => incl_ref (incl_plus pchar_sound) s (unf_segment_nz s h)

theorem segment_nz_nc_sound : A 21 ⊑ .ref .segment_nz_nc := fun s h =>
  incl_ref (incl_plus (incl_alt (incl_altL unreserved_sound) (incl_alt (incl_altR (incl_altL pct_encoded_sound))
    (incl_alt (incl_altR (incl_altR (incl_altL sub_delims_sound))) (incl_altR (incl_altR (incl_altR incl_ch))))))) s
    (unf_segment_nz_nc s h)

theorem slash_segments : Star (cat (ch 47) (A 19)) ⊑ .rep 0 none (.cat (.lit [47]) (.ref .segment)) :=
  incl_star (incl_cat incl_ch segment_sound)

theorem path_abempty_sound : A 22 ⊑ .ref .path_abempty := fun s h => incl_ref slash_segments s (unf_path_abempty s h)

theorem path_absolute_sound : A 23 ⊑ .ref .path_absolute := fun s h =>
  incl_ref (incl_cat incl_ch (incl_opt (incl_cat segment_nz_sound slash_segments))) s (unf_path_absolute s h)

theorem path_noscheme_sound : A 24 ⊑ .ref .path_noscheme := fun s h =>
  incl_ref (incl_cat segment_nz_nc_sound slash_segments) s (unf_path_noscheme s h)

theorem path_rootless_sound : A 25 ⊑ .ref .path_rootless := fun s h =>
  incl_ref (incl_cat segment_nz_sound slash_segments) s (unf_path_rootless s h)

theorem path_empty_sound : A 26 ⊑ .ref .path_empty := fun s h => incl_ref incl_success s (unf_path_empty s h)

theorem path_sound : A 27 ⊑ .ref .path := fun s h =>
  incl_ref (incl_alt (incl_altR (incl_altR (incl_altL path_noscheme_sound)))
    (incl_alt (incl_altR (incl_altR (incl_altR (incl_altL path_rootless_sound))))
      (incl_alt (incl_altR (incl_altL path_absolute_sound)) (incl_altL path_abempty_sound)))) s (unf_path s h)

/-! ### IP-literal, host, authority -/

theorem IPvFuture_sound : A 13 ⊑ .ref .IPvFuture := fun s h =>
  incl_ref (incl_cat (incl_chs (by decide +kernel)) (incl_cat (incl_plus HEXDIG_sound) (incl_cat incl_ch
    (incl_plus (incl_alt (incl_altL unreserved_sound) (incl_alt (incl_altR (incl_altL sub_delims_sound))
      (incl_altR (incl_altR incl_ch)))))))) s (unf_IPvFuture s h)

theorem reg_name_sound : A 28 ⊑ .ref .reg_name := fun s h =>
  incl_ref (incl_star (incl_alt (incl_altL unreserved_sound) (incl_alt (incl_altR (incl_altL pct_encoded_sound))
    (incl_altR (incl_altR sub_delims_sound))))) s (unf_reg_name s h)

theorem port_sound : A 29 ⊑ .ref .port := fun s h => incl_ref (incl_star DIGIT_sound) s (unf_port s h)

theorem userinfo_sound : A 31 ⊑ .ref .userinfo := fun s h =>
  incl_ref (incl_star (incl_alt (incl_altL unreserved_sound) (incl_alt (incl_altR (incl_altL pct_encoded_sound))
    (incl_alt (incl_altR (incl_altR (incl_altL sub_delims_sound))) (incl_altR (incl_altR (incl_altR incl_ch))))))) s
    (unf_userinfo s h)

theorem opt_userinfo_sound : A 32 ⊑ .rep 0 (some 1) (.cat (.ref .userinfo) (.lit [64])) := fun s h =>
  incl_opt (incl_cat userinfo_sound incl_ch) s (unf_opt_userinfo s h)

theorem scheme_sound : A 34 ⊑ .ref .scheme := fun s h =>
  incl_ref (incl_cat ALPHA_sound (incl_star (incl_alt (incl_altL ALPHA_sound) (incl_alt (incl_altR (incl_altL DIGIT_sound))
    (incl_altR (incl_altR (incl_chs (by decide +kernel)))))))) s (unf_scheme s h)

/-! ### IPv6address -/

/-- `h16 ":"`. -/
abbrev hc : AExp RuleName := .cat (.ref .h16) (.lit [58])

theorem derives_cat_inv {N : Type} {g : N → AExp N} {a b : AExp N} {w : List UInt8} (h : Derives g (.cat a b) w) :
    ∃ s t, w = s ++ t ∧ Derives g a s ∧ Derives g b t := by
  cases h with
  | cat h₁ h₂ => exact ⟨_, _, rfl, h₁, h₂⟩

theorem hc_incl : cat (A 5) (ch 58) ⊑ hc := incl_cat h16_sound incl_ch

theorem head_step {k : Nat} {x y : List UInt8} (hx : Derives rfc3986 hc x)
    (hy : Derives rfc3986 (.cat (.rep 0 (some (k + 1)) hc) (.ref .h16)) y) :
    Derives rfc3986 (.cat (.rep 0 (some (k + 2)) hc) (.ref .h16)) (x ++ y) := by
  obtain ⟨r, t, rfl, hr, ht⟩ := derives_cat_inv hy
  rw [← List.append_assoc]
  exact .cat (.repCons (by simp) hx hr) ht

/-- `h16 *k( ":" h16 )` (the PEG's `h16, rep_opt< k, colon, h16 >`) is `*k( h16 ":" ) h16` (the RFC's spelling). -/
theorem head_incl : ∀ k, cat (A 5) (upto1 k (cat (ch 58) (A 5))) ⊑ .cat (.rep 0 (some (k + 1)) hc) (.ref .h16)
  | 0 => by
    rintro s ⟨h, t, rfl, dh, dt⟩
    rcases dt with ⟨c, h', rfl, dc, dh'⟩ | e
    · rw [← List.append_assoc]
      exact .cat (derives_opt (.cat (h16_sound _ dh) (incl_ch _ dc))) (h16_sound _ dh')
    · cases (show t = [] from e)
      simpa using Derives.cat (g := rfc3986) (a := .rep 0 (some 1) hc) .repNil (h16_sound _ dh)
  | k + 1 => by
    rintro s ⟨h, t, rfl, dh, dt⟩
    rcases dt with ⟨ch', u, rfl, ⟨c, h', rfl, dc, dh'⟩, du⟩ | e
    · have ih := head_incl k (h' ++ u) ⟨h', u, rfl, dh', du⟩
      have := head_step (x := h ++ c) (.cat (h16_sound _ dh) (incl_ch _ dc)) ih
      simpa [List.append_assoc] using this
    · cases (show t = [] from e)
      simpa using Derives.cat (g := rfc3986) (a := .rep 0 (some (k + 1 + 1)) hc) .repNil (h16_sound _ dh)

theorem IPv6address_sound : A 8 ⊑ .ref .IPv6address := by
  intro s h
  have a1 := incl_cat (incl_pow1 hc_incl 5) ls32_sound
  have a2 := incl_cat dcolon_sound (incl_cat (incl_pow1 hc_incl 4) ls32_sound)
  have a3 := incl_cat (incl_opt h16_sound) (incl_cat dcolon_sound (incl_cat (incl_pow1 hc_incl 3) ls32_sound))
  have a4 := incl_cat (incl_opt (head_incl 0)) (incl_cat dcolon_sound (incl_cat (incl_pow1 hc_incl 2) ls32_sound))
  have a5 := incl_cat (incl_opt (head_incl 1)) (incl_cat dcolon_sound (incl_cat (incl_pow1 hc_incl 1) ls32_sound))
  have a6 := incl_cat (incl_opt (head_incl 2)) (incl_cat dcolon_sound (incl_cat h16_sound (incl_cat (incl_ch (c := 58)) ls32_sound)))
  have a7 := incl_cat (incl_opt (head_incl 3)) (incl_cat dcolon_sound ls32_sound)
  have a8 := incl_cat (incl_opt (head_incl 4)) (incl_cat dcolon_sound h16_sound)
  have a9 := incl_cat (incl_opt (head_incl 5)) dcolon_sound
  refine incl_ref (n := .IPv6address) ?_ s (unf_IPv6address s h)
  refine incl_alt (incl_altL a1) (incl_alt (incl_altR (incl_altL a2)) (incl_alt (incl_altR (incl_altR (incl_altL a3)))
    (incl_alt (incl_altR (incl_altR (incl_altR (incl_altL a4))))
    (incl_alt (incl_altR (incl_altR (incl_altR (incl_altR (incl_altL a5)))))
    (incl_alt (incl_altR (incl_altR (incl_altR (incl_altR (incl_altR (incl_altL a6))))))
    (incl_alt (incl_altR (incl_altR (incl_altR (incl_altR (incl_altR (incl_altR (incl_altL a7)))))))
    (incl_alt (incl_altR (incl_altR (incl_altR (incl_altR (incl_altR (incl_altR (incl_altR (incl_altL a8))))))))
      (incl_altR (incl_altR (incl_altR (incl_altR (incl_altR (incl_altR (incl_altR (incl_altR a9)))))))))))))))

/-! ### host, authority, hier-part, and the top-level rules -/

theorem IP_literal_sound : A 14 ⊑ .ref .IP_literal := fun s h =>
  incl_ref (incl_cat incl_ch (incl_cat (incl_alt (incl_altR IPvFuture_sound) (incl_altL IPv6address_sound)) incl_ch)) s
    (unf_IP_literal s h)

theorem host_sound : A 30 ⊑ .ref .host := fun s h =>
  incl_ref (incl_alt (incl_altL IP_literal_sound) (incl_alt (incl_altR (incl_altL IPv4address_sound))
    (incl_altR (incl_altR reg_name_sound)))) s (unf_host s h)

theorem authority_sound : A 33 ⊑ .ref .authority := fun s h =>
  incl_ref (incl_cat opt_userinfo_sound (incl_cat host_sound (incl_opt (incl_cat incl_ch port_sound)))) s (unf_authority s h)

theorem authority_part : cat (AtomLang (.string [47, 47])) (cat (A 33) (A 22)) ⊑
    .cat (.lit [47, 47]) (.cat (.ref .authority) (.ref .path_abempty)) :=
  incl_cat incl_string (incl_cat authority_sound path_abempty_sound)

theorem hier_part_sound : A 35 ⊑ .ref .hier_part := fun s h =>
  incl_ref (incl_alt (incl_altL authority_part) (incl_alt (incl_altR (incl_altR (incl_altL path_rootless_sound)))
    (incl_alt (incl_altR (incl_altL path_absolute_sound)) (incl_altR (incl_altR (incl_altR path_empty_sound)))))) s
    (unf_hier_part s h)

theorem relative_part_sound : A 36 ⊑ .ref .relative_part := fun s h =>
  incl_ref (incl_alt (incl_altL authority_part) (incl_alt (incl_altR (incl_altR (incl_altL path_noscheme_sound)))
    (incl_alt (incl_altR (incl_altL path_absolute_sound)) (incl_altR (incl_altR (incl_altR path_empty_sound)))))) s
    (unf_relative_part s h)

theorem opt_query_sound : alt (cat (ch 63) (A 17)) eps ⊑ .rep 0 (some 1) (.cat (.lit [63]) (.ref .query)) :=
  incl_opt (incl_cat incl_ch query_sound)

theorem opt_fragment_sound : alt (cat (ch 35) (A 18)) eps ⊑ .rep 0 (some 1) (.cat (.lit [35]) (.ref .fragment)) :=
  incl_opt (incl_cat incl_ch fragment_sound)

theorem relative_ref_sound : A 37 ⊑ .ref .relative_ref := fun s h =>
  incl_ref (incl_cat relative_part_sound (incl_cat opt_query_sound opt_fragment_sound)) s (unf_relative_ref s h)

theorem URI_sound : A 38 ⊑ .ref .URI := fun s h =>
  incl_ref (incl_cat scheme_sound (incl_cat incl_ch (incl_cat hier_part_sound (incl_cat opt_query_sound opt_fragment_sound)))) s
    (unf_URI s h)

theorem URI_reference_sound : A 39 ⊑ .ref .URI_reference := fun s h =>
  incl_ref (incl_alt (incl_altL URI_sound) (incl_altR relative_ref_sound)) s (unf_URI_reference s h)

theorem absolute_URI_sound : A 40 ⊑ .ref .absolute_URI := fun s h =>
  incl_ref (incl_cat scheme_sound (incl_cat incl_ch (incl_cat hier_part_sound opt_query_sound))) s (unf_absolute_URI s h)

/-! ### The roots `seq< X, eof >` -/

theorem G_eof : G 128 = some (.atom .eof) := by decide +kernel

/-- A successful match of a root `seq< X, eof >` from offset 0 means: `X` consumed the whole input. -/
theorem top_inv {r x : Nat} (hr : G r = some (.seq (.ref x) (.seq (.ref 128) .eps)))
    {eol : Eol} {inp : Array UInt8} {q : Nat} (h : Sem G eol inp inp.size (.ref r) 0 (.ok q)) :
    A x inp.toList ∧ q = inp.size := by
  cases h with
  | ref hG hS =>
    rw [hr] at hG; cases hG
    cases hS with
    | seqOk h₁ h₂ =>
      cases h₂ with
      | seqOk h₃ h₄ =>
        cases h₄
        cases h₃ with
        | ref hG' hS' =>
          rw [G_eof] at hG'; cases hG'
          cases hS' with
          | atomOk ha =>
            simp only [atomSem] at ha
            split at ha
            · rename_i hm
              cases ha
              subst hm
              exact ⟨⟨eol, inp, inp.size, 0, _, Nat.le_refl _, h₁, (slice_zero_size inp).symm⟩, rfl⟩
            · cases ha

/-! ### The table as a parsing context; its `raise` labels -/

/-- The parsing context of one run over the committed table. -/
abbrev cxOf (inp : Array UInt8) : Ctx := { g := Expected.uri, inp := inp }

theorem start_valid (inp : Array UInt8) : Valid (cxOf inp) (cxOf inp).start := ⟨Nat.zero_le _, Nat.le_refl _⟩

/-- The rules a `parse_error` of this grammar can blame: `must< R >` exists only inside the `if_must` /
    `opt_must` of `pct_encoded` (HEXDIG = 2), `IPvFuture` (`plus< HEXDIG >` = 84, `.` = 41, the tail = 87),
    `IP_literal` (`sor< IPvFuture, IPv6address >` = 92, `]` = 94), the `//` authority (authority = 33,
    path_abempty = 22), `?` (query = 17) and `#` (fragment = 18). -/
def mustTargets : List Nat := [2, 17, 18, 22, 33, 41, 84, 87, 92, 94]

/-- Every rule body of the table is free of `catchN` and raises only `mustTargets` (133-entry table, by evaluation). -/
theorem uri_raises : ∀ i e, G i = some e → RaisesOnly (fun l => mustTargets.contains l) e = true := by
  intro i e h
  by_cases hi : i < Expected.uri.size
  · have T : (List.range Expected.uri.size).all (fun i =>
        match G i with
        | some e => RaisesOnly (fun l => mustTargets.contains l) e
        | none => true) = true := by decide +kernel
    have := List.all_eq_true.mp T i (List.mem_range.mpr hi)
    rw [h] at this
    exact this
  · have : G i = none := by
      simp only [G, Gof, Option.map_eq_none_iff]
      exact Array.getElem?_eq_none (Nat.le_of_not_lt hi)
    rw [this] at h; cases h

end Pegtl.Uri
