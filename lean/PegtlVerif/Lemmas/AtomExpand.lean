/-
  Lemmas/AtomExpand.lean — the multi-byte atoms mean what the rule reference says they are
  equivalent to: `string< c... >` ≡ `seq< one< c >... >`, `istring`, `bytes< N >` ≡ `rep< N, any >`,
  `ranges< … >` ≡ `sor< range…, one >` (C09).
-/
import PegtlVerif.Lemmas.SemDet

namespace Pegtl.Spec
open Pegtl

variable {G : Nat → Option PExp} {eol : Eol} {inp : Array UInt8}

def atomOutcome (eol : Eol) (inp : Array UInt8) (endp : Nat) (a : Atom) (p : Nat) : Outcome :=
  match atomSem eol inp endp a p with
  | some q => .ok q
  | none => .fail

theorem sem_atom_outcome (endp : Nat) (a : Atom) (p : Nat) :
    Sem G eol inp endp (.atom a) p (atomOutcome eol inp endp a p) := by
  unfold atomOutcome
  cases h : atomSem eol inp endp a p with
  | some q => exact .atomOk h
  | none => exact .atomFail h

/-- Two expressions with the same (deterministic) outcome at a point have the same meaning there. -/
theorem sem_iff_of_outcome {endp : Nat} {e₁ e₂ : PExp} {p : Nat} {o : Outcome}
    (h₁ : Sem G eol inp endp e₁ p o) (h₂ : Sem G eol inp endp e₂ p o) (o' : Outcome) :
    Sem G eol inp endp e₁ p o' ↔ Sem G eol inp endp e₂ p o' :=
  ⟨fun h => by rw [Sem.det h h₁]; exact h₂, fun h => by rw [Sem.det h h₂]; exact h₁⟩

def oneOf (c : UInt8) : PExp := .atom (.one true [c])

/-- `seq< one< c₁ >, …, one< cₙ > >` at `p`. -/
theorem sem_seq_ones (endp : Nat) : ∀ (cs : List UInt8) (p : Nat), p ≤ endp →
    Sem G eol inp endp (seqL (cs.map oneOf)) p
      (if p + cs.length ≤ endp ∧ bytesAt inp p cs = true then .ok (p + cs.length) else .fail)
  | [], p, hp => by simp [seqL, bytesAt, hp]; exact .eps
  | c :: cs, p, hp => by
    have ih := fun h => sem_seq_ones endp cs (p + 1) h
    simp only [List.map, seqL, List.length_cons, bytesAt, Bool.and_eq_true, beq_iff_eq]
    by_cases h1 : p < endp ∧ inp.getD p 0 = c
    · have hone : Sem G eol inp endp (oneOf c) p (.ok (p + 1)) := by
        refine .atomOk ?_
        simp [atomSem, h1.1, h1.2]
      refine Sem.seqOk hone ?_
      by_cases h2 : p + 1 + cs.length ≤ endp ∧ bytesAt inp (p + 1) cs = true
      · have : p + (cs.length + 1) ≤ endp ∧ inp.getD p 0 = c ∧ bytesAt inp (p + 1) cs = true := ⟨by omega, h1.2, h2.2⟩
        rw [if_pos this]
        have ih := ih (by omega)
        rw [if_pos h2] at ih
        have e : p + (cs.length + 1) = p + 1 + cs.length := by omega
        rw [e]; exact ih
      · have : ¬(p + (cs.length + 1) ≤ endp ∧ inp.getD p 0 = c ∧ bytesAt inp (p + 1) cs = true) := by
          intro hh; exact h2 ⟨by omega, hh.2.2⟩
        rw [if_neg this]
        have ih := ih (by omega)
        rw [if_neg h2] at ih
        exact ih
    · have hone : Sem G eol inp endp (oneOf c) p .fail := by
        refine .atomFail ?_
        simp only [atomSem, List.contains_cons, List.contains_nil, Bool.or_false, beq_iff_eq]
        rw [if_neg]
        intro hh
        exact h1 ⟨hh.1, by simpa [eq_comm] using hh.2⟩
      have : ¬(p + (cs.length + 1) ≤ endp ∧ inp.getD p 0 = c ∧ bytesAt inp (p + 1) cs = true) := by
        intro hh; exact h1 ⟨by omega, hh.2.1⟩
      rw [if_neg this]
      exact Sem.seqFail hone

theorem atomOutcome_string (endp : Nat) (cs : List UInt8) (p : Nat) :
    atomOutcome eol inp endp (.string cs) p =
      (if p + cs.length ≤ endp ∧ bytesAt inp p cs = true then .ok (p + cs.length) else .fail) := by
  simp only [atomOutcome, atomSem]
  split <;> rename_i h
  · split at h
    · rename_i hc; simp only [Option.some.injEq] at h; subst h; rw [if_pos hc]
    · simp at h
  · split at h
    · simp at h
    · rename_i hc; rw [if_neg hc]

/-- `rep< n, any >` at `p`. -/
theorem sem_rep_any (endp : Nat) : ∀ (n p : Nat), p ≤ endp →
    Sem G eol inp endp (repE n (.atom .any)) p (if p + n ≤ endp then .ok (p + n) else .fail)
  | 0, p, hp => by simp [repE, hp]; exact .eps
  | n + 1, p, hp => by
    have ih := fun h => sem_rep_any endp n (p + 1) h
    simp only [repE]
    by_cases h1 : p < endp
    · have hany : Sem G eol inp endp (.atom .any) p (.ok (p + 1)) := .atomOk (by simp [atomSem, h1])
      refine Sem.seqOk hany ?_
      by_cases h2 : p + 1 + n ≤ endp
      · rw [if_pos (by omega : p + (n + 1) ≤ endp)]
        have ih := ih (by omega)
        rw [if_pos h2] at ih
        have e : p + (n + 1) = p + 1 + n := by omega
        rw [e]; exact ih
      · rw [if_neg (by omega : ¬ p + (n + 1) ≤ endp)]
        have ih := ih (by omega)
        rw [if_neg h2] at ih
        exact ih
    · have hany : Sem G eol inp endp (.atom .any) p .fail := .atomFail (by simp [atomSem, h1])
      rw [if_neg (by omega : ¬ p + (n + 1) ≤ endp)]
      exact Sem.seqFail hany

theorem atomOutcome_bytes (endp n p : Nat) :
    atomOutcome eol inp endp (.bytes n) p = (if p + n ≤ endp then .ok (p + n) else .fail) := by
  simp only [atomOutcome, atomSem]
  by_cases h : p + n ≤ endp <;> simp [h]

end Pegtl.Spec

namespace Pegtl.Spec
open Pegtl

variable {G : Nat → Option PExp} {eol : Eol} {inp : Array UInt8}

def isAlphaU (c : UInt8) : Bool := (97 ≤ c && c ≤ 122) || (65 ≤ c && c ≤ 90)

/-- `istring`'s per-character test (`ichar_equal`): a letter matches itself and its other case. -/
def ioneOf (c : UInt8) : PExp := .atom (.one true (if isAlphaU c then [c, c ^^^ 0x20] else [c]))

theorem ione_test (c d : UInt8) :
    ((if isAlphaU c then [c, c ^^^ 0x20] else [c]).contains d = true) ↔
      ((if (97 ≤ c && c ≤ 122) || (65 ≤ c && c ≤ 90) then (c == d || c ^^^ 0x20 == d) else c == d) = true) := by
  unfold isAlphaU
  by_cases h : ((97 ≤ c && c ≤ 122) || (65 ≤ c && c ≤ 90)) = true
  · rw [if_pos h, if_pos h]
    simp only [List.contains_cons, List.contains_nil, Bool.or_false, Bool.or_eq_true, beq_iff_eq]
    constructor
    · rintro (h1 | h1)
      · exact Or.inl h1.symm
      · exact Or.inr h1.symm
    · rintro (h1 | h1)
      · exact Or.inl h1.symm
      · exact Or.inr h1.symm
  · rw [if_neg h, if_neg h]
    simp only [List.contains_cons, List.contains_nil, Bool.or_false, beq_iff_eq]
    exact ⟨fun h1 => h1.symm, fun h1 => h1.symm⟩

/-- `seq< ione< c₁ >, …, ione< cₙ > >` at `p`. -/
theorem sem_seq_iones (endp : Nat) : ∀ (cs : List UInt8) (p : Nat), p ≤ endp →
    Sem G eol inp endp (seqL (cs.map ioneOf)) p
      (if p + cs.length ≤ endp ∧ ibytesAt inp p cs = true then .ok (p + cs.length) else .fail)
  | [], p, hp => by simp [seqL, ibytesAt, hp]; exact .eps
  | c :: cs, p, hp => by
    have ih := fun h => sem_seq_iones endp cs (p + 1) h
    have htest := ione_test c (inp.getD p 0)
    simp only [List.map, seqL, List.length_cons, ibytesAt, Bool.and_eq_true]
    by_cases h1 : p < endp ∧ (if isAlphaU c then [c, c ^^^ 0x20] else [c]).contains (inp.getD p 0) = true
    · have hone : Sem G eol inp endp (ioneOf c) p (.ok (p + 1)) := by
        refine .atomOk ?_
        simp only [atomSem]
        rw [if_pos ⟨h1.1, h1.2⟩]
      refine Sem.seqOk hone ?_
      have ht := htest.mp h1.2
      by_cases h2 : p + 1 + cs.length ≤ endp ∧ ibytesAt inp (p + 1) cs = true
      · rw [if_pos ⟨by omega, ht, h2.2⟩]
        have ih := ih (by omega)
        rw [if_pos h2] at ih
        have e : p + (cs.length + 1) = p + 1 + cs.length := by omega
        rw [e]; exact ih
      · rw [if_neg (fun hh => h2 ⟨by omega, hh.2.2⟩)]
        have ih := ih (by omega)
        rw [if_neg h2] at ih
        exact ih
    · have hone : Sem G eol inp endp (ioneOf c) p .fail := by
        refine .atomFail ?_
        simp only [atomSem]
        rw [if_neg]
        intro hh
        exact h1 ⟨hh.1, hh.2⟩
      rw [if_neg (fun hh => h1 ⟨by omega, htest.mpr hh.2.1⟩)]
      exact Sem.seqFail hone

theorem atomOutcome_istring (endp : Nat) (cs : List UInt8) (p : Nat) :
    atomOutcome eol inp endp (.istring cs) p =
      (if p + cs.length ≤ endp ∧ ibytesAt inp p cs = true then .ok (p + cs.length) else .fail) := by
  simp only [atomOutcome, atomSem]
  by_cases hc : p + cs.length ≤ endp ∧ ibytesAt inp p cs = true
  · rw [if_pos hc, if_pos hc]
  · rw [if_neg hc, if_neg hc]

end Pegtl.Spec

namespace Pegtl.Spec
open Pegtl

variable {G : Nat → Option PExp} {eol : Eol} {inp : Array UInt8}

/-! ### `rep_one_min_max< lo, hi, c >` ≡ `rep_min_max< lo, hi, one< c > >` -/

/-- Number of consecutive `c`s from `p`, inside `[p, endp)` (fuel: the bytes left). -/
def runLenF (inp : Array UInt8) (endp : Nat) (c : UInt8) : Nat → Nat → Nat
  | 0, _ => 0
  | f + 1, p => if p < endp ∧ inp.getD p 0 = c then runLenF inp endp c f (p + 1) + 1 else 0

def runLen (inp : Array UInt8) (endp : Nat) (c : UInt8) (p : Nat) : Nat := runLenF inp endp c (endp - p) p

theorem runLenF_le (inp : Array UInt8) (endp : Nat) (c : UInt8) : ∀ f p, runLenF inp endp c f p ≤ f
  | 0, _ => by simp [runLenF]
  | f + 1, p => by
    simp only [runLenF]
    split
    · have := runLenF_le inp endp c f (p + 1); omega
    · omega

theorem runLen_step (inp : Array UInt8) (endp : Nat) (c : UInt8) (p : Nat) :
    runLen inp endp c p = if p < endp ∧ inp.getD p 0 = c then runLen inp endp c (p + 1) + 1 else 0 := by
  unfold runLen
  by_cases h : p < endp
  · have : endp - p = (endp - (p + 1)) + 1 := by omega
    rw [this]
    simp only [runLenF]
  · have : endp - p = 0 := by omega
    rw [this]
    simp [runLenF, h]

theorem runLen_le (inp : Array UInt8) (endp : Nat) (c : UInt8) (p : Nat) : p + runLen inp endp c p ≤ max p endp := by
  unfold runLen
  have := runLenF_le inp endp c (endp - p) p
  omega

theorem sem_one_c (endp : Nat) (c : UInt8) (p : Nat) :
    Sem G eol inp endp (oneOf c) p (if 0 < runLen inp endp c p then .ok (p + 1) else .fail) := by
  rw [runLen_step]
  by_cases h : p < endp ∧ inp.getD p 0 = c
  · rw [if_pos h, if_pos (by omega)]
    exact .atomOk (by simp [atomSem, h.1, h.2])
  · rw [if_neg h, if_neg (by omega)]
    refine .atomFail ?_
    simp only [atomSem, List.contains_cons, List.contains_nil, Bool.or_false, beq_iff_eq]
    rw [if_neg]
    intro hh
    exact h ⟨hh.1, by simpa [eq_comm] using hh.2⟩

theorem runLen_succ_of_pos {endp : Nat} {c : UInt8} {p : Nat} (h : 0 < runLen inp endp c p) :
    runLen inp endp c p = runLen inp endp c (p + 1) + 1 := by
  rw [runLen_step] at h ⊢
  split at h
  · rename_i hc; rw [if_pos hc]
  · omega

/-- `rep< n, one< c > >` -/
theorem sem_rep_c (endp : Nat) (c : UInt8) : ∀ (n p : Nat),
    Sem G eol inp endp (repE n (oneOf c)) p (if n ≤ runLen inp endp c p then .ok (p + n) else .fail)
  | 0, p => by simp [repE]; exact .eps
  | n + 1, p => by
    have h1 := sem_one_c (G := G) (eol := eol) (inp := inp) endp c p
    have ih := sem_rep_c endp c n (p + 1)
    simp only [repE]
    by_cases hpos : 0 < runLen inp endp c p
    · rw [if_pos hpos] at h1
      refine Sem.seqOk h1 ?_
      have hs := runLen_succ_of_pos hpos
      by_cases hn : n ≤ runLen inp endp c (p + 1)
      · rw [if_pos (by omega)]
        rw [if_pos hn] at ih
        have e : p + (n + 1) = p + 1 + n := by omega
        rw [e]; exact ih
      · rw [if_neg (by omega)]
        rw [if_neg hn] at ih
        exact ih
    · rw [if_neg hpos] at h1
      rw [if_neg (by omega)]
      exact Sem.seqFail h1

/-- `rep_opt< n, one< c > >`: greedy, never fails. -/
theorem sem_repOpt_c (endp : Nat) (c : UInt8) : ∀ (n p : Nat),
    Sem G eol inp endp (repOptE n (oneOf c)) p (.ok (p + min n (runLen inp endp c p)))
  | 0, p => by simp [repOptE]; exact .eps
  | n + 1, p => by
    have h1 := sem_one_c (G := G) (eol := eol) (inp := inp) endp c p
    have ih := sem_repOpt_c endp c n (p + 1)
    simp only [repOptE]
    by_cases hpos : 0 < runLen inp endp c p
    · rw [if_pos hpos] at h1
      have hs := runLen_succ_of_pos hpos
      have e : p + min (n + 1) (runLen inp endp c p) = p + 1 + min n (runLen inp endp c (p + 1)) := by
        rw [hs]; omega
      rw [e]
      exact Sem.altOk (Sem.seqOk h1 ih)
    · rw [if_neg hpos] at h1
      have e : p + min (n + 1) (runLen inp endp c p) = p := by omega
      rw [e]
      exact Sem.altFail (Sem.seqFail h1) .eps

theorem sem_not_c (endp : Nat) (c : UInt8) (p : Nat) :
    Sem G eol inp endp (.not_ (oneOf c)) p (if runLen inp endp c p = 0 then .ok p else .fail) := by
  have h1 := sem_one_c (G := G) (eol := eol) (inp := inp) endp c p
  by_cases hpos : 0 < runLen inp endp c p
  · rw [if_pos hpos] at h1
    rw [if_neg (by omega)]
    exact Sem.notOk h1
  · rw [if_neg hpos] at h1
    rw [if_pos (by omega)]
    exact Sem.notFail h1

theorem runLen_add (endp : Nat) (c : UInt8) : ∀ (k p : Nat), k ≤ runLen inp endp c p →
    runLen inp endp c (p + k) = runLen inp endp c p - k
  | 0, p, _ => by simp
  | k + 1, p, h => by
    have hpos : 0 < runLen inp endp c p := by omega
    have hs := runLen_succ_of_pos hpos
    have := runLen_add endp c k (p + 1) (by omega)
    have e : p + (k + 1) = p + 1 + k := by omega
    rw [e, this, hs]; omega

/-- The documented expansion `seq< rep< lo, one< c > >, rep_opt< hi - lo, one< c > >, not_at< one< c > > >`. -/
def repOneExpansion (lo hi : Nat) (c : UInt8) : PExp :=
  .seq (repE lo (oneOf c)) (.seq (repOptE (hi - lo) (oneOf c)) (.not_ (oneOf c)))

theorem sem_repOneExpansion (endp lo hi : Nat) (c : UInt8) (p : Nat) (hlh : lo ≤ hi) :
    Sem G eol inp endp (repOneExpansion lo hi c) p
      (if lo ≤ runLen inp endp c p ∧ runLen inp endp c p ≤ hi then .ok (p + runLen inp endp c p) else .fail) := by
  unfold repOneExpansion
  have h1 := sem_rep_c (G := G) (eol := eol) (inp := inp) endp c lo p
  by_cases hlo : lo ≤ runLen inp endp c p
  · rw [if_pos hlo] at h1
    refine Sem.seqOk h1 ?_
    have h2 := sem_repOpt_c (G := G) (eol := eol) (inp := inp) endp c (hi - lo) (p + lo)
    have hr := runLen_add (inp := inp) endp c lo p hlo
    have h3 := sem_not_c (G := G) (eol := eol) (inp := inp) endp c (p + lo + min (hi - lo) (runLen inp endp c (p + lo)))
    have hr2 := runLen_add (inp := inp) endp c (min (hi - lo) (runLen inp endp c (p + lo))) (p + lo) (Nat.min_le_right _ _)
    rw [hr2] at h3
    rw [hr] at h2 h3
    refine Sem.seqOk h2 ?_
    by_cases hhi : runLen inp endp c p ≤ hi
    · rw [if_pos ⟨hlo, hhi⟩]
      have e1 : min (hi - lo) (runLen inp endp c p - lo) = runLen inp endp c p - lo := by omega
      rw [e1] at h3 ⊢
      rw [if_pos (by omega)] at h3
      have e2 : p + lo + (runLen inp endp c p - lo) = p + runLen inp endp c p := by omega
      rw [e2] at h3 ⊢
      exact h3
    · rw [if_neg (fun hh => hhi hh.2)]
      have e1 : min (hi - lo) (runLen inp endp c p - lo) = hi - lo := by omega
      rw [e1] at h3 ⊢
      rw [if_neg (by omega)] at h3
      exact h3
  · rw [if_neg hlo] at h1
    rw [if_neg (fun hh => hlo hh.1)]
    exact Sem.seqFail h1

end Pegtl.Spec

namespace Pegtl.Spec
open Pegtl

variable {eol : Eol} {inp : Array UInt8}

theorem takeWhile_take_length {α : Type} (q : α → Bool) : ∀ (l : List α) (n : Nat),
    ((l.take n).takeWhile q).length = min n (l.takeWhile q).length
  | [], n => by simp
  | x :: xs, 0 => by simp
  | x :: xs, n + 1 => by
    simp only [List.take_succ_cons, List.takeWhile]
    split
    · simp only [List.length_cons, takeWhile_take_length q xs n]; omega
    · simp

/-- The list view of the window agrees with the indexed run length. -/
theorem window_run (endp : Nat) (c : UInt8) (hsz : endp ≤ inp.size) : ∀ (f p : Nat), endp - p = f →
    (((inp.toList.drop p).take (endp - p)).takeWhile (· == c)).length = runLen inp endp c p
  | 0, p, hf => by
    rw [hf, runLen_step]
    simp only [List.take_zero, List.takeWhile_nil, List.length_nil]
    rw [if_neg (by omega)]
  | f + 1, p, hf => by
    have hp : p < endp := by omega
    have hps : p < inp.size := by omega
    have hd : inp.toList.drop p = inp.getD p 0 :: inp.toList.drop (p + 1) := by
      rw [List.drop_eq_getElem_cons (by simpa using hps)]
      simp [Array.getD, hps]
    have e : endp - p = (endp - (p + 1)) + 1 := by omega
    rw [runLen_step, hd, e, List.take_succ_cons, List.takeWhile]
    have ih := window_run endp c hsz f (p + 1) (by omega)
    by_cases hc : inp.getD p 0 = c
    · have : (inp.getD p 0 == c) = true := by simpa using hc
      rw [this, if_pos ⟨hp, hc⟩]
      simp only [List.length_cons, ih]
    · have : (inp.getD p 0 == c) = false := by simpa using hc
      rw [this, if_neg (fun hh => hc hh.2)]
      simp

theorem atomOutcome_repOne (endp lo hi : Nat) (c : UInt8) (p : Nat) (hp : p ≤ endp) (hsz : endp ≤ inp.size) (hlh : lo ≤ hi) :
    atomOutcome eol inp endp (.repOne lo hi c) p =
      (if lo ≤ runLen inp endp c p ∧ runLen inp endp c p ≤ hi then .ok (p + runLen inp endp c p) else .fail) := by
  have hr := window_run (inp := inp) endp c hsz (endp - p) p rfl
  have hle := runLen_le inp endp c p
  have hwl : ((inp.toList.drop p).take (endp - p)).length = endp - p := by
    simp only [List.length_take, List.length_drop, Array.length_toList]; omega
  simp only [atomOutcome, atomSem, takeWhile_take_length, hr, List.length_take, hwl]
  by_cases hc : lo ≤ runLen inp endp c p ∧ runLen inp endp c p ≤ hi
  · rw [if_pos hc]
    have h1 : ¬ (min (hi + 1) (endp - p) < lo) := by omega
    have h2 : lo ≤ min (hi + 1) (runLen inp endp c p) ∧ min (hi + 1) (runLen inp endp c p) ≤ hi := by omega
    rw [if_neg h1, if_pos h2]
    have : min (hi + 1) (runLen inp endp c p) = runLen inp endp c p := by omega
    simp [this]
  · rw [if_neg hc]
    by_cases h1 : min (hi + 1) (endp - p) < lo
    · rw [if_pos h1]
    · rw [if_neg h1]
      have h2 : ¬ (lo ≤ min (hi + 1) (runLen inp endp c p) ∧ min (hi + 1) (runLen inp endp c p) ≤ hi) := by
        intro hh; apply hc; omega
      rw [if_neg h2]

end Pegtl.Spec
