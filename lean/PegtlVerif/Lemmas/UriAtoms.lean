/-
  Lemmas/UriAtoms.lean — what the atomic rules occurring in contrib/uri.hpp can have consumed
  (`AtomLang` of Lemmas/UriDen.lean, spelled out per atom).
-/
import PegtlVerif.Lemmas.UriDen

namespace Pegtl.Spec
open Lang

theorem slice_one {inp : Array UInt8} {p : Nat} (h : p < inp.size) : slice inp p (p + 1) = [inp.getD p 0] := by
  unfold slice
  have hl : p < inp.toList.length := by simpa using h
  rw [List.drop_eq_getElem_cons hl]
  simp [Array.getD, h]

theorem slice_cons {inp : Array UInt8} {p q : Nat} (h : p < inp.size) (hq : p < q) :
    slice inp p q = inp.getD p 0 :: slice inp (p + 1) q := by
  rw [slice_append inp (Nat.le_succ p) hq, slice_one h]; rfl

theorem atomLang_one {cs : List UInt8} {s : List UInt8} (h : AtomLang (.one true cs) s) :
    ∃ c, c ∈ cs ∧ s = [c] := by
  obtain ⟨eol, inp, endp, p, q, he, ha, rfl⟩ := h
  simp only [atomSem] at ha
  split at ha
  · rename_i hc
    cases ha
    refine ⟨inp.getD p 0, by simpa using hc.2, slice_one (by omega)⟩
  · cases ha

theorem atomLang_range {lo hi : UInt8} {s : List UInt8} (h : AtomLang (.range true lo hi) s) :
    ∃ c, lo ≤ c ∧ c ≤ hi ∧ s = [c] := by
  obtain ⟨eol, inp, endp, p, q, he, ha, rfl⟩ := h
  simp only [atomSem] at ha
  split at ha
  · rename_i hc
    cases ha
    have := hc.2
    simp only [decide_eq_true_eq] at this
    exact ⟨inp.getD p 0, this.1, this.2, slice_one (by omega)⟩
  · cases ha

theorem atomLang_ranges {rs : List (UInt8 × UInt8)} {s : List UInt8} (h : AtomLang (.ranges rs none) s) :
    ∃ c, (∃ r ∈ rs, r.1 ≤ c ∧ c ≤ r.2) ∧ s = [c] := by
  obtain ⟨eol, inp, endp, p, q, he, ha, rfl⟩ := h
  simp only [atomSem] at ha
  split at ha
  · rename_i hc
    cases ha
    have := hc.2
    simp only [Bool.or_eq_true, List.any_eq_true, Bool.and_eq_true, decide_eq_true_eq, beq_iff_eq] at this
    rcases this with ⟨r, hr, h1, h2⟩ | h
    · exact ⟨inp.getD p 0, ⟨r, hr, h1, h2⟩, slice_one (by omega)⟩
    · cases h
  · cases ha

theorem bytesAt_slice {inp : Array UInt8} : ∀ (cs : List UInt8) (p : Nat), p + cs.length ≤ inp.size →
    bytesAt inp p cs = true → slice inp p (p + cs.length) = cs
  | [], p, _, _ => by simp [slice_self]
  | c :: cs, p, hl, hb => by
    simp only [bytesAt, Bool.and_eq_true, beq_iff_eq] at hb
    simp only [List.length_cons] at hl ⊢
    rw [slice_cons (by omega) (by omega), hb.1]
    have := bytesAt_slice cs (p + 1) (by omega) hb.2
    rw [show p + (cs.length + 1) = p + 1 + cs.length by omega, this]

theorem atomLang_string {cs : List UInt8} {s : List UInt8} (h : AtomLang (.string cs) s) : s = cs := by
  obtain ⟨eol, inp, endp, p, q, he, ha, rfl⟩ := h
  simp only [atomSem] at ha
  split at ha
  · rename_i hc
    cases ha
    exact bytesAt_slice cs p (by omega) hc.2
  · cases ha

theorem atomLang_success {s : List UInt8} (h : AtomLang .success s) : s = [] := by
  obtain ⟨eol, inp, endp, p, q, he, ha, rfl⟩ := h
  simp only [atomSem] at ha
  cases ha
  exact slice_self _ _

theorem atomLang_eof {s : List UInt8} (h : AtomLang .eof s) : s = [] := by
  obtain ⟨eol, inp, endp, p, q, he, ha, rfl⟩ := h
  simp only [atomSem] at ha
  split at ha
  · cases ha; exact slice_self _ _
  · cases ha

theorem mem_takeWhile_imp {α} {p : α → Bool} {c : α} : ∀ {l : List α}, c ∈ l.takeWhile p → p c = true
  | [], h => by simp at h
  | a :: l, h => by
    simp only [List.takeWhile_cons] at h
    split at h
    · rename_i hp
      rcases List.mem_cons.mp h with rfl | h
      · exact hp
      · exact mem_takeWhile_imp h
    · simp at h

theorem atomLang_maxDigits {mx : Nat} {s : List UInt8} (h : AtomLang (.maxDigits mx) s) :
    s ≠ [] ∧ (∀ c ∈ s, 48 ≤ c ∧ c ≤ 57) ∧ ¬(s.length > 1 ∧ s.head? = some 48) ∧
      s.foldl (fun acc d => acc * 10 + (d.toNat - 48)) 0 ≤ mx := by
  obtain ⟨eol, inp, endp, p, q, he, ha, rfl⟩ := h
  simp only [atomSem] at ha
  generalize hds : List.takeWhile (fun c => decide (48 ≤ c) && decide (c ≤ 57)) (List.take (endp - p) (List.drop p inp.toList)) = ds at ha
  have hpre : ds <+: inp.toList.drop p := by
    rw [← hds]
    exact (List.takeWhile_prefix _).trans (List.take_prefix _ _)
  have hsl : ∀ n, n = ds.length → slice inp p (p + n) = ds := by
    intro n hn
    unfold slice
    rw [show p + n - p = ds.length by omega]
    exact (List.prefix_iff_eq_take.mp hpre).symm
  have hdig : ∀ c ∈ ds, 48 ≤ c ∧ c ≤ 57 := by
    intro c hc
    rw [← hds] at hc
    have := mem_takeWhile_imp hc
    simpa using this
  split at ha
  · cases ha
  · rename_i hne
    split at ha
    · cases ha
    · rename_i hz
      split at ha
      · rename_i hv
        cases ha
        rw [hsl _ rfl]
        refine ⟨by simpa using hne, hdig, hz, hv⟩
      · cases ha
end Pegtl.Spec
