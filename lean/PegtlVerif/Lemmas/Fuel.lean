/-
  Lemmas/Fuel.lean — the fuel-indexed interpreter `run` is monotone in its fuel: more fuel
  (and a larger loop budget) never changes a result that was already defined.
-/
import PegtlVerif.Model.Run

namespace Pegtl

/-- `rec'` is defined wherever `rec` is, with the same result. -/
def RecLe (rec rec' : Rec) : Prop :=
  ∀ j a m env st r, rec j a m env st = some r → rec' j a m env st = some r

theorem RecLe.refl (rec : Rec) : RecLe rec rec := fun _ _ _ _ _ _ h => h

theorem RecLe.trans {r1 r2 r3 : Rec} (h12 : RecLe r1 r2) (h23 : RecLe r2 r3) : RecLe r1 r3 :=
  fun _ _ _ _ _ _ h => h23 _ _ _ _ _ _ (h12 _ _ _ _ _ _ h)

section helpers
variable {rec rec' : Rec} (hle : RecLe rec rec')
include hle

theorem seqAll_mono (a : AMode) (m : RMode) (env : Env) :
    ∀ (cs : List Nat) (st : St) (r : Ret),
      seqAll rec a m env cs st = some r → seqAll rec' a m env cs st = some r := by
  intro cs
  induction cs with
  | nil => intro st r h; simpa only [seqAll] using h
  | cons c cs ih =>
    intro st r h
    simp only [seqAll] at h
    split at h
    · exact absurd h (by simp)
    · rename_i r1 h1
      have h1' := hle _ _ _ _ _ _ h1
      simp only [seqAll, h1']
      cases hres : r1.res with
      | ok =>
        simp only [hres] at h ⊢
        split at h
        · exact absurd h (by simp)
        · rename_i r2 h2
          simp only [ih _ _ h2]
          exact h
      | fail => simp only [hres] at h ⊢; exact h
      | thr e => simp only [hres] at h ⊢; exact h

theorem sorAny_mono (a : AMode) (m : RMode) (env : Env) :
    ∀ (cs : List Nat) (st : St) (r : Ret),
      sorAny rec a m env cs st = some r → sorAny rec' a m env cs st = some r := by
  intro cs
  induction cs with
  | nil => intro st r h; simpa only [sorAny] using h
  | cons c cs ih =>
    intro st r h
    cases cs with
    | nil =>
      simp only [sorAny] at h ⊢
      exact hle _ _ _ _ _ _ h
    | cons c' cs' =>
      simp only [sorAny] at h
      split at h
      · exact absurd h (by simp)
      · rename_i r1 h1
        have h1' := hle _ _ _ _ _ _ h1
        simp only [sorAny, h1']
        cases hres : r1.res with
        | fail =>
          simp only [hres] at h ⊢
          split at h
          · exact absurd h (by simp)
          · rename_i r2 h2
            simp only [ih _ _ h2]
            exact h
        | ok => simp only [hres] at h ⊢; exact h
        | thr e => simp only [hres] at h ⊢; exact h

theorem loopStar_mono (a : AMode) (env : Env) (cs : List Nat) :
    ∀ (k k' : Nat) (st : St) (r : Ret), k ≤ k' →
      loopStar rec a env cs k st = some r → loopStar rec' a env cs k' st = some r := by
  intro k
  induction k with
  | zero => intro k' st r _ h; simp [loopStar] at h
  | succ k ih =>
    intro k' st r hk h
    obtain ⟨k'', rfl⟩ : ∃ k'', k' = k'' + 1 := ⟨k' - 1, by omega⟩
    have hk'' : k ≤ k'' := by omega
    simp only [loopStar] at h
    split at h
    · exact absurd h (by simp)
    · rename_i r1 h1
      have h1' := seqAll_mono hle _ _ _ _ _ _ h1
      simp only [loopStar, h1']
      cases hres : r1.res with
      | ok =>
        simp only [hres] at h ⊢
        split at h
        · exact absurd h (by simp)
        · rename_i r2 h2
          simp only [ih _ _ _ hk'' h2]
          exact h
      | fail => simp only [hres] at h ⊢; exact h
      | thr e => simp only [hres] at h ⊢; exact h

theorem loopUntil1_mono (cx : Ctx) (a : AMode) (env : Env) (cond : Nat) :
    ∀ (k k' : Nat) (st : St) (r : Ret), k ≤ k' →
      loopUntil1 cx rec a env cond k st = some r → loopUntil1 cx rec' a env cond k' st = some r := by
  intro k
  induction k with
  | zero => intro k' st r _ h; simp [loopUntil1] at h
  | succ k ih =>
    intro k' st r hk h
    obtain ⟨k'', rfl⟩ : ∃ k'', k' = k'' + 1 := ⟨k' - 1, by omega⟩
    have hk'' : k ≤ k'' := by omega
    simp only [loopUntil1] at h
    split at h
    · exact absurd h (by simp)
    · rename_i r1 h1
      have h1' := hle _ _ _ _ _ _ h1
      simp only [loopUntil1, h1']
      cases hres : r1.res with
      | ok => simp only [hres] at h ⊢; exact h
      | thr e => simp only [hres] at h ⊢; exact h
      | fail =>
        simp only [hres] at h ⊢
        cases hemp : r1.st.empty with
        | true => simp only [hemp, if_true] at h ⊢; exact h
        | false =>
          simp only [hemp, Bool.false_eq_true, if_false] at h ⊢
          split at h
          · exact absurd h (by simp)
          · rename_i r2 h2
            simp only [ih _ _ _ hk'' h2]
            exact h

theorem loopUntil2_mono (a : AMode) (env : Env) (cond b : Nat) :
    ∀ (k k' : Nat) (st : St) (r : Ret), k ≤ k' →
      loopUntil2 rec a env cond b k st = some r → loopUntil2 rec' a env cond b k' st = some r := by
  intro k
  induction k with
  | zero => intro k' st r _ h; simp [loopUntil2] at h
  | succ k ih =>
    intro k' st r hk h
    obtain ⟨k'', rfl⟩ : ∃ k'', k' = k'' + 1 := ⟨k' - 1, by omega⟩
    have hk'' : k ≤ k'' := by omega
    simp only [loopUntil2] at h
    split at h
    · exact absurd h (by simp)
    · rename_i r1 h1
      have h1' := hle _ _ _ _ _ _ h1
      simp only [loopUntil2, h1']
      cases hres : r1.res with
      | ok => simp only [hres] at h ⊢; exact h
      | thr e => simp only [hres] at h ⊢; exact h
      | fail =>
        simp only [hres] at h ⊢
        split at h
        · exact absurd h (by simp)
        · rename_i r2 h2
          have h2' := hle _ _ _ _ _ _ h2
          simp only [h2']
          cases hres2 : r2.res with
          | ok =>
            simp only [hres2] at h ⊢
            split at h
            · exact absurd h (by simp)
            · rename_i r3 h3
              simp only [ih _ _ _ hk'' h3]
              exact h
          | fail => simp only [hres2] at h ⊢; exact h
          | thr e => simp only [hres2] at h ⊢; exact h

theorem repN_mono (a : AMode) (m : RMode) (env : Env) (c : Nat) :
    ∀ (n : Nat) (st : St) (r : Ret),
      repN rec a m env c n st = some r → repN rec' a m env c n st = some r := by
  intro n
  induction n with
  | zero => intro st r h; simpa only [repN] using h
  | succ n ih =>
    intro st r h
    simp only [repN] at h
    split at h
    · exact absurd h (by simp)
    · rename_i r1 h1
      have h1' := hle _ _ _ _ _ _ h1
      simp only [repN, h1']
      cases hres : r1.res with
      | ok =>
        simp only [hres] at h ⊢
        split at h
        · exact absurd h (by simp)
        · rename_i r2 h2
          simp only [ih _ _ h2]
          exact h
      | fail => simp only [hres] at h ⊢; exact h
      | thr e => simp only [hres] at h ⊢; exact h

theorem repUpTo_mono (a : AMode) (env : Env) (c : Nat) :
    ∀ (n : Nat) (st : St) (r : Ret × Bool),
      repUpTo rec a env c n st = some r → repUpTo rec' a env c n st = some r := by
  intro n
  induction n with
  | zero => intro st r h; simpa only [repUpTo] using h
  | succ n ih =>
    intro st r h
    simp only [repUpTo] at h
    split at h
    · exact absurd h (by simp)
    · rename_i r1 h1
      have h1' := hle _ _ _ _ _ _ h1
      simp only [repUpTo, h1']
      cases hres : r1.res with
      | ok =>
        simp only [hres] at h ⊢
        split at h
        · exact absurd h (by simp)
        · rename_i r2 full h2
          simp only [ih _ _ h2]
          exact h
      | fail => simp only [hres] at h ⊢; exact h
      | thr e => simp only [hres] at h ⊢; exact h

theorem loopStarStrict_mono (a : AMode) (env : Env) (c rest : Nat) :
    ∀ (k k' : Nat) (st : St) (r : Ret), k ≤ k' →
      loopStarStrict rec a env c rest k st = some r →
        loopStarStrict rec' a env c rest k' st = some r := by
  intro k
  induction k with
  | zero => intro k' st r _ h; simp [loopStarStrict] at h
  | succ k ih =>
    intro k' st r hk h
    obtain ⟨k'', rfl⟩ : ∃ k'', k' = k'' + 1 := ⟨k' - 1, by omega⟩
    have hk'' : k ≤ k'' := by omega
    simp only [loopStarStrict] at h
    split at h
    · exact absurd h (by simp)
    · rename_i r1 h1
      have h1' := hle _ _ _ _ _ _ h1
      simp only [loopStarStrict, h1']
      cases hres : r1.res with
      | fail => simp only [hres] at h ⊢; exact h
      | thr e => simp only [hres] at h ⊢; exact h
      | ok =>
        simp only [hres] at h ⊢
        split at h
        · exact absurd h (by simp)
        · rename_i r2 h2
          have h2' := hle _ _ _ _ _ _ h2
          simp only [h2']
          cases hres2 : r2.res with
          | ok =>
            simp only [hres2] at h ⊢
            split at h
            · exact absurd h (by simp)
            · rename_i r3 h3
              simp only [ih _ _ _ hk'' h3]
              exact h
          | fail => simp only [hres2] at h ⊢; exact h
          | thr e => simp only [hres2] at h ⊢; exact h

theorem rematchAll_mono (a : AMode) (env : Env) (saved : Cursor) :
    ∀ (cs : List Nat) (st : St) (r : Ret),
      rematchAll rec a env saved cs st = some r → rematchAll rec' a env saved cs st = some r := by
  intro cs
  induction cs with
  | nil => intro st r h; simpa only [rematchAll] using h
  | cons c cs ih =>
    intro st r h
    simp only [rematchAll] at h
    split at h
    · exact absurd h (by simp)
    · rename_i r1 h1
      have h1' := hle _ _ _ _ _ _ h1
      simp only [rematchAll, h1']
      cases hres : r1.res with
      | ok =>
        simp only [hres] at h ⊢
        split at h
        · exact absurd h (by simp)
        · rename_i r2 h2
          simp only [ih _ _ h2]
          exact h
      | fail => simp only [hres] at h ⊢; exact h
      | thr e => simp only [hres] at h ⊢; exact h

end helpers

/-- Every combinator body is monotone in the sub-rule oracle and in the loop budget. -/
theorem body_mono {rec rec' : Rec} (h : RecLe rec rec') (cx : Ctx) {k k' : Nat} (hk : k ≤ k')
    (kind : Kind) (a : AMode) (m : RMode) (env : Env) (st : St) (r : Ret) :
    body cx rec k kind a m env st = some r → body cx rec' k' kind a m env st = some r := by
  intro hb
  cases kind with
  | atom atm => simpa only [body] using hb
  | seq cs =>
    simp only [body] at hb ⊢
    split at hb
    · exact h _ _ _ _ _ _ hb
    · simp only [Option.map_eq_some_iff] at hb ⊢
      obtain ⟨r0, h0, rfl⟩ := hb
      exact ⟨r0, seqAll_mono h _ _ _ _ _ _ h0, rfl⟩
  | sor cs =>
    simp only [body] at hb ⊢
    exact sorAny_mono h _ _ _ _ _ _ hb
  | starPartial cs =>
    simp only [body] at hb ⊢
    exact loopStar_mono h _ _ _ _ _ _ _ hk hb
  | partialR cs =>
    simp only [body, Option.map_eq_some_iff] at hb ⊢
    obtain ⟨r0, h0, rfl⟩ := hb
    exact ⟨r0, seqAll_mono h _ _ _ _ _ _ h0, rfl⟩
  | plus c =>
    simp only [body] at hb
    split at hb
    · exact absurd hb (by simp)
    · rename_i r1 h1
      have h1' := h _ _ _ _ _ _ h1
      simp only [body, h1']
      cases hres : r1.res with
      | ok =>
        simp only [hres, Option.map_eq_some_iff] at hb ⊢
        obtain ⟨r2, h2, rfl⟩ := hb
        exact ⟨r2, loopStar_mono h _ _ _ _ _ _ _ hk h2, rfl⟩
      | fail => simp only [hres] at hb ⊢; exact hb
      | thr e => simp only [hres] at hb ⊢; exact hb
  | atR c =>
    simp only [body, Option.map_eq_some_iff] at hb ⊢
    obtain ⟨r0, h0, rfl⟩ := hb
    exact ⟨r0, h _ _ _ _ _ _ h0, rfl⟩
  | notAt c =>
    simp only [body, Option.map_eq_some_iff] at hb ⊢
    obtain ⟨r0, h0, rfl⟩ := hb
    exact ⟨r0, h _ _ _ _ _ _ h0, rfl⟩
  | until1 cond =>
    simp only [body, Option.map_eq_some_iff] at hb ⊢
    obtain ⟨r0, h0, rfl⟩ := hb
    exact ⟨r0, loopUntil1_mono h _ _ _ _ _ _ _ _ hk h0, rfl⟩
  | until2 cond b =>
    simp only [body, Option.map_eq_some_iff] at hb ⊢
    obtain ⟨r0, h0, rfl⟩ := hb
    exact ⟨r0, loopUntil2_mono h _ _ _ _ _ _ _ _ hk h0, rfl⟩
  | rep n c =>
    simp only [body, Option.map_eq_some_iff] at hb ⊢
    obtain ⟨r0, h0, rfl⟩ := hb
    exact ⟨r0, repN_mono h _ _ _ _ _ _ _ h0, rfl⟩
  | repMinMax lo hi c na =>
    simp only [body] at hb
    split at hb
    · exact absurd hb (by simp)
    · rename_i r1 h1
      have h1' := repN_mono h _ _ _ _ _ _ _ h1
      simp only [body, h1']
      cases hres : r1.res with
      | ok =>
        simp only [hres] at hb ⊢
        split at hb
        · exact absurd hb (by simp)
        · rename_i r2 full h2
          have h2' := repUpTo_mono h _ _ _ _ _ _ h2
          simp only [h2']
          split at hb
          · rename_i hc
            simp only [hc, and_self, if_true]
            split at hb
            · exact absurd hb (by simp)
            · rename_i r3 h3
              simp only [h _ _ _ _ _ _ h3]
              exact hb
          · rename_i hc
            simp only [hc, if_false]
            exact hb
      | fail => simp only [hres] at hb ⊢; exact hb
      | thr e => simp only [hres] at hb ⊢; exact hb
  | repOpt n c =>
    simp only [body, Option.map_eq_some_iff] at hb ⊢
    obtain ⟨r0, h0, rfl⟩ := hb
    exact ⟨r0, repUpTo_mono h _ _ _ _ _ _ h0, rfl⟩
  | ifThenElse c t e =>
    simp only [body] at hb
    split at hb
    · exact absurd hb (by simp)
    · rename_i r1 h1
      have h1' := h _ _ _ _ _ _ h1
      simp only [body, h1']
      cases hres : r1.res with
      | ok =>
        simp only [hres, Option.map_eq_some_iff] at hb ⊢
        obtain ⟨r2, h2, rfl⟩ := hb
        exact ⟨r2, h _ _ _ _ _ _ h2, rfl⟩
      | fail =>
        simp only [hres, Option.map_eq_some_iff] at hb ⊢
        obtain ⟨r2, h2, rfl⟩ := hb
        exact ⟨r2, h _ _ _ _ _ _ h2, rfl⟩
      | thr e => simp only [hres] at hb ⊢; exact hb
  | strict c rest =>
    simp only [body] at hb
    split at hb
    · exact absurd hb (by simp)
    · rename_i r1 h1
      have h1' := h _ _ _ _ _ _ h1
      simp only [body, h1']
      cases hres : r1.res with
      | ok =>
        simp only [hres, Option.map_eq_some_iff] at hb ⊢
        obtain ⟨r2, h2, rfl⟩ := hb
        exact ⟨r2, h _ _ _ _ _ _ h2, rfl⟩
      | fail => simp only [hres] at hb ⊢; exact hb
      | thr e => simp only [hres] at hb ⊢; exact hb
  | starStrict c rest =>
    simp only [body, Option.map_eq_some_iff] at hb ⊢
    obtain ⟨r0, h0, rfl⟩ := hb
    exact ⟨r0, loopStarStrict_mono h _ _ _ _ _ _ _ _ hk h0, rfl⟩
  | rematch head rs =>
    cases rs with
    | nil =>
      simp only [body] at hb ⊢
      exact h _ _ _ _ _ _ hb
    | cons c0 rs0 =>
      simp only [body] at hb
      split at hb
      · exact absurd hb (by simp)
      · rename_i r1 h1
        have h1' := h _ _ _ _ _ _ h1
        simp only [body, h1']
        cases hres : r1.res with
        | ok =>
          simp only [hres] at hb ⊢
          split at hb
          · exact absurd hb (by simp)
          · rename_i r2 h2
            simp only [rematchAll_mono h _ _ _ _ _ _ h2]
            exact hb
        | fail => simp only [hres] at hb ⊢; exact hb
        | thr e => simp only [hres] at hb ⊢; exact hb
  | must c =>
    simp only [body] at hb
    split at hb
    · exact absurd hb (by simp)
    · rename_i r1 h1
      have h1' := h _ _ _ _ _ _ h1
      simp only [body, h1']
      exact hb
  | ifMust dflt cond mn =>
    simp only [body] at hb
    split at hb
    · exact absurd hb (by simp)
    · rename_i r1 h1
      have h1' := h _ _ _ _ _ _ h1
      simp only [body, h1']
      cases hres : r1.res with
      | ok =>
        simp only [hres, Option.map_eq_some_iff] at hb ⊢
        obtain ⟨r2, h2, rfl⟩ := hb
        exact ⟨r2, h _ _ _ _ _ _ h2, rfl⟩
      | fail => simp only [hres] at hb ⊢; exact hb
      | thr e => simp only [hres] at hb ⊢; exact hb
  | raise t => simpa only [body] using hb
  | tryCatchReturnFalse ex c =>
    simp only [body, Option.map_eq_some_iff] at hb ⊢
    obtain ⟨r0, h0, rfl⟩ := hb
    exact ⟨r0, h _ _ _ _ _ _ h0, rfl⟩
  | tryCatchRaiseNested ex c =>
    simp only [body, Option.map_eq_some_iff] at hb ⊢
    obtain ⟨r0, h0, rfl⟩ := hb
    exact ⟨r0, h _ _ _ _ _ _ h0, rfl⟩
  | enable c => simp only [body] at hb ⊢; exact h _ _ _ _ _ _ hb
  | disable c => simp only [body] at hb ⊢; exact h _ _ _ _ _ _ hb
  | action fam c => simp only [body] at hb ⊢; exact h _ _ _ _ _ _ hb
  | state d c =>
    simp only [body, Option.map_eq_some_iff] at hb ⊢
    obtain ⟨r0, h0, rfl⟩ := hb
    exact ⟨r0, h _ _ _ _ _ _ h0, rfl⟩
  | ifApply c acts =>
    simp only [body] at hb ⊢
    split at hb
    · rename_i hc
      rw [if_pos hc]
      simp only [Option.map_eq_some_iff] at hb ⊢
      obtain ⟨r0, h0, rfl⟩ := hb
      exact ⟨r0, h _ _ _ _ _ _ h0, rfl⟩
    · rename_i hc
      rw [if_neg hc]
      exact h _ _ _ _ _ _ hb
  | applyR acts => simpa only [body] using hb
  | control kc c => simp only [body] at hb ⊢; exact h _ _ _ _ _ _ hb

/-- The match.hpp protocol around a body is monotone as well. -/
theorem nodeCore_mono {rec rec' : Rec} (h : RecLe rec rec') (cx : Ctx) {k k' : Nat} (hk : k ≤ k')
    (i : Nat) (nd : Node) (a : AMode) (m : RMode) (env : Env) (st : St) (r : Ret) :
    nodeCore cx rec k i nd a m env st = some r → nodeCore cx rec' k' i nd a m env st = some r := by
  intro hn
  unfold nodeCore at hn ⊢
  cases hctl : nd.ctl with
  | false =>
    simp only [hctl, Bool.not_false, if_true] at hn ⊢
    exact body_mono h cx hk _ _ _ _ _ _ hn
  | true =>
    simp only [hctl, Bool.not_true, Bool.false_eq_true, if_false, Option.map_eq_some_iff] at hn ⊢
    obtain ⟨r0, h0, rfl⟩ := hn
    exact ⟨r0, body_mono h cx hk _ _ _ _ _ _ h0, rfl⟩

theorem limitDepthCall_mono {core core' : St → Out} (h : ∀ st r, core st = some r → core' st = some r) (cx : Ctx)
    (n : Nat) (st : St) (r : Ret) : limitDepthCall cx core n st = some r → limitDepthCall cx core' n st = some r := by
  intro hn
  unfold limitDepthCall at hn ⊢
  split
  · rename_i hc
    simpa [hc] using hn
  · rename_i hc
    simp only [hc, if_false, Option.map_eq_some_iff] at hn ⊢
    obtain ⟨r0, h0, rfl⟩ := hn
    exact ⟨r0, h _ _ h0, rfl⟩

theorem limitBytesCall_mono {core core' : St → Out} (h : ∀ st r, core st = some r → core' st = some r) (cx : Ctx)
    (n : Nat) (st : St) (r : Ret) : limitBytesCall cx core n st = some r → limitBytesCall cx core' n st = some r := by
  intro hn
  unfold limitBytesCall at hn ⊢
  simp only [Option.map_eq_some_iff] at hn ⊢
  obtain ⟨r0, h0, rfl⟩ := hn
  exact ⟨r0, h _ _ h0, rfl⟩

theorem nodeCall_mono {rec rec' : Rec} (h : RecLe rec rec') (cx : Ctx) {k k' : Nat} (hk : k ≤ k')
    (i : Nat) (a : AMode) (m : RMode) (env : Env) (st : St) (r : Ret) :
    nodeCall cx rec k i a m env st = some r → nodeCall cx rec' k' i a m env st = some r := by
  intro hn
  unfold nodeCall at hn ⊢
  cases hg : cx.g[i]? with
  | none => simp only [hg] at hn; exact absurd hn (by simp)
  | some nd =>
    simp only [hg, Option.map_eq_some_iff] at hn ⊢
    obtain ⟨r0, h0, rfl⟩ := hn
    refine ⟨r0, ?_, rfl⟩
    split at h0
    · exact nodeCore_mono h cx hk _ _ _ _ _ _ _ h0
    · exact h _ _ _ _ _ _ h0
    · exact nodeCore_mono h cx hk _ _ _ _ _ _ _ h0
    · exact nodeCore_mono h cx hk _ _ _ _ _ _ _ h0
    · exact limitDepthCall_mono (fun st r hc => nodeCore_mono h cx hk _ _ _ _ _ _ _ hc) cx _ _ _ h0
    · exact limitBytesCall_mono (fun st r hc => nodeCore_mono h cx hk _ _ _ _ _ _ _ hc) cx _ _ _ h0
    · simp only [Option.map_eq_some_iff] at h0 ⊢
      obtain ⟨r1, h1, rfl⟩ := h0
      exact ⟨r1, nodeCore_mono h cx hk _ _ _ _ _ _ _ h1, rfl⟩
    · simp only [Option.map_eq_some_iff] at h0 ⊢
      obtain ⟨r1, h1, rfl⟩ := h0
      exact ⟨r1, h _ _ _ _ _ _ h1, rfl⟩
    · exact nodeCore_mono h cx hk _ _ _ _ _ _ _ h0

theorem run_step (cx : Ctx) : ∀ n, RecLe (run cx n) (run cx (n + 1)) := by
  intro n
  induction n with
  | zero => intro j a m env st r hr; simp [run] at hr
  | succ n ih =>
    intro j a m env st r hr
    simp only [run] at hr ⊢
    exact nodeCall_mono ih cx (Nat.le_succ n) j a m env st r hr

/-- More fuel never changes a defined result. -/
theorem run_mono (cx : Ctx) : ∀ (n n' : Nat), n ≤ n' → RecLe (run cx n) (run cx n') := by
  intro n n' hnn
  induction n' with
  | zero =>
    have : n = 0 := by omega
    subst this
    exact RecLe.refl _
  | succ n' ih =>
    by_cases hEq : n = n' + 1
    · subst hEq; exact RecLe.refl _
    · exact (ih (by omega)).trans (run_step cx n')

end Pegtl
