/-
  Lemmas/SemBody.lean — every combinator body, and the match.hpp protocol around it,
  refines the documented expansion of the rule in the PEG formalism.
-/
import PegtlVerif.Lemmas.SemHelpers

namespace Pegtl
open Pegtl.Spec

/-- An action that neither vetoes nor throws (void `apply` / `apply0`, or none) and has no
    `match()` of its own. -/
def PlainAct (s : ActionSpec) : Prop := s.throwMod = 0 ∧ (s.isBool = false ∨ s.vetoMod = 0) ∧ s.wrap = .none

/-- `internal::must< Rules... >`: `success`, `must< R >`, or a `seq` of `must< R >`. -/
def MustLike (g : Grammar) (i : Nat) : Prop :=
  ∃ nd, g[i]? = some nd ∧
    (nd.kind = .atom .success ∨ (∃ c, nd.kind = .must c) ∨
     (∃ cs, nd.kind = .seq cs ∧ ∀ c ∈ cs, ∃ ndc c', g[c]? = some ndc ∧ ndc.kind = .must c'))

/-- A rule-level action class that neither vetoes nor throws. -/
def RuleAct.plain (x : RuleAct) : Bool := x.throwMod == 0 && (!x.isBool || x.vetoMod == 0)

/-- The actions named by `apply< … >` / `if_apply< R, … >` are `void`-like. -/
def PlainRuleActs : Kind → Prop
  | .ifApply _ acts => ∀ x ∈ acts, x.plain = true
  | .applyR acts => ∀ x ∈ acts, x.plain = true
  | _ => True

theorem runActs_plain (cx : Ctx) (sd : Nat) (b e : Cursor) : ∀ acts : List RuleAct, (∀ x ∈ acts, x.plain = true) →
    (runActs cx sd b e acts).1 = .ok
  | [], _ => rfl
  | x :: xs, h => by
    have hx := h x (by simp)
    simp only [RuleAct.plain, Bool.and_eq_true, beq_iff_eq, Bool.or_eq_true, Bool.not_eq_true'] at hx
    have ht : x.spec.throws x.id (cx.rep b).pos (cx.rep e).pos = false := by
      simp [ActionSpec.throws, RuleAct.spec, hx.1]
    have hv : x.spec.vetoes x.id (cx.rep b).pos (cx.rep e).pos = false := by
      rcases hx.2 with h1 | h1 <;> simp [ActionSpec.vetoes, RuleAct.spec, h1]
    simp only [runActs, ht, hv]
    exact runActs_plain cx sd b e xs (fun y hy => h y (by simp [hy]))

/-- Conditions on the node table under which the refinement is stated: atoms whose meaning is a
    function of the byte offset, the hidden helper nodes are what the C++ templates create, and
    actions are `void`. -/
structure WFT (cx : Ctx) : Prop where
  atoms : ∀ (i : Nat) (nd : Node) (a : Atom), cx.g[i]? = some nd → nd.kind = .atom a → a.offsetOnly = true
  rmm : ∀ (i : Nat) (nd : Node) (lo hi c na : Nat), cx.g[i]? = some nd → nd.kind = .repMinMax lo hi c na →
    ∃ nd' : Node, cx.g[na]? = some nd' ∧ nd'.kind = .notAt c
  ifm : ∀ (i : Nat) (nd : Node) (d : Bool) (c mn : Nat), cx.g[i]? = some nd → nd.kind = .ifMust d c mn → MustLike cx.g mn
  plain : ∀ (env : Env) (i : Nat) (nd : Node), cx.g[i]? = some nd → PlainAct (cx.actOf env i nd)
  racts : ∀ (i : Nat) (nd : Node), cx.g[i]? = some nd → PlainRuleActs nd.kind
  nomsgs : cx.msgs = []        -- the run's control is not a `must_if< Errors >` control (which turns local failures into global ones)

theorem Gof_of {g : Grammar} {i : Nat} {nd : Node} (h : g[i]? = some nd) : Gof g i = some (expandKind nd.kind) := by
  simp [Gof, h]

theorem absO_guard_drop (g : RMode) (c : Cursor) (r : Ret) : absO (guardRestore g c r).dropOnFail = absO r := by
  cases hr : r.res with
  | ok =>
    apply absO_congr
    · simp
    · simp [guardRestore, hr]
  | fail => exact absO_nonok (by simp) (by simp [hr])
  | thr x => exact absO_nonok (by simp) (by simp [hr])

theorem SemR.guard {cx endp e p r} (g : RMode) (c : Cursor) (h : SemR cx endp e p r) :
    SemR cx endp e p (guardRestore g c r).dropOnFail := h.congr (absO_guard_drop g c r)

theorem catches_of_blame (ex : Catch) (x : Exc) (b : Blame) (h : blameOf x = some b) : ex.catches x = true := by
  cases x with
  | parse i c => cases ex <;> rfl
  | nested i c e => cases ex <;> rfl
  | foreign k s => simp [blameOf] at h

theorem err_of {r : Ret} {o : Outcome} {x : Exc} (ho : absO r = some o) (hx : r.res = .thr x) :
    ∃ b, o = .err b ∧ blameOf x = some b := by
  unfold absO at ho
  simp only [hx, Option.map_eq_some_iff] at ho
  obtain ⟨b, hb, rfl⟩ := ho
  exact ⟨b, rfl, hb⟩

section body
variable {cx : Ctx} {rec : Rec} (hg : GoodRec rec) (hs : SRec cx rec)
  (hnf : ∀ j a m env st r, MustLike cx.g j → rec j a m env st = some r → r.res ≠ .fail)
  (wf : WFT cx)
include hg hs hnf wf

theorem body_sem (k i : Nat) (nd : Node) (hn : cx.g[i]? = some nd) (a : AMode) (m : RMode)
    (env : Env) (st : St) (r : Ret) (hv : Valid cx st) (h : body cx rec k nd.kind a m env st = some r) :
    SemR cx st.endp (expandKind nd.kind) st.cur.pos r := by
  cases hk : nd.kind with
  | atom atm =>
    rw [hk] at h
    simp only [body, Option.some.injEq] at h
    subst h
    have hoff := wf.atoms i nd atm hn hk
    have hsem := atomStep_sem cx atm st hv hoff
    cases hb : (atomStep cx atm st).1 with
    | true =>
      refine ⟨.ok (atomStep cx atm st).2.cur.pos, by simp [absO, hb], .atomOk (hsem.1 hb)⟩
    | false =>
      refine ⟨.fail, by simp [absO, hb], .atomFail (hsem.2 hb)⟩
  | seq cs =>
    rw [hk] at h
    simp only [body] at h
    split at h
    · rename_i c
      obtain ⟨o, ho, s⟩ := hs _ _ _ _ _ _ hv h
      refine ⟨o, ho, ?_⟩
      cases o with
      | ok q => exact .seqOk s .eps
      | fail => exact .seqFail s
      | err b => exact .seqErr s
    · simp only [Option.map_eq_some_iff] at h
      obtain ⟨r0, h0, rfl⟩ := h
      exact (seqAll_sem hg hs _ _ _ _ _ _ hv h0).guard _ _
  | sor cs =>
    rw [hk] at h
    simp only [body] at h
    exact sorAny_sem hg hs _ _ _ _ _ _ hv h
  | starPartial cs =>
    rw [hk] at h
    simp only [body] at h
    simp only [expandKind]
    split
    · rename_i c
      exact loopStar1_sem hg hs _ _ _ _ _ _ hv h
    · exact loopStarN_sem hg hs _ _ _ _ _ _ hv h
  | partialR cs =>
    rw [hk] at h
    simp only [body, Option.map_eq_some_iff] at h
    obtain ⟨r0, h0, rfl⟩ := h
    exact seqAll_partial hg hs _ _ _ _ _ hv h0
  | plus c =>
    rw [hk] at h
    simp only [body] at h
    split at h
    · exact absurd h (by simp)
    · rename_i r1 h1
      have g1 := hg _ _ _ _ _ _ h1
      obtain ⟨o1, ho1, s1⟩ := hs _ _ _ _ _ _ hv h1
      split at h
      · rename_i hok
        simp only [Option.map_eq_some_iff] at h
        obtain ⟨r2, h2, rfl⟩ := h
        obtain ⟨o2, ho2, s2⟩ := loopStar1_sem hg hs _ _ _ _ _ _ (hv.of_weak g1.toWeak) h2
        rw [absO_ok hok] at ho1; cases ho1
        rw [g1.endp] at s2
        exact ⟨o2, ho2, .seqOk s1 s2⟩
      · rename_i hnok
        simp only [Option.some.injEq] at h; subst h
        exact ⟨o1, ho1, Sem.seq_stop s1 (absO_notOk ho1 (by intro h'; exact hnok h'))⟩
  | atR c =>
    rw [hk] at h
    simp only [body, Option.map_eq_some_iff] at h
    obtain ⟨r0, h0, rfl⟩ := h
    obtain ⟨o, ho, s⟩ := hs _ _ _ _ _ _ hv h0
    cases o with
    | ok q => exact ⟨.ok st.cur.pos, by simp [absO, alwaysRestore, (absO_ok_inv ho).1], .andOk s⟩
    | fail => exact ⟨.fail, by simp [absO, alwaysRestore, absO_fail_inv ho], .andFail s⟩
    | err b =>
      obtain ⟨x, hx, hb⟩ := absO_err_inv ho
      exact ⟨.err b, by simp [absO, alwaysRestore, hx, hb], .andErr s⟩
  | notAt c =>
    rw [hk] at h
    simp only [body, Option.map_eq_some_iff] at h
    obtain ⟨r0, h0, rfl⟩ := h
    obtain ⟨o, ho, s⟩ := hs _ _ _ _ _ _ hv h0
    cases o with
    | ok q => exact ⟨.fail, by simp [absO, alwaysRestore, (absO_ok_inv ho).1], .notOk s⟩
    | fail => exact ⟨.ok st.cur.pos, by simp [absO, alwaysRestore, absO_fail_inv ho], .notFail s⟩
    | err b =>
      obtain ⟨x, hx, hb⟩ := absO_err_inv ho
      exact ⟨.err b, by simp [absO, alwaysRestore, hx, hb], .notErr s⟩
  | until1 cond =>
    rw [hk] at h
    simp only [body, Option.map_eq_some_iff] at h
    obtain ⟨r0, h0, rfl⟩ := h
    exact (loopUntil1_sem hg hs _ _ _ _ _ _ hv h0).guard _ _
  | until2 cond b =>
    rw [hk] at h
    simp only [body, Option.map_eq_some_iff] at h
    obtain ⟨r0, h0, rfl⟩ := h
    exact (loopUntil2_sem hg hs _ _ _ _ _ _ _ hv h0).guard _ _
  | rep n c =>
    rw [hk] at h
    simp only [body, Option.map_eq_some_iff] at h
    obtain ⟨r0, h0, rfl⟩ := h
    exact (repN_sem hg hs _ _ _ _ _ _ _ hv h0).guard _ _
  | repMinMax lo hi c na =>
    rw [hk] at h
    obtain ⟨ndna, hna, hkna⟩ := wf.rmm i nd lo hi c na hn hk
    simp only [body] at h
    split at h
    · exact absurd h (by simp)
    · rename_i r1 h1
      have w1 := repN_weak hg _ _ _ _ _ _ _ h1
      obtain ⟨o1, ho1, s1⟩ := repN_sem hg hs _ _ _ _ _ _ _ hv h1
      split at h
      · rename_i hok
        rw [absO_ok hok] at ho1; cases ho1
        have hv1 := hv.of_weak w1
        split at h
        · exact absurd h (by simp)
        · rename_i r2 full h2
          have ⟨w2, hn2⟩ := repUpTo_weak hg _ _ _ _ _ _ _ h2
          obtain ⟨⟨o2, ho2, s2⟩, hx2⟩ := repUpTo_sem hg hs _ _ _ _ _ _ _ hv1 h2
          rw [w1.endp] at s2 hx2
          have hv2 := hv1.of_weak w2
          split at h
          · rename_i hc
            have hok2 : r2.res = .ok := hc.1
            rw [absO_ok hok2] at ho2; cases ho2
            split at h
            · exact absurd h (by simp)
            · rename_i r3 h3
              simp only [Option.some.injEq] at h; subst h
              obtain ⟨o3, ho3, s3⟩ := hs _ _ _ _ _ _ hv2 h3
              rw [w2.endp, w1.endp] at s3
              cases s3 with
              | ref hG hS =>
                rw [Gof_of hna, hkna] at hG
                cases hG
                refine SemR.guard _ _ ⟨o3, by simpa using ho3, .seqOk s1 (.seqOk s2 hS)⟩
          · rename_i hc
            simp only [Option.some.injEq] at h; subst h
            apply SemR.guard
            cases hr2 : r2.res with
            | fail => exact absurd hr2 hn2
            | ok =>
              rw [absO_ok hr2] at ho2; cases ho2
              have hfull : full = false := by
                cases full with
                | false => rfl
                | true => exact absurd ⟨by simpa using hr2, rfl⟩ hc
              exact ⟨.ok r2.st.cur.pos, by simp [absO, hr2], .seqOk s1 (.seqOk s2 (.notFail (hx2 hfull hr2)))⟩
            | thr x =>
              obtain ⟨b, rfl, hb⟩ := err_of ho2 hr2
              exact ⟨.err b, by simp [absO, hr2, hb], .seqOk s1 (.seqErr s2)⟩
      · rename_i hnok
        simp only [Option.some.injEq] at h; subst h
        exact SemR.guard _ _ ⟨o1, ho1, Sem.seq_stop s1 (absO_notOk ho1 (by intro h'; exact hnok h'))⟩
  | repOpt n c =>
    rw [hk] at h
    simp only [body, Option.map_eq_some_iff] at h
    obtain ⟨⟨r0, full⟩, h0, rfl⟩ := h
    exact (repUpTo_sem hg hs _ _ _ _ _ _ _ hv h0).1
  | ifThenElse c t e =>
    rw [hk] at h
    simp only [body] at h
    split at h
    · exact absurd h (by simp)
    · rename_i r1 h1
      have g1 := hg _ _ _ _ _ _ h1
      obtain ⟨o1, ho1, s1⟩ := hs _ _ _ _ _ _ hv h1
      have hv1 := hv.of_weak g1.toWeak
      split at h
      · rename_i hok
        simp only [Option.map_eq_some_iff] at h
        obtain ⟨r2, h2, rfl⟩ := h
        obtain ⟨o2, ho2, s2⟩ := hs _ _ _ _ _ _ hv1 h2
        rw [absO_ok hok] at ho1; cases ho1
        rw [g1.endp] at s2
        apply SemR.guard
        refine ⟨o2, by simpa using ho2, ?_⟩
        cases o2 with
        | ok q => exact .altOk (.seqOk s1 s2)
        | fail => exact .altFail (.seqOk s1 s2) (.seqFail (.notOk s1))
        | err b => exact .altErr (.seqOk s1 s2)
      · rename_i hf
        simp only [Option.map_eq_some_iff] at h
        obtain ⟨r2, h2, rfl⟩ := h
        obtain ⟨o2, ho2, s2⟩ := hs _ _ _ _ _ _ hv1 h2
        rw [absO_fail hf] at ho1; cases ho1
        rw [g1.endp, g1.failCur hf rfl] at s2
        apply SemR.guard
        exact ⟨o2, by simpa using ho2, .altFail (.seqFail s1) (.seqOk (.notFail s1) s2)⟩
      · rename_i x hx
        simp only [Option.some.injEq] at h; subst h
        obtain ⟨b, rfl, hb⟩ := err_of ho1 hx
        exact SemR.guard _ _ ⟨.err b, ho1, .altErr (.seqErr s1)⟩
  | strict c rest =>
    rw [hk] at h
    simp only [body] at h
    split at h
    · exact absurd h (by simp)
    · rename_i r1 h1
      have g1 := hg _ _ _ _ _ _ h1
      obtain ⟨o1, ho1, s1⟩ := hs _ _ _ _ _ _ hv h1
      have hv1 := hv.of_weak g1.toWeak
      split at h
      · rename_i hok
        simp only [Option.map_eq_some_iff] at h
        obtain ⟨r2, h2, rfl⟩ := h
        obtain ⟨o2, ho2, s2⟩ := hs _ _ _ _ _ _ hv1 h2
        rw [absO_ok hok] at ho1; cases ho1
        rw [g1.endp] at s2
        apply SemR.guard
        exact ⟨o2, by simpa using ho2, .altFail (.notOk s1) (.seqOk s1 s2)⟩
      · rename_i hf
        simp only [Option.some.injEq] at h; subst h
        rw [absO_fail hf] at ho1; cases ho1
        have hc := g1.failCur hf rfl
        exact ⟨.ok st.cur.pos, by simp [absO, hc], .altOk (.notFail s1)⟩
      · rename_i x hx
        simp only [Option.some.injEq] at h; subst h
        obtain ⟨b, rfl, hb⟩ := err_of ho1 hx
        exact SemR.guard _ _ ⟨.err b, ho1, .altErr (.notErr s1)⟩
  | starStrict c rest =>
    rw [hk] at h
    simp only [body, Option.map_eq_some_iff] at h
    obtain ⟨r0, h0, rfl⟩ := h
    exact (loopStarStrict_sem hg hs _ _ _ _ _ _ _ hv h0).guard _ _
  | rematch head rs =>
    rw [hk] at h
    cases rs with
    | nil =>
      simp only [body] at h
      simp only [expandKind]
      exact hs _ _ _ _ _ _ hv h
    | cons r0 rs' =>
      simp only [body] at h
      simp only [expandKind]
      split at h
      · exact absurd h (by simp)
      · rename_i r1 h1
        have g1 := hg _ _ _ _ _ _ h1
        obtain ⟨o1, ho1, s1⟩ := hs _ _ _ _ _ _ hv h1
        split at h
        · rename_i hok
          rw [absO_ok hok] at ho1; cases ho1
          split at h
          · exact absurd h (by simp)
          · rename_i r2 h2
            simp only [Option.some.injEq] at h; subst h
            have hvi : Valid cx { ({ r1.st with endp := r1.st.cur.pos, depth := 0 } : St) with cur := st.cur } := by
              refine ⟨g1.le, ?_⟩
              have := (hv.of_weak g1.toWeak)
              exact Nat.le_trans this.le this.sz
            obtain ⟨o2, s2, hcase⟩ := rematchAll_sem hg hs a env st.cur (r0 :: rs') _ r2 hvi h2
            simp only at s2
            apply SemR.guard
            rcases hcase with ⟨hr2, rfl⟩ | ⟨hr2, rfl⟩ | ⟨x, b, hr2, hb, rfl⟩
            · exact ⟨.ok r1.st.cur.pos, by simp [absO, hr2], .subOk s1 s2⟩
            · exact ⟨.fail, by simp [absO, hr2], .subInnerFail s1 s2⟩
            · exact ⟨.err b, by simp [absO, hr2, hb], .subInnerErr s1 s2⟩
        · rename_i hnok
          simp only [Option.some.injEq] at h; subst h
          apply SemR.guard
          have hn := absO_notOk ho1 (by intro h'; exact hnok h')
          refine ⟨o1, ho1, ?_⟩
          cases o1 with
          | ok q => exact hn.elim
          | fail => exact .subFail s1
          | err b => exact .subErr s1
  | must c =>
    rw [hk] at h
    simp only [body] at h
    split at h
    · exact absurd h (by simp)
    · rename_i r1 h1
      obtain ⟨o1, ho1, s1⟩ := hs _ _ _ _ _ _ hv h1
      split at h
      · rename_i hf
        simp only [Option.some.injEq] at h; subst h
        rw [absO_fail hf] at ho1; cases ho1
        exact ⟨.err (.parse c), by simp [absO, blameOf], .altFail s1 .raise⟩
      · rename_i hnf'
        simp only [Option.some.injEq] at h; subst h
        exact ⟨o1, ho1, Sem.alt_stop s1 (absO_ne_fail ho1 (by intro h'; exact hnf' h'))⟩
  | ifMust dflt cond mn =>
    rw [hk] at h
    have hml := wf.ifm i nd dflt cond mn hn hk
    simp only [body] at h
    split at h
    · exact absurd h (by simp)
    · rename_i r1 h1
      have g1 := hg _ _ _ _ _ _ h1
      obtain ⟨o1, ho1, s1⟩ := hs _ _ _ _ _ _ hv h1
      have hv1 := hv.of_weak g1.toWeak
      split at h
      · rename_i hok
        simp only [Option.map_eq_some_iff] at h
        obtain ⟨r2, h2, rfl⟩ := h
        obtain ⟨o2, ho2, s2⟩ := hs _ _ _ _ _ _ hv1 h2
        have hnf2 := hnf _ _ _ _ _ _ hml h2
        rw [absO_ok hok] at ho1; cases ho1
        rw [g1.endp] at s2
        have hseq : SemC cx st.endp (.seq (.ref cond) (.ref mn)) st.cur.pos o2 := .seqOk s1 s2
        have hne : o2 ≠ .fail := absO_ne_fail ho2 hnf2
        have habs : absO (match (r2.prepend r1.raw r1.surv).res with
            | .thr _ => (r2.prepend r1.raw r1.surv).dropOnFail
            | _ => { r2.prepend r1.raw r1.surv with res := .ok }) = some o2 := by
          rw [← ho2]
          cases hr2 : r2.res with
          | ok => simp [absO, hr2]
          | fail => exact absurd hr2 hnf2
          | thr x => simp [absO, hr2, Ret.dropOnFail]
        refine ⟨o2, habs, ?_⟩
        simp only [expandKind]
        split
        · exact Sem.opt_of hseq hne
        · exact hseq
      · rename_i hf
        simp only [Option.some.injEq] at h; subst h
        rw [absO_fail hf] at ho1; cases ho1
        simp only [expandKind]
        cases dflt with
        | true =>
          have hc := g1.failCur hf (by simp)
          exact ⟨.ok st.cur.pos, by simp [absO, hc], Sem.opt_fail (.seqFail s1)⟩
        | false =>
          exact ⟨.fail, by simp [absO], .seqFail s1⟩
      · rename_i x hx
        simp only [Option.some.injEq] at h; subst h
        obtain ⟨b, rfl, hb⟩ := err_of ho1 hx
        simp only [expandKind]
        refine ⟨.err b, ho1, ?_⟩
        split
        · exact .altErr (.seqErr s1)
        · exact .seqErr s1
  | raise t =>
    rw [hk] at h
    simp only [body, Option.some.injEq] at h
    subst h
    exact ⟨.err (.parse t), by simp [absO, blameOf], .raise⟩
  | tryCatchReturnFalse ex c =>
    rw [hk] at h
    simp only [body, Option.map_eq_some_iff] at h
    obtain ⟨r0, h0, rfl⟩ := h
    obtain ⟨o, ho, s⟩ := hs _ _ _ _ _ _ hv h0
    apply SemR.guard
    cases o with
    | ok q =>
      have := (absO_ok_inv ho).1
      exact ⟨.ok q, by simp [this, ho], .catchFOk s⟩
    | fail =>
      have := absO_fail_inv ho
      exact ⟨.fail, by simp [this, ho], .catchFFail s⟩
    | err b =>
      obtain ⟨x, hx, hb⟩ := absO_err_inv ho
      exact ⟨.fail, by simp [hx, catches_of_blame ex x b hb, absO], .catchFErr s⟩
  | tryCatchRaiseNested ex c =>
    rw [hk] at h
    simp only [body, Option.map_eq_some_iff] at h
    obtain ⟨r0, h0, rfl⟩ := h
    obtain ⟨o, ho, s⟩ := hs _ _ _ _ _ _ hv h0
    apply SemR.guard
    cases o with
    | ok q =>
      have := (absO_ok_inv ho).1
      exact ⟨.ok q, by simp [this, ho], .catchNOk s⟩
    | fail =>
      have := absO_fail_inv ho
      exact ⟨.fail, by simp [this, ho], .catchNFail s⟩
    | err b =>
      obtain ⟨x, hx, hb⟩ := absO_err_inv ho
      exact ⟨.err (.nested c b), by simp [hx, catches_of_blame ex x b hb, absO, blameOf, hb], .catchNErr s⟩
  | enable c => rw [hk] at h; simp only [body] at h; exact hs _ _ _ _ _ _ hv h
  | disable c => rw [hk] at h; simp only [body] at h; exact hs _ _ _ _ _ _ hv h
  | action fam c => rw [hk] at h; simp only [body] at h; exact hs _ _ _ _ _ _ hv h
  | state d c =>
    rw [hk] at h
    simp only [body, Option.map_eq_some_iff] at h
    obtain ⟨r0, h0, rfl⟩ := h
    obtain ⟨o, ho, hsem⟩ := hs _ _ _ _ _ _ hv h0
    exact ⟨o, (absO_congr (r := r0) rfl rfl).trans ho, hsem⟩
  | control kc c => rw [hk] at h; simp only [body] at h; exact hs _ _ _ _ _ _ hv h
  | ifApply c acts =>
    have hpl : ∀ x ∈ acts, x.plain = true := by
      have := wf.racts i nd hn
      rw [hk] at this
      exact this
    rw [hk] at h
    simp only [body] at h
    split at h
    · simp only [Option.map_eq_some_iff] at h
      obtain ⟨r0, h0, rfl⟩ := h
      have s0 := hs _ _ _ _ _ _ hv h0
      split
      · rename_i hok
        refine (s0.congr ?_).guard _ _
        apply absO_congr
        · simp [runActs_plain cx _ _ _ acts hpl, hok]
        · rfl
      · exact s0.guard _ _
    · exact hs _ _ _ _ _ _ hv h
  | applyR acts =>
    have hpl : ∀ x ∈ acts, x.plain = true := by
      have := wf.racts i nd hn
      rw [hk] at this
      exact this
    rw [hk] at h
    simp only [body] at h
    split at h
    · simp only [Option.some.injEq] at h
      subst h
      refine ⟨.ok st.cur.pos, ?_, .eps⟩
      simp [absO, Ret.dropOnFail, runActs_plain cx _ _ _ acts hpl]
    · simp only [Option.some.injEq] at h
      subst h
      exact ⟨.ok st.cur.pos, by simp [absO], .eps⟩

end body

end Pegtl
