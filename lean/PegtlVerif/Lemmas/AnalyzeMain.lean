/-
  Lemmas/AnalyzeMain.lean — the induction that turns "the analysis found no problem" into
  "every node terminates and the `consumes` flags are sound", over the finite DFS that `work` ran.
-/
import PegtlVerif.Lemmas.AnalyzeKinds

namespace Pegtl
open Analyze

/-- The sub-rules a `match()` body of this kind can call. -/
def Kind.kids : Kind → List Nat
  | .atom _ => []
  | .seq cs => cs
  | .sor cs => cs
  | .starPartial cs => cs
  | .partialR cs => cs
  | .plus c => [c]
  | .atR c => [c]
  | .notAt c => [c]
  | .until1 c => [c]
  | .until2 c b => [c, b]
  | .rep _ c => [c]
  | .repMinMax _ _ c na => [c, na]
  | .repOpt _ c => [c]
  | .ifThenElse c t e => [c, t, e]
  | .strict c r => [c, r]
  | .starStrict c r => [c, r]
  | .rematch h rs => h :: rs
  | .must c => [c]
  | .ifMust _ c mn => [c, mn]
  | .raise _ => []
  | .tryCatchReturnFalse _ c => [c]
  | .tryCatchRaiseNested _ c => [c]
  | .enable c => [c]
  | .disable c => [c]
  | .action _ c => [c]
  | .control _ c => [c]
  | .state _ c => [c]
  | .ifApply c _ => [c]
  | .applyR _ => []

/-- A hidden `internal::must< Rule >` node. -/
def isMustNode (g : Grammar) (m : Nat) : Bool :=
  match g[m]? with
  | some nd => !nd.ctl && (match nd.kind with | .must _ => true | _ => false)
  | none => false

/-- A hidden `internal::must< Rules... >` node: `must< R >`, `seq< must< R1 >, must< R2 >, ... >`, or
    `success` for no rules. -/
def mustShape (g : Grammar) (mn : Nat) : Bool :=
  match g[mn]? with
  | some nd => !nd.ctl && (match nd.kind with
      | .must _ => true
      | .seq ms => ms.all (isMustNode g)
      | .atom .success => true
      | _ => false)
  | none => false

/-- The nodes a body calls that are derived from its other parameters are what the C++ templates
    make them: the last step of `rep_min_max< Min, Max, Rule >` is `not_at< Rule >`, and
    `if_must< D, Cond, Rules... >` calls `internal::must< Rules... >`. -/
def Kind.linksOK (g : Grammar) : Kind → Prop
  | .repMinMax _ _ c na => (g[na]?).map Node.kind = some (.notAt c)
  | .ifMust _ _ mn => mustShape g mn = true
  | _ => True

instance (g : Grammar) (k : Kind) : Decidable (k.linksOK g) := by
  unfold Kind.linksOK; split <;> infer_instance

/-- Well-formed table: every sub-rule reference names a node of the table, and derived nodes are
    what the templates derive. -/
def WF (g : Grammar) : Prop := ∀ nd ∈ g.toList, (∀ c ∈ nd.kind.kids, c < g.size) ∧ nd.kind.linksOK g

instance (g : Grammar) : Decidable (WF g) := by unfold WF; infer_instance

theorem mem_toList_of_getElem? {g : Grammar} {i : Nat} {nd : Node} (h : g[i]? = some nd) : nd ∈ g.toList := by
  rw [Array.getElem?_eq_some_iff] at h
  obtain ⟨hi, rfl⟩ := h
  exact Array.mem_toList_iff.mpr (Array.getElem_mem hi)

theorem WF.kid {g : Grammar} (h : WF g) {i : Nat} {nd : Node} (hnd : g[i]? = some nd) {c : Nat}
    (hc : c ∈ nd.kind.kids) : c < g.size :=
  (h nd (mem_toList_of_getElem? hnd)).1 c hc

theorem WF.links {g : Grammar} (h : WF g) {i : Nat} {nd : Node} (hnd : g[i]? = some nd) : nd.kind.linksOK g :=
  (h nd (mem_toList_of_getElem? hnd)).2

/-- The rule kinds that have an `analyze_traits` specialisation (all but `strict`, `star_strict`). -/
def Kind.covered : Kind → Bool
  | .atom _ => true
  | .seq _ => true
  | .sor _ => true
  | .starPartial _ => true
  | .partialR _ => true
  | .plus _ => true
  | .atR _ => true
  | .notAt _ => true
  | .until1 _ => true
  | .until2 _ _ => true
  | .rep _ _ => true
  | .repMinMax _ _ _ _ => true
  | .repOpt _ _ => true
  | .ifThenElse _ _ _ => true
  | .rematch _ _ => true
  | .must _ => true
  | .ifMust _ _ _ => true
  | .raise _ => true
  | .tryCatchReturnFalse _ _ => true
  | .tryCatchRaiseNested _ _ => true
  | .enable _ => true
  | .disable _ => true
  | .action _ _ => true
  | .state _ _ => true
  | .ifApply _ _ => true
  | .applyR _ => true
  | _ => false

/-- Every node of the table has a kind with traits (implied by `problems (abstract g) = 0`, because
    the model gives the other kinds an entry that points to itself). -/
def Covered (g : Grammar) : Prop := ∀ nd ∈ g.toList, nd.kind.covered = true

instance (g : Grammar) : Decidable (Covered g) := by unfold Covered; infer_instance

theorem baseKind_of_not_until1 (g : Grammar) (f : Nat) (k : Kind) (h : ∀ c, k ≠ .until1 c) : baseKind g f k = k := by
  cases f with
  | zero => cases k <;> rfl
  | succ f => cases k <;> first | rfl | (rename_i c; exact absurd rfl (h c))

theorem effKind_eq {g : Grammar} {i : Nat} {nd : Node} (hnd : g[i]? = some nd) (h : ∀ c, nd.kind ≠ .until1 c) :
    effKind g i = nd.kind := by
  simp only [effKind, hnd]
  exact baseKind_of_not_until1 g _ _ h

theorem Pre.imp_mem {T T' C C' : Nat → Prop} : ∀ {cs : List Nat} {a : Bool},
    (∀ c ∈ cs, T c → T' c) → (∀ c ∈ cs, C c → C' c) → Pre T C cs a → Pre T' C' cs a := by
  intro cs a hT hC p
  induction p with
  | nil => exact Pre.nil
  | stop t c => exact Pre.stop (hT _ (List.mem_cons_self ..) t) (hC _ (List.mem_cons_self ..) c)
  | skip t _ ih =>
    exact Pre.skip (hT _ (List.mem_cons_self ..) t)
      (ih (fun c hc => hT c (List.mem_cons_of_mem _ hc)) (fun c hc => hC c (List.mem_cons_of_mem _ hc)))

section
variable {cx : Ctx} {g : Grammar}

/-- What the induction hypothesis says about a visited node. -/
def NodeOK (cx : Ctx) (g : Grammar) (L : Nat) (c : Nat) (b : Bool) : Prop :=
  c < g.size → Term cx L c ∧ (b = true → Cons cx c)

/-- The induction hypothesis, for every DFS with at most `f` fuel. -/
def IH (cx : Ctx) (g : Grammar) (L f : Nat) : Prop :=
  ∀ f' ≤ f, ∀ (S : List AId) (c : Nat) (b : Bool), work (abstract g) f' S (.node c) false = some (b, 0) → NodeOK cx g L c b

theorem IH.pre {L f : Nat} (ih : IH cx g L f) {S : List AId} {cs : List Nat} {a : Bool} (hr : ∀ c ∈ cs, c < g.size)
    (hv : OrVisit (work (abstract g) f S) (nodes cs) a) : Pre (Term cx L) (Cons cx) cs a := by
  have p : Pre (fun c => c < g.size → Term cx L c) (fun c => c < g.size → Cons cx c) cs a :=
    pre_of_visit (fun c b hw => ⟨fun hc => (ih f (Nat.le_refl _) S c b hw hc).1,
      fun hb hc => (ih f (Nat.le_refl _) S c b hw hc).2 hb⟩) cs a hv
  exact p.imp_mem (fun c hc t => t (hr c hc)) (fun c hc t => t (hr c hc))

theorem IH.all {L f : Nat} (ih : IH cx g L f) {S : List AId} {cs : List Nat} {a : Bool} (hr : ∀ c ∈ cs, c < g.size)
    (hv : AndVisit (work (abstract g) f S) (nodes cs) a) : ∀ c ∈ cs, Term cx L c ∧ (a = true → Cons cx c) := by
  intro c hc
  obtain ⟨b, hb, hab⟩ := hv (.node c) (List.mem_map.mpr ⟨c, hc, rfl⟩)
  have := ih f (Nat.le_refl _) S c b hb (hr c hc)
  exact ⟨this.1, fun ha => this.2 (hab ha)⟩

theorem IH.mono {L f f' : Nat} (ih : IH cx g L f) (h : f' ≤ f) : IH cx g L f' :=
  fun f'' h'' => ih f'' (Nat.le_trans h'' h)

theorem node_of_body {L i : Nat} {nd : Node} {b : Bool} (hcx : cx.g[i]? = some nd) (hw : WrapWF cx i nd)
    (h : BodyTerm cx L nd.kind ∧ (b = true → BodyAdv cx nd.kind)) : Term cx L i ∧ (b = true → Cons cx i) := by
  refine ⟨term_of_body cx hcx hw h.1, fun hb => cons_of_body cx fun nd' h' => ?_⟩
  rw [hcx] at h'
  simp only [Option.some.injEq] at h'
  subst h'
  exact h.2 hb

/-- A visited singleton list. -/
theorem Analyze.OrVisit.head {w : WFun} {r : AId} {rs : List AId} {a : Bool} (h : OrVisit w (r :: rs) a) :
    ∃ b, w r false = some (b, 0) ∧ (b = true → a = true) := by
  cases h with
  | stop hw => exact ⟨true, hw, fun _ => rfl⟩
  | skip hw _ => exact ⟨false, hw, fun h => absurd h (by simp)⟩

theorem Analyze.OrVisit.single {w : WFun} {r : AId} {a : Bool} (h : OrVisit w [r] a) : w r false = some (a, 0) := by
  cases h with
  | stop hw => exact hw
  | skip hw h' => cases h'; exact hw

theorem atomType_cases (atm : Atom) : atomType atm = .any ∨ atomType atm = .opt := by
  cases atm <;> simp only [atomType] <;> (try split) <;> simp

theorem Pre.of_map {T C T' C' : Nat → Prop} {f : Nat → Nat} : ∀ {ms : List Nat} {a : Bool},
    (∀ m ∈ ms, T (f m) → T' m) → (∀ m ∈ ms, C (f m) → C' m) → Pre T C (ms.map f) a → Pre T' C' ms a := by
  intro ms
  induction ms with
  | nil => intro a _ _ p; cases p; exact Pre.nil
  | cons m ms ih =>
    intro a hT hC p
    simp only [List.map_cons] at p
    cases p with
    | stop t c => exact Pre.stop (hT m (List.mem_cons_self ..) t) (hC m (List.mem_cons_self ..) c)
    | skip t p' =>
      exact Pre.skip (hT m (List.mem_cons_self ..) t)
        (ih (fun x hx => hT x (List.mem_cons_of_mem _ hx)) (fun x hx => hC x (List.mem_cons_of_mem _ hx)) p')

/-- A hidden `must< Rule >` node inherits termination and "consumes" from `Rule` and never fails. -/
theorem must_node_sound (hg : cx.g = g) (hwrap : ∀ i nd, cx.g[i]? = some nd → WrapWF cx i nd) {L m : Nat}
    (hm : isMustNode g m = true) :
    ∃ nd c, g[m]? = some nd ∧ nd.kind = .must c ∧ NoFail cx m ∧ (Term cx L c → Term cx L m) ∧ (Cons cx c → Cons cx m) := by
  unfold isMustNode at hm
  split at hm
  · rename_i nd hnd
    simp only [Bool.and_eq_true, Bool.not_eq_true'] at hm
    obtain ⟨hctl, hk⟩ := hm
    split at hk
    · rename_i c hkind
      have hcx : cx.g[m]? = some nd := by rw [hg]; exact hnd
      refine ⟨nd, c, hnd, hkind, ?_, ?_, ?_⟩
      · refine nofail_of_body cx fun nd' h' => ?_
        rw [hcx] at h'; simp only [Option.some.injEq] at h'; subst h'
        exact ⟨hctl, fun n a mm env st r hb => by rw [hkind] at hb; exact body_must_nofail cx hb⟩
      · intro ht
        exact term_of_body cx hcx (hwrap m nd hcx) (by rw [hkind]; exact (kind_must cx (b := false) ht (fun h => absurd h (by simp))).1)
      · intro hc
        refine cons_of_body cx fun nd' h' => ?_
        rw [hcx] at h'; simp only [Option.some.injEq] at h'; subst h'
        rw [hkind]
        -- `BodyAdv` of `must` needs no termination fact
        intro n a mm env st r hb hok
        simp only [body] at hb
        split at hb
        · exact absurd hb (by simp)
        · rename_i r1 h1
          split at hb
          · simp only [Option.some.injEq] at hb; subst hb; exact absurd hok (by simp)
          · simp only [Option.some.injEq] at hb; subst hb
            exact hc n a .optional env st r1 h1 hok
    · exact absurd hk (by simp)
  · exact absurd hm (by simp)

/-- The `internal::must< Rules... >` node of an `if_must`: never fails locally, and terminates /
    consumes as the sequence `Rules...` (which is what the trait of `if_must` lists). -/
theorem must_shape_sound (hg : cx.g = g) (hwf : WF g) (hwrap : ∀ i nd, cx.g[i]? = some nd → WrapWF cx i nd) {L : Nat}
    (hout : ∀ i, i < g.size → ∀ L' < L, Term cx L' i) {mn : Nat} (hs : mustShape g mn = true) :
    NoFail cx mn ∧ ∀ b, Pre (Term cx L) (Cons cx) (mustRules g mn) b → Term cx L mn ∧ (b = true → Cons cx mn) := by
  unfold mustShape at hs
  split at hs
  · rename_i nd hnd
    simp only [Bool.and_eq_true, Bool.not_eq_true'] at hs
    obtain ⟨hctl, hk⟩ := hs
    have hcx : cx.g[mn]? = some nd := by rw [hg]; exact hnd
    have hnf_of : (∀ n a m env st r, body cx (run cx n) n nd.kind a m env st = some r → r.res ≠ .fail) → NoFail cx mn := by
      intro hb
      refine nofail_of_body cx fun nd' h' => ?_
      rw [hcx] at h'; simp only [Option.some.injEq] at h'; subst h'
      exact ⟨hctl, hb⟩
    have lift : ∀ {b : Bool}, (BodyTerm cx L nd.kind ∧ (b = true → BodyAdv cx nd.kind)) → Term cx L mn ∧ (b = true → Cons cx mn) :=
      fun h => node_of_body hcx (hwrap mn nd hcx) h
    split at hk
    · -- must< R >
      rename_i c hkind
      have hr : mustRules g mn = [c] := by simp only [mustRules, hnd, hkind]
      refine ⟨hnf_of (fun n a m env st r hb => by rw [hkind] at hb; exact body_must_nofail cx hb), ?_⟩
      intro b p
      rw [hr] at p
      apply lift
      rw [hkind]
      cases p with
      | stop t c' => exact kind_must cx t (fun _ => c')
      | skip t p' => cases p'; exact kind_must cx t (fun h => absurd h (by simp))
    · -- seq< must< R1 >, must< R2 >, ... >
      rename_i ms hkind
      have hall : ∀ m ∈ ms, isMustNode g m = true := by simpa [List.all_eq_true] using hk
      let f : Nat → Nat := fun m => match g[m]? with
        | some md => (match md.kind with | .must c => c | _ => m)
        | none => m
      have hr : mustRules g mn = ms.map f := by simp only [mustRules, hnd, hkind]; rfl
      have hms : ∀ m ∈ ms, m < g.size := fun m hm => hwf.kid hnd (by rw [hkind]; exact hm)
      have hf : ∀ m ∈ ms, NoFail cx m ∧ (Term cx L (f m) → Term cx L m) ∧ (Cons cx (f m) → Cons cx m) := by
        intro m hm
        obtain ⟨md, c, hmd, hkm, hnf, ht, hc⟩ := must_node_sound (L := L) hg hwrap (hall m hm)
        have : f m = c := by simp only [f, hmd, hkm]
        rw [this]
        exact ⟨hnf, ht, hc⟩
      constructor
      · apply hnf_of
        intro n a m env st r hb
        rw [hkind] at hb
        simp only [body] at hb
        split at hb
        · rename_i c
          exact (hf c (by simp)).1 n a m env st r hb
        · simp only [Option.map_eq_some_iff] at hb
          obtain ⟨r0, h0, rfl⟩ := hb
          simp only [dropOnFail_res, guardRestore_res]
          exact seqAll_nofail' a .optional env ms (fun c hc st' r' h' => (hf c hc).1 n a .optional env st' r' h') st r0 h0
      · intro b p
        rw [hr] at p
        apply lift
        rw [hkind]
        exact kind_seq cx (Pre.of_map (fun m hm => (hf m hm).2.1) (fun m hm => (hf m hm).2.2) p)
          (fun m hm => hout m (hms m hm))
    · -- must<> = success
      rename_i hkind
      have hr : mustRules g mn = [] := by simp only [mustRules, hnd, hkind]
      refine ⟨hnf_of (fun n a m env st r hb => by
        rw [hkind] at hb; simp only [body, atomStep, Option.some.injEq] at hb; subst hb; simp), ?_⟩
      intro b p
      rw [hr] at p
      cases p
      apply lift
      rw [hkind]
      exact ⟨(kind_atom cx L .success).1, fun h => absurd h (by simp)⟩
    · exact absurd hk (by simp)
  · exact absurd hs (by simp)

/-- One rule kind: what a problem-free visit of the entry `traitOf g i k` (whose auxiliary entries are
    `auxOf g i k`) establishes about the `match()` body of kind `k`.  `i` is the node whose name the
    trait uses as `Name`; `k` is its kind or, for `until< Cond >`, the kind `Cond::rule_t` resolves to. -/
theorem kinds_sound (hg : cx.g = g) (hwf : WF g) (hwrap : ∀ i nd, cx.g[i]? = some nd → WrapWF cx i nd) {L : Nat}
    (hout : ∀ i, i < g.size → ∀ L' < L, Term cx L' i) {f : Nat} (ih : IH cx g L f) {S : List AId} {i : Nat} {b : Bool}
    {k : Kind} (heff : effKind g i = k) (hkids : ∀ c ∈ k.kids, c < g.size) (hlinks : k.linksOK g)
    (hnu : ∀ c, k ≠ .until1 c)
    (hu : match (traitOf g i k).ty with
      | .any => b = true ∧ ∃ a, OrVisit (work (abstract g) f (.node i :: S)) (traitOf g i k).subs a
      | .opt => b = false ∧ ∃ a, OrVisit (work (abstract g) f (.node i :: S)) (traitOf g i k).subs a
      | .seq => OrVisit (work (abstract g) f (.node i :: S)) (traitOf g i k).subs b
      | .sor => AndVisit (work (abstract g) f (.node i :: S)) (traitOf g i k).subs b) :
    BodyTerm cx L k ∧ (b = true → BodyAdv cx k) := by
  have hlt' : ∀ c ∈ k.kids, ∀ L' < L, Term cx L' c := fun c hc => hout c (hkids c hc)
  cases k with
  | atom atm =>
    simp only [traitOf] at hu
    have ka := kind_atom cx L atm
    refine ⟨ka.1, fun hb => ka.2 ?_⟩
    rcases atomType_cases atm with ht | ht
    · exact ht
    · simp only [ht] at hu
      rw [hu.1] at hb
      exact absurd hb (by simp)
  | seq cs =>
    simp only [traitOf] at hu
    simp only [Kind.kids] at hkids hlt'
    exact kind_seq cx (ih.pre hkids hu) hlt'
  | sor cs =>
    simp only [traitOf] at hu
    simp only [Kind.kids] at hkids hlt'
    exact kind_sor cx (ih.all hkids hu)
  | starPartial cs =>
    simp only [traitOf] at hu
    simp only [Kind.kids] at hkids hlt'
    obtain ⟨hb, a, hv⟩ := hu
    obtain ⟨b', hw', _⟩ := hv.head
    refine ⟨?_, fun h => absurd h (by simp [hb])⟩
    cases f with
    | zero => simp [work] at hw'
    | succ f0 =>
      have ⟨_, hu'⟩ := work_zero_unfold hw'
      have hent' : (abstract g).ent (.aux i 0) = ⟨.seq, nodes cs ++ [.node i]⟩ := by
        show entryOf g (.aux i 0) = _
        simp only [entryOf, heff, auxOf]
      rw [hent'] at hu'
      simp only at hu'
      have hblk : ∀ b, work (abstract g) f0 (.aux i 0 :: .node i :: S) (.node i) false ≠ some (b, 0) :=
        fun b => work_on_stack (List.mem_cons_of_mem _ (List.mem_cons_self ..)) b
      have ⟨_, hv'⟩ := OrVisit.blocked hblk _ _ _ hu'
      exact kind_star cx ((ih.mono (Nat.le_succ f0)).pre hkids hv') hlt'
  | partialR cs =>
    simp only [traitOf] at hu
    simp only [Kind.kids] at hkids hlt'
    obtain ⟨hb, a, hv⟩ := hu
    exact ⟨kind_partial cx (ih.pre hkids hv) hlt', fun h => absurd h (by simp [hb])⟩
  | plus c =>
    simp only [traitOf] at hu
    simp only [Kind.kids, List.mem_singleton, forall_eq] at hkids hlt'
    cases hu with
    | stop hw1 =>
      have := ih f (Nat.le_refl _) _ c true hw1 hkids
      have kp := kind_plus cx this.1 (this.2 rfl) hlt'
      exact ⟨kp.1, fun _ => kp.2⟩
    | skip hw1 hv =>
      exfalso
      obtain ⟨b', hw', _⟩ := hv.head
      cases f with
      | zero => simp [work] at hw'
      | succ f0 =>
        have ⟨_, hu'⟩ := work_zero_unfold hw'
        have hent' : (abstract g).ent (.aux i 0) = ⟨.opt, [.node i]⟩ := by
          show entryOf g (.aux i 0) = _
          simp only [entryOf, heff, auxOf]
        rw [hent'] at hu'
        simp only at hu'
        obtain ⟨_, a', hv'⟩ := hu'
        obtain ⟨b'', hw'', _⟩ := hv'.head
        exact work_on_stack (List.mem_cons_of_mem _ (List.mem_cons_self ..)) b'' hw''
  | atR c =>
    simp only [traitOf] at hu
    simp only [Kind.kids, List.mem_singleton, forall_eq] at hkids hlt'
    obtain ⟨hb, a, hv⟩ := hu
    obtain ⟨b', hw', _⟩ := hv.head
    exact ⟨kind_at cx (ih f (Nat.le_refl _) _ c b' hw' hkids).1, fun h => absurd h (by simp [hb])⟩
  | notAt c =>
    simp only [traitOf] at hu
    simp only [Kind.kids, List.mem_singleton, forall_eq] at hkids hlt'
    obtain ⟨hb, a, hv⟩ := hu
    obtain ⟨b', hw', _⟩ := hv.head
    exact ⟨kind_notAt cx (ih f (Nat.le_refl _) _ c b' hw' hkids).1, fun h => absurd h (by simp [hb])⟩
  | must c =>
    simp only [traitOf] at hu
    simp only [Kind.kids, List.mem_singleton, forall_eq] at hkids hlt'
    have := ih f (Nat.le_refl _) _ c b hu.single hkids
    exact kind_must cx this.1 this.2
  | tryCatchReturnFalse ex c =>
    simp only [traitOf] at hu
    simp only [Kind.kids, List.mem_singleton, forall_eq] at hkids hlt'
    have := ih f (Nat.le_refl _) _ c b hu.single hkids
    exact kind_tcrf cx this.1 this.2
  | tryCatchRaiseNested ex c =>
    simp only [traitOf] at hu
    simp only [Kind.kids, List.mem_singleton, forall_eq] at hkids hlt'
    have := ih f (Nat.le_refl _) _ c b hu.single hkids
    exact kind_tcrn cx this.1 this.2
  | enable c =>
    simp only [traitOf] at hu
    simp only [Kind.kids, List.mem_singleton, forall_eq] at hkids hlt'
    have := ih f (Nat.le_refl _) _ c b hu.single hkids
    exact kind_enable cx this.1 this.2
  | disable c =>
    simp only [traitOf] at hu
    simp only [Kind.kids, List.mem_singleton, forall_eq] at hkids hlt'
    have := ih f (Nat.le_refl _) _ c b hu.single hkids
    exact kind_disable cx this.1 this.2
  | action fam c =>
    simp only [traitOf] at hu
    simp only [Kind.kids, List.mem_singleton, forall_eq] at hkids hlt'
    have := ih f (Nat.le_refl _) _ c b hu.single hkids
    exact kind_action cx this.1 this.2
  | control kc c =>
    simp only [traitOf] at hu
    simp only [Kind.kids, List.mem_singleton, forall_eq] at hkids hlt'
    have := ih f (Nat.le_refl _) _ c b hu.single hkids
    exact kind_control cx this.1 this.2
  | state d c =>
    simp only [traitOf] at hu
    simp only [Kind.kids, List.mem_singleton, forall_eq] at hkids hlt'
    have := ih f (Nat.le_refl _) _ c b hu.single hkids
    exact kind_state cx this.1 this.2
  | ifApply c acts =>
    simp only [traitOf] at hu
    simp only [Kind.kids, List.mem_singleton, forall_eq] at hkids hlt'
    have := ih f (Nat.le_refl _) _ c b hu.single hkids
    exact kind_ifApply cx this.1 this.2
  | applyR acts =>
    simp only [traitOf] at hu
    exact ⟨kind_applyR cx L acts, fun hb => absurd hb (by simp [hu.1])⟩
  | ifMust dflt cond mn =>
    simp only [traitOf] at hu
    simp only [Kind.linksOK] at hlinks
    have hc : cond < g.size := hkids cond (by simp [Kind.kids])
    have hmnlt : mn < g.size := hkids mn (by simp [Kind.kids])
    have ⟨hnf, hshape⟩ := must_shape_sound (L := L) hg hwf hwrap hout hlinks
    -- in all four shapes of the trait: the visit covers `Cond, Rules...` as a sequence
    have key : ∃ b', Pre (Term cx L) (Cons cx) (cond :: mustRules g mn) b' ∧ (b = true → dflt = false ∧ b' = true) := by
      have hrs : ∀ c ∈ cond :: mustRules g mn, c < g.size := by
        intro c hcm
        rcases List.mem_cons.mp hcm with rfl | hcm
        · exact hc
        · -- the rules of the must node are its children (or children of its `must< R >` members)
          have hsm := hlinks
          unfold mustShape at hsm
          split at hsm
          · rename_i ndm hndm
            simp only [Bool.and_eq_true, Bool.not_eq_true'] at hsm
            obtain ⟨_, hk⟩ := hsm
            split at hk
            · rename_i c' hkind
              simp only [mustRules, hndm, hkind, List.mem_singleton] at hcm
              subst hcm
              exact hwf.kid hndm (by rw [hkind]; simp [Kind.kids])
            · rename_i ms hkind
              simp only [mustRules, hndm, hkind, List.mem_map] at hcm
              obtain ⟨m, hm, rfl⟩ := hcm
              have hmlt : m < g.size := hwf.kid hndm (by rw [hkind]; exact hm)
              have hmm : isMustNode g m = true := by
                have : ∀ m ∈ ms, isMustNode g m = true := by simpa [List.all_eq_true] using hk
                exact this m hm
              obtain ⟨md, c', hmd, hkm, _⟩ := must_node_sound (L := L) hg hwrap hmm
              simp only [hmd, hkm]
              exact hwf.kid hmd (by rw [hkm]; simp [Kind.kids])
            · rename_i hkind
              simp only [mustRules, hndm, hkind] at hcm
              exact absurd hcm (by simp)
            · exact absurd hk (by simp)
          · exact absurd hsm (by simp)
      cases hrules : mustRules g mn with
      | nil =>
        simp only [hrules] at hu hrs
        cases dflt with
        | true =>
          simp only [if_true] at hu
          obtain ⟨hb, a, hv⟩ := hu
          exact ⟨a, ih.pre (cs := [cond]) hrs hv, fun h => absurd h (by simp [hb])⟩
        | false =>
          simp only [Bool.false_eq_true, if_false] at hu
          exact ⟨b, ih.pre (cs := [cond]) hrs hu, fun h => ⟨rfl, h⟩⟩
      | cons r rs =>
        simp only [hrules] at hu hrs
        cases dflt with
        | true =>
          simp only [if_true] at hu
          obtain ⟨hb, a, hv⟩ := hu
          have hw' := hv.single
          cases f with
          | zero => simp [work] at hw'
          | succ f0 =>
            have ⟨_, hu'⟩ := work_zero_unfold hw'
            have hent' : (abstract g).ent (.aux i 0) = ⟨.seq, nodes (cond :: r :: rs)⟩ := by
              show entryOf g (.aux i 0) = _
              simp only [entryOf, heff, auxOf, hrules]
            rw [hent'] at hu'
            simp only at hu'
            exact ⟨a, (ih.mono (Nat.le_succ f0)).pre hrs hu', fun h => absurd h (by simp [hb])⟩
        | false =>
          simp only [Bool.false_eq_true, if_false] at hu
          exact ⟨b, ih.pre hrs hu, fun h => ⟨rfl, h⟩⟩
    obtain ⟨b', p, hbb⟩ := key
    cases p with
    | stop t c =>
      exact kind_ifMust cx t (Or.inl ⟨c, hout mn hmnlt⟩) hnf (fun h => (hbb h).1) (fun _ => Or.inl c)
    | skip t p' =>
      have := hshape _ p'
      exact kind_ifMust cx t (Or.inr this.1) hnf (fun h => (hbb h).1) (fun h => Or.inr (this.2 (hbb h).2))
  | raise t =>
    have kr := kind_raise cx L t
    exact ⟨kr.1, fun _ => kr.2⟩
  | rep k c =>
    simp only [traitOf] at hu
    simp only [Kind.kids, List.mem_singleton, forall_eq] at hkids hlt'
    by_cases hk0 : k = 0
    · subst hk0
      simp only [bne_self_eq_false, Bool.false_eq_true, if_false] at hu
      obtain ⟨hb, a, hv⟩ := hu
      have := ih f (Nat.le_refl _) _ c a hv.single hkids
      exact kind_rep cx this.1 (fun h => absurd h (by simp [hb]))
    · have hne : (k != 0) = true := by simp [hk0]
      simp only [hne, if_true] at hu
      have := ih f (Nat.le_refl _) _ c b hu.single hkids
      exact kind_rep cx this.1 (fun h => ⟨hk0, this.2 h⟩)
  | repOpt k c =>
    simp only [traitOf] at hu
    simp only [Kind.kids, List.mem_singleton, forall_eq] at hkids hlt'
    obtain ⟨hb, a, hv⟩ := hu
    have := ih f (Nat.le_refl _) _ c a hv.single hkids
    exact ⟨kind_repOpt cx this.1, fun h => absurd h (by simp [hb])⟩
  | repMinMax lo hi c na =>
    simp only [traitOf] at hu
    simp only [Kind.linksOK, Option.map_eq_some_iff] at hlinks
    obtain ⟨ndna, hndna, hkna⟩ := hlinks
    have hcna : cx.g[na]? = some ndna := by rw [hg]; exact hndna
    have hc : c < g.size := hkids c (by simp [Kind.kids])
    have tna : ∀ {x}, Term cx L c → (x : Bool) = x → Term cx L na := by
      intro x tc _
      exact term_of_body cx hcna (hwrap na ndna hcna) (by rw [hkna]; exact kind_notAt cx tc)
    by_cases hk0 : lo = 0
    · subst hk0
      simp only [bne_self_eq_false, Bool.false_eq_true, if_false] at hu
      obtain ⟨hb, a, hv⟩ := hu
      have := ih f (Nat.le_refl _) _ c a hv.single hc
      exact kind_repMinMax cx this.1 (tna this.1 (rfl : true = true)) (fun h => absurd h (by simp [hb]))
    · have hne : (lo != 0) = true := by simp [hk0]
      simp only [hne, if_true] at hu
      have := ih f (Nat.le_refl _) _ c b hu.single hc
      exact kind_repMinMax cx this.1 (tna this.1 (rfl : true = true)) (fun h => ⟨hk0, this.2 h⟩)
  | ifThenElse c t e =>
    simp only [traitOf] at hu
    have hc : c < g.size := hkids c (by simp [Kind.kids])
    have ht : t < g.size := hkids t (by simp [Kind.kids])
    have he : e < g.size := hkids e (by simp [Kind.kids])
    obtain ⟨b1, hw1, hb1⟩ := hu (.aux i 0) (by simp)
    obtain ⟨b2, hw2, hb2⟩ := hu (.node e) (by simp)
    have ihe := ih f (Nat.le_refl _) _ e b2 hw2 he
    cases f with
    | zero => simp [work] at hw1
    | succ f0 =>
      have ⟨_, hu'⟩ := work_zero_unfold hw1
      have hent' : (abstract g).ent (.aux i 0) = ⟨.seq, nodes [c, t]⟩ := by
        show entryOf g (.aux i 0) = _
        simp only [entryOf, heff, auxOf, nodes, List.map_cons, List.map_nil]
      rw [hent'] at hu'
      simp only at hu'
      have p := (ih.mono (Nat.le_succ f0)).pre (cs := [c, t]) (by
        intro x hx; simp only [List.mem_cons, List.mem_nil_iff, or_false] at hx
        rcases hx with rfl | rfl <;> assumption) hu'
      exact kind_ifThenElse cx p ihe.1 (hout t ht) hb1 (fun h => ihe.2 (hb2 h))
  | until2 cond bd =>
    simp only [traitOf] at hu
    have hc : cond < g.size := hkids cond (by simp [Kind.kids])
    have hbd : bd < g.size := hkids bd (by simp [Kind.kids])
    -- the first sub-entry is `star< Rule >`, an `opt` entry: it reports "does not consume"
    have hstar : ∀ {b'}, work (abstract g) f (.node i :: S) (.aux i 0) false = some (b', 0) →
        b' = false ∧ Term cx L bd ∧ Cons cx bd := by
      intro b' hw'
      cases f with
      | zero => simp [work] at hw'
      | succ f0 =>
        have ⟨_, hu'⟩ := work_zero_unfold hw'
        have hent' : (abstract g).ent (.aux i 0) = ⟨.opt, [.aux i 1]⟩ := by
          show entryOf g (.aux i 0) = _
          simp only [entryOf, heff, auxOf, if_true]
        rw [hent'] at hu'
        simp only at hu'
        obtain ⟨hb', a', hv'⟩ := hu'
        refine ⟨hb', ?_⟩
        have hw'' := hv'.single
        cases f0 with
        | zero => simp [work] at hw''
        | succ f1 =>
          have ⟨_, hu''⟩ := work_zero_unfold hw''
          have hent'' : (abstract g).ent (.aux i 1) = ⟨.seq, [.node bd, .aux i 0]⟩ := by
            show entryOf g (.aux i 1) = _
            simp only [entryOf, heff, auxOf]
            simp
          rw [hent''] at hu''
          simp only at hu''
          have hblk : ∀ b, work (abstract g) f1 (.aux i 1 :: .aux i 0 :: .node i :: S) (.aux i 0) false ≠ some (b, 0) :=
            fun b => work_on_stack (List.mem_cons_of_mem _ (List.mem_cons_self ..)) b
          have ⟨_, hv3⟩ := OrVisit.blocked hblk [.node bd] [] _ hu''
          have := ih f1 (by omega) _ bd true hv3.single hbd
          exact ⟨this.1, this.2 rfl⟩
    cases hu with
    | stop hw1 => exact absurd (hstar hw1).1 (by simp)
    | skip hw1 hv =>
      have ⟨_, tb, cb⟩ := hstar hw1
      have := ih f (Nat.le_refl _) _ cond b hv.single hc
      exact kind_until2 cx this.1 tb cb this.2
  | rematch head rs =>
    simp only [traitOf] at hu
    have hh : head < g.size := hkids head (by simp [Kind.kids])
    have hrs : ∀ c ∈ rs, c < g.size := fun c hc => hkids c (by simp [Kind.kids, hc])
    obtain ⟨b1, hw1, hb1⟩ := hu (.node head) (by simp)
    obtain ⟨b2, hw2, _⟩ := hu (.aux i 0) (by simp)
    have ihh := ih f (Nat.le_refl _) _ head b1 hw1 hh
    refine kind_rematch cx ihh.1 ?_ (fun h => ihh.2 (hb1 h))
    intro c hc
    have hne : rs.isEmpty = false := by
      cases rs with
      | nil => simp at hc
      | cons _ _ => rfl
    cases f with
    | zero => simp [work] at hw2
    | succ f0 =>
      have ⟨_, hu'⟩ := work_zero_unfold hw2
      have hent' : (abstract g).ent (.aux i 0) = ⟨.sor, (List.range rs.length).map fun n => .aux i (2 + n)⟩ := by
        show entryOf g (.aux i 0) = _
        simp only [entryOf, heff, auxOf, hne, Bool.false_eq_true, if_false, if_true]
      rw [hent'] at hu'
      simp only at hu'
      obtain ⟨n, hn, rfl⟩ := List.getElem_of_mem hc
      obtain ⟨b3, hw3, _⟩ := hu' (.aux i (2 + n)) (List.mem_map.mpr ⟨n, List.mem_range.mpr hn, rfl⟩)
      cases f0 with
      | zero => simp [work] at hw3
      | succ f1 =>
        have ⟨_, hu''⟩ := work_zero_unfold hw3
        have hent'' : (abstract g).ent (.aux i (2 + n)) = ⟨.seq, [.node rs[n], .aux i 1]⟩ := by
          show entryOf g (.aux i (2 + n)) = _
          have h1 : (2 + n = 0) = False := by simp
          have h2 : (2 + n = 1) = False := by simp; omega
          simp only [entryOf, heff, auxOf, hne, Bool.false_eq_true, if_false, h1, h2, Nat.add_sub_cancel_left]
          simp [List.getD, hn]
        rw [hent''] at hu''
        simp only at hu''
        obtain ⟨b4, hw4, _⟩ := hu''.head
        exact (ih f1 (by omega) _ rs[n] b4 hw4 (hrs _ (List.getElem_mem hn))).1
  | until1 c => exact absurd rfl (hnu c)
  | strict c r =>
    -- no `analyze_traits` exists: the model's entry points to itself, which counts as a problem
    exfalso
    simp only [traitOf] at hu
    obtain ⟨b', hb', _⟩ := hu (.node i) (by simp)
    exact work_on_stack (List.mem_cons_self ..) b' hb'
  | starStrict c r =>
    exfalso
    simp only [traitOf] at hu
    obtain ⟨b', hb', _⟩ := hu (.node i) (by simp)
    exact work_on_stack (List.mem_cons_self ..) b' hb'

/-- `until< Cond >` takes the traits of `Cond::rule_t`: where the chain of `until< … >`s starting at
    a kind ends, and that the end is the kind of a node of the table. -/
theorem baseKind_mem (g : Grammar) : ∀ (f : Nat) (k0 k : Kind), baseKind g f k0 = k →
    k = k0 ∨ ∃ nd ∈ g.toList, nd.kind = k := by
  intro f
  induction f with
  | zero => intro k0 k h; left; cases k0 <;> exact h.symm
  | succ f ih =>
    intro k0 k h
    cases k0 with
    | until1 c =>
      simp only [baseKind] at h
      split at h
      · rename_i ndc hc
        rcases ih _ _ h with h1 | h1
        · exact Or.inr ⟨ndc, mem_toList_of_getElem? hc, h1.symm⟩
        · exact Or.inr h1
      · exact Or.inl h.symm
    | _ => left; exact h.symm

/-- What holds for the kind at the end of the chain holds for every `until< … >` on the way. -/
theorem chain_lift (hg : cx.g = g) (hwrap : ∀ i nd, cx.g[i]? = some nd → WrapWF cx i nd) {L : Nat} {b : Bool} {k : Kind}
    (hnu : ∀ c, k ≠ .until1 c) (hk : BodyTerm cx L k ∧ (b = true → BodyAdv cx k)) :
    ∀ (f : Nat) (k0 : Kind), baseKind g f k0 = k → BodyTerm cx L k0 ∧ (b = true → BodyAdv cx k0) := by
  intro f
  induction f with
  | zero =>
    intro k0 h
    have : k0 = k := by cases k0 <;> exact h
    subst this
    exact hk
  | succ f ih =>
    intro k0 h
    cases k0 with
    | until1 c =>
      simp only [baseKind] at h
      split at h
      · rename_i ndc hc
        have hcx : cx.g[c]? = some ndc := by rw [hg]; exact hc
        have := node_of_body hcx (hwrap c ndc hcx) (ih _ h)
        exact kind_until1 cx this.1 this.2
      · exact absurd h.symm (hnu c)
    | _ => (first | (have : _ = k := h; subst this; exact hk))

/-- The main induction: on the fuel of the DFS, for a fixed bound `L` on the bytes left and assuming
    that every node terminates on fewer bytes. -/
theorem sound_main (hg : cx.g = g) (hwf : WF g)
    (hwrap : ∀ i nd, cx.g[i]? = some nd → WrapWF cx i nd) (L : Nat)
    (hout : ∀ i, i < g.size → ∀ L' < L, Term cx L' i) : ∀ f, IH cx g L f := by
  intro f
  induction f with
  | zero =>
    intro f' hf' S c b hw
    have : f' = 0 := by omega
    subst this
    simp [work] at hw
  | succ f ih =>
    intro f' hf' S i b hw hi
    by_cases hlt : f' ≤ f
    · exact ih f' hlt S i b hw hi
    · have : f' = f + 1 := by omega
      subst this
      have hnd : g[i]? = some g[i] := by simp [hi]
      generalize g[i] = nd at hnd
      have hcx : cx.g[i]? = some nd := by rw [hg]; exact hnd
      have ⟨hS, hu⟩ := work_zero_unfold hw
      have hent : (abstract g).ent (.node i) = traitOf g i (effKind g i) := rfl
      rw [hent] at hu
      have hbase : baseKind g g.size nd.kind = effKind g i := by simp only [effKind, hnd]
      -- the kind at the end of the `until< … >` chain is the kind of a node of the table
      have hmem : ∃ nd' ∈ g.toList, nd'.kind = effKind g i := by
        rcases baseKind_mem g _ _ _ hbase with h1 | h1
        · exact ⟨nd, mem_toList_of_getElem? hnd, h1.symm⟩
        · exact h1
      obtain ⟨nd', hnd', hkind'⟩ := hmem
      generalize heff : effKind g i = k at hu hbase hkind'
      by_cases hnu : ∀ c, k ≠ .until1 c
      · have hk := kinds_sound hg hwf hwrap hout ih heff (by rw [← hkind']; exact (hwf nd' hnd').1)
          (by rw [← hkind']; exact (hwf nd' hnd').2) hnu hu
        exact node_of_body hcx (hwrap i nd hcx) (chain_lift hg hwrap hnu hk _ _ hbase)
      · -- a cyclic chain (no C++ program): the model's entry points to itself
        exfalso
        have : ∃ c, k = .until1 c := by
          apply Classical.byContradiction
          intro hne
          exact hnu (fun c hc => hne ⟨c, hc⟩)
        obtain ⟨c, rfl⟩ := this
        simp only [traitOf] at hu
        obtain ⟨b', hb', _⟩ := hu (.node i) (by simp)
        exact work_on_stack (List.mem_cons_self ..) b' hb'

end
end Pegtl
