/-
  Lemmas/Span.lean — positions in the invocation tree (C12, "children contained in and ordered within
  their parent").

  Every trace of the model is the event list of one invocation tree (`run_tree`).  Here: in that tree,
  below every successful invocation of a rule that does not re-read input (everything except `at`,
  `not_at` and `rematch` with inner rules), the successful sub-invocations are *chained*: each starts at or
  after the end of the previous one, the first not before the parent's start and the last not after the
  parent's end.  (Below a look-ahead the sub-invocations lie beyond the — empty — span of the look-ahead
  itself, and `rematch` starts each inner rule again at the head's start: there the clause of the property is
  false, see `Props/C12.lean`.)
-/
import PegtlVerif.Lemmas.Tree
import PegtlVerif.Lemmas.Rewind

namespace Pegtl

/-- The successful invocations of the list are chained from `lo` on; the end of the last one (`lo` if none). -/
def chainEnd (lo : Nat) : List Invoc → Option Nat
  | [] => some lo
  | t :: ts =>
    if t.res = 1 then (if lo ≤ t.b.pos ∧ t.b.pos ≤ t.e.pos then chainEnd t.e.pos ts else none)
    else chainEnd lo ts

def chainOK (lo : Nat) (ts : List Invoc) (hi : Nat) : Bool :=
  match chainEnd lo ts with
  | some e => decide (e ≤ hi)
  | none => false

theorem chainEnd_ge : ∀ (ts : List Invoc) (lo e : Nat), chainEnd lo ts = some e → lo ≤ e := by
  intro ts
  induction ts with
  | nil => intro lo e h; simp only [chainEnd, Option.some.injEq] at h; omega
  | cons t ts ih =>
    intro lo e h
    simp only [chainEnd] at h
    split at h
    · split at h
      · have := ih _ _ h; omega
      · exact absurd h (by simp)
    · exact ih _ _ h

theorem chainEnd_lower : ∀ (ts : List Invoc) (lo lo' e : Nat), lo' ≤ lo → chainEnd lo ts = some e →
    ∃ e', chainEnd lo' ts = some e' ∧ e' ≤ e := by
  intro ts
  induction ts with
  | nil => intro lo lo' e hl h; simp only [chainEnd, Option.some.injEq] at h; exact ⟨lo', rfl, by omega⟩
  | cons t ts ih =>
    intro lo lo' e hl h
    simp only [chainEnd] at h ⊢
    split at h
    · rename_i hr
      split at h
      · rename_i hc
        simp only [hr, if_true]
        rw [if_pos ⟨by omega, hc.2⟩]
        exact ⟨e, h, Nat.le_refl _⟩
      · exact absurd h (by simp)
    · rename_i hr
      simp only [hr, if_false]
      exact ih _ _ _ hl h

theorem chainEnd_append : ∀ (a b : List Invoc) (lo : Nat),
    chainEnd lo (a ++ b) = (chainEnd lo a).bind fun e => chainEnd e b := by
  intro a
  induction a with
  | nil => intro b lo; rfl
  | cons t ts ih =>
    intro b lo
    simp only [List.cons_append, chainEnd]
    split
    · split
      · exact ih b _
      · rfl
    · exact ih b _

theorem chainOK_iff {lo hi : Nat} {ts : List Invoc} : chainOK lo ts hi = true ↔ ∃ e, chainEnd lo ts = some e ∧ e ≤ hi := by
  unfold chainOK
  cases chainEnd lo ts with
  | none => simp
  | some e => simp

theorem chainOK_append {lo mid hi : Nat} {a b : List Invoc} (ha : chainOK lo a mid = true) (hb : chainOK mid b hi = true) :
    chainOK lo (a ++ b) hi = true := by
  rw [chainOK_iff] at ha hb ⊢
  obtain ⟨e1, h1, l1⟩ := ha
  obtain ⟨e2, h2, l2⟩ := hb
  obtain ⟨e2', h2', l2'⟩ := chainEnd_lower b mid e1 e2 l1 h2
  exact ⟨e2', by rw [chainEnd_append, h1]; exact h2', by omega⟩

theorem chainOK_le {lo hi : Nat} {ts : List Invoc} (h : chainOK lo ts hi = true) : lo ≤ hi := by
  rw [chainOK_iff] at h
  obtain ⟨e, he, hl⟩ := h
  have := chainEnd_ge ts lo e he
  omega

theorem chainOK_widen {lo hi hi' : Nat} {ts : List Invoc} (h : chainOK lo ts hi = true) (hh : hi ≤ hi') :
    chainOK lo ts hi' = true := by
  rw [chainOK_iff] at h ⊢
  obtain ⟨e, he, hl⟩ := h
  exact ⟨e, he, by omega⟩

mutual
/-- The chain condition at every successful invocation of a rule that does not re-read input (`rr i = false`). -/
def wellT (rr : Nat → Bool) : Invoc → Bool
  | .mk i _ _ _ res b e kids => wellL rr kids && (res != 1 || rr i || chainOK b.pos kids e.pos)
def wellL (rr : Nat → Bool) : List Invoc → Bool
  | [] => true
  | t :: ts => wellT rr t && wellL rr ts
end

theorem wellL_append (rr : Nat → Bool) (a b : List Invoc) : wellL rr (a ++ b) = (wellL rr a && wellL rr b) := by
  induction a with
  | nil => simp [wellL]
  | cons t ts ih => simp [wellL, ih, Bool.and_assoc]

/-- `Kind`s whose body goes back over input it has passed while succeeding. -/
def Kind.rereads : Kind → Bool
  | .atR _ => true
  | .notAt _ => true
  | .rematch _ (_ :: _) => true
  | _ => false

def rrOf (g : Grammar) (i : Nat) : Bool :=
  match g[i]? with
  | some nd => nd.kind.rereads
  | none => false

theorem rep_pos (cx : Ctx) (c : Cursor) : (cx.rep c).pos = cx.init.pos + c.pos := by
  unfold Ctx.rep; split <;> rfl

/-- A trace segment that is a forest of well-chained invocation trees. -/
def WForest (cx : Ctx) (l : List Ev) : Prop := ∃ ts : List Invoc, proj l = flatL ts ∧ wellL (rrOf cx.g) ts = true

theorem WForest_closed (cx : Ctx) : RawClosed (WForest cx) where
  nil := ⟨[], rfl, rfl⟩
  app := by
    rintro a b ⟨ta, ha, wa⟩ ⟨tb, hb, wb⟩
    exact ⟨ta ++ tb, by rw [proj_append, ha, hb, flatL_append], by rw [wellL_append, wa, wb]; rfl⟩
  raise := fun _ _ => ⟨[], rfl, rfl⟩
  sctor := fun _ => ⟨[], rfl, rfl⟩
  ssucc := fun _ _ _ => ⟨[], rfl, rfl⟩
  sdtor := fun _ => ⟨[], rfl, rfl⟩
  ract := fun _ _ _ _ => ⟨[], rfl, rfl⟩

/-- Helper level (sequences and loops, which never move the cursor back themselves): a well-chained forest whose
    successful roots are chained between the cursor at the start and the cursor at the end — in every outcome. -/
def HInv (cx : Ctx) (st : St) (r : Ret) : Prop :=
  ∃ ts : List Invoc, proj r.raw = flatL ts ∧ wellL (rrOf cx.g) ts = true ∧
    chainOK (cx.init.pos + st.cur.pos) ts (cx.init.pos + r.st.cur.pos) = true

/-- One rule invocation: its trace is one well-chained tree spanning from the cursor at entry to the cursor at return. -/
def RInv (cx : Ctx) (st : St) (r : Ret) : Prop :=
  ∃ t : Invoc, proj r.raw = t.flat ∧ wellT (rrOf cx.g) t = true ∧ t.res = r.res.code ∧ t.b = cx.rep st.cur ∧
    t.e = cx.rep r.st.cur ∧ st.cur.pos ≤ r.st.cur.pos

def SpRec (cx : Ctx) (rec : Rec) : Prop := ∀ j a m env st r, rec j a m env st = some r → RInv cx st r

theorem HInv.refl (cx : Ctx) (st : St) (res : Res) : HInv cx st ⟨res, st, [], []⟩ :=
  ⟨[], rfl, rfl, by simp [chainOK, chainEnd]⟩

theorem HInv.ofRec {cx : Ctx} {st : St} {r : Ret} (h : RInv cx st r) : HInv cx st r := by
  obtain ⟨t, ht, hw, hres, hb, he, hle⟩ := h
  refine ⟨[t], by simp [flatL, ht], by simp [wellL, hw], ?_⟩
  rw [chainOK_iff]
  simp only [chainEnd, hb, he, rep_pos]
  by_cases h1 : t.res = 1
  · rw [if_pos h1, if_pos ⟨Nat.le_refl _, by omega⟩]
    exact ⟨_, rfl, Nat.le_refl _⟩
  · rw [if_neg h1]
    exact ⟨_, rfl, by omega⟩

theorem HInv.le {cx : Ctx} {st : St} {r : Ret} (h : HInv cx st r) : st.cur.pos ≤ r.st.cur.pos := by
  obtain ⟨ts, _, _, hc⟩ := h
  have := chainOK_le hc
  omega

/-- Sequencing; the second part may start later than the first ended (`until< R >` skips a byte in between). -/
theorem HInv.seq {cx : Ctx} {st st2 : St} {r1 r2 r : Ret} (h1 : HInv cx st r1) (h2 : HInv cx st2 r2)
    (hmid : r1.st.cur.pos ≤ st2.cur.pos) (hraw : proj r.raw = proj r1.raw ++ proj r2.raw)
    (hst : r.st.cur.pos = r2.st.cur.pos) : HInv cx st r := by
  obtain ⟨t1, e1, w1, c1⟩ := h1
  obtain ⟨t2, e2, w2, c2⟩ := h2
  refine ⟨t1 ++ t2, by rw [hraw, e1, e2, flatL_append], by rw [wellL_append, w1, w2]; rfl, ?_⟩
  rw [hst]
  exact chainOK_append (chainOK_widen c1 (by omega)) c2

/-- Same forest, same final cursor. -/
theorem HInv.of {cx : Ctx} {st : St} {r r' : Ret} (h : HInv cx st r) (hraw : proj r'.raw = proj r.raw)
    (hst : r'.st.cur.pos = r.st.cur.pos) : HInv cx st r' := by
  obtain ⟨ts, e, w, c⟩ := h
  exact ⟨ts, by rw [hraw, e], w, by rw [hst]; exact c⟩

theorem HInv.seqP {cx : Ctx} {st : St} {r1 r2 : Ret} (h1 : HInv cx st r1) (h2 : HInv cx r1.st r2) (surv : List Ev) :
    HInv cx st (r2.prepend r1.raw surv) :=
  HInv.seq h1 h2 (Nat.le_refl _) (by simp [proj_append]) (by simp)

section helpers
variable {cx : Ctx} {rec : Rec} (hrec : SpRec cx rec)
include hrec

theorem seqAll_h (a : AMode) (m : RMode) (env : Env) :
    ∀ (cs : List Nat) (st : St) (r : Ret), seqAll rec a m env cs st = some r → HInv cx st r := by
  intro cs
  induction cs with
  | nil => intro st r h; simp only [seqAll, Option.some.injEq] at h; subst h; exact HInv.refl cx st _
  | cons c cs ih =>
    intro st r h
    simp only [seqAll] at h
    split at h
    · exact absurd h (by simp)
    · rename_i r1 h1
      have t1 := HInv.ofRec (hrec _ _ _ _ _ _ h1)
      split at h
      · split at h
        · exact absurd h (by simp)
        · rename_i r2 h2
          simp only [Option.some.injEq] at h; subst h
          exact t1.seqP (ih _ _ h2) _
      · simp only [Option.some.injEq] at h; subst h; exact t1

theorem sorAny_h (a : AMode) (m : RMode) (env : Env) :
    ∀ (cs : List Nat) (st : St) (r : Ret), sorAny rec a m env cs st = some r → HInv cx st r := by
  intro cs
  induction cs with
  | nil => intro st r h; simp only [sorAny, Option.some.injEq] at h; subst h; exact HInv.refl cx st _
  | cons c cs ih =>
    intro st r h
    cases cs with
    | nil => simp only [sorAny] at h; exact HInv.ofRec (hrec _ _ _ _ _ _ h)
    | cons c' cs' =>
      simp only [sorAny] at h
      split at h
      · exact absurd h (by simp)
      · rename_i r1 h1
        have t1 := HInv.ofRec (hrec _ _ _ _ _ _ h1)
        split at h
        · split at h
          · exact absurd h (by simp)
          · rename_i r2 h2
            simp only [Option.some.injEq] at h; subst h
            exact t1.seqP (ih _ _ h2) _
        · simp only [Option.some.injEq] at h; subst h; exact t1

theorem loopStar_h (a : AMode) (env : Env) (cs : List Nat) :
    ∀ (k : Nat) (st : St) (r : Ret), loopStar rec a env cs k st = some r → HInv cx st r := by
  intro k
  induction k with
  | zero => intro st r h; simp [loopStar] at h
  | succ k ih =>
    intro st r h
    simp only [loopStar] at h
    split at h
    · exact absurd h (by simp)
    · rename_i r1 h1
      have t1 := seqAll_h hrec a .required env cs st r1 h1
      split at h
      · split at h
        · exact absurd h (by simp)
        · rename_i r2 h2
          simp only [Option.some.injEq] at h; subst h
          exact t1.seqP (ih _ _ h2) _
      · simp only [Option.some.injEq] at h; subst h
        exact t1.of rfl rfl
      · simp only [Option.some.injEq] at h; subst h; exact t1

theorem repN_h (a : AMode) (m : RMode) (env : Env) (c : Nat) :
    ∀ (k : Nat) (st : St) (r : Ret), repN rec a m env c k st = some r → HInv cx st r := by
  intro k
  induction k with
  | zero => intro st r h; simp only [repN, Option.some.injEq] at h; subst h; exact HInv.refl cx st _
  | succ k ih =>
    intro st r h
    simp only [repN] at h
    split at h
    · exact absurd h (by simp)
    · rename_i r1 h1
      have t1 := HInv.ofRec (hrec _ _ _ _ _ _ h1)
      split at h
      · split at h
        · exact absurd h (by simp)
        · rename_i r2 h2
          simp only [Option.some.injEq] at h; subst h
          exact t1.seqP (ih _ _ h2) _
      · simp only [Option.some.injEq] at h; subst h; exact t1

theorem repUpTo_h (a : AMode) (env : Env) (c : Nat) :
    ∀ (k : Nat) (st : St) (r : Ret) (full : Bool), repUpTo rec a env c k st = some (r, full) → HInv cx st r := by
  intro k
  induction k with
  | zero =>
    intro st r full h
    simp only [repUpTo, Option.some.injEq, Prod.mk.injEq] at h
    obtain ⟨rfl, -⟩ := h
    exact HInv.refl cx st _
  | succ k ih =>
    intro st r full h
    simp only [repUpTo] at h
    split at h
    · exact absurd h (by simp)
    · rename_i r1 h1
      have t1 := HInv.ofRec (hrec _ _ _ _ _ _ h1)
      split at h
      · split at h
        · exact absurd h (by simp)
        · rename_i r2 f2 h2
          simp only [Option.some.injEq, Prod.mk.injEq] at h
          obtain ⟨rfl, -⟩ := h
          exact t1.seqP (ih _ _ _ h2) _
      · simp only [Option.some.injEq, Prod.mk.injEq] at h
        obtain ⟨rfl, -⟩ := h
        exact t1.of rfl rfl
      · simp only [Option.some.injEq, Prod.mk.injEq] at h
        obtain ⟨rfl, -⟩ := h
        exact t1

theorem loopUntil1_h (a : AMode) (env : Env) (cond : Nat) :
    ∀ (k : Nat) (st : St) (r : Ret), loopUntil1 cx rec a env cond k st = some r → HInv cx st r := by
  intro k
  induction k with
  | zero => intro st r h; simp [loopUntil1] at h
  | succ k ih =>
    intro st r h
    simp only [loopUntil1] at h
    split at h
    · exact absurd h (by simp)
    · rename_i r1 h1
      have t1 := HInv.ofRec (hrec _ _ _ _ _ _ h1)
      split at h
      · simp only [Option.some.injEq] at h; subst h; exact t1
      · simp only [Option.some.injEq] at h; subst h; exact t1
      · split at h
        · simp only [Option.some.injEq] at h; subst h; exact t1
        · split at h
          · exact absurd h (by simp)
          · rename_i r2 h2
            simp only [Option.some.injEq] at h; subst h
            exact HInv.seq t1 (ih _ _ h2) (by simp) (by simp [proj_append]) (by simp)

theorem loopUntil2_h (a : AMode) (env : Env) (cond b : Nat) :
    ∀ (k : Nat) (st : St) (r : Ret), loopUntil2 rec a env cond b k st = some r → HInv cx st r := by
  intro k
  induction k with
  | zero => intro st r h; simp [loopUntil2] at h
  | succ k ih =>
    intro st r h
    simp only [loopUntil2] at h
    split at h
    · exact absurd h (by simp)
    · rename_i r1 h1
      have t1 := HInv.ofRec (hrec _ _ _ _ _ _ h1)
      split at h
      · simp only [Option.some.injEq] at h; subst h; exact t1
      · simp only [Option.some.injEq] at h; subst h; exact t1
      · split at h
        · exact absurd h (by simp)
        · rename_i r2 h2
          have t2 := HInv.ofRec (hrec _ _ _ _ _ _ h2)
          split at h
          · split at h
            · exact absurd h (by simp)
            · rename_i r3 h3
              simp only [Option.some.injEq] at h; subst h
              have t12 : HInv cx st (r2.prepend r1.raw []) := t1.seqP t2 _
              exact HInv.seq t12 (ih _ _ h3) (by simp) (by simp [proj_append]) (by simp)
          · simp only [Option.some.injEq] at h; subst h
            exact t1.seqP t2 _

theorem loopStarStrict_h (a : AMode) (env : Env) (c rest : Nat) :
    ∀ (k : Nat) (st : St) (r : Ret), loopStarStrict rec a env c rest k st = some r → HInv cx st r := by
  intro k
  induction k with
  | zero => intro st r h; simp [loopStarStrict] at h
  | succ k ih =>
    intro st r h
    simp only [loopStarStrict] at h
    split at h
    · exact absurd h (by simp)
    · rename_i r1 h1
      have t1 := HInv.ofRec (hrec _ _ _ _ _ _ h1)
      split at h
      · simp only [Option.some.injEq] at h; subst h; exact t1.of rfl rfl
      · simp only [Option.some.injEq] at h; subst h; exact t1
      · split at h
        · exact absurd h (by simp)
        · rename_i r2 h2
          have t2 := HInv.ofRec (hrec _ _ _ _ _ _ h2)
          split at h
          · split at h
            · exact absurd h (by simp)
            · rename_i r3 h3
              simp only [Option.some.injEq] at h; subst h
              have t12 : HInv cx st (r2.prepend r1.raw []) := t1.seqP t2 _
              exact HInv.seq t12 (ih _ _ h3) (by simp) (by simp [proj_append]) (by simp)
          · simp only [Option.some.injEq] at h; subst h
            exact t1.seqP t2 _

end helpers

/-- Body level: the forest, and — when the body succeeded and its kind does not re-read input — the chain between the
    cursor at the start and the cursor at the end. -/
def BInv (cx : Ctx) (kind : Kind) (st : St) (r : Ret) : Prop :=
  ∃ ts : List Invoc, proj r.raw = flatL ts ∧ wellL (rrOf cx.g) ts = true ∧
    (r.res = .ok → kind.rereads = false → chainOK (cx.init.pos + st.cur.pos) ts (cx.init.pos + r.st.cur.pos) = true)

theorem BInv.ofH {cx : Ctx} {kind : Kind} {st : St} {r0 r : Ret} (h : HInv cx st r0) (hraw : proj r.raw = proj r0.raw)
    (hst : r.res = .ok → r.st.cur.pos = r0.st.cur.pos) : BInv cx kind st r := by
  obtain ⟨ts, e, w, c⟩ := h
  exact ⟨ts, by rw [hraw, e], w, fun hok _ => by rw [hst hok]; exact c⟩

theorem BInv.ofW {cx : Ctx} {kind : Kind} {st : St} {r : Ret} (h : WForest cx r.raw) (hk : kind.rereads = true) :
    BInv cx kind st r := by
  obtain ⟨ts, e, w⟩ := h
  exact ⟨ts, e, w, fun _ hn => by rw [hk] at hn; exact absurd hn (by simp)⟩

theorem guardRestore_ok_pos {g : RMode} {c : Cursor} {r : Ret} (h : r.res = .ok) : (guardRestore g c r).st = r.st := by
  simp [guardRestore, h]

theorem BInv.guard {cx : Ctx} {kind : Kind} {st : St} {r0 : Ret} (h : HInv cx st r0) (m : RMode) :
    BInv cx kind st (guardRestore m st.cur r0).dropOnFail :=
  BInv.ofH h (by simp) (fun hok => by
    simp only [dropOnFail_res, guardRestore_res] at hok
    simp [guardRestore_ok_pos hok])

theorem RInv.wforest {cx : Ctx} {st : St} {r : Ret} (h : RInv cx st r) : WForest cx r.raw := by
  obtain ⟨t, ht, hw, -⟩ := h
  exact ⟨[t], by simp [flatL, ht], by simp [wellL, hw]⟩

theorem runActs_proj (cx : Ctx) (sd : Nat) (b e : Cursor) (acts : List RuleAct) : proj (runActs cx sd b e acts).2 = [] :=
  runActs_raw (Q := fun l => proj l = []) rfl (fun ha hb => by rw [proj_append, ha, hb]; rfl) cx sd b e (fun _ => rfl) acts

theorem body_span {cx : Ctx} {rec : Rec} (hrec : SpRec cx rec) (k : Nat) (kind : Kind)
    (a : AMode) (m : RMode) (env : Env) (st : St) (r : Ret)
    (h : body cx rec k kind a m env st = some r) : BInv cx kind st r := by
  have hq : QRec (WForest cx) rec := fun j a m env st r h => (hrec j a m env st r h).wforest
  have hw : WForest cx r.raw := body_raw (WForest_closed cx) hq cx k kind a m env st r h
  cases kind with
  | atom atm =>
    simp only [body, Option.some.injEq] at h; subst h
    exact ⟨[], rfl, rfl, fun hok _ => by
      have := (atomStep_frame cx atm st).mono
      simp only [chainOK, chainEnd, decide_eq_true_eq]
      omega⟩
  | seq cs =>
    simp only [body] at h
    split at h
    · exact BInv.ofH (HInv.ofRec (hrec _ _ _ _ _ _ h)) rfl (fun _ => rfl)
    · simp only [Option.map_eq_some_iff] at h
      obtain ⟨r0, h0, rfl⟩ := h
      exact BInv.guard (seqAll_h hrec _ _ _ _ _ _ h0) m
  | sor cs => simp only [body] at h; exact BInv.ofH (sorAny_h hrec _ _ _ _ _ _ h) rfl (fun _ => rfl)
  | starPartial cs => simp only [body] at h; exact BInv.ofH (loopStar_h hrec _ _ _ _ _ _ h) rfl (fun _ => rfl)
  | partialR cs =>
    simp only [body, Option.map_eq_some_iff] at h
    obtain ⟨r0, h0, rfl⟩ := h
    have t := seqAll_h hrec _ _ _ _ _ _ h0
    split
    · exact BInv.ofH t rfl (fun _ => rfl)
    · exact BInv.ofH t rfl (fun _ => rfl)
  | plus c =>
    simp only [body] at h
    split at h
    · exact absurd h (by simp)
    · rename_i r1 h1
      have t1 := HInv.ofRec (hrec _ _ _ _ _ _ h1)
      split at h
      · simp only [Option.map_eq_some_iff] at h
        obtain ⟨r2, h2, rfl⟩ := h
        exact BInv.ofH (t1.seqP (loopStar_h hrec _ _ _ _ _ _ h2) r1.surv) rfl (fun _ => rfl)
      · simp only [Option.some.injEq] at h; subst h; exact BInv.ofH t1 rfl (fun _ => rfl)
  | atR c => exact BInv.ofW hw rfl
  | notAt c => exact BInv.ofW hw rfl
  | until1 cond =>
    simp only [body, Option.map_eq_some_iff] at h
    obtain ⟨r0, h0, rfl⟩ := h
    exact BInv.guard (loopUntil1_h hrec _ _ _ _ _ _ h0) m
  | until2 cond b =>
    simp only [body, Option.map_eq_some_iff] at h
    obtain ⟨r0, h0, rfl⟩ := h
    exact BInv.guard (loopUntil2_h hrec _ _ _ _ _ _ _ h0) m
  | rep n c =>
    simp only [body, Option.map_eq_some_iff] at h
    obtain ⟨r0, h0, rfl⟩ := h
    exact BInv.guard (repN_h hrec _ _ _ _ _ _ _ h0) m
  | repMinMax lo hi c na =>
    simp only [body] at h
    split at h
    · exact absurd h (by simp)
    · rename_i r1 h1
      have t1 := repN_h hrec _ _ _ _ _ _ _ h1
      split at h
      · split at h
        · exact absurd h (by simp)
        · rename_i r2 full h2
          have t2 := repUpTo_h hrec _ _ _ _ _ _ _ h2
          have t12 : HInv cx st (r2.prepend r1.raw r1.surv) := t1.seqP t2 _
          split at h
          · split at h
            · exact absurd h (by simp)
            · rename_i r3 h3
              simp only [Option.some.injEq] at h; subst h
              exact BInv.guard (t12.seqP (HInv.ofRec (hrec _ _ _ _ _ _ h3)) _) m
          · simp only [Option.some.injEq] at h; subst h
            exact BInv.guard t12 m
      · simp only [Option.some.injEq] at h; subst h
        exact BInv.guard t1 m
  | repOpt n c =>
    simp only [body, Option.map_eq_some_iff] at h
    obtain ⟨⟨r0, full⟩, h0, rfl⟩ := h
    exact BInv.ofH (repUpTo_h hrec _ _ _ _ _ _ _ h0) rfl (fun _ => rfl)
  | ifThenElse c t e =>
    simp only [body] at h
    split at h
    · exact absurd h (by simp)
    · rename_i r1 h1
      have t1 := HInv.ofRec (hrec _ _ _ _ _ _ h1)
      split at h
      · simp only [Option.map_eq_some_iff] at h
        obtain ⟨r2, h2, rfl⟩ := h
        exact BInv.guard (t1.seqP (HInv.ofRec (hrec _ _ _ _ _ _ h2)) _) m
      · simp only [Option.map_eq_some_iff] at h
        obtain ⟨r2, h2, rfl⟩ := h
        exact BInv.guard (t1.seqP (HInv.ofRec (hrec _ _ _ _ _ _ h2)) _) m
      · simp only [Option.some.injEq] at h; subst h
        exact BInv.guard t1 m
  | strict c rest =>
    simp only [body] at h
    split at h
    · exact absurd h (by simp)
    · rename_i r1 h1
      have t1 := HInv.ofRec (hrec _ _ _ _ _ _ h1)
      split at h
      · simp only [Option.map_eq_some_iff] at h
        obtain ⟨r2, h2, rfl⟩ := h
        exact BInv.guard (t1.seqP (HInv.ofRec (hrec _ _ _ _ _ _ h2)) _) m
      · simp only [Option.some.injEq] at h; subst h
        exact BInv.ofH t1 rfl (fun _ => rfl)
      · simp only [Option.some.injEq] at h; subst h
        exact BInv.guard t1 m
  | starStrict c rest =>
    simp only [body, Option.map_eq_some_iff] at h
    obtain ⟨r0, h0, rfl⟩ := h
    exact BInv.guard (loopStarStrict_h hrec _ _ _ _ _ _ _ h0) m
  | rematch head rs =>
    cases rs with
    | nil =>
      simp only [body] at h
      exact BInv.ofH (HInv.ofRec (hrec _ _ _ _ _ _ h)) rfl (fun _ => rfl)
    | cons r0 rs' => exact BInv.ofW hw rfl
  | must c =>
    simp only [body] at h
    split at h
    · exact absurd h (by simp)
    · rename_i r1 h1
      have t1 := HInv.ofRec (hrec _ _ _ _ _ _ h1)
      split at h
      · simp only [Option.some.injEq] at h; subst h
        exact BInv.ofH t1 (by simp [proj_append, proj, Ev.isEE]) (fun _ => rfl)
      · simp only [Option.some.injEq] at h; subst h; exact BInv.ofH t1 rfl (fun _ => rfl)
  | ifMust dflt cond mn =>
    simp only [body] at h
    split at h
    · exact absurd h (by simp)
    · rename_i r1 h1
      have t1 := HInv.ofRec (hrec _ _ _ _ _ _ h1)
      split at h
      · simp only [Option.map_eq_some_iff] at h
        obtain ⟨r2, h2, rfl⟩ := h
        have t12 := t1.seqP (HInv.ofRec (hrec _ _ _ _ _ _ h2)) r1.surv
        split
        · exact BInv.ofH t12 (by simp) (fun _ => by simp)
        · exact BInv.ofH t12 rfl (fun _ => rfl)
      · simp only [Option.some.injEq] at h; subst h
        exact BInv.ofH t1 rfl (fun _ => rfl)
      · simp only [Option.some.injEq] at h; subst h; exact BInv.ofH t1 rfl (fun _ => rfl)
  | raise t =>
    simp only [body, Option.some.injEq] at h; subst h
    exact ⟨[], rfl, rfl, fun hok _ => by simp at hok⟩
  | tryCatchReturnFalse ex c =>
    simp only [body, Option.map_eq_some_iff] at h
    obtain ⟨r0, h0, rfl⟩ := h
    have t := HInv.ofRec (hrec _ _ _ _ _ _ h0)
    apply BInv.guard
    split
    · split
      · exact t.of rfl rfl
      · exact t
    · exact t
  | tryCatchRaiseNested ex c =>
    simp only [body, Option.map_eq_some_iff] at h
    obtain ⟨r0, h0, rfl⟩ := h
    have t := HInv.ofRec (hrec _ _ _ _ _ _ h0)
    apply BInv.guard
    split
    · split
      · exact t.of rfl rfl
      · exact t
    · exact t
  | enable c => simp only [body] at h; exact BInv.ofH (HInv.ofRec (hrec _ _ _ _ _ _ h)) rfl (fun _ => rfl)
  | disable c => simp only [body] at h; exact BInv.ofH (HInv.ofRec (hrec _ _ _ _ _ _ h)) rfl (fun _ => rfl)
  | action fam c => simp only [body] at h; exact BInv.ofH (HInv.ofRec (hrec _ _ _ _ _ _ h)) rfl (fun _ => rfl)
  | control kc c => simp only [body] at h; exact BInv.ofH (HInv.ofRec (hrec _ _ _ _ _ _ h)) rfl (fun _ => rfl)
  | state d c =>
    simp only [body, Option.map_eq_some_iff] at h
    obtain ⟨r0, h0, rfl⟩ := h
    refine BInv.ofH (HInv.ofRec (hrec _ _ _ _ _ _ h0)) ?_ (fun _ => rfl)
    unfold stateScope
    simp only [proj_append, proj, List.filter_cons, Ev.isEE]
    split <;> simp [Ev.isEE]
  | ifApply c acts =>
    simp only [body] at h
    split at h
    · simp only [Option.map_eq_some_iff] at h
      obtain ⟨r0, h0, rfl⟩ := h
      have t := HInv.ofRec (hrec _ _ _ _ _ _ h0)
      split
      · apply BInv.guard
        exact t.of (by simp [proj_append, runActs_proj]) rfl
      · exact BInv.guard t _
    · exact BInv.ofH (HInv.ofRec (hrec _ _ _ _ _ _ h)) rfl (fun _ => rfl)
  | applyR acts =>
    simp only [body] at h
    split at h
    · simp only [Option.some.injEq] at h
      subst h
      exact ⟨[], by simp [runActs_proj, flatL], rfl, fun _ _ => by simp [chainOK, chainEnd]⟩
    · simp only [Option.some.injEq] at h
      subst h
      exact ⟨[], rfl, rfl, fun _ _ => by simp [chainOK, chainEnd]⟩

theorem proj_other {e : Ev} (h : e.isEE = false) : proj [e] = [] := by simp [proj, h]

theorem afterBody_proj (cx : Ctx) (i : Nat) (a : AMode) (act : ActionSpec) (sd : Nat) (saved : Cursor) (r : Ret) :
    proj (afterBody cx i a act sd saved r).raw = proj r.raw := by
  have act_other : (actEvent cx i act sd saved r.st.cur).isEE = false := by unfold actEvent; split <;> rfl
  unfold afterBody
  split
  · simp only [proj_append]
    split <;> simp [proj, Ev.isEE]
  · unfold failureHook; split <;> simp [proj_append, proj, Ev.isEE]
  · simp only
    split
    · simp [proj_append, proj, Ev.isEE]
    · simp only [proj_append, proj_other act_other]
      split <;> simp [proj, Ev.isEE]
    · unfold failureHook
      split
      · simp only [proj_append, proj_other act_other]; simp [proj, Ev.isEE]
      · simp only [proj_append, proj_other act_other]; simp [proj, Ev.isEE]
    · show proj (r.raw ++ ([actEvent cx i act sd saved r.st.cur] ++ [Ev.success i (cx.rep r.st.cur)])) = proj r.raw
      simp only [proj_append, proj_other act_other]; simp [proj, Ev.isEE]

theorem afterBody_ok' (cx : Ctx) (i : Nat) (a : AMode) (act : ActionSpec) (sd : Nat) (saved : Cursor) (r : Ret)
    (h : (afterBody cx i a act sd saved r).res = .ok) : r.res = .ok := by
  unfold afterBody at h
  split at h
  · rename_i e he; exact absurd h (by simp [he])
  · exact absurd h (failureHook_res_ne_ok _ _ _ _)
  · assumption

theorem nodeCore_span {cx : Ctx} {rec : Rec} (hrec : SpRec cx rec) (k i : Nat) (nd : Node) (a : AMode) (m : RMode)
    (env : Env) (st : St) (r : Ret) (h : nodeCore cx rec k i nd a m env st = some r) : BInv cx nd.kind st r := by
  unfold nodeCore at h
  split at h
  · exact body_span hrec k _ _ _ _ _ _ h
  · simp only [Option.map_eq_some_iff] at h
    obtain ⟨r0, h0, rfl⟩ := h
    obtain ⟨ts, e, w, c⟩ := body_span hrec k _ _ _ _ _ _ h0
    refine ⟨ts, ?_, w, fun hok hk => ?_⟩
    · simp only [guardRestore_raw]
      rw [← e, ← afterBody_proj (cx.withCtl env.ctl) i a (cx.actOf env i nd) env.sd st.cur r0]
      simp [proj, Ev.isEE]
    · simp only [guardRestore_res] at hok
      have hok0 := afterBody_ok' _ _ _ _ _ _ _ hok
      rw [guardRestore_ok_pos (by simpa using hok)]
      simp only [afterBody_st]
      exact c hok0 hk

theorem stateScope_proj (cx : Ctx) (o : Nat) (b : Bool) (r : Ret) : proj (stateScope cx o b r).raw = proj r.raw := by
  unfold stateScope
  simp only [proj_append, proj, List.filter_cons, Ev.isEE]
  split <;> simp [Ev.isEE]

theorem BInv.ofR {cx : Ctx} {kind : Kind} {st : St} {r0 r : Ret} (h : RInv cx st r0) (hraw : proj r.raw = proj r0.raw)
    (hst : r.res = .ok → r.st.cur.pos = r0.st.cur.pos) : BInv cx kind st r :=
  BInv.ofH (HInv.ofRec h) hraw hst

/-- Every invocation's trace is one well-chained invocation tree. -/
theorem nodeCall_span {cx : Ctx} {rec : Rec} (hrec : SpRec cx rec) (hg : GoodRec rec) (k i : Nat) (a : AMode) (m : RMode)
    (env : Env) (st : St) (r : Ret) (h : nodeCall cx rec k i a m env st = some r) : RInv cx st r := by
  have good := nodeCall_good hg cx k i a m env st r h
  unfold nodeCall at h
  split at h
  · exact absurd h (by simp)
  · rename_i nd hnd
    simp only [Option.map_eq_some_iff] at h
    obtain ⟨r0, h0, rfl⟩ := h
    have key : BInv cx nd.kind st r0 := by
      split at h0
      · exact nodeCore_span hrec k i nd a m env st r0 h0
      · exact BInv.ofR (hrec _ _ _ _ _ _ h0) rfl (fun _ => rfl)
      · exact nodeCore_span hrec k i nd _ m env st r0 h0
      · exact nodeCore_span hrec k i nd _ m env st r0 h0
      · unfold limitDepthCall at h0
        split at h0
        · simp only [Option.some.injEq] at h0; subst h0
          exact ⟨[], rfl, rfl, fun hok _ => by simp at hok⟩
        · simp only [Option.map_eq_some_iff] at h0
          obtain ⟨r1, h1, rfl⟩ := h0
          obtain ⟨ts, e, w, c⟩ := nodeCore_span hrec k i nd a m env _ r1 h1
          exact ⟨ts, e, w, c⟩
      · unfold limitBytesCall at h0
        simp only [Option.map_eq_some_iff] at h0
        obtain ⟨r1, h1, rfl⟩ := h0
        obtain ⟨ts, e, w, c⟩ := nodeCore_span hrec k i nd a m env _ r1 h1
        split
        · exact ⟨ts, by rw [← e]; simp [proj, Ev.isEE], w, fun hok _ => by simp at hok⟩
        · exact ⟨ts, e, w, c⟩
      · simp only [Option.map_eq_some_iff] at h0
        obtain ⟨r1, h1, rfl⟩ := h0
        obtain ⟨ts, e, w, c⟩ := nodeCore_span hrec k i nd a m _ st r1 h1
        exact ⟨ts, by rw [stateScope_proj, e], w, c⟩
      · simp only [Option.map_eq_some_iff] at h0
        obtain ⟨r1, h1, rfl⟩ := h0
        exact BInv.ofR (hrec _ _ _ _ _ _ h1) (stateScope_proj _ _ _ _) (fun _ => rfl)
      · exact nodeCore_span hrec k i nd a m _ st r0 h0
    obtain ⟨ts, hts, hw, hc⟩ := key
    refine ⟨.mk i a m env.ctl r0.res.code (cx.rep st.cur) (cx.rep r0.st.cur) ts, ?_, ?_, by simp [Invoc.res, bracket],
      rfl, by simp [Invoc.e, bracket], good.le⟩
    · simp only [bracket, dropOnFail_raw, dropOnFail_res, Invoc.flat]
      have : proj (Ev.enter i a m (cx.rep st.cur) env.ctl :: r0.raw ++ [Ev.exit i r0.res.code (cx.rep r0.dropOnFail.st.cur)]) =
          Ev.enter i a m (cx.rep st.cur) env.ctl :: proj r0.raw ++ [Ev.exit i r0.res.code (cx.rep r0.dropOnFail.st.cur)] := by
        simp only [proj, List.cons_append, List.filter_cons, List.filter_append, List.filter_nil, Ev.isEE, if_true]
      rw [this, hts]
      simp
    · simp only [wellT, hw, Bool.true_and, Bool.or_eq_true, bne_iff_ne, ne_eq]
      by_cases hok : r0.res = .ok
      · by_cases hrr : rrOf cx.g i = true
        · exact Or.inl (Or.inr hrr)
        · right
          have hk : nd.kind.rereads = false := by
            simpa [rrOf, hnd] using hrr
          have := hc hok hk
          simpa [rep_pos] using this
      · left; left
        cases hr : r0.res <;> simp_all [Res.code]

theorem run_span (cx : Ctx) : ∀ n, SpRec cx (run cx n) := by
  intro n
  induction n with
  | zero => intro j a m env st r h; simp [run] at h
  | succ n ih =>
    intro j a m env st r h
    simp only [run] at h
    exact nodeCall_span ih (run_good cx n) n j a m env st r h

end Pegtl
