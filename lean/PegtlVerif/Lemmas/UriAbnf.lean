/-
  Lemmas/UriAbnf.lean — facts about the generic ABNF layer of Spec/Rfc3986.lean:
  soundness of the executable recogniser (`rems`, `recognise`) with respect to `Derives`, and the
  derived rules used to build derivations (`*a`, `1*a`, `n a`, `[a]`, single characters).
-/
import PegtlVerif.Spec.Rfc3986

namespace Pegtl.Spec.Abnf

variable {N : Type} {g : N → AExp N}

theorem stripLit_sound : ∀ (cs s r : List UInt8), stripLit cs s = some r →
    ∃ t, s = t ++ r ∧ litMatch cs t = true
  | [], s, r, h => by
    simp only [stripLit, Option.some.injEq] at h
    exact ⟨[], by simp [h], by simp [litMatch]⟩
  | _ :: _, [], r, h => by simp [stripLit] at h
  | c :: cs, d :: s, r, h => by
    simp only [stripLit] at h
    split at h
    · rename_i hc
      obtain ⟨t, ht, hm⟩ := stripLit_sound cs s r h
      refine ⟨d :: t, by simp [ht], ?_⟩
      simp only [litMatch, List.map_cons, beq_iff_eq] at hm ⊢
      simp only [beq_iff_eq] at hc
      rw [hm, hc]
    · simp at h

/-- Every remainder the recogniser returns is reached by consuming a derivable prefix. -/
theorem rems_sound : ∀ (f : Nat) (e : AExp N) (s r : List UInt8), r ∈ rems g f e s →
    ∃ t, s = t ++ r ∧ Derives g e t
  | 0, _, _, _, h => by simp [rems] at h
  | f + 1, e, s, r, h => by
    cases e with
    | lit cs =>
      simp only [rems] at h
      cases hs : stripLit cs s with
      | none => simp [hs] at h
      | some r' =>
        simp only [hs, Option.toList_some, List.mem_singleton] at h
        subst h
        obtain ⟨t, ht, hm⟩ := stripLit_sound cs s r hs
        exact ⟨t, ht, .lit hm⟩
    | rng lo hi =>
      simp only [rems] at h
      cases s with
      | nil => simp at h
      | cons c r' =>
        simp only at h
        split at h
        · rename_i hc
          simp only [List.mem_singleton] at h
          subst h
          exact ⟨[c], rfl, .rng hc.1 hc.2⟩
        · simp at h
    | ref n =>
      simp only [rems] at h
      obtain ⟨t, ht, hd⟩ := rems_sound f (g n) s r h
      exact ⟨t, ht, .ref hd⟩
    | cat a b =>
      simp only [rems, List.mem_flatMap] at h
      obtain ⟨r₁, h₁, h₂⟩ := h
      obtain ⟨t₁, ht₁, hd₁⟩ := rems_sound f a s r₁ h₁
      obtain ⟨t₂, ht₂, hd₂⟩ := rems_sound f b r₁ r h₂
      exact ⟨t₁ ++ t₂, by rw [ht₁, ht₂, List.append_assoc], .cat hd₁ hd₂⟩
    | alt a b =>
      simp only [rems, List.mem_append] at h
      rcases h with h | h
      · obtain ⟨t, ht, hd⟩ := rems_sound f a s r h; exact ⟨t, ht, .altL hd⟩
      · obtain ⟨t, ht, hd⟩ := rems_sound f b s r h; exact ⟨t, ht, .altR hd⟩
    | rep lo hi a =>
      simp only [rems, List.mem_append] at h
      rcases h with h | h
      · split at h
        · rename_i hlo
          simp only [List.mem_singleton] at h
          subst h; subst hlo
          exact ⟨[], rfl, .repNil⟩
        · simp at h
      · split at h
        · simp at h
        · rename_i hhi
          simp only [List.mem_flatMap] at h
          obtain ⟨r₁, h₁, h₂⟩ := h
          split at h₂
          · obtain ⟨t₁, ht₁, hd₁⟩ := rems_sound f a s r₁ h₁
            obtain ⟨t₂, ht₂, hd₂⟩ := rems_sound f _ r₁ r h₂
            exact ⟨t₁ ++ t₂, by rw [ht₁, ht₂, List.append_assoc], .repCons hhi hd₁ hd₂⟩
          · simp at h₂

/-- What the recogniser accepts is derivable. -/
theorem recognise_sound {f : Nat} {e : AExp N} {s : List UInt8} (h : recognise g f e s = true) :
    Derives g e s := by
  simp only [recognise, List.any_eq_true, List.isEmpty_iff] at h
  obtain ⟨r, hr, he⟩ := h
  subst he
  obtain ⟨t, ht, hd⟩ := rems_sound f e s [] hr
  simp only [List.append_nil] at ht
  rw [ht]; exact hd

/-! ### Inversion -/

theorem derives_ref_iff {n : N} {s} : Derives g (.ref n) s ↔ Derives g (g n) s :=
  ⟨fun h => by cases h with | ref h => exact h, .ref⟩

theorem derives_alt_iff {a b : AExp N} {s} : Derives g (.alt a b) s ↔ Derives g a s ∨ Derives g b s :=
  ⟨fun h => by cases h with
    | altL h => exact Or.inl h
    | altR h => exact Or.inr h, fun h => h.elim .altL .altR⟩

theorem derives_cat_iff {a b : AExp N} {w} : Derives g (.cat a b) w ↔ ∃ s t, w = s ++ t ∧ Derives g a s ∧ Derives g b t :=
  ⟨fun h => by cases h with | cat h₁ h₂ => exact ⟨_, _, rfl, h₁, h₂⟩,
   fun ⟨_, _, e, h₁, h₂⟩ => e ▸ .cat h₁ h₂⟩

theorem derives_lit_iff {cs s : List UInt8} : Derives g (.lit cs) s ↔ litMatch cs s = true :=
  ⟨fun h => by cases h with | lit h => exact h, .lit⟩

theorem derives_rng_iff {lo hi : UInt8} {s} : Derives g (.rng lo hi) s ↔ ∃ c, s = [c] ∧ lo ≤ c ∧ c ≤ hi :=
  ⟨fun h => by cases h with | rng h₁ h₂ => exact ⟨_, rfl, h₁, h₂⟩,
   fun ⟨_, e, h₁, h₂⟩ => e ▸ .rng h₁ h₂⟩

theorem derives_rep_iff {lo : Nat} {hi : Option Nat} {a : AExp N} {w} :
    Derives g (.rep lo hi a) w ↔
      (lo = 0 ∧ w = []) ∨
      (hi ≠ some 0 ∧ ∃ s t, w = s ++ t ∧ Derives g a s ∧ Derives g (.rep (lo - 1) (hi.map (· - 1)) a) t) :=
  ⟨fun h => by cases h with
    | repNil => exact Or.inl ⟨rfl, rfl⟩
    | repCons h₀ h₁ h₂ => exact Or.inr ⟨h₀, _, _, rfl, h₁, h₂⟩,
   fun h => by
    rcases h with ⟨rfl, rfl⟩ | ⟨h₀, _, _, rfl, h₁, h₂⟩
    · exact .repNil
    · exact .repCons h₀ h₁ h₂⟩

theorem derives_rep00_iff {a : AExp N} {w} : Derives g (.rep 0 (some 0) a) w ↔ w = [] := by
  rw [derives_rep_iff]; simp

theorem derives_repSS_iff {n m : Nat} {a : AExp N} {w} :
    Derives g (.rep (n + 1) (some (m + 1)) a) w ↔ ∃ s t, w = s ++ t ∧ Derives g a s ∧ Derives g (.rep n (some m) a) t := by
  rw [derives_rep_iff]; simp
end Pegtl.Spec.Abnf
