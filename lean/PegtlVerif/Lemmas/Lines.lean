/-
  Lemmas/Lines.lean — helper lemmas for C19 (Props/C19.lean):

  * `bumpScan` arithmetic (`bumpScan_pos`, `bumpScan_add`, `bumpScan_succ`) and the column
    invariant of a scan (`scan_col`): after scanning `k` bytes the column counter is the
    distance to the begin of the line containing `k` (plus the initial column on the first line);
  * `eolMatch_spec`: each of the five `Eol::eol_match` bodies matches exactly where the
    policy's documented end-of-line sequence starts, reads only inside the window, and on
    success does `bump_to_next_line( length )`;
  * `untilAtEolf_spec`: the loop of `until< at< eolf > >` stops at the first `eolf` match;
  * `tokWalk_ok`: a walk with `sor< eol, any >` keeps the cursor inside the data and, for
    every policy but `cr_crlf`, keeps the eager counters equal to those of a scan.
-/
import PegtlVerif.Model.Lines
import PegtlVerif.Spec.Lines

namespace Pegtl
namespace Lines
open LineSpec

theorem getD_isByte {inp : Array UInt8} {i : Nat} (h : i < inp.size) (c : UInt8) :
    isByte inp i c = decide (inp.getD i 0 = c) := by
  simp [isByte, Array.getD, h, Bool.beq_eq_decide_eq]

theorem isByte_oob {inp : Array UInt8} {i : Nat} (h : inp.size ≤ i) (c : UInt8) :
    isByte inp i c = false := by
  simp [isByte, h]

theorem bumpScan_pos (inp ch) : ∀ n c, (bumpScan inp ch n c).pos = c.pos + n := by
  intro n; induction n with
  | zero => intro c; rfl
  | succ n ih => intro c; simp only [bumpScan]; rw [ih]; split <;> simp <;> omega

def scanStep (inp : Array UInt8) (ch : UInt8) (c : Cursor) : Cursor :=
  if inp.getD c.pos 0 = ch then ⟨c.pos + 1, c.line + 1, 1⟩ else ⟨c.pos + 1, c.line, c.col + 1⟩

theorem bumpScan_add (inp ch) : ∀ m n c, bumpScan inp ch (m + n) c = bumpScan inp ch n (bumpScan inp ch m c) := by
  intro m; induction m with
  | zero => intro n c; simp [bumpScan]
  | succ m ih => intro n c; rw [show m + 1 + n = (m + n) + 1 by omega]; simp only [bumpScan]; rw [ih]

theorem bumpScan_succ (inp ch n c) : bumpScan inp ch (n + 1) c = scanStep inp ch (bumpScan inp ch n c) := by
  rw [bumpScan_add]; rfl

/-- Column invariant of a scan of the first `k` bytes. -/
theorem scan_col (e : Eol) (inp : Array UInt8) (l0 c0 : Nat) :
    ∀ k, k ≤ inp.size →
      ∃ b, IsLineBegin e inp k b ∧
        (bumpScan inp (lineBreak e) k ⟨0, l0, c0⟩).col + b = k + (if b = 0 then c0 else 1) := by
  intro k; induction k with
  | zero => intro _; exact ⟨0, ⟨Nat.le_refl _, Or.inl rfl, by intro i hi; omega⟩, by simp [bumpScan]⟩
  | succ k ih =>
    intro hk
    obtain ⟨b, ⟨hb1, hb2, hb3⟩, hcol⟩ := ih (by omega)
    rw [bumpScan_succ]
    have hpos := bumpScan_pos inp (lineBreak e) k ⟨0, l0, c0⟩
    simp only [Nat.zero_add] at hpos
    unfold scanStep; rw [hpos]
    by_cases hc : inp.getD k 0 = lineBreak e
    · refine ⟨k + 1, ⟨Nat.le_refl _, Or.inr ?_, by intro i hi hi'; omega⟩, ?_⟩
      · rw [Nat.add_sub_cancel, getD_isByte (by omega)]; simpa using hc
      · simp [hc]; omega
    · refine ⟨b, ⟨by omega, hb2, ?_⟩, ?_⟩
      · intro i hi hbi
        by_cases hik : i = k
        · subst hik; rw [getD_isByte (by omega)]; simpa using hc
        · exact hb3 i (by omega) hbi
      · simp only [hc, if_false]; omega
theorem isByte_iff {inp : Array UInt8} {i : Nat} (c : UInt8) :
    isByte inp i c = (decide (i < inp.size) && decide (inp.getD i 0 = c)) := by
  by_cases h : i < inp.size <;> simp [isByte, Array.getD, h, Bool.beq_eq_decide_eq]

theorem rd_in (cx : Ctx) (st : St) (off : Nat) (h : st.cur.pos + off < st.endp) :
    rd cx st off = (cx.inp.getD (st.cur.pos + off) 0, st) := by
  simp [rd, h]

/-- Length of the end-of-line sequence that starts at `q` (when `eolAt` holds). -/
def eolLen (e : Eol) (inp : Array UInt8) (q : Nat) : Nat :=
  match e with
  | .lf => 1 | .cr => 1 | .crlf => 2
  | .lfCrlf => if inp.getD q 0 = 10 then 1 else 2
  | .crCrlf => if q + 1 < inp.size ∧ inp.getD (q + 1) 0 = 10 then 2 else 1

def EolMatchSpec (cx : Ctx) (st : St) : Prop :=
  let r := eolMatch cx st
  r.1 = eolAt cx.eol cx.inp st.cur.pos ∧
  (r.2.1 = 0 ↔ st.cur.pos = cx.inp.size) ∧
  (r.1 = false → r.2.2 = st) ∧
  (r.1 = true → st.cur.pos + eolLen cx.eol cx.inp st.cur.pos ≤ cx.inp.size ∧
     r.2.2 = { st with cur := bumpToNextLineC (eolLen cx.eol cx.inp st.cur.pos) st.cur })

theorem eolMatch_lf (cx : Ctx) (st : St) (he : cx.eol = .lf) (h1 : st.endp = cx.inp.size) (h2 : st.cur.pos ≤ st.endp) :
    EolMatchSpec cx st := by
  simp only [EolMatchSpec, eolMatch, he, St.avail, eolAt, eolLen, isByte_iff]
  by_cases hlt : st.cur.pos < cx.inp.size
  · have h0 : st.endp - st.cur.pos > 0 := by omega
    have hr := rd_in cx st 0 (by omega)
    simp only [Nat.add_zero] at hr
    simp only [h0, if_true, hr]
    have h3 : st.cur.pos + 1 ≤ st.endp := by omega
    generalize cx.inp.getD st.cur.pos 0 = a
    by_cases hc : a = 10 <;>
      simp [hc, hlt, bumpToNextLine, markOob, h3] <;> omega
  · have h0 : st.endp - st.cur.pos = 0 := by omega
    simp [h0, hlt]; omega

theorem eolMatch_cr (cx : Ctx) (st : St) (he : cx.eol = .cr) (h1 : st.endp = cx.inp.size) (h2 : st.cur.pos ≤ st.endp) :
    EolMatchSpec cx st := by
  simp only [EolMatchSpec, eolMatch, he, St.avail, eolAt, eolLen, isByte_iff]
  by_cases hlt : st.cur.pos < cx.inp.size
  · have h0 : st.endp - st.cur.pos > 0 := by omega
    have hr := rd_in cx st 0 (by omega)
    simp only [Nat.add_zero] at hr
    simp only [h0, if_true, hr]
    have h3 : st.cur.pos + 1 ≤ st.endp := by omega
    generalize cx.inp.getD st.cur.pos 0 = a
    by_cases hc : a = 13 <;>
      simp [hc, hlt, bumpToNextLine, markOob, h3] <;> omega
  · have h0 : st.endp - st.cur.pos = 0 := by omega
    simp [h0, hlt]; omega

theorem eolMatch_crlf (cx : Ctx) (st : St) (he : cx.eol = .crlf) (h1 : st.endp = cx.inp.size) (h2 : st.cur.pos ≤ st.endp) :
    EolMatchSpec cx st := by
  simp only [EolMatchSpec, eolMatch, he, St.avail, eolAt, eolLen, isByte_iff]
  by_cases hlt : st.cur.pos + 1 < cx.inp.size
  · have h0 : st.endp - st.cur.pos > 1 := by omega
    have hr := rd_in cx st 0 (by omega)
    have hr1 := rd_in cx st 1 (by omega)
    simp only [Nat.add_zero] at hr
    simp only [h0, if_true, hr]
    have h3 : st.cur.pos + 2 ≤ st.endp := by omega
    have h4 : st.cur.pos < cx.inp.size := by omega
    generalize cx.inp.getD st.cur.pos 0 = a
    by_cases hc : a = 13
    · simp only [hc, if_true, hr1]
      generalize cx.inp.getD (st.cur.pos + 1) 0 = b
      by_cases hb : b = 10 <;> simp [hb, hlt, h4, bumpToNextLine, markOob, h3] <;> omega
    · simp [hc, hlt, h4]; omega
  · have h0 : ¬ (st.endp - st.cur.pos > 1) := by omega
    simp [h0, hlt]; omega

theorem eolMatch_lfCrlf (cx : Ctx) (st : St) (he : cx.eol = .lfCrlf) (h1 : st.endp = cx.inp.size) (h2 : st.cur.pos ≤ st.endp) :
    EolMatchSpec cx st := by
  simp only [EolMatchSpec, eolMatch, he, St.avail, eolAt, eolLen, isByte_iff]
  by_cases hlt : st.cur.pos < cx.inp.size
  · have h0 : st.endp - st.cur.pos > 0 := by omega
    have hr := rd_in cx st 0 (by omega)
    simp only [Nat.add_zero] at hr
    simp only [h0, if_true, hr]
    have h3 : st.cur.pos + 1 ≤ st.endp := by omega
    generalize cx.inp.getD st.cur.pos 0 = a
    by_cases hc : a = 10
    · simp [hc, hlt, bumpToNextLine, markOob, h3]; omega
    · by_cases hlt1 : st.cur.pos + 1 < cx.inp.size
      · have h5 : st.endp - st.cur.pos > 1 := by omega
        have hr1 := rd_in cx st 1 (by omega)
        have h6 : st.cur.pos + 2 ≤ st.endp := by omega
        by_cases ha : a = 13
        · simp only [ha, h5, hr1]
          generalize cx.inp.getD (st.cur.pos + 1) 0 = b
          by_cases hb : b = 10 <;> simp [hb, hlt, hlt1, bumpToNextLine, markOob, h6] <;> omega
        · simp [hc, ha, hlt]; omega
      · have h5 : ¬ (st.endp - st.cur.pos > 1) := by omega
        simp [hc, h5, hlt, hlt1]; omega
  · have h0 : st.endp - st.cur.pos = 0 := by omega
    simp [h0, hlt]; omega

theorem eolMatch_crCrlf (cx : Ctx) (st : St) (he : cx.eol = .crCrlf) (h1 : st.endp = cx.inp.size) (h2 : st.cur.pos ≤ st.endp) :
    EolMatchSpec cx st := by
  simp only [EolMatchSpec, eolMatch, he, St.avail, eolAt, eolLen, isByte_iff]
  by_cases hlt : st.cur.pos < cx.inp.size
  · have h0 : st.endp - st.cur.pos > 0 := by omega
    have hr := rd_in cx st 0 (by omega)
    simp only [Nat.add_zero] at hr
    simp only [h0, if_true, hr]
    have h3 : st.cur.pos + 1 ≤ st.endp := by omega
    generalize cx.inp.getD st.cur.pos 0 = a
    by_cases hc : a = 13
    · by_cases hlt1 : st.cur.pos + 1 < cx.inp.size
      · have h5 : st.endp - st.cur.pos > 1 := by omega
        have hr1 := rd_in cx st 1 (by omega)
        have h6 : st.cur.pos + 2 ≤ st.endp := by omega
        simp only [hc, h5, hr1]
        generalize cx.inp.getD (st.cur.pos + 1) 0 = b
        by_cases hb : b = 10 <;> simp [hb, hlt, hlt1, bumpToNextLine, markOob, h6, h3] <;> omega
      · have h5 : ¬ (st.endp - st.cur.pos > 1) := by omega
        simp [hc, h5, hlt, hlt1, bumpToNextLine, markOob, h3]; omega
    · simp [hc, hlt]; omega
  · have h0 : st.endp - st.cur.pos = 0 := by omega
    simp [h0, hlt]; omega

theorem eolMatch_spec (cx : Ctx) (st : St) (h1 : st.endp = cx.inp.size) (h2 : st.cur.pos ≤ st.endp) :
    EolMatchSpec cx st := by
  cases he : cx.eol
  · exact eolMatch_lf cx st he h1 h2
  · exact eolMatch_cr cx st he h1 h2
  · exact eolMatch_crlf cx st he h1 h2
  · exact eolMatch_lfCrlf cx st he h1 h2
  · exact eolMatch_crCrlf cx st he h1 h2

theorem eolf_spec (cx : Ctx) (st : St) (h1 : st.endp = cx.inp.size) (h2 : st.cur.pos ≤ st.endp) :
    (atomStep cx .eolf st).1 = eolfAt cx.eol cx.inp st.cur.pos ∧ (atomStep cx .eolf st).2.oob = st.oob := by
  obtain ⟨ha, hb, hc, hd⟩ := eolMatch_spec cx st h1 h2
  simp only [atomStep, eolfAt]
  generalize eolMatch cx st = r at ha hb hc hd
  obtain ⟨d, sz, st'⟩ := r
  simp only at ha hb hc hd ⊢
  constructor
  · rw [ha, Bool.or_comm]; congr 1
    rw [Bool.eq_iff_iff]; simpa using hb
  · cases d
    · rw [hc rfl]
    · rw [(hd rfl).2]

theorem bump_one (cx : Ctx) (st : St) (h : st.cur.pos < st.endp) :
    (bump cx st 1).cur.pos = st.cur.pos + 1 ∧ (bump cx st 1).endp = st.endp ∧ (bump cx st 1).oob = st.oob := by
  have h' : st.cur.pos + 1 ≤ st.endp := by omega
  simp only [bump, markOob, h', if_true, bumpScan]
  refine ⟨?_, trivial, trivial⟩
  split <;> rfl

theorem untilAtEolf_spec (cx : Ctx) : ∀ n st, st.endp = cx.inp.size → st.cur.pos ≤ st.endp →
    st.endp - st.cur.pos < n →
    (untilAtEolf cx n st).1 = true ∧
    IsLineEnd cx.eol cx.inp st.cur.pos (untilAtEolf cx n st).2.cur.pos ∧
    (untilAtEolf cx n st).2.oob = st.oob := by
  intro n; induction n with
  | zero => intro st _ _ h; omega
  | succ n ih =>
    intro st h1 h2 h3
    obtain ⟨he, ho⟩ := eolf_spec cx st h1 h2
    simp only [untilAtEolf]
    by_cases hm : (atomStep cx .eolf st).1 = true
    · simp only [hm, if_true]
      refine ⟨trivial, ⟨Nat.le_refl _, by omega, by rw [← he]; exact hm, by intro i hi hi'; omega⟩, ho⟩
    · have hm' : (atomStep cx .eolf st).1 = false := by simpa using hm
      have hne : eolfAt cx.eol cx.inp st.cur.pos = false := by rw [← he]; simpa using hm
      have hlt : st.cur.pos < st.endp := by
        apply Nat.lt_of_le_of_ne h2; intro heq
        simp [eolfAt, ← h1, heq] at hne
      have hemp : st.empty = false := by simp [St.empty]; omega
      simp only [hm', hemp, Bool.false_eq_true, if_false]
      let st1 : St := { st with oob := (atomStep cx .eolf st).2.oob }
      have hb := bump_one cx st1 hlt
      have hs1 : st1.cur.pos = st.cur.pos := rfl
      have hs2 : st1.endp = st.endp := rfl
      have hs3 : st1.oob = (atomStep cx .eolf st).2.oob := rfl
      rw [hs1, hs2, hs3] at hb
      obtain ⟨r1, ⟨r2, r3, r4, r5⟩, r6⟩ := ih (bump cx st1 1) (by rw [hb.2.1]; exact h1) (by rw [hb.1, hb.2.1]; exact hlt)
        (by rw [hb.1, hb.2.1]; show st.endp - (st.cur.pos + 1) < n; omega)
      rw [hb.1] at r2 r5
      change (untilAtEolf cx n (bump cx st1 1)).1 = true ∧
        IsLineEnd cx.eol cx.inp st.cur.pos (untilAtEolf cx n (bump cx st1 1)).2.cur.pos ∧
        (untilAtEolf cx n (bump cx st1 1)).2.oob = st.oob
      refine ⟨r1, ⟨by show st.cur.pos ≤ _; omega, r3, r4, ?_⟩, ?_⟩
      · intro i hi hi'
        by_cases hik : i = st.cur.pos
        · rw [hik]; exact hne
        · exact r5 i hi (by show st.cur.pos + 1 ≤ i; omega)
      · rw [r6, hb.2.2]; exact ho

/-- For every policy but `cr_crlf`, the `bump_to_next_line( n )` that `eol` performs gives
    the same counters as scanning the `n` bytes with `bump( n )`. -/
theorem eol_bump_eq_scan (e : Eol) (inp : Array UInt8) (c : Cursor)
    (hm : eolAt e inp c.pos = true) (hne : e ≠ .crCrlf ∨ eolLen e inp c.pos = 1) :
    bumpScan inp e.ch (eolLen e inp c.pos) c = bumpToNextLineC (eolLen e inp c.pos) c := by
  cases e <;> simp only [eolAt, isByte_iff, eolLen, Eol.ch, Bool.and_eq_true, Bool.or_eq_true, decide_eq_true_eq] at hm ⊢
  · simp [bumpScan, hm.2, bumpToNextLineC]
  · simp [bumpScan, hm.2, bumpToNextLineC]
  · simp [bumpScan, hm.1.2, hm.2.2, bumpToNextLineC]
  · by_cases h : inp.getD c.pos 0 = 10
    · simp [bumpScan, h, bumpToNextLineC]
    · have hm' := hm.resolve_left (fun x => h x.2)
      simp [bumpScan, hm'.1.2, hm'.2.2, bumpToNextLineC]
  · have h1 : eolLen .crCrlf inp c.pos = 1 := by
      rcases hne with h | h
      · exact absurd rfl h
      · exact h
    simp only [eolLen] at h1
    rw [h1]; simp [bumpScan, hm.2, bumpToNextLineC]

/-- The cursor lies in the data and the window ends where the data ends. -/
def PosOk (cx : Ctx) (st : St) : Prop := st.endp = cx.inp.size ∧ st.cur.pos ≤ st.endp

/-- The tracked line/column counters are those of a scan of the consumed prefix. -/
def Scanned (cx : Ctx) (st : St) : Prop :=
  st.cur = bumpScan cx.inp cx.eol.ch st.cur.pos cx.start.cur

theorem scanned_step (cx : Ctx) (st : St) (n : Nat) (c' : Cursor) (hs : Scanned cx st)
    (h : c' = bumpScan cx.inp cx.eol.ch n st.cur) : 
    c' = bumpScan cx.inp cx.eol.ch c'.pos cx.start.cur := by
  have hp : c'.pos = st.cur.pos + n := by rw [h, bumpScan_pos]
  rw [hp, bumpScan_add, ← hs]; exact h

theorem tokStep_ok (cx : Ctx) (st : St) (h : PosOk cx st) :
    PosOk cx (tokStep cx st).2 ∧
    ((cx.eol ≠ .crCrlf) → Scanned cx st → Scanned cx (tokStep cx st).2) := by
  obtain ⟨h1, h2⟩ := h
  obtain ⟨ha, hb, hc, hd⟩ := eolMatch_spec cx st h1 h2
  simp only [tokStep, atomStep]
  by_cases hm : (eolMatch cx st).1 = true
  · simp only [hm, if_true]
    obtain ⟨hle, hst⟩ := hd hm
    rw [hst]
    refine ⟨⟨h1, ?_⟩, ?_⟩
    · show st.cur.pos + _ ≤ st.endp; rw [h1]; exact hle
    · intro hne hs
      refine scanned_step cx st (eolLen cx.eol cx.inp st.cur.pos) _ hs ?_
      exact (eol_bump_eq_scan cx.eol cx.inp st.cur (by rw [← ha]; exact hm) (Or.inl hne)).symm
  · have hm' : (eolMatch cx st).1 = false := by simpa using hm
    simp only [hm', Bool.false_eq_true, if_false]
    by_cases hemp : st.empty = true
    · simp only [hemp, if_true]; exact ⟨⟨h1, h2⟩, fun _ hs => hs⟩
    · have hemp' : st.empty = false := by simpa using hemp
      simp only [hemp', Bool.false_eq_true, if_false]
      have hlt : st.cur.pos < st.endp := by
        simp [St.empty] at hemp; omega
      have hb1 := bump_one cx st hlt
      refine ⟨⟨by rw [hb1.2.1]; exact h1, by rw [hb1.1, hb1.2.1]; exact hlt⟩, ?_⟩
      intro _ hs
      exact scanned_step cx st 1 _ hs (by simp [bump])

theorem tokWalk_ok (cx : Ctx) : ∀ n st, PosOk cx st →
    PosOk cx (tokWalk cx n st) ∧ ((cx.eol ≠ .crCrlf) → Scanned cx st → Scanned cx (tokWalk cx n st)) := by
  intro n; induction n with
  | zero => intro st h; exact ⟨h, fun _ hs => hs⟩
  | succ n ih =>
    intro st h
    simp only [tokWalk]
    split
    · obtain ⟨p1, p2⟩ := tokStep_ok cx st h
      obtain ⟨q1, q2⟩ := ih _ p1
      exact ⟨q1, fun hne hs => q2 hne (p2 hne hs)⟩
    · exact ⟨h, fun _ hs => hs⟩

theorem start_ok (cx : Ctx) : PosOk cx cx.start ∧ Scanned cx cx.start := by
  simp [PosOk, Scanned, Ctx.start, bumpScan]

theorem bump_start_cur (cx : Ctx) (k : Nat) : (bump cx cx.start k).cur = bumpScan cx.inp cx.eol.ch k cx.start.cur := by
  simp [bump]

/-- What `position()` reports depends, for a lazy input, only on the offset; for an eager
    input whose counters are those of a scan it is the same value. -/
theorem rep_eq_posBump (cx : Ctx) (st : St) (h : cx.lazy = true ∨ Scanned cx st) :
    cx.rep st.cur = posBump cx st.cur.pos := by
  simp only [posBump, bump_start_cur, Ctx.rep]
  have hp : (bumpScan cx.inp cx.eol.ch st.cur.pos cx.start.cur).pos = st.cur.pos := by
    rw [bumpScan_pos]; simp [Ctx.start]
  by_cases hl : cx.lazy = true
  · simp only [hl, if_true, hp]
  · rcases h with h | h
    · exact absurd h hl
    · simp only [hl]; simp only [Bool.false_eq_true, if_false, hp]
      unfold Scanned at h
      rw [← h]

theorem lineBreak_eq_ch (e : Eol) : lineBreak e = e.ch := by cases e <;> rfl

/-- The reported position after `bump( k )`, eager or lazy. -/
theorem posBump_eq (cx : Ctx) (k : Nat) :
    posBump cx k =
      ⟨cx.init.pos + k, (bumpScan cx.inp cx.eol.ch k ⟨0, cx.init.line, cx.init.col⟩).line,
        (bumpScan cx.inp cx.eol.ch k ⟨0, cx.init.line, cx.init.col⟩).col⟩ := by
  have hp : (bumpScan cx.inp cx.eol.ch k ⟨0, cx.init.line, cx.init.col⟩).pos = k := by
    rw [bumpScan_pos]; simp
  unfold posBump; rw [bump_start_cur]
  have hs : cx.start.cur = ⟨0, cx.init.line, cx.init.col⟩ := rfl
  rw [hs]; simp only [Ctx.rep, hp]
  split <;> rfl

theorem at_posBump (cx : Ctx) (k : Nat) : atOff cx (posBump cx k) = k := by
  rw [posBump_eq]; simp only [atOff]; omega

theorem bol_posBump (cx : Ctx) (k : Nat) (hk : k ≤ cx.inp.size) :
    ∃ b, IsLineBegin cx.eol cx.inp k b ∧
      beginOfLineOff cx (posBump cx k) =
        (b : Int) - (if b = 0 then (cx.init.col : Int) - 1 else 0) := by
  obtain ⟨b, hb, hcol⟩ := scan_col cx.eol cx.inp cx.init.line cx.init.col k hk
  refine ⟨b, hb, ?_⟩
  rw [lineBreak_eq_ch] at hcol
  rw [posBump_eq]; simp only [beginOfLineOff, atOff]
  have hb1 := hb.1
  split
  · next h0 => simp only [h0, if_true] at hcol; omega
  · next h0 => simp only [h0, if_false] at hcol; omega

theorem eol_posBump (cx : Ctx) (k : Nat) (hk : k ≤ cx.inp.size) :
    ∃ st, endOfLineRun cx (posBump cx k) = some st ∧ IsLineEnd cx.eol cx.inp k st.cur.pos ∧
      st.oob = false := by
  have ha := at_posBump cx k
  have hp : (posBump cx k).pos = cx.init.pos + k := by rw [posBump_eq]
  have hsub : cx.init.pos + k - cx.init.pos = k := by omega
  simp only [endOfLineRun, atOff, hp, hsub]
  have hle : (0 : Int) ≤ ((cx.init.pos + k : Nat) : Int) - (cx.init.pos : Int) ∧
      ((cx.init.pos + k : Nat) : Int) - (cx.init.pos : Int) ≤ (cx.inp.size : Int) := by omega
  simp only [hle, and_self, if_true]
  obtain ⟨_, r2, r3⟩ := untilAtEolf_spec cx (cx.inp.size - k + 1)
    { cur := ⟨k, 1, 1⟩, endp := cx.inp.size } rfl hk (by show cx.inp.size - k < _; omega)
  exact ⟨_, rfl, r2, r3⟩

end Lines
end Pegtl
