/-
  Lemmas/UriDecOctet.lean — `dec_octet : maximum_rule< std::uint8_t >` against RFC 3986 `dec-octet`:
  the RFC production derives exactly the canonical decimal numerals (no superfluous leading zero)
  of value at most 255, and the atom `maxDigits 255` succeeds exactly when the *whole* digit run at
  the cursor is such a numeral.
-/
import PegtlVerif.Lemmas.UriSound
import PegtlVerif.Spec.Numeral

namespace Pegtl.Uri
open Pegtl Pegtl.Spec Pegtl.Spec.Abnf Pegtl.Spec.Rfc3986 Pegtl.Spec.Numeral

theorem foldl_value : ∀ (ds : List UInt8) (acc : Nat),
    ds.foldl (fun acc d => acc * 10 + (d.toNat - 48)) acc = acc * 10 ^ ds.length + value ds
  | [], acc => by simp [value]
  | d :: ds, acc => by
    simp only [List.foldl_cons, List.length_cons, value, digitVal]
    rw [foldl_value ds]
    grind

theorem lower_digit_table : ∀ n, n < 256 →
    (lower (UInt8.ofNat n) = 49 → UInt8.ofNat n = 49) ∧ (lower (UInt8.ofNat n) = 50 → UInt8.ofNat n = 50) ∧
    (lower (UInt8.ofNat n) = 53 → UInt8.ofNat n = 53) := by decide +kernel

theorem lower_digit {c : UInt8} : (lower c = 49 → c = 49) ∧ (lower c = 50 → c = 50) ∧ (lower c = 53 → c = 53) := by
  have := lower_digit_table c.toNat c.toNat_lt
  simpa using this

theorem litMatch1 {d : UInt8} {s : List UInt8} (hd : ∀ c, lower c = d → c = d) (hl : lower d = d)
    (h : litMatch [d] s = true) : s = [d] := by
  simp only [litMatch, List.map_cons, List.map_nil, beq_iff_eq, hl] at h
  match s, h with
  | [c], h =>
    simp only [List.map_cons, List.map_nil, List.cons.injEq, and_true] at h
    rw [hd c h]

theorem litMatch2 {d e : UInt8} {s : List UInt8} (hd : ∀ c, lower c = d → c = d) (he : ∀ c, lower c = e → c = e)
    (hl : lower d = d) (hl' : lower e = e) (h : litMatch [d, e] s = true) : s = [d, e] := by
  simp only [litMatch, List.map_cons, List.map_nil, beq_iff_eq, hl, hl'] at h
  match s, h with
  | [c, c'], h =>
    simp only [List.map_cons, List.map_nil, List.cons.injEq, and_true] at h
    rw [hd c h.1, he c' h.2]

theorem u8_le {a b : UInt8} : a ≤ b ↔ a.toNat ≤ b.toNat := UInt8.le_iff_toNat_le

/-- RFC 3986 `dec-octet` derives only canonical decimal numerals of at most 255. -/
theorem dec_octet_inv {s : List UInt8} (h : Derives rfc3986 (.ref .dec_octet) s) :
    AllDigits s ∧ Canonical s ∧ value s ≤ 255 := by
  simp only [derives_ref_iff, rfc3986, derives_alt_iff, derives_cat_iff, derives_rng_iff, derives_lit_iff,
    derives_rep00_iff, derives_repSS_iff] at h
  have e48 : (48 : UInt8).toNat = 48 := rfl
  have e49 : (49 : UInt8).toNat = 49 := rfl
  have e50 : (50 : UInt8).toNat = 50 := rfl
  have e52 : (52 : UInt8).toNat = 52 := rfl
  have e53 : (53 : UInt8).toNat = 53 := rfl
  have e57 : (57 : UInt8).toNat = 57 := rfl
  rcases h with ⟨c, rfl, h1, h2⟩ | ⟨_, _, rfl, ⟨a, rfl, a1, a2⟩, b, rfl, b1, b2⟩ |
    ⟨_, _, rfl, hl, _, _, rfl, ⟨b, rfl, b1, b2⟩, _, _, rfl, ⟨c, rfl, c1, c2⟩, rfl⟩ |
    ⟨_, _, rfl, hl, _, _, rfl, ⟨b, rfl, b1, b2⟩, c, rfl, c1, c2⟩ | ⟨_, _, rfl, hl, c, rfl, c1, c2⟩
  · rw [u8_le] at h1 h2
    refine ⟨?_, Or.inr rfl, ?_⟩
    · intro x hx; cases List.mem_singleton.mp hx; simp [isDigit]; omega
    · simp [value, digitVal]; omega
  · rw [u8_le] at a1 a2 b1 b2
    refine ⟨?_, Or.inl ?_, ?_⟩
    · intro x hx
      simp only [List.cons_append, List.nil_append, List.mem_cons, List.not_mem_nil, or_false] at hx
      rcases hx with rfl | rfl <;> simp [isDigit] <;> omega
    · intro e; rw [e] at a1; omega
    · simp [value, digitVal]; omega
  · cases litMatch1 (fun c => lower_digit.1) (by decide) hl
    rw [u8_le] at b1 b2 c1 c2
    refine ⟨?_, Or.inl (by decide), ?_⟩
    · intro x hx
      simp only [List.cons_append, List.nil_append, List.append_nil, List.mem_cons, List.not_mem_nil, or_false] at hx
      rcases hx with rfl | rfl | rfl <;> simp [isDigit] <;> omega
    · simp [value, digitVal]; omega
  · cases litMatch1 (fun c => lower_digit.2.1) (by decide) hl
    rw [u8_le] at b1 b2 c1 c2
    refine ⟨?_, Or.inl (by decide), ?_⟩
    · intro x hx
      simp only [List.cons_append, List.nil_append, List.mem_cons, List.not_mem_nil, or_false] at hx
      rcases hx with rfl | rfl | rfl <;> simp [isDigit] <;> omega
    · simp [value, digitVal]; omega
  · cases litMatch2 (fun c => lower_digit.2.1) (fun c => lower_digit.2.2) (by decide) (by decide) hl
    rw [u8_le] at c1 c2
    refine ⟨?_, Or.inl (by decide), ?_⟩
    · intro x hx
      simp only [List.cons_append, List.nil_append, List.mem_cons, List.not_mem_nil, or_false] at hx
      rcases hx with rfl | rfl | rfl <;> simp [isDigit] <;> omega
    · simp [value, digitVal]; omega


/-- RFC 3986 `dec-octet` = the canonical decimal numerals of at most 255. -/
theorem dec_octet_iff (s : List UInt8) :
    Derives rfc3986 (.ref .dec_octet) s ↔ (AllDigits s ∧ Canonical s ∧ value s ≤ 255) := by
  refine ⟨dec_octet_inv, fun ⟨hd, hc, hv⟩ => ?_⟩
  refine dec_octet_of_digits ?_ ?_ ?_ ?_
  · rintro rfl; exact hc
  · intro c hcm
    have := hd c hcm
    simp only [isDigit, decide_eq_true_eq] at this
    rw [u8_le, u8_le]
    exact this
  · rintro ⟨hl, hh⟩
    match s, hc, hl, hh with
    | c :: c' :: rest, hc, _, hh =>
      simp only [List.head?_cons, Option.some.injEq] at hh
      rcases hc with hc | hc
      · exact hc hh
      · cases hc
  · rw [foldl_value]; simpa using hv

/-- The maximal run of ASCII digits in the window `[p, endp)`. -/
def digitRunAt (inp : Array UInt8) (endp p : Nat) : List UInt8 :=
  ((inp.toList.drop p).take (endp - p)).takeWhile (fun c => 48 ≤ c && c ≤ 57)

theorem digitRunAt_digits (inp : Array UInt8) (endp p : Nat) : AllDigits (digitRunAt inp endp p) := by
  intro c hc
  have := mem_takeWhile_imp hc
  simp only [Bool.and_eq_true, decide_eq_true_eq] at this
  rw [u8_le, u8_le] at this
  simpa [isDigit] using this

theorem maxDigits_core (ds : List UInt8) (hd : AllDigits ds) (p q : Nat) :
    (if ds.isEmpty = true then none
      else if ds.length > 1 ∧ ds.head? = some 48 then none
      else if ds.foldl (fun acc d => acc * 10 + (d.toNat - 48)) 0 ≤ 255 then some (p + ds.length) else none) = some q ↔
    ((AllDigits ds ∧ Canonical ds ∧ value ds ≤ 255) ∧ q = p + ds.length) := by
  rw [foldl_value]
  cases ds with
  | nil => simp [Canonical]
  | cons c rest =>
    simp only [List.isEmpty_cons, Bool.false_eq_true, if_false, List.length_cons, List.head?_cons, Option.some.injEq,
      Canonical, Nat.zero_mul, Nat.zero_add]
    by_cases h0 : c = 48
    · by_cases hr : rest = []
      · subst hr; subst h0
        simp [value, digitVal, hd]
        exact eq_comm
      · have : rest.length + 1 > 1 := by
          cases rest with
          | nil => exact absurd rfl hr
          | cons _ _ => simp
        simp [h0, hr, this]
    · simp only [h0, and_false, if_false, ne_eq, not_false_eq_true, true_or, true_and]
      by_cases hv : value (c :: rest) ≤ 255
      · simp [hv, hd]; exact eq_comm
      · simp [hv]

/-- `maximum_rule< std::uint8_t >` succeeds iff the whole digit run at the cursor is one RFC `dec-octet`,
    and then consumes exactly that run (maximal munch: "1.2.3.45" takes "45", "1.2.3.456" fails on "456"). -/
theorem maxDigits_iff (eol : Eol) (inp : Array UInt8) (endp p q : Nat) :
    atomSem eol inp endp (.maxDigits 255) p = some q ↔
      (Derives rfc3986 (.ref .dec_octet) (digitRunAt inp endp p) ∧ q = p + (digitRunAt inp endp p).length) := by
  rw [dec_octet_iff]
  exact maxDigits_core (digitRunAt inp endp p) (digitRunAt_digits inp endp p) p q

end Pegtl.Uri
