/-
  Lemmas/Hooks.lean — the control-hook protocol as a stack automaton over the event trace,
  and the proof that every trace of the model is accepted by it (C08).
-/
import PegtlVerif.Lemmas.RawClosure

namespace Pegtl

/-- How far the hooks of one `Control< Rule >::match` invocation have got. -/
inductive HStat
  | fresh                      -- no hook yet
  | started                    -- `start` seen
  | acted                      -- `start`, then `apply` / `apply0`
  | closed (k : Nat)           -- then `success` (1), `failure` (0) or `unwind` (2)
  deriving DecidableEq, Repr

abbrev Frame := Nat × HStat

/-- Is the way an invocation's hooks ended consistent with what the invocation returned
    (`r`: 1 success, 0 local failure, 2 exception)?  `u`: the control has `unwind()`. -/
def exitOk (u : Bool) (r : Nat) : HStat → Bool
  | .fresh => true                                   -- an invocation without hooks of its own
  | .started => r == 2 && !u                         -- aborted by an exception, no `unwind()` to call
  | .acted => r == 2 && !u
  | .closed k => (k == r && (r != 2 || u)) || (k == 1 && r == 2)   -- last: a wrapping action class (`limit_bytes`) raised after the rule had matched

/-- One step of the automaton. The stack holds one frame per open invocation. -/
def hookStep (u : Bool) (s : List Frame) (e : Ev) : Option (List Frame) :=
  match e, s with
  | .enter i _ _ _, s => some ((i, .fresh) :: s)
  | .start i _, (j, .fresh) :: s => if i = j then some ((j, .started) :: s) else none
  | .apply i _ _ _, (j, .started) :: s => if i = j then some ((j, .acted) :: s) else none
  | .apply0 i _ _, (j, .started) :: s => if i = j then some ((j, .acted) :: s) else none
  | .success i _, (j, .started) :: s => if i = j then some ((j, .closed 1) :: s) else none
  | .success i _, (j, .acted) :: s => if i = j then some ((j, .closed 1) :: s) else none
  | .failure i _, (j, .started) :: s => if i = j then some ((j, .closed 0) :: s) else none
  | .failure i _, (j, .acted) :: s => if i = j then some ((j, .closed 0) :: s) else none
  | .unwind i _, (j, .started) :: s => if i = j then some ((j, .closed 2) :: s) else none
  | .unwind i _, (j, .acted) :: s => if i = j then some ((j, .closed 2) :: s) else none
  | .raise _ _, s => some s
  | .sctor _, s => some s
  | .ssucc _ _ _, s => some s
  | .sdtor _, s => some s
  | .exit i r _, (j, st) :: s => if i = j ∧ exitOk u r st = true then some s else none
  | _, _ => none

def runHooks (u : Bool) : List Frame → List Ev → Option (List Frame)
  | s, [] => some s
  | s, e :: es => match hookStep u s e with
    | some s' => runHooks u s' es
    | none => none

theorem runHooks_append (u : Bool) (s : List Frame) (a b : List Ev) :
    runHooks u s (a ++ b) = (runHooks u s a).bind (fun s' => runHooks u s' b) := by
  induction a generalizing s with
  | nil => rfl
  | cons e es ih =>
    simp only [List.cons_append, runHooks]
    cases hookStep u s e with
    | none => rfl
    | some s' => exact ih s'

/-- A trace that the automaton accepts from any stack, returning to that stack: a sequence of
    complete, properly nested invocations. -/
def HL (u : Bool) (l : List Ev) : Prop := ∀ s, runHooks u s l = some s

theorem HL_closed (u : Bool) : RawClosed (HL u) where
  nil := fun _ => rfl
  app := fun ha hb s => by rw [runHooks_append, ha s]; exact hb s
  raise := fun _ _ _ => rfl
  sctor := fun _ _ => rfl
  ssucc := fun _ _ _ _ => rfl
  sdtor := fun _ _ => rfl

/-- Running a prefix that is itself balanced does not disturb the stack. -/
theorem runHooks_HL {u : Bool} {l : List Ev} (h : HL u l) (s : List Frame) (rest : List Ev) :
    runHooks u s (l ++ rest) = runHooks u s rest := by
  rw [runHooks_append, h s]; rfl

/-- The tail `afterBody` adds after the body's trace, run on the frame `(i, started)`. -/
theorem afterBody_hooks (cx : Ctx) (i : Nat) (a : AMode) (act : ActionSpec) (sd : Nat) (saved : Cursor) (r : Ret) (s : List Frame)
    (hin : HL cx.unwind r.raw) :
    ∃ stt, runHooks cx.unwind ((i, .started) :: s) (afterBody cx i a act sd saved r).raw = some ((i, stt) :: s) ∧
      exitOk cx.unwind (afterBody cx i a act sd saved r).res.code stt = true := by
  unfold afterBody
  split
  · -- exception in the body
    rename_i e he
    cases hu : cx.unwind with
    | true =>
      refine ⟨.closed 2, ?_, by simp [exitOk, Res.code, he]⟩
      simp only [hu, if_true] at *
      rw [runHooks_HL (by simpa [hu] using hin)]
      simp [runHooks, hookStep]
    | false =>
      refine ⟨.started, ?_, by simp [exitOk, Res.code, he]⟩
      simp only [hu] at *
      simpa using (by simpa [hu] using hin : HL false r.raw) _
  · rename_i hf
    refine ⟨.closed 0, ?_, by simp [exitOk, Res.code, hf]⟩
    rw [runHooks_HL hin]
    simp [runHooks, hookStep]
  · rename_i hok
    simp only
    split
    · refine ⟨.closed 1, ?_, by simp [exitOk, Res.code, hok]⟩
      rw [runHooks_HL hin]
      simp [runHooks, hookStep]
    · -- the action throws
      cases hu : cx.unwind with
      | true =>
        refine ⟨.closed 2, ?_, by simp [exitOk, Res.code]⟩
        simp only [hu, if_true, List.append_assoc]
        rw [runHooks_HL (by simpa [hu] using hin)]
        unfold actEvent
        split <;> simp [runHooks, hookStep]
      | false =>
        refine ⟨.acted, ?_, by simp [exitOk, Res.code]⟩
        simp only [hu, List.append_assoc]
        rw [runHooks_HL (by simpa [hu] using hin)]
        unfold actEvent
        split <;> simp [runHooks, hookStep]
    · refine ⟨.closed 0, ?_, by simp [exitOk, Res.code]⟩
      rw [runHooks_HL hin]
      unfold actEvent
      split <;> simp [runHooks, hookStep]
    · refine ⟨.closed 1, ?_, by simp [exitOk, Res.code, hok]⟩
      rw [runHooks_HL hin]
      unfold actEvent
      split <;> simp [runHooks, hookStep]

theorem nodeCore_hooks {rec : Rec} (cx : Ctx) (hrec : QRec (HL cx.unwind) rec) (k i : Nat) (nd : Node) (a : AMode)
    (m : RMode) (env : Env) (st : St) (r : Ret) (s : List Frame)
    (h : nodeCore cx rec k i nd a m env st = some r) :
    ∃ stt, runHooks cx.unwind ((i, .fresh) :: s) r.raw = some ((i, stt) :: s) ∧ exitOk cx.unwind r.res.code stt = true := by
  unfold nodeCore at h
  split at h
  · have hq := body_raw (HL_closed cx.unwind) hrec cx k _ _ _ _ _ _ h
    exact ⟨.fresh, hq _, rfl⟩
  · simp only [Option.map_eq_some_iff] at h
    obtain ⟨r0, h0, rfl⟩ := h
    have hq := body_raw (HL_closed cx.unwind) hrec cx k _ _ _ _ _ _ h0
    obtain ⟨stt, h1, h2⟩ := afterBody_hooks cx i a (cx.actOf env i nd) env.sd st.cur r0 s hq
    refine ⟨stt, ?_, by simpa using h2⟩
    simp only [guardRestore_raw, runHooks, hookStep, if_true]
    exact h1

/-- Every invocation's trace is a complete, properly nested, truthful hook protocol. -/
theorem nodeCall_hooks {rec : Rec} (cx : Ctx) (hrec : QRec (HL cx.unwind) rec) (k i : Nat) (a : AMode)
    (m : RMode) (env : Env) (st : St) (r : Ret) (h : nodeCall cx rec k i a m env st = some r) :
    HL cx.unwind r.raw := by
  unfold nodeCall at h
  split at h
  · exact absurd h (by simp)
  · rename_i nd _
    simp only [Option.map_eq_some_iff] at h
    obtain ⟨r0, h0, rfl⟩ := h
    intro s
    -- whatever the wrapper, the inner trace runs on the fresh frame and ends consistently
    have key : ∃ stt, runHooks cx.unwind ((i, .fresh) :: s) r0.raw = some ((i, stt) :: s) ∧
        exitOk cx.unwind r0.res.code stt = true := by
      split at h0
      · exact nodeCore_hooks cx hrec k i nd a m env st r0 s h0
      · exact ⟨.fresh, hrec _ _ _ _ _ _ h0 _, rfl⟩
      · exact nodeCore_hooks cx hrec k i nd _ m env st r0 s h0
      · exact nodeCore_hooks cx hrec k i nd _ m env st r0 s h0
      · unfold limitDepthCall at h0
        split at h0
        · simp only [Option.some.injEq] at h0; subst h0
          exact ⟨.fresh, rfl, rfl⟩
        · simp only [Option.map_eq_some_iff] at h0
          obtain ⟨r1, h1, rfl⟩ := h0
          exact nodeCore_hooks cx hrec k i nd a m env _ r1 s h1
      · unfold limitBytesCall at h0
        simp only [Option.map_eq_some_iff] at h0
        obtain ⟨r1, h1, rfl⟩ := h0
        obtain ⟨stt, hr, he⟩ := nodeCore_hooks cx hrec k i nd a m env _ r1 s h1
        split
        · rename_i hc
          -- the rule matched (its hooks are closed by `success`), then `limit_bytes` raises
          have hok : r1.res = .ok := hc.1
          refine ⟨stt, ?_, ?_⟩
          · simp only [runHooks_append, hr, Option.bind_some, runHooks, hookStep]
          · rw [hok] at he
            cases stt <;> simp_all [exitOk, Res.code]
        · exact ⟨stt, hr, he⟩
      · simp only [Option.map_eq_some_iff] at h0
        obtain ⟨r1, h1, rfl⟩ := h0
        obtain ⟨stt, hr, he⟩ := nodeCore_hooks cx hrec k i nd a m _ st r1 s h1
        refine ⟨stt, ?_, he⟩
        unfold stateScope
        simp only [List.cons_append, runHooks, hookStep, List.append_assoc]
        rw [runHooks_append, hr]
        split <;> simp [runHooks, hookStep]
      · simp only [Option.map_eq_some_iff] at h0
        obtain ⟨r1, h1, rfl⟩ := h0
        refine ⟨.fresh, ?_, rfl⟩
        unfold stateScope
        simp only [List.cons_append, runHooks, hookStep, List.append_assoc]
        rw [runHooks_append, hrec _ _ _ _ _ _ h1 _]
        split <;> simp [runHooks, hookStep]
    obtain ⟨stt, hr, he⟩ := key
    simp only [bracket, dropOnFail_raw, dropOnFail_res, runHooks, hookStep, List.cons_append]
    rw [runHooks_append, hr]
    simp [runHooks, hookStep, he]

theorem run_hooks (cx : Ctx) : ∀ n, QRec (HL cx.unwind) (run cx n) := by
  intro n
  induction n with
  | zero => intro j a m env st r h; simp [run] at h
  | succ n ih =>
    intro j a m env st r h
    simp only [run] at h
    exact nodeCall_hooks cx ih n j a m env st r h

end Pegtl
