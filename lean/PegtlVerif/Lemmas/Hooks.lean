/-
  Lemmas/Hooks.lean — the control-hook protocol as a stack automaton over the event trace,
  and the proof that every trace of the model is accepted by it (C08).
-/
import PegtlVerif.Lemmas.RawClosure

namespace Pegtl

/-- How far the hooks of one `Control< Rule >::match` invocation have got. -/
inductive HStat
  | fresh                      -- no hook yet
  | started (u : Bool)         -- `start` seen; `u`: the control family that ran it defines `unwind()`
  | acted (u : Bool)           -- `start`, then `apply` / `apply0`
  | closed (u : Bool) (k : Nat) -- then `success` (1), `failure` (0) or `unwind` (2)
  deriving DecidableEq, Repr

abbrev Frame := Nat × HStat

/-- Is the way an invocation's hooks ended consistent with what the invocation returned
    (`r`: 1 success, 0 local failure, 2 exception)?  `u`: the control that ran its hooks has `unwind()`. -/
def exitOk (r : Nat) : HStat → Bool
  | .fresh => true                                   -- an invocation without hooks of its own
  | .started u => r == 2 && !u                       -- aborted by an exception, no `unwind()` to call
  | .acted u => r == 2 && !u
  | .closed u k => (k == r && (r != 2 || u)) || (k == 1 && r == 2)   -- last: a wrapping action class (`limit_bytes`) raised after the rule had matched

/-- Under a `must_if< Errors >` control the `failure` hook of a rule that has a message raises: the invocation's hooks end
    with `failure` and the invocation is left by an exception (`mf`: this rule raises on failure). -/
def exitOkM (mf : Bool) (r : Nat) (st : HStat) : Bool :=
  exitOk r st || (mf && r == 2 && (match st with | .closed _ 0 => true | _ => false))

/-- One step of the automaton. The stack holds one frame per open invocation; `uOf k`: control
    family `k` defines `unwind()`. -/
def hookStep (uOf : Nat → Bool) (mf : Nat → Bool) (s : List Frame) (e : Ev) : Option (List Frame) :=
  match e, s with
  | .enter i _ _ _ _, s => some ((i, .fresh) :: s)
  | .start i _ k, (j, .fresh) :: s => if i = j then some ((j, .started (uOf k)) :: s) else none
  | .apply i _ _ _, (j, .started u) :: s => if i = j then some ((j, .acted u) :: s) else none
  | .apply0 i _ _, (j, .started u) :: s => if i = j then some ((j, .acted u) :: s) else none
  | .success i _, (j, .started u) :: s => if i = j then some ((j, .closed u 1) :: s) else none
  | .success i _, (j, .acted u) :: s => if i = j then some ((j, .closed u 1) :: s) else none
  | .failure i _, (j, .started u) :: s => if i = j then some ((j, .closed u 0) :: s) else none
  | .failure i _, (j, .acted u) :: s => if i = j then some ((j, .closed u 0) :: s) else none
  | .unwind i _, (j, .started u) :: s => if i = j then some ((j, .closed u 2) :: s) else none
  | .unwind i _, (j, .acted u) :: s => if i = j then some ((j, .closed u 2) :: s) else none
  | .raise _ _, s => some s
  | .sctor _, s => some s
  | .ssucc _ _ _, s => some s
  | .sdtor _, s => some s
  | .ruleApply _ _ _ _, s => some s
  | .exit i r _, (j, st) :: s => if i = j ∧ exitOkM (mf j) r st = true then some s else none
  | _, _ => none

def runHooks (u : Nat → Bool) (mf : Nat → Bool) : List Frame → List Ev → Option (List Frame)
  | s, [] => some s
  | s, e :: es => match hookStep u mf s e with
    | some s' => runHooks u mf s' es
    | none => none

theorem runHooks_append (u : Nat → Bool) (mf : Nat → Bool) (s : List Frame) (a b : List Ev) :
    runHooks u mf s (a ++ b) = (runHooks u mf s a).bind (fun s' => runHooks u mf s' b) := by
  induction a generalizing s with
  | nil => rfl
  | cons e es ih =>
    simp only [List.cons_append, runHooks]
    cases hookStep u mf s e with
    | none => rfl
    | some s' => exact ih s'

/-- A trace that the automaton accepts from any stack, returning to that stack: a sequence of
    complete, properly nested invocations. -/
def HL (u : Nat → Bool) (mf : Nat → Bool) (l : List Ev) : Prop := ∀ s, runHooks u mf s l = some s

theorem HL_closed (u : Nat → Bool) (mf : Nat → Bool) : RawClosed (HL u mf) where
  nil := fun _ => rfl
  app := fun ha hb s => by rw [runHooks_append, ha s]; exact hb s
  raise := fun _ _ _ => rfl
  sctor := fun _ _ => rfl
  ssucc := fun _ _ _ _ => rfl
  sdtor := fun _ _ => rfl
  ract := fun _ _ _ _ _ => rfl

/-- Running a prefix that is itself balanced does not disturb the stack. -/
theorem runHooks_HL {u : Nat → Bool} {mf : Nat → Bool} {l : List Ev} (h : HL u mf l) (s : List Frame) (rest : List Ev) :
    runHooks u mf s (l ++ rest) = runHooks u mf s rest := by
  rw [runHooks_append, h s]; rfl

theorem exitOkM_of {mf : Bool} {r : Nat} {st : HStat} (h : exitOk r st = true) : exitOkM mf r st = true := by
  simp [exitOkM, h]

/-- The failure hook on a frame whose `start` has been seen (`stt0` is `started` or `acted`). -/
theorem failureHook_hooks (uOf : Nat → Bool) (mf : Nat → Bool) (cx : Ctx) (i : Nat) (c : Cursor) (r : Ret) (s : List Frame)
    (u : Bool) (stt0 : HStat) (h0 : stt0 = .started u ∨ stt0 = .acted u) (hm : i ∈ cx.msgs → mf i = true)
    (hin : runHooks uOf mf ((i, .started u) :: s) r.raw = some ((i, stt0) :: s)) :
    ∃ stt, runHooks uOf mf ((i, .started u) :: s) (failureHook cx i c r).raw = some ((i, stt) :: s) ∧
      exitOkM (mf i) (failureHook cx i c r).res.code stt = true := by
  unfold failureHook
  split
  · rename_i hmem
    refine ⟨.closed u 0, ?_, by simp [exitOkM, Res.code, hm hmem]⟩
    rw [runHooks_append, hin]
    rcases h0 with rfl | rfl <;> simp [runHooks, hookStep]
  · refine ⟨.closed u 0, ?_, by simp [exitOkM, exitOk, Res.code]⟩
    rw [runHooks_append, hin]
    rcases h0 with rfl | rfl <;> simp [runHooks, hookStep]

/-- The tail `afterBody` adds after the body's trace, run on the frame `(i, started)` of a control
    that has `unwind()` iff `cx.unwind`. -/
theorem afterBody_hooks (uOf : Nat → Bool) (mf : Nat → Bool) (cx : Ctx) (i : Nat) (a : AMode) (act : ActionSpec) (sd : Nat) (saved : Cursor) (r : Ret) (s : List Frame)
    (hm : i ∈ cx.msgs → mf i = true) (hin : HL uOf mf r.raw) :
    ∃ stt, runHooks uOf mf ((i, .started cx.unwind) :: s) (afterBody cx i a act sd saved r).raw = some ((i, stt) :: s) ∧
      exitOkM (mf i) (afterBody cx i a act sd saved r).res.code stt = true := by
  unfold afterBody
  split
  · -- exception in the body
    rename_i e he
    cases hu : cx.unwind with
    | true =>
      refine ⟨.closed true 2, ?_, exitOkM_of (by simp [exitOk, Res.code, he])⟩
      simp only [if_true] at *
      rw [runHooks_HL hin]
      simp [runHooks, hookStep]
    | false =>
      refine ⟨.started false, ?_, exitOkM_of (by simp [exitOk, Res.code, he])⟩
      simpa using hin _
  · exact failureHook_hooks uOf mf cx i _ r s cx.unwind (.started cx.unwind) (Or.inl rfl) hm (hin _)
  · rename_i hok
    simp only
    split
    · refine ⟨.closed cx.unwind 1, ?_, exitOkM_of (by simp [exitOk, Res.code, hok])⟩
      rw [runHooks_HL hin]
      simp [runHooks, hookStep]
    · -- the action throws
      cases hu : cx.unwind with
      | true =>
        refine ⟨.closed true 2, ?_, exitOkM_of (by simp [exitOk, Res.code])⟩
        simp only [if_true, List.append_assoc]
        rw [runHooks_HL hin]
        unfold actEvent
        split <;> simp [runHooks, hookStep]
      | false =>
        refine ⟨.acted false, ?_, exitOkM_of (by simp [exitOk, Res.code])⟩
        simp only [List.append_assoc]
        rw [runHooks_HL hin]
        unfold actEvent
        split <;> simp [runHooks, hookStep]
    · -- the action vetoes: then the failure hook
      refine failureHook_hooks uOf mf cx i _ _ s cx.unwind (.acted cx.unwind) (Or.inr rfl) hm ?_
      simp only
      rw [runHooks_HL hin]
      unfold actEvent
      split <;> simp [runHooks, hookStep]
    · refine ⟨.closed cx.unwind 1, ?_, exitOkM_of (by simp [exitOk, Res.code, hok])⟩
      rw [runHooks_HL hin]
      unfold actEvent
      split <;> simp [runHooks, hookStep]

/-- The rules the run's `must_if` control raises for. -/
def Ctx.mf (cx : Ctx) (i : Nat) : Bool := cx.msgs.contains i

theorem nodeCore_hooks {rec : Rec} (cx : Ctx) (hrec : QRec (HL cx.unwindOf cx.mf) rec) (k i : Nat) (nd : Node) (a : AMode)
    (m : RMode) (env : Env) (st : St) (r : Ret) (s : List Frame)
    (h : nodeCore cx rec k i nd a m env st = some r) :
    ∃ stt, runHooks cx.unwindOf cx.mf ((i, .fresh) :: s) r.raw = some ((i, stt) :: s) ∧ exitOkM (cx.mf i) r.res.code stt = true := by
  unfold nodeCore at h
  split at h
  · have hq := body_raw (HL_closed cx.unwindOf cx.mf) hrec cx k _ _ _ _ _ _ h
    exact ⟨.fresh, hq _, rfl⟩
  · simp only [Option.map_eq_some_iff] at h
    obtain ⟨r0, h0, rfl⟩ := h
    have hq := body_raw (HL_closed cx.unwindOf cx.mf) hrec cx k _ _ _ _ _ _ h0
    obtain ⟨stt, h1, h2⟩ := afterBody_hooks cx.unwindOf cx.mf (cx.withCtl env.ctl) i a (cx.actOf env i nd) env.sd st.cur r0 s
      (fun hm => by simpa [Ctx.mf] using Ctx.mem_withCtl_msgs hm) hq
    refine ⟨stt, ?_, by simpa using h2⟩
    simp only [guardRestore_raw, runHooks, hookStep, if_true]
    exact h1

/-- Every invocation's trace is a complete, properly nested, truthful hook protocol. -/
theorem nodeCall_hooks {rec : Rec} (cx : Ctx) (hrec : QRec (HL cx.unwindOf cx.mf) rec) (k i : Nat) (a : AMode)
    (m : RMode) (env : Env) (st : St) (r : Ret) (h : nodeCall cx rec k i a m env st = some r) :
    HL cx.unwindOf cx.mf r.raw := by
  unfold nodeCall at h
  split at h
  · exact absurd h (by simp)
  · rename_i nd _
    simp only [Option.map_eq_some_iff] at h
    obtain ⟨r0, h0, rfl⟩ := h
    intro s
    -- whatever the wrapper, the inner trace runs on the fresh frame and ends consistently
    have key : ∃ stt, runHooks cx.unwindOf cx.mf ((i, .fresh) :: s) r0.raw = some ((i, stt) :: s) ∧
        exitOkM (cx.mf i) r0.res.code stt = true := by
      split at h0
      · exact nodeCore_hooks cx hrec k i nd a m env st r0 s h0
      · exact ⟨.fresh, hrec _ _ _ _ _ _ h0 _, rfl⟩
      · exact nodeCore_hooks cx hrec k i nd _ m env st r0 s h0
      · exact nodeCore_hooks cx hrec k i nd _ m env st r0 s h0
      · unfold limitDepthCall at h0
        split at h0
        · simp only [Option.some.injEq] at h0; subst h0
          exact ⟨.fresh, rfl, rfl⟩
        · simp only [Option.map_eq_some_iff] at h0
          obtain ⟨r1, h1, rfl⟩ := h0
          exact nodeCore_hooks cx hrec k i nd a m env _ r1 s h1
      · unfold limitBytesCall at h0
        simp only [Option.map_eq_some_iff] at h0
        obtain ⟨r1, h1, rfl⟩ := h0
        obtain ⟨stt, hr, he⟩ := nodeCore_hooks cx hrec k i nd a m env _ r1 s h1
        split
        · rename_i hc
          -- the rule matched (its hooks are closed by `success`), then `limit_bytes` raises
          have hok : r1.res = .ok := hc.1
          refine ⟨stt, ?_, ?_⟩
          · simp only [runHooks_append, hr, Option.bind_some, runHooks, hookStep]
          · rw [hok] at he
            cases stt <;> simp_all [exitOkM, exitOk, Res.code]
        · exact ⟨stt, hr, he⟩
      · simp only [Option.map_eq_some_iff] at h0
        obtain ⟨r1, h1, rfl⟩ := h0
        obtain ⟨stt, hr, he⟩ := nodeCore_hooks cx hrec k i nd a m _ st r1 s h1
        refine ⟨stt, ?_, he⟩
        unfold stateScope
        simp only [List.cons_append, runHooks, hookStep, List.append_assoc]
        rw [runHooks_append, hr]
        split <;> simp [runHooks, hookStep]
      · simp only [Option.map_eq_some_iff] at h0
        obtain ⟨r1, h1, rfl⟩ := h0
        refine ⟨.fresh, ?_, rfl⟩
        unfold stateScope
        simp only [List.cons_append, runHooks, hookStep, List.append_assoc]
        rw [runHooks_append, hrec _ _ _ _ _ _ h1 _]
        split <;> simp [runHooks, hookStep]
      · exact nodeCore_hooks cx hrec k i nd a m _ st r0 s h0
    obtain ⟨stt, hr, he⟩ := key
    simp only [bracket, dropOnFail_raw, dropOnFail_res, runHooks, hookStep, List.cons_append]
    rw [runHooks_append, hr]
    simp [runHooks, hookStep, he]

theorem run_hooks (cx : Ctx) : ∀ n, QRec (HL cx.unwindOf cx.mf) (run cx n) := by
  intro n
  induction n with
  | zero => intro j a m env st r h; simp [run] at h
  | succ n ih =>
    intro j a m env st r h
    simp only [run] at h
    exact nodeCall_hooks cx ih n j a m env st r h

end Pegtl
