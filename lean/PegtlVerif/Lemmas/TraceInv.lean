/-
  Lemmas/TraceInv.lean — invariants of the event trace that need the cursor:
  every position an observer is given is the scan position of a consumed prefix (C06), and every
  exception that leaves an invocation was created inside it, at a `raise` event (or a throwing
  action) with exactly that identity and position (C05).
-/
import PegtlVerif.Lemmas.Tracked
import PegtlVerif.Lemmas.RawClosure

namespace Pegtl

/-- A reported position that is what a scan of some consumed prefix yields. -/
def RepTracked (cx : Ctx) (p : Cursor) : Prop := ∃ c, Tracked cx c ∧ p = cx.rep c

def EvTracked (cx : Ctx) : Ev → Prop
  | .enter _ _ _ c _ => RepTracked cx c
  | .exit _ _ c => RepTracked cx c
  | .start _ c _ => RepTracked cx c
  | .success _ c => RepTracked cx c
  | .failure _ c => RepTracked cx c
  | .unwind _ c => RepTracked cx c
  | .raise _ c => RepTracked cx c
  | .apply _ _ b e => RepTracked cx b ∧ RepTracked cx e
  | .apply0 _ _ c => RepTracked cx c
  | .sctor _ => True
  | .ssucc _ c _ => RepTracked cx c
  | .sdtor _ => True
  | .ruleApply _ _ b e => RepTracked cx b ∧ RepTracked cx e

/-- Where an exception was created. -/
def Origin : Exc → List Ev → Prop
  | .parse i p, raw => Ev.raise i p ∈ raw
  | .nested _ _ inner, raw => Origin inner raw
  | .foreign k _, raw => ∃ e ∈ raw, (∃ sd b c, e = Ev.apply k sd b c) ∨ (∃ sd c, e = Ev.apply0 k sd c) ∨ (∃ sd b c, e = Ev.ruleApply k sd b c)

theorem Origin.mono {x : Exc} {a b : List Ev} (h : Origin x a) (hs : ∀ e, e ∈ a → e ∈ b) : Origin x b := by
  induction x with
  | parse i p => exact hs _ h
  | nested i p inner ih => exact ih h
  | foreign k s =>
    obtain ⟨e, he, hk⟩ := h
    exact ⟨e, hs _ he, hk⟩

structure TInv (cx : Ctx) (st : St) (r : Ret) : Prop where
  trk : Tracked cx st.cur → Tracked cx r.st.cur
  evs : Tracked cx st.cur → ∀ e ∈ r.raw, EvTracked cx e
  org : ∀ x, r.res = .thr x → Origin x r.raw

theorem EvTracked_withCtl {cx : Ctx} {k : Nat} {e : Ev} (h : EvTracked (cx.withCtl k) e) : EvTracked cx e := by
  cases e <;> exact h

theorem TInv.ofCtl {cx : Ctx} {k : Nat} {st : St} {r : Ret} (h : TInv (cx.withCtl k) st r) : TInv cx st r :=
  ⟨h.trk, fun ht e he => EvTracked_withCtl (h.evs ht e he), h.org⟩

theorem EvTracked_toCtl {cx : Ctx} {k : Nat} {e : Ev} (h : EvTracked cx e) : EvTracked (cx.withCtl k) e := by
  cases e <;> exact h

theorem TInv.toCtl {cx : Ctx} {k : Nat} {st : St} {r : Ret} (h : TInv cx st r) : TInv (cx.withCtl k) st r :=
  ⟨h.trk, fun ht e he => EvTracked_toCtl (h.evs ht e he), h.org⟩

def TRec (cx : Ctx) (rec : Rec) : Prop := ∀ j a m env st r, rec j a m env st = some r → TInv cx st r

theorem TInv.refl (cx : Ctx) (st : St) (res : Res) (hr : ∀ x, res ≠ .thr x) : TInv cx st ⟨res, st, [], []⟩ :=
  ⟨id, fun _ e he => by simp at he, fun x hx => absurd hx (hr x)⟩

/-- Sequencing: the second invocation starts where the first ended; the first one did not throw. -/
theorem TInv.seq {cx : Ctx} {st : St} {r1 r2 : Ret} (h1 : TInv cx st r1) (h2 : TInv cx r1.st r2)
    (surv : List Ev) : TInv cx st (r2.prepend r1.raw surv) where
  trk := fun ht => h2.trk (h1.trk ht)
  evs := fun ht e he => by
    simp only [prepend_raw, List.mem_append] at he
    rcases he with he | he
    · exact h1.evs ht e he
    · exact h2.evs (h1.trk ht) e he
  org := fun x hx => (h2.org x hx).mono (fun e he => by simp [he])

/-- Same state and result, trace extended on the left by an earlier, already checked trace. -/
theorem TInv.after {cx : Ctx} {st : St} {r1 r2 : Ret} (h1 : TInv cx st r1) (h2 : TInv cx r1.st r2)
    (r : Ret) (hst : r.st = r2.st) (hres : r.res = r2.res) (hraw : r.raw = r1.raw ++ r2.raw) : TInv cx st r where
  trk := fun ht => by rw [hst]; exact h2.trk (h1.trk ht)
  evs := fun ht e he => by
    rw [hraw, List.mem_append] at he
    rcases he with he | he
    · exact h1.evs ht e he
    · exact h2.evs (h1.trk ht) e he
  org := fun x hx => by
    rw [hraw]
    exact (h2.org x (hres ▸ hx)).mono (fun e he => by simp [he])

/-- Only the cursor may be reset to the (tracked) start; result and trace unchanged. -/
theorem TInv.restore {cx : Ctx} {st : St} {r r' : Ret} (h : TInv cx st r) (hres : r'.res = r.res) (hraw : r'.raw = r.raw)
    (hcur : r'.st.cur = r.st.cur ∨ r'.st.cur = st.cur) : TInv cx st r' where
  trk := fun ht => by rcases hcur with hc | hc <;> rw [hc]; exact h.trk ht; exact ht
  evs := fun ht e he => h.evs ht e (hraw ▸ he)
  org := fun x hx => hraw ▸ h.org x (hres ▸ hx)

theorem guardRestore_cur_cases (m : RMode) (c : Cursor) (r : Ret) :
    (guardRestore m c r).st.cur = r.st.cur ∨ (guardRestore m c r).st.cur = c := by
  unfold guardRestore; split
  · exact Or.inr rfl
  · exact Or.inl rfl

theorem TInv.guard {cx : Ctx} {st : St} {r : Ret} (h : TInv cx st r) (m : RMode) :
    TInv cx st (guardRestore m st.cur r).dropOnFail :=
  h.restore (by simp) (by simp) (by simpa using guardRestore_cur_cases m st.cur r)

end Pegtl

namespace Pegtl

section helpers
variable {cx : Ctx} {rec : Rec} (hrec : TRec cx rec)
include hrec

theorem seqAll_t (a : AMode) (m : RMode) (env : Env) :
    ∀ (cs : List Nat) (st : St) (r : Ret), seqAll rec a m env cs st = some r → TInv cx st r := by
  intro cs
  induction cs with
  | nil => intro st r h; simp only [seqAll, Option.some.injEq] at h; subst h; exact TInv.refl cx st _ (by simp)
  | cons c cs ih =>
    intro st r h
    simp only [seqAll] at h
    split at h
    · exact absurd h (by simp)
    · rename_i r1 h1
      have t1 := hrec _ _ _ _ _ _ h1
      split at h
      · split at h
        · exact absurd h (by simp)
        · rename_i r2 h2
          simp only [Option.some.injEq] at h; subst h
          exact t1.seq (ih _ _ h2) _
      · simp only [Option.some.injEq] at h; subst h; exact t1

theorem sorAny_t (a : AMode) (m : RMode) (env : Env) :
    ∀ (cs : List Nat) (st : St) (r : Ret), sorAny rec a m env cs st = some r → TInv cx st r := by
  intro cs
  induction cs with
  | nil => intro st r h; simp only [sorAny, Option.some.injEq] at h; subst h; exact TInv.refl cx st _ (by simp)
  | cons c cs ih =>
    intro st r h
    cases cs with
    | nil => simp only [sorAny] at h; exact hrec _ _ _ _ _ _ h
    | cons c' cs' =>
      simp only [sorAny] at h
      split at h
      · exact absurd h (by simp)
      · rename_i r1 h1
        have t1 := hrec _ _ _ _ _ _ h1
        split at h
        · split at h
          · exact absurd h (by simp)
          · rename_i r2 h2
            simp only [Option.some.injEq] at h; subst h
            exact t1.seq (ih _ _ h2) _
        · simp only [Option.some.injEq] at h; subst h; exact t1

theorem loopStar_t (a : AMode) (env : Env) (cs : List Nat) :
    ∀ (k : Nat) (st : St) (r : Ret), loopStar rec a env cs k st = some r → TInv cx st r := by
  intro k
  induction k with
  | zero => intro st r h; simp [loopStar] at h
  | succ k ih =>
    intro st r h
    simp only [loopStar] at h
    split at h
    · exact absurd h (by simp)
    · rename_i r1 h1
      have t1 := seqAll_t hrec a .required env cs st r1 h1
      split at h
      · split at h
        · exact absurd h (by simp)
        · rename_i r2 h2
          simp only [Option.some.injEq] at h; subst h
          exact t1.seq (ih _ _ h2) _
      · simp only [Option.some.injEq] at h; subst h
        exact ⟨t1.trk, t1.evs, fun x hx => by simp at hx⟩
      · simp only [Option.some.injEq] at h; subst h; exact t1

theorem repN_t (a : AMode) (m : RMode) (env : Env) (c : Nat) :
    ∀ (k : Nat) (st : St) (r : Ret), repN rec a m env c k st = some r → TInv cx st r := by
  intro k
  induction k with
  | zero => intro st r h; simp only [repN, Option.some.injEq] at h; subst h; exact TInv.refl cx st _ (by simp)
  | succ k ih =>
    intro st r h
    simp only [repN] at h
    split at h
    · exact absurd h (by simp)
    · rename_i r1 h1
      have t1 := hrec _ _ _ _ _ _ h1
      split at h
      · split at h
        · exact absurd h (by simp)
        · rename_i r2 h2
          simp only [Option.some.injEq] at h; subst h
          exact t1.seq (ih _ _ h2) _
      · simp only [Option.some.injEq] at h; subst h; exact t1

theorem repUpTo_t (a : AMode) (env : Env) (c : Nat) :
    ∀ (k : Nat) (st : St) (r : Ret) (full : Bool), repUpTo rec a env c k st = some (r, full) → TInv cx st r := by
  intro k
  induction k with
  | zero =>
    intro st r full h
    simp only [repUpTo, Option.some.injEq, Prod.mk.injEq] at h
    obtain ⟨h, _⟩ := h; subst h; exact TInv.refl cx st _ (by simp)
  | succ k ih =>
    intro st r full h
    simp only [repUpTo] at h
    split at h
    · exact absurd h (by simp)
    · rename_i r1 h1
      have t1 := hrec _ _ _ _ _ _ h1
      split at h
      · split at h
        · exact absurd h (by simp)
        · rename_i r2 full2 h2
          simp only [Option.some.injEq, Prod.mk.injEq] at h
          obtain ⟨h, _⟩ := h; subst h
          exact t1.seq (ih _ _ _ h2) _
      · simp only [Option.some.injEq, Prod.mk.injEq] at h
        obtain ⟨h, _⟩ := h; subst h
        exact ⟨t1.trk, t1.evs, fun x hx => by simp at hx⟩
      · simp only [Option.some.injEq, Prod.mk.injEq] at h
        obtain ⟨h, _⟩ := h; subst h; exact t1

theorem loopUntil1_t (a : AMode) (env : Env) (cond : Nat) :
    ∀ (k : Nat) (st : St) (r : Ret), loopUntil1 cx rec a env cond k st = some r → TInv cx st r := by
  intro k
  induction k with
  | zero => intro st r h; simp [loopUntil1] at h
  | succ k ih =>
    intro st r h
    simp only [loopUntil1] at h
    split at h
    · exact absurd h (by simp)
    · rename_i r1 h1
      have t1 := hrec _ _ _ _ _ _ h1
      split at h
      · simp only [Option.some.injEq] at h; subst h; exact t1
      · simp only [Option.some.injEq] at h; subst h; exact t1
      · split at h
        · simp only [Option.some.injEq] at h; subst h; exact t1
        · split at h
          · exact absurd h (by simp)
          · rename_i r2 h2
            simp only [Option.some.injEq] at h; subst h
            have t2 := ih _ _ h2
            -- the `in.bump()` between the two is a scan step
            have tb : TInv cx r1.st ⟨.ok, bump cx r1.st 1, [], []⟩ :=
              ⟨fun ht => by simpa using tracked_bumpScan cx _ 1 ht, fun _ e he => by simp at he, fun x hx => by simp at hx⟩
            exact t1.after (tb.seq t2 []) _ rfl rfl (by simp)

theorem loopUntil2_t (a : AMode) (env : Env) (cond b : Nat) :
    ∀ (k : Nat) (st : St) (r : Ret), loopUntil2 rec a env cond b k st = some r → TInv cx st r := by
  intro k
  induction k with
  | zero => intro st r h; simp [loopUntil2] at h
  | succ k ih =>
    intro st r h
    simp only [loopUntil2] at h
    split at h
    · exact absurd h (by simp)
    · rename_i r1 h1
      have t1 := hrec _ _ _ _ _ _ h1
      split at h
      · simp only [Option.some.injEq] at h; subst h; exact t1
      · simp only [Option.some.injEq] at h; subst h; exact t1
      · split at h
        · exact absurd h (by simp)
        · rename_i r2 h2
          have t2 := hrec _ _ _ _ _ _ h2
          split at h
          · split at h
            · exact absurd h (by simp)
            · rename_i r3 h3
              simp only [Option.some.injEq] at h; subst h
              exact t1.after (t2.seq (ih _ _ h3) []) _ rfl rfl (by simp)
          · simp only [Option.some.injEq] at h; subst h
            exact t1.seq t2 _

theorem loopStarStrict_t (a : AMode) (env : Env) (c rest : Nat) :
    ∀ (k : Nat) (st : St) (r : Ret), loopStarStrict rec a env c rest k st = some r → TInv cx st r := by
  intro k
  induction k with
  | zero => intro st r h; simp [loopStarStrict] at h
  | succ k ih =>
    intro st r h
    simp only [loopStarStrict] at h
    split at h
    · exact absurd h (by simp)
    · rename_i r1 h1
      have t1 := hrec _ _ _ _ _ _ h1
      split at h
      · simp only [Option.some.injEq] at h; subst h
        exact ⟨t1.trk, t1.evs, fun x hx => by simp at hx⟩
      · simp only [Option.some.injEq] at h; subst h; exact t1
      · split at h
        · exact absurd h (by simp)
        · rename_i r2 h2
          have t2 := hrec _ _ _ _ _ _ h2
          split at h
          · split at h
            · exact absurd h (by simp)
            · rename_i r3 h3
              simp only [Option.some.injEq] at h; subst h
              exact t1.after (t2.seq (ih _ _ h3) []) _ rfl rfl (by simp)
          · simp only [Option.some.injEq] at h; subst h
            exact t1.seq t2 _

/-- The inner rules of `rematch` all start at the (tracked) start of the head's match. -/
theorem rematchAll_t (a : AMode) (env : Env) (saved : Cursor) (hs : Tracked cx saved) :
    ∀ (rs : List Nat) (st : St) (r : Ret), rematchAll rec a env saved rs st = some r →
      (∀ e ∈ r.raw, EvTracked cx e) ∧ (∀ x, r.res = .thr x → Origin x r.raw) := by
  intro rs
  induction rs with
  | nil => intro st r h; simp only [rematchAll, Option.some.injEq] at h; subst h; exact ⟨by simp, by simp⟩
  | cons c cs ih =>
    intro st r h
    simp only [rematchAll] at h
    split at h
    · exact absurd h (by simp)
    · rename_i r1 h1
      have t1 := hrec _ _ _ _ _ _ h1
      split at h
      · split at h
        · exact absurd h (by simp)
        · rename_i r2 h2
          simp only [Option.some.injEq] at h; subst h
          have ⟨e2, o2⟩ := ih _ r2 h2
          refine ⟨?_, ?_⟩
          · intro e he
            simp only [prepend_raw, List.mem_append] at he
            rcases he with he | he
            · exact t1.evs hs e he
            · exact e2 e he
          · intro x hx
            exact (o2 x hx).mono (fun e he => by simp [he])
      · simp only [Option.some.injEq] at h; subst h
        exact ⟨t1.evs hs, t1.org⟩

theorem rematchAll_org (a : AMode) (env : Env) (saved : Cursor) :
    ∀ (rs : List Nat) (st : St) (r : Ret), rematchAll rec a env saved rs st = some r →
      ∀ x, r.res = .thr x → Origin x r.raw := by
  intro rs
  induction rs with
  | nil => intro st r h; simp only [rematchAll, Option.some.injEq] at h; subst h; simp
  | cons c cs ih =>
    intro st r h
    simp only [rematchAll] at h
    split at h
    · exact absurd h (by simp)
    · rename_i r1 h1
      have t1 := hrec _ _ _ _ _ _ h1
      split at h
      · split at h
        · exact absurd h (by simp)
        · rename_i r2 h2
          simp only [Option.some.injEq] at h; subst h
          intro x hx
          exact (ih _ r2 h2 x hx).mono (fun e he => by simp [he])
      · simp only [Option.some.injEq] at h; subst h
        exact t1.org

end helpers

end Pegtl

namespace Pegtl

theorem RepTracked.of {cx : Ctx} {c : Cursor} (h : Tracked cx c) : RepTracked cx (cx.rep c) := ⟨c, h, rfl⟩

/-- A state scope adds events whose only position is the tracked cursor after the match. -/
theorem TInv.scope {cx : Ctx} {st : St} {r : Ret} (h : TInv cx st r) (o : Nat) (b : Bool) :
    TInv cx st (stateScope cx o b r) where
  trk := h.trk
  evs := fun ht e he => by
    unfold stateScope at he
    simp only [List.cons_append, List.mem_cons, List.mem_append, List.mem_singleton, List.append_assoc] at he
    rcases he with he | he | he | he
    · subst he; trivial
    · exact h.evs ht e he
    · split at he
      · simp only [List.mem_singleton] at he; subst he
        exact RepTracked.of (h.trk ht)
      · simp at he
    · simp only [List.not_mem_nil, or_false] at he
      subst he; trivial
  org := fun x hx => (h.org x hx).mono (fun e he => by unfold stateScope; simp [he])

/-- Rule-level action calls: tracked positions, and a thrown exception comes from one of the calls. -/
theorem runActs_t (cx : Ctx) (sd : Nat) (b e : Cursor) (hb : RepTracked cx (cx.rep b)) (he : RepTracked cx (cx.rep e)) :
    ∀ acts : List RuleAct, (∀ ev ∈ (runActs cx sd b e acts).2, EvTracked cx ev) ∧
      (∀ x, (runActs cx sd b e acts).1 = .thr x → Origin x (runActs cx sd b e acts).2)
  | [] => ⟨fun ev h => by simp [runActs] at h, fun x h => by simp [runActs] at h⟩
  | y :: ys => by
    have ih := runActs_t cx sd b e hb he ys
    simp only [runActs]
    split
    · refine ⟨fun ev h => ?_, fun x h => ?_⟩
      · simp only [List.mem_singleton] at h; subst h; exact ⟨hb, he⟩
      · simp only [Res.thr.injEq] at h; subst h
        exact ⟨_, List.mem_singleton.mpr rfl, Or.inr (Or.inr ⟨_, _, _, rfl⟩)⟩
    · split
      · refine ⟨fun ev h => ?_, fun x h => by simp at h⟩
        simp only [List.mem_singleton] at h; subst h; exact ⟨hb, he⟩
      · refine ⟨fun ev h => ?_, fun x h => ?_⟩
        · simp only [List.mem_cons] at h
          rcases h with h | h
          · subst h; exact ⟨hb, he⟩
          · exact ih.1 ev h
        · exact (ih.2 x h).mono (fun ev hev => by simp [hev])

theorem runActs_origin (cx : Ctx) (sd : Nat) (b e : Cursor) :
    ∀ (acts : List RuleAct) (x : Exc), (runActs cx sd b e acts).1 = .thr x → Origin x (runActs cx sd b e acts).2
  | [], x => fun h => by simp [runActs] at h
  | y :: ys, x => by
    have ih := runActs_origin cx sd b e ys x
    simp only [runActs]
    split
    · intro h
      simp only [Res.thr.injEq] at h; subst h
      exact ⟨_, List.mem_singleton.mpr rfl, Or.inr (Or.inr ⟨_, _, _, rfl⟩)⟩
    · split
      · intro h; simp at h
      · intro h
        exact (ih h).mono (fun ev hev => by simp [hev])

theorem body_t {cx : Ctx} {rec : Rec} (hrec : TRec cx rec) (k : Nat) (kind : Kind)
    (hat : ∀ a, kind = .atom a → TrackOK cx → a.byteAtom = true) (a : AMode) (m : RMode) (env : Env) (st : St) (r : Ret)
    (h : body cx rec k kind a m env st = some r) : TInv cx st r := by
  cases kind with
  | atom atm =>
    simp only [body, Option.some.injEq] at h; subst h
    refine ⟨fun ht => atomStep_tracked cx atm st (hat atm rfl) ht, fun _ e he => by simp at he, fun x hx => ?_⟩
    split at hx <;> simp at hx
  | seq cs =>
    simp only [body] at h
    split at h
    · exact hrec _ _ _ _ _ _ h
    · simp only [Option.map_eq_some_iff] at h
      obtain ⟨r0, h0, rfl⟩ := h
      exact (seqAll_t hrec _ _ _ _ _ _ h0).guard m
  | sor cs => simp only [body] at h; exact sorAny_t hrec _ _ _ _ _ _ h
  | starPartial cs => simp only [body] at h; exact loopStar_t hrec _ _ _ _ _ _ h
  | partialR cs =>
    simp only [body, Option.map_eq_some_iff] at h
    obtain ⟨r0, h0, rfl⟩ := h
    have t := seqAll_t hrec _ _ _ _ _ _ h0
    split
    · exact ⟨t.trk, t.evs, fun x hx => by simp at hx⟩
    · exact t
  | plus c =>
    simp only [body] at h
    split at h
    · exact absurd h (by simp)
    · rename_i r1 h1
      have t1 := hrec _ _ _ _ _ _ h1
      split at h
      · simp only [Option.map_eq_some_iff] at h
        obtain ⟨r2, h2, rfl⟩ := h
        exact t1.seq (loopStar_t hrec _ _ _ _ _ _ h2) _
      · simp only [Option.some.injEq] at h; subst h; exact t1
  | atR c =>
    simp only [body, Option.map_eq_some_iff] at h
    obtain ⟨r0, h0, rfl⟩ := h
    exact (hrec _ _ _ _ _ r0 h0).restore rfl rfl (Or.inr rfl)
  | notAt c =>
    simp only [body, Option.map_eq_some_iff] at h
    obtain ⟨r0, h0, rfl⟩ := h
    have t := hrec _ _ _ _ _ r0 h0
    refine ⟨fun ht => ?_, fun ht e he => ?_, fun x hx => ?_⟩
    · split <;> exact ht
    · apply t.evs ht e
      split at he <;> exact he
    · split at hx
      · simp at hx
      · simp at hx
      · exact t.org x hx
  | until1 cond =>
    simp only [body, Option.map_eq_some_iff] at h
    obtain ⟨r0, h0, rfl⟩ := h
    exact (loopUntil1_t hrec _ _ _ _ _ _ h0).guard m
  | until2 cond b =>
    simp only [body, Option.map_eq_some_iff] at h
    obtain ⟨r0, h0, rfl⟩ := h
    exact (loopUntil2_t hrec _ _ _ _ _ _ _ h0).guard m
  | rep n c =>
    simp only [body, Option.map_eq_some_iff] at h
    obtain ⟨r0, h0, rfl⟩ := h
    exact (repN_t hrec _ _ _ _ _ _ _ h0).guard m
  | repMinMax lo hi c na =>
    simp only [body] at h
    split at h
    · exact absurd h (by simp)
    · rename_i r1 h1
      have t1 := repN_t hrec _ _ _ _ _ _ _ h1
      split at h
      · split at h
        · exact absurd h (by simp)
        · rename_i r2 full h2
          have t2 := repUpTo_t hrec _ _ _ _ _ _ _ h2
          have t12 : TInv cx st (r2.prepend r1.raw r1.surv) := t1.seq t2 _
          split at h
          · split at h
            · exact absurd h (by simp)
            · rename_i r3 h3
              simp only [Option.some.injEq] at h; subst h
              exact (t12.seq (hrec _ _ _ _ _ _ h3) _).guard m
          · simp only [Option.some.injEq] at h; subst h
            exact t12.guard m
      · simp only [Option.some.injEq] at h; subst h
        exact t1.guard m
  | repOpt n c =>
    simp only [body, Option.map_eq_some_iff] at h
    obtain ⟨⟨r0, full⟩, h0, rfl⟩ := h
    exact repUpTo_t hrec _ _ _ _ _ _ _ h0
  | ifThenElse c t e =>
    simp only [body] at h
    split at h
    · exact absurd h (by simp)
    · rename_i r1 h1
      have t1 := hrec _ _ _ _ _ _ h1
      split at h
      · simp only [Option.map_eq_some_iff] at h
        obtain ⟨r2, h2, rfl⟩ := h
        exact (t1.seq (hrec _ _ _ _ _ _ h2) _).guard m
      · simp only [Option.map_eq_some_iff] at h
        obtain ⟨r2, h2, rfl⟩ := h
        exact (t1.seq (hrec _ _ _ _ _ _ h2) _).guard m
      · simp only [Option.some.injEq] at h; subst h
        exact t1.guard m
  | strict c rest =>
    simp only [body] at h
    split at h
    · exact absurd h (by simp)
    · rename_i r1 h1
      have t1 := hrec _ _ _ _ _ _ h1
      split at h
      · simp only [Option.map_eq_some_iff] at h
        obtain ⟨r2, h2, rfl⟩ := h
        exact (t1.seq (hrec _ _ _ _ _ _ h2) _).guard m
      · simp only [Option.some.injEq] at h; subst h
        exact ⟨t1.trk, t1.evs, fun x hx => by simp at hx⟩
      · simp only [Option.some.injEq] at h; subst h
        exact t1.guard m
  | starStrict c rest =>
    simp only [body, Option.map_eq_some_iff] at h
    obtain ⟨r0, h0, rfl⟩ := h
    exact (loopStarStrict_t hrec _ _ _ _ _ _ _ h0).guard m
  | rematch head rs =>
    simp only [body] at h
    split at h
    · exact hrec _ _ _ _ _ _ h
    · split at h
      · exact absurd h (by simp)
      · rename_i r1 h1
        have t1 := hrec _ _ _ _ _ _ h1
        split at h
        · split at h
          · exact absurd h (by simp)
          · rename_i r2 h2
            simp only [Option.some.injEq] at h; subst h
            -- the outer input stays at the end of the head's match
            refine TInv.restore (r := ⟨(r2.prepend r1.raw r1.surv).res, r1.st, (r2.prepend r1.raw r1.surv).raw, []⟩) ?_
              (by simp) (by simp) (by simpa using guardRestore_cur_cases .required st.cur _)
            refine ⟨t1.trk, fun ht e he => ?_, fun x hx => ?_⟩
            · have ⟨e2, _⟩ := rematchAll_t hrec a env st.cur ht rs _ r2 h2
              simp only [prepend_raw, List.mem_append] at he
              rcases he with he | he
              · exact t1.evs ht e he
              · exact e2 e he
            · -- an exception of an inner rule: its origin is in the inner trace
              exact (rematchAll_org hrec a env st.cur rs _ r2 h2 x (by simpa using hx)).mono (fun e he => by simp [he])
        · simp only [Option.some.injEq] at h; subst h
          exact t1.guard .required
  | must c =>
    simp only [body] at h
    split at h
    · exact absurd h (by simp)
    · rename_i r1 h1
      have t1 := hrec _ _ _ _ _ _ h1
      split at h
      · simp only [Option.some.injEq] at h; subst h
        refine ⟨t1.trk, fun ht e he => ?_, fun x hx => ?_⟩
        · simp only [List.mem_append, List.mem_singleton] at he
          rcases he with he | he
          · exact t1.evs ht e he
          · subst he; exact RepTracked.of (t1.trk ht)
        · simp only [Res.thr.injEq] at hx; subst hx
          simp [Origin]
      · simp only [Option.some.injEq] at h; subst h; exact t1
  | ifMust dflt cond mn =>
    simp only [body] at h
    split at h
    · exact absurd h (by simp)
    · rename_i r1 h1
      have t1 := hrec _ _ _ _ _ _ h1
      split at h
      · simp only [Option.map_eq_some_iff] at h
        obtain ⟨r2, h2, rfl⟩ := h
        have t12 := t1.seq (hrec _ _ _ _ _ _ h2) r1.surv
        split
        · exact t12.restore (by simp) (by simp) (Or.inl (by simp))
        · rename_i hnt
          exact ⟨t12.trk, t12.evs, fun x hx => by simp at hx⟩
      · simp only [Option.some.injEq] at h; subst h
        exact ⟨t1.trk, t1.evs, fun x hx => by split at hx <;> simp at hx⟩
      · simp only [Option.some.injEq] at h; subst h; exact t1
  | raise t =>
    simp only [body, Option.some.injEq] at h; subst h
    refine ⟨id, fun ht e he => ?_, fun x hx => ?_⟩
    · simp only [List.mem_singleton] at he; subst he; exact RepTracked.of ht
    · simp only [Res.thr.injEq] at hx; subst hx; simp [Origin]
  | tryCatchReturnFalse ex c =>
    simp only [body, Option.map_eq_some_iff] at h
    obtain ⟨r0, h0, rfl⟩ := h
    have t := hrec _ _ _ _ _ _ h0
    apply TInv.guard
    split
    · split
      · exact ⟨t.trk, t.evs, fun x hx => by simp at hx⟩
      · exact t
    · exact t
  | tryCatchRaiseNested ex c =>
    simp only [body, Option.map_eq_some_iff] at h
    obtain ⟨r0, h0, rfl⟩ := h
    have t := hrec _ _ _ _ _ _ h0
    apply TInv.guard
    split
    · rename_i e he
      split
      · refine ⟨t.trk, t.evs, fun x hx => ?_⟩
        simp only [Res.thr.injEq] at hx; subst hx
        exact t.org e he
      · exact t
    · exact t
  | enable c => simp only [body] at h; exact hrec _ _ _ _ _ _ h
  | disable c => simp only [body] at h; exact hrec _ _ _ _ _ _ h
  | action fam c => simp only [body] at h; exact hrec _ _ _ _ _ _ h
  | control kc c => simp only [body] at h; exact hrec _ _ _ _ _ _ h
  | state d c =>
    simp only [body, Option.map_eq_some_iff] at h
    obtain ⟨r0, h0, rfl⟩ := h
    exact (hrec _ _ _ _ _ _ h0).scope _ _
  | ifApply c acts =>
    simp only [body] at h
    split at h
    · simp only [Option.map_eq_some_iff] at h
      obtain ⟨r0, h0, rfl⟩ := h
      have t := hrec _ _ _ _ _ _ h0
      split
      · apply TInv.guard
        refine ⟨t.trk, fun ht ev hev => ?_, fun x hx => ?_⟩
        · simp only [List.mem_append] at hev
          rcases hev with hev | hev
          · exact t.evs ht ev hev
          · exact (runActs_t cx _ _ _ (RepTracked.of ht) (RepTracked.of (t.trk ht)) acts).1 ev hev
        · exact (runActs_origin cx _ _ _ acts x hx).mono (fun ev hev => by simp [hev])
      · exact t.guard _
    · exact hrec _ _ _ _ _ _ h
  | applyR acts =>
    simp only [body] at h
    split at h
    · simp only [Option.some.injEq] at h
      subst h
      refine ⟨fun ht => by unfold Ret.dropOnFail; split <;> exact ht, fun ht ev hev => ?_, fun x hx => ?_⟩
      · simp only [dropOnFail_raw] at hev
        exact (runActs_t cx _ _ _ (RepTracked.of ht) (RepTracked.of ht) acts).1 ev hev
      · simp only [dropOnFail_raw, dropOnFail_res] at hx ⊢
        exact runActs_origin cx _ _ _ acts x hx
    · simp only [Option.some.injEq] at h
      subst h
      exact TInv.refl cx st .ok (by simp)

end Pegtl

namespace Pegtl

theorem failureHook_raw_sub (cx : Ctx) (i : Nat) (c : Cursor) (r : Ret) :
    ∀ e, e ∈ r.raw → e ∈ (failureHook cx i c r).raw := by
  intro e he
  unfold failureHook
  split <;> simp [he]

theorem failureHook_mem (cx : Ctx) (i : Nat) (c : Cursor) (r : Ret) (e : Ev) (he : e ∈ (failureHook cx i c r).raw) :
    e ∈ r.raw ∨ e = Ev.failure i (cx.rep c) ∨ e = Ev.raise i (cx.rep c) := by
  unfold failureHook at he
  split at he
  · simp only [List.mem_append, List.mem_cons, List.not_mem_nil, or_false] at he
    rcases he with he | he | he
    · exact Or.inl he
    · exact Or.inr (Or.inl he)
    · exact Or.inr (Or.inr he)
  · simp only [List.mem_append, List.mem_singleton] at he
    rcases he with he | he
    · exact Or.inl he
    · exact Or.inr (Or.inl he)

/-- An exception out of the failure hook is the `must_if` control's own: a parse_error for this rule at the current
    position, raised right here. -/
theorem failureHook_thr (cx : Ctx) (i : Nat) (c : Cursor) (r : Ret) (x : Exc) (h : (failureHook cx i c r).res = .thr x) :
    x = .parse i (cx.rep c) ∧ Ev.raise i (cx.rep c) ∈ (failureHook cx i c r).raw := by
  unfold failureHook at h ⊢
  split at h
  · simp only [Res.thr.injEq] at h
    rename_i hm
    simp only [hm, if_true]
    exact ⟨h.symm, by simp⟩
  · simp at h

theorem afterBody_raw_sub (cx : Ctx) (i : Nat) (a : AMode) (act : ActionSpec) (sd : Nat) (saved : Cursor) (r : Ret) :
    ∀ e, e ∈ r.raw → e ∈ (afterBody cx i a act sd saved r).raw := by
  intro e he
  unfold afterBody
  split
  · simp [he]
  · exact failureHook_raw_sub _ _ _ _ e he
  · simp only; split
    · simp [he]
    · simp [he]
    · exact failureHook_raw_sub _ _ _ _ e (by simp [he])
    · simp [he]

theorem afterBody_thr (cx : Ctx) (i : Nat) (a : AMode) (act : ActionSpec) (sd : Nat) (saved : Cursor) (r : Ret) (x : Exc)
    (h : (afterBody cx i a act sd saved r).res = .thr x) :
    r.res = .thr x ∨ (x = .foreign i act.throwStd ∧ actEvent cx i act sd saved r.st.cur ∈ (afterBody cx i a act sd saved r).raw) ∨
      (x = .parse i (cx.rep r.st.cur) ∧ Ev.raise i (cx.rep r.st.cur) ∈ (afterBody cx i a act sd saved r).raw) := by
  unfold afterBody at h ⊢
  split at h
  · left; exact h
  · right; right
    exact failureHook_thr cx i _ r x h
  · rename_i hok
    simp only at h ⊢
    split at h
    · simp [hok] at h
    · right; left
      simp only [Res.thr.injEq] at h
      rename_i hthrows
      simp only [hok, hthrows]
      exact ⟨h.symm, by simp⟩
    · right; right
      exact failureHook_thr cx i _ _ x h
    · simp [hok] at h

theorem afterBody_t0 (cx : Ctx) (i : Nat) (a : AMode) (act : ActionSpec) (sd : Nat) (st : St) (r : Ret) (h : TInv cx st r) :
    TInv cx st (afterBody cx i a act sd st.cur r) := by
  refine ⟨fun ht => by simpa using h.trk ht, fun ht e he => ?_, fun x hx => ?_⟩
  · -- every event added carries the tracked start or the tracked end of the match
    have hs := RepTracked.of ht
    have he' := RepTracked.of (h.trk ht)
    unfold afterBody at he
    split at he
    · simp only [List.mem_append] at he
      rcases he with he | he
      · exact h.evs ht e he
      · split at he
        · simp only [List.mem_singleton] at he; subst he; exact he'
        · simp at he
    · rcases failureHook_mem _ _ _ _ e he with he | he | he
      · exact h.evs ht e he
      · subst he; exact he'
      · subst he; exact he'
    · have haev : EvTracked cx (actEvent cx i act sd st.cur r.st.cur) := by
        unfold actEvent; split
        · exact ⟨hs, he'⟩
        · exact he'
      simp only at he
      split at he
      · simp only [List.mem_append, List.mem_singleton] at he
        rcases he with he | he
        · exact h.evs ht e he
        · subst he; exact he'
      · simp only [List.mem_append, List.mem_singleton] at he
        rcases he with (he | he) | he
        · exact h.evs ht e he
        · subst he; exact haev
        · split at he
          · simp only [List.mem_singleton] at he; subst he; exact he'
          · simp at he
      · rcases failureHook_mem _ _ _ _ e he with he | he | he
        · simp only [List.mem_append, List.mem_singleton] at he
          rcases he with he | he
          · exact h.evs ht e he
          · subst he; exact haev
        · subst he; exact he'
        · subst he; exact he'
      · simp only [List.mem_append, List.mem_cons, List.mem_singleton, List.not_mem_nil, or_false] at he
        rcases he with he | he | he
        · exact h.evs ht e he
        · subst he; exact haev
        · subst he; exact he'
  · rcases afterBody_thr cx i a act sd st.cur r x hx with h1 | ⟨rfl, hmem⟩ | ⟨rfl, hmem⟩
    · exact (h.org x h1).mono (afterBody_raw_sub cx i a act sd st.cur r)
    · refine ⟨_, hmem, ?_⟩
      unfold actEvent; split
      · exact Or.inl ⟨_, _, _, rfl⟩
      · exact Or.inr (Or.inl ⟨_, _, rfl⟩)
    · exact hmem

theorem afterBody_t (cx : Ctx) (kc i : Nat) (a : AMode) (act : ActionSpec) (sd : Nat) (st : St) (r : Ret) (h : TInv cx st r) :
    TInv cx st (afterBody (cx.withCtl kc) i a act sd st.cur r) :=
  TInv.ofCtl (afterBody_t0 (cx.withCtl kc) i a act sd st r h.toCtl)

theorem nodeCore_t {cx : Ctx} {rec : Rec} (hrec : TRec cx rec)
    (k i : Nat) (nd : Node) (hn : cx.g[i]? = some nd) (a : AMode) (m : RMode) (env : Env) (st : St) (r : Ret)
    (h : nodeCore cx rec k i nd a m env st = some r) : TInv cx st r := by
  unfold nodeCore at h
  split at h
  · exact body_t hrec k _ (fun at' hk hok => hok.2 i nd at' hn hk) _ _ _ _ _ h
  · simp only [Option.map_eq_some_iff] at h
    obtain ⟨r0, h0, rfl⟩ := h
    have tb := body_t hrec k _ (fun at' hk hok => hok.2 i nd at' hn hk) _ _ _ _ _ h0
    have ta := afterBody_t cx env.ctl i a (cx.actOf env i nd) env.sd st r0 tb
    refine TInv.restore (r := ⟨(afterBody (cx.withCtl env.ctl) i a (cx.actOf env i nd) env.sd st.cur r0).res,
        (afterBody (cx.withCtl env.ctl) i a (cx.actOf env i nd) env.sd st.cur r0).st,
        Ev.start i (cx.rep st.cur) env.ctl :: (afterBody (cx.withCtl env.ctl) i a (cx.actOf env i nd) env.sd st.cur r0).raw,
        (afterBody (cx.withCtl env.ctl) i a (cx.actOf env i nd) env.sd st.cur r0).surv⟩) ?_ (by simp) (by simp)
      (by simpa using guardRestore_cur_cases _ st.cur _)
    refine ⟨ta.trk, fun ht e he => ?_, fun x hx => (ta.org x hx).mono (fun e he => by simp [he])⟩
    simp only [List.mem_cons] at he
    rcases he with he | he
    · subst he; exact RepTracked.of ht
    · exact ta.evs ht e he

theorem nodeCall_t {cx : Ctx} {rec : Rec} (hrec : TRec cx rec)
    (k i : Nat) (a : AMode) (m : RMode) (env : Env) (st : St) (r : Ret)
    (h : nodeCall cx rec k i a m env st = some r) : TInv cx st r := by
  unfold nodeCall at h
  split at h
  · exact absurd h (by simp)
  · rename_i nd hn
    simp only [Option.map_eq_some_iff] at h
    obtain ⟨r0, h0, rfl⟩ := h
    have key : TInv cx st r0 := by
      split at h0
      · exact nodeCore_t hrec k i nd hn a m env st r0 h0
      · exact hrec _ _ _ _ _ _ h0
      · exact nodeCore_t hrec k i nd hn _ m env st r0 h0
      · exact nodeCore_t hrec k i nd hn _ m env st r0 h0
      · unfold limitDepthCall at h0
        split at h0
        · simp only [Option.some.injEq] at h0; subst h0
          refine ⟨id, fun ht e he => ?_, fun x hx => ?_⟩
          · simp only [List.mem_singleton] at he; subst he; exact RepTracked.of ht
          · simp only [Res.thr.injEq] at hx; subst hx; simp [Origin]
        · simp only [Option.map_eq_some_iff] at h0
          obtain ⟨r1, h1, rfl⟩ := h0
          have t := nodeCore_t hrec k i nd hn a m env _ r1 h1
          exact ⟨fun ht => by simpa using t.trk ht, fun ht => t.evs ht, t.org⟩
      · unfold limitBytesCall at h0
        simp only [Option.map_eq_some_iff] at h0
        obtain ⟨r1, h1, rfl⟩ := h0
        have t := nodeCore_t hrec k i nd hn a m env _ r1 h1
        split
        · refine ⟨fun ht => by simpa using t.trk ht, fun ht e he => ?_, fun x hx => ?_⟩
          · simp only [List.mem_append, List.mem_singleton] at he
            rcases he with he | he
            · exact t.evs ht e he
            · subst he; exact RepTracked.of (t.trk ht)
          · simp only [Res.thr.injEq] at hx; subst hx; simp [Origin]
        · exact ⟨fun ht => by simpa using t.trk ht, fun ht => t.evs ht, t.org⟩
      · simp only [Option.map_eq_some_iff] at h0
        obtain ⟨r1, h1, rfl⟩ := h0
        exact (nodeCore_t hrec k i nd hn a m _ st r1 h1).scope _ _
      · simp only [Option.map_eq_some_iff] at h0
        obtain ⟨r1, h1, rfl⟩ := h0
        exact (hrec _ _ _ _ _ _ h1).scope _ _
      · exact nodeCore_t hrec k i nd hn a m _ st r0 h0
    refine ⟨fun ht => by simpa using key.trk ht, fun ht e he => ?_, fun x hx => ?_⟩
    · simp only [bracket, dropOnFail_raw, List.mem_cons, List.mem_append, List.mem_singleton] at he
      rcases he with (he | he) | he
      · subst he; exact RepTracked.of ht
      · exact key.evs ht e he
      · rcases he with he | he
        · subst he
          show RepTracked cx _
          simpa using RepTracked.of (key.trk ht)
        · simp at he
    · have := key.org x (by simpa using hx)
      exact this.mono (fun e he => by simp [bracket, he])

theorem run_t (cx : Ctx) : ∀ n, TRec cx (run cx n) := by
  intro n
  induction n with
  | zero => intro j a m env st r h; simp [run] at h
  | succ n ih =>
    intro j a m env st r h
    simp only [run] at h
    exact nodeCall_t ih n j a m env st r h

/-- Decidable form of `ByteTable`. -/
def byteTableB (g : Grammar) : Bool :=
  g.toList.all fun nd => match nd.kind with
    | .atom a => a.byteAtom
    | _ => true

theorem byteTableB_sound {g : Grammar} (h : byteTableB g = true) : ByteTable g := by
  intro i nd a hn hk
  have hmem : nd ∈ g.toList := by
    rw [← Array.getElem?_toList] at hn
    exact List.mem_of_getElem? hn
  have := List.all_eq_true.mp h nd hmem
  simpa [hk] using this

end Pegtl
