/-
  Lemmas/SemSound.lean — refinement: every invocation of the matcher model evaluates, in the
  sense of the PEG formalism `Sem` (Spec/Peg.lean), the documented expansion of its rule.
  Used by C01 (core operators) and C09 (convenience rules = their documented expansions).
-/
import PegtlVerif.Lemmas.Rewind
import PegtlVerif.Lemmas.AtomSem

namespace Pegtl
open Pegtl.Spec

/-- Who a (non-foreign) exception blames. -/
def blameOf : Exc → Option Blame
  | .parse i _ => some (.parse i)
  | .nested i _ e => (blameOf e).map (.nested i)
  | .foreign _ _ => none

abbrev SemC (cx : Ctx) := Sem (Gof cx.g) cx.eol cx.inp

/-- A model result as an outcome of the formalism. -/
def absO (r : Ret) : Option Outcome :=
  match r.res with
  | .ok => some (.ok r.st.cur.pos)
  | .fail => some .fail
  | .thr x => (blameOf x).map .err

/-- "Invocation `r` of expression `e` at `p` is what the formalism prescribes". -/
def SemR (cx : Ctx) (endp : Nat) (e : PExp) (p : Nat) (r : Ret) : Prop :=
  ∃ o, absO r = some o ∧ SemC cx endp e p o

def SRec (cx : Ctx) (rec : Rec) : Prop :=
  ∀ j a m env st r, Valid cx st → rec j a m env st = some r → SemR cx st.endp (.ref j) st.cur.pos r

theorem absO_congr {r r' : Ret} (hr : r'.res = r.res) (hp : r'.st.cur.pos = r.st.cur.pos) : absO r' = absO r := by
  unfold absO; rw [hr, hp]

theorem absO_nonok {r r' : Ret} (hr : r'.res = r.res) (hn : r.res ≠ .ok) : absO r' = absO r := by
  unfold absO; rw [hr]
  cases h : r.res with
  | ok => exact absurd h hn
  | fail => rfl
  | thr x => rfl

theorem absO_ok {r : Ret} (h : r.res = .ok) : absO r = some (.ok r.st.cur.pos) := by
  unfold absO; rw [h]

theorem absO_fail {r : Ret} (h : r.res = .fail) : absO r = some .fail := by
  unfold absO; rw [h]

@[simp] theorem absO_prepend (raw surv : List Ev) (r : Ret) : absO (r.prepend raw surv) = absO r := rfl

theorem SemR.congr {cx endp e p r r'} (h : SemR cx endp e p r) (ha : absO r' = absO r) : SemR cx endp e p r' := by
  obtain ⟨o, ho, hs⟩ := h
  exact ⟨o, ha.trans ho, hs⟩

theorem Valid.of_weak {cx : Ctx} {st : St} {r : Ret} (hv : Valid cx st) (w : Weak st r) : Valid cx r.st :=
  ⟨by rw [w.endp]; exact w.inb hv.le, by rw [w.endp]; exact hv.sz⟩

/-! ### Composition lemmas of the formalism -/

def Spec.Outcome.notOk : Outcome → Prop
  | .ok _ => False
  | _ => True

theorem Sem.seq_stop {G eol inp endp e₁ e₂ p o} (h : Sem G eol inp endp e₁ p o) (hn : o.notOk) :
    Sem G eol inp endp (.seq e₁ e₂) p o := by
  cases o with
  | ok q => exact hn.elim
  | fail => exact .seqFail h
  | err b => exact .seqErr h

theorem Sem.alt_stop {G eol inp endp e₁ e₂ p o} (h : Sem G eol inp endp e₁ p o) (hn : o ≠ .fail) :
    Sem G eol inp endp (.alt e₁ e₂) p o := by
  cases o with
  | ok q => exact .altOk h
  | fail => exact absurd rfl hn
  | err b => exact .altErr h

/-- One more successful iteration in front of `seq< star< S >, T >`. -/
theorem Sem.star_seq_step {G eol inp endp S T p q o} (hS : Sem G eol inp endp S p (.ok q))
    (h : Sem G eol inp endp (.seq (.star S) T) q o) : Sem G eol inp endp (.seq (.star S) T) p o := by
  cases h with
  | seqOk h1 h2 => exact .seqOk (.starStep hS h1) h2
  | seqFail h1 => exact .seqFail (.starStep hS h1)
  | seqErr h1 => exact .seqErr (.starStep hS h1)

theorem Sem.star_step' {G eol inp endp S p q o} (hS : Sem G eol inp endp S p (.ok q))
    (h : Sem G eol inp endp (.star S) q o) : Sem G eol inp endp (.star S) p o := .starStep hS h

/-- `opt< e >` when `e` did not fail. -/
theorem Sem.opt_of {G eol inp endp e p o} (h : Sem G eol inp endp e p o) (hn : o ≠ .fail) :
    Sem G eol inp endp e.opt p o := Sem.alt_stop h hn

theorem Sem.opt_fail {G eol inp endp e p} (h : Sem G eol inp endp e p .fail) :
    Sem G eol inp endp e.opt p (.ok p) := .altFail h .eps

theorem absO_notOk {r : Ret} {o : Outcome} (h : absO r = some o) (hn : r.res ≠ .ok) : o.notOk := by
  unfold absO at h
  cases hr : r.res with
  | ok => exact absurd hr hn
  | fail => simp only [hr, Option.some.injEq] at h; subst h; trivial
  | thr x =>
    simp only [hr, Option.map_eq_some_iff] at h
    obtain ⟨b, _, rfl⟩ := h; trivial

theorem absO_ne_fail {r : Ret} {o : Outcome} (h : absO r = some o) (hn : r.res ≠ .fail) : o ≠ .fail := by
  unfold absO at h
  cases hr : r.res with
  | ok => simp only [hr, Option.some.injEq] at h; subst h; simp
  | fail => exact absurd hr hn
  | thr x =>
    simp only [hr, Option.map_eq_some_iff] at h
    obtain ⟨b, _, rfl⟩ := h; simp

theorem absO_ok_inv {r : Ret} {q : Nat} (h : absO r = some (.ok q)) : r.res = .ok ∧ r.st.cur.pos = q := by
  unfold absO at h
  cases hr : r.res with
  | ok => simp only [hr, Option.some.injEq, Outcome.ok.injEq] at h; exact ⟨rfl, h⟩
  | fail => simp [hr] at h
  | thr x => simp [hr] at h

theorem absO_fail_inv {r : Ret} (h : absO r = some .fail) : r.res = .fail := by
  unfold absO at h
  cases hr : r.res with
  | ok => simp [hr] at h
  | fail => rfl
  | thr x => simp [hr] at h

theorem absO_err_inv {r : Ret} {b : Blame} (h : absO r = some (.err b)) : ∃ x, r.res = .thr x ∧ blameOf x = some b := by
  unfold absO at h
  cases hr : r.res with
  | ok => simp [hr] at h
  | fail => simp [hr] at h
  | thr x =>
    simp only [hr, Option.map_eq_some_iff] at h
    obtain ⟨b', hb, hbb⟩ := h
    cases hbb
    exact ⟨x, rfl, hb⟩

end Pegtl
