/-
  Lemmas/Bounds.lean — the matcher keeps the cursor inside the input window: if the cursor
  offset is at most the end offset before an invocation, it is so afterwards, whatever the
  result (ok, fail, exception).

  The frame invariant `Weak` of Lemmas/Rewind.lean already carries, next to `endp` (the end is
  untouched), the field `inb : st.cur.pos ≤ st.endp → r.st.cur.pos ≤ st.endp`, and it is closed
  under all 25 kinds (`body_good`) and under the match.hpp protocol (`nodeCall_good`).  So the
  bounds statements are projections of that closure proof (`Weak.inB`); only `rematchAll`, whose
  sub-invocations restart at `saved` and which therefore has no `Weak` lemma, needs its own
  induction.
-/
import PegtlVerif.Model.Run
import PegtlVerif.Lemmas.Input
import PegtlVerif.Lemmas.Rewind

namespace Pegtl

/-- The cursor is inside the window. -/
def InB (st : St) : Prop := st.cur.pos ≤ st.endp

def InBRec (rec : Rec) : Prop := ∀ j a m env st r, rec j a m env st = some r → InB st → InB r.st

/-- A weakly framed invocation that starts in bounds ends in bounds. -/
theorem Weak.inB {st : St} {r : Ret} (w : Weak st r) (hin : InB st) : InB r.st := by
  unfold InB at *
  rw [w.endp]
  exact w.inb hin

/-- Every good `rec` keeps the cursor in bounds. -/
theorem GoodRec.inBRec {rec : Rec} (hg : GoodRec rec) : InBRec rec :=
  fun j a m env st r h hin => (hg j a m env st r h).toWeak.inB hin

theorem atomStep_inb (cx : Ctx) (a : Atom) (st : St) (h : InB st) : InB (atomStep cx a st).2 := by
  have f := atomStep_frame cx a st
  unfold InB at *
  rw [f.endp]
  exact f.inb h

theorem bump_inb (cx : Ctx) (st : St) (h : InB st) (hne : st.empty = false) : InB (bump cx st 1) := by
  unfold InB at *
  have hne' : st.cur.pos ≠ st.endp := by simpa [St.empty] using hne
  simp only [bump_pos, bump_endp]
  omega

theorem guardRestore_inb {g : RMode} {st : St} {r : Ret} (hin : InB st) (he : r.st.endp = st.endp)
    (hr : InB r.st) : InB (guardRestore g st.cur r).st := by
  unfold guardRestore
  split
  · unfold InB at *; simp only; rw [he]; exact hin
  · exact hr

theorem alwaysRestore_inb {st : St} {r : Ret} (hin : InB st) (he : r.st.endp = st.endp) :
    InB (alwaysRestore st.cur r).st := by
  unfold alwaysRestore InB at *; simp only; rw [he]; exact hin

section helpers
variable {rec : Rec} (hg : GoodRec rec) (hb : InBRec rec)

include hg in
theorem seqAll_inb (a : AMode) (m : RMode) (env : Env) (cs : List Nat) (st : St) (r : Ret)
    (h : seqAll rec a m env cs st = some r) (hin : InB st) : InB r.st :=
  (seqAll_weak hg a m env cs st r h).inB hin

include hg in
theorem sorAny_inb (a : AMode) (m : RMode) (env : Env) (cs : List Nat) (st : St) (r : Ret)
    (h : sorAny rec a m env cs st = some r) (hin : InB st) : InB r.st :=
  (sorAny_good hg a m env cs st r h).toWeak.inB hin

include hg in
theorem loopStar_inb (a : AMode) (env : Env) (cs : List Nat) (k : Nat) (st : St) (r : Ret)
    (h : loopStar rec a env cs k st = some r) (hin : InB st) : InB r.st :=
  (loopStar_weak hg a env cs k st r h).1.inB hin

include hg in
theorem loopUntil1_inb (cx : Ctx) (a : AMode) (env : Env) (cond : Nat) (k : Nat) (st : St) (r : Ret)
    (h : loopUntil1 cx rec a env cond k st = some r) (hin : InB st) : InB r.st :=
  (loopUntil1_weak hg cx a env cond k st r h).inB hin

include hg in
theorem loopUntil2_inb (a : AMode) (env : Env) (cond b : Nat) (k : Nat) (st : St) (r : Ret)
    (h : loopUntil2 rec a env cond b k st = some r) (hin : InB st) : InB r.st :=
  (loopUntil2_weak hg a env cond b k st r h).inB hin

include hg in
theorem repN_inb (a : AMode) (m : RMode) (env : Env) (c : Nat) (k : Nat) (st : St) (r : Ret)
    (h : repN rec a m env c k st = some r) (hin : InB st) : InB r.st :=
  (repN_weak hg a m env c k st r h).inB hin

include hg in
theorem repUpTo_inb (a : AMode) (env : Env) (c : Nat) (k : Nat) (st : St) (r : Ret) (full : Bool)
    (h : repUpTo rec a env c k st = some (r, full)) (hin : InB st) : InB r.st :=
  (repUpTo_weak hg a env c k st r full h).1.inB hin

include hg in
theorem loopStarStrict_inb (a : AMode) (env : Env) (c rest : Nat) (k : Nat) (st : St) (r : Ret)
    (h : loopStarStrict rec a env c rest k st = some r) (hin : InB st) : InB r.st :=
  (loopStarStrict_weak hg a env c rest k st r h).inB hin

include hg hb in
/-- `rematch`'s fold: every inner rule restarts at `saved`; as long as `saved` is inside the
    (lowered) window, the fold ends in bounds and leaves the end and the depth counter alone. -/
theorem rematchAll_inb (a : AMode) (env : Env) (saved : Cursor) :
    ∀ (cs : List Nat) (st : St) (r : Ret), rematchAll rec a env saved cs st = some r →
      saved.pos ≤ st.endp → InB st → InB r.st ∧ r.st.endp = st.endp ∧ r.st.depth = st.depth := by
  intro cs
  induction cs with
  | nil =>
    intro st r h _ hin
    simp only [rematchAll, Option.some.injEq] at h
    subst h
    exact ⟨hin, rfl, rfl⟩
  | cons c cs ih =>
    intro st r h hs hin
    simp only [rematchAll] at h
    split at h
    · exact absurd h (by simp)
    · rename_i r1 h1
      have w1 := (hg _ _ _ _ _ _ h1).toWeak
      have hin0 : InB { st with cur := saved } := hs
      have i1 : InB r1.st := hb _ _ _ _ _ _ h1 hin0
      have e1 : r1.st.endp = st.endp := w1.endp
      have d1 : r1.st.depth = st.depth := w1.depth
      split at h
      · split at h
        · exact absurd h (by simp)
        · rename_i r2 h2
          simp only [Option.some.injEq] at h
          subst h
          have ⟨i2, e2, d2⟩ := ih _ _ h2 (by rw [e1]; exact hs) i1
          exact ⟨i2, by simp only [prepend_st]; rw [e2, e1], by simp only [prepend_st]; rw [d2, d1]⟩
      · simp only [Option.some.injEq] at h
        subst h
        exact ⟨i1, e1, d1⟩

end helpers

theorem body_inb {rec : Rec} (hg : GoodRec rec) (hb : InBRec rec) (cx : Ctx) (k : Nat) (kind : Kind) (a : AMode) (m : RMode)
    (env : Env) (st : St) (r : Ret) (h : body cx rec k kind a m env st = some r) (hin : InB st) : InB r.st :=
  have _ := hb
  (body_good hg cx k kind a m env st r h).toWeak.inB hin

theorem nodeCall_inb {rec : Rec} (hg : GoodRec rec) (hb : InBRec rec) (cx : Ctx) (k i : Nat) (a : AMode) (m : RMode)
    (env : Env) (st : St) (r : Ret) (h : nodeCall cx rec k i a m env st = some r) (hin : InB st) : InB r.st :=
  have _ := hb
  (nodeCall_good hg cx k i a m env st r h).toWeak.inB hin

theorem run_inb (cx : Ctx) : ∀ n, InBRec (run cx n) := by
  intro n
  induction n with
  | zero => intro j a m env st r h; simp [run] at h
  | succ n ih =>
    intro j a m env st r h hin
    simp only [run] at h
    exact nodeCall_inb (run_good cx n) ih cx n j a m env st r h hin

end Pegtl
