/-
  Lemmas/JsonLex.lean — token lemmas for the lexical rules of `Expected.json` (json.hpp): for each
  of `ws`, `digits`, `int_`, `frac`, `exp`, `number`, the three literals, `xdigit`, `unicode`,
  `escaped`, `unescaped`, `char_`, `string_content`, `string`/`key`

    * `…_inv`       (soundness)     a successful PEG match consumed a string of the RFC 8259 rule,
    * `…_complete`  (completeness)  a string of the RFC rule, followed by input that cannot extend
                                    the token, is matched exactly,
    * `…_fail`      the rule fails on input whose first byte cannot start the token (this is what
                    makes ordered choice and greedy repetition harmless: the grammar is LL(1)-shaped).

  Everything is stated on the list formulation `SemL` (Lemmas/JsonSemL.lean).
-/
import PegtlVerif.Lemmas.JsonTable
import PegtlVerif.Spec.Rfc8259

namespace Pegtl.Json
open Pegtl Pegtl.Spec Pegtl.Rfc8259

/-- `L e r o`: the expression `e` of the JSON grammar, on remaining input `r`, has outcome `o`. -/
scoped notation "L" => SemL G

/-- Byte-level goals: unfold the byte predicates, move to `Nat`, decide by `omega`. -/
macro "u8" : tactic =>
  `(tactic| (simp only [IsWs, IsDigit, IsDigit19, IsHexDig, IsSimpleEscape, UInt8.le_iff_toNat_le,
      UInt8.lt_iff_toNat_lt, ne_eq, ← UInt8.toNat_inj] at * <;> (try simp at *) <;> omega))

/-- The remaining input starts with a byte of the class `S`. -/
def HeadIn (S : UInt8 → Prop) (r : Str) : Prop := ∃ c t, r = c :: t ∧ S c

theorem not_headIn_nil {S : UInt8 → Prop} : ¬ HeadIn S [] := by rintro ⟨_, _, h, _⟩; cases h

theorem headIn_cons {S : UInt8 → Prop} {c : UInt8} {t : Str} : HeadIn S (c :: t) ↔ S c := by
  constructor
  · rintro ⟨_, _, h, hs⟩; cases h; exact hs
  · intro h; exact ⟨c, t, rfl, h⟩

theorem HeadIn.mono {S S' : UInt8 → Prop} {r : Str} (h : ∀ c, S c → S' c) : HeadIn S r → HeadIn S' r := by
  rintro ⟨c, t, rfl, hs⟩; exact ⟨c, t, rfl, h c hs⟩

theorem headIn_append_of_ne {S : UInt8 → Prop} {a b : Str} (ha : a ≠ []) : HeadIn S (a ++ b) ↔ HeadIn S a := by
  cases a with
  | nil => exact absurd rfl ha
  | cons c t => simp only [List.cons_append, headIn_cons]

/-! ### Single-byte classes -/

/-- The atom accepts exactly one byte of the class `S`. -/
structure ByteClass (a : Atom) (S : UInt8 → Prop) : Prop where
  lo : a.listOnly = true
  ok : ∀ c t, S c → atomL a (c :: t) = some t
  no : ∀ c t, ¬ S c → atomL a (c :: t) = none
  nil : atomL a [] = none

theorem byteClass_one (cs : List UInt8) : ByteClass (.one true cs) (fun c => c ∈ cs) :=
  ⟨rfl, fun c t h => by simp [atomL, h], fun c t h => by simp [atomL, h], rfl⟩

theorem byteClass_range (lo hi : UInt8) : ByteClass (.range true lo hi) (fun c => lo ≤ c ∧ c ≤ hi) :=
  ⟨rfl, fun c t h => by simp [atomL, h], fun c t h => by simp only [atomL]; rw [if_neg]; simpa using h, rfl⟩

theorem byteClass_ranges (rs : List (UInt8 × UInt8)) :
    ByteClass (.ranges rs none) (fun c => ∃ x ∈ rs, x.1 ≤ c ∧ c ≤ x.2) := by
  refine ⟨rfl, fun c t h => ?_, fun c t h => ?_, rfl⟩
  · obtain ⟨x, hx, h1, h2⟩ := h
    have : rs.any (fun x => decide (x.1 ≤ c) && decide (c ≤ x.2)) = true :=
      List.any_eq_true.mpr ⟨x, hx, by simp [h1, h2]⟩
    simp [atomL, this]
  · have : ¬ rs.any (fun x => decide (x.1 ≤ c) && decide (c ≤ x.2)) = true := by
      intro ha
      obtain ⟨x, hx, hb⟩ := List.any_eq_true.mp ha
      simp only [Bool.and_eq_true, decide_eq_true_eq] at hb
      exact h ⟨x, hx, hb⟩
    simp only [atomL]
    rw [if_neg]
    simpa using this

theorem ByteClass.congr {a : Atom} {S S' : UInt8 → Prop} (hc : ByteClass a S) (h : ∀ c, S c ↔ S' c) :
    ByteClass a S' :=
  ⟨hc.lo, fun c t hs => hc.ok c t ((h c).mpr hs), fun c t hs => hc.no c t (fun x => hs ((h c).mp x)), hc.nil⟩

section Cls
variable {i : Nat} {a : Atom} {S : UInt8 → Prop}

theorem cls_ok (hg : G i = some (.atom a)) (hc : ByteClass a S) {c : UInt8} {t : Str} (h : S c) :
    L (.ref i) (c :: t) (.ok t) := .ref hg (.atomOk hc.lo (hc.ok c t h))

theorem cls_fail (hg : G i = some (.atom a)) (hc : ByteClass a S) {r : Str} (h : ¬ HeadIn S r) :
    L (.ref i) r .fail := by
  refine .ref hg (.atomFail hc.lo ?_)
  cases r with
  | nil => exact hc.nil
  | cons c t => exact hc.no c t (fun hs => h (headIn_cons.mpr hs))

theorem cls_inv (hg : G i = some (.atom a)) (hc : ByteClass a S) {r r' : Str} (h : L (.ref i) r (.ok r')) :
    ∃ c, S c ∧ r = c :: r' := by
  rw [SemL.ref_iff hg, SemL.atom_ok_iff hc.lo] at h
  cases r with
  | nil => rw [hc.nil] at h; cases h
  | cons c t =>
    by_cases hs : S c
    · rw [hc.ok c t hs] at h; cases h; exact ⟨c, hs, rfl⟩
    · rw [hc.no c t hs] at h; cases h

theorem cls_fail_inv (hg : G i = some (.atom a)) (hc : ByteClass a S) {r : Str} (h : L (.ref i) r .fail) :
    ¬ HeadIn S r := by
  rw [SemL.ref_iff hg, SemL.atom_fail_iff hc.lo] at h
  rintro ⟨c, t, rfl, hs⟩
  rw [hc.ok c t hs] at h; cases h

/-- `star< C >` over a byte class consumes exactly a maximal run of the class. -/
theorem starCls_complete (hg : G i = some (.atom a)) (hc : ByteClass a S) :
    ∀ (w rem : Str), (∀ c ∈ w, S c) → ¬ HeadIn S rem → L (.star (.ref i)) (w ++ rem) (.ok rem)
  | [], _, _, hr => .starDone (cls_fail hg hc hr)
  | c :: w, rem, hw, hr =>
    .starStep (cls_ok hg hc (hw c (by simp)))
      (starCls_complete hg hc w rem (fun c' hc' => hw c' (by simp [hc'])) hr)

theorem starCls_inv (hg : G i = some (.atom a)) (hc : ByteClass a S) {r r' : Str}
    (h : L (.star (.ref i)) r (.ok r')) : ∃ w, r = w ++ r' ∧ (∀ c ∈ w, S c) ∧ ¬ HeadIn S r' := by
  refine SemL.star_ind (motive := fun r => ∃ w, r = w ++ r' ∧ (∀ c ∈ w, S c) ∧ ¬ HeadIn S r') h
    (fun hf => ⟨[], rfl, by simp, cls_fail_inv hg hc hf⟩) ?_
  rintro x y hxy ⟨w, hw, hS, hn⟩
  obtain ⟨c, hc', rfl⟩ := cls_inv hg hc hxy
  refine ⟨c :: w, by rw [hw]; rfl, ?_, hn⟩
  intro d hd
  rcases List.mem_cons.mp hd with rfl | hd
  · exact hc'
  · exact hS d hd

/-- `plus< C >` over a byte class. -/
theorem plusCls_complete (hg : G i = some (.atom a)) (hc : ByteClass a S) {w rem : Str} (hne : w ≠ [])
    (hw : ∀ c ∈ w, S c) (hr : ¬ HeadIn S rem) : L (.seq (.ref i) (.star (.ref i))) (w ++ rem) (.ok rem) := by
  cases w with
  | nil => exact absurd rfl hne
  | cons c w =>
    exact .seqOk (cls_ok hg hc (hw c (by simp)))
      (starCls_complete hg hc w rem (fun c' hc' => hw c' (by simp [hc'])) hr)

theorem plusCls_inv (hg : G i = some (.atom a)) (hc : ByteClass a S) {r r' : Str}
    (h : L (.seq (.ref i) (.star (.ref i))) r (.ok r')) :
    ∃ w, r = w ++ r' ∧ w ≠ [] ∧ (∀ c ∈ w, S c) ∧ ¬ HeadIn S r' := by
  rw [SemL.seq_ok_iff] at h
  obtain ⟨m, h1, h2⟩ := h
  obtain ⟨c, hc', rfl⟩ := cls_inv hg hc h1
  obtain ⟨w, rfl, hS, hn⟩ := starCls_inv hg hc h2
  refine ⟨c :: w, rfl, by simp, ?_, hn⟩
  intro d hd
  rcases List.mem_cons.mp hd with rfl | hd
  · exact hc'
  · exact hS d hd

theorem plusCls_fail (hg : G i = some (.atom a)) (hc : ByteClass a S) {r : Str} (h : ¬ HeadIn S r) :
    L (.seq (.ref i) (.star (.ref i))) r .fail := .seqFail (cls_fail hg hc h)

end Cls

/-! ### `opt< R >` (`partial`-based expansion) -/

/-- `expandKind (.partialR [c])`. -/
abbrev optE (c : Nat) : PExp := .alt (.seq (.ref c) (.alt .eps .eps)) .eps

theorem opt_ok {c : Nat} {r r' : Str} (h : L (.ref c) r (.ok r')) : L (optE c) r (.ok r') :=
  .altOk (.seqOk h (.altOk .eps))

theorem opt_skip {c : Nat} {r : Str} (h : L (.ref c) r .fail) : L (optE c) r (.ok r) :=
  .altFail (.seqFail h) .eps

theorem opt_inv {c : Nat} {r r' : Str} (h : L (optE c) r (.ok r')) :
    L (.ref c) r (.ok r') ∨ (r' = r ∧ L (.ref c) r .fail) := by
  rcases SemL.alt_ok_iff.mp h with h1 | ⟨h1, h2⟩
  · obtain ⟨m, ha, hb⟩ := SemL.seq_ok_iff.mp h1
    rcases SemL.alt_ok_iff.mp hb with hb | ⟨hb, _⟩
    · cases SemL.eps_iff.mp hb; exact .inl ha
    · cases SemL.eps_iff.mp hb
  · cases SemL.eps_iff.mp h2
    rcases SemL.seq_fail_iff.mp h1 with h1 | ⟨m, _, hb⟩
    · exact .inr ⟨rfl, h1⟩
    · obtain ⟨hb, _⟩ := SemL.alt_fail_iff.mp hb
      cases SemL.eps_iff.mp hb

/-! ### The byte classes of json.hpp -/

theorem clsWs : ByteClass (.one true [32, 9, 10, 13]) IsWs :=
  (byteClass_one _).congr (fun c => by simp [IsWs])
theorem clsDigit : ByteClass (.range true 48 57) IsDigit := (byteClass_range _ _).congr (fun _ => Iff.rfl)
theorem clsXdigit : ByteClass (.ranges [(48, 57), (97, 102), (65, 70)] none) IsHexDig :=
  (byteClass_ranges _).congr (fun c => by
    simp only [IsHexDig, IsDigit, List.mem_cons, List.not_mem_nil, or_false, exists_eq_or_imp, exists_eq_left]
    constructor
    · rintro (h | h | h)
      · exact .inl h
      · exact .inr (.inr h)
      · exact .inr (.inl h)
    · rintro (h | h | h)
      · exact .inl h
      · exact .inr (.inr h)
      · exact .inr (.inl h))
theorem clsByte (b : UInt8) : ByteClass (.one true [b]) (fun c => c = b) :=
  (byteClass_one _).congr (fun c => by simp)
theorem clsE : ByteClass (.one true [101, 69]) (fun c => c = 0x65 ∨ c = 0x45) :=
  (byteClass_one _).congr (fun c => by simp)
theorem clsSign : ByteClass (.one true [45, 43]) (fun c => c = 0x2D ∨ c = 0x2B) :=
  (byteClass_one _).congr (fun c => by simp)
theorem clsEscapedChar : ByteClass (.one true [34, 92, 47, 98, 102, 110, 114, 116]) IsSimpleEscape :=
  (byteClass_one _).congr (fun c => by simp [IsSimpleEscape])

/-! ### `star< ws >` (nodes 38 and 40 are both `star (ref ws)`) -/

theorem wsStar_complete {w rem : Str} (hw : Ws w) (hr : ¬ HeadIn IsWs rem) :
    L (.star (.ref 0)) (w ++ rem) (.ok rem) := starCls_complete g0 clsWs w rem hw hr

theorem wsStar_inv {r r' : Str} (h : L (.star (.ref 0)) r (.ok r')) :
    ∃ w, r = w ++ r' ∧ Ws w ∧ ¬ HeadIn IsWs r' := starCls_inv g0 clsWs h

/-! ### Numbers -/

theorem digits_complete {ds rem : Str} (hd : Digits1 ds) (hr : ¬ HeadIn IsDigit rem) :
    L (.ref 10) (ds ++ rem) (.ok rem) := .ref g10 (plusCls_complete g43 clsDigit hd.1 hd.2 hr)

theorem digits_inv {r r' : Str} (h : L (.ref 10) r (.ok r')) :
    ∃ ds, r = ds ++ r' ∧ Digits1 ds ∧ ¬ HeadIn IsDigit r' := by
  rw [SemL.ref_iff g10] at h
  obtain ⟨w, hw, hne, hS, hn⟩ := plusCls_inv g43 clsDigit h
  exact ⟨w, hw, ⟨hne, hS⟩, hn⟩

theorem digits_fail {r : Str} (h : ¬ HeadIn IsDigit r) : L (.ref 10) r .fail :=
  .ref g10 (plusCls_fail g43 clsDigit h)

/-- `int_ = sor< one< '0' >, plus< digit > >`. -/
theorem int_complete {i rem : Str} (hi : Int i) (hr : ¬ HeadIn IsDigit rem) : L (.ref 13) (i ++ rem) (.ok rem) := by
  rcases hi with rfl | ⟨d, ds, rfl, hd, hds⟩
  · exact .ref g13 (.altOk (cls_ok g48 (clsByte 48) rfl))
  · refine .ref g13 (.altFail (cls_fail g48 (clsByte 48) ?_) (.altOk (.ref g49 ?_)))
    · rw [List.cons_append, headIn_cons]; intro h; subst h; exact absurd hd.1 (by decide)
    · refine plusCls_complete g43 clsDigit (by simp) ?_ hr
      intro c hc
      rcases List.mem_cons.mp hc with rfl | hc
      · exact ⟨by unfold IsDigit19 at hd; u8, hd.2⟩
      · exact hds c hc

theorem int_inv {r r' : Str} (h : L (.ref 13) r (.ok r')) : ∃ i, r = i ++ r' ∧ Int i := by
  rw [SemL.ref_iff g13] at h
  rcases SemL.alt_ok_iff.mp h with h | ⟨hz, h⟩
  · obtain ⟨c, rfl, rfl⟩ := cls_inv g48 (clsByte 48) h
    exact ⟨[0x30], rfl, .inl rfl⟩
  · rcases SemL.alt_ok_iff.mp h with h | ⟨_, h⟩
    · rw [SemL.ref_iff g49] at h
      obtain ⟨w, rfl, hne, hS, _⟩ := plusCls_inv g43 clsDigit h
      cases w with
      | nil => exact absurd rfl hne
      | cons d ds =>
        have hnz := cls_fail_inv g48 (clsByte 48) hz
        rw [List.cons_append, headIn_cons] at hnz
        have hd := hS d (by simp)
        refine ⟨d :: ds, rfl, .inr ⟨d, ds, rfl, ?_, fun c hc => hS c (by simp [hc])⟩⟩
        unfold IsDigit19; unfold IsDigit at hd
        exact ⟨by u8, hd.2⟩
    · cases SemL.failE_iff.mp h

theorem int_fail {r : Str} (h : ¬ HeadIn IsDigit r) : L (.ref 13) r .fail := by
  refine .ref g13 (.altFail (cls_fail g48 (clsByte 48) ?_) (.altFail (.ref g49 (plusCls_fail g43 clsDigit h)) .failE))
  intro hh; exact h (hh.mono (fun c hc => by subst hc; exact ⟨by decide, by decide⟩))

/-- `frac = seq< one< '.' >, digits >`. -/
theorem frac_complete {f rem : Str} (hf : Frac f) (hr : ¬ HeadIn IsDigit rem) : L (.ref 12) (f ++ rem) (.ok rem) := by
  obtain ⟨ds, rfl, hd⟩ := hf
  exact .ref g12 (.seqOk (cls_ok g47 (clsByte 46) rfl) (.seqOk (digits_complete hd hr) .eps))

theorem frac_inv {r r' : Str} (h : L (.ref 12) r (.ok r')) : ∃ f, r = f ++ r' ∧ Frac f ∧ ¬ HeadIn IsDigit r' := by
  rw [SemL.ref_iff g12] at h
  obtain ⟨m, h1, h2⟩ := SemL.seq_ok_iff.mp h
  obtain ⟨m2, h2, h3⟩ := SemL.seq_ok_iff.mp h2
  cases SemL.eps_iff.mp h3
  obtain ⟨c, rfl, rfl⟩ := cls_inv g47 (clsByte 46) h1
  obtain ⟨ds, rfl, hd, hn⟩ := digits_inv h2
  exact ⟨0x2E :: ds, rfl, ⟨ds, rfl, hd⟩, hn⟩

theorem frac_fail {r : Str} (h : ¬ HeadIn (fun c => c = 0x2E) r) : L (.ref 12) r .fail :=
  .ref g12 (.seqFail (cls_fail g47 (clsByte 46) h))

/-- `exp = seq< one< 'e', 'E' >, opt< one< '-', '+' > >, digits >`. -/
theorem exp_complete {e rem : Str} (he : Exp e) (hr : ¬ HeadIn IsDigit rem) : L (.ref 11) (e ++ rem) (.ok rem) := by
  obtain ⟨c, sg, ds, rfl, hc, hsg, hd⟩ := he
  refine .ref g11 (.seqOk (cls_ok g44 clsE hc) (.seqOk (r' := ds ++ rem) ?_ (.seqOk (digits_complete hd hr) .eps)))
  show SemL G (.ref 45) ((sg ++ ds) ++ rem) _
  rw [List.append_assoc]
  refine .ref g45 ?_
  rcases hsg with rfl | rfl | rfl
  · refine opt_skip (cls_fail g46 clsSign ?_)
    rw [List.nil_append, headIn_append_of_ne hd.1]
    rintro ⟨d, t, rfl, hs⟩
    have := hd.2 d (by simp)
    unfold IsDigit at this
    rcases hs with rfl | rfl
    · exact absurd this.1 (by decide)
    · exact absurd this.1 (by decide)
  · exact opt_ok (cls_ok g46 clsSign (.inl rfl))
  · exact opt_ok (cls_ok g46 clsSign (.inr rfl))

theorem exp_inv {r r' : Str} (h : L (.ref 11) r (.ok r')) : ∃ e, r = e ++ r' ∧ Exp e ∧ ¬ HeadIn IsDigit r' := by
  rw [SemL.ref_iff g11] at h
  obtain ⟨m, h1, h2⟩ := SemL.seq_ok_iff.mp h
  obtain ⟨m2, h2, h3⟩ := SemL.seq_ok_iff.mp h2
  obtain ⟨m3, h3, h4⟩ := SemL.seq_ok_iff.mp h3
  cases SemL.eps_iff.mp h4
  obtain ⟨c, hc, rfl⟩ := cls_inv g44 clsE h1
  obtain ⟨ds, rfl, hd, hn⟩ := digits_inv h3
  rw [SemL.ref_iff g45] at h2
  rcases opt_inv h2 with h2 | ⟨rfl, _⟩
  · obtain ⟨s, hs, rfl⟩ := cls_inv g46 clsSign h2
    refine ⟨c :: ([s] ++ ds), rfl, ⟨c, [s], ds, rfl, hc, .inr ?_, hd⟩, hn⟩
    rcases hs with rfl | rfl
    · exact .inl rfl
    · exact .inr rfl
  · exact ⟨c :: ([] ++ ds), rfl, ⟨c, [], ds, rfl, hc, .inl rfl, hd⟩, hn⟩

theorem exp_fail {r : Str} (h : ¬ HeadIn (fun c => c = 0x65 ∨ c = 0x45) r) : L (.ref 11) r .fail :=
  .ref g11 (.seqFail (cls_fail g44 clsE h))

/-- Bytes that could extend a number token: a digit, `.`, `e`, `E`. -/
def NumExt (c : UInt8) : Prop := IsDigit c ∨ c = 0x2E ∨ c = 0x65 ∨ c = 0x45

theorem not_numExt_digit {r : Str} (h : ¬ HeadIn NumExt r) : ¬ HeadIn IsDigit r :=
  fun hh => h (hh.mono fun _ hc => .inl hc)

/-- `[ frac ]` then `[ exp ]`, from the right: the optional exponent. -/
theorem optExp_complete {e rem : Str} (he : Opt Exp e) (hr : ¬ HeadIn NumExt rem) :
    L (.ref 53) (e ++ rem) (.ok rem) := by
  refine .ref g53 ?_
  rcases he with rfl | he
  · exact opt_skip (exp_fail (fun hh => hr (hh.mono fun _ hc => .inr (.inr hc))))
  · exact opt_ok (exp_complete he (not_numExt_digit hr))

theorem exp_head {e : Str} (he : Exp e) : HeadIn (fun c => c = 0x65 ∨ c = 0x45) e := by
  obtain ⟨c, sg, ds, rfl, hc, _⟩ := he; exact ⟨c, _, rfl, hc⟩

theorem frac_head {f : Str} (hf : Frac f) : HeadIn (fun c => c = 0x2E) f := by
  obtain ⟨ds, rfl, _⟩ := hf; exact ⟨_, _, rfl, rfl⟩

theorem exp_ne_nil {e : Str} (he : Exp e) : e ≠ [] := by
  obtain ⟨c, sg, ds, rfl, _⟩ := he; simp

theorem frac_ne_nil {f : Str} (hf : Frac f) : f ≠ [] := by
  obtain ⟨ds, rfl, _⟩ := hf; simp

/-- After the integer or fraction digits: what follows (`[exp]` then the follow input) does not
    start with a digit. -/
theorem optExp_no_digit {e rem : Str} (he : Opt Exp e) (hr : ¬ HeadIn NumExt rem) : ¬ HeadIn IsDigit (e ++ rem) := by
  rcases he with rfl | he
  · exact not_numExt_digit hr
  · rw [headIn_append_of_ne (exp_ne_nil he)]
    intro hh
    obtain ⟨c, t, rfl, hc⟩ := exp_head he
    rw [headIn_cons] at hh
    unfold IsDigit at hh
    rcases hc with rfl | rfl
    · exact absurd hh.2 (by decide)
    · exact absurd hh.2 (by decide)

theorem optExp_no_dot {e rem : Str} (he : Opt Exp e) (hr : ¬ HeadIn NumExt rem) :
    ¬ HeadIn (fun c => c = 0x2E) (e ++ rem) := by
  rcases he with rfl | he
  · exact fun hh => hr (hh.mono fun _ hc => .inr (.inl hc))
  · rw [headIn_append_of_ne (exp_ne_nil he)]
    intro hh
    obtain ⟨c, t, rfl, hc⟩ := exp_head he
    rw [headIn_cons] at hh
    subst hh
    rcases hc with hc | hc <;> exact absurd hc (by decide)

theorem optFrac_complete {f e rem : Str} (hf : Opt Frac f) (he : Opt Exp e) (hr : ¬ HeadIn NumExt rem) :
    L (.ref 52) (f ++ (e ++ rem)) (.ok (e ++ rem)) := by
  refine .ref g52 ?_
  rcases hf with rfl | hf
  · rw [List.nil_append]; exact opt_skip (frac_fail (optExp_no_dot he hr))
  · exact opt_ok (frac_complete hf (optExp_no_digit he hr))

theorem optFrac_no_digit {f e rem : Str} (hf : Opt Frac f) (he : Opt Exp e) (hr : ¬ HeadIn NumExt rem) :
    ¬ HeadIn IsDigit (f ++ (e ++ rem)) := by
  rcases hf with rfl | hf
  · rw [List.nil_append]; exact optExp_no_digit he hr
  · rw [headIn_append_of_ne (frac_ne_nil hf)]
    intro hh
    obtain ⟨c, t, rfl, hc⟩ := frac_head hf
    rw [headIn_cons] at hh
    subst hc
    exact absurd hh.1 (by decide)

/-- `number = seq< opt< one< '-' > >, int_, opt< frac >, opt< exp > >`: a number of RFC 8259
    followed by input that cannot extend it is matched exactly. -/
theorem number_complete {n rem : Str} (hn : Number n) (hr : ¬ HeadIn NumExt rem) :
    L (.ref 14) (n ++ rem) (.ok rem) := by
  obtain ⟨m, i, f, e, rfl, hm, hi, hf, he⟩ := hn
  have hint : L (.ref 13) (i ++ (f ++ (e ++ rem))) (.ok (f ++ (e ++ rem))) :=
    int_complete hi (optFrac_no_digit hf he hr)
  have hrest : L (.seq (.ref 13) (.seq (.ref 52) (.seq (.ref 53) .eps))) (i ++ (f ++ (e ++ rem))) (.ok rem) :=
    .seqOk hint (.seqOk (optFrac_complete hf he hr) (.seqOk (optExp_complete he hr) .eps))
  simp only [List.append_assoc]
  refine .ref g14 (.seqOk (r' := i ++ (f ++ (e ++ rem))) (.ref g50 ?_) hrest)
  rcases hm with rfl | rfl
  · refine opt_skip (cls_fail g51 (clsByte 45) ?_)
    rw [List.nil_append]
    rcases hi with rfl | ⟨d, ds, rfl, hd, _⟩
    · rw [List.cons_append, headIn_cons]; decide
    · rw [List.cons_append, headIn_cons]; intro h; subst h; exact absurd hd.1 (by decide)
  · exact opt_ok (cls_ok g51 (clsByte 45) rfl)

theorem number_inv {r r' : Str} (h : L (.ref 14) r (.ok r')) : ∃ n, r = n ++ r' ∧ Number n := by
  rw [SemL.ref_iff g14] at h
  obtain ⟨m1, h1, h⟩ := SemL.seq_ok_iff.mp h
  obtain ⟨m2, h2, h⟩ := SemL.seq_ok_iff.mp h
  obtain ⟨m3, h3, h⟩ := SemL.seq_ok_iff.mp h
  obtain ⟨m4, h4, h5⟩ := SemL.seq_ok_iff.mp h
  cases SemL.eps_iff.mp h5
  rw [SemL.ref_iff g50] at h1
  rw [SemL.ref_iff g52] at h3
  rw [SemL.ref_iff g53] at h4
  obtain ⟨i, rfl, hi⟩ := int_inv h2
  have hm : ∃ m, r = m ++ (i ++ m2) ∧ Opt Minus m := by
    rcases opt_inv h1 with h1 | ⟨rfl, _⟩
    · obtain ⟨c, rfl, rfl⟩ := cls_inv g51 (clsByte 45) h1
      exact ⟨[0x2D], rfl, .inr rfl⟩
    · exact ⟨[], rfl, .inl rfl⟩
  have hf : ∃ f, m2 = f ++ m3 ∧ Opt Frac f := by
    rcases opt_inv h3 with h3 | ⟨rfl, _⟩
    · obtain ⟨f, rfl, hf, _⟩ := frac_inv h3
      exact ⟨f, rfl, .inr hf⟩
    · exact ⟨[], rfl, .inl rfl⟩
  have he : ∃ e, m3 = e ++ r' ∧ Opt Exp e := by
    rcases opt_inv h4 with h4 | ⟨rfl, _⟩
    · obtain ⟨e, rfl, he, _⟩ := exp_inv h4
      exact ⟨e, rfl, .inr he⟩
    · exact ⟨[], rfl, .inl rfl⟩
  obtain ⟨m, rfl, hm⟩ := hm
  obtain ⟨f, rfl, hf⟩ := hf
  obtain ⟨e, rfl, he⟩ := he
  exact ⟨m ++ (i ++ (f ++ e)), by simp only [List.append_assoc], ⟨m, i, f, e, rfl, hm, hi, hf, he⟩⟩

/-- A number starts with `-` or a digit. -/
theorem number_fail {r : Str} (h : ¬ HeadIn (fun c => IsDigit c ∨ c = 0x2D) r) : L (.ref 14) r .fail := by
  refine .ref g14 (.seqOk (.ref g50 (opt_skip (cls_fail g51 (clsByte 45) ?_))) (.seqFail (int_fail ?_)))
  · exact fun hh => h (hh.mono fun _ hc => .inr hc)
  · exact fun hh => h (hh.mono fun _ hc => .inl hc)

theorem number_head {n : Str} (hn : Number n) : HeadIn (fun c => IsDigit c ∨ c = 0x2D) n := by
  obtain ⟨m, i, f, e, rfl, hm, hi, _, _⟩ := hn
  rcases hm with rfl | rfl
  · rcases hi with rfl | ⟨d, ds, rfl, hd, _⟩
    · exact ⟨0x30, _, rfl, .inl ⟨by decide, by decide⟩⟩
    · exact ⟨d, _, rfl, .inl ⟨by unfold IsDigit19 at hd; u8, hd.2⟩⟩
  · exact ⟨0x2D, _, rfl, .inr rfl⟩

end Pegtl.Json
