/-
  Lemmas/Twin.lean — the depth guard changes nothing until it fires (C18, "inputs needing at most
  that depth parse as without the guard").

  Three readings of `limit_depth< N >::match` that differ only in what happens when the new depth
  exceeds `N`:
    `raise` — the real one (Model/Run.lean `limitDepthCall`): a global failure;
    `stuck` — the run does not continue (no result): a run in this mode returns only if no depth
              limit was ever reached, at any nesting, also inside `try_catch` or predicates;
    `off`   — the check is removed (the depth is still counted, which nothing else can observe).
  Whenever the `stuck` run returns, the guarded (`raise`) run and the unguarded (`off`) run return
  the very same result — trace, surviving actions, cursor, positions.
-/
import PegtlVerif.Lemmas.Fuel

namespace Pegtl

inductive LdMode
  | raise | stuck | off
  deriving DecidableEq, Repr

def limitDepthCallM (mode : LdMode) (cx : Ctx) (core : St → Out) (n : Nat) (st : St) : Out :=
  match mode with
  | .raise => limitDepthCall cx core n st
  | .stuck =>
    if st.depth + 1 > n then none
    else (core { st with depth := st.depth + 1 }).map fun r => { r with st := { r.st with depth := r.st.depth - 1 } }
  | .off => (core { st with depth := st.depth + 1 }).map fun r => { r with st := { r.st with depth := r.st.depth - 1 } }

/-- `nodeCall` with the chosen reading of `limit_depth`; every other rule and action class as in `nodeCall`. -/
def nodeCallM (mode : LdMode) (cx : Ctx) (rec : Rec) (k : Nat) (i : Nat) (a : AMode) (m : RMode) (env : Env) (st : St) : Out :=
  match cx.g[i]? with
  | none => none
  | some nd =>
    match (cx.actOf env i nd).wrap with
    | .limitDepth n => (limitDepthCallM mode cx (nodeCore cx rec k i nd a m env) n st).map (bracket cx i a m env.ctl st)
    | _ => nodeCall cx rec k i a m env st

def runM (mode : LdMode) (cx : Ctx) (fuel : Nat) (i : Nat) (a : AMode) (m : RMode) (env : Env) (st : St) : Out :=
  match fuel with
  | 0 => none
  | n + 1 => nodeCallM mode cx (fun i a m env st => runM mode cx n i a m env st) n i a m env st

theorem nodeCallM_raise (cx : Ctx) (rec : Rec) (k i : Nat) (a : AMode) (m : RMode) (env : Env) (st : St) :
    nodeCallM .raise cx rec k i a m env st = nodeCall cx rec k i a m env st := by
  unfold nodeCallM
  split
  · rename_i hg; simp [nodeCall, hg]
  · rename_i nd hg
    split
    · rename_i n hw
      simp [nodeCall, hg, hw, limitDepthCallM]
    · rfl

/-- The `raise` reading is the model itself. -/
theorem runM_raise (cx : Ctx) : ∀ n i a m env st, runM .raise cx n i a m env st = run cx n i a m env st := by
  intro n
  induction n with
  | zero => intro i a m env st; rfl
  | succ n ih =>
    intro i a m env st
    simp only [runM, run, nodeCallM_raise]
    have : (fun i a m env st => runM .raise cx n i a m env st) = (fun i a m env st => run cx n i a m env st) := by
      funext i a m env st; exact ih i a m env st
    rw [this]

theorem limitDepthCallM_stuck_le (mode : LdMode) {core core' : St → Out} (h : ∀ st r, core st = some r → core' st = some r)
    (cx : Ctx) (n : Nat) (st : St) (r : Ret) (hs : limitDepthCallM .stuck cx core n st = some r) :
    limitDepthCallM mode cx core' n st = some r := by
  simp only [limitDepthCallM] at hs
  split at hs
  · exact absurd hs (by simp)
  · rename_i hc
    simp only [Option.map_eq_some_iff] at hs
    obtain ⟨r0, h0, rfl⟩ := hs
    have h0' := h _ _ h0
    cases mode with
    | raise => simp [limitDepthCallM, limitDepthCall, hc, h0']
    | stuck => simp [limitDepthCallM, hc, h0']
    | off => simp [limitDepthCallM, h0']

theorem nodeCallM_stuck_le (mode : LdMode) {rec rec' : Rec} (h : RecLe rec rec') (cx : Ctx) (k i : Nat) (a : AMode) (m : RMode)
    (env : Env) (st : St) (r : Ret) (hs : nodeCallM .stuck cx rec k i a m env st = some r) :
    nodeCallM mode cx rec' k i a m env st = some r := by
  unfold nodeCallM at hs ⊢
  cases hg : cx.g[i]? with
  | none => simp [hg] at hs
  | some nd =>
    simp only [hg] at hs ⊢
    split at hs
    · rename_i n hw
      simp only [Option.map_eq_some_iff] at hs ⊢
      obtain ⟨r0, h0, rfl⟩ := hs
      exact ⟨r0, limitDepthCallM_stuck_le mode (fun st r hc => nodeCore_mono h cx (Nat.le_refl k) _ _ _ _ _ _ _ hc) cx n st r0 h0, rfl⟩
    · rename_i hw
      exact nodeCall_mono h cx (Nat.le_refl k) i a m env st r hs

/-- A run that never reaches a depth limit is, result for result, the run of every other reading. -/
theorem runM_stuck_le (mode : LdMode) (cx : Ctx) : ∀ n, RecLe (runM .stuck cx n) (runM mode cx n) := by
  intro n
  induction n with
  | zero => intro j a m env st r h; simp [runM] at h
  | succ n ih =>
    intro j a m env st r h
    simp only [runM] at h ⊢
    exact nodeCallM_stuck_le mode ih cx n j a m env st r h

end Pegtl
