/-
  Lemmas/Complete.lean — completeness of the matcher model for the formalism: whenever `Sem` derives an outcome
  for a rule at an offset, the run from any valid state at that offset returns with enough fuel (and then, by
  `run_sem` and determinism, returns exactly that outcome).  No analysis certificate is needed: the derivation
  itself bounds the recursion.

  Method: the derivation is first turned into a terminating evaluation of `semEvalE` (`semEvalE_complete`);
  the evaluator's equations then give, kind by kind, the sub-evaluations that the `match()` body of the kind
  performs, at the offsets where it performs them; induction on the evaluator's fuel.
-/
import PegtlVerif.Lemmas.SemRun
import PegtlVerif.Lemmas.SemEvalComplete
import PegtlVerif.Lemmas.Fuel

namespace Pegtl.Complete
open Pegtl Pegtl.Spec

notation "EV⟦" cx "⟧" => semEvalE (Gof (Ctx.g cx)) (Ctx.eol cx) (Ctx.inp cx)

/-- Induction hypothesis: every rule reference the evaluator resolves with fuel `f` is a terminating run. -/
def Comp (cx : Ctx) (f : Nat) : Prop :=
  ∀ c endp p o, EV⟦cx⟧ f endp (.ref c) p = some o → ∀ st, Valid cx st → st.cur.pos = p → st.endp = endp →
    ∀ a m env, ∃ n r, run cx n c a m env st = some r

section
variable {cx : Ctx} (wf : WFT cx) {f : Nat} (hC : Comp cx f)

theorem agree {e : PExp} {endp p : Nat} {o : Outcome} {r : Ret} (he : EV⟦cx⟧ f endp e p = some o)
    (hs : SemR cx endp e p r) : absO r = some o := by
  obtain ⟨o', ho', s'⟩ := hs
  rw [Sem.det (semEvalE_sound _ _ _ _ _ he) s']; exact ho'

include wf hC

/-- One child call: it returns for all large fuels, with the evaluator's outcome. -/
theorem child {st : St} {c : Nat} {o : Outcome} (hv : Valid cx st)
    (he : EV⟦cx⟧ f st.endp (.ref c) st.cur.pos = some o) (a : AMode) (m : RMode) (env : Env) :
    ∃ n r, (∀ n', n ≤ n' → run cx n' c a m env st = some r) ∧ absO r = some o ∧ Good m st r ∧ Valid cx r.st := by
  obtain ⟨n, r, h⟩ := hC c _ _ o he st hv rfl rfl a m env
  have g := run_good cx n _ _ _ _ _ _ h
  exact ⟨n, r, fun n' hn => run_mono cx n n' hn _ _ _ _ _ _ h, agree he (run_sem cx wf n c a m env st r hv h), g,
    hv.of_weak g.toWeak⟩

theorem seqAll_term (a : AMode) (m : RMode) (env : Env) :
    ∀ (cs : List Nat) (st : St) (o : Outcome), Valid cx st →
      EV⟦cx⟧ f st.endp (seqL (cs.map .ref)) st.cur.pos = some o →
      ∃ n r, ∀ n', n ≤ n' → seqAll (run cx n') a m env cs st = some r := by
  intro cs
  induction cs with
  | nil => intro st o _ _; exact ⟨0, _, fun _ _ => rfl⟩
  | cons c cs ih =>
    intro st o hv he
    simp only [List.map_cons, seqL, semEvalE] at he
    cases h1 : EV⟦cx⟧ f st.endp (.ref c) st.cur.pos with
    | none => rw [h1] at he; exact absurd he (by simp)
    | some o1 =>
      rw [h1] at he
      obtain ⟨n1, r1, hr1, ha1, g1, hv1⟩ := child wf hC hv h1 a m env
      cases o1 with
      | ok q =>
        obtain ⟨hok, hq⟩ := absO_ok_inv ha1
        simp only at he
        rw [← hq, ← g1.endp] at he
        obtain ⟨n2, r2, hr2⟩ := ih r1.st o hv1 he
        refine ⟨max n1 n2, r2.prepend r1.raw r1.surv, fun n' hn => ?_⟩
        simp only [seqAll, hr1 n' (by omega), hok, hr2 n' (by omega)]
      | fail =>
        have hf := absO_fail_inv ha1
        refine ⟨n1, r1, fun n' hn => ?_⟩
        simp only [seqAll, hr1 n' hn, hf]
      | err b =>
        obtain ⟨x, hx, _⟩ := absO_err_inv ha1
        refine ⟨n1, r1, fun n' hn => ?_⟩
        simp only [seqAll, hr1 n' hn, hx]

theorem sorAny_term (a : AMode) (env : Env) :
    ∀ (cs : List Nat) (m : RMode) (st : St) (o : Outcome), Valid cx st →
      EV⟦cx⟧ f st.endp (altL (cs.map .ref)) st.cur.pos = some o →
      ∃ n r, ∀ n', n ≤ n' → sorAny (run cx n') a m env cs st = some r := by
  intro cs
  induction cs with
  | nil => intro m st o _ _; exact ⟨0, _, fun _ _ => rfl⟩
  | cons c cs ih =>
    intro m st o hv he
    simp only [List.map_cons, altL, semEvalE] at he
    cases h1 : EV⟦cx⟧ f st.endp (.ref c) st.cur.pos with
    | none => rw [h1] at he; exact absurd he (by simp)
    | some o1 =>
      rw [h1] at he
      cases cs with
      | nil =>
        obtain ⟨n1, r1, hr1, -, -, -⟩ := child wf hC hv h1 a m env
        exact ⟨n1, r1, fun n' hn => by simp only [sorAny]; exact hr1 n' hn⟩
      | cons c' cs' =>
        obtain ⟨n1, r1, hr1, ha1, g1, hv1⟩ := child wf hC hv h1 a .required env
        cases o1 with
        | fail =>
          have hf := absO_fail_inv ha1
          have hc := g1.failCur hf rfl
          simp only at he
          rw [← hc, ← g1.endp] at he
          obtain ⟨n2, r2, hr2⟩ := ih m r1.st o hv1 he
          refine ⟨max n1 n2, r2.prepend r1.raw [], fun n' hn => ?_⟩
          simp only [sorAny, hr1 n' (by omega), hf, hr2 n' (by omega)]
        | ok q =>
          obtain ⟨hok, _⟩ := absO_ok_inv ha1
          exact ⟨n1, r1, fun n' hn => by simp only [sorAny, hr1 n' hn, hok]⟩
        | err b =>
          obtain ⟨x, hx, _⟩ := absO_err_inv ha1
          exact ⟨n1, r1, fun n' hn => by simp only [sorAny, hr1 n' hn, hx]⟩

theorem repN_term (a : AMode) (m : RMode) (env : Env) (c : Nat) :
    ∀ (k : Nat) (st : St) (o : Outcome), Valid cx st →
      EV⟦cx⟧ f st.endp (repE k (.ref c)) st.cur.pos = some o →
      ∃ n r, ∀ n', n ≤ n' → repN (run cx n') a m env c k st = some r := by
  intro k
  induction k with
  | zero => intro st o _ _; exact ⟨0, _, fun _ _ => rfl⟩
  | succ k ih =>
    intro st o hv he
    simp only [repE, semEvalE] at he
    cases h1 : EV⟦cx⟧ f st.endp (.ref c) st.cur.pos with
    | none => rw [h1] at he; exact absurd he (by simp)
    | some o1 =>
      rw [h1] at he
      obtain ⟨n1, r1, hr1, ha1, g1, hv1⟩ := child wf hC hv h1 a m env
      cases o1 with
      | ok q =>
        obtain ⟨hok, hq⟩ := absO_ok_inv ha1
        simp only at he
        rw [← hq, ← g1.endp] at he
        obtain ⟨n2, r2, hr2⟩ := ih r1.st o hv1 he
        refine ⟨max n1 n2, r2.prepend r1.raw r1.surv, fun n' hn => ?_⟩
        simp only [repN, hr1 n' (by omega), hok, hr2 n' (by omega)]
      | fail =>
        have hf := absO_fail_inv ha1
        exact ⟨n1, r1, fun n' hn => by simp only [repN, hr1 n' hn, hf]⟩
      | err b =>
        obtain ⟨x, hx, _⟩ := absO_err_inv ha1
        exact ⟨n1, r1, fun n' hn => by simp only [repN, hr1 n' hn, hx]⟩

theorem repUpTo_term (a : AMode) (env : Env) (c : Nat) :
    ∀ (k : Nat) (st : St) (o : Outcome), Valid cx st →
      EV⟦cx⟧ f st.endp (repOptE k (.ref c)) st.cur.pos = some o →
      ∃ n r, ∀ n', n ≤ n' → repUpTo (run cx n') a env c k st = some r := by
  intro k
  induction k with
  | zero => intro st o _ _; exact ⟨0, _, fun _ _ => rfl⟩
  | succ k ih =>
    intro st o hv he
    simp only [repOptE, semEvalE] at he
    cases h1 : EV⟦cx⟧ f st.endp (.ref c) st.cur.pos with
    | none => rw [h1] at he; exact absurd he (by simp)
    | some o1 =>
      rw [h1] at he
      obtain ⟨n1, r1, hr1, ha1, g1, hv1⟩ := child wf hC hv h1 a .required env
      cases o1 with
      | ok q =>
        obtain ⟨hok, hq⟩ := absO_ok_inv ha1
        simp only at he
        cases h2 : EV⟦cx⟧ f st.endp (repOptE k (.ref c)) q with
        | none => rw [h2] at he; exact absurd he (by simp)
        | some o2 =>
          rw [← hq, ← g1.endp] at h2
          obtain ⟨n2, r2, hr2⟩ := ih r1.st o2 hv1 h2
          refine ⟨max n1 n2, (r2.1.prepend r1.raw r1.surv, r2.2), fun n' hn => ?_⟩
          simp only [repUpTo, hr1 n' (by omega), hok, hr2 n' (by omega)]
      | fail =>
        have hf := absO_fail_inv ha1
        exact ⟨n1, ({ r1 with res := .ok, surv := [] }, false), fun n' hn => by simp only [repUpTo, hr1 n' hn, hf]⟩
      | err b =>
        obtain ⟨x, hx, _⟩ := absO_err_inv ha1
        exact ⟨n1, (r1, false), fun n' hn => by simp only [repUpTo, hr1 n' hn, hx]⟩

theorem loopStar_term (a : AMode) (env : Env) (cs : List Nat) :
    ∀ (fs : Nat), fs ≤ f → ∀ (st : St) (o : Outcome), Valid cx st →
      EV⟦cx⟧ fs st.endp (.star (seqL (cs.map .ref))) st.cur.pos = some o →
      ∃ n r, ∀ n' k, n ≤ n' → n ≤ k → loopStar (run cx n') a env cs k st = some r := by
  intro fs
  induction fs with
  | zero => intro _ st o _ he; simp [semEvalE] at he
  | succ fs ih =>
    intro hfs st o hv he
    simp only [semEvalE] at he
    cases h1 : EV⟦cx⟧ fs st.endp (seqL (cs.map .ref)) st.cur.pos with
    | none => rw [h1] at he; exact absurd he (by simp)
    | some o1 =>
      rw [h1] at he
      have h1f := semEvalE_mono _ _ _ _ _ h1 f (by omega)
      obtain ⟨n1, r1, hr1⟩ := seqAll_term wf hC a .required env cs st o1 hv h1f
      have hr1' := hr1 n1 (Nat.le_refl _)
      have ha1 := agree h1f (seqAll_sem (run_good cx n1) (run_sem cx wf n1) a .required env cs st r1 hv hr1')
      have w1 := seqAll_weak (run_good cx n1) a .required env cs st r1 hr1'
      cases o1 with
      | ok q =>
        obtain ⟨hok, hq⟩ := absO_ok_inv ha1
        simp only at he
        rw [← hq, ← w1.endp] at he
        obtain ⟨n2, r2, hr2⟩ := ih (by omega) r1.st o (hv.of_weak w1) he
        refine ⟨max n1 (n2 + 1), r2.prepend r1.raw r1.surv, fun n' k hn hk => ?_⟩
        obtain ⟨k', rfl⟩ : ∃ k', k = k' + 1 := ⟨k - 1, by omega⟩
        simp only [loopStar, hr1 n' (by omega), hok, hr2 n' k' (by omega) (by omega)]
      | fail =>
        have hf := absO_fail_inv ha1
        refine ⟨max n1 1, { r1 with res := .ok }, fun n' k hn hk => ?_⟩
        obtain ⟨k', rfl⟩ : ∃ k', k = k' + 1 := ⟨k - 1, by omega⟩
        simp only [loopStar, hr1 n' (by omega), hf]
      | err b =>
        obtain ⟨x, hx, _⟩ := absO_err_inv ha1
        refine ⟨max n1 1, r1, fun n' k hn hk => ?_⟩
        obtain ⟨k', rfl⟩ : ∃ k', k = k' + 1 := ⟨k - 1, by omega⟩
        simp only [loopStar, hr1 n' (by omega), hx]

omit wf hC in
theorem ev_seq_eps (G : Nat → Option PExp) (eol : Eol) (inp : Array UInt8) (f endp : Nat) (e : PExp) (p : Nat) :
    semEvalE G eol inp f endp (.seq e .eps) p = semEvalE G eol inp f endp e p := by
  simp only [semEvalE]
  cases semEvalE G eol inp f endp e p with
  | none => rfl
  | some o => cases o <;> rfl

omit wf hC in
theorem ev_star_congr {G : Nat → Option PExp} {eol : Eol} {inp : Array UInt8} {endp : Nat} {e e' : PExp}
    (h : ∀ f p, semEvalE G eol inp f endp e p = semEvalE G eol inp f endp e' p) :
    ∀ f p, semEvalE G eol inp f endp (.star e) p = semEvalE G eol inp f endp (.star e') p := by
  intro f
  induction f with
  | zero => intro p; simp [semEvalE]
  | succ f ih =>
    intro p
    simp only [semEvalE, h]
    cases semEvalE G eol inp f endp e' p with
    | none => rfl
    | some o =>
      cases o with
      | ok q => exact ih q
      | fail => rfl
      | err b => rfl

/-- `star< R >` with a single rule: the loop of `loopStar [c]`. -/
theorem loopStar1_term (a : AMode) (env : Env) (c : Nat) (fs : Nat) (hfs : fs ≤ f) (st : St) (o : Outcome) (hv : Valid cx st)
    (he : EV⟦cx⟧ fs st.endp (.star (.ref c)) st.cur.pos = some o) :
    ∃ n r, ∀ n' k, n ≤ n' → n ≤ k → loopStar (run cx n') a env [c] k st = some r := by
  apply loopStar_term wf hC a env [c] fs hfs st o hv
  rw [← he]
  exact (ev_star_congr (fun f p => (ev_seq_eps _ _ _ f st.endp (.ref c) p).symm) fs st.cur.pos).symm

theorem loopUntil1_term (a : AMode) (env : Env) (c : Nat) :
    ∀ (fs : Nat), fs ≤ f → ∀ (st : St) (o : Outcome), Valid cx st →
      EV⟦cx⟧ fs st.endp (.star (.seq (.not_ (.ref c)) (.atom .any))) st.cur.pos = some o →
      ∃ n r, ∀ n' k, n ≤ n' → n ≤ k → loopUntil1 cx (run cx n') a env c k st = some r := by
  intro fs
  induction fs with
  | zero => intro _ st o _ he; simp [semEvalE] at he
  | succ fs ih =>
    intro hfs st o hv he
    simp only [semEvalE] at he
    cases h1 : EV⟦cx⟧ fs st.endp (.ref c) st.cur.pos with
    | none => rw [h1] at he; exact absurd he (by simp)
    | some o1 =>
      rw [h1] at he
      have h1f := semEvalE_mono _ _ _ _ _ h1 f (by omega)
      obtain ⟨n1, r1, hr1, ha1, g1, hv1⟩ := child wf hC hv h1f a .required env
      cases o1 with
      | ok q =>
        obtain ⟨hok, _⟩ := absO_ok_inv ha1
        refine ⟨max n1 1, r1, fun n' k hn hk => ?_⟩
        obtain ⟨k', rfl⟩ : ∃ k', k = k' + 1 := ⟨k - 1, by omega⟩
        simp only [loopUntil1, hr1 n' (by omega), hok]
      | err b =>
        obtain ⟨x, hx, _⟩ := absO_err_inv ha1
        refine ⟨max n1 1, r1, fun n' k hn hk => ?_⟩
        obtain ⟨k', rfl⟩ : ∃ k', k = k' + 1 := ⟨k - 1, by omega⟩
        simp only [loopUntil1, hr1 n' (by omega), hx]
      | fail =>
        have hf := absO_fail_inv ha1
        have hc := g1.failCur hf rfl
        by_cases hemp : r1.st.empty = true
        · refine ⟨max n1 1, r1, fun n' k hn hk => ?_⟩
          obtain ⟨k', rfl⟩ : ∃ k', k = k' + 1 := ⟨k - 1, by omega⟩
          simp only [loopUntil1, hr1 n' (by omega), hf, hemp, if_true]
        · have hne : r1.st.cur.pos ≠ r1.st.endp := by simpa [St.empty] using hemp
          have hp : st.cur.pos < st.endp := by
            have := hv.le; rw [hc, g1.endp] at hne; omega
          have hvb : Valid cx (bump cx r1.st 1) := by
            refine ⟨?_, by simpa using hv1.sz⟩
            have := hv1.le
            simp only [bump_pos, bump_endp]; omega
          simp only [atomSem, hp, if_true] at he
          have he' : EV⟦cx⟧ fs (bump cx r1.st 1).endp (.star (.seq (.not_ (.ref c)) (.atom .any))) (bump cx r1.st 1).cur.pos = some o := by
            simp only [bump_pos, bump_endp, hc, g1.endp]; exact he
          obtain ⟨n2, r2, hr2⟩ := ih (by omega) _ o hvb he'
          refine ⟨max n1 (n2 + 1), r2.prepend r1.raw [], fun n' k hn hk => ?_⟩
          obtain ⟨k', rfl⟩ : ∃ k', k = k' + 1 := ⟨k - 1, by omega⟩
          simp only [loopUntil1, hr1 n' (by omega), hf, hemp, hr2 n' k' (by omega) (by omega)]
          rfl

theorem loopUntil2_term (a : AMode) (env : Env) (c b : Nat) :
    ∀ (fs : Nat), fs ≤ f → ∀ (st : St) (o : Outcome), Valid cx st →
      EV⟦cx⟧ fs st.endp (.star (.seq (.not_ (.ref c)) (.ref b))) st.cur.pos = some o →
      ∃ n r, ∀ n' k, n ≤ n' → n ≤ k → loopUntil2 (run cx n') a env c b k st = some r := by
  intro fs
  induction fs with
  | zero => intro _ st o _ he; simp [semEvalE] at he
  | succ fs ih =>
    intro hfs st o hv he
    simp only [semEvalE] at he
    cases h1 : EV⟦cx⟧ fs st.endp (.ref c) st.cur.pos with
    | none => rw [h1] at he; exact absurd he (by simp)
    | some o1 =>
      rw [h1] at he
      have h1f := semEvalE_mono _ _ _ _ _ h1 f (by omega)
      obtain ⟨n1, r1, hr1, ha1, g1, hv1⟩ := child wf hC hv h1f a .required env
      cases o1 with
      | ok q =>
        obtain ⟨hok, _⟩ := absO_ok_inv ha1
        refine ⟨max n1 1, r1, fun n' k hn hk => ?_⟩
        obtain ⟨k', rfl⟩ : ∃ k', k = k' + 1 := ⟨k - 1, by omega⟩
        simp only [loopUntil2, hr1 n' (by omega), hok]
      | err b' =>
        obtain ⟨x, hx, _⟩ := absO_err_inv ha1
        refine ⟨max n1 1, r1, fun n' k hn hk => ?_⟩
        obtain ⟨k', rfl⟩ : ∃ k', k = k' + 1 := ⟨k - 1, by omega⟩
        simp only [loopUntil2, hr1 n' (by omega), hx]
      | fail =>
        have hf := absO_fail_inv ha1
        have hc := g1.failCur hf rfl
        simp only at he
        cases h2 : EV⟦cx⟧ fs st.endp (.ref b) st.cur.pos with
        | none => rw [h2] at he; exact absurd he (by simp)
        | some o2 =>
          rw [h2] at he
          have h2f := semEvalE_mono _ _ _ _ _ h2 f (by omega)
          rw [← hc, ← g1.endp] at h2f
          obtain ⟨n2, r2, hr2, ha2, g2, hv2⟩ := child wf hC hv1 h2f a .optional env
          cases o2 with
          | ok q2 =>
            obtain ⟨hok2, hq2⟩ := absO_ok_inv ha2
            simp only at he
            rw [← hq2, ← g1.endp, ← g2.endp] at he
            obtain ⟨n3, r3, hr3⟩ := ih (by omega) r2.st o hv2 he
            refine ⟨max (max n1 n2) (n3 + 1), r3.prepend (r1.raw ++ r2.raw) r2.surv, fun n' k hn hk => ?_⟩
            obtain ⟨k', rfl⟩ : ∃ k', k = k' + 1 := ⟨k - 1, by omega⟩
            simp only [loopUntil2, hr1 n' (by omega), hf, hr2 n' (by omega), hok2, hr3 n' k' (by omega) (by omega)]
          | fail =>
            have hf2 := absO_fail_inv ha2
            refine ⟨max (max n1 n2) 1, r2.prepend r1.raw [], fun n' k hn hk => ?_⟩
            obtain ⟨k', rfl⟩ : ∃ k', k = k' + 1 := ⟨k - 1, by omega⟩
            simp only [loopUntil2, hr1 n' (by omega), hf, hr2 n' (by omega), hf2]
          | err b' =>
            obtain ⟨x, hx, _⟩ := absO_err_inv ha2
            refine ⟨max (max n1 n2) 1, r2.prepend r1.raw [], fun n' k hn hk => ?_⟩
            obtain ⟨k', rfl⟩ : ∃ k', k = k' + 1 := ⟨k - 1, by omega⟩
            simp only [loopUntil2, hr1 n' (by omega), hf, hr2 n' (by omega), hx]

theorem loopStarStrict_term (a : AMode) (env : Env) (c rest : Nat) :
    ∀ (fs : Nat), fs ≤ f → ∀ (st : St) (o : Outcome), Valid cx st →
      EV⟦cx⟧ fs st.endp (.star (.seq (.ref c) (.ref rest))) st.cur.pos = some o →
      ∃ n r, ∀ n' k, n ≤ n' → n ≤ k → loopStarStrict (run cx n') a env c rest k st = some r := by
  intro fs
  induction fs with
  | zero => intro _ st o _ he; simp [semEvalE] at he
  | succ fs ih =>
    intro hfs st o hv he
    simp only [semEvalE] at he
    cases h1 : EV⟦cx⟧ fs st.endp (.ref c) st.cur.pos with
    | none => rw [h1] at he; exact absurd he (by simp)
    | some o1 =>
      rw [h1] at he
      have h1f := semEvalE_mono _ _ _ _ _ h1 f (by omega)
      obtain ⟨n1, r1, hr1, ha1, g1, hv1⟩ := child wf hC hv h1f a .required env
      cases o1 with
      | fail =>
        have hf := absO_fail_inv ha1
        refine ⟨max n1 1, { r1 with res := .ok }, fun n' k hn hk => ?_⟩
        obtain ⟨k', rfl⟩ : ∃ k', k = k' + 1 := ⟨k - 1, by omega⟩
        simp only [loopStarStrict, hr1 n' (by omega), hf]
      | err b' =>
        obtain ⟨x, hx, _⟩ := absO_err_inv ha1
        refine ⟨max n1 1, r1, fun n' k hn hk => ?_⟩
        obtain ⟨k', rfl⟩ : ∃ k', k = k' + 1 := ⟨k - 1, by omega⟩
        simp only [loopStarStrict, hr1 n' (by omega), hx]
      | ok q =>
        obtain ⟨hok, hq⟩ := absO_ok_inv ha1
        simp only at he
        cases h2 : EV⟦cx⟧ fs st.endp (.ref rest) q with
        | none => rw [h2] at he; exact absurd he (by simp)
        | some o2 =>
          rw [h2] at he
          have h2f := semEvalE_mono _ _ _ _ _ h2 f (by omega)
          rw [← hq, ← g1.endp] at h2f
          obtain ⟨n2, r2, hr2, ha2, g2, hv2⟩ := child wf hC hv1 h2f a .optional env
          cases o2 with
          | ok q2 =>
            obtain ⟨hok2, hq2⟩ := absO_ok_inv ha2
            simp only at he
            rw [← hq2, ← g1.endp, ← g2.endp] at he
            obtain ⟨n3, r3, hr3⟩ := ih (by omega) r2.st o hv2 he
            refine ⟨max (max n1 n2) (n3 + 1), r3.prepend (r1.raw ++ r2.raw) (r1.surv ++ r2.surv), fun n' k hn hk => ?_⟩
            obtain ⟨k', rfl⟩ : ∃ k', k = k' + 1 := ⟨k - 1, by omega⟩
            simp only [loopStarStrict, hr1 n' (by omega), hok, hr2 n' (by omega), hok2, hr3 n' k' (by omega) (by omega)]
          | fail =>
            have hf2 := absO_fail_inv ha2
            refine ⟨max (max n1 n2) 1, r2.prepend r1.raw [], fun n' k hn hk => ?_⟩
            obtain ⟨k', rfl⟩ : ∃ k', k = k' + 1 := ⟨k - 1, by omega⟩
            simp only [loopStarStrict, hr1 n' (by omega), hok, hr2 n' (by omega), hf2]
          | err b' =>
            obtain ⟨x, hx, _⟩ := absO_err_inv ha2
            refine ⟨max (max n1 n2) 1, r2.prepend r1.raw [], fun n' k hn hk => ?_⟩
            obtain ⟨k', rfl⟩ : ∃ k', k = k' + 1 := ⟨k - 1, by omega⟩
            simp only [loopStarStrict, hr1 n' (by omega), hok, hr2 n' (by omega), hx]

theorem rematchAll_term (a : AMode) (env : Env) (saved : Cursor) :
    ∀ (rs : List Nat) (st : St) (o : Outcome), Valid cx { st with cur := saved } →
      EV⟦cx⟧ f st.endp (seqL (rs.map fun x => .and_ (.ref x))) saved.pos = some o →
      ∃ n r, ∀ n', n ≤ n' → rematchAll (run cx n') a env saved rs st = some r := by
  intro rs
  induction rs with
  | nil => intro st o _ _; exact ⟨0, _, fun _ _ => rfl⟩
  | cons c rs ih =>
    intro st o hv he
    simp only [List.map_cons, seqL, semEvalE] at he
    cases h1 : EV⟦cx⟧ f st.endp (.ref c) saved.pos with
    | none => rw [h1] at he; exact absurd he (by simp)
    | some o1 =>
      rw [h1] at he
      obtain ⟨n1, r1, hr1, ha1, g1, hv1⟩ := child wf hC (st := { st with cur := saved }) hv h1 a .optional env
      cases o1 with
      | ok q =>
        obtain ⟨hok, hq⟩ := absO_ok_inv ha1
        simp only at he
        have he1 : r1.st.endp = st.endp := g1.endp
        rw [← he1] at he
        have hv1' : Valid cx { r1.st with cur := saved } := ⟨by rw [he1]; exact hv.le, hv1.sz⟩
        obtain ⟨n2, r2, hr2⟩ := ih r1.st o hv1' he
        refine ⟨max n1 n2, r2.prepend r1.raw r1.surv, fun n' hn => ?_⟩
        simp only [rematchAll, hr1 n' (by omega), hok, hr2 n' (by omega)]
      | fail =>
        have hf := absO_fail_inv ha1
        exact ⟨n1, r1, fun n' hn => by simp only [rematchAll, hr1 n' hn, hf]⟩
      | err b =>
        obtain ⟨x, hx, _⟩ := absO_err_inv ha1
        exact ⟨n1, r1, fun n' hn => by simp only [rematchAll, hr1 n' hn, hx]⟩

/-- `partial< R... >` / the tail of `star_partial`: the sequence in `required` mode. -/
theorem seqAll_partial_term (a : AMode) (env : Env) :
    ∀ (cs : List Nat) (st : St) (o : Outcome), Valid cx st →
      EV⟦cx⟧ f st.endp ((expandKind.partialE (cs.map .ref)).opt) st.cur.pos = some o →
      ∃ n r, ∀ n', n ≤ n' → seqAll (run cx n') a .required env cs st = some r := by
  intro cs
  induction cs with
  | nil => intro st o _ _; exact ⟨0, _, fun _ _ => rfl⟩
  | cons c cs ih =>
    intro st o hv he
    simp only [List.map_cons, expandKind.partialE, PExp.opt, semEvalE] at he
    cases h1 : EV⟦cx⟧ f st.endp (.ref c) st.cur.pos with
    | none => rw [h1] at he; exact absurd he (by simp)
    | some o1 =>
      rw [h1] at he
      obtain ⟨n1, r1, hr1, ha1, g1, hv1⟩ := child wf hC hv h1 a .required env
      cases o1 with
      | ok q =>
        obtain ⟨hok, hq⟩ := absO_ok_inv ha1
        simp only at he
        cases h2 : EV⟦cx⟧ f st.endp ((expandKind.partialE (cs.map .ref)).opt) q with
        | none =>
          simp only [PExp.opt, semEvalE] at h2
          rw [h2] at he; exact absurd he (by simp)
        | some o2 =>
          rw [← hq, ← g1.endp] at h2
          obtain ⟨n2, r2, hr2⟩ := ih r1.st o2 hv1 h2
          refine ⟨max n1 n2, r2.prepend r1.raw r1.surv, fun n' hn => ?_⟩
          simp only [seqAll, hr1 n' (by omega), hok, hr2 n' (by omega)]
      | fail =>
        have hf := absO_fail_inv ha1
        exact ⟨n1, r1, fun n' hn => by simp only [seqAll, hr1 n' hn, hf]⟩
      | err b =>
        obtain ⟨x, hx, _⟩ := absO_err_inv ha1
        exact ⟨n1, r1, fun n' hn => by simp only [seqAll, hr1 n' hn, hx]⟩

omit wf hC in
theorem ex_map {α β : Type} {F : Nat → Nat → Option α} (g : α → β) {n : Nat} {r : α}
    (h : ∀ n' k, n ≤ n' → n ≤ k → F n' k = some r) :
    ∃ n r', ∀ n' k, n ≤ n' → n ≤ k → (F n' k).map g = some r' :=
  ⟨n, g r, fun n' k hn hk => by rw [h n' k hn hk]; rfl⟩

omit wf hC in
/-- The evaluator returned for a sequence, so it returned for its first component. -/
theorem ev_seq_fst {G : Nat → Option PExp} {eol : Eol} {inp : Array UInt8} {f endp : Nat} {e₁ e₂ : PExp} {p : Nat} {o : Outcome}
    (h : semEvalE G eol inp f endp (.seq e₁ e₂) p = some o) : ∃ o₁, semEvalE G eol inp f endp e₁ p = some o₁ := by
  simp only [semEvalE] at h
  cases h1 : semEvalE G eol inp f endp e₁ p with
  | none => rw [h1] at h; exact absurd h (by simp)
  | some o₁ => exact ⟨o₁, rfl⟩

/-- Body of `not_at< R >` (needed on its own for the hidden `not_at` node of `rep_min_max`). -/
theorem notAt_body_term (c : Nat) (a : AMode) (m : RMode) (env : Env) (st : St) (o : Outcome) (hv : Valid cx st)
    (he : EV⟦cx⟧ f st.endp (.not_ (.ref c)) st.cur.pos = some o) :
    ∃ n r, ∀ n' k, n ≤ n' → n ≤ k → body cx (run cx n') k (.notAt c) a m env st = some r := by
  simp only [semEvalE] at he
  cases h1 : EV⟦cx⟧ f st.endp (.ref c) st.cur.pos with
  | none => rw [h1] at he; exact absurd he (by simp)
  | some o1 =>
    obtain ⟨n1, r1, hr1, -, -, -⟩ := child wf hC hv h1 .nothing .optional env
    simp only [body]
    exact ex_map _ (fun n' _ hn _ => hr1 n' hn)

omit hC in
/-- `Control< Rule >::match` around a terminating body terminates (no wrapping action classes under `WFT`). -/
theorem node_term {i : Nat} {nd : Node} (hn : cx.g[i]? = some nd) (a : AMode) (m : RMode) (env : Env) (st : St)
    (hb : ∀ a m env, ∃ n r, ∀ n' k, n ≤ n' → n ≤ k → body cx (run cx n') k nd.kind a m env st = some r) :
    ∃ n r, ∀ n', n ≤ n' → run cx n' i a m env st = some r := by
  have hw := (wf.plain env i nd hn).2.2
  obtain ⟨n, r, hr⟩ := hb a (if useGuard a (cx.actOf env i nd) then .optional else m) env
  obtain ⟨n2, r2, hr2⟩ := hb a m env
  have h1 := hr (max n n2) (max n n2) (by omega) (by omega)
  have h2 := hr2 (max n n2) (max n n2) (by omega) (by omega)
  cases h : run cx (max n n2 + 1) i a m env st with
  | some r' => exact ⟨max n n2 + 1, r', fun n' hn' => run_mono cx _ n' hn' _ _ _ _ _ _ h⟩
  | none =>
    exfalso
    simp only [run, nodeCall, hn, hw, nodeCore] at h
    by_cases hctl : nd.ctl = true
    · simp [hctl, h1] at h
    · simp [hctl, h2] at h

omit wf hC in
/-- A body that returns for one fuel returns the same for all larger fuels and loop budgets. -/
theorem lift_body {kind : Kind} {a : AMode} {m : RMode} {env : Env} {st : St} (N : Nat)
    (h : body cx (run cx N) N kind a m env st ≠ none) :
    ∃ n r, ∀ n' k, n ≤ n' → n ≤ k → body cx (run cx n') k kind a m env st = some r := by
  cases hb : body cx (run cx N) N kind a m env st with
  | none => exact absurd hb h
  | some r => exact ⟨N, r, fun n' k hn' hk' => body_mono (run_mono cx N n' hn') cx hk' kind a m env st r hb⟩

/-- Every `match()` body terminates once the evaluator has returned for the kind's documented expansion. -/
theorem body_term (i : Nat) (nd : Node) (hn : cx.g[i]? = some nd) (a : AMode) (m : RMode) (env : Env) (st : St) (o : Outcome)
    (hv : Valid cx st) (he : EV⟦cx⟧ f st.endp (expandKind nd.kind) st.cur.pos = some o) :
    ∃ n r, ∀ n' k, n ≤ n' → n ≤ k → body cx (run cx n') k nd.kind a m env st = some r := by
  cases hk : nd.kind with
  | atom atm => exact ⟨0, _, fun _ _ _ _ => rfl⟩
  | seq cs =>
    rw [hk] at he
    simp only [expandKind] at he
    match cs, he with
    | [], _ => exact ⟨0, _, fun _ _ _ _ => rfl⟩
    | [c], he =>
      simp only [List.map_cons, List.map_nil, seqL] at he
      rw [ev_seq_eps] at he
      obtain ⟨n1, r1, hr1, -, -, -⟩ := child wf hC hv he a m env
      exact ⟨n1, r1, fun n' _ hn' _ => by simp only [body]; exact hr1 n' hn'⟩
    | c :: c' :: cs', he =>
      obtain ⟨n1, r1, hr1⟩ := seqAll_term wf hC a .optional env (c :: c' :: cs') st o hv he
      simp only [body]
      exact ex_map _ (fun n' _ hn' _ => hr1 n' hn')
  | sor cs =>
    rw [hk] at he
    obtain ⟨n1, r1, hr1⟩ := sorAny_term wf hC a env cs m st o hv he
    exact ⟨n1, r1, fun n' _ hn' _ => by simp only [body]; exact hr1 n' hn'⟩
  | starPartial cs =>
    rw [hk] at he
    simp only [expandKind] at he
    simp only [body]
    match cs, he with
    | [], he =>
      obtain ⟨o1, h1⟩ := ev_seq_fst he
      exact loopStar_term wf hC a env [] f (Nat.le_refl _) st o1 hv h1
    | [c], he => exact loopStar1_term wf hC a env c f (Nat.le_refl _) st o hv he
    | c :: c' :: cs', he =>
      obtain ⟨o1, h1⟩ := ev_seq_fst he
      exact loopStar_term wf hC a env (c :: c' :: cs') f (Nat.le_refl _) st o1 hv h1
  | partialR cs =>
    rw [hk] at he
    obtain ⟨n1, r1, hr1⟩ := seqAll_partial_term wf hC a env cs st o hv he
    simp only [body]
    exact ex_map _ (fun n' _ hn' _ => hr1 n' hn')
  | plus c =>
    rw [hk] at he
    simp only [expandKind, PExp.plus, semEvalE] at he
    cases h1 : EV⟦cx⟧ f st.endp (.ref c) st.cur.pos with
    | none => rw [h1] at he; exact absurd he (by simp)
    | some o1 =>
      rw [h1] at he
      obtain ⟨n1, r1, hr1, ha1, g1, hv1⟩ := child wf hC hv h1 a m env
      cases o1 with
      | ok q =>
        obtain ⟨hok, hq⟩ := absO_ok_inv ha1
        simp only at he
        rw [← hq, ← g1.endp] at he
        obtain ⟨n2, r2, hr2⟩ := loopStar1_term wf hC a env c f (Nat.le_refl _) r1.st o hv1 he
        refine ⟨max n1 n2, r2.prepend r1.raw r1.surv, fun n' k hn' hk' => ?_⟩
        simp only [body, hr1 n' (by omega), hok, hr2 n' k (by omega) (by omega)]
        rfl
      | fail =>
        have hf := absO_fail_inv ha1
        exact ⟨n1, r1, fun n' _ hn' _ => by simp only [body, hr1 n' hn', hf]⟩
      | err b =>
        obtain ⟨x, hx, _⟩ := absO_err_inv ha1
        exact ⟨n1, r1, fun n' _ hn' _ => by simp only [body, hr1 n' hn', hx]⟩
  | atR c =>
    rw [hk] at he
    simp only [expandKind, semEvalE] at he
    cases h1 : EV⟦cx⟧ f st.endp (.ref c) st.cur.pos with
    | none => rw [h1] at he; exact absurd he (by simp)
    | some o1 =>
      obtain ⟨n1, r1, hr1, -, -, -⟩ := child wf hC hv h1 .nothing .optional env
      simp only [body]
      exact ex_map _ (fun n' _ hn' _ => hr1 n' hn')
  | notAt c =>
    rw [hk] at he
    exact notAt_body_term wf hC c a m env st o hv he
  | until1 c =>
    rw [hk] at he
    obtain ⟨o1, h1⟩ := ev_seq_fst he
    obtain ⟨n1, r1, hr1⟩ := loopUntil1_term wf hC a env c f (Nat.le_refl _) st o1 hv h1
    simp only [body]
    exact ex_map _ hr1
  | until2 c b =>
    rw [hk] at he
    obtain ⟨o1, h1⟩ := ev_seq_fst he
    obtain ⟨n1, r1, hr1⟩ := loopUntil2_term wf hC a env c b f (Nat.le_refl _) st o1 hv h1
    simp only [body]
    exact ex_map _ hr1
  | rep n c =>
    rw [hk] at he
    obtain ⟨n1, r1, hr1⟩ := repN_term wf hC a .optional env c n st o hv he
    simp only [body]
    exact ex_map _ (fun n' _ hn' _ => hr1 n' hn')
  | repMinMax lo hi c na =>
    rw [hk] at he
    simp only [expandKind] at he
    obtain ⟨o1, h1⟩ := ev_seq_fst he
    obtain ⟨n1, r1, hr1⟩ := repN_term wf hC a .optional env c lo st o1 hv h1
    have hr1' := hr1 n1 (Nat.le_refl _)
    have ha1 := agree h1 (repN_sem (run_good cx n1) (run_sem cx wf n1) a .optional env c lo st r1 hv hr1')
    have w1 := repN_weak (run_good cx n1) a .optional env c lo st r1 hr1'
    have hv1 := hv.of_weak w1
    simp only [semEvalE, h1] at he
    cases o1 with
    | ok q =>
      obtain ⟨hok, hq⟩ := absO_ok_inv ha1
      simp only at he
      cases h2 : EV⟦cx⟧ f st.endp (repOptE (hi - lo) (.ref c)) q with
      | none => rw [h2] at he; exact absurd he (by simp)
      | some o2 =>
        rw [h2] at he
        rw [← hq, ← w1.endp] at h2
        obtain ⟨n2, r2, hr2⟩ := repUpTo_term wf hC a env c (hi - lo) r1.st o2 hv1 h2
        have hr2' := hr2 n2 (Nat.le_refl _)
        obtain ⟨sr2, _⟩ := repUpTo_sem (run_good cx n2) (run_sem cx wf n2) a env c (hi - lo) r1.st r2.1 r2.2 hv1 hr2'
        have ha2 := agree h2 sr2
        obtain ⟨w2, _⟩ := repUpTo_weak (run_good cx n2) a env c (hi - lo) r1.st r2.1 r2.2 hr2'
        have hv2 := hv1.of_weak w2
        by_cases hfull : r2.1.res = .ok ∧ r2.2 = true
        · -- the hidden not_at< R > node
          obtain ⟨nd', hn', hk'⟩ := wf.rmm i nd lo hi c na hn hk
          cases o2 with
          | ok q2 =>
            obtain ⟨_, hq2⟩ := absO_ok_inv ha2
            simp only at he
            rw [← hq2, ← w1.endp, ← w2.endp] at he
            have he' : EV⟦cx⟧ f r2.1.st.endp (.not_ (.ref c)) r2.1.st.cur.pos = some o := by
              simp only [semEvalE]; exact he
            obtain ⟨n3, r3, hr3⟩ := node_term wf hn' a .optional env r2.1.st
              (fun a m env => by rw [hk']; exact notAt_body_term wf hC c a m env r2.1.st o hv2 he')
            obtain ⟨N, hN1, hN2, hN3⟩ : ∃ N, n1 ≤ N ∧ n2 ≤ N ∧ n3 ≤ N := ⟨max (max n1 n2) n3, by omega, by omega, by omega⟩
            apply lift_body N
            simp [body, hr1 N hN1, hok, hr2 N hN2, hfull, hr3 N hN3]
          | fail => exact absurd (absO_fail_inv ha2) (by rw [hfull.1]; simp)
          | err b =>
            obtain ⟨x, hx, _⟩ := absO_err_inv ha2
            exact absurd hx (by rw [hfull.1]; simp)
        · apply lift_body (max n1 n2)
          simp [body, hr1 (max n1 n2) (by omega), hok, hr2 (max n1 n2) (by omega), hfull]
    | fail =>
      have hf := absO_fail_inv ha1
      apply lift_body n1
      simp [body, hr1', hf]
    | err b =>
      obtain ⟨x, hx, _⟩ := absO_err_inv ha1
      apply lift_body n1
      simp [body, hr1', hx]
  | repOpt n c =>
    rw [hk] at he
    obtain ⟨n1, r1, hr1⟩ := repUpTo_term wf hC a env c n st o hv he
    simp only [body]
    exact ex_map _ (fun n' _ hn' _ => hr1 n' hn')
  | ifThenElse c t e =>
    rw [hk] at he
    simp only [expandKind, semEvalE] at he
    cases h1 : EV⟦cx⟧ f st.endp (.ref c) st.cur.pos with
    | none => rw [h1] at he; exact absurd he (by simp)
    | some o1 =>
      rw [h1] at he
      obtain ⟨n1, r1, hr1, ha1, g1, hv1⟩ := child wf hC hv h1 a .required env
      cases o1 with
      | ok q =>
        obtain ⟨hok, hq⟩ := absO_ok_inv ha1
        simp only at he
        cases h2 : EV⟦cx⟧ f st.endp (.ref t) q with
        | none => rw [h2] at he; exact absurd he (by simp)
        | some o2 =>
          rw [← hq, ← g1.endp] at h2
          obtain ⟨n2, r2, hr2, -, -, -⟩ := child wf hC hv1 h2 a .optional env
          apply lift_body (max n1 n2)
          simp [body, hr1 (max n1 n2) (by omega), hok, hr2 (max n1 n2) (by omega)]
      | fail =>
        have hf := absO_fail_inv ha1
        have hc := g1.failCur hf rfl
        simp only at he
        rw [← hc, ← g1.endp] at he
        obtain ⟨n2, r2, hr2, -, -, -⟩ := child wf hC hv1 he a .optional env
        apply lift_body (max n1 n2)
        simp [body, hr1 (max n1 n2) (by omega), hf, hr2 (max n1 n2) (by omega)]
      | err b =>
        obtain ⟨x, hx, _⟩ := absO_err_inv ha1
        apply lift_body n1
        simp [body, hr1 n1 (Nat.le_refl _), hx]
  | strict c rest =>
    rw [hk] at he
    simp only [expandKind, semEvalE] at he
    cases h1 : EV⟦cx⟧ f st.endp (.ref c) st.cur.pos with
    | none => rw [h1] at he; exact absurd he (by simp)
    | some o1 =>
      rw [h1] at he
      obtain ⟨n1, r1, hr1, ha1, g1, hv1⟩ := child wf hC hv h1 a .required env
      cases o1 with
      | ok q =>
        obtain ⟨hok, hq⟩ := absO_ok_inv ha1
        simp only at he
        rw [← hq, ← g1.endp] at he
        obtain ⟨n2, r2, hr2, -, -, -⟩ := child wf hC hv1 he a .optional env
        apply lift_body (max n1 n2)
        simp [body, hr1 (max n1 n2) (by omega), hok, hr2 (max n1 n2) (by omega)]
      | fail =>
        have hf := absO_fail_inv ha1
        apply lift_body n1
        simp [body, hr1 n1 (Nat.le_refl _), hf]
      | err b =>
        obtain ⟨x, hx, _⟩ := absO_err_inv ha1
        apply lift_body n1
        simp [body, hr1 n1 (Nat.le_refl _), hx]
  | starStrict c rest =>
    rw [hk] at he
    obtain ⟨o1, h1⟩ := ev_seq_fst he
    obtain ⟨n1, r1, hr1⟩ := loopStarStrict_term wf hC a env c rest f (Nat.le_refl _) st o1 hv h1
    simp only [body]
    exact ex_map _ hr1
  | rematch h rs =>
    rw [hk] at he
    cases rs with
    | nil =>
      simp only [expandKind] at he
      obtain ⟨n1, r1, hr1, -, -, -⟩ := child wf hC hv he a m env
      exact ⟨n1, r1, fun n' _ hn' _ => by simp only [body]; exact hr1 n' hn'⟩
    | cons r0 rs' =>
      simp only [expandKind, semEvalE] at he
      cases h1 : EV⟦cx⟧ f st.endp (.ref h) st.cur.pos with
      | none => rw [h1] at he; exact absurd he (by simp)
      | some o1 =>
        rw [h1] at he
        obtain ⟨n1, r1, hr1, ha1, g1, hv1⟩ := child wf hC hv h1 a .optional env
        cases o1 with
        | ok q =>
          obtain ⟨hok, hq⟩ := absO_ok_inv ha1
          simp only at he
          cases h2 : EV⟦cx⟧ f q (seqL ((r0 :: rs').map fun x => .and_ (.ref x))) st.cur.pos with
          | none => rw [h2] at he; exact absurd he (by simp)
          | some o2 =>
            have hvi : Valid cx { ({ r1.st with endp := r1.st.cur.pos, depth := 0 } : St) with cur := st.cur } :=
              ⟨g1.le, Nat.le_trans hv1.le hv1.sz⟩
            rw [← hq] at h2
            obtain ⟨n2, r2, hr2⟩ := rematchAll_term wf hC a env st.cur (r0 :: rs')
              ({ r1.st with endp := r1.st.cur.pos, depth := 0 } : St) o2 hvi h2
            apply lift_body (max n1 n2)
            simp [body, hr1 (max n1 n2) (by omega), hok, hr2 (max n1 n2) (by omega)]
        | fail =>
          have hf := absO_fail_inv ha1
          apply lift_body n1
          simp [body, hr1 n1 (Nat.le_refl _), hf]
        | err b =>
          obtain ⟨x, hx, _⟩ := absO_err_inv ha1
          apply lift_body n1
          simp [body, hr1 n1 (Nat.le_refl _), hx]
  | must c =>
    rw [hk] at he
    simp only [expandKind, PExp.must, semEvalE] at he
    cases h1 : EV⟦cx⟧ f st.endp (.ref c) st.cur.pos with
    | none => rw [h1] at he; exact absurd he (by simp)
    | some o1 =>
      obtain ⟨n1, r1, hr1, -, -, -⟩ := child wf hC hv h1 a .optional env
      apply lift_body n1
      simp only [body, hr1 n1 (Nat.le_refl _)]
      cases r1.res <;> simp
  | ifMust dflt c mn =>
    rw [hk] at he
    have h1' : ∃ o1, EV⟦cx⟧ f st.endp (.ref c) st.cur.pos = some o1 := by
      cases dflt with
      | true =>
        simp only [expandKind, if_true, PExp.opt, semEvalE] at he
        cases h1 : EV⟦cx⟧ f st.endp (.ref c) st.cur.pos with
        | none => rw [h1] at he; exact absurd he (by simp)
        | some o1 => exact ⟨o1, rfl⟩
      | false =>
        simp only [expandKind] at he
        exact ev_seq_fst he
    obtain ⟨o1, h1⟩ := h1'
    obtain ⟨n1, r1, hr1, ha1, g1, hv1⟩ := child wf hC hv h1 a (if dflt then .required else m) env
    cases o1 with
    | ok q =>
      obtain ⟨hok, hq⟩ := absO_ok_inv ha1
      have h2' : ∃ o2, EV⟦cx⟧ f st.endp (.ref mn) q = some o2 := by
        cases dflt with
        | true =>
          simp only [expandKind, if_true, PExp.opt, semEvalE, h1] at he
          cases h2 : EV⟦cx⟧ f st.endp (.ref mn) q with
          | none => rw [h2] at he; exact absurd he (by simp)
          | some o2 => exact ⟨o2, rfl⟩
        | false =>
          simp only [expandKind, Bool.false_eq_true, if_false, semEvalE, h1] at he
          exact ⟨o, he⟩
      obtain ⟨o2, h2⟩ := h2'
      rw [← hq, ← g1.endp] at h2
      obtain ⟨n2, r2, hr2, -, -, -⟩ := child wf hC hv1 h2 a m env
      apply lift_body (max n1 n2)
      simp [body, hr1 (max n1 n2) (by omega), hok, hr2 (max n1 n2) (by omega)]
    | fail =>
      have hf := absO_fail_inv ha1
      apply lift_body n1
      simp [body, hr1 n1 (Nat.le_refl _), hf]
    | err b =>
      obtain ⟨x, hx, _⟩ := absO_err_inv ha1
      apply lift_body n1
      simp [body, hr1 n1 (Nat.le_refl _), hx]
  | raise t => exact ⟨0, _, fun _ _ _ _ => rfl⟩
  | tryCatchReturnFalse ex c =>
    rw [hk] at he
    simp only [expandKind, semEvalE] at he
    cases h1 : EV⟦cx⟧ f st.endp (.ref c) st.cur.pos with
    | none => rw [h1] at he; exact absurd he (by simp)
    | some o1 =>
      obtain ⟨n1, r1, hr1, -, -, -⟩ := child wf hC hv h1 a .optional env
      simp only [body]
      exact ex_map _ (fun n' _ hn' _ => hr1 n' hn')
  | tryCatchRaiseNested ex c =>
    rw [hk] at he
    simp only [expandKind, semEvalE] at he
    cases h1 : EV⟦cx⟧ f st.endp (.ref c) st.cur.pos with
    | none => rw [h1] at he; exact absurd he (by simp)
    | some o1 =>
      obtain ⟨n1, r1, hr1, -, -, -⟩ := child wf hC hv h1 a .optional env
      simp only [body]
      exact ex_map _ (fun n' _ hn' _ => hr1 n' hn')
  | enable c =>
    rw [hk] at he
    obtain ⟨n1, r1, hr1, -, -, -⟩ := child wf hC hv he .action m env
    exact ⟨n1, r1, fun n' _ hn' _ => by simp only [body]; exact hr1 n' hn'⟩
  | disable c =>
    rw [hk] at he
    obtain ⟨n1, r1, hr1, -, -, -⟩ := child wf hC hv he .nothing m env
    exact ⟨n1, r1, fun n' _ hn' _ => by simp only [body]; exact hr1 n' hn'⟩
  | action fam c =>
    rw [hk] at he
    obtain ⟨n1, r1, hr1, -, -, -⟩ := child wf hC hv he a m { env with fam := fam }
    exact ⟨n1, r1, fun n' _ hn' _ => by simp only [body]; exact hr1 n' hn'⟩
  | state sk c =>
    rw [hk] at he
    obtain ⟨n1, r1, hr1, -, -, -⟩ := child wf hC hv he a m { env with sd := env.sd + 1 }
    simp only [body]
    exact ex_map _ (fun n' _ hn' _ => hr1 n' hn')
  | ifApply c acts =>
    rw [hk] at he
    simp only [body]
    by_cases hc : a = .action ∧ acts ≠ []
    · obtain ⟨n1, r1, hr1, -, -, -⟩ := child wf hC hv he .action .optional env
      simp only [if_pos hc]
      exact ex_map _ (fun n' _ hn' _ => hr1 n' hn')
    · obtain ⟨n1, r1, hr1, -, -, -⟩ := child wf hC hv he a m env
      simp only [if_neg hc]
      exact ⟨n1, r1, fun n' _ hn' _ => hr1 n' hn'⟩
  | applyR acts =>
    simp only [body]
    by_cases hc : a = .action ∧ acts ≠ []
    · simp only [if_pos hc]; exact ⟨0, _, fun _ _ _ _ => rfl⟩
    · simp only [if_neg hc]; exact ⟨0, _, fun _ _ _ _ => rfl⟩
  | control kc c =>
    rw [hk] at he
    obtain ⟨n1, r1, hr1, -, -, -⟩ := child wf hC hv he a m { env with ctl := kc }
    exact ⟨n1, r1, fun n' _ hn' _ => by simp only [body]; exact hr1 n' hn'⟩

end

/-- Induction on the evaluator's fuel. -/
theorem comp_all (cx : Ctx) (wf : WFT cx) : ∀ f, Comp cx f := by
  intro f
  induction f with
  | zero => intro c endp p o he; simp [semEvalE] at he
  | succ f ih =>
    intro c endp p o he st hv hp hend a m env
    subst hp hend
    simp only [semEvalE, Gof] at he
    cases hn : cx.g[c]? with
    | none => rw [hn] at he; simp at he
    | some nd =>
      rw [hn] at he
      simp only [Option.map_some] at he
      obtain ⟨n, r, hr⟩ := node_term wf hn a m env st
        (fun a m env => body_term wf ih c nd hn a m env st o hv he)
      exact ⟨n, r, hr n (Nat.le_refl _)⟩

/-- **Completeness.**  If the formalism derives an outcome for rule `i` at the state's offset, the run returns
    (for every apply mode, rewind mode and environment) — and returns that outcome. -/
theorem run_complete (cx : Ctx) (wf : WFT cx) (i : Nat) (st : St) (hv : Valid cx st) (o : Outcome)
    (hs : SemC cx st.endp (.ref i) st.cur.pos o) (a : AMode) (m : RMode) (env : Env) :
    ∃ n r, (∀ n', n ≤ n' → run cx n' i a m env st = some r) ∧ absO r = some o := by
  obtain ⟨f, hf⟩ := semEvalE_complete hs
  obtain ⟨n, r, hr, ha, -, -⟩ := child wf (comp_all cx wf f) hv hf a m env
  exact ⟨n, r, hr, ha⟩

end Pegtl.Complete
