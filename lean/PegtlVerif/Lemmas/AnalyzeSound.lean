/-
  Lemmas/AnalyzeSound.lean — what a problem-free DFS of the grammar analysis (Model/Analyze.lean)
  says about the matcher (Model/Run.lean): "consumes" is sound, and every invocation terminates.
-/
import PegtlVerif.Lemmas.Analyze
import PegtlVerif.Lemmas.Rewind
import PegtlVerif.Lemmas.Bounds
import PegtlVerif.Lemmas.Fuel

namespace Pegtl
open Analyze

/-- Bytes left in the window. -/
def St.rem (st : St) : Nat := st.endp - st.cur.pos

theorem Weak.rem_le {st : St} {r : Ret} (w : Weak st r) : r.st.rem ≤ st.rem := by
  have := w.endp; have := w.le
  unfold St.rem; omega

theorem Weak.rem_lt {st : St} {r : Ret} (w : Weak st r) (hin : InB st) (h : st.cur.pos < r.st.cur.pos) :
    r.st.rem < st.rem := by
  have := w.endp; have := w.inb hin
  unfold St.rem; omega

section
variable (cx : Ctx)

/-- Every successful match of node `i` advances the cursor. -/
def Cons (i : Nat) : Prop :=
  ∀ n a m env st r, run cx n i a m env st = some r → r.res = .ok → st.cur.pos < r.st.cur.pos

/-- Node `i` terminates on every state with at most `L` bytes left. -/
def Term (L i : Nat) : Prop :=
  ∀ a m env st, InB st → st.rem ≤ L → ∃ n r, run cx n i a m env st = some r

theorem run_weak {n i a m env st r} (h : run cx n i a m env st = some r) : Weak st r :=
  (run_good cx n i a m env st r h).toWeak

theorem run_le {n n' : Nat} (hn : n ≤ n') {i a m env st r} (h : run cx n i a m env st = some r) :
    run cx n' i a m env st = some r :=
  run_mono cx n n' hn i a m env st r h

theorem recLe_max_left (n1 n2 : Nat) : RecLe (run cx n1) (run cx (max n1 n2)) := run_mono cx _ _ (Nat.le_max_left _ _)
theorem recLe_max_right (n1 n2 : Nat) : RecLe (run cx n2) (run cx (max n1 n2)) := run_mono cx _ _ (Nat.le_max_right _ _)

/-! ### what a problem-free visit of a list of node children means -/

/-- `T` holds for the visited prefix; the visit stopped at a child with `C` iff the flag is true. -/
inductive Pre (T C : Nat → Prop) : List Nat → Bool → Prop
  | nil : Pre T C [] false
  | stop {c : Nat} {cs : List Nat} : T c → C c → Pre T C (c :: cs) true
  | skip {c : Nat} {cs : List Nat} {a : Bool} : T c → Pre T C cs a → Pre T C (c :: cs) a

theorem pre_of_visit {w : WFun} {T C : Nat → Prop}
    (hw : ∀ c b, w (.node c) false = some (b, 0) → T c ∧ (b = true → C c)) :
    ∀ (cs : List Nat) (a : Bool), OrVisit w (nodes cs) a → Pre T C cs a := by
  intro cs
  induction cs with
  | nil =>
    intro a h
    cases h
    exact Pre.nil
  | cons c cs ih =>
    intro a h
    simp only [nodes, List.map_cons] at h
    cases h with
    | stop h1 =>
      have ⟨t, c'⟩ := hw _ _ h1
      exact Pre.stop t (c' rfl)
    | skip h1 h2 =>
      exact Pre.skip (hw _ _ h1).1 (ih _ h2)

theorem all_of_visit {w : WFun} {T C : Nat → Prop}
    (hw : ∀ c b, w (.node c) false = some (b, 0) → T c ∧ (b = true → C c))
    {cs : List Nat} {a : Bool} (h : AndVisit w (nodes cs) a) : ∀ c ∈ cs, T c ∧ (a = true → C c) := by
  intro c hc
  obtain ⟨b, hb, hab⟩ := h (.node c) (List.mem_map.mpr ⟨c, hc, rfl⟩)
  have ⟨t, c'⟩ := hw _ _ hb
  exact ⟨t, fun ha => c' (hab ha)⟩

theorem Pre.mono {T T' C : Nat → Prop} (h : ∀ c, T c → T' c) : ∀ {cs a}, Pre T C cs a → Pre T' C cs a := by
  intro cs a p
  induction p with
  | nil => exact Pre.nil
  | stop t c => exact Pre.stop (h _ t) c
  | skip t _ ih => exact Pre.skip (h _ t) ih

/-! ### sequences -/

theorem seqAll_cons_stop {rec : Rec} {c : Nat} {cs : List Nat} {a m env st r1}
    (h1 : rec c a m env st = some r1) (hne : r1.res ≠ .ok) : seqAll rec a m env (c :: cs) st = some r1 := by
  simp only [seqAll, h1]

theorem seqAll_cons_ok {rec : Rec} {c : Nat} {cs : List Nat} {a m env st r1 r2}
    (h1 : rec c a m env st = some r1) (hok : r1.res = .ok) (h2 : seqAll rec a m env cs r1.st = some r2) :
    seqAll rec a m env (c :: cs) st = some (r2.prepend r1.raw r1.surv) := by
  simp only [seqAll, h1, hok, h2]

/-- Combine a terminating head with a terminating tail. -/
theorem seqAll_glue {c : Nat} {cs : List Nat} {a m env st n1 r1}
    (h1 : run cx n1 c a m env st = some r1)
    (h2 : r1.res = .ok → ∃ n2 r2, seqAll (run cx n2) a m env cs r1.st = some r2) :
    ∃ n r, seqAll (run cx n) a m env (c :: cs) st = some r := by
  by_cases hok : r1.res = .ok
  · obtain ⟨n2, r2, h2'⟩ := h2 hok
    exact ⟨max n1 n2, _, seqAll_cons_ok (recLe_max_left cx n1 n2 _ _ _ _ _ _ h1) hok
      (seqAll_mono (recLe_max_right cx n1 n2) _ _ _ _ _ _ h2')⟩
  · exact ⟨n1, r1, seqAll_cons_stop h1 hok⟩

/-- A list of rules each of which terminates on every state with at most `L` bytes left. -/
theorem seqAll_total {L : Nat} (a : AMode) (m : RMode) (env : Env) :
    ∀ (cs : List Nat), (∀ c ∈ cs, Term cx L c) → ∀ st, InB st → st.rem ≤ L →
      ∃ n r, seqAll (run cx n) a m env cs st = some r := by
  intro cs
  induction cs with
  | nil => intro _ st _ _; exact ⟨0, _, rfl⟩
  | cons c cs ih =>
    intro hT st hin hrem
    obtain ⟨n1, r1, h1⟩ := hT c (List.mem_cons_self ..) a m env st hin hrem
    have w := run_weak cx h1
    exact seqAll_glue cx h1 fun _ =>
      ih (fun d hd => hT d (List.mem_cons_of_mem _ hd)) r1.st (w.inB hin) (Nat.le_trans w.rem_le hrem)

/-- A sequence whose visited prefix ends in a consuming rule advances when it succeeds. -/
theorem seqAll_adv {T : Nat → Prop} (a : AMode) (m : RMode) (env : Env) (n : Nat) :
    ∀ {cs : List Nat} {b : Bool}, Pre T (Cons cx) cs b → b = true →
      ∀ st r, seqAll (run cx n) a m env cs st = some r → r.res = .ok → st.cur.pos < r.st.cur.pos := by
  intro cs b p
  induction p with
  | nil => intro hb; exact absurd hb (by simp)
  | @stop c cs _ hc =>
    intro _ st r h hok
    simp only [seqAll] at h
    split at h
    · exact absurd h (by simp)
    · rename_i r1 h1
      split at h
      · rename_i hres
        split at h
        · exact absurd h (by simp)
        · rename_i r2 h2
          simp only [Option.some.injEq] at h
          subst h
          have := hc n a m env st r1 h1 hres
          have := (seqAll_weak (run_good cx n) a m env cs r1.st r2 h2).le
          simp only [prepend_st]
          omega
      · rename_i hne
        simp only [Option.some.injEq] at h
        subst h
        exact absurd hok (by intro h; exact hne h)
  | @skip c cs b _ _ ih =>
    intro hb st r h hok
    simp only [seqAll] at h
    split at h
    · exact absurd h (by simp)
    · rename_i r1 h1
      split at h
      · rename_i hres
        split at h
        · exact absurd h (by simp)
        · rename_i r2 h2
          simp only [Option.some.injEq] at h
          subst h
          have := (run_weak cx h1).le
          have := ih hb r1.st r2 h2 (by simpa using hok)
          simp only [prepend_st]
          omega
      · rename_i hne
        simp only [Option.some.injEq] at h
        subst h
        exact absurd hok (by intro h; exact hne h)

/-- A sequence terminates if the visited prefix terminates on `≤ L` bytes and every rule terminates
    on fewer. -/
theorem seqAll_term {L : Nat} (a : AMode) (m : RMode) (env : Env) :
    ∀ {cs : List Nat} {b : Bool}, Pre (Term cx L) (Cons cx) cs b →
      (∀ c ∈ cs, ∀ L' < L, Term cx L' c) → ∀ st, InB st → st.rem ≤ L →
      ∃ n r, seqAll (run cx n) a m env cs st = some r := by
  intro cs b p
  induction p with
  | nil => intro _ st _ _; exact ⟨0, _, rfl⟩
  | @stop c cs ht hc =>
    intro hlt st hin hrem
    obtain ⟨n1, r1, h1⟩ := ht a m env st hin hrem
    have w := run_weak cx h1
    refine seqAll_glue cx h1 fun hok => ?_
    have hadv := hc n1 a m env st r1 h1 hok
    have hlt' := w.rem_lt hin hadv
    exact seqAll_total cx a m env cs (fun d hd => hlt d (List.mem_cons_of_mem _ hd) r1.st.rem (by omega))
      r1.st (w.inB hin) (Nat.le_refl _)
  | @skip c cs b ht _ ih =>
    intro hlt st hin hrem
    obtain ⟨n1, r1, h1⟩ := ht a m env st hin hrem
    have w := run_weak cx h1
    exact seqAll_glue cx h1 fun _ =>
      ih (fun d hd => hlt d (List.mem_cons_of_mem _ hd)) r1.st (w.inB hin) (Nat.le_trans w.rem_le hrem)

/-! ### choices -/

theorem sorAny_total {L : Nat} (a : AMode) (env : Env) :
    ∀ (cs : List Nat) (m : RMode), (∀ c ∈ cs, Term cx L c) → ∀ st, InB st → st.rem ≤ L →
      ∃ n r, sorAny (run cx n) a m env cs st = some r := by
  intro cs
  induction cs with
  | nil => intro m _ st _ _; exact ⟨0, _, rfl⟩
  | cons c cs ih =>
    intro m hT st hin hrem
    cases cs with
    | nil =>
      obtain ⟨n1, r1, h1⟩ := hT c (List.mem_cons_self ..) a m env st hin hrem
      exact ⟨n1, r1, by simp only [sorAny, h1]⟩
    | cons c' cs' =>
      obtain ⟨n1, r1, h1⟩ := hT c (List.mem_cons_self ..) a .required env st hin hrem
      have w := run_weak cx h1
      by_cases hf : r1.res = .fail
      · obtain ⟨n2, r2, h2⟩ := ih m (fun d hd => hT d (List.mem_cons_of_mem _ hd)) r1.st (w.inB hin)
          (Nat.le_trans w.rem_le hrem)
        refine ⟨max n1 n2, r2.prepend r1.raw [], ?_⟩
        have h1' := recLe_max_left cx n1 n2 _ _ _ _ _ _ h1
        have h2' := sorAny_mono (recLe_max_right cx n1 n2) _ _ _ _ _ _ h2
        simp only [sorAny, h1', hf, h2']
      · exact ⟨n1, r1, by simp only [sorAny, h1]⟩

theorem sorAny_adv (a : AMode) (env : Env) (n : Nat) :
    ∀ (cs : List Nat) (m : RMode), (∀ c ∈ cs, Cons cx c) →
      ∀ st r, sorAny (run cx n) a m env cs st = some r → r.res = .ok → st.cur.pos < r.st.cur.pos := by
  intro cs
  induction cs with
  | nil =>
    intro m _ st r h hok
    simp only [sorAny, Option.some.injEq] at h
    subst h
    exact absurd hok (by simp)
  | cons c cs ih =>
    intro m hC st r h hok
    cases cs with
    | nil =>
      simp only [sorAny] at h
      exact hC c (List.mem_cons_self ..) n a m env st r h hok
    | cons c' cs' =>
      simp only [sorAny] at h
      split at h
      · exact absurd h (by simp)
      · rename_i r1 h1
        split at h
        · split at h
          · exact absurd h (by simp)
          · rename_i r2 h2
            simp only [Option.some.injEq] at h
            subst h
            have := (run_weak cx h1).le
            have := ih m (fun d hd => hC d (List.mem_cons_of_mem _ hd)) r1.st r2 h2 (by simpa using hok)
            simp only [prepend_st]
            omega
        · simp only [Option.some.injEq] at h
          subst h
          exact hC c (List.mem_cons_self ..) n a .required env st r1 h1 hok

/-! ### `star`-like loops -/

theorem loopStar_glue {a : AMode} {env : Env} {cs : List Nat} {st : St} {n1 : Nat} {r1 : Ret}
    (h1 : seqAll (run cx n1) a .required env cs st = some r1)
    (h2 : r1.res = .ok → ∃ n2 k2 r2, loopStar (run cx n2) a env cs k2 r1.st = some r2) :
    ∃ n k r, loopStar (run cx n) a env cs k st = some r := by
  cases hres : r1.res with
  | ok =>
    obtain ⟨n2, k2, r2, h2'⟩ := h2 hres
    have h1' := seqAll_mono (recLe_max_left cx n1 n2) _ _ _ _ _ _ h1
    have h2'' := loopStar_mono (recLe_max_right cx n1 n2) _ _ _ _ _ _ _ (Nat.le_refl k2) h2'
    refine ⟨max n1 n2, k2 + 1, ?_⟩
    simp only [loopStar, h1', hres, h2'']
    exact ⟨_, rfl⟩
  | fail =>
    refine ⟨n1, 1, ?_⟩
    simp only [loopStar, h1, hres]
    exact ⟨_, rfl⟩
  | thr e =>
    refine ⟨n1, 1, ?_⟩
    simp only [loopStar, h1, hres]
    exact ⟨_, rfl⟩

/-- The loop ends if its body terminates and advances whenever it succeeds. -/
theorem loopStar_term {L : Nat} (a : AMode) (env : Env) (cs : List Nat)
    (hseq : ∀ st, InB st → st.rem ≤ L → ∃ n r, seqAll (run cx n) a .required env cs st = some r)
    (hadv : ∀ n st r, seqAll (run cx n) a .required env cs st = some r → r.res = .ok → st.cur.pos < r.st.cur.pos) :
    ∀ (R : Nat) (st : St), InB st → st.rem ≤ R → R ≤ L → ∃ n k r, loopStar (run cx n) a env cs k st = some r := by
  intro R
  induction R with
  | zero =>
    intro st hin hrem hL
    obtain ⟨n1, r1, h1⟩ := hseq st hin (by omega)
    refine loopStar_glue cx h1 fun hok => ?_
    have w := seqAll_weak (run_good cx n1) _ _ _ _ _ _ h1
    have := w.rem_lt hin (hadv _ _ _ h1 hok)
    omega
  | succ R ih =>
    intro st hin hrem hL
    obtain ⟨n1, r1, h1⟩ := hseq st hin (by omega)
    refine loopStar_glue cx h1 fun hok => ?_
    have w := seqAll_weak (run_good cx n1) _ _ _ _ _ _ h1
    have := w.rem_lt hin (hadv _ _ _ h1 hok)
    exact ih r1.st (w.inB hin) (by omega) (by omega)

/-- Same fuel for the sub-rule calls and for the loop counter, as `body` uses them. -/
theorem loopStar_diag {a : AMode} {env : Env} {cs : List Nat} {st : St}
    (h : ∃ n k r, loopStar (run cx n) a env cs k st = some r) : ∃ n r, loopStar (run cx n) a env cs n st = some r := by
  obtain ⟨n, k, r, h⟩ := h
  exact ⟨max n k, r, loopStar_mono (recLe_max_left cx n k) _ _ _ _ _ _ _ (Nat.le_max_right n k) h⟩

/-! ### atoms -/

theorem eolMatch_adv (st : St) : (eolMatch cx st).1 = true → st.cur.pos < (eolMatch cx st).2.2.cur.pos := by
  unfold eolMatch
  cases cx.eol <;> simp only <;> (repeat' split) <;> simp_all

theorem peekUtf8Impl_pos {bs : List UInt8} {c0 cp n : Nat} (h : Utf.peekUtf8Impl bs c0 = some (cp, n)) : 0 < n := by
  unfold Utf.peekUtf8Impl at h
  simp only at h
  repeat' split at h
  all_goals first
    | (simp only [Option.some.injEq, Prod.mk.injEq] at h; omega)
    | (simp at h)

theorem peekUtf8_pos {bs : List UInt8} {cp n : Nat} (h : Utf.peekUtf8 bs = some (cp, n)) : 0 < n := by
  unfold Utf.peekUtf8 at h
  split at h
  · exact absurd h (by simp)
  · simp only at h
    split at h
    · simp only [Option.some.injEq, Prod.mk.injEq] at h; omega
    · exact peekUtf8Impl_pos h

/-- Trait `any` of an atom is sound: it advances when it matches. -/
theorem atomStep_adv (a : Atom) (st : St) (ht : atomType a = .any) :
    (atomStep cx a st).1 = true → st.cur.pos < (atomStep cx a st).2.cur.pos := by
  have he := eolMatch_adv cx st
  cases a with
  | string cs =>
    have hl : cs.length ≠ 0 := by
      intro h0; simp [atomType, h0] at ht
    simp only [atomStep]; (repeat' split) <;> simp_all <;> first | omega | exact List.length_pos_iff.mpr ‹_›
  | istring cs =>
    have hl : cs.length ≠ 0 := by
      intro h0; simp [atomType, h0] at ht
    simp only [atomStep]; (repeat' split) <;> simp_all <;> first | omega | exact List.length_pos_iff.mpr ‹_›
  | bytes n =>
    have hl : n ≠ 0 := by
      intro h0; simp [atomType, h0] at ht
    simp only [atomStep]; (repeat' split) <;> simp_all <;> omega
  | utf8Range found lo hi =>
    simp only [atomStep]
    split
    · rename_i cp n hp
      have := peekUtf8_pos hp
      split
      · intro _; simp only [bumpHelp_pos]; omega
      · intro h; exact absurd h (by simp)
    · intro h; exact absurd h (by simp)
  | maxDigits mx =>
    simp only [atomStep]
    split
    · intro h; exact absurd h (by simp)
    · rename_i hne
      split
      · intro h; exact absurd h (by simp)
      · split
        · intro _
          simp only [bumpInThisLine_pos]
          have : 0 < (List.takeWhile isDigitB (windowBytes cx st)).length := by
            apply List.length_pos_iff.mpr
            intro h0
            exact hne (by simp [h0])
          omega
        · intro h; exact absurd h (by simp)
  | repOne lo hi c =>
    have hl : lo ≠ 0 := by
      intro h0; simp [atomType, h0] at ht
    simp only [atomStep]
    split
    · intro h; exact absurd h (by simp)
    · split
      · intro _
        simp only [bumpHelp_pos]
        omega
      · intro h; exact absurd h (by simp)
  | _ =>
    simp only [atomType] at ht <;> simp only [atomStep] <;> (repeat' split) <;>
    first
    | (simp_all; done)
    | (simp_all <;> omega)

/-! ### from rule bodies to nodes (match.hpp) -/

/-- The body of kind `k` terminates on every state with at most `L` bytes left. -/
def BodyTerm (L : Nat) (k : Kind) : Prop :=
  ∀ a m env st, InB st → st.rem ≤ L → ∃ n r, body cx (run cx n) n k a m env st = some r

/-- The body of kind `k` advances whenever it succeeds. -/
def BodyAdv (k : Kind) : Prop :=
  ∀ n a m env st r, body cx (run cx n) n k a m env st = some r → r.res = .ok → st.cur.pos < r.st.cur.pos

theorem nodeCore_term {L : Nat} (i : Nat) {nd : Node} (h : BodyTerm cx L nd.kind) (a : AMode) (m : RMode) (env : Env) (st : St)
    (hin : InB st) (hrem : st.rem ≤ L) : ∃ n r, nodeCore cx (run cx n) n i nd a m env st = some r := by
  by_cases hc : nd.ctl = true
  · obtain ⟨n, r0, h0⟩ := h a (if useGuard a (cx.actOf env i nd) = true then .optional else m) env st hin hrem
    refine ⟨n, ?_⟩
    simp only [nodeCore, hc, Bool.not_true, Bool.false_eq_true, if_false, h0, Option.map_some]
    exact ⟨_, rfl⟩
  · obtain ⟨n, r0, h0⟩ := h a m env st hin hrem
    simp only [Bool.not_eq_true] at hc
    refine ⟨n, ?_⟩
    simp only [nodeCore, hc, Bool.not_false, if_true, h0]
    exact ⟨_, rfl⟩

/-- Switching the action family through `change_action`-like actions of node `i` is well-founded
    (otherwise `Action< Rule >::match` calls itself for ever, whatever the grammar). -/
def WrapWF (i : Nat) (nd : Node) : Prop :=
  ∃ rank : Env → Nat, (∀ env fam, (cx.actOf env i nd).wrap = .changeAction fam → rank { env with fam := fam } < rank env) ∧
    (∀ env fam mu, (cx.actOf env i nd).wrap = .changeActionAndState fam mu →
      rank { env with fam := fam, sd := env.sd + 1 } < rank env)

theorem term_of_body {L i : Nat} {nd : Node} (hnd : cx.g[i]? = some nd) (hw : WrapWF cx i nd)
    (h : BodyTerm cx L nd.kind) : Term cx L i := by
  obtain ⟨rank, hrank, hrank2⟩ := hw
  intro a m env st hin hrem
  generalize hk : rank env = k
  induction k using Nat.strongRecOn generalizing env with
  | _ k ih =>
    cases hwr : (cx.actOf env i nd).wrap with
    | none =>
      obtain ⟨n, r0, h0⟩ := nodeCore_term cx i h a m env st hin hrem
      refine ⟨n + 1, ?_⟩
      simp only [run, nodeCall, hnd, hwr, h0, Option.map_some]
      exact ⟨_, rfl⟩
    | changeAction fam =>
      obtain ⟨n, r0, h0⟩ := ih _ (by rw [← hk]; exact hrank env fam hwr) { env with fam := fam } rfl
      refine ⟨n + 1, ?_⟩
      simp only [run, nodeCall, hnd, hwr, h0, Option.map_some]
      exact ⟨_, rfl⟩
    | disableAction =>
      obtain ⟨n, r0, h0⟩ := nodeCore_term cx i h .nothing m env st hin hrem
      refine ⟨n + 1, ?_⟩
      simp only [run, nodeCall, hnd, hwr, h0, Option.map_some]
      exact ⟨_, rfl⟩
    | enableAction =>
      obtain ⟨n, r0, h0⟩ := nodeCore_term cx i h .action m env st hin hrem
      refine ⟨n + 1, ?_⟩
      simp only [run, nodeCall, hnd, hwr, h0, Option.map_some]
      exact ⟨_, rfl⟩
    | limitDepth d =>
      by_cases hd : st.depth + 1 > d
      · refine ⟨1, ?_⟩
        simp only [run, nodeCall, hnd, hwr, limitDepthCall, hd, if_true, Option.map_some]
        exact ⟨_, rfl⟩
      · obtain ⟨n, r0, h0⟩ := nodeCore_term cx i h a m env { st with depth := st.depth + 1 } hin hrem
        refine ⟨n + 1, ?_⟩
        simp only [run, nodeCall, hnd, hwr, limitDepthCall, hd, if_false, h0, Option.map_some]
        exact ⟨_, rfl⟩
    | limitBytes d =>
      obtain ⟨n, r0, h0⟩ := nodeCore_term cx i h a m env { st with endp := st.cur.pos + min st.avail d }
        (by unfold InB; simp only; omega)
        (by unfold St.rem St.avail at *; simp only; omega)
      refine ⟨n + 1, ?_⟩
      simp only [run, nodeCall, hnd, hwr, limitBytesCall, h0, Option.map_some]
      exact ⟨_, rfl⟩
    | changeControl kc =>
      obtain ⟨n, r0, h0⟩ := nodeCore_term cx i h a m { env with ctl := kc } st hin hrem
      refine ⟨n + 1, ?_⟩
      simp only [run, nodeCall, hnd, hwr, h0, Option.map_some]
      exact ⟨_, rfl⟩
    | changeState mu =>
      obtain ⟨n, r0, h0⟩ := nodeCore_term cx i h a m { env with sd := env.sd + 1 } st hin hrem
      refine ⟨n + 1, ?_⟩
      simp only [run, nodeCall, hnd, hwr, h0, Option.map_some]
      exact ⟨_, rfl⟩
    | changeActionAndState fam mu =>
      obtain ⟨n, r0, h0⟩ := ih _ (by rw [← hk]; exact hrank2 env fam mu hwr) { env with fam := fam, sd := env.sd + 1 } rfl
      refine ⟨n + 1, ?_⟩
      simp only [run, nodeCall, hnd, hwr, h0, Option.map_some]
      exact ⟨_, rfl⟩

theorem afterBody_ok (i : Nat) (a : AMode) (act : ActionSpec) (sd : Nat) (saved : Cursor) (r : Ret)
    (h : (afterBody cx i a act sd saved r).res = .ok) : r.res = .ok := by
  unfold afterBody at h
  split at h
  · rename_i e he; exact absurd h (by simp [he])
  · exact absurd h (failureHook_res_ne_ok _ _ _ _)
  · assumption

theorem guardRestore_ok_st {g : RMode} {c : Cursor} {r : Ret} (h : r.res = .ok) : (guardRestore g c r).st = r.st := by
  simp [guardRestore, h]

theorem nodeCore_adv {i : Nat} {nd : Node} (h : BodyAdv cx nd.kind) {n : Nat} {a : AMode} {m : RMode} {env : Env}
    {st : St} {r : Ret} (hr : nodeCore cx (run cx n) n i nd a m env st = some r) (hok : r.res = .ok) :
    st.cur.pos < r.st.cur.pos := by
  unfold nodeCore at hr
  split at hr
  · exact h n a m env st r hr hok
  · simp only [Option.map_eq_some_iff] at hr
    obtain ⟨r0, h0, rfl⟩ := hr
    simp only [guardRestore_res] at hok
    have hok0 := afterBody_ok (cx.withCtl env.ctl) _ _ _ _ _ _ hok
    have := h n a _ env st r0 h0 hok0
    rw [guardRestore_ok_st (by simpa using hok)]
    simpa using this

theorem cons_of_body {i : Nat} (h : ∀ nd, cx.g[i]? = some nd → BodyAdv cx nd.kind) : Cons cx i := by
  intro n
  induction n with
  | zero => intro a m env st r hr; simp [run] at hr
  | succ n ih =>
    intro a m env st r hr hok
    simp only [run, nodeCall] at hr
    split at hr
    · exact absurd hr (by simp)
    · rename_i nd hnd
      simp only [Option.map_eq_some_iff] at hr
      obtain ⟨r0, h0, rfl⟩ := hr
      simp only [bracket_res, bracket_st] at hok ⊢
      split at h0
      · exact nodeCore_adv cx (h nd hnd) h0 hok
      · exact ih _ _ _ _ _ h0 hok
      · exact nodeCore_adv cx (h nd hnd) h0 hok
      · exact nodeCore_adv cx (h nd hnd) h0 hok
      · unfold limitDepthCall at h0
        split at h0
        · simp only [Option.some.injEq] at h0; subst h0; exact absurd hok (by simp)
        · simp only [Option.map_eq_some_iff] at h0
          obtain ⟨r1, h1, rfl⟩ := h0
          have := nodeCore_adv cx (h nd hnd) h1 (by simpa using hok)
          simpa using this
      · unfold limitBytesCall at h0
        simp only [Option.map_eq_some_iff] at h0
        obtain ⟨r1, h1, rfl⟩ := h0
        split at hok
        · exact absurd hok (by simp)
        · split
          · rename_i hc _ ; exact absurd ‹_› hc
          · have := nodeCore_adv cx (h nd hnd) h1 (by simpa using hok)
            simpa using this
      · simp only [Option.map_eq_some_iff] at h0
        obtain ⟨r1, h1, rfl⟩ := h0
        simpa using nodeCore_adv cx (h nd hnd) h1 (by simpa using hok)
      · simp only [Option.map_eq_some_iff] at h0
        obtain ⟨r1, h1, rfl⟩ := h0
        simpa using ih _ _ _ _ _ h1 (by simpa using hok)
      · exact nodeCore_adv cx (h nd hnd) h0 hok

end
end Pegtl
