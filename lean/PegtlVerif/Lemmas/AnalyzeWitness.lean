/-
  Lemmas/AnalyzeWitness.lean — side conditions and concrete tables used by Props/C11.lean:
  the assumption about actions that carry a `match()`, plain contexts, witness grammars.
-/
import PegtlVerif.Lemmas.AnalyzeMain

namespace Pegtl
open Analyze

/-- Actions with a `match()` of their own (`change_action`, …) are part of the parsing run but not
    of the grammar: the analysis cannot know them.  The theorems assume that, for every rule,
    switching the action family through them is well-founded (no `Action< Rule >::match` that ends
    up calling itself). -/
def ActionsWF (cx : Ctx) : Prop := ∀ i nd, cx.g[i]? = some nd → WrapWF cx i nd

/-- Grammars without such actions (every `wrap` is `none`) satisfy it. -/
theorem actionsWF_of_plain (cx : Ctx) (h : ∀ env i nd, (cx.actOf env i nd).wrap = .none) : ActionsWF cx :=
  fun i nd _ => ⟨fun _ => 0, fun env fam hc => by rw [h env i nd] at hc; exact absurd hc (by simp),
    fun env fam mu hc => by rw [h env i nd] at hc; exact absurd hc (by simp)⟩

/-- A context without action families. -/
def plainCtx (g : Grammar) (inp : Array UInt8) : Ctx := { g := g, inp := inp }

theorem actOf_plainCtx (g : Grammar) (inp : Array UInt8) (env : Env) (i : Nat) (nd : Node) (h : nd.act = {}) :
    (plainCtx g inp).actOf env i nd = {} := by
  simp only [Ctx.actOf, plainCtx]
  split
  · exact h
  · simp

theorem actionsWF_plainCtx (g : Grammar) (inp : Array UInt8) (hg : ∀ nd ∈ g.toList, nd.act = {}) :
    ActionsWF (plainCtx g inp) := by
  intro i nd hnd
  refine ⟨fun _ => 0, fun env fam hc => ?_, fun env fam mu hc => ?_⟩
  · rw [actOf_plainCtx g inp env i nd (hg nd (mem_toList_of_getElem? hnd))] at hc
    exact absurd hc (by simp)
  · rw [actOf_plainCtx g inp env i nd (hg nd (mem_toList_of_getElem? hnd))] at hc
    exact absurd hc (by simp)

def nd (k : Kind) : Node := ⟨true, {}, k⟩

/-- `struct R : seq< R, one< 'a' > > {};` — direct left recursion. -/
def gLeftRec : Grammar := #[nd (.seq [0, 1]), nd (.atom (.one true [97]))]

/-- `struct R : sor< at< one< 'a' > >, seq< R, one< 'b' > > > {};` — left recursion in a non-first
    alternative (finding F6: `a = a && work( … )` did not visit it). -/
def gSorSecond : Grammar :=
  #[nd (.sor [1, 3]), nd (.atR 2), nd (.atom (.one true [97])), nd (.seq [0, 4]), nd (.atom (.one true [98]))]

/-- `struct R : star< opt< one< 'a' > > > {};` — a repetition whose body matches the empty string. -/
def gNullableStar : Grammar := #[nd (.starPartial [1]), nd (.partialR [2]), nd (.atom (.one true [97]))]

/-- `struct R : until< one< 'b' >, star< one< 'a' > > > {};` — `until` whose body can succeed empty. -/
def gNullableUntil : Grammar :=
  #[nd (.until2 1 2), nd (.atom (.one true [98])), nd (.starPartial [3]), nd (.atom (.one true [97]))]

/-- `struct R : rematch< one< 'a' >, R > {};` — left recursion through the inner rule of `rematch`. -/
def gRematchInner : Grammar := #[nd (.rematch 1 [0]), nd (.atom (.one true [97]))]

/-- `struct R : seq< not_at< R >, one< 'a' > > {};` — left recursion through a predicate. -/
def gNotAtRec : Grammar := #[nd (.seq [1, 2]), nd (.notAt 0), nd (.atom (.one true [97]))]

/-- `struct R : seq< one< 'a' >, star< R > > {};` — recursion behind a consuming rule: fine. -/
def gGood : Grammar := #[nd (.seq [1, 2]), nd (.atom (.one true [97])), nd (.starPartial [0])]

/-- A table that uses 18 of the rule kinds (as resolved by vlib/gram.py from)
--   struct n0 : seq< if_then_else< at< one< char(97) > >, plus< one< char(97) > >, rep_min_max< 1, 2, one< char(98) > > >, until< eof, n1 > > {};
--   struct n1 : sor< rematch< plus< range< char(97), char(99) > >, not_at< string< char(97), char(97) > > >, if_must< one< char(99) >, n2, rep_opt< 2, one< char(98) > > > > {};
--   struct n2 : seq< opt_must< one< char(98) >, one< char(97) > >, try_catch_return_false< must< one< char(97) > > >, star< disable< n0 > >, until< enable< one< char(99) > > > > {}; -/
def gRich : Grammar := #[
    ⟨true, {}, .seq [3, 10]⟩,  -- 0: n0
    ⟨true, {}, .sor [12, 17]⟩,  -- 1: n1
    ⟨true, {}, .seq [23, 25, 27, 29]⟩,  -- 2: n2
    ⟨true, {}, .ifThenElse 4 6 7⟩,  -- 3: if_then_else< at< one< char(97) > >, plus< one< char(97) > >, rep_min_max< 1, 2, one< char(98) > > >
    ⟨true, {}, .atR 5⟩,  -- 4: at< one< char(97) > >
    ⟨true, {}, .atom (.one true [97])⟩,  -- 5: one< char(97) >
    ⟨true, {}, .plus 5⟩,  -- 6: plus< one< char(97) > >
    ⟨true, {}, .repMinMax 1 2 8 9⟩,  -- 7: rep_min_max< 1, 2, one< char(98) > >
    ⟨true, {}, .atom (.one true [98])⟩,  -- 8: one< char(98) >
    ⟨false, {}, .notAt 8⟩,  -- 9: internal::not_at< one< char(98) > >
    ⟨true, {}, .until2 11 1⟩,  -- 10: until< eof, n1 >
    ⟨true, {}, .atom .eof⟩,  -- 11: eof
    ⟨true, {}, .rematch 13 [15]⟩,  -- 12: rematch< plus< range< char(97), char(99) > >, not_at< string< char(97), char(97) > > >
    ⟨true, {}, .plus 14⟩,  -- 13: plus< range< char(97), char(99) > >
    ⟨true, {}, .atom (.range true 97 99)⟩,  -- 14: range< char(97), char(99) >
    ⟨true, {}, .notAt 16⟩,  -- 15: not_at< string< char(97), char(97) > >
    ⟨true, {}, .atom (.string [97, 97])⟩,  -- 16: string< char(97), char(97) >
    ⟨true, {}, .ifMust false 18 19⟩,  -- 17: if_must< one< char(99) >, n2, rep_opt< 2, one< char(98) > > >
    ⟨true, {}, .atom (.one true [99])⟩,  -- 18: one< char(99) >
    ⟨false, {}, .seq [20, 21]⟩,  -- 19: internal::must< n2, rep_opt< 2, one< char(98) > > >
    ⟨false, {}, .must 2⟩,  -- 20: internal::must< n2 >
    ⟨false, {}, .must 22⟩,  -- 21: internal::must< rep_opt< 2, one< char(98) > > >
    ⟨true, {}, .repOpt 2 8⟩,  -- 22: rep_opt< 2, one< char(98) > >
    ⟨true, {}, .ifMust true 8 24⟩,  -- 23: opt_must< one< char(98) >, one< char(97) > >
    ⟨false, {}, .must 5⟩,  -- 24: internal::must< one< char(97) > >
    ⟨true, {}, .tryCatchReturnFalse .parse 26⟩,  -- 25: try_catch_return_false< must< one< char(97) > > >
    ⟨true, {}, .must 5⟩,  -- 26: must< one< char(97) > >
    ⟨true, {}, .starPartial [28]⟩,  -- 27: star< disable< n0 > >
    ⟨true, {}, .disable 0⟩,  -- 28: disable< n0 >
    ⟨true, {}, .until1 30⟩,  -- 29: until< enable< one< char(99) > > >
    ⟨true, {}, .enable 18⟩]  -- 30: enable< one< char(99) > >

/-- The left-recursive witness really loops: no amount of fuel is enough, on any input. -/
theorem leftRec_loops (inp : Array UInt8) (a : AMode) (m : RMode) (env : Env) (st : St) :
    ∀ n, run (plainCtx gLeftRec inp) n 0 a m env st = none := by
  intro n
  induction n generalizing a m env st with
  | zero => rfl
  | succ n ih =>
    have h0 : (plainCtx gLeftRec inp).g[0]? = some (nd (.seq [0, 1])) := rfl
    have hact : (plainCtx gLeftRec inp).actOf env 0 (nd (.seq [0, 1])) = {} := actOf_plainCtx _ _ _ _ _ rfl
    simp only [run, nodeCall, h0, hact]
    simp only [nodeCore, nd, Bool.not_true, Bool.false_eq_true, if_false, body, seqAll, ih, Option.map_none]

end Pegtl
