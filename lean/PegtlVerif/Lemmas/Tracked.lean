/-
  Lemmas/Tracked.lean — eager position tracking agrees with a scan of the consumed prefix:
  the `bump_in_this_line` / `bump_to_next_line` shortcuts taken by the atoms are correct.
  (C06; the one exception is the `cr_crlf` policy — finding F11 — see Props/C06.lean.)
-/
import PegtlVerif.Model.Run
import PegtlVerif.Lemmas.Input
import PegtlVerif.Lemmas.MultiByte

namespace Pegtl

/-- The cursor a scan of the first `p` bytes produces (what a lazy input reports). -/
def scanTo (cx : Ctx) (p : Nat) : Cursor := bumpScan cx.inp cx.eol.ch p ⟨0, cx.init.line, cx.init.col⟩

/-- Atoms whose position tracking is covered by `atomStep_tracked`: all of them (the multi-byte UTF-8 atom and the
    digit-run atom of `maximum_rule` included, see `Lemmas/MultiByte.lean`). -/
def Atom.byteAtom : Atom → Bool := fun _ => true

/-- Table condition for the tracking theorems (kept for the statement's shape; it holds for every table, `byteTable_all`). -/
def ByteTable (g : Grammar) : Prop :=
  ∀ (i : Nat) (nd : Node) (a : Atom), g[i]? = some nd → nd.kind = .atom a → a.byteAtom = true

/-- The configurations for which eager tracking is claimed to agree with a scan: every end-of-line
    policy except `cr_crlf` (finding F11), byte-oriented atoms. -/
def TrackOK (cx : Ctx) : Prop := cx.eol ≠ .crCrlf ∧ ByteTable cx.g

/-- An eagerly tracked cursor is *tracked* if its line and column are those of a scan
    (claimed only under `TrackOK`, so that the invariant can be carried through any run). -/
def Tracked (cx : Ctx) (c : Cursor) : Prop := TrackOK cx → c = scanTo cx c.pos

theorem bumpScan_add (inp : Array UInt8) (ch : UInt8) (a b : Nat) (c : Cursor) :
    bumpScan inp ch (a + b) c = bumpScan inp ch b (bumpScan inp ch a c) := by
  induction a generalizing c with
  | zero => simp [bumpScan]
  | succ k ih =>
    have : k + 1 + b = (k + b) + 1 := by omega
    rw [this]
    simp only [bumpScan]
    exact ih _

theorem tracked_start (cx : Ctx) : Tracked cx cx.start.cur := by
  intro _; simp [scanTo, Ctx.start, bumpScan]

/-- `bump( n )` always keeps a tracked cursor tracked. -/
theorem tracked_bumpScan (cx : Ctx) (c : Cursor) (n : Nat) (h : Tracked cx c) :
    Tracked cx (bumpScan cx.inp cx.eol.ch n c) := by
  intro hok
  have h := h hok
  rw [bumpScan_pos]
  unfold scanTo at *
  rw [bumpScan_add, ← h]

/-- Scanning `n` bytes none of which is the end-of-line character stays in the line. -/
theorem bumpScan_noCh (inp : Array UInt8) (ch : UInt8) (n : Nat) (c : Cursor)
    (h : ∀ k, k < n → inp.getD (c.pos + k) 0 ≠ ch) : bumpScan inp ch n c = bumpInThisLineC n c := by
  induction n generalizing c with
  | zero => simp [bumpScan, bumpInThisLineC]
  | succ k ih =>
    simp only [bumpScan]
    have h0 := h 0 (by omega)
    simp only [Nat.add_zero] at h0
    simp only [h0, if_false]
    rw [ih]
    · simp [bumpInThisLineC]; omega
    · intro j hj
      have := h (j + 1) (by omega)
      simpa [Nat.add_assoc, Nat.add_comm 1 j] using this

theorem tracked_inThisLine (cx : Ctx) (c : Cursor) (n : Nat) (h : Tracked cx c)
    (hb : ∀ k, k < n → cx.inp.getD (c.pos + k) 0 ≠ cx.eol.ch) : Tracked cx (bumpInThisLineC n c) := by
  rw [← bumpScan_noCh cx.inp cx.eol.ch n c hb]
  exact tracked_bumpScan cx c n h

/-- One end-of-line character, or `x · ch` with `x ≠ ch`: the scan lands at column 1 of the next line. -/
theorem bumpScan_toNext1 (inp : Array UInt8) (ch : UInt8) (c : Cursor) (h : inp.getD c.pos 0 = ch) :
    bumpScan inp ch 1 c = bumpToNextLineC 1 c := by
  simp [bumpScan, h, bumpToNextLineC]

theorem bumpScan_toNext2 (inp : Array UInt8) (ch : UInt8) (c : Cursor) (h0 : inp.getD c.pos 0 ≠ ch)
    (h1 : inp.getD (c.pos + 1) 0 = ch) : bumpScan inp ch 2 c = bumpToNextLineC 2 c := by
  have h0' : inp[c.pos]?.getD 0 ≠ ch := by simpa using h0
  have h1' : inp[c.pos + 1]?.getD 0 = ch := by simpa using h1
  simp [bumpScan, h0', h1', bumpToNextLineC]

end Pegtl

namespace Pegtl

theorem eol_ch_cases (e : Eol) : e.ch = 10 ∨ e.ch = 13 := by cases e <;> simp [Eol.ch]

theorem cmpBytes_get (cx : Ctx) (eq : UInt8 → UInt8 → Bool) :
    ∀ (cs : List UInt8) (p : Nat), cmpBytes cx eq p cs = true →
      ∀ k (hk : k < cs.length), eq cs[k] (cx.inp.getD (p + k) 0) = true := by
  intro cs
  induction cs with
  | nil => intro p _ k hk; simp at hk
  | cons c cs ih =>
    intro p h k hk
    simp only [cmpBytes, Bool.and_eq_true] at h
    cases k with
    | zero => simpa using h.1
    | succ j =>
      have := ih (p + 1) h.2 j (by simpa using hk)
      simpa [Nat.add_assoc, Nat.add_comm 1 j] using this

theorem alpha_fold_ne : ∀ n, n < 256 →
    isAlphaB (UInt8.ofNat n) = true → (UInt8.ofNat n ||| 0x20) ≠ (10 ||| 0x20) ∧ (UInt8.ofNat n ||| 0x20) ≠ (13 ||| 0x20) := by
  decide +kernel

theorem icharEqual_eol (C c : UInt8) (hc : c = 10 ∨ c = 13) (h : icharEqual C c = true) : C = c := by
  unfold icharEqual at h
  split at h
  · rename_i ha
    have := alpha_fold_ne C.toNat C.toNat_lt (by simpa using ha)
    simp only [UInt8.ofNat_toNat] at this
    rcases hc with rfl | rfl
    · have h' : (C ||| 0x20) = (10 ||| 0x20) := by simpa using h
      exact absurd h' this.1
    · have h' : (C ||| 0x20) = (13 ||| 0x20) := by simpa using h
      exact absurd h' this.2
  · have : c = C := by simpa using h
    exact this.symm

@[simp] theorem ite_oob_cur (c : Prop) [Decidable c] (st : St) :
    (if c then st else ({ st with oob := true } : St)).cur = st.cur := by split <;> rfl

@[simp] theorem ite_oob_endp (c : Prop) [Decidable c] (st : St) :
    (if c then st else ({ st with oob := true } : St)).endp = st.endp := by split <;> rfl

@[simp] theorem ite_any_cur (c : Prop) [Decidable c] (a b : St) (h : b.cur = a.cur) :
    (if c then a else b).cur = a.cur := by split <;> simp [h]

theorem eolMatch_cur_cases (cx : Ctx) (st : St) :
    (eolMatch cx st).2.2.cur = st.cur ∨
    ((eolMatch cx st).2.2.cur = bumpToNextLineC 1 st.cur ∧
      (((cx.eol = .lf ∨ cx.eol = .lfCrlf) ∧ cx.inp[st.cur.pos]?.getD 0 = 10) ∨
       ((cx.eol = .cr ∨ cx.eol = .crCrlf) ∧ cx.inp[st.cur.pos]?.getD 0 = 13))) ∨
    ((eolMatch cx st).2.2.cur = bumpToNextLineC 2 st.cur ∧ cx.inp[st.cur.pos]?.getD 0 = 13 ∧
      cx.inp[st.cur.pos + 1]?.getD 0 = 10 ∧ (cx.eol = .crlf ∨ cx.eol = .lfCrlf ∨ cx.eol = .crCrlf)) := by
  unfold eolMatch
  by_cases h0 : st.avail > 0 <;> by_cases h1 : st.avail > 1 <;>
  by_cases a10 : cx.inp[st.cur.pos]?.getD 0 = 10 <;> by_cases a13 : cx.inp[st.cur.pos]?.getD 0 = 13 <;>
  by_cases b10 : cx.inp[st.cur.pos + 1]?.getD 0 = 10 <;>
  cases cx.eol <;>
  simp [rd, bumpToNextLine, bumpToNextLineC, markOob, h0, h1, a10, a13, b10] <;>
  (try (split <;> simp))

theorem eolMatch_tracked (cx : Ctx) (st : St) (ht : Tracked cx st.cur) :
    Tracked cx (eolMatch cx st).2.2.cur := by
  intro hok
  have hne := hok.1
  revert hok
  show Tracked cx _
  rcases eolMatch_cur_cases cx st with h | ⟨h, hc⟩ | ⟨h, h13, h10, hc⟩
  · rw [h]; exact ht
  · rw [h, ← bumpScan_toNext1 cx.inp cx.eol.ch st.cur]
    · exact tracked_bumpScan cx _ _ ht
    · rcases hc with ⟨he | he, hb⟩ | ⟨he | he, hb⟩
      · simpa [he, Eol.ch] using hb
      · simpa [he, Eol.ch] using hb
      · simpa [he, Eol.ch] using hb
      · exact absurd he hne
  · rw [h, ← bumpScan_toNext2 cx.inp cx.eol.ch st.cur]
    · exact tracked_bumpScan cx _ _ ht
    · rcases hc with he | he | he
      · simp [he, Eol.ch, h13]
      · simp [he, Eol.ch, h13]
      · exact absurd he hne
    · rcases hc with he | he | he
      · simpa [he, Eol.ch] using h10
      · simpa [he, Eol.ch] using h10
      · exact absurd he hne

end Pegtl

namespace Pegtl

@[simp] theorem bump_cur (cx : Ctx) (st : St) (n : Nat) : (bump cx st n).cur = bumpScan cx.inp cx.eol.ch n st.cur := by
  simp [bump]

@[simp] theorem bumpInThisLine_cur (st : St) (n : Nat) : (bumpInThisLine st n).cur = bumpInThisLineC n st.cur := by
  simp [bumpInThisLine]

/-- `bump_help`: the shortcut is taken only when no accepted byte can be the eol character. -/
theorem bumpHelp_tracked (cx : Ctx) (t : Bool) (st : St) (n : Nat) (ht : Tracked cx st.cur)
    (hb : t = false → ∀ k, k < n → cx.inp.getD (st.cur.pos + k) 0 ≠ cx.eol.ch) :
    Tracked cx (bumpHelp cx t st n).cur := by
  unfold bumpHelp
  split
  · simpa using tracked_bumpScan cx _ n ht
  · rename_i hf
    simpa using tracked_inThisLine cx _ n ht (hb (by simpa using hf))

/-- The single-byte rules `one`, `range`, `ranges`: accept the next byte by a test, and take the
    `bump_in_this_line` shortcut exactly when the test rejects the eol character. -/
theorem single_tracked (cx : Ctx) (st : St) (ht : Tracked cx st.cur) (acc : UInt8 → Bool) :
    Tracked cx (if acc (rd cx st 0).1 = true then (true, bumpHelp cx (acc cx.eol.ch) (rd cx st 0).2 1)
      else (false, (rd cx st 0).2)).2.cur := by
  by_cases hacc : acc (rd cx st 0).1 = true
  · simp only [hacc, if_true]
    apply bumpHelp_tracked
    · simpa using ht
    · intro hta k hk
      have hk0 : k = 0 := by omega
      subst hk0
      intro heq
      have : (rd cx st 0).1 = cx.eol.ch := by simpa [rd] using heq
      rw [this] at hacc
      rw [hacc] at hta
      exact absurd hta (by simp)
  · simp only [hacc]
    simpa using ht

theorem atomStep_tracked (cx : Ctx) (a : Atom) (st : St) (hb : TrackOK cx → a.byteAtom = true)
    (ht : Tracked cx st.cur) : Tracked cx (atomStep cx a st).2.cur := by
  intro hok
  have hb := hb hok
  revert hok
  show Tracked cx _
  have hch := eol_ch_cases cx.eol
  cases a with
  | any =>
    simp only [atomStep]; split
    · exact ht
    · simpa using tracked_bumpScan cx _ 1 ht
  | one found cs =>
    simp only [atomStep]; split
    · exact ht
    · exact single_tracked cx st ht (fun c => cs.contains c == found)
  | range found lo hi =>
    simp only [atomStep]; split
    · exact ht
    · exact single_tracked cx st ht (fun c => (lo ≤ c && c ≤ hi) == found)
  | ranges rs single =>
    simp only [atomStep]; split
    · exact ht
    · exact single_tracked cx st ht (fun c => inRanges rs single c)
  | string cs =>
    simp only [atomStep]
    by_cases hsz : st.avail ≥ cs.length
    · by_cases hc : cmpBytes cx (fun x1 x2 => x1 == x2) st.cur.pos cs = true
      · simp only [hsz, hc, if_true]
        apply bumpHelp_tracked _ _ _ _ ht
        intro hta k hk
        have hget := cmpBytes_get cx _ cs st.cur.pos hc k hk
        simp only [beq_iff_eq] at hget
        rw [← hget]
        intro heq
        simp only [Atom.testAny] at hta
        have : cs.contains cx.eol.ch = true := by
          rw [← heq]; exact List.contains_iff_mem.mpr (List.getElem_mem hk)
        rw [this] at hta; exact absurd hta (by simp)
      · simp only [hsz, hc, if_true]; exact ht
    · simp only [hsz, if_false]; exact ht
  | istring cs =>
    simp only [atomStep]
    by_cases hsz : st.avail ≥ cs.length
    · by_cases hc : cmpBytes cx icharEqual st.cur.pos cs = true
      · simp only [hsz, hc, if_true]
        apply bumpHelp_tracked _ _ _ _ ht
        intro hta k hk
        have hget := cmpBytes_get cx _ cs st.cur.pos hc k hk
        intro heq
        have hC := icharEqual_eol _ _ (by rw [heq]; exact hch) hget
        simp only [Atom.testAny] at hta
        have : cs.contains cx.eol.ch = true := by
          rw [← heq, ← hC]; exact List.contains_iff_mem.mpr (List.getElem_mem hk)
        rw [this] at hta; exact absurd hta (by simp)
      · simp only [hsz, hc, if_true]; exact ht
    · simp only [hsz, if_false]; exact ht
  | bytes n =>
    simp only [atomStep]
    by_cases hsz : st.avail ≥ n
    · simp only [hsz, if_true]; simpa using tracked_bumpScan cx _ n ht
    · simp only [hsz, if_false]; exact ht
  | eof => exact ht
  | bof => exact ht
  | bol => exact ht
  | eol => simp only [atomStep]; exact eolMatch_tracked cx st ht
  | eolf => simp only [atomStep]; exact eolMatch_tracked cx st ht
  | success => exact ht
  | failure => exact ht
  | everything => simp only [atomStep]; simpa using tracked_bumpScan cx _ _ ht
  | require n => exact ht
  | utf8Range found lo hi =>
    simp only [atomStep]
    split
    · rename_i cp n hpk
      split
      · obtain ⟨h1, hlen, hone, hmulti⟩ := Utf.peekUtf8_bytes _ cp n hpk
        apply bumpHelp_tracked _ _ _ _ ht
        intro hta k hk
        have hw : (windowBytes cx st).getD k 0 = cx.inp.getD (st.cur.pos + k) 0 :=
          windowBytes_getD cx st k (by omega)
        rw [← hw]
        intro heq
        by_cases hn : n = 1
        · have hk0 : k = 0 := by omega
          subst hk0
          obtain ⟨hcp, -⟩ := hone hn
          rename_i hacc
          have : cp = cx.eol.ch.toNat := by rw [hcp, heq]
          rw [this] at hacc
          simp only [Atom.testAny] at hta
          rw [hacc] at hta
          exact absurd hta (by simp)
        · have := hmulti (by omega) k hk
          rw [heq] at this
          rcases hch with h | h <;> rw [h] at this <;> simp at this
      · exact ht
    · exact ht
  | repOne lo hi c =>
    simp only [atomStep]
    split
    · exact ht
    · split
      · apply bumpHelp_tracked _ _ _ _ ht
        intro hta k hk
        have hle := takeWhile_length_le (· == c) ((windowBytes cx st).take (hi + 1))
        have hle2 : ((windowBytes cx st).take (hi + 1)).length ≤ (windowBytes cx st).length := by
          simp only [List.length_take]; omega
        have hw : (windowBytes cx st).getD k 0 = cx.inp.getD (st.cur.pos + k) 0 :=
          windowBytes_getD cx st k (by omega)
        rw [← hw]
        have hd := takeWhile_getD (· == c) ((windowBytes cx st).take (hi + 1)) k 0 hk
        have htk : ((windowBytes cx st).take (hi + 1)).getD k 0 = (windowBytes cx st).getD k 0 := by
          have hk2 : k < hi + 1 := by
            have : ((windowBytes cx st).take (hi + 1)).length ≤ hi + 1 := by simp only [List.length_take]; omega
            omega
          simp [List.getD, List.getElem?_take, hk2]
        rw [htk] at hd
        intro heq
        rw [heq] at hd
        simp only [Atom.testAny] at hta
        have : cx.eol.ch = c := by simpa using hd
        rw [this] at hta
        simp at hta
      · exact ht
  | maxDigits mx =>
    simp only [atomStep]
    split
    · exact ht
    · split
      · exact ht
      · split
        · simp only [bumpInThisLine_cur]
          apply tracked_inThisLine cx _ _ ht
          intro k hk
          have hle := takeWhile_length_le isDigitB (windowBytes cx st)
          have hw : (windowBytes cx st).getD k 0 = cx.inp.getD (st.cur.pos + k) 0 :=
            windowBytes_getD cx st k (by omega)
          rw [← hw]
          have hd := takeWhile_getD isDigitB (windowBytes cx st) k 0 hk
          intro heq
          rw [heq] at hd
          rcases hch with h | h <;> rw [h] at hd <;> simp [isDigitB] at hd
        · exact ht

theorem byteTable_all (g : Grammar) : ByteTable g := fun _ _ _ _ _ => rfl

theorem trackOK_iff (cx : Ctx) : TrackOK cx ↔ cx.eol ≠ .crCrlf :=
  ⟨fun h => h.1, fun h => ⟨h, byteTable_all cx.g⟩⟩

end Pegtl
