/-
  Lemmas/Switch.lean — which action family and which apply mode every invocation and every action call
  gets is determined by the chain of enclosing invocations alone: a stack automaton over the event
  trace that recomputes both from the rule table, and the proof that every trace of the model is
  accepted by it (C13, last sentence: a switch affects exactly the sub-tree of the rule it is
  attached to and nothing after it).
-/
import PegtlVerif.Lemmas.RawClosureX

namespace Pegtl

/-- What an open invocation determines for what happens directly inside it. -/
structure EFrame where
  id : Nat
  cA : AMode        -- apply mode its sub-rules are invoked with
  cfam : Nat        -- action family its sub-rules are invoked with
  cctl : Nat        -- control family its sub-rules are invoked through
  hctl : Nat        -- control family whose hooks (`start`, …) run for this invocation
  act : Bool        -- may the action of rule `id` be called in this invocation?
  deriving DecidableEq, Repr

/-- The frame of an invocation of rule `i` entered with apply mode `a` while the action family is `fam`:
    `change_action` / `change_action_and_state` re-enter the same rule with the new family; `disable_action` /
    `enable_action` fix the mode for the rule's own action and its sub-tree; `at`, `not_at`, `disable`
    switch actions off and `enable` on for the sub-tree; `action< F, R >` switches the family for the
    sub-tree. -/
def frameOf (cx : Ctx) (fam ctl : Nat) (i : Nat) (a : AMode) : EFrame :=
  match cx.g[i]? with
  | none => ⟨i, a, fam, ctl, ctl, false⟩
  | some nd =>
    let spec := cx.actOf { fam := fam } i nd
    match spec.wrap with
    | .changeAction f => ⟨i, a, f, ctl, ctl, false⟩
    | .changeActionAndState f _ => ⟨i, a, f, ctl, ctl, false⟩
    | w =>
      let bodyA := match w with
        | .disableAction => AMode.nothing
        | .enableAction => AMode.action
        | _ => a
      let h := match w with
        | .changeControl k => k
        | _ => ctl
      ⟨i, nd.kind.childMode bodyA, (nd.kind.childEnv { fam := fam }).fam, (nd.kind.childEnv { ctl := h }).ctl, h,
        nd.ctl && hasAction bodyA spec⟩

def envStep (cx : Ctx) (s : List EFrame) : Ev → Option (List EFrame)
  | .enter i a _ _ k =>
    match s with
    | top :: _ => if a = top.cA ∧ k = top.cctl then some (frameOf cx top.cfam top.cctl i a :: s) else none
    | [] => none
  | .start i _ k =>
    match s with
    | f :: _ => if f.id = i ∧ f.hctl = k then some s else none
    | [] => none
  | .exit i _ _ =>
    match s with
    | f :: rest => if f.id = i then some rest else none
    | [] => none
  | .apply i _ _ _ =>
    match s with
    | f :: _ => if f.id = i ∧ f.act = true then some s else none
    | [] => none
  | .apply0 i _ _ =>
    match s with
    | f :: _ => if f.id = i ∧ f.act = true then some s else none
    | [] => none
  | _ => some s

def runEnv (cx : Ctx) : List EFrame → List Ev → Option (List EFrame)
  | s, [] => some s
  | s, e :: es => match envStep cx s e with
    | some s' => runEnv cx s' es
    | none => none

theorem runEnv_append (cx : Ctx) (s : List EFrame) (a b : List Ev) :
    runEnv cx s (a ++ b) = (runEnv cx s a).bind (fun s' => runEnv cx s' b) := by
  induction a generalizing s with
  | nil => rfl
  | cons e es ih =>
    simp only [List.cons_append, runEnv]
    cases envStep cx s e with
    | none => rfl
    | some s' => exact ih s'

/-- Accepted on top of the frame `F`, returning to it. -/
def AccOn (cx : Ctx) (F : EFrame) (l : List Ev) : Prop := ∀ stk, runEnv cx (F :: stk) l = some (F :: stk)

/-- A complete invocation entered with mode `a` under family `fam`: accepted below every frame that
    prescribes exactly that mode and family. -/
def EL (cx : Ctx) (a : AMode) (fam ctl : Nat) (l : List Ev) : Prop :=
  ∀ top : EFrame, top.cA = a → top.cfam = fam → top.cctl = ctl → AccOn cx top l

def Ev.switchNeutral : Ev → Bool
  | .enter _ _ _ _ _ | .exit _ _ _ | .apply _ _ _ _ | .apply0 _ _ _ | .start _ _ _ => false
  | _ => true

theorem AccOn.nil (cx : Ctx) (F : EFrame) : AccOn cx F [] := fun _ => rfl

theorem AccOn.app {cx : Ctx} {F : EFrame} {a b : List Ev} (ha : AccOn cx F a) (hb : AccOn cx F b) : AccOn cx F (a ++ b) := by
  intro stk
  rw [runEnv_append, ha stk]
  exact hb stk

theorem AccOn.neutral (cx : Ctx) (F : EFrame) {e : Ev} (h : e.switchNeutral = true) : AccOn cx F [e] := by
  intro stk
  cases e <;> simp_all [Ev.switchNeutral, runEnv, envStep]

theorem AccOn.cons {cx : Ctx} {F : EFrame} {e : Ev} {l : List Ev} (he : AccOn cx F [e]) (hl : AccOn cx F l) :
    AccOn cx F (e :: l) := by
  have := AccOn.app he hl
  simpa using this

theorem AccOn_closed (cx : Ctx) (F : EFrame) : RawClosedX (AccOn cx F) where
  nil := AccOn.nil cx F
  app := AccOn.app
  scope := by
    intro l d o ho h
    have hs : AccOn cx F [Ev.sctor d] := AccOn.neutral cx F rfl
    have hd : AccOn cx F [Ev.sdtor d] := AccOn.neutral cx F rfl
    have hoo : AccOn cx F o := by
      rcases ho with rfl | ⟨c, k, rfl⟩
      · exact AccOn.nil cx F
      · exact AccOn.neutral cx F rfl
    have := AccOn.app hs (AccOn.app h (AccOn.app hoo hd))
    simpa using this

theorem AccOn.act {cx : Ctx} {F : EFrame} (i : Nat) (act : ActionSpec) (sd : Nat) (b e : Cursor) (hid : F.id = i)
    (ha : F.act = true) : AccOn cx F [actEvent cx i act sd b e] := by
  intro stk
  unfold actEvent
  split <;> simp [runEnv, envStep, hid, ha]

theorem actOf_fam (cx : Ctx) (env : Env) (i : Nat) (nd : Node) : cx.actOf env i nd = cx.actOf { fam := env.fam } i nd := rfl

theorem childEnv_fam (k : Kind) (env : Env) : (k.childEnv env).fam = (k.childEnv { fam := env.fam }).fam := by
  cases k <;> rfl

theorem childEnv_ctl (k : Kind) (env : Env) : (k.childEnv env).ctl = (k.childEnv { ctl := env.ctl }).ctl := by
  cases k <;> rfl

def ERec (cx : Ctx) (rec : Rec) : Prop := ∀ j a m env st r, rec j a m env st = some r → EL cx a env.fam env.ctl r.raw

theorem actionOutcome_has {cx : Ctx} {i : Nat} {a : AMode} {act : ActionSpec} {s e : Cursor}
    (h : actionOutcome cx i a act s e ≠ .noAction) : hasAction a act = true := by
  unfold actionOutcome at h
  by_cases hh : hasAction a act = true
  · exact hh
  · simp [hh] at h

/-- The rule body and the match.hpp protocol around it, on top of the rule's own frame. -/
theorem nodeCore_switch {cx : Ctx} {rec : Rec} (hrec : ERec cx rec) (k i : Nat) (nd : Node) (a : AMode) (m : RMode)
    (env : Env) (st : St) (r : Ret) (F : EFrame) (hid : F.id = i) (hA : F.cA = nd.kind.childMode a)
    (hF : F.cfam = (nd.kind.childEnv env).fam) (hC : F.cctl = (nd.kind.childEnv env).ctl) (hH : F.hctl = env.ctl)
    (hact : nd.ctl = true → hasAction a (cx.actOf env i nd) = true → F.act = true)
    (h : nodeCore cx rec k i nd a m env st = some r) : AccOn cx F r.raw := by
  have hb : ∀ mm r1, body cx rec k nd.kind a mm env st = some r1 → AccOn cx F r1.raw := by
    intro mm r1 h1
    refine body_rawX (AccOn_closed cx F) cx k nd.kind a mm env ?_ (fun _ _ _ => AccOn.neutral cx F rfl)
      (fun _ acts b e => runActs_raw (AccOn.nil cx F) AccOn.app cx env.sd b e (fun _ => AccOn.neutral cx F rfl) acts) st r1 h1
    intro j _ m' st' r' hr'
    exact hrec j _ m' _ st' r' hr' F hA hF hC
  unfold nodeCore at h
  split at h
  · exact hb _ _ h
  · rename_i hctl
    have hctl : nd.ctl = true := by simpa using hctl
    simp only [Option.map_eq_some_iff] at h
    obtain ⟨r0, h0, rfl⟩ := h
    have q0 := hb _ _ h0
    simp only [guardRestore_raw]
    have hst : AccOn cx F [Ev.start i (cx.rep st.cur) env.ctl] := by
      intro stk; simp [runEnv, envStep, hid, hH]
    refine AccOn.cons hst ?_
    unfold afterBody
    split
    · refine AccOn.app q0 ?_
      split
      · exact AccOn.neutral cx F rfl
      · exact AccOn.nil cx F
    · exact failureHook_raw_closed AccOn.app (AccOn.neutral cx F rfl) (fun _ => AccOn.neutral cx F rfl) q0
    · simp only
      split
      · exact AccOn.app q0 (AccOn.neutral cx F rfl)
      · rename_i ho
        have hh := hact hctl (actionOutcome_has (by rw [ho]; simp))
        refine AccOn.app (AccOn.app q0 (AccOn.act i _ _ _ _ hid hh)) ?_
        split
        · exact AccOn.neutral cx F rfl
        · exact AccOn.nil cx F
      · rename_i ho
        have hh := hact hctl (actionOutcome_has (by rw [ho]; simp))
        exact failureHook_raw_closed AccOn.app (AccOn.neutral cx F rfl) (fun _ => AccOn.neutral cx F rfl)
          (AccOn.app q0 (AccOn.act i _ _ _ _ hid hh))
      · rename_i ho
        have hh := hact hctl (actionOutcome_has (by rw [ho]; simp))
        exact AccOn.app q0 (AccOn.cons (AccOn.act i _ _ _ _ hid hh) (AccOn.neutral cx F rfl))

theorem stateScope_acc {cx : Ctx} {F : EFrame} {o : Nat} {b : Bool} {r : Ret} (h : AccOn cx F r.raw) :
    AccOn cx F (stateScope cx o b r).raw := by
  unfold stateScope
  simp only
  split
  · exact (AccOn_closed cx F).scope _ _ (Or.inr ⟨_, _, rfl⟩) h
  · exact (AccOn_closed cx F).scope _ _ (Or.inl rfl) h

theorem nodeCall_switch {cx : Ctx} {rec : Rec} (hrec : ERec cx rec) (k i : Nat) (a : AMode) (m : RMode)
    (env : Env) (st : St) (r : Ret) (h : nodeCall cx rec k i a m env st = some r) : EL cx a env.fam env.ctl r.raw := by
  intro top hta htf htc stk
  unfold nodeCall at h
  split at h
  · exact absurd h (by simp)
  · rename_i nd hn
    simp only [Option.map_eq_some_iff] at h
    obtain ⟨r0, h0, rfl⟩ := h
    -- the frame the automaton pushes at `enter`
    let Fw : AMode → Nat → EFrame := fun bodyA h =>
      ⟨i, nd.kind.childMode bodyA, (nd.kind.childEnv { fam := env.fam }).fam, (nd.kind.childEnv { ctl := h }).ctl, h,
        nd.ctl && hasAction bodyA (cx.actOf env i nd)⟩
    have core : ∀ (aa : AMode) (env' : Env) (st' : St) (r1 : Ret), env'.fam = env.fam →
        nodeCore cx rec k i nd aa m env' st' = some r1 → AccOn cx (Fw aa env'.ctl) r1.raw := by
      intro aa env' st' r1 hfam h1
      have hspec' : cx.actOf env' i nd = cx.actOf env i nd := by
        rw [actOf_fam cx env', actOf_fam cx env, hfam]
      refine nodeCore_switch hrec k i nd aa m env' st' r1 (Fw aa env'.ctl) rfl rfl ?_ ?_ rfl ?_ h1
      · show (nd.kind.childEnv { fam := env.fam }).fam = (nd.kind.childEnv env').fam
        rw [childEnv_fam nd.kind env', hfam]
      · show (nd.kind.childEnv { ctl := env'.ctl }).ctl = (nd.kind.childEnv env').ctl
        rw [childEnv_ctl nd.kind env']
      · intro hc hh
        show (nd.ctl && hasAction aa (cx.actOf env i nd)) = true
        rw [hspec'] at hh
        simp [hc, hh]
    have hframe : ∃ F, frameOf cx top.cfam top.cctl i a = F ∧ AccOn cx F r0.raw ∧ F.id = i := by
      rw [htf, htc]
      have hspec : cx.actOf env i nd = cx.actOf { fam := env.fam } i nd := rfl
      unfold frameOf
      simp only [hn]
      rw [← hspec]
      split at h0
      · rename_i hw
        simp only [hw]
        exact ⟨_, rfl, core a env st r0 rfl h0, rfl⟩
      · rename_i f hw
        simp only [hw]
        exact ⟨_, rfl, hrec _ _ _ _ _ _ h0 _ rfl rfl rfl, rfl⟩
      · rename_i hw
        simp only [hw]
        exact ⟨_, rfl, core .nothing env st r0 rfl h0, rfl⟩
      · rename_i hw
        simp only [hw]
        exact ⟨_, rfl, core .action env st r0 rfl h0, rfl⟩
      · rename_i n hw
        simp only [hw]
        refine ⟨_, rfl, ?_, rfl⟩
        unfold limitDepthCall at h0
        split at h0
        · simp only [Option.some.injEq] at h0; subst h0
          exact AccOn.neutral cx _ rfl
        · simp only [Option.map_eq_some_iff] at h0
          obtain ⟨r1, h1, rfl⟩ := h0
          exact core a env _ r1 rfl h1
      · rename_i n hw
        simp only [hw]
        refine ⟨_, rfl, ?_, rfl⟩
        unfold limitBytesCall at h0
        simp only [Option.map_eq_some_iff] at h0
        obtain ⟨r1, h1, rfl⟩ := h0
        have q := core a env _ r1 rfl h1
        split
        · exact AccOn.app q (AccOn.neutral cx _ rfl)
        · exact q
      · rename_i mu hw
        simp only [hw]
        refine ⟨_, rfl, ?_, rfl⟩
        simp only [Option.map_eq_some_iff] at h0
        obtain ⟨r1, h1, rfl⟩ := h0
        exact stateScope_acc (core a { env with sd := env.sd + 1 } st r1 rfl h1)
      · rename_i f mu hw
        simp only [hw]
        simp only [Option.map_eq_some_iff] at h0
        obtain ⟨r1, h1, rfl⟩ := h0
        exact ⟨_, rfl, stateScope_acc (hrec _ _ _ _ _ _ h1 _ rfl rfl rfl), rfl⟩
      · rename_i kc hw
        simp only [hw]
        exact ⟨_, rfl, core a { env with ctl := kc } st r0 rfl h0, rfl⟩
    obtain ⟨F, hF, hacc, hid⟩ := hframe
    rw [htc] at hF
    simp only [bracket, dropOnFail_raw, List.cons_append, runEnv, envStep, hta, htc, and_self, if_true, hF]
    rw [runEnv_append, hacc (top :: stk)]
    simp [runEnv, envStep, hid]

theorem run_switch (cx : Ctx) : ∀ n, ERec cx (run cx n) := by
  intro n
  induction n with
  | zero => intro j a m env st r h; simp [run] at h
  | succ n ih =>
    intro j a m env st r h
    simp only [run] at h
    exact nodeCall_switch ih n j a m env st r h

end Pegtl
