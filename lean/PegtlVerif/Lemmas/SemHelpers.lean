/-
  Lemmas/SemHelpers.lean — the list and loop helpers of Model/Run.lean refine the
  corresponding expressions of the formalism.
-/
import PegtlVerif.Lemmas.SemSound

namespace Pegtl
open Pegtl.Spec

/-- `match r.res with | .fail => { r with res := .ok } | _ => r` as used by `partial` and the loops. -/
def failToOk (r : Ret) : Ret :=
  match r.res with
  | .fail => { r with res := .ok }
  | _ => r

theorem failToOk_st (r : Ret) : (failToOk r).st = r.st := by
  unfold failToOk; split <;> rfl

section helpers
variable {cx : Ctx} {rec : Rec} (hg : GoodRec rec) (hs : SRec cx rec)
include hg hs

theorem seqAll_sem (a : AMode) (m : RMode) (env : Env) :
    ∀ (cs : List Nat) (st : St) (r : Ret), Valid cx st → seqAll rec a m env cs st = some r →
      SemR cx st.endp (seqL (cs.map .ref)) st.cur.pos r := by
  intro cs
  induction cs with
  | nil =>
    intro st r hv h
    simp only [seqAll, Option.some.injEq] at h
    subst h
    exact ⟨.ok st.cur.pos, rfl, .eps⟩
  | cons c cs ih =>
    intro st r hv h
    simp only [seqAll] at h
    split at h
    · exact absurd h (by simp)
    · rename_i r1 h1
      have g1 := hg _ _ _ _ _ _ h1
      obtain ⟨o1, ho1, s1⟩ := hs _ _ _ _ _ _ hv h1
      split at h
      · rename_i hok
        split at h
        · exact absurd h (by simp)
        · rename_i r2 h2
          simp only [Option.some.injEq] at h
          subst h
          obtain ⟨o2, ho2, s2⟩ := ih _ _ (hv.of_weak g1.toWeak) h2
          rw [absO_ok hok] at ho1
          cases ho1
          rw [g1.endp] at s2
          exact ⟨o2, ho2, .seqOk s1 s2⟩
      · rename_i hnok
        simp only [Option.some.injEq] at h
        subst h
        exact ⟨o1, ho1, Sem.seq_stop s1 (absO_notOk ho1 (by intro h'; exact hnok h'))⟩

/-- `partial< R... >` : the longest successful prefix, always succeeding. -/
theorem seqAll_partial (a : AMode) (env : Env) :
    ∀ (cs : List Nat) (st : St) (r : Ret), Valid cx st → seqAll rec a .required env cs st = some r →
      SemR cx st.endp ((expandKind.partialE (cs.map .ref)).opt) st.cur.pos (failToOk r) := by
  intro cs
  induction cs with
  | nil =>
    intro st r hv h
    simp only [seqAll, Option.some.injEq] at h
    subst h
    exact ⟨.ok st.cur.pos, rfl, .altOk .eps⟩
  | cons c cs ih =>
    intro st r hv h
    simp only [seqAll] at h
    split at h
    · exact absurd h (by simp)
    · rename_i r1 h1
      have g1 := hg _ _ _ _ _ _ h1
      obtain ⟨o1, ho1, s1⟩ := hs _ _ _ _ _ _ hv h1
      split at h
      · rename_i hok
        split at h
        · exact absurd h (by simp)
        · rename_i r2 h2
          simp only [Option.some.injEq] at h
          subst h
          obtain ⟨o2, ho2, s2⟩ := ih _ _ (hv.of_weak g1.toWeak) h2
          rw [absO_ok hok] at ho1
          cases ho1
          rw [g1.endp] at s2
          have hne : o2 ≠ .fail := by
            apply absO_ne_fail ho2
            unfold failToOk; split <;> simp_all
          refine ⟨o2, ?_, Sem.opt_of (.seqOk s1 s2) hne⟩
          rw [← ho2]
          apply absO_congr
          · unfold failToOk; simp only [prepend_res]; split <;> rfl
          · simp [failToOk_st]
      · rename_i hnok
        simp only [Option.some.injEq] at h
        subst h
        cases hr : r1.res with
        | ok => exact absurd hr (by intro h'; exact hnok h')
        | fail =>
          rw [absO_fail hr] at ho1
          cases ho1
          refine ⟨.ok st.cur.pos, ?_, Sem.opt_fail (.seqFail s1)⟩
          have hc := g1.failCur hr rfl
          simp [absO, failToOk, hr, hc]
        | thr x =>
          have hft : failToOk r1 = r1 := by simp [failToOk, hr]
          rw [hft]
          refine ⟨o1, ho1, Sem.opt_of (Sem.seq_stop s1 (absO_notOk ho1 (by simp [hr]))) (absO_ne_fail ho1 (by simp [hr]))⟩

theorem sorAny_sem (a : AMode) (m : RMode) (env : Env) :
    ∀ (cs : List Nat) (st : St) (r : Ret), Valid cx st → sorAny rec a m env cs st = some r →
      SemR cx st.endp (altL (cs.map .ref)) st.cur.pos r := by
  intro cs
  induction cs with
  | nil =>
    intro st r hv h
    simp only [sorAny, Option.some.injEq] at h
    subst h
    exact ⟨.fail, rfl, .failE⟩
  | cons c cs ih =>
    intro st r hv h
    cases cs with
    | nil =>
      simp only [sorAny] at h
      obtain ⟨o1, ho1, s1⟩ := hs _ _ _ _ _ _ hv h
      refine ⟨o1, ho1, ?_⟩
      cases o1 with
      | ok q => exact .altOk s1
      | fail => exact .altFail s1 .failE
      | err b => exact .altErr s1
    | cons c' cs' =>
      simp only [sorAny] at h
      split at h
      · exact absurd h (by simp)
      · rename_i r1 h1
        have g1 := hg _ _ _ _ _ _ h1
        obtain ⟨o1, ho1, s1⟩ := hs _ _ _ _ _ _ hv h1
        split at h
        · rename_i hf
          split at h
          · exact absurd h (by simp)
          · rename_i r2 h2
            simp only [Option.some.injEq] at h
            subst h
            obtain ⟨o2, ho2, s2⟩ := ih _ _ (hv.of_weak g1.toWeak) h2
            rw [absO_fail hf] at ho1
            cases ho1
            rw [g1.endp, g1.failCur hf rfl] at s2
            exact ⟨o2, ho2, .altFail s1 s2⟩
        · rename_i hnf
          simp only [Option.some.injEq] at h
          subst h
          exact ⟨o1, ho1, Sem.alt_stop s1 (absO_ne_fail ho1 (by intro h'; exact hnf h'))⟩

/-- `star< R >`. -/
theorem loopStar1_sem (a : AMode) (env : Env) (c : Nat) :
    ∀ (k : Nat) (st : St) (r : Ret), Valid cx st → loopStar rec a env [c] k st = some r →
      SemR cx st.endp (.star (.ref c)) st.cur.pos r := by
  intro k
  induction k with
  | zero => intro st r _ h; simp [loopStar] at h
  | succ k ih =>
    intro st r hv h
    simp only [loopStar, seqAll] at h
    split at h
    · exact absurd h (by simp)
    · rename_i r1' h1'
      -- `seqAll [c]` is the child call, re-labelled
      split at h1'
      · exact absurd h1' (by simp)
      · rename_i r1 h1
        have g1 := hg _ _ _ _ _ _ h1
        obtain ⟨o1, ho1, s1⟩ := hs _ _ _ _ _ _ hv h1
        split at h1'
        · rename_i hok
          simp only [Option.some.injEq] at h1'
          subst h1'
          simp only [prepend_res, hok, prepend_st] at h
          split at h
          · exact absurd h (by simp)
          · rename_i r2 h2
            simp only [Option.some.injEq] at h
            subst h
            obtain ⟨o2, ho2, s2⟩ := ih _ _ (hv.of_weak g1.toWeak) h2
            rw [absO_ok hok] at ho1
            cases ho1
            rw [g1.endp] at s2
            exact ⟨o2, ho2, .starStep s1 s2⟩
        · rename_i hnok
          simp only [Option.some.injEq] at h1'
          subst h1'
          cases hr : r1.res with
          | ok => exact absurd hr (by intro h'; exact hnok h')
          | fail =>
            simp only [hr, Option.some.injEq] at h
            subst h
            rw [absO_fail hr] at ho1
            cases ho1
            have hc := g1.failCur hr rfl
            exact ⟨.ok st.cur.pos, by simp [absO, hc], .starDone s1⟩
          | thr x =>
            simp only [hr, Option.some.injEq] at h
            subst h
            obtain ⟨x', hx', hb⟩ : ∃ b, o1 = .err b := by
              have := absO_notOk ho1 (by simp [hr])
              have := absO_ne_fail ho1 (by simp [hr])
              cases o1 <;> simp_all [Outcome.notOk]
            exact ⟨_, ho1, .starErr s1⟩


/-- `star_partial< R... >` (and `star< R... >` through its hidden `seq`). -/
theorem loopStarN_sem (a : AMode) (env : Env) (cs : List Nat) :
    ∀ (k : Nat) (st : St) (r : Ret), Valid cx st → loopStar rec a env cs k st = some r →
      SemR cx st.endp (.seq (.star (seqL (cs.map .ref))) ((expandKind.partialE (cs.map .ref)).opt)) st.cur.pos r := by
  intro k
  induction k with
  | zero => intro st r _ h; simp [loopStar] at h
  | succ k ih =>
    intro st r hv h
    simp only [loopStar] at h
    split at h
    · exact absurd h (by simp)
    · rename_i r1 h1
      have w1 := seqAll_weak hg a .required env cs st r1 h1
      obtain ⟨o1, ho1, s1⟩ := seqAll_sem hg hs a .required env cs st r1 hv h1
      split at h
      · rename_i hok
        split at h
        · exact absurd h (by simp)
        · rename_i r2 h2
          simp only [Option.some.injEq] at h
          subst h
          obtain ⟨o2, ho2, s2⟩ := ih _ _ (hv.of_weak w1) h2
          rw [absO_ok hok] at ho1
          cases ho1
          rw [w1.endp] at s2
          exact ⟨o2, ho2, Sem.star_seq_step s1 s2⟩
      · rename_i hf
        simp only [Option.some.injEq] at h
        subst h
        rw [absO_fail hf] at ho1
        cases ho1
        obtain ⟨o3, ho3, s3⟩ := seqAll_partial hg hs a env cs st r1 hv h1
        have hft : failToOk r1 = { r1 with res := .ok } := by simp [failToOk, hf]
        rw [hft] at ho3
        exact ⟨o3, ho3, .seqOk (.starDone s1) s3⟩
      · rename_i x hx
        simp only [Option.some.injEq] at h
        subst h
        have hn := absO_notOk ho1 (by simp [hx])
        have hnf := absO_ne_fail ho1 (by simp [hx])
        cases o1 with
        | ok q => exact hn.elim
        | fail => exact absurd rfl hnf
        | err b => exact ⟨_, ho1, .seqErr (.starErr s1)⟩

theorem repN_sem (a : AMode) (m : RMode) (env : Env) (c : Nat) :
    ∀ (k : Nat) (st : St) (r : Ret), Valid cx st → repN rec a m env c k st = some r →
      SemR cx st.endp (repE k (.ref c)) st.cur.pos r := by
  intro k
  induction k with
  | zero =>
    intro st r hv h
    simp only [repN, Option.some.injEq] at h
    subst h
    exact ⟨.ok st.cur.pos, rfl, .eps⟩
  | succ k ih =>
    intro st r hv h
    simp only [repN] at h
    split at h
    · exact absurd h (by simp)
    · rename_i r1 h1
      have g1 := hg _ _ _ _ _ _ h1
      obtain ⟨o1, ho1, s1⟩ := hs _ _ _ _ _ _ hv h1
      split at h
      · rename_i hok
        split at h
        · exact absurd h (by simp)
        · rename_i r2 h2
          simp only [Option.some.injEq] at h
          subst h
          obtain ⟨o2, ho2, s2⟩ := ih _ _ (hv.of_weak g1.toWeak) h2
          rw [absO_ok hok] at ho1
          cases ho1
          rw [g1.endp] at s2
          exact ⟨o2, ho2, .seqOk s1 s2⟩
      · rename_i hnok
        simp only [Option.some.injEq] at h
        subst h
        exact ⟨o1, ho1, Sem.seq_stop s1 (absO_notOk ho1 (by intro h'; exact hnok h'))⟩

/-- `rep_opt< n, R >`; when the loop stopped early, `R` fails where it stopped. -/
theorem repUpTo_sem (a : AMode) (env : Env) (c : Nat) :
    ∀ (k : Nat) (st : St) (r : Ret) (full : Bool), Valid cx st → repUpTo rec a env c k st = some (r, full) →
      SemR cx st.endp (repOptE k (.ref c)) st.cur.pos r ∧
      (full = false → r.res = .ok → SemC cx st.endp (.ref c) r.st.cur.pos .fail) := by
  intro k
  induction k with
  | zero =>
    intro st r full hv h
    simp only [repUpTo, Option.some.injEq, Prod.mk.injEq] at h
    obtain ⟨h, hfull⟩ := h
    subst h
    exact ⟨⟨.ok st.cur.pos, rfl, .eps⟩, fun hf => by simp [← hfull] at hf⟩
  | succ k ih =>
    intro st r full hv h
    simp only [repUpTo] at h
    split at h
    · exact absurd h (by simp)
    · rename_i r1 h1
      have g1 := hg _ _ _ _ _ _ h1
      obtain ⟨o1, ho1, s1⟩ := hs _ _ _ _ _ _ hv h1
      split at h
      · rename_i hok
        split at h
        · exact absurd h (by simp)
        · rename_i r2 full2 h2
          simp only [Option.some.injEq, Prod.mk.injEq] at h
          obtain ⟨h, hfull⟩ := h
          subst h
          subst hfull
          obtain ⟨⟨o2, ho2, s2⟩, hx⟩ := ih _ _ _ (hv.of_weak g1.toWeak) h2
          have ⟨w2, hn2⟩ := repUpTo_weak hg _ _ _ _ _ _ _ h2
          rw [absO_ok hok] at ho1
          cases ho1
          rw [g1.endp] at s2 hx
          refine ⟨⟨o2, ho2, Sem.opt_of (.seqOk s1 s2) (absO_ne_fail ho2 hn2)⟩, ?_⟩
          intro hf ho
          exact hx hf ho
      · rename_i hf
        simp only [Option.some.injEq, Prod.mk.injEq] at h
        obtain ⟨h, hfull⟩ := h
        subst h
        rw [absO_fail hf] at ho1
        cases ho1
        have hc := g1.failCur hf rfl
        refine ⟨⟨.ok st.cur.pos, by simp [absO, hc], Sem.opt_fail (.seqFail s1)⟩, ?_⟩
        intro _ _
        simp only [hc]
        exact s1
      · rename_i x hx
        simp only [Option.some.injEq, Prod.mk.injEq] at h
        obtain ⟨h, hfull⟩ := h
        subst h
        refine ⟨⟨o1, ho1, Sem.opt_of (Sem.seq_stop s1 (absO_notOk ho1 (by simp [hx]))) (absO_ne_fail ho1 (by simp [hx]))⟩, ?_⟩
        intro _ ho
        simp [hx] at ho


omit hg hs in
theorem sem_any_ok (cx : Ctx) (endp p : Nat) (h : p < endp) : SemC cx endp (.atom .any) p (.ok (p + 1)) :=
  .atomOk (by simp [atomSem, h])

omit hg hs in
theorem sem_any_fail (cx : Ctx) (endp p : Nat) (h : ¬ p < endp) : SemC cx endp (.atom .any) p .fail :=
  .atomFail (by simp [atomSem, h])

omit hg hs in
/-- Result of a failed/thrown condition inside `until`: the star stops or propagates. -/
theorem until_err {cx : Ctx} {endp c p b} {B : PExp} (s1 : SemC cx endp (.ref c) p (.err b)) :
    SemC cx endp (.seq (.star (.seq (.not_ (.ref c)) B)) (.ref c)) p (.err b) :=
  .seqErr (.starErr (.seqErr (.notErr s1)))

omit hg hs in
theorem until_ok {cx : Ctx} {endp c p q} {B : PExp} (s1 : SemC cx endp (.ref c) p (.ok q)) :
    SemC cx endp (.seq (.star (.seq (.not_ (.ref c)) B)) (.ref c)) p (.ok q) :=
  .seqOk (.starDone (.seqFail (.notOk s1))) s1

/-- `until< R >`. -/
theorem loopUntil1_sem (a : AMode) (env : Env) (c : Nat) :
    ∀ (k : Nat) (st : St) (r : Ret), Valid cx st → loopUntil1 cx rec a env c k st = some r →
      SemR cx st.endp (.seq (.star (.seq (.not_ (.ref c)) (.atom .any))) (.ref c)) st.cur.pos r := by
  intro k
  induction k with
  | zero => intro st r _ h; simp [loopUntil1] at h
  | succ k ih =>
    intro st r hv h
    simp only [loopUntil1] at h
    split at h
    · exact absurd h (by simp)
    · rename_i r1 h1
      have g1 := hg _ _ _ _ _ _ h1
      obtain ⟨o1, ho1, s1⟩ := hs _ _ _ _ _ _ hv h1
      split at h
      · rename_i hok
        simp only [Option.some.injEq] at h; subst h
        rw [absO_ok hok] at ho1; cases ho1
        exact ⟨_, absO_ok hok, until_ok s1⟩
      · rename_i x hx
        simp only [Option.some.injEq] at h; subst h
        obtain ⟨b, rfl⟩ : ∃ b, o1 = .err b := by
          have := absO_notOk ho1 (by simp [hx]); have := absO_ne_fail ho1 (by simp [hx])
          cases o1 <;> simp_all [Outcome.notOk]
        exact ⟨_, ho1, until_err s1⟩
      · rename_i hf
        rw [absO_fail hf] at ho1; cases ho1
        have hc := g1.failCur hf rfl
        have hv1 := hv.of_weak g1.toWeak
        split at h
        · rename_i hemp
          simp only [Option.some.injEq] at h; subst h
          have hp : ¬ st.cur.pos < st.endp := by
            have : r1.st.cur.pos = r1.st.endp := by simpa [St.empty] using hemp
            rw [hc, g1.endp] at this; omega
          exact ⟨.fail, absO_fail hf,
            .seqOk (.starDone (.seqOk (.notFail s1) (sem_any_fail cx _ _ hp))) s1⟩
        · rename_i hemp
          split at h
          · exact absurd h (by simp)
          · rename_i r2 h2
            simp only [Option.some.injEq] at h; subst h
            have hne : r1.st.cur.pos ≠ r1.st.endp := by simpa [St.empty] using hemp
            have hvb : Valid cx (bump cx r1.st 1) := by
              refine ⟨?_, by simpa using hv1.sz⟩
              have := hv1.le
              simp only [bump_pos, bump_endp]; omega
            obtain ⟨o2, ho2, s2⟩ := ih _ _ hvb h2
            simp only [bump_pos, bump_endp, hc, g1.endp] at s2
            have hp : st.cur.pos < st.endp := by
              have := hv.le; rw [hc, g1.endp] at hne; omega
            exact ⟨o2, ho2, Sem.star_seq_step (.seqOk (.notFail s1) (sem_any_ok cx _ _ hp)) s2⟩

/-- `until< R, S >`. -/
theorem loopUntil2_sem (a : AMode) (env : Env) (c b : Nat) :
    ∀ (k : Nat) (st : St) (r : Ret), Valid cx st → loopUntil2 rec a env c b k st = some r →
      SemR cx st.endp (.seq (.star (.seq (.not_ (.ref c)) (.ref b))) (.ref c)) st.cur.pos r := by
  intro k
  induction k with
  | zero => intro st r _ h; simp [loopUntil2] at h
  | succ k ih =>
    intro st r hv h
    simp only [loopUntil2] at h
    split at h
    · exact absurd h (by simp)
    · rename_i r1 h1
      have g1 := hg _ _ _ _ _ _ h1
      obtain ⟨o1, ho1, s1⟩ := hs _ _ _ _ _ _ hv h1
      split at h
      · rename_i hok
        simp only [Option.some.injEq] at h; subst h
        rw [absO_ok hok] at ho1; cases ho1
        exact ⟨_, absO_ok hok, until_ok s1⟩
      · rename_i x hx
        simp only [Option.some.injEq] at h; subst h
        obtain ⟨b', rfl⟩ : ∃ b', o1 = .err b' := by
          have := absO_notOk ho1 (by simp [hx]); have := absO_ne_fail ho1 (by simp [hx])
          cases o1 <;> simp_all [Outcome.notOk]
        exact ⟨_, ho1, until_err s1⟩
      · rename_i hf
        rw [absO_fail hf] at ho1; cases ho1
        have hc := g1.failCur hf rfl
        have hv1 := hv.of_weak g1.toWeak
        split at h
        · exact absurd h (by simp)
        · rename_i r2 h2
          have g2 := hg _ _ _ _ _ _ h2
          obtain ⟨o2, ho2, s2⟩ := hs _ _ _ _ _ _ hv1 h2
          rw [g1.endp, hc] at s2
          split at h
          · rename_i hok2
            split at h
            · exact absurd h (by simp)
            · rename_i r3 h3
              simp only [Option.some.injEq] at h; subst h
              obtain ⟨o3, ho3, s3⟩ := ih _ _ (hv1.of_weak g2.toWeak) h3
              rw [absO_ok hok2] at ho2; cases ho2
              rw [g2.endp, g1.endp] at s3
              exact ⟨o3, ho3, Sem.star_seq_step (.seqOk (.notFail s1) s2) s3⟩
          · rename_i hnok2
            simp only [Option.some.injEq] at h; subst h
            have hn := absO_notOk ho2 (by intro h'; exact hnok2 h')
            cases o2 with
            | ok q => exact hn.elim
            | fail =>
              exact ⟨.fail, by simpa using ho2, .seqOk (.starDone (.seqOk (.notFail s1) s2)) s1⟩
            | err b' =>
              exact ⟨_, by simpa using ho2, .seqErr (.starErr (.seqOk (.notFail s1) s2))⟩

/-- `star_strict< R, S... >`. -/
theorem loopStarStrict_sem (a : AMode) (env : Env) (c rest : Nat) :
    ∀ (k : Nat) (st : St) (r : Ret), Valid cx st → loopStarStrict rec a env c rest k st = some r →
      SemR cx st.endp (.seq (.star (.seq (.ref c) (.ref rest))) (.not_ (.ref c))) st.cur.pos r := by
  intro k
  induction k with
  | zero => intro st r _ h; simp [loopStarStrict] at h
  | succ k ih =>
    intro st r hv h
    simp only [loopStarStrict] at h
    split at h
    · exact absurd h (by simp)
    · rename_i r1 h1
      have g1 := hg _ _ _ _ _ _ h1
      obtain ⟨o1, ho1, s1⟩ := hs _ _ _ _ _ _ hv h1
      split at h
      · rename_i hf
        simp only [Option.some.injEq] at h; subst h
        rw [absO_fail hf] at ho1; cases ho1
        have hc := g1.failCur hf rfl
        exact ⟨.ok st.cur.pos, by simp [absO, hc], .seqOk (.starDone (.seqFail s1)) (.notFail s1)⟩
      · rename_i x hx
        simp only [Option.some.injEq] at h; subst h
        obtain ⟨b', rfl⟩ : ∃ b', o1 = .err b' := by
          have := absO_notOk ho1 (by simp [hx]); have := absO_ne_fail ho1 (by simp [hx])
          cases o1 <;> simp_all [Outcome.notOk]
        exact ⟨_, ho1, .seqErr (.starErr (.seqErr s1))⟩
      · rename_i hok
        rw [absO_ok hok] at ho1; cases ho1
        have hv1 := hv.of_weak g1.toWeak
        split at h
        · exact absurd h (by simp)
        · rename_i r2 h2
          have g2 := hg _ _ _ _ _ _ h2
          obtain ⟨o2, ho2, s2⟩ := hs _ _ _ _ _ _ hv1 h2
          rw [g1.endp] at s2
          split at h
          · rename_i hok2
            split at h
            · exact absurd h (by simp)
            · rename_i r3 h3
              simp only [Option.some.injEq] at h; subst h
              obtain ⟨o3, ho3, s3⟩ := ih _ _ (hv1.of_weak g2.toWeak) h3
              rw [absO_ok hok2] at ho2; cases ho2
              rw [g2.endp, g1.endp] at s3
              exact ⟨o3, ho3, Sem.star_seq_step (.seqOk s1 s2) s3⟩
          · rename_i hnok2
            simp only [Option.some.injEq] at h; subst h
            have hn := absO_notOk ho2 (by intro h'; exact hnok2 h')
            cases o2 with
            | ok q => exact hn.elim
            | fail =>
              exact ⟨.fail, by simpa using ho2, .seqOk (.starDone (.seqOk s1 s2)) (.notOk s1)⟩
            | err b' =>
              exact ⟨_, by simpa using ho2, .seqErr (.starErr (.seqOk s1 s2))⟩

/-- The inner rules of `rematch`: each is matched from the start of the head's match against
    the sub-input that ends where the head's match ended. -/
theorem rematchAll_sem (a : AMode) (env : Env) (saved : Cursor) :
    ∀ (rs : List Nat) (st : St) (r : Ret), Valid cx { st with cur := saved } →
      rematchAll rec a env saved rs st = some r →
      (∃ o, SemC cx st.endp (seqL (rs.map fun x => .and_ (.ref x))) saved.pos o ∧
        ((r.res = .ok ∧ o = .ok saved.pos) ∨ (r.res = .fail ∧ o = .fail) ∨
         (∃ x b, r.res = .thr x ∧ blameOf x = some b ∧ o = .err b))) := by
  intro rs
  induction rs with
  | nil =>
    intro st r _ h
    simp only [rematchAll, Option.some.injEq] at h; subst h
    exact ⟨.ok saved.pos, .eps, Or.inl ⟨rfl, rfl⟩⟩
  | cons c cs ih =>
    intro st r hv h
    simp only [rematchAll] at h
    split at h
    · exact absurd h (by simp)
    · rename_i r1 h1
      have g1 := hg _ _ _ _ _ _ h1
      obtain ⟨o1, ho1, s1⟩ := hs _ _ _ _ _ _ hv h1
      simp only at s1
      split at h
      · rename_i hok
        split at h
        · exact absurd h (by simp)
        · rename_i r2 h2
          simp only [Option.some.injEq] at h; subst h
          rw [absO_ok hok] at ho1; cases ho1
          have hv2 : Valid cx { r1.st with cur := saved } := by
            refine ⟨?_, ?_⟩
            · simpa [g1.endp] using hv.le
            · simpa [g1.endp] using hv.sz
          obtain ⟨o2, s2, hcase⟩ := ih _ _ hv2 h2
          have he : r1.st.endp = st.endp := by simpa using g1.endp
          rw [he] at s2
          exact ⟨o2, .seqOk (.andOk s1) s2, by simpa using hcase⟩
      · rename_i hnok
        simp only [Option.some.injEq] at h; subst h
        have hn := absO_notOk ho1 (by intro h'; exact hnok h')
        cases o1 with
        | ok q => exact hn.elim
        | fail => exact ⟨.fail, .seqFail (.andFail s1), Or.inr (Or.inl ⟨absO_fail_inv ho1, rfl⟩)⟩
        | err b =>
          obtain ⟨x, hx, hb⟩ := absO_err_inv ho1
          exact ⟨.err b, .seqErr (.andErr s1), Or.inr (Or.inr ⟨x, b, hx, hb, rfl⟩)⟩

end helpers

end Pegtl
