/-
  Lemmas/AnalyzeClosed.lean — the entry table of a well-formed node table is closed (every sub-rule
  name is a key), so `find()` never fails and the DFS of `problems()` terminates (`work_total`).
-/
import PegtlVerif.Lemmas.AnalyzeMain

namespace Pegtl
open Analyze

theorem mem_ids_node {g : Grammar} {i : Nat} (hi : i < g.size) : AId.node i ∈ (abstract g).ids :=
  node_mem_abstract hi

theorem mem_ids_aux {g : Grammar} {i j : Nat} (hi : i < g.size) (hj : j < auxCount g (effKind g i)) :
    AId.aux i j ∈ (abstract g).ids := by
  simp only [abstract, List.mem_flatMap, List.mem_range]
  exact ⟨i, hi, by simp [idsOf, hj]⟩

theorem mem_ids_inv {g : Grammar} {e : AId} (h : e ∈ (abstract g).ids) :
    (∃ i, i < g.size ∧ e = .node i) ∨ (∃ i j, i < g.size ∧ j < auxCount g (effKind g i) ∧ e = .aux i j) := by
  simp only [abstract, List.mem_flatMap, List.mem_range] at h
  obtain ⟨i, hi, he⟩ := h
  simp only [idsOf, List.mem_cons, List.mem_map, List.mem_range] at he
  rcases he with rfl | ⟨j, hj, rfl⟩
  · exact Or.inl ⟨i, hi, rfl⟩
  · exact Or.inr ⟨i, j, hi, hj, rfl⟩

/-- The rules of the `must< Rules... >` node of an `if_must` are nodes of the table. -/
theorem mustRules_lt {g : Grammar} (hwf : WF g) {mn : Nat} (hs : mustShape g mn = true) :
    ∀ c ∈ mustRules g mn, c < g.size := by
  intro c hcm
  unfold mustShape at hs
  split at hs
  · rename_i ndm hndm
    simp only [Bool.and_eq_true, Bool.not_eq_true'] at hs
    obtain ⟨_, hk⟩ := hs
    split at hk
    · rename_i c' hkind
      simp only [mustRules, hndm, hkind, List.mem_singleton] at hcm
      subst hcm
      exact hwf.kid hndm (by rw [hkind]; simp [Kind.kids])
    · rename_i ms hkind
      simp only [mustRules, hndm, hkind, List.mem_map] at hcm
      obtain ⟨m, hm, rfl⟩ := hcm
      have hmm : isMustNode g m = true := by
        have : ∀ m ∈ ms, isMustNode g m = true := by simpa [List.all_eq_true] using hk
        exact this m hm
      unfold isMustNode at hmm
      split at hmm
      · rename_i md hmd
        simp only [Bool.and_eq_true, Bool.not_eq_true'] at hmm
        obtain ⟨_, hk2⟩ := hmm
        split at hk2
        · rename_i c' hkm
          simp only [hmd, hkm]
          exact hwf.kid hmd (by rw [hkm]; simp [Kind.kids])
        · exact absurd hk2 (by simp)
      · exact absurd hmm (by simp)
    · rename_i hkind
      simp only [mustRules, hndm, hkind] at hcm
      exact absurd hcm (by simp)
    · exact absurd hk (by simp)
  · exact absurd hs (by simp)

/-- `analyze_insert` closes the table: every name in a `subs` list has an entry. -/
theorem abstract_closed {g : Grammar} (hwf : WF g) : Closed (abstract g) := by
  intro e he s hs
  have hent : (abstract g).ent = entryOf g := rfl
  rw [hent] at hs
  -- the kind whose trait node `i` has is the kind of a node of the table
  have hk : ∀ i, i < g.size → (∀ c ∈ (effKind g i).kids, c < g.size) ∧ (effKind g i).linksOK g := by
    intro i hi
    have hnd : g[i]? = some g[i] := by simp [hi]
    generalize g[i] = nd at hnd
    have hbase : baseKind g g.size nd.kind = effKind g i := by simp only [effKind, hnd]
    rcases baseKind_mem g _ _ _ hbase with h1 | ⟨nd', hnd', h1⟩
    · rw [h1]; exact hwf nd (mem_toList_of_getElem? hnd)
    · rw [← h1]; exact hwf nd' hnd'
  have nodes_mem : ∀ cs : List Nat, (∀ c ∈ cs, c < g.size) → ∀ s ∈ nodes cs, s ∈ (abstract g).ids := by
    intro cs hcs s hs
    simp only [nodes, List.mem_map] at hs
    obtain ⟨c, hc, rfl⟩ := hs
    exact mem_ids_node (hcs c hc)
  rcases mem_ids_inv he with ⟨i, hi, rfl⟩ | ⟨i, j, hi, hj, rfl⟩
  · have ⟨hkids, hlinks⟩ := hk i hi
    simp only [entryOf] at hs
    generalize hkk : effKind g i = k at hs hkids hlinks
    have aux0 : ∀ n, n < auxCount g k → AId.aux i n ∈ (abstract g).ids := fun n hn => mem_ids_aux hi (by rw [hkk]; exact hn)
    cases k with
    | atom a => simp [traitOf] at hs
    | seq cs => exact nodes_mem cs (by simpa [Kind.kids] using hkids) s (by simpa [traitOf] using hs)
    | sor cs => exact nodes_mem cs (by simpa [Kind.kids] using hkids) s (by simpa [traitOf] using hs)
    | partialR cs => exact nodes_mem cs (by simpa [Kind.kids] using hkids) s (by simpa [traitOf] using hs)
    | starPartial cs =>
      simp only [traitOf, List.mem_singleton] at hs; subst hs
      exact aux0 0 (by simp [auxCount])
    | plus c =>
      simp only [traitOf, List.mem_cons, List.mem_nil_iff, or_false] at hs
      rcases hs with rfl | rfl
      · exact mem_ids_node (hkids c (by simp [Kind.kids]))
      · exact aux0 0 (by simp [auxCount])
    | atR c => simp only [traitOf, List.mem_singleton] at hs; subst hs; exact mem_ids_node (hkids c (by simp [Kind.kids]))
    | notAt c => simp only [traitOf, List.mem_singleton] at hs; subst hs; exact mem_ids_node (hkids c (by simp [Kind.kids]))
    | until1 c => simp only [traitOf, List.mem_singleton] at hs; subst hs; exact mem_ids_node hi
    | until2 c b =>
      simp only [traitOf, List.mem_cons, List.mem_nil_iff, or_false] at hs
      rcases hs with rfl | rfl
      · exact aux0 0 (by simp [auxCount])
      · exact mem_ids_node (hkids c (by simp [Kind.kids]))
    | rep n c =>
      simp only [traitOf] at hs
      split at hs <;> (simp only [List.mem_singleton] at hs; subst hs; exact mem_ids_node (hkids c (by simp [Kind.kids])))
    | repMinMax lo hi' c na =>
      simp only [traitOf] at hs
      split at hs <;> (simp only [List.mem_singleton] at hs; subst hs; exact mem_ids_node (hkids c (by simp [Kind.kids])))
    | repOpt n c => simp only [traitOf, List.mem_singleton] at hs; subst hs; exact mem_ids_node (hkids c (by simp [Kind.kids]))
    | ifThenElse c t e =>
      simp only [traitOf, List.mem_cons, List.mem_nil_iff, or_false] at hs
      rcases hs with rfl | rfl
      · exact aux0 0 (by simp [auxCount])
      · exact mem_ids_node (hkids e (by simp [Kind.kids]))
    | strict c r => simp only [traitOf, List.mem_singleton] at hs; subst hs; exact mem_ids_node hi
    | starStrict c r => simp only [traitOf, List.mem_singleton] at hs; subst hs; exact mem_ids_node hi
    | rematch h rs =>
      simp only [traitOf, List.mem_cons, List.mem_nil_iff, or_false] at hs
      rcases hs with rfl | rfl
      · exact mem_ids_node (hkids h (by simp [Kind.kids]))
      · exact aux0 0 (by simp only [auxCount]; split <;> omega)
    | must c => simp only [traitOf, List.mem_singleton] at hs; subst hs; exact mem_ids_node (hkids c (by simp [Kind.kids]))
    | ifMust d c mn =>
      simp only [Kind.linksOK] at hlinks
      have hr := mustRules_lt hwf hlinks
      have hc : c < g.size := hkids c (by simp [Kind.kids])
      simp only [traitOf] at hs
      split at hs
      · split at hs <;> (simp only [List.mem_singleton] at hs; subst hs; exact mem_ids_node hc)
      · rename_i hne
        split at hs
        · rename_i hd
          simp only [List.mem_singleton] at hs; subst hs
          refine aux0 0 ?_
          simp only [auxCount, hd, Bool.true_and]
          cases hm : mustRules g mn with
          | nil => exact absurd hm (by intro h; exact hne h)
          | cons _ _ => simp
        · exact nodes_mem _ (by
            intro x hx
            rcases List.mem_cons.mp hx with rfl | hx
            · exact hc
            · exact hr x hx) s hs
    | raise t => simp [traitOf] at hs
    | tryCatchReturnFalse ex c => simp only [traitOf, List.mem_singleton] at hs; subst hs; exact mem_ids_node (hkids c (by simp [Kind.kids]))
    | tryCatchRaiseNested ex c => simp only [traitOf, List.mem_singleton] at hs; subst hs; exact mem_ids_node (hkids c (by simp [Kind.kids]))
    | enable c => simp only [traitOf, List.mem_singleton] at hs; subst hs; exact mem_ids_node (hkids c (by simp [Kind.kids]))
    | disable c => simp only [traitOf, List.mem_singleton] at hs; subst hs; exact mem_ids_node (hkids c (by simp [Kind.kids]))
    | action f c => simp only [traitOf, List.mem_singleton] at hs; subst hs; exact mem_ids_node (hkids c (by simp [Kind.kids]))
    | control kc c => simp only [traitOf, List.mem_singleton] at hs; subst hs; exact mem_ids_node (hkids c (by simp [Kind.kids]))
    | state d c => simp only [traitOf, List.mem_singleton] at hs; subst hs; exact mem_ids_node (hkids c (by simp [Kind.kids]))
    | ifApply c acts => simp only [traitOf, List.mem_singleton] at hs; subst hs; exact mem_ids_node (hkids c (by simp [Kind.kids]))
    | applyR acts => simp [traitOf] at hs
  · have ⟨hkids, hlinks⟩ := hk i hi
    simp only [entryOf] at hs
    generalize hkk : effKind g i = k at hs hkids hlinks hj
    have aux0 : ∀ n, n < auxCount g k → AId.aux i n ∈ (abstract g).ids := fun n hn => mem_ids_aux hi (by rw [hkk]; exact hn)
    cases k with
    | starPartial cs =>
      simp only [auxOf, List.mem_append, List.mem_singleton] at hs
      rcases hs with hs | rfl
      · exact nodes_mem cs (by simpa [Kind.kids] using hkids) s hs
      · exact mem_ids_node hi
    | plus c => simp only [auxOf, List.mem_singleton] at hs; subst hs; exact mem_ids_node hi
    | until2 c b =>
      simp only [auxOf] at hs
      split at hs
      · simp only [List.mem_singleton] at hs; subst hs; exact aux0 1 (by simp [auxCount])
      · simp only [List.mem_cons, List.mem_nil_iff, or_false] at hs
        rcases hs with rfl | rfl
        · exact mem_ids_node (hkids b (by simp [Kind.kids]))
        · exact aux0 0 (by simp [auxCount])
    | ifThenElse c t e =>
      simp only [auxOf, List.mem_cons, List.mem_nil_iff, or_false] at hs
      rcases hs with rfl | rfl
      · exact mem_ids_node (hkids c (by simp [Kind.kids]))
      · exact mem_ids_node (hkids t (by simp [Kind.kids]))
    | rematch h rs =>
      simp only [auxOf] at hs
      split at hs
      · simp at hs
      · rename_i hne
        have hcount : auxCount g (.rematch h rs) = 2 + rs.length := by simp [auxCount, hne]
        split at hs
        · simp only [List.mem_map, List.mem_range] at hs
          obtain ⟨n, hn, rfl⟩ := hs
          exact aux0 (2 + n) (by omega)
        · split at hs
          · simp at hs
          · rename_i hj0 hj1
            simp only [List.mem_cons, List.mem_nil_iff, or_false] at hs
            rcases hs with rfl | rfl
            · have hjlt : j - 2 < rs.length := by omega
              have : rs.getD (j - 2) 0 = rs[j - 2] := by simp [List.getD, hjlt]
              rw [this]
              exact mem_ids_node (hkids _ (by simp [Kind.kids, List.getElem_mem]))
            · exact aux0 1 (by omega)
    | ifMust d c mn =>
      simp only [Kind.linksOK] at hlinks
      have hr := mustRules_lt hwf hlinks
      simp only [auxOf] at hs
      exact nodes_mem _ (by
        intro x hx
        rcases List.mem_cons.mp hx with rfl | hx
        · exact hkids x (by simp [Kind.kids])
        · exact hr x hx) s hs
    | _ => simp [auxCount] at hj

/-- The grammar analysis terminates on every well-formed table: `problems()` gets an answer from
    every DFS (`rootProblems` never falls into its out-of-fuel case). -/
theorem analysis_total {g : Grammar} (hwf : WF g) {e : AId} (he : e ∈ (abstract g).ids) (accum : Bool) :
    ∃ x, work (abstract g) (abstract g).fuel [] e accum = some x :=
  work_root_total (abstract_closed hwf) he accum

end Pegtl
