/-
  Lemmas/AtomSem.lean — every atom's `match( in )` accepts exactly its documented set:
  `atomStep` (the transcription of the C++) refines `atomSem` (Spec/Peg.lean).
-/
import PegtlVerif.Model.Run
import PegtlVerif.Spec.Peg
import PegtlVerif.Lemmas.Input

namespace Pegtl
open Pegtl.Spec

/-- The window is inside the data and the cursor inside the window. -/
structure Valid (cx : Ctx) (st : St) : Prop where
  le : st.cur.pos ≤ st.endp
  sz : st.endp ≤ cx.inp.size

/-- Atoms whose meaning is a function of the byte offset alone. -/
def Atom.offsetOnly : Atom → Bool
  | .bof => false
  | .bol => false
  | .istring _ => false
  | _ => true

theorem rd_val (cx : Ctx) (st : St) (off : Nat) : (rd cx st off).1 = cx.inp.getD (st.cur.pos + off) 0 := rfl

theorem cmpBytes_bytesAt (cx : Ctx) (p : Nat) (cs : List UInt8) :
    cmpBytes cx (· == ·) p cs = bytesAt cx.inp p cs := by
  induction cs generalizing p with
  | nil => rfl
  | cons c cs ih =>
    simp only [cmpBytes, bytesAt, ih]
    congr 1
    exact Bool.beq_comm

theorem eolMatch_sem (cx : Ctx) (st : St) (hv : Valid cx st) :
    ((eolMatch cx st).1 = true →
      eolLen cx.eol cx.inp st.endp st.cur.pos = some ((eolMatch cx st).2.2.cur.pos - st.cur.pos) ∧
      st.cur.pos ≤ (eolMatch cx st).2.2.cur.pos) ∧
    ((eolMatch cx st).1 = false → eolLen cx.eol cx.inp st.endp st.cur.pos = none) ∧
    ((eolMatch cx st).2.1 = 0 ↔ st.cur.pos = st.endp) := by
  have hle := hv.le
  have g0 : 0 < st.endp - st.cur.pos ↔ st.cur.pos < st.endp := by omega
  have g1 : 1 < st.endp - st.cur.pos ↔ st.cur.pos + 1 < st.endp := by omega
  have g2 : st.endp - st.cur.pos = 0 ↔ st.cur.pos = st.endp := by omega
  unfold eolMatch eolLen
  by_cases h0 : st.cur.pos < st.endp <;> by_cases h1 : st.cur.pos + 1 < st.endp <;>
  by_cases a10 : cx.inp[st.cur.pos]?.getD 0 = 10 <;> by_cases a13 : cx.inp[st.cur.pos]?.getD 0 = 13 <;>
  by_cases b10 : cx.inp[st.cur.pos + 1]?.getD 0 = 10 <;>
  cases cx.eol <;>
  simp [St.avail, rd, bumpToNextLine, bumpToNextLineC, markOob, g0, g1, g2, h0, h1, a10, a13, b10] <;> (try omega)

theorem atomStep_sem (cx : Ctx) (a : Atom) (st : St) (hv : Valid cx st) (ha : a.offsetOnly = true) :
    ((atomStep cx a st).1 = true →
      atomSem cx.eol cx.inp st.endp a st.cur.pos = some (atomStep cx a st).2.cur.pos) ∧
    ((atomStep cx a st).1 = false → atomSem cx.eol cx.inp st.endp a st.cur.pos = none) := by
  have hle := hv.le
  have he := eolMatch_sem cx st hv
  have g0 : (st.cur.pos == st.endp) = true ↔ ¬ st.cur.pos < st.endp := by
    simp only [beq_iff_eq]; omega
  cases a with
  | any =>
    by_cases h0 : st.cur.pos < st.endp <;> simp [atomStep, atomSem, St.empty, g0, h0]
  | one found cs =>
    by_cases h0 : st.cur.pos < st.endp <;> simp [atomStep, atomSem, St.empty, g0, h0, rd]
    split <;> simp_all
  | range found lo hi =>
    by_cases h0 : st.cur.pos < st.endp <;> simp [atomStep, atomSem, St.empty, g0, h0, rd]
    split <;> simp_all
  | ranges rs single =>
    have hs : atomSem cx.eol cx.inp st.endp (.ranges rs single) st.cur.pos =
        if st.cur.pos < st.endp ∧ inRanges rs single (cx.inp.getD st.cur.pos 0) = true
        then some (st.cur.pos + 1) else none := rfl
    rw [hs]
    by_cases h0 : st.cur.pos < st.endp
    · simp [atomStep, St.empty, g0, h0, rd]
      cases inRanges rs single (cx.inp[st.cur.pos]?.getD 0) <;> simp
    · simp [atomStep, St.empty, g0, h0]
  | string cs =>
    have g1 : st.endp - st.cur.pos ≥ cs.length ↔ st.cur.pos + cs.length ≤ st.endp := by omega
    by_cases h0 : st.cur.pos + cs.length ≤ st.endp <;> simp [atomStep, atomSem, St.avail, g1, h0, cmpBytes_bytesAt]
    split <;> simp_all
  | istring cs => simp [Atom.offsetOnly] at ha
  | bytes n =>
    have g1 : st.endp - st.cur.pos ≥ n ↔ st.cur.pos + n ≤ st.endp := by omega
    by_cases h0 : st.cur.pos + n ≤ st.endp <;> simp [atomStep, atomSem, St.avail, g1, h0]
  | eof =>
    by_cases h0 : st.cur.pos = st.endp <;> simp [atomStep, atomSem, St.empty, h0]
  | bof => simp [Atom.offsetOnly] at ha
  | bol => simp [Atom.offsetOnly] at ha
  | eol =>
    simp only [atomStep, atomSem]
    generalize eolMatch cx st = em at he ⊢
    obtain ⟨d, sz, st'⟩ := em
    simp only at he ⊢
    refine ⟨fun h => ?_, fun h => ?_⟩
    · have h1 := (he.1 h).1
      have h2 := (he.1 h).2
      rw [h1]; simp; omega
    · rw [he.2.1 h]; rfl
  | eolf =>
    have hf := (eolMatch_frame cx st).2.2.1
    simp only [atomStep, atomSem]
    generalize eolMatch cx st = em at he hf ⊢
    obtain ⟨d, sz, st'⟩ := em
    simp only at he hf ⊢
    by_cases hz : st.cur.pos = st.endp
    · have hz' : sz = 0 := he.2.2.2 hz
      subst hz'
      simp only [hz, if_true]
      refine ⟨fun _ => ?_, fun h => by simp at h⟩
      cases hd : d with
      | true =>
        have h1 := (he.1 hd).1
        simp only [eolLen, hz, Nat.lt_irrefl, if_false] at h1
        cases heol : cx.eol <;> simp [heol] at h1
      | false => simp [hf hd, hz]
    · have hz' : ¬ sz = 0 := fun h => hz (he.2.2.1 h)
      simp only [hz, if_false]
      refine ⟨fun h => ?_, fun h => ?_⟩
      · have hd : d = true := by simpa [hz'] using h
        have h1 := (he.1 hd).1
        have h2 := (he.1 hd).2
        rw [h1]; simp; omega
      · have hd : d = false := by
          cases d <;> simp_all
        rw [he.2.1 hd]; rfl
  | success => simp [atomStep, atomSem]
  | failure => simp [atomStep, atomSem]
  | everything => simp [atomStep, atomSem, St.avail]; omega
  | require n =>
    have g1 : st.endp - st.cur.pos ≥ n ↔ st.cur.pos + n ≤ st.endp := by omega
    by_cases h0 : st.cur.pos + n ≤ st.endp <;> simp [atomStep, atomSem, St.avail, g1, h0]
  | utf8Range found lo hi =>
    simp only [atomStep, atomSem, windowBytes, St.avail]
    cases Utf.peekUtf8 (List.take (st.endp - st.cur.pos) (List.drop st.cur.pos cx.inp.toList)) with
    | none => simp
    | some v =>
      obtain ⟨cp, n⟩ := v
      by_cases hc : (decide (lo ≤ cp) && decide (cp ≤ hi)) = found <;> simp [hc]
  | repOne lo hi c =>
    simp only [atomStep, atomSem, windowBytes, St.avail]
    by_cases h1 : (List.take (hi + 1) (List.take (st.endp - st.cur.pos) (List.drop st.cur.pos cx.inp.toList))).length < lo
    · simp only [h1, if_true]
      simp
    · by_cases h2 : lo ≤ ((List.take (hi + 1) (List.take (st.endp - st.cur.pos) (List.drop st.cur.pos cx.inp.toList))).takeWhile (· == c)).length ∧
          ((List.take (hi + 1) (List.take (st.endp - st.cur.pos) (List.drop st.cur.pos cx.inp.toList))).takeWhile (· == c)).length ≤ hi
      · simp only [h1, h2, if_false, and_self, if_true]
        simp
      · simp only [h1, h2, if_false]
        simp
  | maxDigits mx =>
    have hfun : isDigitB = (fun c => 48 ≤ c && c ≤ 57) := rfl
    simp only [atomStep, atomSem, windowBytes, St.avail, digitsValue, hfun]
    generalize List.takeWhile (fun c => decide (48 ≤ c) && decide (c ≤ 57))
      (List.take (st.endp - st.cur.pos) (List.drop st.cur.pos cx.inp.toList)) = ds
    by_cases h1 : ds.isEmpty = true
    · simp [h1]
    · by_cases h2 : ds.length > 1 ∧ ds.head? = some 48
      · simp [h1, h2]
      · by_cases h3 : List.foldl (fun acc d => acc * 10 + (d.toNat - 48)) 0 ds ≤ mx <;> simp [h1, h2, h3]

end Pegtl
