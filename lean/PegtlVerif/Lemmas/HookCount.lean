/-
  Lemmas/HookCount.lean — what the coverage facility counts: on any trace accepted by the hook
  automaton (with `unwind()` available) every rule has as many `start`s as closing hooks.
-/
import PegtlVerif.Lemmas.Hooks

namespace Pegtl

def isStart (i : Nat) : Ev → Bool
  | .start j _ _ => i == j
  | _ => false

def isClose (i : Nat) : Ev → Bool
  | .success j _ => i == j
  | .failure j _ => i == j
  | .unwind j _ => i == j
  | _ => false

def cntStart (i : Nat) (l : List Ev) : Nat := (l.filter (isStart i)).length
def cntClose (i : Nat) (l : List Ev) : Nat := (l.filter (isClose i)).length

/-- Frames of rule `i` whose `start` is not yet closed. -/
def openFrames (i : Nat) : List Frame → Nat
  | [] => 0
  | (j, .started _) :: s => (if i = j then 1 else 0) + openFrames i s
  | (j, .acted _) :: s => (if i = j then 1 else 0) + openFrames i s
  | _ :: s => openFrames i s

def HStat.u : HStat → Bool
  | .fresh => true | .started u => u | .acted u => u | .closed u _ => u

/-- Every open invocation's hooks are run by a control that defines `unwind()`. -/
def AllU : List Frame → Prop
  | [] => True
  | (_, st) :: s => st.u = true ∧ AllU s

theorem hookStep_allU {uOf : Nat → Bool} {mf : Nat → Bool} (hu : ∀ k, uOf k = true) (s s' : List Frame) (e : Ev) (h : hookStep uOf mf s e = some s')
    (ha : AllU s) : AllU s' := by
  cases e with
  | enter j a m c kc => simp only [hookStep, Option.some.injEq] at h; subst h; exact ⟨rfl, ha⟩
  | raise j c => simp only [hookStep, Option.some.injEq] at h; subst h; exact ha
  | sctor d => simp only [hookStep, Option.some.injEq] at h; subst h; exact ha
  | ssucc d c o => simp only [hookStep, Option.some.injEq] at h; subst h; exact ha
  | sdtor d => simp only [hookStep, Option.some.injEq] at h; subst h; exact ha
  | ruleApply k sd b e => simp only [hookStep, Option.some.injEq] at h; subst h; exact ha
  | exit j r c =>
    cases s with
    | nil => simp [hookStep] at h
    | cons f s0 =>
      obtain ⟨k, st⟩ := f
      simp only [hookStep] at h
      split at h
      · simp only [Option.some.injEq] at h; subst h; exact ha.2
      · simp at h
  | start j c kc =>
    cases s with
    | nil => simp [hookStep] at h
    | cons f s0 =>
      obtain ⟨k, st⟩ := f
      cases st <;> simp [hookStep] at h
      obtain ⟨rfl, rfl⟩ := h
      exact ⟨hu kc, ha.2⟩
  | success j c =>
    cases s with
    | nil => simp [hookStep] at h
    | cons f s0 =>
      obtain ⟨k, st⟩ := f
      cases st <;> simp [hookStep] at h <;> (obtain ⟨rfl, rfl⟩ := h; exact ⟨ha.1, ha.2⟩)
  | failure j c =>
    cases s with
    | nil => simp [hookStep] at h
    | cons f s0 =>
      obtain ⟨k, st⟩ := f
      cases st <;> simp [hookStep] at h <;> (obtain ⟨rfl, rfl⟩ := h; exact ⟨ha.1, ha.2⟩)
  | unwind j c =>
    cases s with
    | nil => simp [hookStep] at h
    | cons f s0 =>
      obtain ⟨k, st⟩ := f
      cases st <;> simp [hookStep] at h <;> (obtain ⟨rfl, rfl⟩ := h; exact ⟨ha.1, ha.2⟩)
  | apply j sd b c =>
    cases s with
    | nil => simp [hookStep] at h
    | cons f s0 =>
      obtain ⟨k, st⟩ := f
      cases st <;> simp [hookStep] at h <;> (obtain ⟨rfl, rfl⟩ := h; exact ⟨ha.1, ha.2⟩)
  | apply0 j sd c =>
    cases s with
    | nil => simp [hookStep] at h
    | cons f s0 =>
      obtain ⟨k, st⟩ := f
      cases st <;> simp [hookStep] at h <;> (obtain ⟨rfl, rfl⟩ := h; exact ⟨ha.1, ha.2⟩)

theorem hookStep_count {uOf : Nat → Bool} {mf : Nat → Bool} (i : Nat) (s s' : List Frame) (e : Ev) (h : hookStep uOf mf s e = some s') (ha : AllU s) :
    (if isStart i e then 1 else 0) + openFrames i s = (if isClose i e then 1 else 0) + openFrames i s' := by
  cases e with
  | enter j a m c kc => simp only [hookStep, Option.some.injEq] at h; subst h; simp [isStart, isClose, openFrames]
  | raise j c => simp only [hookStep, Option.some.injEq] at h; subst h; simp [isStart, isClose]
  | sctor d => simp only [hookStep, Option.some.injEq] at h; subst h; simp [isStart, isClose]
  | ssucc d c o => simp only [hookStep, Option.some.injEq] at h; subst h; simp [isStart, isClose]
  | sdtor d => simp only [hookStep, Option.some.injEq] at h; subst h; simp [isStart, isClose]
  | ruleApply k sd b e => simp only [hookStep, Option.some.injEq] at h; subst h; simp [isStart, isClose]
  | exit j r c =>
    cases s with
    | nil => simp [hookStep] at h
    | cons f s0 =>
      obtain ⟨k, st⟩ := f
      simp only [hookStep] at h
      split at h
      · rename_i hc
        simp only [Option.some.injEq] at h; subst h
        have hau := ha.1
        cases st <;> simp_all [exitOkM, exitOk, isStart, isClose, openFrames, HStat.u]
      · simp at h
  | start j c kc =>
    cases s with
    | nil => simp [hookStep] at h
    | cons f s0 =>
      obtain ⟨k, st⟩ := f
      cases st <;> simp [hookStep] at h <;>
        (obtain ⟨rfl, rfl⟩ := h
         simp only [isStart, isClose, openFrames]
         (try split) <;> simp_all <;> omega)
  | success j c =>
    cases s with
    | nil => simp [hookStep] at h
    | cons f s0 =>
      obtain ⟨k, st⟩ := f
      cases st <;> simp [hookStep] at h <;>
        (obtain ⟨rfl, rfl⟩ := h
         simp only [isStart, isClose, openFrames]
         (try split) <;> simp_all <;> omega)
  | failure j c =>
    cases s with
    | nil => simp [hookStep] at h
    | cons f s0 =>
      obtain ⟨k, st⟩ := f
      cases st <;> simp [hookStep] at h <;>
        (obtain ⟨rfl, rfl⟩ := h
         simp only [isStart, isClose, openFrames]
         (try split) <;> simp_all <;> omega)
  | unwind j c =>
    cases s with
    | nil => simp [hookStep] at h
    | cons f s0 =>
      obtain ⟨k, st⟩ := f
      cases st <;> simp [hookStep] at h <;>
        (obtain ⟨rfl, rfl⟩ := h
         simp only [isStart, isClose, openFrames]
         (try split) <;> simp_all <;> omega)
  | apply j sd b c =>
    cases s with
    | nil => simp [hookStep] at h
    | cons f s0 =>
      obtain ⟨k, st⟩ := f
      cases st <;> simp [hookStep] at h <;>
        (obtain ⟨rfl, rfl⟩ := h
         simp only [isStart, isClose, openFrames]
         (try split) <;> simp_all <;> omega)
  | apply0 j sd c =>
    cases s with
    | nil => simp [hookStep] at h
    | cons f s0 =>
      obtain ⟨k, st⟩ := f
      cases st <;> simp [hookStep] at h <;>
        (obtain ⟨rfl, rfl⟩ := h
         simp only [isStart, isClose, openFrames]
         (try split) <;> simp_all <;> omega)

theorem runHooks_count {uOf : Nat → Bool} {mf : Nat → Bool} (hu : ∀ k, uOf k = true) (i : Nat) : ∀ (l : List Ev) (s s' : List Frame), runHooks uOf mf s l = some s' →
    AllU s → cntStart i l + openFrames i s = cntClose i l + openFrames i s' := by
  intro l
  induction l with
  | nil => intro s s' h _; simp only [runHooks, Option.some.injEq] at h; subst h; simp [cntStart, cntClose]
  | cons e es ih =>
    intro s s' h ha
    simp only [runHooks] at h
    split at h
    · rename_i s1 h1
      have c1 := hookStep_count i s s1 e h1 ha
      have c2 := ih s1 s' h (hookStep_allU hu s s1 e h1 ha)
      have hs : cntStart i (e :: es) = (if isStart i e then 1 else 0) + cntStart i es := by
        simp only [cntStart, List.filter_cons]; split <;> simp <;> omega
      have hc : cntClose i (e :: es) = (if isClose i e then 1 else 0) + cntClose i es := by
        simp only [cntClose, List.filter_cons]; split <;> simp <;> omega
      omega
    · simp at h

end Pegtl
