/-
  Lemmas/TwinConv.lean — the converse of the twin-run theorem (C18): a guarded run whose trace contains no
  `raise` of a `limit_depth` pseudo-rule never reached a depth limit, i.e. it is a run of the `stuck` reading.

  Method: `filt rec` forgets every sub-result whose trace is not clean.  Every combinator body's trace contains the
  traces of the sub-results it used, so a body with a clean trace computes the same result from `filt rec`
  (`body_clean`); and `filt (run cx n)` is below the `stuck` run of the same fuel by induction.
-/
import PegtlVerif.Lemmas.Twin
import PegtlVerif.Lemmas.RawClosureE
import PegtlVerif.Lemmas.TraceInv

namespace Pegtl

/-- A `raise` blaming a `limit_depth< N >` pseudo-rule (ids `limitDepthId n = 1000000 + 2 n`). -/
def Ev.isLdRaise : Ev → Bool
  | .raise j _ => decide (1000000 ≤ j ∧ j % 2 = 0)
  | _ => false

/-- No depth limit fired anywhere in this trace. -/
def cleanB (l : List Ev) : Bool := l.all (fun e => !e.isLdRaise)

@[simp] theorem cleanB_nil : cleanB [] = true := rfl
@[simp] theorem cleanB_append (a b : List Ev) : cleanB (a ++ b) = (cleanB a && cleanB b) := by simp [cleanB]
@[simp] theorem cleanB_cons (e : Ev) (l : List Ev) : cleanB (e :: l) = (!e.isLdRaise && cleanB l) := by simp [cleanB]

/-- The sub-rule oracle that forgets results with a limit in their trace. -/
def filt (rec : Rec) : Rec := fun j a m env st =>
  match rec j a m env st with
  | some r => if cleanB r.raw then some r else none
  | none => none

theorem filt_some {rec : Rec} {j : Nat} {a : AMode} {m : RMode} {env : Env} {st : St} {r : Ret}
    (h : rec j a m env st = some r) (hc : cleanB r.raw = true) : filt rec j a m env st = some r := by
  simp [filt, h, hc]

section helpers
variable {rec : Rec}

theorem seqAll_clean (a : AMode) (m : RMode) (env : Env) :
    ∀ (cs : List Nat) (st : St) (r : Ret), seqAll rec a m env cs st = some r → cleanB r.raw = true →
      seqAll (filt rec) a m env cs st = some r := by
  intro cs
  induction cs with
  | nil => intro st r h _; simpa only [seqAll] using h
  | cons c cs ih =>
    intro st r h hc
    simp only [seqAll] at h
    split at h
    · exact absurd h (by simp)
    · rename_i r1 h1
      cases hres : r1.res with
      | ok =>
        simp only [hres] at h
        split at h
        · exact absurd h (by simp)
        · rename_i r2 h2
          simp only [Option.some.injEq] at h; subst h
          simp only [prepend_raw, cleanB_append, Bool.and_eq_true] at hc
          simp only [seqAll, filt_some h1 hc.1, hres, ih _ _ h2 hc.2]
      | fail =>
        simp only [hres, Option.some.injEq] at h; subst h
        simp only [seqAll, filt_some h1 hc, hres]
      | thr e =>
        simp only [hres, Option.some.injEq] at h; subst h
        simp only [seqAll, filt_some h1 hc, hres]

theorem sorAny_clean (a : AMode) (m : RMode) (env : Env) :
    ∀ (cs : List Nat) (st : St) (r : Ret), sorAny rec a m env cs st = some r → cleanB r.raw = true →
      sorAny (filt rec) a m env cs st = some r := by
  intro cs
  induction cs with
  | nil => intro st r h _; simpa only [sorAny] using h
  | cons c cs ih =>
    intro st r h hc
    cases cs with
    | nil =>
      simp only [sorAny] at h ⊢
      exact filt_some h hc
    | cons c' cs' =>
      simp only [sorAny] at h
      split at h
      · exact absurd h (by simp)
      · rename_i r1 h1
        cases hres : r1.res with
        | fail =>
          simp only [hres] at h
          split at h
          · exact absurd h (by simp)
          · rename_i r2 h2
            simp only [Option.some.injEq] at h; subst h
            simp only [prepend_raw, cleanB_append, Bool.and_eq_true] at hc
            simp only [sorAny, filt_some h1 hc.1, hres, ih _ _ h2 hc.2]
        | ok =>
          simp only [hres, Option.some.injEq] at h; subst h
          simp only [sorAny, filt_some h1 hc, hres]
        | thr e =>
          simp only [hres, Option.some.injEq] at h; subst h
          simp only [sorAny, filt_some h1 hc, hres]

theorem loopStar_clean (a : AMode) (env : Env) (cs : List Nat) :
    ∀ (k : Nat) (st : St) (r : Ret), loopStar rec a env cs k st = some r → cleanB r.raw = true →
      loopStar (filt rec) a env cs k st = some r := by
  intro k
  induction k with
  | zero => intro st r h _; simp [loopStar] at h
  | succ k ih =>
    intro st r h hc
    simp only [loopStar] at h
    split at h
    · exact absurd h (by simp)
    · rename_i r1 h1
      cases hres : r1.res with
      | ok =>
        simp only [hres] at h
        split at h
        · exact absurd h (by simp)
        · rename_i r2 h2
          simp only [Option.some.injEq] at h; subst h
          simp only [prepend_raw, cleanB_append, Bool.and_eq_true] at hc
          simp only [loopStar, seqAll_clean _ _ _ _ _ _ h1 hc.1, hres, ih _ _ h2 hc.2]
      | fail =>
        simp only [hres, Option.some.injEq] at h; subst h
        simp only [loopStar, seqAll_clean _ _ _ _ _ _ h1 hc, hres]
      | thr e =>
        simp only [hres, Option.some.injEq] at h; subst h
        simp only [loopStar, seqAll_clean _ _ _ _ _ _ h1 hc, hres]

theorem loopUntil1_clean (cx : Ctx) (a : AMode) (env : Env) (cond : Nat) :
    ∀ (k : Nat) (st : St) (r : Ret), loopUntil1 cx rec a env cond k st = some r → cleanB r.raw = true →
      loopUntil1 cx (filt rec) a env cond k st = some r := by
  intro k
  induction k with
  | zero => intro st r h _; simp [loopUntil1] at h
  | succ k ih =>
    intro st r h hc
    simp only [loopUntil1] at h
    split at h
    · exact absurd h (by simp)
    · rename_i r1 h1
      cases hres : r1.res with
      | ok =>
        simp only [hres, Option.some.injEq] at h; subst h
        simp only [loopUntil1, filt_some h1 hc, hres]
      | thr e =>
        simp only [hres, Option.some.injEq] at h; subst h
        simp only [loopUntil1, filt_some h1 hc, hres]
      | fail =>
        simp only [hres] at h
        cases hemp : r1.st.empty with
        | true =>
          simp only [hemp, if_true, Option.some.injEq] at h; subst h
          simp only [loopUntil1, filt_some h1 hc, hres, hemp, if_true]
        | false =>
          simp only [hemp, Bool.false_eq_true, if_false] at h
          split at h
          · exact absurd h (by simp)
          · rename_i r2 h2
            simp only [Option.some.injEq] at h; subst h
            simp only [prepend_raw, cleanB_append, Bool.and_eq_true] at hc
            simp only [loopUntil1, filt_some h1 hc.1, hres, hemp, Bool.false_eq_true, if_false, ih _ _ h2 hc.2]

theorem loopUntil2_clean (a : AMode) (env : Env) (cond b : Nat) :
    ∀ (k : Nat) (st : St) (r : Ret), loopUntil2 rec a env cond b k st = some r → cleanB r.raw = true →
      loopUntil2 (filt rec) a env cond b k st = some r := by
  intro k
  induction k with
  | zero => intro st r h _; simp [loopUntil2] at h
  | succ k ih =>
    intro st r h hc
    simp only [loopUntil2] at h
    split at h
    · exact absurd h (by simp)
    · rename_i r1 h1
      cases hres : r1.res with
      | ok =>
        simp only [hres, Option.some.injEq] at h; subst h
        simp only [loopUntil2, filt_some h1 hc, hres]
      | thr e =>
        simp only [hres, Option.some.injEq] at h; subst h
        simp only [loopUntil2, filt_some h1 hc, hres]
      | fail =>
        simp only [hres] at h
        split at h
        · exact absurd h (by simp)
        · rename_i r2 h2
          cases hres2 : r2.res with
          | ok =>
            simp only [hres2] at h
            split at h
            · exact absurd h (by simp)
            · rename_i r3 h3
              simp only [Option.some.injEq] at h; subst h
              simp only [prepend_raw, cleanB_append, Bool.and_eq_true] at hc
              simp only [loopUntil2, filt_some h1 hc.1.1, hres, filt_some h2 hc.1.2, hres2, ih _ _ h3 hc.2]
          | fail =>
            simp only [hres2, Option.some.injEq] at h; subst h
            simp only [prepend_raw, cleanB_append, Bool.and_eq_true] at hc
            simp only [loopUntil2, filt_some h1 hc.1, hres, filt_some h2 hc.2, hres2]
          | thr e =>
            simp only [hres2, Option.some.injEq] at h; subst h
            simp only [prepend_raw, cleanB_append, Bool.and_eq_true] at hc
            simp only [loopUntil2, filt_some h1 hc.1, hres, filt_some h2 hc.2, hres2]

theorem repN_clean (a : AMode) (m : RMode) (env : Env) (c : Nat) :
    ∀ (k : Nat) (st : St) (r : Ret), repN rec a m env c k st = some r → cleanB r.raw = true →
      repN (filt rec) a m env c k st = some r := by
  intro k
  induction k with
  | zero => intro st r h _; simpa only [repN] using h
  | succ k ih =>
    intro st r h hc
    simp only [repN] at h
    split at h
    · exact absurd h (by simp)
    · rename_i r1 h1
      cases hres : r1.res with
      | ok =>
        simp only [hres] at h
        split at h
        · exact absurd h (by simp)
        · rename_i r2 h2
          simp only [Option.some.injEq] at h; subst h
          simp only [prepend_raw, cleanB_append, Bool.and_eq_true] at hc
          simp only [repN, filt_some h1 hc.1, hres, ih _ _ h2 hc.2]
      | fail =>
        simp only [hres, Option.some.injEq] at h; subst h
        simp only [repN, filt_some h1 hc, hres]
      | thr e =>
        simp only [hres, Option.some.injEq] at h; subst h
        simp only [repN, filt_some h1 hc, hres]

theorem repUpTo_clean (a : AMode) (env : Env) (c : Nat) :
    ∀ (k : Nat) (st : St) (r : Ret) (full : Bool), repUpTo rec a env c k st = some (r, full) → cleanB r.raw = true →
      repUpTo (filt rec) a env c k st = some (r, full) := by
  intro k
  induction k with
  | zero => intro st r full h _; simpa only [repUpTo] using h
  | succ k ih =>
    intro st r full h hc
    simp only [repUpTo] at h
    split at h
    · exact absurd h (by simp)
    · rename_i r1 h1
      cases hres : r1.res with
      | ok =>
        simp only [hres] at h
        split at h
        · exact absurd h (by simp)
        · rename_i r2 full2 h2
          simp only [Option.some.injEq, Prod.mk.injEq] at h
          obtain ⟨rfl, rfl⟩ := h
          simp only [prepend_raw, cleanB_append, Bool.and_eq_true] at hc
          simp only [repUpTo, filt_some h1 hc.1, hres, ih _ _ _ h2 hc.2]
      | fail =>
        simp only [hres, Option.some.injEq, Prod.mk.injEq] at h
        obtain ⟨rfl, rfl⟩ := h
        simp only [repUpTo, filt_some h1 hc, hres]
      | thr e =>
        simp only [hres, Option.some.injEq, Prod.mk.injEq] at h
        obtain ⟨rfl, rfl⟩ := h
        simp only [repUpTo, filt_some h1 hc, hres]

theorem loopStarStrict_clean (a : AMode) (env : Env) (c rest : Nat) :
    ∀ (k : Nat) (st : St) (r : Ret), loopStarStrict rec a env c rest k st = some r → cleanB r.raw = true →
      loopStarStrict (filt rec) a env c rest k st = some r := by
  intro k
  induction k with
  | zero => intro st r h _; simp [loopStarStrict] at h
  | succ k ih =>
    intro st r h hc
    simp only [loopStarStrict] at h
    split at h
    · exact absurd h (by simp)
    · rename_i r1 h1
      cases hres : r1.res with
      | fail =>
        simp only [hres, Option.some.injEq] at h; subst h
        simp only [loopStarStrict, filt_some h1 hc, hres]
      | thr e =>
        simp only [hres, Option.some.injEq] at h; subst h
        simp only [loopStarStrict, filt_some h1 hc, hres]
      | ok =>
        simp only [hres] at h
        split at h
        · exact absurd h (by simp)
        · rename_i r2 h2
          cases hres2 : r2.res with
          | ok =>
            simp only [hres2] at h
            split at h
            · exact absurd h (by simp)
            · rename_i r3 h3
              simp only [Option.some.injEq] at h; subst h
              simp only [prepend_raw, cleanB_append, Bool.and_eq_true] at hc
              simp only [loopStarStrict, filt_some h1 hc.1.1, hres, filt_some h2 hc.1.2, hres2, ih _ _ h3 hc.2]
          | fail =>
            simp only [hres2, Option.some.injEq] at h; subst h
            simp only [prepend_raw, cleanB_append, Bool.and_eq_true] at hc
            simp only [loopStarStrict, filt_some h1 hc.1, hres, filt_some h2 hc.2, hres2]
          | thr e =>
            simp only [hres2, Option.some.injEq] at h; subst h
            simp only [prepend_raw, cleanB_append, Bool.and_eq_true] at hc
            simp only [loopStarStrict, filt_some h1 hc.1, hres, filt_some h2 hc.2, hres2]

theorem rematchAll_clean (a : AMode) (env : Env) (saved : Cursor) :
    ∀ (cs : List Nat) (st : St) (r : Ret), rematchAll rec a env saved cs st = some r → cleanB r.raw = true →
      rematchAll (filt rec) a env saved cs st = some r := by
  intro cs
  induction cs with
  | nil => intro st r h _; simpa only [rematchAll] using h
  | cons c cs ih =>
    intro st r h hc
    simp only [rematchAll] at h
    split at h
    · exact absurd h (by simp)
    · rename_i r1 h1
      cases hres : r1.res with
      | ok =>
        simp only [hres] at h
        split at h
        · exact absurd h (by simp)
        · rename_i r2 h2
          simp only [Option.some.injEq] at h; subst h
          simp only [prepend_raw, cleanB_append, Bool.and_eq_true] at hc
          simp only [rematchAll, filt_some h1 hc.1, hres, ih _ _ h2 hc.2]
      | fail =>
        simp only [hres, Option.some.injEq] at h; subst h
        simp only [rematchAll, filt_some h1 hc, hres]
      | thr e =>
        simp only [hres, Option.some.injEq] at h; subst h
        simp only [rematchAll, filt_some h1 hc, hres]

end helpers

/-- Every combinator body whose trace is clean used only sub-results with clean traces. -/
theorem body_clean {rec : Rec} (cx : Ctx) (k : Nat) (kind : Kind) (a : AMode) (m : RMode) (env : Env) (st : St) (r : Ret)
    (hb : body cx rec k kind a m env st = some r) (hc : cleanB r.raw = true) :
    body cx (filt rec) k kind a m env st = some r := by
  cases kind with
  | atom atm => simpa only [body] using hb
  | seq cs =>
    simp only [body] at hb ⊢
    split at hb
    · exact filt_some hb hc
    · simp only [Option.map_eq_some_iff] at hb ⊢
      obtain ⟨r0, h0, rfl⟩ := hb
      exact ⟨r0, seqAll_clean _ _ _ _ _ _ h0 (by simpa using hc), rfl⟩
  | sor cs =>
    simp only [body] at hb ⊢
    exact sorAny_clean _ _ _ _ _ _ hb hc
  | starPartial cs =>
    simp only [body] at hb ⊢
    exact loopStar_clean _ _ _ _ _ _ hb hc
  | partialR cs =>
    simp only [body, Option.map_eq_some_iff] at hb ⊢
    obtain ⟨r0, h0, rfl⟩ := hb
    refine ⟨r0, seqAll_clean _ _ _ _ _ _ h0 ?_, rfl⟩
    revert hc; split <;> exact id
  | plus c =>
    simp only [body] at hb
    split at hb
    · exact absurd hb (by simp)
    · rename_i r1 h1
      cases hres : r1.res with
      | ok =>
        simp only [hres, Option.map_eq_some_iff] at hb
        obtain ⟨r2, h2, rfl⟩ := hb
        simp only [prepend_raw, cleanB_append, Bool.and_eq_true] at hc
        simp only [body, filt_some h1 hc.1, hres, loopStar_clean _ _ _ _ _ _ h2 hc.2, Option.map_some]
      | fail =>
        simp only [hres, Option.some.injEq] at hb; subst hb
        simp only [body, filt_some h1 hc, hres]
      | thr e =>
        simp only [hres, Option.some.injEq] at hb; subst hb
        simp only [body, filt_some h1 hc, hres]
  | atR c =>
    simp only [body, Option.map_eq_some_iff] at hb ⊢
    obtain ⟨r0, h0, rfl⟩ := hb
    exact ⟨r0, filt_some h0 (by simpa using hc), rfl⟩
  | notAt c =>
    simp only [body, Option.map_eq_some_iff] at hb ⊢
    obtain ⟨r0, h0, rfl⟩ := hb
    refine ⟨r0, filt_some h0 ?_, rfl⟩
    revert hc
    split <;> simp
  | until1 cond =>
    simp only [body, Option.map_eq_some_iff] at hb ⊢
    obtain ⟨r0, h0, rfl⟩ := hb
    exact ⟨r0, loopUntil1_clean cx _ _ _ _ _ _ h0 (by simpa using hc), rfl⟩
  | until2 cond b =>
    simp only [body, Option.map_eq_some_iff] at hb ⊢
    obtain ⟨r0, h0, rfl⟩ := hb
    exact ⟨r0, loopUntil2_clean _ _ _ _ _ _ _ h0 (by simpa using hc), rfl⟩
  | rep n c =>
    simp only [body, Option.map_eq_some_iff] at hb ⊢
    obtain ⟨r0, h0, rfl⟩ := hb
    exact ⟨r0, repN_clean _ _ _ _ _ _ _ h0 (by simpa using hc), rfl⟩
  | repMinMax lo hi c na =>
    simp only [body] at hb
    split at hb
    · exact absurd hb (by simp)
    · rename_i r1 h1
      cases hres : r1.res with
      | ok =>
        simp only [hres] at hb
        split at hb
        · exact absurd hb (by simp)
        · rename_i r2 full h2
          split at hb
          · rename_i hcnd
            split at hb
            · exact absurd hb (by simp)
            · rename_i r3 h3
              simp only [Option.some.injEq] at hb; subst hb
              simp only [dropOnFail_raw, guardRestore_raw, prepend_raw, cleanB_append, Bool.and_eq_true] at hc
              simp only [body, repN_clean _ _ _ _ _ _ _ h1 hc.1.1, hres, repUpTo_clean _ _ _ _ _ _ _ h2 hc.1.2, hcnd, and_self, if_true,
                filt_some h3 hc.2]
          · rename_i hcnd
            simp only [Option.some.injEq] at hb; subst hb
            simp only [dropOnFail_raw, guardRestore_raw, prepend_raw, cleanB_append, Bool.and_eq_true] at hc
            simp only [body, repN_clean _ _ _ _ _ _ _ h1 hc.1, hres, repUpTo_clean _ _ _ _ _ _ _ h2 hc.2, hcnd, if_false]
      | fail =>
        simp only [hres, Option.some.injEq] at hb; subst hb
        simp only [body, repN_clean _ _ _ _ _ _ _ h1 (by simpa using hc), hres]
      | thr e =>
        simp only [hres, Option.some.injEq] at hb; subst hb
        simp only [body, repN_clean _ _ _ _ _ _ _ h1 (by simpa using hc), hres]
  | repOpt n c =>
    simp only [body, Option.map_eq_some_iff] at hb ⊢
    obtain ⟨⟨r0, full⟩, h0, rfl⟩ := hb
    exact ⟨(r0, full), repUpTo_clean _ _ _ _ _ _ _ h0 hc, rfl⟩
  | ifThenElse c t e =>
    simp only [body] at hb
    split at hb
    · exact absurd hb (by simp)
    · rename_i r1 h1
      cases hres : r1.res with
      | ok =>
        simp only [hres, Option.map_eq_some_iff] at hb
        obtain ⟨r2, h2, rfl⟩ := hb
        simp only [dropOnFail_raw, guardRestore_raw, prepend_raw, cleanB_append, Bool.and_eq_true] at hc
        simp only [body, filt_some h1 hc.1, hres, filt_some h2 hc.2, Option.map_some]
      | fail =>
        simp only [hres, Option.map_eq_some_iff] at hb
        obtain ⟨r2, h2, rfl⟩ := hb
        simp only [dropOnFail_raw, guardRestore_raw, prepend_raw, cleanB_append, Bool.and_eq_true] at hc
        simp only [body, filt_some h1 hc.1, hres, filt_some h2 hc.2, Option.map_some]
      | thr e =>
        simp only [hres, Option.some.injEq] at hb; subst hb
        simp only [body, filt_some h1 (by simpa using hc), hres]
  | strict c rest =>
    simp only [body] at hb
    split at hb
    · exact absurd hb (by simp)
    · rename_i r1 h1
      cases hres : r1.res with
      | ok =>
        simp only [hres, Option.map_eq_some_iff] at hb
        obtain ⟨r2, h2, rfl⟩ := hb
        simp only [dropOnFail_raw, guardRestore_raw, prepend_raw, cleanB_append, Bool.and_eq_true] at hc
        simp only [body, filt_some h1 hc.1, hres, filt_some h2 hc.2, Option.map_some]
      | fail =>
        simp only [hres, Option.some.injEq] at hb; subst hb
        simp only [body, filt_some h1 hc, hres]
      | thr e =>
        simp only [hres, Option.some.injEq] at hb; subst hb
        simp only [body, filt_some h1 (by simpa using hc), hres]
  | starStrict c rest =>
    simp only [body, Option.map_eq_some_iff] at hb ⊢
    obtain ⟨r0, h0, rfl⟩ := hb
    exact ⟨r0, loopStarStrict_clean _ _ _ _ _ _ _ h0 (by simpa using hc), rfl⟩
  | rematch head rs =>
    cases rs with
    | nil =>
      simp only [body] at hb ⊢
      exact filt_some hb hc
    | cons c0 rs0 =>
      simp only [body] at hb
      split at hb
      · exact absurd hb (by simp)
      · rename_i r1 h1
        cases hres : r1.res with
        | ok =>
          simp only [hres] at hb
          split at hb
          · exact absurd hb (by simp)
          · rename_i r2 h2
            simp only [Option.some.injEq] at hb; subst hb
            simp only [dropOnFail_raw, guardRestore_raw, prepend_raw, cleanB_append, Bool.and_eq_true] at hc
            simp only [body, filt_some h1 hc.1, hres, rematchAll_clean _ _ _ _ _ _ h2 hc.2]
        | fail =>
          simp only [hres, Option.some.injEq] at hb; subst hb
          simp only [body, filt_some h1 (by simpa using hc), hres]
        | thr e =>
          simp only [hres, Option.some.injEq] at hb; subst hb
          simp only [body, filt_some h1 (by simpa using hc), hres]
  | must c =>
    simp only [body] at hb
    split at hb
    · exact absurd hb (by simp)
    · rename_i r1 h1
      cases hres : r1.res with
      | fail =>
        simp only [hres, Option.some.injEq] at hb; subst hb
        simp only [cleanB_append, Bool.and_eq_true] at hc
        simp only [body, filt_some h1 hc.1, hres]
      | ok =>
        simp only [hres, Option.some.injEq] at hb; subst hb
        simp only [body, filt_some h1 hc, hres]
      | thr e =>
        simp only [hres, Option.some.injEq] at hb; subst hb
        simp only [body, filt_some h1 hc, hres]
  | ifMust dflt cond mn =>
    simp only [body] at hb
    split at hb
    · exact absurd hb (by simp)
    · rename_i r1 h1
      cases hres : r1.res with
      | ok =>
        simp only [hres, Option.map_eq_some_iff] at hb
        obtain ⟨r2, h2, rfl⟩ := hb
        have hc' : cleanB r1.raw = true ∧ cleanB r2.raw = true := by
          revert hc
          split <;> simp [Bool.and_eq_true]
        simp only [body, filt_some h1 hc'.1, hres, filt_some h2 hc'.2, Option.map_some]
      | fail =>
        simp only [hres, Option.some.injEq] at hb; subst hb
        simp only [body, filt_some h1 hc, hres]
      | thr e =>
        simp only [hres, Option.some.injEq] at hb; subst hb
        simp only [body, filt_some h1 hc, hres]
  | raise t => simpa only [body] using hb
  | tryCatchReturnFalse ex c =>
    simp only [body, Option.map_eq_some_iff] at hb ⊢
    obtain ⟨r0, h0, rfl⟩ := hb
    refine ⟨r0, filt_some h0 ?_, rfl⟩
    revert hc
    simp only [dropOnFail_raw, guardRestore_raw]
    split
    · split <;> exact id
    · exact id
  | tryCatchRaiseNested ex c =>
    simp only [body, Option.map_eq_some_iff] at hb ⊢
    obtain ⟨r0, h0, rfl⟩ := hb
    refine ⟨r0, filt_some h0 ?_, rfl⟩
    revert hc
    simp only [dropOnFail_raw, guardRestore_raw]
    split
    · split <;> exact id
    · exact id
  | enable c => simp only [body] at hb ⊢; exact filt_some hb hc
  | disable c => simp only [body] at hb ⊢; exact filt_some hb hc
  | action fam c => simp only [body] at hb ⊢; exact filt_some hb hc
  | control kc c => simp only [body] at hb ⊢; exact filt_some hb hc
  | state d c =>
    simp only [body, Option.map_eq_some_iff] at hb ⊢
    obtain ⟨r0, h0, rfl⟩ := hb
    refine ⟨r0, filt_some h0 ?_, rfl⟩
    simp only [stateScope, List.cons_append, List.append_assoc, cleanB_cons, cleanB_append, Bool.and_eq_true] at hc
    exact hc.2.1
  | ifApply c acts =>
    simp only [body] at hb ⊢
    split at hb
    · rename_i hcnd
      rw [if_pos hcnd]
      simp only [Option.map_eq_some_iff] at hb ⊢
      obtain ⟨r0, h0, rfl⟩ := hb
      refine ⟨r0, filt_some h0 ?_, rfl⟩
      revert hc
      split
      · simp only [dropOnFail_raw, guardRestore_raw, cleanB_append, Bool.and_eq_true]; exact fun h => h.1
      · simp only [dropOnFail_raw, guardRestore_raw]; exact id
    · rename_i hcnd
      rw [if_neg hcnd]
      exact filt_some hb hc
  | applyR acts => simpa only [body] using hb

theorem cleanB_of_sub {a b : List Ev} (h : ∀ e, e ∈ a → e ∈ b) (hb : cleanB b = true) : cleanB a = true := by
  simp only [cleanB, List.all_eq_true] at hb ⊢
  exact fun e he => hb e (h e he)

theorem nodeCore_clean {rec : Rec} (cx : Ctx) (k i : Nat) (nd : Node) (a : AMode) (m : RMode) (env : Env) (st : St) (r : Ret)
    (h : nodeCore cx rec k i nd a m env st = some r) (hc : cleanB r.raw = true) :
    nodeCore cx (filt rec) k i nd a m env st = some r := by
  unfold nodeCore at h ⊢
  cases hctl : nd.ctl with
  | false =>
    simp only [hctl, Bool.not_false, if_true] at h ⊢
    exact body_clean cx k _ _ _ _ _ _ h hc
  | true =>
    simp only [hctl, Bool.not_true, Bool.false_eq_true, if_false, Option.map_eq_some_iff] at h ⊢
    obtain ⟨r0, h0, rfl⟩ := h
    refine ⟨r0, body_clean cx k _ _ _ _ _ _ h0 ?_, rfl⟩
    simp only [guardRestore_raw, cleanB_cons, Bool.and_eq_true] at hc
    exact cleanB_of_sub (afterBody_raw_sub _ _ _ _ _ _ _) hc.2

/-- A guarded run whose trace shows no `raise` of a `limit_depth` pseudo-rule is a run of the `stuck` reading. -/
theorem nodeCall_clean {rec rec' : Rec} (hle : RecLe (filt rec) rec') (cx : Ctx) (k i : Nat) (a : AMode) (m : RMode)
    (env : Env) (st : St) (r : Ret) (h : nodeCall cx rec k i a m env st = some r) (hc : cleanB r.raw = true) :
    nodeCallM .stuck cx rec' k i a m env st = some r := by
  -- first: the same result from the filtered oracle, in the `stuck` reading
  have key : nodeCallM .stuck cx (filt rec) k i a m env st = some r := by
    unfold nodeCall at h
    unfold nodeCallM
    cases hg : cx.g[i]? with
    | none => simp [hg] at h
    | some nd =>
      simp only [hg, Option.map_eq_some_iff] at h ⊢
      obtain ⟨r0, h0, rfl⟩ := h
      have hc0 : cleanB r0.raw = true :=
        cleanB_of_sub (fun e he => by simp [bracket, he]) hc
      split at h0
      · rename_i hw
        simp only [hw]
        simp only [nodeCall, hg, hw, Option.map_eq_some_iff]
        exact ⟨r0, nodeCore_clean cx k i nd a m env st r0 h0 hc0, rfl⟩
      · rename_i f hw
        simp only [hw]
        simp only [nodeCall, hg, hw, Option.map_eq_some_iff]
        exact ⟨r0, filt_some h0 hc0, rfl⟩
      · rename_i hw
        simp only [hw]
        simp only [nodeCall, hg, hw, Option.map_eq_some_iff]
        exact ⟨r0, nodeCore_clean cx k i nd _ m env st r0 h0 hc0, rfl⟩
      · rename_i hw
        simp only [hw]
        simp only [nodeCall, hg, hw, Option.map_eq_some_iff]
        exact ⟨r0, nodeCore_clean cx k i nd _ m env st r0 h0 hc0, rfl⟩
      · rename_i n hw
        simp only [hw, Option.map_eq_some_iff]
        refine ⟨r0, ?_, rfl⟩
        unfold limitDepthCall at h0
        split at h0
        · -- the limit fired: the trace is not clean
          simp only [Option.some.injEq] at h0; subst h0
          simp [cleanB, Ev.isLdRaise, limitDepthId] at hc0
        · rename_i hlim
          simp only [Option.map_eq_some_iff] at h0
          obtain ⟨r1, h1, rfl⟩ := h0
          simp only [limitDepthCallM, hlim, if_false, Option.map_eq_some_iff]
          exact ⟨r1, nodeCore_clean cx k i nd a m env _ r1 h1 hc0, rfl⟩
      · rename_i n hw
        simp only [hw]
        simp only [nodeCall, hg, hw, Option.map_eq_some_iff]
        refine ⟨r0, ?_, rfl⟩
        unfold limitBytesCall at h0 ⊢
        simp only [Option.map_eq_some_iff] at h0 ⊢
        obtain ⟨r1, h1, rfl⟩ := h0
        refine ⟨r1, nodeCore_clean cx k i nd a m env _ r1 h1 ?_, rfl⟩
        revert hc0
        split
        · simp only [cleanB_append, Bool.and_eq_true]; exact fun h => h.1
        · exact id
      · rename_i mu hw
        simp only [hw]
        simp only [nodeCall, hg, hw, Option.map_eq_some_iff]
        refine ⟨r0, ?_, rfl⟩
        simp only [Option.map_eq_some_iff] at h0 ⊢
        obtain ⟨r1, h1, rfl⟩ := h0
        refine ⟨r1, nodeCore_clean cx k i nd a m _ st r1 h1 ?_, rfl⟩
        simp only [stateScope, List.cons_append, List.append_assoc, cleanB_cons, cleanB_append, Bool.and_eq_true] at hc0
        exact hc0.2.1
      · rename_i f mu hw
        simp only [hw]
        simp only [nodeCall, hg, hw, Option.map_eq_some_iff]
        refine ⟨r0, ?_, rfl⟩
        simp only [Option.map_eq_some_iff] at h0 ⊢
        obtain ⟨r1, h1, rfl⟩ := h0
        refine ⟨r1, filt_some h1 ?_, rfl⟩
        simp only [stateScope, List.cons_append, List.append_assoc, cleanB_cons, cleanB_append, Bool.and_eq_true] at hc0
        exact hc0.2.1
      · rename_i kc hw
        simp only [hw]
        simp only [nodeCall, hg, hw, Option.map_eq_some_iff]
        exact ⟨r0, nodeCore_clean cx k i nd a m _ st r0 h0 hc0, rfl⟩
  exact nodeCallM_stuck_le .stuck hle cx k i a m env st r key

theorem run_clean (cx : Ctx) : ∀ n, RecLe (filt (run cx n)) (runM .stuck cx n) := by
  intro n
  induction n with
  | zero => intro j a m env st r h; simp [filt, run] at h
  | succ n ih =>
    intro j a m env st r h
    simp only [filt] at h
    split at h
    · rename_i r' h'
      split at h
      · rename_i hc
        simp only [Option.some.injEq] at h; subst h
        simp only [run] at h'
        simp only [runM]
        exact nodeCall_clean ih cx n j a m env st r' h' hc
      · exact absurd h (by simp)
    · exact absurd h (by simp)

end Pegtl
