/-
  Lemmas/UriExc.lean — which global failures a grammar can produce.

  In the PEG-with-errors formalism an outcome `err b` is created only by a `raise l` expression
  (`must< R >` ≡ `sor< R, raise< R > >`) and re-labelled only by `catchN` (`try_catch_raise_nested`).
  `sem_err`: if no rule body contains `catchN` and every `raise` label of every rule body lies in a
  set `S`, then every global failure is `parse l` with `l ∈ S`.
-/
import PegtlVerif.Spec.Peg

namespace Pegtl.Spec

/-- Labels of the `raise` sub-expressions. -/
def raiseLabels : PExp → List Nat
  | .raise l => [l]
  | .seq a b => raiseLabels a ++ raiseLabels b
  | .alt a b => raiseLabels a ++ raiseLabels b
  | .star e => raiseLabels e
  | .and_ e => raiseLabels e
  | .not_ e => raiseLabels e
  | .catchF e => raiseLabels e
  | .catchN _ e => raiseLabels e
  | .sub h e => raiseLabels h ++ raiseLabels e
  | _ => []

/-- No `catchN` (nested re-raise) inside. -/
def noCatchN : PExp → Bool
  | .catchN _ _ => false
  | .seq a b => noCatchN a && noCatchN b
  | .alt a b => noCatchN a && noCatchN b
  | .star e => noCatchN e
  | .and_ e => noCatchN e
  | .not_ e => noCatchN e
  | .catchF e => noCatchN e
  | .sub h e => noCatchN h && noCatchN e
  | _ => true

/-- `e` is free of `catchN` and raises only labels accepted by `S`. -/
def RaisesOnly (S : Nat → Bool) (e : PExp) : Bool := noCatchN e && (raiseLabels e).all S

theorem raisesOnly_seq {S a b} (h : RaisesOnly S (.seq a b) = true) : RaisesOnly S a = true ∧ RaisesOnly S b = true := by
  simp only [RaisesOnly, noCatchN, raiseLabels, List.all_append, Bool.and_eq_true] at h ⊢
  exact ⟨⟨h.1.1, h.2.1⟩, ⟨h.1.2, h.2.2⟩⟩

theorem raisesOnly_alt {S a b} (h : RaisesOnly S (.alt a b) = true) : RaisesOnly S a = true ∧ RaisesOnly S b = true := by
  simp only [RaisesOnly, noCatchN, raiseLabels, List.all_append, Bool.and_eq_true] at h ⊢
  exact ⟨⟨h.1.1, h.2.1⟩, ⟨h.1.2, h.2.2⟩⟩

theorem raisesOnly_sub {S a b} (h : RaisesOnly S (.sub a b) = true) : RaisesOnly S a = true ∧ RaisesOnly S b = true := by
  simp only [RaisesOnly, noCatchN, raiseLabels, List.all_append, Bool.and_eq_true] at h ⊢
  exact ⟨⟨h.1.1, h.2.1⟩, ⟨h.1.2, h.2.2⟩⟩

/-- Every global failure of a `catchN`-free grammar is `parse l` for the label `l` of one of its `raise`s. -/
theorem sem_err {G : Nat → Option PExp} {S : Nat → Bool}
    (hG : ∀ i e, G i = some e → RaisesOnly S e = true)
    {eol inp endp e p o} (h : Sem G eol inp endp e p o) :
    RaisesOnly S e = true → ∀ b, o = .err b → ∃ l, S l = true ∧ b = .parse l := by
  induction h with
  | eps => intro _ b ho; cases ho
  | failE => intro _ b ho; cases ho
  | atomOk => intro _ b ho; cases ho
  | atomFail => intro _ b ho; cases ho
  | ref hg _ ih => intro _ b ho; exact ih (hG _ _ hg) b ho
  | seqOk _ _ _ ih₂ => intro hr b ho; exact ih₂ (raisesOnly_seq hr).2 b ho
  | seqFail => intro _ b ho; cases ho
  | seqErr _ ih => intro hr b ho; exact ih (raisesOnly_seq hr).1 b ho
  | altOk => intro _ b ho; cases ho
  | altErr _ ih => intro hr b ho; exact ih (raisesOnly_alt hr).1 b ho
  | altFail _ _ _ ih₂ => intro hr b ho; exact ih₂ (raisesOnly_alt hr).2 b ho
  | starDone => intro _ b ho; cases ho
  | starErr _ ih => intro hr b ho; exact ih hr b ho
  | starStep _ _ _ ih₂ => intro hr b ho; exact ih₂ hr b ho
  | andOk => intro _ b ho; cases ho
  | andFail => intro _ b ho; cases ho
  | andErr _ ih => intro hr b ho; exact ih hr b ho
  | notOk => intro _ b ho; cases ho
  | notFail => intro _ b ho; cases ho
  | notErr _ ih => intro hr b ho; exact ih hr b ho
  | raise =>
    intro hr b ho
    cases ho
    simp only [RaisesOnly, noCatchN, raiseLabels, List.all_cons, List.all_nil, Bool.and_true, Bool.true_and] at hr
    exact ⟨_, hr, rfl⟩
  | catchFOk => intro _ b ho; cases ho
  | catchFFail => intro _ b ho; cases ho
  | catchFErr => intro _ b ho; cases ho
  | catchNOk => intro _ b ho; cases ho
  | catchNFail => intro _ b ho; cases ho
  | catchNErr => intro hr; simp [RaisesOnly, noCatchN] at hr
  | subOk => intro _ b ho; cases ho
  | subInnerFail => intro _ b ho; cases ho
  | subInnerErr _ _ _ ih₂ => intro hr b ho; exact ih₂ (raisesOnly_sub hr).2 b ho
  | subFail => intro _ b ho; cases ho
  | subErr _ ih => intro hr b ho; exact ih (raisesOnly_sub hr).1 b ho

end Pegtl.Spec
