/-
  Lemmas/SemDet.lean — the formalism is deterministic, and the fuel evaluator `semEvalE`
  computes it.
-/
import PegtlVerif.Spec.Peg

namespace Pegtl.Spec

theorem Sem.det {G eol inp} : ∀ {endp e p o₁ o₂},
    Sem G eol inp endp e p o₁ → Sem G eol inp endp e p o₂ → o₁ = o₂ := by
  intro endp e p o₁ o₂ h1 h2
  induction h1 generalizing o₂ with
  | eps => cases h2; rfl
  | failE => cases h2; rfl
  | atomOk ha => cases h2 <;> simp_all
  | atomFail ha => cases h2 <;> simp_all
  | ref hG _ ih =>
    cases h2 with
    | ref hG' h' => rw [hG] at hG'; cases hG'; exact ih h'
  | seqOk _ _ ih1 ih2 =>
    cases h2 with
    | seqOk a b => cases ih1 a; exact ih2 b
    | seqFail a => cases ih1 a
    | seqErr a => cases ih1 a
  | seqFail _ ih =>
    cases h2 with
    | seqOk a b => cases ih a
    | seqFail a => rfl
    | seqErr a => cases ih a
  | seqErr _ ih =>
    cases h2 with
    | seqOk a b => cases ih a
    | seqFail a => cases ih a
    | seqErr a => exact ih a
  | altOk _ ih =>
    cases h2 with
    | altOk a => exact ih a
    | altErr a => cases ih a
    | altFail a b => cases ih a
  | altErr _ ih =>
    cases h2 with
    | altOk a => cases ih a
    | altErr a => exact ih a
    | altFail a b => cases ih a
  | altFail _ _ ih1 ih2 =>
    cases h2 with
    | altOk a => cases ih1 a
    | altErr a => cases ih1 a
    | altFail a b => exact ih2 b
  | starDone _ ih =>
    cases h2 with
    | starDone a => rfl
    | starErr a => cases ih a
    | starStep a b => cases ih a
  | starErr _ ih =>
    cases h2 with
    | starDone a => cases ih a
    | starErr a => exact ih a
    | starStep a b => cases ih a
  | starStep _ _ ih1 ih2 =>
    cases h2 with
    | starDone a => cases ih1 a
    | starErr a => cases ih1 a
    | starStep a b => cases ih1 a; exact ih2 b
  | andOk _ ih =>
    cases h2 with
    | andOk a => rfl
    | andFail a => cases ih a
    | andErr a => cases ih a
  | andFail _ ih =>
    cases h2 with
    | andOk a => cases ih a
    | andFail a => rfl
    | andErr a => cases ih a
  | andErr _ ih =>
    cases h2 with
    | andOk a => cases ih a
    | andFail a => cases ih a
    | andErr a => exact ih a
  | notOk _ ih =>
    cases h2 with
    | notOk a => rfl
    | notFail a => cases ih a
    | notErr a => cases ih a
  | notFail _ ih =>
    cases h2 with
    | notOk a => cases ih a
    | notFail a => rfl
    | notErr a => cases ih a
  | notErr _ ih =>
    cases h2 with
    | notOk a => cases ih a
    | notFail a => cases ih a
    | notErr a => exact ih a
  | raise => cases h2; rfl
  | catchFOk _ ih =>
    cases h2 with
    | catchFOk a => exact ih a
    | catchFFail a => cases ih a
    | catchFErr a => cases ih a
  | catchFFail _ ih =>
    cases h2 with
    | catchFOk a => cases ih a
    | catchFFail a => rfl
    | catchFErr a => rfl
  | catchFErr _ ih =>
    cases h2 with
    | catchFOk a => cases ih a
    | catchFFail a => rfl
    | catchFErr a => rfl
  | catchNOk _ ih =>
    cases h2 with
    | catchNOk a => exact ih a
    | catchNFail a => cases ih a
    | catchNErr a => cases ih a
  | catchNFail _ ih =>
    cases h2 with
    | catchNOk a => cases ih a
    | catchNFail a => rfl
    | catchNErr a => cases ih a
  | catchNErr _ ih =>
    cases h2 with
    | catchNOk a => cases ih a
    | catchNFail a => cases ih a
    | catchNErr a => cases ih a; rfl
  | subOk _ _ ih1 ih2 =>
    cases h2 with
    | subOk a b => cases ih1 a; rfl
    | subInnerFail a b => cases ih1 a; cases ih2 b
    | subInnerErr a b => cases ih1 a; cases ih2 b
    | subFail a => cases ih1 a
    | subErr a => cases ih1 a
  | subInnerFail _ _ ih1 ih2 =>
    cases h2 with
    | subOk a b => cases ih1 a; cases ih2 b
    | subInnerFail a b => rfl
    | subInnerErr a b => cases ih1 a; cases ih2 b
    | subFail a => rfl
    | subErr a => cases ih1 a
  | subInnerErr _ _ ih1 ih2 =>
    cases h2 with
    | subOk a b => cases ih1 a; cases ih2 b
    | subInnerFail a b => cases ih1 a; cases ih2 b
    | subInnerErr a b => cases ih1 a; exact ih2 b
    | subFail a => cases ih1 a
    | subErr a => cases ih1 a
  | subFail _ ih =>
    cases h2 with
    | subOk a b => cases ih a
    | subInnerFail a b => rfl
    | subInnerErr a b => cases ih a
    | subFail a => rfl
    | subErr a => cases ih a
  | subErr _ ih =>
    cases h2 with
    | subOk a b => cases ih a
    | subInnerFail a b => cases ih a
    | subInnerErr a b => cases ih a
    | subFail a => cases ih a
    | subErr a => exact ih a

end Pegtl.Spec

namespace Pegtl.Spec

/-- The fuel evaluator only returns what the relation derives. -/
theorem semEvalE_sound {G eol inp} : ∀ f endp e p o,
    semEvalE G eol inp f endp e p = some o → Sem G eol inp endp e p o := by
  intro f endp e p
  fun_induction semEvalE G eol inp f endp e p <;> intro o h
  case case1 => cases h; exact .eps
  case case2 => cases h; exact .failE
  case case3 => rename_i hx; cases h; exact .atomOk hx
  case case4 => rename_i hx; cases h; exact .atomFail hx
  case case5 => cases h
  case case6 => rename_i hx ih; exact .ref hx (ih _ h)
  case case7 => cases h
  case case8 => rename_i hx ih2 ih1; exact .seqOk (ih2 _ hx) (ih1 _ h)
  case case9 =>
    rename_i hx ih
    have s := ih _ h
    cases o with
    | ok q => exact (hx q h).elim
    | fail => exact .seqFail s
    | err b => exact .seqErr s
  case case10 => rename_i hx ih2 ih1; exact .altFail (ih2 _ hx) (ih1 _ h)
  case case11 =>
    rename_i hx ih
    have s := ih _ h
    cases o with
    | ok q => exact .altOk s
    | fail => exact (hx h).elim
    | err b => exact .altErr s
  case case12 => cases h
  case case13 => rename_i hx ih2 ih1; exact .starStep (ih2 _ hx) (ih1 _ h)
  case case14 => rename_i hx ih; cases h; exact .starDone (ih _ hx)
  case case15 =>
    rename_i hx1 hx2 ih
    have s := ih _ h
    cases o with
    | ok q => exact (hx1 q h).elim
    | fail => exact (hx2 h).elim
    | err b => exact .starErr s
  case case16 => rename_i hx ih; cases h; exact .andOk (ih _ hx)
  case case17 =>
    rename_i hx ih
    have s := ih _ h
    cases o with
    | ok q => exact (hx q h).elim
    | fail => exact .andFail s
    | err b => exact .andErr s
  case case18 => rename_i hx ih; cases h; exact .notOk (ih _ hx)
  case case19 => rename_i hx ih; cases h; exact .notFail (ih _ hx)
  case case20 =>
    rename_i hx1 hx2 ih
    have s := ih _ h
    cases o with
    | ok q => exact (hx1 q h).elim
    | fail => exact (hx2 h).elim
    | err b => exact .notErr s
  case case21 => cases h; exact .raise
  case case22 => rename_i hx ih; cases h; exact .catchFErr (ih _ hx)
  case case23 =>
    rename_i hx ih
    have s := ih _ h
    cases o with
    | ok q => exact .catchFOk s
    | fail => exact .catchFFail s
    | err b => exact (hx b h).elim
  case case24 => rename_i hx ih; cases h; exact .catchNErr (ih _ hx)
  case case25 =>
    rename_i hx ih
    have s := ih _ h
    cases o with
    | ok q => exact .catchNOk s
    | fail => exact .catchNFail s
    | err b => exact (hx b h).elim
  case case26 => rename_i hx1 q2 hx2 ih2 ih1; cases h; exact .subOk (ih2 _ hx1) (ih1 _ hx2)
  case case27 =>
    rename_i hx1 hx2 ih2 ih1
    have s := ih1 _ h
    cases o with
    | ok q => exact (hx2 q h).elim
    | fail => exact .subInnerFail (ih2 _ hx1) s
    | err b => exact .subInnerErr (ih2 _ hx1) s
  case case28 =>
    rename_i hx ih
    have s := ih _ h
    cases o with
    | ok q => exact (hx q h).elim
    | fail => exact .subFail s
    | err b => exact .subErr s

end Pegtl.Spec
