/-
  Lemmas/Rewind.lean — the rewind / frame invariant of the matcher, closed under every
  combinator body and under the match.hpp protocol (used by C02, C18, C03).
-/
import PegtlVerif.Model.Run
import PegtlVerif.Lemmas.Input

namespace Pegtl

/-- The part of the invariant that survives composition without a guard: the end and the depth
    counter are untouched and the cursor never ends up before where the invocation started
    (in every outcome, exceptions included). -/
structure Weak (st : St) (r : Ret) : Prop where
  endp : r.st.endp = st.endp
  depth : r.st.depth = st.depth
  le : st.cur.pos ≤ r.st.cur.pos
  inb : st.cur.pos ≤ st.endp → r.st.cur.pos ≤ st.endp
  noob : st.cur.pos ≤ st.endp → st.oob = false → r.st.oob = false

/-- What every invocation guarantees about the input state. -/
structure Good (m : RMode) (st : St) (r : Ret) : Prop extends Weak st r where
  failCur : r.res = .fail → m = .required → r.st.cur = st.cur

def GoodRec (rec : Rec) : Prop := ∀ j a m env st r, rec j a m env st = some r → Good m st r

theorem Weak.refl (st : St) (res : Res) (raw surv : List Ev) : Weak st ⟨res, st, raw, surv⟩ :=
  ⟨rfl, rfl, Nat.le_refl _, id, fun _ h => h⟩

theorem Weak.trans {st r1 r2} (h1 : Weak st r1) (h2 : Weak r1.st r2) : Weak st r2 where
  endp := by rw [h2.endp, h1.endp]
  depth := by rw [h2.depth, h1.depth]
  le := Nat.le_trans h1.le h2.le
  inb := fun hv => by
    have := h2.inb (by rw [h1.endp]; exact h1.inb hv)
    rw [h1.endp] at this; exact this
  noob := fun hv ho => h2.noob (by rw [h1.endp]; exact h1.inb hv) (h1.noob hv ho)

@[simp] theorem prepend_res (raw surv : List Ev) (r : Ret) : (r.prepend raw surv).res = r.res := rfl
@[simp] theorem prepend_st (raw surv : List Ev) (r : Ret) : (r.prepend raw surv).st = r.st := rfl

@[simp] theorem dropOnFail_res (r : Ret) : r.dropOnFail.res = r.res := by
  unfold Ret.dropOnFail; split <;> rfl
@[simp] theorem dropOnFail_st (r : Ret) : r.dropOnFail.st = r.st := by
  unfold Ret.dropOnFail; split <;> rfl

theorem Weak.prepend {st r} (raw surv : List Ev) (h : Weak st r) : Weak st (r.prepend raw surv) :=
  ⟨h.endp, h.depth, h.le, h.inb, h.noob⟩

/-- Only the state matters. -/
theorem Weak.congr {st r r'} (h : Weak st r) (hs : r'.st = r.st) : Weak st r' :=
  ⟨by rw [hs]; exact h.endp, by rw [hs]; exact h.depth, by rw [hs]; exact h.le, by rw [hs]; exact h.inb,
   by rw [hs]; exact h.noob⟩

theorem Good.congr {m st r r'} (h : Good m st r) (hs : r'.st = r.st) (hr : r'.res = r.res) : Good m st r' :=
  ⟨h.toWeak.congr hs, by rw [hs, hr]; exact h.failCur⟩

theorem Good.prepend {m st r} (raw surv : List Ev) (h : Good m st r) : Good m st (r.prepend raw surv) :=
  h.congr rfl rfl

theorem Good.dropOnFail {m st r} (h : Good m st r) : Good m st r.dropOnFail :=
  h.congr (by simp) (by simp)

theorem Good.ofWeakNoFail {m st r} (h : Weak st r) (hn : r.res ≠ .fail) : Good m st r :=
  ⟨h, fun hf => absurd hf hn⟩

@[simp] theorem guardRestore_res (m : RMode) (c : Cursor) (r : Ret) : (guardRestore m c r).res = r.res := by
  unfold guardRestore; split <;> rfl

/-- An `auto_rewind` guard in mode `g` turns a weakly framed body into a good invocation for
    every requested mode `m` that the guard covers. -/
theorem guard_good {g m st r} (hg : g = .required ∨ g = m) (h : Weak st r) :
    Good m st (guardRestore g st.cur r) := by
  unfold guardRestore
  split
  · exact ⟨⟨h.endp, h.depth, Nat.le_refl _, id, h.noob⟩, fun _ _ => rfl⟩
  · rename_i hc
    refine ⟨h, ?_⟩
    intro hf hm
    rcases hg with hg | hg
    · exact absurd ⟨hg, by simp [hf]⟩ hc
    · exact absurd ⟨hg.trans hm, by simp [hf]⟩ hc

theorem guard_drop_good {m st r} (h : Weak st r) : Good m st (guardRestore m st.cur r).dropOnFail :=
  (guard_good (Or.inr rfl) h).dropOnFail

theorem guard_req_drop_good {m st r} (h : Weak st r) : Good m st (guardRestore .required st.cur r).dropOnFail :=
  (guard_good (Or.inl rfl) h).dropOnFail

theorem alwaysRestore_good {m st r} (h : Weak st r) : Good m st (alwaysRestore st.cur r) :=
  ⟨⟨h.endp, h.depth, Nat.le_refl _, id, h.noob⟩, fun _ _ => rfl⟩

section helpers
variable {rec : Rec} (hrec : GoodRec rec)
include hrec

theorem seqAll_weak (a : AMode) (m : RMode) (env : Env) :
    ∀ (cs : List Nat) (st : St) (r : Ret), seqAll rec a m env cs st = some r → Weak st r := by
  intro cs
  induction cs with
  | nil =>
    intro st r h
    simp only [seqAll, Option.some.injEq] at h
    subst h
    exact Weak.refl _ _ _ _
  | cons c cs ih =>
    intro st r h
    simp only [seqAll] at h
    split at h
    · exact absurd h (by simp)
    · rename_i r1 h1
      have g1 := (hrec _ _ _ _ _ _ h1).toWeak
      split at h
      · split at h
        · exact absurd h (by simp)
        · rename_i r2 h2
          simp only [Option.some.injEq] at h
          subst h
          exact (g1.trans (ih _ _ h2)).prepend _ _
      · simp only [Option.some.injEq] at h
        subst h
        exact g1

theorem sorAny_good (a : AMode) (m : RMode) (env : Env) :
    ∀ (cs : List Nat) (st : St) (r : Ret), sorAny rec a m env cs st = some r → Good m st r := by
  intro cs
  induction cs with
  | nil =>
    intro st r h
    simp only [sorAny, Option.some.injEq] at h
    subst h
    exact ⟨Weak.refl _ _ _ _, fun _ _ => rfl⟩
  | cons c cs ih =>
    intro st r h
    cases cs with
    | nil =>
      simp only [sorAny] at h
      exact hrec _ _ _ _ _ _ h
    | cons c' cs' =>
      simp only [sorAny] at h
      split at h
      · exact absurd h (by simp)
      · rename_i r1 h1
        have g1 := hrec _ _ _ _ _ _ h1
        split at h
        · rename_i hf
          split at h
          · exact absurd h (by simp)
          · rename_i r2 h2
            simp only [Option.some.injEq] at h
            subst h
            have g2 := ih _ _ h2
            have hc : r1.st.cur = st.cur := g1.failCur hf rfl
            exact Good.prepend _ _ ⟨g1.toWeak.trans g2.toWeak, fun hf2 hm => by rw [g2.failCur hf2 hm, hc]⟩
        · simp only [Option.some.injEq] at h
          subst h
          rename_i hnf
          exact ⟨g1.toWeak, fun hf _ => absurd hf (by intro hf; exact hnf hf)⟩

theorem loopStar_weak (a : AMode) (env : Env) (cs : List Nat) :
    ∀ (k : Nat) (st : St) (r : Ret), loopStar rec a env cs k st = some r → Weak st r ∧ r.res ≠ .fail := by
  intro k
  induction k with
  | zero => intro st r h; simp [loopStar] at h
  | succ k ih =>
    intro st r h
    simp only [loopStar] at h
    split at h
    · exact absurd h (by simp)
    · rename_i r1 h1
      have g1 := seqAll_weak hrec a .required env cs st r1 h1
      split at h
      · split at h
        · exact absurd h (by simp)
        · rename_i r2 h2
          simp only [Option.some.injEq] at h
          subst h
          have ⟨g2, hn⟩ := ih _ _ h2
          exact ⟨(g1.trans g2).prepend _ _, by simpa using hn⟩
      · simp only [Option.some.injEq] at h
        subst h
        exact ⟨g1.congr rfl, by simp⟩
      · rename_i e he
        simp only [Option.some.injEq] at h
        subst h
        exact ⟨g1, by simp [he]⟩

theorem repN_weak (a : AMode) (m : RMode) (env : Env) (c : Nat) :
    ∀ (k : Nat) (st : St) (r : Ret), repN rec a m env c k st = some r → Weak st r := by
  intro k
  induction k with
  | zero =>
    intro st r h
    simp only [repN, Option.some.injEq] at h
    subst h
    exact Weak.refl _ _ _ _
  | succ k ih =>
    intro st r h
    simp only [repN] at h
    split at h
    · exact absurd h (by simp)
    · rename_i r1 h1
      have g1 := (hrec _ _ _ _ _ _ h1).toWeak
      split at h
      · split at h
        · exact absurd h (by simp)
        · rename_i r2 h2
          simp only [Option.some.injEq] at h
          subst h
          exact (g1.trans (ih _ _ h2)).prepend _ _
      · simp only [Option.some.injEq] at h
        subst h
        exact g1

theorem repUpTo_weak (a : AMode) (env : Env) (c : Nat) :
    ∀ (k : Nat) (st : St) (r : Ret) (full : Bool), repUpTo rec a env c k st = some (r, full) →
      Weak st r ∧ r.res ≠ .fail := by
  intro k
  induction k with
  | zero =>
    intro st r full h
    simp only [repUpTo, Option.some.injEq, Prod.mk.injEq] at h
    obtain ⟨h, _⟩ := h
    subst h
    exact ⟨Weak.refl _ _ _ _, by simp⟩
  | succ k ih =>
    intro st r full h
    simp only [repUpTo] at h
    split at h
    · exact absurd h (by simp)
    · rename_i r1 h1
      have g1 := (hrec _ _ _ _ _ _ h1).toWeak
      split at h
      · split at h
        · exact absurd h (by simp)
        · rename_i r2 full2 h2
          simp only [Option.some.injEq, Prod.mk.injEq] at h
          obtain ⟨h, _⟩ := h
          subst h
          have ⟨g2, hn⟩ := ih _ _ _ h2
          exact ⟨(g1.trans g2).prepend _ _, by simpa using hn⟩
      · simp only [Option.some.injEq, Prod.mk.injEq] at h
        obtain ⟨h, _⟩ := h
        subst h
        exact ⟨g1.congr rfl, by simp⟩
      · rename_i e he
        simp only [Option.some.injEq, Prod.mk.injEq] at h
        obtain ⟨h, _⟩ := h
        subst h
        exact ⟨g1, by simp [he]⟩

theorem loopUntil1_weak (cx : Ctx) (a : AMode) (env : Env) (cond : Nat) :
    ∀ (k : Nat) (st : St) (r : Ret), loopUntil1 cx rec a env cond k st = some r → Weak st r := by
  intro k
  induction k with
  | zero => intro st r h; simp [loopUntil1] at h
  | succ k ih =>
    intro st r h
    simp only [loopUntil1] at h
    split at h
    · exact absurd h (by simp)
    · rename_i r1 h1
      have g1 := (hrec _ _ _ _ _ _ h1).toWeak
      split at h
      · simp only [Option.some.injEq] at h; subst h; exact g1
      · simp only [Option.some.injEq] at h; subst h; exact g1
      · split at h
        · simp only [Option.some.injEq] at h; subst h; exact g1
        · rename_i hne
          split at h
          · exact absurd h (by simp)
          · rename_i r2 h2
            simp only [Option.some.injEq] at h; subst h
            have g2 := ih _ _ h2
            have gb : Weak r1.st ⟨.ok, bump cx r1.st 1, [], []⟩ := by
              have hne' : r1.st.cur.pos ≠ r1.st.endp := by
                simpa [St.empty] using hne
              refine ⟨by simp, by simp, by simp, ?_, ?_⟩
              · intro hv
                simp only [bump_pos]
                omega
              · intro hv ho
                rw [bump_noob _ _ _ (by omega)]; exact ho
            exact ((g1.trans gb).trans g2).prepend _ _

theorem loopUntil2_weak (a : AMode) (env : Env) (cond b : Nat) :
    ∀ (k : Nat) (st : St) (r : Ret), loopUntil2 rec a env cond b k st = some r → Weak st r := by
  intro k
  induction k with
  | zero => intro st r h; simp [loopUntil2] at h
  | succ k ih =>
    intro st r h
    simp only [loopUntil2] at h
    split at h
    · exact absurd h (by simp)
    · rename_i r1 h1
      have g1 := (hrec _ _ _ _ _ _ h1).toWeak
      split at h
      · simp only [Option.some.injEq] at h; subst h; exact g1
      · simp only [Option.some.injEq] at h; subst h; exact g1
      · split at h
        · exact absurd h (by simp)
        · rename_i r2 h2
          have g2 := (hrec _ _ _ _ _ _ h2).toWeak
          split at h
          · split at h
            · exact absurd h (by simp)
            · rename_i r3 h3
              simp only [Option.some.injEq] at h; subst h
              exact ((g1.trans g2).trans (ih _ _ h3)).prepend _ _
          · simp only [Option.some.injEq] at h; subst h
            exact (g1.trans g2).prepend _ _

theorem loopStarStrict_weak (a : AMode) (env : Env) (c rest : Nat) :
    ∀ (k : Nat) (st : St) (r : Ret), loopStarStrict rec a env c rest k st = some r → Weak st r := by
  intro k
  induction k with
  | zero => intro st r h; simp [loopStarStrict] at h
  | succ k ih =>
    intro st r h
    simp only [loopStarStrict] at h
    split at h
    · exact absurd h (by simp)
    · rename_i r1 h1
      have g1 := (hrec _ _ _ _ _ _ h1).toWeak
      split at h
      · simp only [Option.some.injEq] at h; subst h; exact g1.congr rfl
      · simp only [Option.some.injEq] at h; subst h; exact g1
      · split at h
        · exact absurd h (by simp)
        · rename_i r2 h2
          have g2 := (hrec _ _ _ _ _ _ h2).toWeak
          split at h
          · split at h
            · exact absurd h (by simp)
            · rename_i r3 h3
              simp only [Option.some.injEq] at h; subst h
              exact ((g1.trans g2).trans (ih _ _ h3)).prepend _ _
          · simp only [Option.some.injEq] at h; subst h
            exact (g1.trans g2).prepend _ _

theorem rematchAll_noob (a : AMode) (env : Env) (saved : Cursor) :
    ∀ (rs : List Nat) (st : St) (r : Ret), rematchAll rec a env saved rs st = some r →
      saved.pos ≤ st.endp → st.oob = false → r.st.oob = false := by
  intro rs
  induction rs with
  | nil =>
    intro st r h _ ho
    simp only [rematchAll, Option.some.injEq] at h; subst h; exact ho
  | cons c cs ih =>
    intro st r h hv ho
    simp only [rematchAll] at h
    split at h
    · exact absurd h (by simp)
    · rename_i r1 h1
      have g1 := hrec _ _ _ _ _ _ h1
      have ho1 : r1.st.oob = false := g1.noob (by simpa using hv) (by simpa using ho)
      split at h
      · split at h
        · exact absurd h (by simp)
        · rename_i r2 h2
          simp only [Option.some.injEq] at h; subst h
          have he : r1.st.endp = st.endp := by simpa using g1.endp
          exact ih _ r2 h2 (by rw [he]; exact hv) ho1
      · simp only [Option.some.injEq] at h; subst h
        exact ho1

end helpers

/-- Every combinator body keeps the invariant, given that its sub-rule calls do. -/
theorem body_good {rec : Rec} (hrec : GoodRec rec) (cx : Ctx) (k : Nat) (kind : Kind) (a : AMode) (m : RMode)
    (env : Env) (st : St) (r : Ret) (h : body cx rec k kind a m env st = some r) : Good m st r := by
  cases kind with
  | atom atm =>
    simp only [body, Option.some.injEq] at h
    subst h
    have f := atomStep_frame cx atm st
    refine ⟨⟨f.endp, f.depth, f.mono, f.inb, f.noob⟩, ?_⟩
    intro hf _
    apply f.fail_cur
    cases hb : (atomStep cx atm st).1 <;> simp_all
  | seq cs =>
    simp only [body] at h
    split at h
    · exact hrec _ _ _ _ _ _ h
    · simp only [Option.map_eq_some_iff] at h
      obtain ⟨r0, h0, rfl⟩ := h
      exact guard_drop_good (seqAll_weak hrec _ _ _ _ _ _ h0)
  | sor cs =>
    simp only [body] at h
    exact sorAny_good hrec _ _ _ _ _ _ h
  | starPartial cs =>
    simp only [body] at h
    have ⟨w, hn⟩ := loopStar_weak hrec _ _ _ _ _ _ h
    exact Good.ofWeakNoFail w hn
  | partialR cs =>
    simp only [body, Option.map_eq_some_iff] at h
    obtain ⟨r0, h0, rfl⟩ := h
    have w := seqAll_weak hrec _ _ _ _ _ _ h0
    split
    · exact Good.ofWeakNoFail (w.congr rfl) (by simp)
    · rename_i hnf
      exact Good.ofWeakNoFail w (by intro hf; exact hnf hf)
  | plus c =>
    simp only [body] at h
    split at h
    · exact absurd h (by simp)
    · rename_i r1 h1
      have g1 := hrec _ _ _ _ _ _ h1
      split at h
      · simp only [Option.map_eq_some_iff] at h
        obtain ⟨r2, h2, rfl⟩ := h
        have ⟨w2, hn⟩ := loopStar_weak hrec _ _ _ _ _ _ h2
        exact Good.ofWeakNoFail ((g1.toWeak.trans w2).prepend _ _) (by simpa using hn)
      · simp only [Option.some.injEq] at h
        subst h
        exact g1
  | atR c =>
    simp only [body, Option.map_eq_some_iff] at h
    obtain ⟨r0, h0, rfl⟩ := h
    exact alwaysRestore_good (hrec _ _ _ _ _ _ h0).toWeak
  | notAt c =>
    simp only [body, Option.map_eq_some_iff] at h
    obtain ⟨r0, h0, rfl⟩ := h
    have g := (hrec _ _ _ _ _ _ h0)
    have ga : Good m st (alwaysRestore st.cur r0) := alwaysRestore_good g.toWeak
    split <;> exact ⟨⟨ga.endp, ga.depth, Nat.le_refl _, id, ga.noob⟩, fun _ _ => rfl⟩
  | until1 cond =>
    simp only [body, Option.map_eq_some_iff] at h
    obtain ⟨r0, h0, rfl⟩ := h
    exact guard_drop_good (loopUntil1_weak hrec _ _ _ _ _ _ _ h0)
  | until2 cond b =>
    simp only [body, Option.map_eq_some_iff] at h
    obtain ⟨r0, h0, rfl⟩ := h
    exact guard_drop_good (loopUntil2_weak hrec _ _ _ _ _ _ _ h0)
  | rep n c =>
    simp only [body, Option.map_eq_some_iff] at h
    obtain ⟨r0, h0, rfl⟩ := h
    exact guard_drop_good (repN_weak hrec _ _ _ _ _ _ _ h0)
  | repMinMax lo hi c na =>
    simp only [body] at h
    split at h
    · exact absurd h (by simp)
    · rename_i r1 h1
      have w1 := repN_weak hrec _ _ _ _ _ _ _ h1
      split at h
      · split at h
        · exact absurd h (by simp)
        · rename_i r2 full h2
          have ⟨w2, _⟩ := repUpTo_weak hrec _ _ _ _ _ _ _ h2
          have w12 : Weak st (r2.prepend r1.raw r1.surv) := (w1.trans w2).prepend _ _
          split at h
          · split at h
            · exact absurd h (by simp)
            · rename_i r3 h3
              simp only [Option.some.injEq] at h
              subst h
              have g3 := hrec _ _ _ _ _ _ h3
              exact guard_drop_good ((w12.trans g3.toWeak).prepend _ _)
          · simp only [Option.some.injEq] at h
            subst h
            exact guard_drop_good w12
      · simp only [Option.some.injEq] at h
        subst h
        exact guard_drop_good w1
  | repOpt n c =>
    simp only [body, Option.map_eq_some_iff] at h
    obtain ⟨⟨r0, full⟩, h0, rfl⟩ := h
    have ⟨w, hn⟩ := repUpTo_weak hrec _ _ _ _ _ _ _ h0
    exact Good.ofWeakNoFail w hn
  | ifThenElse c t e =>
    simp only [body] at h
    split at h
    · exact absurd h (by simp)
    · rename_i r1 h1
      have g1 := (hrec _ _ _ _ _ _ h1).toWeak
      split at h
      · simp only [Option.map_eq_some_iff] at h
        obtain ⟨r2, h2, rfl⟩ := h
        have g2 := (hrec _ _ _ _ _ _ h2).toWeak
        exact guard_drop_good ((g1.trans g2).prepend _ _)
      · simp only [Option.map_eq_some_iff] at h
        obtain ⟨r2, h2, rfl⟩ := h
        have g2 := (hrec _ _ _ _ _ _ h2).toWeak
        exact guard_drop_good ((g1.trans g2).prepend _ _)
      · simp only [Option.some.injEq] at h
        subst h
        exact guard_drop_good g1
  | strict c rest =>
    simp only [body] at h
    split at h
    · exact absurd h (by simp)
    · rename_i r1 h1
      have g1 := (hrec _ _ _ _ _ _ h1).toWeak
      split at h
      · simp only [Option.map_eq_some_iff] at h
        obtain ⟨r2, h2, rfl⟩ := h
        have g2 := (hrec _ _ _ _ _ _ h2).toWeak
        exact guard_drop_good ((g1.trans g2).prepend _ _)
      · simp only [Option.some.injEq] at h
        subst h
        exact Good.ofWeakNoFail (g1.congr rfl) (by simp)
      · simp only [Option.some.injEq] at h
        subst h
        exact guard_drop_good g1
  | starStrict c rest =>
    simp only [body, Option.map_eq_some_iff] at h
    obtain ⟨r0, h0, rfl⟩ := h
    exact guard_drop_good (loopStarStrict_weak hrec _ _ _ _ _ _ _ h0)
  | rematch head rs =>
    simp only [body] at h
    split at h
    · exact hrec _ _ _ _ _ _ h
    · split at h
      · exact absurd h (by simp)
      · rename_i r1 h1
        have g1 := (hrec _ _ _ _ _ _ h1).toWeak
        split at h
        · split at h
          · exact absurd h (by simp)
          · rename_i r2 h2
            simp only [Option.some.injEq] at h
            subst h
            have hin := rematchAll_noob hrec a env st.cur rs _ r2 h2
            refine guard_req_drop_good ⟨g1.endp, g1.depth, g1.le, g1.inb, ?_⟩
            intro hv ho
            exact hin (by simpa using g1.le) (by simpa using g1.noob hv ho)
        · simp only [Option.some.injEq] at h
          subst h
          exact guard_req_drop_good g1
  | must c =>
    simp only [body] at h
    split at h
    · exact absurd h (by simp)
    · rename_i r1 h1
      have g1 := hrec _ _ _ _ _ _ h1
      split at h
      · simp only [Option.some.injEq] at h
        subst h
        exact Good.ofWeakNoFail (g1.toWeak.congr rfl) (by simp)
      · simp only [Option.some.injEq] at h
        subst h
        rename_i hnf
        exact Good.ofWeakNoFail g1.toWeak (by intro hf; exact hnf hf)
  | ifMust dflt cond mn =>
    simp only [body] at h
    split at h
    · exact absurd h (by simp)
    · rename_i r1 h1
      have g1 := hrec _ _ _ _ _ _ h1
      split at h
      · simp only [Option.map_eq_some_iff] at h
        obtain ⟨r2, h2, rfl⟩ := h
        have g2 := (hrec _ _ _ _ _ _ h2).toWeak
        have w : Weak st (r2.prepend r1.raw r1.surv) := (g1.toWeak.trans g2).prepend _ _
        split
        · rename_i e he
          exact Good.ofWeakNoFail (w.congr (by simp)) (by have he' : r2.res = .thr e := he; simp [he'])
        · exact Good.ofWeakNoFail (w.congr rfl) (by simp)
      · rename_i hf
        simp only [Option.some.injEq] at h
        subst h
        refine ⟨g1.toWeak.congr rfl, ?_⟩
        intro hf2 hm
        cases dflt with
        | true => simp at hf2
        | false => exact g1.failCur hf (by simpa using hm)
      · simp only [Option.some.injEq] at h
        subst h
        rename_i e he
        exact Good.ofWeakNoFail g1.toWeak (by simp [he])
  | raise t =>
    simp only [body, Option.some.injEq] at h
    subst h
    exact Good.ofWeakNoFail (Weak.refl _ _ _ _) (by simp)
  | tryCatchReturnFalse ex c =>
    simp only [body, Option.map_eq_some_iff] at h
    obtain ⟨r0, h0, rfl⟩ := h
    have g := (hrec _ _ _ _ _ _ h0).toWeak
    apply guard_drop_good
    split
    · split
      · exact g.congr rfl
      · exact g
    · exact g
  | tryCatchRaiseNested ex c =>
    simp only [body, Option.map_eq_some_iff] at h
    obtain ⟨r0, h0, rfl⟩ := h
    have g := (hrec _ _ _ _ _ _ h0).toWeak
    apply guard_req_drop_good
    split
    · split
      · exact g.congr rfl
      · exact g
    · exact g
  | enable c => simp only [body] at h; exact hrec _ _ _ _ _ _ h
  | disable c => simp only [body] at h; exact hrec _ _ _ _ _ _ h
  | action fam c => simp only [body] at h; exact hrec _ _ _ _ _ _ h
  | state d c =>
    simp only [body, Option.map_eq_some_iff] at h
    obtain ⟨r0, h0, rfl⟩ := h
    exact (hrec _ _ _ _ _ _ h0).congr rfl rfl
  | ifApply c acts =>
    simp only [body] at h
    split at h
    · simp only [Option.map_eq_some_iff] at h
      obtain ⟨r0, h0, rfl⟩ := h
      have g := (hrec _ _ _ _ _ _ h0).toWeak
      split
      · exact guard_req_drop_good (g.congr rfl)
      · exact guard_req_drop_good g
    · exact hrec _ _ _ _ _ _ h
  | control kc c => simp only [body] at h; exact hrec _ _ _ _ _ _ h
  | applyR acts =>
    simp only [body] at h
    split at h
    · simp only [Option.some.injEq] at h
      subst h
      exact Good.dropOnFail ⟨Weak.refl _ _ _ _, fun _ _ => rfl⟩
    · simp only [Option.some.injEq] at h
      subst h
      exact ⟨Weak.refl _ _ _ _, fun _ _ => rfl⟩

end Pegtl

namespace Pegtl

theorem actionOutcome_vetoes (cx : Ctx) (i : Nat) (a : AMode) (act : ActionSpec) (saved e : Cursor)
    (h : actionOutcome cx i a act saved e = .vetoes) : useGuard a act = true := by
  unfold actionOutcome at h
  by_cases hact : hasAction a act = true
  · simp only [hact, if_true] at h
    by_cases hb : act.isBool = true
    · simp only [hasAction, Bool.and_eq_true, Bool.or_eq_true] at hact
      simp only [useGuard, Bool.and_eq_true, Bool.or_eq_true]
      refine ⟨hact.1, ?_⟩
      rcases hact.2 with h1 | h1
      · exact Or.inl h1
      · exact Or.inr ⟨h1, hb⟩
    · have hv : ∀ b e', act.vetoes i b e' = false := by
        intro b e'; simp [ActionSpec.vetoes, hb]
      simp only [hv] at h
      split at h <;> split at h <;> simp at h
  · simp [hact] at h

@[simp] theorem afterBody_st (cx : Ctx) (i : Nat) (a : AMode) (act : ActionSpec) (sd : Nat) (saved : Cursor) (r : Ret) :
    (afterBody cx i a act sd saved r).st = r.st := by
  unfold afterBody
  split
  · rfl
  · simp
  · simp only
    split <;> simp

/-- `afterBody` reports a local failure only if the body failed, or the body matched and a
    `bool` action vetoed — and in the second case `match()` holds a `required` guard. -/
theorem afterBody_fail (cx : Ctx) (i : Nat) (a : AMode) (act : ActionSpec) (sd : Nat) (saved : Cursor) (r : Ret)
    (h : (afterBody cx i a act sd saved r).res = .fail) : r.res = .fail ∨ useGuard a act = true := by
  unfold afterBody at h
  split at h
  · rename_i e he; exact absurd h (by simp [he])
  · rename_i hf; exact Or.inl hf
  · rename_i hok
    simp only at h
    split at h
    · exact absurd h (by simp [hok])
    · exact absurd h (by simp)
    · rename_i hv; exact Or.inr (actionOutcome_vetoes _ _ _ _ _ _ hv)
    · exact absurd h (by simp [hok])

theorem guardRestore_cur_eq {g : RMode} {c : Cursor} {r : Ret} (h : r.st.cur = c) :
    (guardRestore g c r).st.cur = c := by
  unfold guardRestore; split
  · rfl
  · exact h

theorem guardRestore_req_cur {c : Cursor} {r : Ret} (h : r.res ≠ .ok) :
    (guardRestore .required c r).st.cur = c := by
  simp [guardRestore, h]

theorem guardRestore_optional (c : Cursor) (r : Ret) : guardRestore .optional c r = r := by
  simp [guardRestore]

@[simp] theorem bracket_st (cx : Ctx) (i : Nat) (a : AMode) (m : RMode) (kc : Nat) (st : St) (r : Ret) :
    (bracket cx i a m kc st r).st = r.st := by simp [bracket]

@[simp] theorem bracket_res (cx : Ctx) (i : Nat) (a : AMode) (m : RMode) (kc : Nat) (st : St) (r : Ret) :
    (bracket cx i a m kc st r).res = r.res := by simp [bracket]

/-- The match.hpp protocol keeps the invariant: whether the rewinding is done by the rule
    body (no action: `M` is passed on) or by `match()` itself (action present: guard `required`). -/
theorem nodeCore_good {rec : Rec} (hrec : GoodRec rec) (cx : Ctx) (k i : Nat) (nd : Node) (a : AMode) (m : RMode)
    (env : Env) (st : St) (r : Ret) (h : nodeCore cx rec k i nd a m env st = some r) : Good m st r := by
  unfold nodeCore at h
  split at h
  · exact body_good hrec cx k _ _ _ _ _ _ h
  · simp only [Option.map_eq_some_iff] at h
    obtain ⟨r0, h0, rfl⟩ := h
    have gb := body_good hrec cx k _ _ _ _ _ _ h0
    refine Good.congr (r := guardRestore (if useGuard a (cx.actOf env i nd) = true then .required else .optional) st.cur
      (afterBody (cx.withCtl env.ctl) i a (cx.actOf env i nd) env.sd st.cur r0)) ?_ (by simp [guardRestore]; split <;> simp) (by simp)
    have w : Weak st (afterBody (cx.withCtl env.ctl) i a (cx.actOf env i nd) env.sd st.cur r0) := gb.toWeak.congr (by simp)
    cases hug : useGuard a (cx.actOf env i nd) with
    | true => exact guard_good (Or.inl (by simp)) w
    | false =>
      simp only [hug] at gb
      simp only [Bool.false_eq_true, if_false, guardRestore_optional]
      refine ⟨w, ?_⟩
      intro hf hm
      rcases afterBody_fail _ _ _ _ _ _ _ hf with h1 | h1
      · simpa using gb.failCur h1 hm
      · simp [hug] at h1

theorem limitDepthCall_good {cx : Ctx} {core : St → Out} {m : RMode} (hcore : ∀ st r, core st = some r → Good m st r)
    (n : Nat) (st : St) (r : Ret) (h : limitDepthCall cx core n st = some r) : Good m st r := by
  unfold limitDepthCall at h
  split at h
  · simp only [Option.some.injEq] at h; subst h
    exact Good.ofWeakNoFail (Weak.refl _ _ _ _) (by simp)
  · simp only [Option.map_eq_some_iff] at h
    obtain ⟨r0, h0, rfl⟩ := h
    have g := hcore _ _ h0
    exact ⟨⟨g.endp, by simp [g.depth], g.le, g.inb, g.noob⟩, g.failCur⟩

theorem limitBytesCall_good {cx : Ctx} {core : St → Out} {m : RMode} (hcore : ∀ st r, core st = some r → Good m st r)
    (n : Nat) (st : St) (r : Ret) (h : limitBytesCall cx core n st = some r) : Good m st r := by
  unfold limitBytesCall at h
  simp only [Option.map_eq_some_iff] at h
  obtain ⟨r0, h0, rfl⟩ := h
  have g := hcore _ _ h0
  have hw : Weak st ({ r0 with st := { r0.st with endp := st.endp } } : Ret) := by
    refine ⟨rfl, g.depth, g.le, ?_, ?_⟩
    · intro hv
      have := g.inb (by simp only [St.avail]; omega)
      simp only [St.avail] at this
      simp only
      omega
    · intro hv ho
      exact g.noob (by simp only [St.avail]; omega) ho
  split
  · exact Good.ofWeakNoFail (hw.congr rfl) (by simp)
  · exact ⟨hw, fun hf hm => g.failCur hf hm⟩

theorem nodeCall_good {rec : Rec} (hrec : GoodRec rec) (cx : Ctx) (k i : Nat) (a : AMode) (m : RMode)
    (env : Env) (st : St) (r : Ret) (h : nodeCall cx rec k i a m env st = some r) : Good m st r := by
  unfold nodeCall at h
  split at h
  · exact absurd h (by simp)
  · rename_i nd _
    simp only [Option.map_eq_some_iff] at h
    obtain ⟨r0, h0, rfl⟩ := h
    refine Good.congr (r := r0) ?_ (by simp) (by simp)
    split at h0
    · exact nodeCore_good hrec cx k i nd a m env st r0 h0
    · exact hrec _ _ _ _ _ _ h0
    · exact nodeCore_good hrec cx k i nd _ m env st r0 h0
    · exact nodeCore_good hrec cx k i nd _ m env st r0 h0
    · exact limitDepthCall_good (fun st r h => nodeCore_good hrec cx k i nd a m env st r h) _ _ _ h0
    · exact limitBytesCall_good (fun st r h => nodeCore_good hrec cx k i nd a m env st r h) _ _ _ h0
    · simp only [Option.map_eq_some_iff] at h0
      obtain ⟨r1, h1, rfl⟩ := h0
      exact (nodeCore_good hrec cx k i nd a m _ st r1 h1).congr rfl rfl
    · simp only [Option.map_eq_some_iff] at h0
      obtain ⟨r1, h1, rfl⟩ := h0
      exact (hrec _ _ _ _ _ _ h1).congr rfl rfl
    · exact nodeCore_good hrec cx k i nd a m _ st r0 h0

theorem run_good (cx : Ctx) : ∀ n, GoodRec (run cx n) := by
  intro n
  induction n with
  | zero => intro j a m env st r h; simp [run] at h
  | succ n ih =>
    intro j a m env st r h
    simp only [run] at h
    exact nodeCall_good ih cx n j a m env st r h

end Pegtl
