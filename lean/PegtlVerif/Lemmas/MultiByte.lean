/-
  Lemmas/MultiByte.lean — byte-level facts about the two atoms that consume more than one byte at a
  time after looking at all of them: the UTF-8 decoder (a multi-byte sequence consists of bytes
  ≥ 0x80 only) and the digit run of `maximum_rule` (digits only); and the window as a list.  Used to
  justify their `bump_in_this_line` shortcut (C06).
-/
import PegtlVerif.Model.Input
import PegtlVerif.Lemmas.Utf

namespace Pegtl

theorem windowBytes_getD (cx : Ctx) (st : St) (k : Nat) (hk : k < (windowBytes cx st).length) :
    (windowBytes cx st).getD k 0 = cx.inp.getD (st.cur.pos + k) 0 := by
  unfold windowBytes at hk ⊢
  simp only [List.length_take, List.length_drop, Array.length_toList] at hk
  have h1 : k < st.avail := by omega
  have h2 : st.cur.pos + k < cx.inp.size := by omega
  simp [List.getD, List.getElem?_take, h1, List.getElem?_drop, h2, Array.getD]

theorem windowBytes_length_le (cx : Ctx) (st : St) : (windowBytes cx st).length ≤ st.avail := by
  unfold windowBytes
  simp only [List.length_take]
  omega

namespace Utf

/-- What `peek_utf8` looked at: a one-byte result is that byte (< 0x80); a longer result consists of
    bytes ≥ 0x80 only; the length is within the list. -/
theorem peekUtf8_bytes (bs : List UInt8) (cp n : Nat) (h : peekUtf8 bs = some (cp, n)) :
    1 ≤ n ∧ n ≤ bs.length ∧ (n = 1 → cp = (bs.getD 0 0).toNat ∧ cp < 128) ∧
    (1 < n → ∀ k, k < n → 128 ≤ (bs.getD k 0).toNat) := by
  cases bs with
  | nil => simp [peekUtf8] at h
  | cons b0 r =>
    simp only [peekUtf8] at h
    by_cases h80 : b0.toNat &&& 0x80 = 0
    · simp only [h80, if_true, Option.some.injEq, Prod.mk.injEq] at h
      obtain ⟨rfl, rfl⟩ := h
      refine ⟨by omega, by simp, fun _ => ⟨by simp, (u8_and80 (b := b0)).mp h80⟩, fun hh => by omega⟩
    · simp only [h80, if_false] at h
      have hb0 : 128 ≤ b0.toNat := by
        have : ¬ b0.toNat < 128 := fun hlt => h80 ((u8_and80 (b := b0)).mpr hlt)
        omega
      unfold peekUtf8Impl at h
      dsimp only at h
      split at h
      · -- two bytes
        split at h
        · rename_i hl
          split at h
          · rename_i hc1
            split at h
            · simp only [Option.some.injEq, Prod.mk.injEq] at h
              obtain ⟨-, rfl⟩ := h
              have c1 := (u8_andC0 (b := (b0 :: r).getD 1 0)).mp hc1
              refine ⟨by omega, hl, fun hh => by omega, fun _ k hk => ?_⟩
              have : k = 0 ∨ k = 1 := by omega
              rcases this with rfl | rfl
              · simpa using hb0
              · exact c1.1
            · simp at h
          · simp at h
        · simp at h
      · split at h
        · split at h
          · rename_i hl
            split at h
            · rename_i hc
              split at h
              · simp only [Option.some.injEq, Prod.mk.injEq] at h
                obtain ⟨-, rfl⟩ := h
                have c1 := (u8_andC0 (b := (b0 :: r).getD 1 0)).mp hc.1
                have c2 := (u8_andC0 (b := (b0 :: r).getD 2 0)).mp hc.2
                refine ⟨by omega, hl, fun hh => by omega, fun _ k hk => ?_⟩
                have : k = 0 ∨ k = 1 ∨ k = 2 := by omega
                rcases this with rfl | rfl | rfl
                · simpa using hb0
                · exact c1.1
                · exact c2.1
              · simp at h
            · simp at h
          · simp at h
        · split at h
          · split at h
            · rename_i hl
              split at h
              · rename_i hc
                split at h
                · simp only [Option.some.injEq, Prod.mk.injEq] at h
                  obtain ⟨-, rfl⟩ := h
                  have c1 := (u8_andC0 (b := (b0 :: r).getD 1 0)).mp hc.1
                  have c2 := (u8_andC0 (b := (b0 :: r).getD 2 0)).mp hc.2.1
                  have c3 := (u8_andC0 (b := (b0 :: r).getD 3 0)).mp hc.2.2
                  refine ⟨by omega, hl, fun hh => by omega, fun _ k hk => ?_⟩
                  have : k = 0 ∨ k = 1 ∨ k = 2 ∨ k = 3 := by omega
                  rcases this with rfl | rfl | rfl | rfl
                  · simpa using hb0
                  · exact c1.1
                  · exact c2.1
                  · exact c3.1
                · simp at h
              · simp at h
            · simp at h
          · simp at h

end Utf

/-- Every element of the longest prefix satisfying `p` satisfies `p`, and is the element of the list. -/
theorem takeWhile_getD {α : Type} [Inhabited α] (p : α → Bool) : ∀ (l : List α) (k : Nat) (d : α),
    k < (l.takeWhile p).length → p (l.getD k d) = true
  | [], k, d, h => by simp at h
  | x :: xs, k, d, h => by
    simp only [List.takeWhile] at h
    split at h
    · rename_i hx
      cases k with
      | zero => simpa using hx
      | succ j =>
        simp only [List.length_cons, Nat.add_lt_add_iff_right] at h
        simpa using takeWhile_getD p xs j d h
    · simp at h

theorem takeWhile_length_le {α : Type} (p : α → Bool) (l : List α) : (l.takeWhile p).length ≤ l.length := by
  induction l with
  | nil => simp
  | cons x xs ih => simp only [List.takeWhile]; split <;> simp <;> omega

end Pegtl
