/-
  Lemmas/RawClosureA.lean — the induction principle of RawClosure.lean, relative to a fixed apply mode:
  the trace of every combinator body is built from the traces of its sub-rule calls by
  concatenation, plus `raise` events.  Any predicate closed under that holds for every body.
  (Used by C08, C04, C06.)
-/
import PegtlVerif.Lemmas.RawClosure

namespace Pegtl

/-- The sub-rule calls made with apply mode `a` have traces satisfying `Q`. -/
def QRecA (Q : List Ev → Prop) (rec : Rec) (a : AMode) : Prop := ∀ j m env st r, rec j a m env st = some r → Q r.raw

section
variable {Q : List Ev → Prop} (hQ : RawClosed Q) {rec : Rec}
include hQ

theorem seqAll_rawA (a : AMode) (hrec : QRecA Q rec a) (m : RMode) (env : Env) :
    ∀ (cs : List Nat) (st : St) (r : Ret), seqAll rec a m env cs st = some r → Q r.raw := by
  intro cs
  induction cs with
  | nil => intro st r h; simp only [seqAll, Option.some.injEq] at h; subst h; exact hQ.nil
  | cons c cs ih =>
    intro st r h
    simp only [seqAll] at h
    split at h
    · exact absurd h (by simp)
    · rename_i r1 h1
      have q1 := hrec _ _ _ _ _ h1
      split at h
      · split at h
        · exact absurd h (by simp)
        · rename_i r2 h2
          simp only [Option.some.injEq] at h; subst h
          exact hQ.app q1 (ih _ _ h2)
      · simp only [Option.some.injEq] at h; subst h; exact q1

theorem sorAny_rawA (a : AMode) (hrec : QRecA Q rec a) (m : RMode) (env : Env) :
    ∀ (cs : List Nat) (st : St) (r : Ret), sorAny rec a m env cs st = some r → Q r.raw := by
  intro cs
  induction cs with
  | nil => intro st r h; simp only [sorAny, Option.some.injEq] at h; subst h; exact hQ.nil
  | cons c cs ih =>
    intro st r h
    cases cs with
    | nil => simp only [sorAny] at h; exact hrec _ _ _ _ _ h
    | cons c' cs' =>
      simp only [sorAny] at h
      split at h
      · exact absurd h (by simp)
      · rename_i r1 h1
        have q1 := hrec _ _ _ _ _ h1
        split at h
        · split at h
          · exact absurd h (by simp)
          · rename_i r2 h2
            simp only [Option.some.injEq] at h; subst h
            exact hQ.app q1 (ih _ _ h2)
        · simp only [Option.some.injEq] at h; subst h; exact q1

theorem loopStar_rawA (a : AMode) (hrec : QRecA Q rec a) (env : Env) (cs : List Nat) :
    ∀ (k : Nat) (st : St) (r : Ret), loopStar rec a env cs k st = some r → Q r.raw := by
  intro k
  induction k with
  | zero => intro st r h; simp [loopStar] at h
  | succ k ih =>
    intro st r h
    simp only [loopStar] at h
    split at h
    · exact absurd h (by simp)
    · rename_i r1 h1
      have q1 := seqAll_rawA hQ a hrec .required env cs st r1 h1
      split at h
      · split at h
        · exact absurd h (by simp)
        · rename_i r2 h2
          simp only [Option.some.injEq] at h; subst h
          exact hQ.app q1 (ih _ _ h2)
      · simp only [Option.some.injEq] at h; subst h; exact q1
      · simp only [Option.some.injEq] at h; subst h; exact q1

theorem repN_rawA (a : AMode) (hrec : QRecA Q rec a) (m : RMode) (env : Env) (c : Nat) :
    ∀ (k : Nat) (st : St) (r : Ret), repN rec a m env c k st = some r → Q r.raw := by
  intro k
  induction k with
  | zero => intro st r h; simp only [repN, Option.some.injEq] at h; subst h; exact hQ.nil
  | succ k ih =>
    intro st r h
    simp only [repN] at h
    split at h
    · exact absurd h (by simp)
    · rename_i r1 h1
      have q1 := hrec _ _ _ _ _ h1
      split at h
      · split at h
        · exact absurd h (by simp)
        · rename_i r2 h2
          simp only [Option.some.injEq] at h; subst h
          exact hQ.app q1 (ih _ _ h2)
      · simp only [Option.some.injEq] at h; subst h; exact q1

theorem repUpTo_rawA (a : AMode) (hrec : QRecA Q rec a) (env : Env) (c : Nat) :
    ∀ (k : Nat) (st : St) (r : Ret) (full : Bool), repUpTo rec a env c k st = some (r, full) → Q r.raw := by
  intro k
  induction k with
  | zero =>
    intro st r full h
    simp only [repUpTo, Option.some.injEq, Prod.mk.injEq] at h
    obtain ⟨h, _⟩ := h; subst h; exact hQ.nil
  | succ k ih =>
    intro st r full h
    simp only [repUpTo] at h
    split at h
    · exact absurd h (by simp)
    · rename_i r1 h1
      have q1 := hrec _ _ _ _ _ h1
      split at h
      · split at h
        · exact absurd h (by simp)
        · rename_i r2 full2 h2
          simp only [Option.some.injEq, Prod.mk.injEq] at h
          obtain ⟨h, _⟩ := h; subst h
          exact hQ.app q1 (ih _ _ _ h2)
      · simp only [Option.some.injEq, Prod.mk.injEq] at h
        obtain ⟨h, _⟩ := h; subst h; exact q1
      · simp only [Option.some.injEq, Prod.mk.injEq] at h
        obtain ⟨h, _⟩ := h; subst h; exact q1

theorem loopUntil1_rawA (cx : Ctx) (a : AMode) (hrec : QRecA Q rec a) (env : Env) (cond : Nat) :
    ∀ (k : Nat) (st : St) (r : Ret), loopUntil1 cx rec a env cond k st = some r → Q r.raw := by
  intro k
  induction k with
  | zero => intro st r h; simp [loopUntil1] at h
  | succ k ih =>
    intro st r h
    simp only [loopUntil1] at h
    split at h
    · exact absurd h (by simp)
    · rename_i r1 h1
      have q1 := hrec _ _ _ _ _ h1
      split at h
      · simp only [Option.some.injEq] at h; subst h; exact q1
      · simp only [Option.some.injEq] at h; subst h; exact q1
      · split at h
        · simp only [Option.some.injEq] at h; subst h; exact q1
        · split at h
          · exact absurd h (by simp)
          · rename_i r2 h2
            simp only [Option.some.injEq] at h; subst h
            exact hQ.app q1 (ih _ _ h2)

theorem loopUntil2_rawA (a : AMode) (hrec : QRecA Q rec a) (env : Env) (cond b : Nat) :
    ∀ (k : Nat) (st : St) (r : Ret), loopUntil2 rec a env cond b k st = some r → Q r.raw := by
  intro k
  induction k with
  | zero => intro st r h; simp [loopUntil2] at h
  | succ k ih =>
    intro st r h
    simp only [loopUntil2] at h
    split at h
    · exact absurd h (by simp)
    · rename_i r1 h1
      have q1 := hrec _ _ _ _ _ h1
      split at h
      · simp only [Option.some.injEq] at h; subst h; exact q1
      · simp only [Option.some.injEq] at h; subst h; exact q1
      · split at h
        · exact absurd h (by simp)
        · rename_i r2 h2
          have q2 := hrec _ _ _ _ _ h2
          split at h
          · split at h
            · exact absurd h (by simp)
            · rename_i r3 h3
              simp only [Option.some.injEq] at h; subst h
              simp only [prepend_raw, List.append_assoc]
              exact hQ.app q1 (hQ.app q2 (ih _ _ h3))
          · simp only [Option.some.injEq] at h; subst h
            exact hQ.app q1 q2

theorem loopStarStrict_rawA (a : AMode) (hrec : QRecA Q rec a) (env : Env) (c rest : Nat) :
    ∀ (k : Nat) (st : St) (r : Ret), loopStarStrict rec a env c rest k st = some r → Q r.raw := by
  intro k
  induction k with
  | zero => intro st r h; simp [loopStarStrict] at h
  | succ k ih =>
    intro st r h
    simp only [loopStarStrict] at h
    split at h
    · exact absurd h (by simp)
    · rename_i r1 h1
      have q1 := hrec _ _ _ _ _ h1
      split at h
      · simp only [Option.some.injEq] at h; subst h; exact q1
      · simp only [Option.some.injEq] at h; subst h; exact q1
      · split at h
        · exact absurd h (by simp)
        · rename_i r2 h2
          have q2 := hrec _ _ _ _ _ h2
          split at h
          · split at h
            · exact absurd h (by simp)
            · rename_i r3 h3
              simp only [Option.some.injEq] at h; subst h
              simp only [prepend_raw, List.append_assoc]
              exact hQ.app q1 (hQ.app q2 (ih _ _ h3))
          · simp only [Option.some.injEq] at h; subst h
            exact hQ.app q1 q2

theorem rematchAll_rawA (a : AMode) (hrec : QRecA Q rec a) (env : Env) (saved : Cursor) :
    ∀ (rs : List Nat) (st : St) (r : Ret), rematchAll rec a env saved rs st = some r → Q r.raw := by
  intro rs
  induction rs with
  | nil => intro st r h; simp only [rematchAll, Option.some.injEq] at h; subst h; exact hQ.nil
  | cons c cs ih =>
    intro st r h
    simp only [rematchAll] at h
    split at h
    · exact absurd h (by simp)
    · rename_i r1 h1
      have q1 := hrec _ _ _ _ _ h1
      split at h
      · split at h
        · exact absurd h (by simp)
        · rename_i r2 h2
          simp only [Option.some.injEq] at h; subst h
          exact hQ.app q1 (ih _ r2 h2)
      · simp only [Option.some.injEq] at h; subst h; exact q1

/-- The trace of every rule body satisfies any trace predicate closed under concatenation and
    `raise` events, given that the traces of the sub-rule calls it can make do: calls with its own
    apply mode, calls with actions disabled (`at`, `not_at`, `disable`), and — only for `enable` —
    calls with actions enabled. -/
theorem body_rawA (cx : Ctx) (k : Nat) (kind : Kind) (a : AMode) (hrec : QRecA Q rec a) (hoff : QRecA Q rec .nothing)
    (hon : (∃ c, kind = .enable c) → QRecA Q rec .action) (m : RMode) (env : Env) (st : St) (r : Ret)
    (h : body cx rec k kind a m env st = some r) : Q r.raw := by
  cases kind with
  | atom atm => simp only [body, Option.some.injEq] at h; subst h; exact hQ.nil
  | seq cs =>
    simp only [body] at h
    split at h
    · exact hrec _ _ _ _ _ h
    · simp only [Option.map_eq_some_iff] at h
      obtain ⟨r0, h0, rfl⟩ := h
      simpa using seqAll_rawA hQ a hrec _ _ _ _ _ h0
  | sor cs => simp only [body] at h; exact sorAny_rawA hQ a hrec _ _ _ _ _ h
  | starPartial cs => simp only [body] at h; exact loopStar_rawA hQ a hrec _ _ _ _ _ h
  | partialR cs =>
    simp only [body, Option.map_eq_some_iff] at h
    obtain ⟨r0, h0, rfl⟩ := h
    have := seqAll_rawA hQ a hrec _ _ _ _ _ h0
    split <;> exact this
  | plus c =>
    simp only [body] at h
    split at h
    · exact absurd h (by simp)
    · rename_i r1 h1
      have q1 := hrec _ _ _ _ _ h1
      split at h
      · simp only [Option.map_eq_some_iff] at h
        obtain ⟨r2, h2, rfl⟩ := h
        exact hQ.app q1 (loopStar_rawA hQ a hrec _ _ _ _ _ h2)
      · simp only [Option.some.injEq] at h; subst h; exact q1
  | atR c =>
    simp only [body, Option.map_eq_some_iff] at h
    obtain ⟨r0, h0, rfl⟩ := h
    exact hoff _ _ _ _ r0 h0
  | notAt c =>
    simp only [body, Option.map_eq_some_iff] at h
    obtain ⟨r0, h0, rfl⟩ := h
    have := hoff _ _ _ _ _ h0
    split <;> exact this
  | until1 cond =>
    simp only [body, Option.map_eq_some_iff] at h
    obtain ⟨r0, h0, rfl⟩ := h
    simpa using loopUntil1_rawA hQ cx a hrec _ _ _ _ _ h0
  | until2 cond b =>
    simp only [body, Option.map_eq_some_iff] at h
    obtain ⟨r0, h0, rfl⟩ := h
    simpa using loopUntil2_rawA hQ a hrec _ _ _ _ _ _ h0
  | rep n c =>
    simp only [body, Option.map_eq_some_iff] at h
    obtain ⟨r0, h0, rfl⟩ := h
    simpa using repN_rawA hQ a hrec _ _ _ _ _ _ h0
  | repMinMax lo hi c na =>
    simp only [body] at h
    split at h
    · exact absurd h (by simp)
    · rename_i r1 h1
      have q1 := repN_rawA hQ a hrec _ _ _ _ _ _ h1
      split at h
      · split at h
        · exact absurd h (by simp)
        · rename_i r2 full h2
          have q2 := repUpTo_rawA hQ a hrec _ _ _ _ _ _ h2
          split at h
          · split at h
            · exact absurd h (by simp)
            · rename_i r3 h3
              simp only [Option.some.injEq] at h; subst h
              have q3 := hrec _ _ _ _ _ h3
              simp only [dropOnFail_raw, guardRestore_raw, prepend_raw]
              exact hQ.app (hQ.app q1 q2) q3
          · simp only [Option.some.injEq] at h; subst h
            simp only [dropOnFail_raw, guardRestore_raw, prepend_raw]
            exact hQ.app q1 q2
      · simp only [Option.some.injEq] at h; subst h
        simpa using q1
  | repOpt n c =>
    simp only [body, Option.map_eq_some_iff] at h
    obtain ⟨⟨r0, full⟩, h0, rfl⟩ := h
    exact repUpTo_rawA hQ a hrec _ _ _ _ _ _ h0
  | ifThenElse c t e =>
    simp only [body] at h
    split at h
    · exact absurd h (by simp)
    · rename_i r1 h1
      have q1 := hrec _ _ _ _ _ h1
      split at h
      · simp only [Option.map_eq_some_iff] at h
        obtain ⟨r2, h2, rfl⟩ := h
        simpa using hQ.app q1 (hrec _ _ _ _ _ h2)
      · simp only [Option.map_eq_some_iff] at h
        obtain ⟨r2, h2, rfl⟩ := h
        simpa using hQ.app q1 (hrec _ _ _ _ _ h2)
      · simp only [Option.some.injEq] at h; subst h
        simpa using q1
  | strict c rest =>
    simp only [body] at h
    split at h
    · exact absurd h (by simp)
    · rename_i r1 h1
      have q1 := hrec _ _ _ _ _ h1
      split at h
      · simp only [Option.map_eq_some_iff] at h
        obtain ⟨r2, h2, rfl⟩ := h
        simpa using hQ.app q1 (hrec _ _ _ _ _ h2)
      · simp only [Option.some.injEq] at h; subst h; exact q1
      · simp only [Option.some.injEq] at h; subst h
        simpa using q1
  | starStrict c rest =>
    simp only [body, Option.map_eq_some_iff] at h
    obtain ⟨r0, h0, rfl⟩ := h
    simpa using loopStarStrict_rawA hQ a hrec _ _ _ _ _ _ h0
  | rematch head rs =>
    simp only [body] at h
    split at h
    · exact hrec _ _ _ _ _ h
    · split at h
      · exact absurd h (by simp)
      · rename_i r1 h1
        have q1 := hrec _ _ _ _ _ h1
        split at h
        · split at h
          · exact absurd h (by simp)
          · rename_i r2 h2
            simp only [Option.some.injEq] at h; subst h
            have q2 := rematchAll_rawA hQ a hrec _ _ _ _ _ h2
            simp only [dropOnFail_raw, guardRestore_raw, prepend_raw]
            exact hQ.app q1 q2
        · simp only [Option.some.injEq] at h; subst h
          simpa using q1
  | must c =>
    simp only [body] at h
    split at h
    · exact absurd h (by simp)
    · rename_i r1 h1
      have q1 := hrec _ _ _ _ _ h1
      split at h
      · simp only [Option.some.injEq] at h; subst h
        exact hQ.app q1 (hQ.raise _ _)
      · simp only [Option.some.injEq] at h; subst h; exact q1
  | ifMust dflt cond mn =>
    simp only [body] at h
    split at h
    · exact absurd h (by simp)
    · rename_i r1 h1
      have q1 := hrec _ _ _ _ _ h1
      split at h
      · simp only [Option.map_eq_some_iff] at h
        obtain ⟨r2, h2, rfl⟩ := h
        have q2 := hrec _ _ _ _ _ h2
        split
        · simpa using hQ.app q1 q2
        · exact hQ.app q1 q2
      · simp only [Option.some.injEq] at h; subst h; exact q1
      · simp only [Option.some.injEq] at h; subst h; exact q1
  | raise t =>
    simp only [body, Option.some.injEq] at h; subst h
    exact hQ.raise _ _
  | tryCatchReturnFalse ex c =>
    simp only [body, Option.map_eq_some_iff] at h
    obtain ⟨r0, h0, rfl⟩ := h
    have q := hrec _ _ _ _ _ h0
    simp only [dropOnFail_raw, guardRestore_raw]
    split
    · split <;> exact q
    · exact q
  | tryCatchRaiseNested ex c =>
    simp only [body, Option.map_eq_some_iff] at h
    obtain ⟨r0, h0, rfl⟩ := h
    have q := hrec _ _ _ _ _ h0
    simp only [dropOnFail_raw, guardRestore_raw]
    split
    · split <;> exact q
    · exact q
  | enable c => simp only [body] at h; exact hon ⟨c, rfl⟩ _ _ _ _ _ h
  | disable c => simp only [body] at h; exact hoff _ _ _ _ _ h
  | action fam c => simp only [body] at h; exact hrec _ _ _ _ _ h

end

end Pegtl
