/-
  Lemmas/RawClosureA.lean — the induction principle of RawClosure.lean, relative to a fixed apply mode
  (instance of RawClosureE.lean).  (Used by C04.)
-/
import PegtlVerif.Lemmas.RawClosure

namespace Pegtl

/-- The sub-rule calls made with apply mode `a` have traces satisfying `Q`. -/
def QRecA (Q : List Ev → Prop) (rec : Rec) (a : AMode) : Prop := ∀ j m env st r, rec j a m env st = some r → Q r.raw

/-- The trace of every rule body satisfies any trace predicate closed under concatenation and
    `raise` events, given that the traces of the sub-rule calls it can make do: calls with its own
    apply mode, calls with actions disabled (`at`, `not_at`, `disable`), and — only for `enable` —
    calls with actions enabled. -/
theorem body_rawA {Q : List Ev → Prop} (hQ : RawClosedE (fun _ => Q)) {rec : Rec} (cx : Ctx) (k : Nat) (kind : Kind) (a : AMode)
    (hrec : QRecA Q rec a) (hoff : QRecA Q rec .nothing)
    (hon : (∃ c, kind = .enable c) → QRecA Q rec .action) (m : RMode) (env : Env)
    (hract : a = .action → ∀ (acts : List RuleAct) (b e : Cursor), Q (runActs cx env.sd b e acts).2) (st : St) (r : Ret)
    (h : body cx rec k kind a m env st = some r) : Q r.raw :=
  body_rawE hQ cx k kind a hrec hoff hon m env hract st r h

end Pegtl
