/-
  Lemmas/Utf.lean — helper lemmas for property C10: byte-level bit-operation tables
  (`&&&` masks as ranges / remainders, closed by `decide +kernel` over the 256 byte values),
  shift/or as multiply/add, arithmetic normal forms of the decoders of Model/Utf.lean,
  and the endianness lemmas (`bswap ∘ memcpy` = big-endian value).
  Core Lean only (no Mathlib).
-/
import PegtlVerif.Model.AsciiClasses
import PegtlVerif.Spec.Unicode
import PegtlVerif.Expected.AsciiTable

namespace Pegtl.Utf
open Pegtl.Unicode Pegtl.AsciiDoc

/-! ### Tables over one byte -/

theorem tbl_and80 : ∀ n, n < 256 → ((n &&& 0x80 = 0) ↔ n < 128) := by decide +kernel
theorem tbl_andE0 : ∀ n, n < 256 → ((n &&& 0xE0 = 0xC0) ↔ (192 ≤ n ∧ n < 224)) := by decide +kernel
theorem tbl_andF0 : ∀ n, n < 256 → ((n &&& 0xF0 = 0xE0) ↔ (224 ≤ n ∧ n < 240)) := by decide +kernel
theorem tbl_andF8 : ∀ n, n < 256 → ((n &&& 0xF8 = 0xF0) ↔ (240 ≤ n ∧ n < 248)) := by decide +kernel
theorem tbl_andC0 : ∀ n, n < 256 → ((n &&& 0xC0 = 0x80) ↔ (128 ≤ n ∧ n < 192)) := by decide +kernel

theorem and_1F (n : Nat) : n &&& 0x1F = n % 32 := Nat.and_two_pow_sub_one_eq_mod n 5
theorem and_0F (n : Nat) : n &&& 0x0F = n % 16 := Nat.and_two_pow_sub_one_eq_mod n 4
theorem and_07 (n : Nat) : n &&& 0x07 = n % 8 := Nat.and_two_pow_sub_one_eq_mod n 3
theorem and_3F (n : Nat) : n &&& 0x3F = n % 64 := Nat.and_two_pow_sub_one_eq_mod n 6
theorem and_FF (n : Nat) : n &&& 0xFF = n % 256 := Nat.and_two_pow_sub_one_eq_mod n 8
theorem and_3FF (n : Nat) : n &&& 0x03ff = n % 1024 := Nat.and_two_pow_sub_one_eq_mod n 10

theorem shl_or (a b k : Nat) (h : b < 2 ^ k) : (a <<< k) ||| b = a * 2 ^ k + b := by
  rw [← Nat.shiftLeft_add_eq_or_of_lt h, Nat.shiftLeft_eq]

theorem shl6_or (a b : Nat) : (a <<< 6) ||| (b % 64) = a * 64 + b % 64 :=
  shl_or a (b % 64) 6 (Nat.mod_lt _ (by decide))

section bytes
variable (b : UInt8)
theorem u8_and80 : (b.toNat &&& 0x80 = 0) ↔ b.toNat < 128 := tbl_and80 _ b.toNat_lt
theorem u8_andE0 : (b.toNat &&& 0xE0 = 0xC0) ↔ (192 ≤ b.toNat ∧ b.toNat < 224) := tbl_andE0 _ b.toNat_lt
theorem u8_andF0 : (b.toNat &&& 0xF0 = 0xE0) ↔ (224 ≤ b.toNat ∧ b.toNat < 240) := tbl_andF0 _ b.toNat_lt
theorem u8_andF8 : (b.toNat &&& 0xF8 = 0xF0) ↔ (240 ≤ b.toNat ∧ b.toNat < 248) := tbl_andF8 _ b.toNat_lt
theorem u8_andC0 : (b.toNat &&& 0xC0 = 0x80) ↔ (128 ≤ b.toNat ∧ b.toNat < 192) := tbl_andC0 _ b.toNat_lt
end bytes

/-! ### UTF-8 -/

/-- Arithmetic normal form of `peekUtf8`: ranges and `/`, `%` instead of masks and shifts. -/
def peekUtf8A : List UInt8 → Option (Nat × Nat)
  | [] => none
  | b0 :: r =>
    let c0 := b0.toNat
    if c0 < 128 then some (c0, 1)
    else if 192 ≤ c0 ∧ c0 < 224 then
      match r with
      | b1 :: _ =>
        let c1 := b1.toNat
        if 128 ≤ c1 ∧ c1 < 192 then
          let c := c0 % 32 * 64 + c1 % 64
          if c ≥ 0x80 then some (c, 2) else none
        else none
      | _ => none
    else if 224 ≤ c0 ∧ c0 < 240 then
      match r with
      | b1 :: b2 :: _ =>
        let c1 := b1.toNat
        let c2 := b2.toNat
        if (128 ≤ c1 ∧ c1 < 192) ∧ (128 ≤ c2 ∧ c2 < 192) then
          let c := (c0 % 16 * 64 + c1 % 64) * 64 + c2 % 64
          if c ≥ 0x800 ∧ ¬(c ≥ 0xD800 ∧ c ≤ 0xDFFF) then some (c, 3) else none
        else none
      | _ => none
    else if 240 ≤ c0 ∧ c0 < 248 then
      match r with
      | b1 :: b2 :: b3 :: _ =>
        let c1 := b1.toNat
        let c2 := b2.toNat
        let c3 := b3.toNat
        if (128 ≤ c1 ∧ c1 < 192) ∧ (128 ≤ c2 ∧ c2 < 192) ∧ (128 ≤ c3 ∧ c3 < 192) then
          let c := ((c0 % 8 * 64 + c1 % 64) * 64 + c2 % 64) * 64 + c3 % 64
          if c ≥ 0x10000 ∧ c ≤ 0x10FFFF then some (c, 4) else none
        else none
      | _ => none
    else none

theorem peekUtf8_eq_A (bs : List UInt8) : peekUtf8 bs = peekUtf8A bs := by
  match bs with
  | [] => rfl
  | [b0] =>
    simp [peekUtf8, peekUtf8Impl, peekUtf8A, u8_and80, u8_andE0, u8_andF0, u8_andF8]
  | [b0, b1] =>
    simp [peekUtf8, peekUtf8Impl, peekUtf8A, u8_and80, u8_andE0, u8_andF0, u8_andF8, u8_andC0,
      and_1F, and_3F, shl6_or]
  | [b0, b1, b2] =>
    simp [peekUtf8, peekUtf8Impl, peekUtf8A, u8_and80, u8_andE0, u8_andF0, u8_andF8, u8_andC0,
      and_1F, and_0F, and_3F, shl6_or]
  | b0 :: b1 :: b2 :: b3 :: r =>
    simp [peekUtf8, peekUtf8Impl, peekUtf8A, u8_and80, u8_andE0, u8_andF0, u8_andF8, u8_andC0,
      and_1F, and_0F, and_07, and_3F, shl6_or]


theorem toNat_toUInt8 (k : Nat) (h : k < 256) : (k.toUInt8).toNat = k := by
  simp [Nat.toUInt8]; omega

theorem eq_toUInt8 (b : UInt8) (k : Nat) : b = k.toUInt8 ↔ (b.toNat = k % 256) := by
  rw [← UInt8.toNat_inj]; simp [Nat.toUInt8]

theorem encLen_1 {cp : Nat} (h : cp < 0x80) : encLen cp = 1 := by
  unfold encLen; rw [if_pos h]
theorem encLen_2 {cp : Nat} (h1 : 0x80 ≤ cp) (h2 : cp < 0x800) : encLen cp = 2 := by
  unfold encLen; rw [if_neg (by omega), if_pos h2]
theorem encLen_3 {cp : Nat} (h1 : 0x800 ≤ cp) (h2 : cp < 0x10000) : encLen cp = 3 := by
  unfold encLen; rw [if_neg (by omega), if_neg (by omega), if_pos h2]
theorem encLen_4 {cp : Nat} (h1 : 0x10000 ≤ cp) : encLen cp = 4 := by
  unfold encLen; rw [if_neg (by omega), if_neg (by omega), if_neg (by omega)]

theorem encodeUtf8_1 {cp : Nat} (h : cp < 0x80) : encodeUtf8 cp = [cp.toUInt8] := by
  unfold encodeUtf8; rw [if_pos h]
theorem encodeUtf8_2 {cp : Nat} (h1 : 0x80 ≤ cp) (h2 : cp < 0x800) :
    encodeUtf8 cp = [(0xC0 + cp / 64).toUInt8, (0x80 + cp % 64).toUInt8] := by
  unfold encodeUtf8; rw [if_neg (by omega), if_pos h2]
theorem encodeUtf8_3 {cp : Nat} (h1 : 0x800 ≤ cp) (h2 : cp < 0x10000) :
    encodeUtf8 cp = [(0xE0 + cp / 4096).toUInt8, (0x80 + cp / 64 % 64).toUInt8, (0x80 + cp % 64).toUInt8] := by
  unfold encodeUtf8; rw [if_neg (by omega), if_neg (by omega), if_pos h2]
theorem encodeUtf8_4 {cp : Nat} (h1 : 0x10000 ≤ cp) :
    encodeUtf8 cp = [(0xF0 + cp / 262144).toUInt8, (0x80 + cp / 4096 % 64).toUInt8,
      (0x80 + cp / 64 % 64).toUInt8, (0x80 + cp % 64).toUInt8] := by
  unfold encodeUtf8; rw [if_neg (by omega), if_neg (by omega), if_neg (by omega)]

theorem utf8A_sound (bs : List UInt8) (cp n : Nat) (h : peekUtf8A bs = some (cp, n)) :
    isScalar cp ∧ n = encLen cp ∧ bs.take n = encodeUtf8 cp := by
  unfold peekUtf8A at h
  split at h
  · cases h
  · rename_i b0 r
    have := b0.toNat_lt
    simp only at h
    split at h
    · simp only [Option.some.injEq, Prod.mk.injEq] at h
      obtain ⟨hc, hn⟩ := h; subst hn
      have h1 : cp < 0x80 := by omega
      refine ⟨by unfold isScalar; omega, (encLen_1 h1).symm, ?_⟩
      rw [encodeUtf8_1 h1]
      simp only [List.take_succ_cons, List.take_zero, List.cons.injEq, and_true, eq_toUInt8]; omega
    · split at h
      · split at h
        · rename_i b1 r'
          have := b1.toNat_lt
          split at h
          · split at h
            · simp only [Option.some.injEq, Prod.mk.injEq] at h
              obtain ⟨hc, hn⟩ := h; subst hn
              have h1 : 0x80 ≤ cp := by omega
              have h2 : cp < 0x800 := by omega
              refine ⟨by unfold isScalar; omega, (encLen_2 h1 h2).symm, ?_⟩
              rw [encodeUtf8_2 h1 h2]
              simp only [List.take_succ_cons, List.take_zero, List.cons.injEq, and_true, eq_toUInt8]; omega
            · cases h
          · cases h
        · cases h
      · split at h
        · split at h
          · rename_i b1 b2 r'
            have := b1.toNat_lt
            have := b2.toNat_lt
            split at h
            · split at h
              · simp only [Option.some.injEq, Prod.mk.injEq] at h
                obtain ⟨hc, hn⟩ := h; subst hn
                have h1 : 0x800 ≤ cp := by omega
                have h2 : cp < 0x10000 := by omega
                refine ⟨by unfold isScalar; omega, (encLen_3 h1 h2).symm, ?_⟩
                rw [encodeUtf8_3 h1 h2]
                simp only [List.take_succ_cons, List.take_zero, List.cons.injEq, and_true, eq_toUInt8]; omega
              · cases h
            · cases h
          · cases h
        · split at h
          · split at h
            · rename_i b1 b2 b3 r'
              have := b1.toNat_lt
              have := b2.toNat_lt
              have := b3.toNat_lt
              split at h
              · split at h
                · simp only [Option.some.injEq, Prod.mk.injEq] at h
                  obtain ⟨hc, hn⟩ := h; subst hn
                  have h1 : 0x10000 ≤ cp := by omega
                  refine ⟨by unfold isScalar; omega, (encLen_4 h1).symm, ?_⟩
                  rw [encodeUtf8_4 h1]
                  simp only [List.take_succ_cons, List.take_zero, List.cons.injEq, and_true, eq_toUInt8]; omega
                · cases h
              · cases h
            · cases h
          · cases h

theorem utf8A_complete (bs : List UInt8) (cp : Nat) (hs : isScalar cp)
    (ht : bs.take (encLen cp) = encodeUtf8 cp) : peekUtf8A bs = some (cp, encLen cp) := by
  unfold isScalar at hs
  by_cases h1 : cp < 0x80
  · rw [encLen_1 h1, encodeUtf8_1 h1] at ht
    rw [encLen_1 h1]
    rcases bs with _ | ⟨b0, r⟩
    · simp at ht
    · simp only [List.take_succ_cons, List.take_zero, List.cons.injEq, and_true, eq_toUInt8] at ht
      have := b0.toNat_lt
      simp only [peekUtf8A]
      rw [if_pos (by omega)]
      have : b0.toNat = cp := by omega
      simp [this]
  · by_cases h2 : cp < 0x800
    · rw [encLen_2 (by omega) h2, encodeUtf8_2 (by omega) h2] at ht
      rw [encLen_2 (by omega) h2]
      rcases bs with _ | ⟨b0, _ | ⟨b1, r⟩⟩
      · simp at ht
      · simp at ht
      · simp only [List.take_succ_cons, List.take_zero, List.cons.injEq, and_true, eq_toUInt8] at ht
        have := b0.toNat_lt
        have := b1.toNat_lt
        simp only [peekUtf8A]
        rw [if_neg (by omega), if_pos (by omega), if_pos (by omega), if_pos (by omega)]
        have : b0.toNat % 32 * 64 + b1.toNat % 64 = cp := by omega
        simp [this]
    · by_cases h3 : cp < 0x10000
      · rw [encLen_3 (by omega) h3, encodeUtf8_3 (by omega) h3] at ht
        rw [encLen_3 (by omega) h3]
        rcases bs with _ | ⟨b0, _ | ⟨b1, _ | ⟨b2, r⟩⟩⟩
        · simp at ht
        · simp at ht
        · simp at ht
        · simp only [List.take_succ_cons, List.take_zero, List.cons.injEq, and_true, eq_toUInt8] at ht
          have := b0.toNat_lt
          have := b1.toNat_lt
          have := b2.toNat_lt
          simp only [peekUtf8A]
          rw [if_neg (by omega), if_neg (by omega), if_pos (by omega), if_pos (by omega), if_pos (by omega)]
          have : (b0.toNat % 16 * 64 + b1.toNat % 64) * 64 + b2.toNat % 64 = cp := by omega
          simp [this]
      · rw [encLen_4 (by omega), encodeUtf8_4 (by omega)] at ht
        rw [encLen_4 (by omega)]
        rcases bs with _ | ⟨b0, _ | ⟨b1, _ | ⟨b2, _ | ⟨b3, r⟩⟩⟩⟩
        · simp at ht
        · simp at ht
        · simp at ht
        · simp at ht
        · simp only [List.take_succ_cons, List.take_zero, List.cons.injEq, and_true, eq_toUInt8] at ht
          have := b0.toNat_lt
          have := b1.toNat_lt
          have := b2.toNat_lt
          have := b3.toNat_lt
          simp only [peekUtf8A]
          rw [if_neg (by omega), if_neg (by omega), if_neg (by omega), if_pos (by omega), if_pos (by omega), if_pos (by omega)]
          have : ((b0.toNat % 8 * 64 + b1.toNat % 64) * 64 + b2.toNat % 64) * 64 + b3.toNat % 64 = cp := by omega
          simp [this]

/-! ### UTF-8 against Table 3-7 -/

theorem inRange_iff (lo hi : Nat) (b : UInt8) : inRange lo hi b ↔ (lo ≤ b.toNat ∧ b.toNat ≤ hi) := Iff.rfl

/-- Both decoders branch on the class of the lead byte; `fs` are the decided lead-byte tests. -/
local macro "utf8_table_cases" : tactic =>
  `(tactic| (simp only [peekUtf8A, table37, inRange_iff, Nat.zero_le, true_and, and_true, *, if_false, if_true]
             repeat' (first | rfl | omega | split)))

theorem t37_lead1 (b0 : UInt8) (r : List UInt8) (h : b0.toNat < 192) :
    (peekUtf8A (b0 :: r)).map (·.2) = table37 (b0 :: r) := by
  have := b0.toNat_lt
  have e2 : ¬ (192 ≤ b0.toNat ∧ b0.toNat < 224) := by omega
  have e3 : ¬ (224 ≤ b0.toNat ∧ b0.toNat < 240) := by omega
  have e4 : ¬ (240 ≤ b0.toNat ∧ b0.toNat < 248) := by omega
  have f2 : ¬ (194 ≤ b0.toNat ∧ b0.toNat ≤ 223) := by omega
  have f3 : ¬ (224 ≤ b0.toNat ∧ b0.toNat ≤ 239) := by omega
  have f4 : ¬ (240 ≤ b0.toNat ∧ b0.toNat ≤ 244) := by omega
  utf8_table_cases

theorem t37_lead2 (b0 : UInt8) (r : List UInt8) (h : 192 ≤ b0.toNat ∧ b0.toNat < 224) :
    (peekUtf8A (b0 :: r)).map (·.2) = table37 (b0 :: r) := by
  have e1 : ¬ b0.toNat < 128 := by omega
  have f1 : ¬ b0.toNat ≤ 127 := by omega
  have f3 : ¬ (224 ≤ b0.toNat ∧ b0.toNat ≤ 239) := by omega
  have f4 : ¬ (240 ≤ b0.toNat ∧ b0.toNat ≤ 244) := by omega
  rcases r with _ | ⟨b1, r⟩
  · utf8_table_cases
  · have := b1.toNat_lt
    utf8_table_cases

theorem t37_lead3 (b0 : UInt8) (r : List UInt8) (h : 224 ≤ b0.toNat ∧ b0.toNat < 240) :
    (peekUtf8A (b0 :: r)).map (·.2) = table37 (b0 :: r) := by
  have e1 : ¬ b0.toNat < 128 := by omega
  have e2 : ¬ (192 ≤ b0.toNat ∧ b0.toNat < 224) := by omega
  have f1 : ¬ b0.toNat ≤ 127 := by omega
  have f2 : ¬ (194 ≤ b0.toNat ∧ b0.toNat ≤ 223) := by omega
  have f3 : (224 ≤ b0.toNat ∧ b0.toNat ≤ 239) := by omega
  rcases r with _ | ⟨b1, _ | ⟨b2, r⟩⟩
  · utf8_table_cases
  · utf8_table_cases
  · have := b1.toNat_lt
    have := b2.toNat_lt
    utf8_table_cases

theorem t37_lead4 (b0 : UInt8) (r : List UInt8) (h : 240 ≤ b0.toNat) :
    (peekUtf8A (b0 :: r)).map (·.2) = table37 (b0 :: r) := by
  have := b0.toNat_lt
  have e1 : ¬ b0.toNat < 128 := by omega
  have e2 : ¬ (192 ≤ b0.toNat ∧ b0.toNat < 224) := by omega
  have e3 : ¬ (224 ≤ b0.toNat ∧ b0.toNat < 240) := by omega
  have f1 : ¬ b0.toNat ≤ 127 := by omega
  have f2 : ¬ (194 ≤ b0.toNat ∧ b0.toNat ≤ 223) := by omega
  have f3 : ¬ (224 ≤ b0.toNat ∧ b0.toNat ≤ 239) := by omega
  rcases r with _ | ⟨b1, _ | ⟨b2, _ | ⟨b3, r⟩⟩⟩
  · utf8_table_cases
  · utf8_table_cases
  · utf8_table_cases
  · have := b1.toNat_lt
    have := b2.toNat_lt
    have := b3.toNat_lt
    utf8_table_cases

theorem utf8A_table37 (bs : List UInt8) : (peekUtf8A bs).map (·.2) = table37 bs := by
  rcases bs with _ | ⟨b0, r⟩
  · rfl
  · by_cases h1 : b0.toNat < 192
    · exact t37_lead1 b0 r h1
    · by_cases h2 : b0.toNat < 224
      · exact t37_lead2 b0 r (by omega)
      · by_cases h3 : b0.toNat < 240
        · exact t37_lead3 b0 r (by omega)
        · exact t37_lead4 b0 r (by omega)

/-! ### Endianness: `memcpy`, `bswap`, byte strings and their values -/


theorem leValue_lt (bs : List UInt8) : leValue bs < 256 ^ bs.length := by
  induction bs with
  | nil => simp [leValue]
  | cons b t ih =>
    have := b.toNat_lt
    simp only [leValue, List.length_cons, Nat.pow_succ]
    omega

theorem leValue_append (xs ys : List UInt8) :
    leValue (xs ++ ys) = leValue xs + 256 ^ xs.length * leValue ys := by
  induction xs with
  | nil => simp [leValue]
  | cons b t ih =>
    simp only [List.cons_append, leValue, ih, List.length_cons, Nat.pow_succ]
    rw [Nat.mul_add, Nat.mul_comm (256 ^ t.length) 256, Nat.mul_assoc]
    omega

theorem length_leBytes (w v : Nat) : (leBytes w v).length = w := by
  induction w generalizing v with
  | zero => rfl
  | succ w ih => simp [leBytes, ih]

theorem leValue_leBytes (w v : Nat) : leValue (leBytes w v) = v % 256 ^ w := by
  induction w generalizing v with
  | zero => simp [leBytes, leValue, Nat.mod_one]
  | succ w ih =>
    simp only [leBytes, leValue, ih, Nat.pow_succ]
    rw [toNat_toUInt8 _ (Nat.mod_lt _ (by decide))]
    rw [Nat.mul_comm (256 ^ w) 256, Nat.mod_mul]

theorem leBytes_leValue (bs : List UInt8) : leBytes bs.length (leValue bs) = bs := by
  induction bs with
  | nil => rfl
  | cons b t ih =>
    have := b.toNat_lt
    simp only [List.length_cons, leBytes, leValue]
    have h1 : (b.toNat + 256 * leValue t) % 256 = b.toNat := by omega
    have h2 : (b.toNat + 256 * leValue t) / 256 = leValue t := by omega
    rw [h1, h2, ih]
    congr 1
    rw [eq_comm, eq_toUInt8]; omega

/-- `std::memcpy` into an integer on a little-endian host is the little-endian value. -/
theorem memcpyLE_eq (w : Nat) (bs : List UInt8) (h : w ≤ bs.length) :
    memcpyLE w bs = leValue (bs.take w) := by
  induction w generalizing bs with
  | zero => simp [memcpyLE, leValue]
  | succ w ih =>
    rcases bs with _ | ⟨b, t⟩
    · simp at h
    · have := b.toNat_lt
      simp only [List.length_cons] at h
      simp only [memcpyLE, List.headD_cons, List.tail_cons, List.take_succ_cons, leValue, ih t (by omega)]
      rw [Nat.or_comm, shl_or _ _ 8 (by omega)]
      omega

/-- `__builtin_bswap` turns the little-endian value into the big-endian value. -/
theorem bswap_leValue (bs : List UInt8) : bswap bs.length (leValue bs) = beValue bs := by
  induction bs with
  | nil => simp [bswap, beValue, leValue]
  | cons b t ih =>
    have := b.toNat_lt
    simp only [List.length_cons, bswap, leValue, beValue, List.reverse_cons, leValue_append, List.length_reverse]
    have h1 : (b.toNat + 256 * leValue t) &&& 0xFF = b.toNat := by rw [and_FF]; omega
    have h2 : (b.toNat + 256 * leValue t) >>> 8 = leValue t := by rw [Nat.shiftRight_eq_div_pow]; omega
    rw [h1, h2, ih, beValue]
    have hlt : leValue t.reverse < 2 ^ (8 * t.length) := by
      have := leValue_lt t.reverse
      rw [List.length_reverse] at this
      rw [Nat.pow_mul]; exact this
    rw [shl_or _ _ _ hlt, Nat.pow_mul]
    simp
    rw [Nat.mul_comm]; omega

theorem readUint_eq (e : Endian) (w : Nat) (bs : List UInt8) (h : w ≤ bs.length) :
    readUint e w bs = uintValue e (bs.take w) := by
  unfold readUint
  rw [memcpyLE_eq w bs h]
  cases e with
  | little => rfl
  | big =>
    simp only [uintValue]
    have : (bs.take w).length = w := by simp; omega
    rw [← bswap_leValue, this]

theorem length_uintBytes (e : Endian) (w v : Nat) : (uintBytes e w v).length = w := by
  cases e <;> simp [uintBytes, length_leBytes]

theorem uintValue_uintBytes (e : Endian) (w v : Nat) (h : v < 256 ^ w) :
    uintValue e (uintBytes e w v) = v := by
  cases e <;> simp [uintValue, uintBytes, beValue, leValue_leBytes, Nat.mod_eq_of_lt h]

theorem uintBytes_uintValue (e : Endian) (bs : List UInt8) :
    uintBytes e bs.length (uintValue e bs) = bs := by
  cases e with
  | little => exact leBytes_leValue bs
  | big =>
    simp only [uintBytes, uintValue, beValue]
    have := leBytes_leValue bs.reverse
    rw [List.length_reverse] at this
    rw [this, List.reverse_reverse]

theorem uintValue_lt (e : Endian) (bs : List UInt8) : uintValue e bs < 256 ^ bs.length := by
  cases e with
  | little => exact leValue_lt bs
  | big => have := leValue_lt bs.reverse; rwa [List.length_reverse] at this

/-- A buffer starts with the `w` bytes of `v` in byte order `e` iff it has `w` bytes whose value is `v`. -/
theorem take_eq_uintBytes_iff (e : Endian) (w v : Nat) (bs : List UInt8) (hv : v < 256 ^ w) :
    bs.take w = uintBytes e w v ↔ (w ≤ bs.length ∧ uintValue e (bs.take w) = v) := by
  constructor
  · intro h
    have hl := congrArg List.length h
    rw [length_uintBytes, List.length_take] at hl
    exact ⟨by omega, by rw [h, uintValue_uintBytes e w v hv]⟩
  · rintro ⟨hl, hval⟩
    have : (bs.take w).length = w := by rw [List.length_take]; omega
    have key := uintBytes_uintValue e (bs.take w)
    rw [this, hval] at key
    exact key.symm

theorem readUint_lt (e : Endian) (w : Nat) (bs : List UInt8) (h : w ≤ bs.length) :
    readUint e w bs < 256 ^ w := by
  rw [readUint_eq e w bs h]
  have := uintValue_lt e (bs.take w)
  rwa [List.length_take, Nat.min_eq_left h] at this

/-! ### UTF-32 -/

theorem utf32_iff (e : Endian) (bs : List UInt8) (cp n : Nat) :
    peekUtf32 e bs = some (cp, n) ↔ isScalar cp ∧ n = 4 ∧ bs.take 4 = encodeUtf32 e cp := by
  unfold peekUtf32 encodeUtf32 isScalar
  constructor
  · intro h
    split at h
    · cases h
    · rename_i hl
      have hl : 4 ≤ bs.length := by omega
      rw [readUint_eq e 4 bs hl] at h
      simp only at h
      split at h
      · simp only [Option.some.injEq, Prod.mk.injEq] at h
        obtain ⟨hc, hn⟩ := h
        refine ⟨by omega, hn.symm, ?_⟩
        rw [take_eq_uintBytes_iff e 4 cp bs (by omega)]
        exact ⟨hl, hc⟩
      · cases h
  · rintro ⟨hs, rfl, ht⟩
    rw [take_eq_uintBytes_iff e 4 cp bs (by omega)] at ht
    obtain ⟨hl, hv⟩ := ht
    rw [if_neg (by omega), readUint_eq e 4 bs hl, hv]
    simp only
    rw [if_pos (by omega)]

/-! ### UTF-16 -/

theorem take4_eq_append (bs X Y : List UInt8) (hx : X.length = 2) (hy : Y.length = 2) :
    bs.take 4 = X ++ Y ↔ (bs.take 2 = X ∧ (bs.drop 2).take 2 = Y) := by
  have : bs.take 4 = bs.take 2 ++ (bs.drop 2).take 2 := List.take_add (l := bs) (i := 2) (j := 2)
  rw [this]
  constructor
  · intro h
    by_cases hl : 2 ≤ bs.length
    · exact List.append_inj h (by rw [List.length_take]; omega)
    · have h' := congrArg List.length h
      simp only [List.length_append, List.length_take, List.length_drop, hx, hy] at h'
      omega
  · rintro ⟨h1, h2⟩; rw [h1, h2]

theorem utf16_pair_val (t u : Nat) : (((t &&& 0x03ff) <<< 10) ||| (u &&& 0x03ff)) + 0x10000 = t % 1024 * 1024 + u % 1024 + 0x10000 := by
  rw [and_3FF, and_3FF, shl_or _ _ 10 (Nat.mod_lt _ (by decide))]

theorem encodeUtf16_bmp (e : Endian) {cp : Nat} (h : cp < 0x10000) : encodeUtf16 e cp = uintBytes e 2 cp := by
  simp [encodeUtf16, utf16Units, h]

theorem encodeUtf16_pair (e : Endian) {cp : Nat} (h : 0x10000 ≤ cp) :
    encodeUtf16 e cp = uintBytes e 2 (0xD800 + (cp - 0x10000) / 1024) ++ uintBytes e 2 (0xDC00 + (cp - 0x10000) % 1024) := by
  have : ¬ cp < 0x10000 := by omega
  simp [encodeUtf16, utf16Units, this]

theorem utf16_iff (e : Endian) (bs : List UInt8) (cp n : Nat) :
    peekUtf16 e bs = some (cp, n) ↔ isScalar cp ∧ n = encLen16 cp ∧ bs.take n = encodeUtf16 e cp := by
  unfold peekUtf16 isScalar encLen16
  constructor
  · intro h
    split at h
    · cases h
    · have hl : 2 ≤ bs.length := by omega
      have hT := readUint_lt e 2 bs hl
      rw [readUint_eq e 2 bs hl] at h hT
      simp only at h
      split at h
      · simp only [Option.some.injEq, Prod.mk.injEq] at h
        obtain ⟨hc, hn⟩ := h
        subst hn
        have hcp : cp < 0x10000 := by omega
        refine ⟨by omega, by rw [if_pos hcp], ?_⟩
        rw [encodeUtf16_bmp e hcp, take_eq_uintBytes_iff e 2 cp bs (by omega)]
        exact ⟨hl, hc⟩
      · split at h
        · cases h
        · have hl4 : 2 ≤ (bs.drop 2).length := by rw [List.length_drop]; omega
          have hU := readUint_lt e 2 (bs.drop 2) hl4
          rw [readUint_eq e 2 (bs.drop 2) hl4] at h hU
          split at h
          · simp only [Option.some.injEq, Prod.mk.injEq, utf16_pair_val] at h
            obtain ⟨hc, hn⟩ := h
            subst hn
            have hcp : 0x10000 ≤ cp := by omega
            refine ⟨by omega, by rw [if_neg (by omega)], ?_⟩
            rw [encodeUtf16_pair e hcp, take4_eq_append _ _ _ (length_uintBytes ..) (length_uintBytes ..),
              take_eq_uintBytes_iff e 2 _ bs (by omega), take_eq_uintBytes_iff e 2 _ (bs.drop 2) (by omega)]
            exact ⟨⟨hl, by omega⟩, hl4, by omega⟩
          · cases h
  · rintro ⟨hs, rfl, ht⟩
    by_cases hcp : cp < 0x10000
    · rw [if_pos hcp, encodeUtf16_bmp e hcp, take_eq_uintBytes_iff e 2 cp bs (by omega)] at ht
      obtain ⟨hl, hv⟩ := ht
      rw [if_neg (by omega), readUint_eq e 2 bs hl, hv]
      simp only
      rw [if_pos (by omega), if_pos hcp]
    · rw [if_neg hcp, encodeUtf16_pair e (by omega), take4_eq_append _ _ _ (length_uintBytes ..) (length_uintBytes ..),
        take_eq_uintBytes_iff e 2 _ bs (by omega), take_eq_uintBytes_iff e 2 _ (bs.drop 2) (by omega)] at ht
      obtain ⟨⟨hl, hv⟩, hl4, hu⟩ := ht
      rw [List.length_drop] at hl4
      rw [if_neg (by omega), readUint_eq e 2 bs hl, hv]
      simp only
      rw [if_neg (by omega), if_neg (by omega), readUint_eq e 2 (bs.drop 2) (by rw [List.length_drop]; omega), hu,
        if_pos (by omega), utf16_pair_val, if_neg hcp]
      congr 2
      omega

/-! ### Binary integers -/

theorem uintValue_single (e : Endian) (b : UInt8) : uintValue e [b] = b.toNat := by
  cases e <;> simp [uintValue, beValue, leValue]

theorem peekUint8_iff (m : Option Nat) (e : Endian) (bs : List UInt8) (v n : Nat) :
    peekUint8 m bs = some (v, n) ↔ (1 ≤ bs.length ∧ n = 1 ∧ v = masked m (uintValue e (bs.take 1))) := by
  rcases bs with _ | ⟨b, t⟩
  · simp [peekUint8]
  · have hb := b.toNat_lt
    cases m with
    | none =>
      simp only [peekUint8, masked, List.take_succ_cons, List.take_zero, uintValue_single, Option.some.injEq,
        Prod.mk.injEq, List.length_cons]
      constructor
      · rintro ⟨rfl, rfl⟩; exact ⟨by omega, rfl, rfl⟩
      · rintro ⟨_, rfl, rfl⟩; exact ⟨rfl, rfl⟩
    | some M =>
      have hle : b.toNat &&& M ≤ b.toNat := Nat.and_le_left
      have hmod : (b.toNat &&& M) % 256 = b.toNat &&& M := Nat.mod_eq_of_lt (by omega)
      simp only [peekUint8, masked, List.take_succ_cons, List.take_zero, uintValue_single, Option.some.injEq,
        Prod.mk.injEq, List.length_cons, hmod]
      constructor
      · rintro ⟨rfl, rfl⟩; exact ⟨by omega, rfl, rfl⟩
      · rintro ⟨_, rfl, rfl⟩; exact ⟨rfl, rfl⟩

theorem peekUintN_iff (w : Nat) (e : Endian) (m : Option Nat) (bs : List UInt8) (v n : Nat) :
    peekUintN w e m bs = some (v, n) ↔ (w ≤ bs.length ∧ n = w ∧ v = masked m (uintValue e (bs.take w))) := by
  unfold peekUintN
  by_cases hl : bs.length < w
  · rw [if_pos hl]
    constructor
    · intro h; cases h
    · rintro ⟨h, _⟩; omega
  · rw [if_neg hl]
    have hl' : w ≤ bs.length := by omega
    cases m with
    | none =>
      simp only [masked, readUint_eq e w bs hl', Option.some.injEq, Prod.mk.injEq]
      constructor
      · rintro ⟨rfl, rfl⟩; exact ⟨hl', rfl, rfl⟩
      · rintro ⟨_, rfl, rfl⟩; exact ⟨rfl, rfl⟩
    | some M =>
      simp only [masked, readUint_eq e w bs hl', Option.some.injEq, Prod.mk.injEq]
      constructor
      · rintro ⟨rfl, rfl⟩; exact ⟨hl', rfl, rfl⟩
      · rintro ⟨_, rfl, rfl⟩; exact ⟨rfl, rfl⟩

theorem peekUint_iff (w : Nat) (e : Endian) (m : Option Nat) (bs : List UInt8) (v n : Nat) :
    peekUint w e m bs = some (v, n) ↔ (w ≤ bs.length ∧ n = w ∧ v = masked m (uintValue e (bs.take w))) := by
  unfold peekUint
  by_cases h1 : w = 1
  · subst h1; rw [if_pos rfl]; exact peekUint8_iff m e bs v n
  · rw [if_neg h1]; exact peekUintN_iff w e m bs v n


/-! ### Single-unit rules -/

theorem matchUnit_iff (r : UnitRule) (bs : List UInt8) (n : Nat) :
    matchUnit r bs = some n ↔ ∃ v, r.peekOf.peek bs = some (v, n) ∧ r.testOne v = true := by
  unfold matchUnit
  cases h : r.peekOf.peek bs with
  | none => simp
  | some p =>
    obtain ⟨v, k⟩ := p
    by_cases ht : r.testOne v = true
    · simp only [ht, if_true, Option.some.injEq, Prod.mk.injEq]
      constructor
      · rintro rfl; exact ⟨v, ⟨rfl, rfl⟩, ht⟩
      · rintro ⟨_, ⟨_, h⟩, _⟩; exact h
    · simp only [ht, Option.some.injEq, Prod.mk.injEq]
      constructor
      · intro h; cases h
      · rintro ⟨v', ⟨rfl, _⟩, h⟩; exact absurd h ht

theorem matchUnit_none_iff (r : UnitRule) (bs : List UInt8) :
    matchUnit r bs = none ↔ ∀ v n, r.peekOf.peek bs = some (v, n) → r.testOne v = false := by
  unfold matchUnit
  cases h : r.peekOf.peek bs with
  | none => simp
  | some p =>
    obtain ⟨v, k⟩ := p
    by_cases ht : r.testOne v = true <;> simp [ht]

theorem rangesTest_iff (cs : List Int) (c : Int) : rangesTest cs c = true ↔ inPairs cs c := by
  fun_induction rangesTest cs c with
  | case1 lo hi rest c ih => simp [inPairs, ih]
  | case2 x c => simp [inPairs]
  | case3 c => simp [inPairs]

theorem testOne_one (found : Bool) (p : Peek) (cs : List Int) (v : Int) :
    (UnitRule.one found p cs).testOne v = true ↔ (v ∈ cs ↔ found = true) := by
  simp only [UnitRule.testOne]
  have : (cs.any fun x => v == x) = true ↔ v ∈ cs := by simp [List.any_eq_true]
  cases found <;> cases h : (cs.any fun x => v == x) <;> simp_all

theorem testOne_range (found : Bool) (p : Peek) (lo hi v : Int) :
    (UnitRule.range found p lo hi).testOne v = true ↔ ((lo ≤ v ∧ v ≤ hi) ↔ found = true) := by
  simp only [UnitRule.testOne]
  by_cases h1 : lo ≤ v <;> by_cases h2 : v ≤ hi <;> cases found <;> simp [h1, h2]

/-! ### ichar_equal -/

theorem tbl_or20 : ∀ n, n < 256 → ((UInt8.ofNat n) ||| 0x20).toNat = if n / 32 % 2 = 0 then n + 32 else n := by
  decide +kernel
theorem tbl_xor20 : ∀ n, n < 256 → ((UInt8.ofNat n) ^^^ 0x20).toNat = if n / 32 % 2 = 0 then n + 32 else n - 32 := by
  decide +kernel

theorem u8_or20 (b : UInt8) : (b ||| 0x20).toNat = if b.toNat / 32 % 2 = 0 then b.toNat + 32 else b.toNat := by
  have := tbl_or20 b.toNat b.toNat_lt
  rwa [UInt8.ofNat_toNat] at this
theorem u8_xor20 (b : UInt8) : (b ^^^ 0x20).toNat = if b.toNat / 32 % 2 = 0 then b.toNat + 32 else b.toNat - 32 := by
  have := tbl_xor20 b.toNat b.toNat_lt
  rwa [UInt8.ofNat_toNat] at this

theorem isAlphaB_iff (C : UInt8) : isAlphaB C = true ↔ ((97 ≤ C.toNat ∧ C.toNat ≤ 122) ∨ (65 ≤ C.toNat ∧ C.toNat ≤ 90)) := by
  simp [isAlphaB, UInt8.le_iff_toNat_le]

theorem isAlphaB_eq_doc (C : UInt8) : isAlphaB C = AsciiDoc.isAlpha C.toNat := by
  rw [Bool.eq_iff_iff, isAlphaB_iff]
  simp [AsciiDoc.isAlpha, AsciiDoc.isLower, AsciiDoc.isUpper]

theorem icharEqual_iff (C c : UInt8) :
    icharEqual C c = true ↔
      (isAlphaB C = true ∧ (c = C ∨ c = flipCase C)) ∨ (isAlphaB C = false ∧ c = C) := by
  unfold icharEqual
  by_cases hA : isAlphaB C = true
  · rw [if_pos hA]
    have hC := (isAlphaB_iff C).mp hA
    have hc := c.toNat_lt
    simp only [hA, true_and, Bool.true_eq_false, false_and, or_false, beq_iff_eq, flipCase]
    rw [← UInt8.toNat_inj, ← UInt8.toNat_inj (a := c), ← UInt8.toNat_inj (a := c), u8_or20, u8_or20, u8_xor20]
    split <;> split <;> omega
  · rw [if_neg hA]
    simp [hA]

theorem istringEqual_iff (cs bs : List UInt8) :
    istringEqual cs bs = true ↔ ∀ i, i < cs.length → icharEqual (cs.getD i 0) (bs.getD i 0) = true := by
  induction cs generalizing bs with
  | nil => simp [istringEqual]
  | cons C cs ih =>
    simp only [istringEqual, Bool.and_eq_true, ih, List.length_cons]
    constructor
    · rintro ⟨h0, ht⟩ i hi
      cases i with
      | zero => cases bs <;> simpa using h0
      | succ i =>
        have := ht i (by omega)
        cases bs <;> simpa using this
    · intro h
      refine ⟨?_, fun i hi => ?_⟩
      · have := h 0 (by omega)
        cases bs <;> simpa using this
      · have := h (i + 1) (by omega)
        cases bs <;> simpa using this

theorem matchIstring_iff (cs bs : List UInt8) (n : Nat) :
    matchIstring cs bs = some n ↔
      (n = cs.length ∧ cs.length ≤ bs.length ∧
        ∀ i, i < cs.length → icharEqual (cs.getD i 0) (bs.getD i 0) = true) := by
  unfold matchIstring
  by_cases hl : bs.length ≥ cs.length
  · rw [if_pos hl]
    by_cases he : istringEqual cs bs = true
    · rw [if_pos he]
      have := (istringEqual_iff cs bs).mp he
      constructor
      · intro h; cases h; exact ⟨rfl, hl, this⟩
      · rintro ⟨rfl, _, _⟩; rfl
    · rw [if_neg he]
      constructor
      · intro h; cases h
      · rintro ⟨_, _, h⟩; exact absurd ((istringEqual_iff cs bs).mpr h) he
  · rw [if_neg hl]
    constructor
    · intro h; cases h
    · rintro ⟨_, h, _⟩; omega

/-! ### The ASCII / ABNF class table -/

/-- One row of the table accepts exactly the documented set (checked on all 256 byte values). -/
def rowOk (row : String × UnitRule) : Bool :=
  row.2.peekOf == Peek.char &&
  match documented row.1 with
  | some P => (List.range 256).all fun n => row.2.testOne (charVal n.toUInt8) == P n
  | none => false

theorem asciiTable_rows_ok : Pegtl.Expected.asciiTable.all rowOk = true := by decide +kernel

theorem matchUnit_char (r : UnitRule) (h : r.peekOf = Peek.char) (c : UInt8) (rest : List UInt8) :
    matchUnit r (c :: rest) = if r.testOne (charVal c) = true then some 1 else none := by
  simp [matchUnit, h, Peek.peek, peekChar]

theorem matchUnit_char_nil (r : UnitRule) (h : r.peekOf = Peek.char) : matchUnit r [] = none := by
  simp [matchUnit, h, Peek.peek, peekChar]

theorem ascii_row (name : String) (r : UnitRule) (hmem : (name, r) ∈ Pegtl.Expected.asciiTable) :
    ∃ P, documented name = some P ∧ matchUnit r [] = none ∧
      ∀ (c : UInt8) (rest : List UInt8), matchUnit r (c :: rest) = if P c.toNat = true then some 1 else none := by
  have hrow := List.all_eq_true.mp asciiTable_rows_ok (name, r) hmem
  simp only [rowOk, Bool.and_eq_true, beq_iff_eq] at hrow
  obtain ⟨hp, hdoc⟩ := hrow
  cases hd : documented name with
  | none => rw [hd] at hdoc; cases hdoc
  | some P =>
    rw [hd] at hdoc
    simp only [List.all_eq_true, List.mem_range, beq_iff_eq] at hdoc
    refine ⟨P, rfl, matchUnit_char_nil r hp, fun c rest => ?_⟩
    rw [matchUnit_char r hp]
    have := hdoc c.toNat c.toNat_lt
    have hc : c.toNat.toUInt8 = c := by simp [Nat.toUInt8]
    rw [hc] at this
    rw [this]

/-! ### `char` is signed: relation to the unsigned-byte atoms of Model/Input.lean -/

theorem charVal_inj (a b : UInt8) : charVal a = charVal b ↔ a = b := by
  have := a.toNat_lt; have := b.toNat_lt
  rw [← UInt8.toNat_inj]
  unfold charVal
  split <;> split <;> omega

theorem charVal_range_ascii (lo hi c : UInt8) (hlo : lo.toNat < 128) (hhi : hi.toNat < 128) :
    (charVal lo ≤ charVal c ∧ charVal c ≤ charVal hi) ↔ (lo ≤ c ∧ c ≤ hi) := by
  have := c.toNat_lt
  rw [UInt8.le_iff_toNat_le, UInt8.le_iff_toNat_le]
  unfold charVal
  rw [if_pos hlo, if_pos hhi]
  split <;> omega

theorem inRanges_iff (rs : List (UInt8 × UInt8)) (single : Option UInt8) (c : UInt8) :
    inRanges rs single c = true ↔ ((∃ r ∈ rs, r.1 ≤ c ∧ c ≤ r.2) ∨ single = some c) := by
  simp [inRanges, List.any_eq_true]

/-! ### Unit lengths -/

/-- Template arguments that exist in the library: 16-, 32-, 64-bit binary integers. -/
def Peek.valid : Peek → Prop
  | .uint w _ => w = 2 ∨ w = 4 ∨ w = 8
  | .maskUint w _ _ => w = 2 ∨ w = 4 ∨ w = 8
  | _ => True

/-- The documented length in bytes of the unit that encodes value `v`. -/
def Peek.unitLen : Peek → Int → Nat
  | .char, _ => 1
  | .uint8, _ => 1
  | .maskUint8 _, _ => 1
  | .uint w _, _ => w
  | .maskUint w _ _, _ => w
  | .utf8, v => encLen v.toNat
  | .utf16 _, v => encLen16 v.toNat
  | .utf32 _, _ => 4

theorem length_encodeUtf8 (cp : Nat) : (encodeUtf8 cp).length = encLen cp := by
  unfold encodeUtf8 encLen
  split
  · rfl
  · split
    · rfl
    · split <;> rfl

theorem length_encodeUtf16 (e : Endian) (cp : Nat) : (encodeUtf16 e cp).length = encLen16 cp := by
  unfold encLen16
  by_cases h : cp < 0x10000
  · rw [encodeUtf16_bmp e h, if_pos h, length_uintBytes]
  · rw [encodeUtf16_pair e (by omega), if_neg h, List.length_append, length_uintBytes, length_uintBytes]

theorem take_length_le {α} (bs X : List α) (n : Nat) (h : bs.take n = X) (hx : X.length = n) : n ≤ bs.length := by
  have := congrArg List.length h
  rw [List.length_take, hx] at this
  omega

theorem liftNat_eq_some (o : Option (Nat × Nat)) (v : Int) (n : Nat) :
    liftNat o = some (v, n) ↔ ∃ cp, o = some (cp, n) ∧ v = (cp : Int) := by
  cases o with
  | none => simp [liftNat]
  | some p =>
    obtain ⟨a, b⟩ := p
    simp only [liftNat, Option.map_some, Option.some.injEq, Prod.mk.injEq]
    constructor
    · rintro ⟨rfl, rfl⟩; exact ⟨a, ⟨rfl, rfl⟩, rfl⟩
    · rintro ⟨cp, ⟨rfl, rfl⟩, rfl⟩; exact ⟨rfl, rfl⟩

theorem peek_size (p : Peek) (hp : p.valid) (bs : List UInt8) (v : Int) (n : Nat)
    (h : p.peek bs = some (v, n)) : n = p.unitLen v ∧ 1 ≤ n ∧ n ≤ bs.length := by
  cases p with
  | char =>
    rcases bs with _ | ⟨b, t⟩
    · simp [Peek.peek, peekChar] at h
    · simp only [Peek.peek, peekChar, Option.some.injEq, Prod.mk.injEq] at h
      obtain ⟨_, rfl⟩ := h
      simp [Peek.unitLen]
  | uint8 =>
    obtain ⟨cp, h', rfl⟩ := (liftNat_eq_some _ _ _).mp h
    obtain ⟨hl, rfl, _⟩ := (peekUint8_iff none .little bs cp n).mp h'
    exact ⟨rfl, Nat.le_refl _, hl⟩
  | maskUint8 m =>
    obtain ⟨cp, h', rfl⟩ := (liftNat_eq_some _ _ _).mp h
    obtain ⟨hl, rfl, _⟩ := (peekUint8_iff (some m) .little bs cp n).mp h'
    exact ⟨rfl, Nat.le_refl _, hl⟩
  | uint w e =>
    obtain ⟨cp, h', rfl⟩ := (liftNat_eq_some _ _ _).mp h
    obtain ⟨hl, rfl, _⟩ := (peekUintN_iff w e none bs cp n).mp h'
    simp only [Peek.valid] at hp
    exact ⟨rfl, by omega, hl⟩
  | maskUint w e m =>
    obtain ⟨cp, h', rfl⟩ := (liftNat_eq_some _ _ _).mp h
    obtain ⟨hl, rfl, _⟩ := (peekUintN_iff w e (some m) bs cp n).mp h'
    simp only [Peek.valid] at hp
    exact ⟨rfl, by omega, hl⟩
  | utf8 =>
    obtain ⟨cp, h', rfl⟩ := (liftNat_eq_some _ _ _).mp h
    rw [peekUtf8_eq_A] at h'
    obtain ⟨_, hn, ht⟩ := utf8A_sound bs cp n h'
    have hl := take_length_le bs _ n ht (by rw [length_encodeUtf8, hn])
    refine ⟨by simpa [Peek.unitLen] using hn, ?_, hl⟩
    rw [hn]; unfold encLen; split <;> (try split) <;> (try split) <;> omega
  | utf16 e =>
    obtain ⟨cp, h', rfl⟩ := (liftNat_eq_some _ _ _).mp h
    obtain ⟨_, hn, ht⟩ := (utf16_iff e bs cp n).mp h'
    have hl := take_length_le bs _ n ht (by rw [length_encodeUtf16, hn])
    refine ⟨by simpa [Peek.unitLen] using hn, ?_, hl⟩
    rw [hn]; unfold encLen16; split <;> omega
  | utf32 e =>
    obtain ⟨cp, h', rfl⟩ := (liftNat_eq_some _ _ _).mp h
    obtain ⟨_, rfl, ht⟩ := (utf32_iff e bs cp n).mp h'
    have hl := take_length_le bs _ 4 ht (by rw [encodeUtf32, length_uintBytes])
    exact ⟨rfl, by omega, hl⟩

end Pegtl.Utf
