/-
  Lemmas/Surv.lean — the surviving actions of a run are exactly the action events of the trace
  that lie inside no failed or aborted invocation (C04).
-/
import PegtlVerif.Lemmas.RawClosure

namespace Pegtl

/-- The transactional reading of a trace: remember the log length at every `enter`, append action
    events, and at an `exit` that is not a success cut the log back to where its `enter` was. -/
def survStep (s : List Nat × List Ev) (e : Ev) : List Nat × List Ev :=
  match e with
  | .enter _ _ _ _ _ => (s.2.length :: s.1, s.2)
  | .apply _ _ _ _ => (s.1, s.2 ++ [e])
  | .apply0 _ _ _ => (s.1, s.2 ++ [e])
  | .ruleApply _ _ _ _ => (s.1, s.2 ++ [e])
  | .exit _ r _ =>
    match s.1 with
    | [] => s
    | n :: rest => (rest, if r = 1 then s.2 else s.2.take n)
  | _ => s

def survRun (s : List Nat × List Ev) (l : List Ev) : List Nat × List Ev := l.foldl survStep s

/-- The surviving actions of a whole trace. -/
def survOf (l : List Ev) : List Ev := (survRun ([], []) l).2

theorem survRun_append (s : List Nat × List Ev) (a b : List Ev) : survRun s (a ++ b) = survRun (survRun s a) b := by
  simp [survRun, List.foldl_append]

/-- A trace segment that leaves the stack alone and appends exactly `sv`. -/
def Adds (l sv : List Ev) : Prop := ∀ stk acc, survRun (stk, acc) l = (stk, acc ++ sv)

theorem Adds.nil : Adds [] [] := fun _ _ => by simp [survRun]

theorem Adds.append {a b sa sb : List Ev} (ha : Adds a sa) (hb : Adds b sb) : Adds (a ++ b) (sa ++ sb) := by
  intro stk acc
  rw [survRun_append, ha, hb, List.append_assoc]

theorem Adds.hook {e : Ev} (h : (∀ i a m c k, e ≠ .enter i a m c k) ∧ (∀ i r c, e ≠ .exit i r c) ∧
    (∀ i sd b c, e ≠ .apply i sd b c) ∧ (∀ i sd c, e ≠ .apply0 i sd c) ∧ (∀ i sd b c, e ≠ .ruleApply i sd b c)) : Adds [e] [] := by
  intro stk acc
  obtain ⟨h1, h2, h3, h4, h5⟩ := h
  cases e with
  | enter i a m c k => exact absurd rfl (h1 i a m c k)
  | exit i r c => exact absurd rfl (h2 i r c)
  | apply i sd b c => exact absurd rfl (h3 i sd b c)
  | apply0 i sd c => exact absurd rfl (h4 i sd c)
  | sctor d => simp [survRun, survStep]
  | ssucc d c o => simp [survRun, survStep]
  | sdtor d => simp [survRun, survStep]
  | ruleApply i sd b c => exact absurd rfl (h5 i sd b c)
  | start i c k => simp [survRun, survStep]
  | success i c => simp [survRun, survStep]
  | failure i c => simp [survRun, survStep]
  | unwind i c => simp [survRun, survStep]
  | raise i c => simp [survRun, survStep]

theorem Adds.act_apply (i sd : Nat) (b c : Cursor) : Adds [Ev.apply i sd b c] [Ev.apply i sd b c] := by
  intro stk acc; simp [survRun, survStep]

theorem Adds.act_apply0 (i sd : Nat) (c : Cursor) : Adds [Ev.apply0 i sd c] [Ev.apply0 i sd c] := by
  intro stk acc; simp [survRun, survStep]

theorem Adds.act_rule (i sd : Nat) (b c : Cursor) : Adds [Ev.ruleApply i sd b c] [Ev.ruleApply i sd b c] := by
  intro stk acc; simp [survRun, survStep]

/-- The calls of rule-level actions all enter the transactional log. -/
theorem runActs_adds (cx : Ctx) (sd : Nat) (b e : Cursor) : ∀ acts : List RuleAct,
    Adds (runActs cx sd b e acts).2 (runActs cx sd b e acts).2
  | [] => by simpa [runActs] using Adds.nil
  | x :: xs => by
    simp only [runActs]
    split
    · exact Adds.act_rule _ _ _ _
    · split
      · exact Adds.act_rule _ _ _ _
      · have := (Adds.act_rule x.id sd (cx.rep b) (cx.rep e)).append (runActs_adds cx sd b e xs)
        simpa using this

/-- What a body guarantees: if it matched, its trace adds exactly its surviving actions; otherwise
    it adds *something* (which the enclosing invocation's failed `exit` will cut away). -/
def BodySurv (r : Ret) : Prop :=
  (r.res = .ok → Adds r.raw r.surv) ∧ (∀ stk acc, ∃ extra, survRun (stk, acc) r.raw = (stk, acc ++ extra))

/-- What a complete (bracketed) invocation guarantees. -/
def InvSurv (r : Ret) : Prop := Adds r.raw r.surv ∧ (r.res ≠ .ok → r.surv = [])

def SvRec (rec : Rec) : Prop := ∀ j a m env st r, rec j a m env st = some r → InvSurv r

theorem Adds.weak {l sv : List Ev} (h : Adds l sv) : ∀ stk acc, ∃ extra, survRun (stk, acc) l = (stk, acc ++ extra) :=
  fun stk acc => ⟨sv, h stk acc⟩

theorem BodySurv.of_adds {r : Ret} (h : Adds r.raw r.surv) : BodySurv r := ⟨fun _ => h, h.weak⟩

theorem weak_append {a b : List Ev}
    (ha : ∀ stk acc, ∃ extra, survRun (stk, acc) a = (stk, acc ++ extra))
    (hb : ∀ stk acc, ∃ extra, survRun (stk, acc) b = (stk, acc ++ extra)) :
    ∀ stk acc, ∃ extra, survRun (stk, acc) (a ++ b) = (stk, acc ++ extra) := by
  intro stk acc
  obtain ⟨x, hx⟩ := ha stk acc
  obtain ⟨y, hy⟩ := hb stk (acc ++ x)
  exact ⟨x ++ y, by rw [survRun_append, hx, hy, List.append_assoc]⟩

/-- Closing the bracket: a body result becomes a complete invocation. -/
theorem bracket_surv (cx : Ctx) (i : Nat) (a : AMode) (m : RMode) (kc : Nat) (st : St) (r : Ret) (h : BodySurv r) :
    InvSurv (bracket cx i a m kc st r) := by
  constructor
  · intro stk acc
    simp only [bracket, dropOnFail_raw, dropOnFail_res, List.cons_append]
    show survRun (stk, acc) (Ev.enter i a m (cx.rep st.cur) kc :: (r.raw ++ [Ev.exit i r.res.code _])) = _
    have h1 : survRun (stk, acc) (Ev.enter i a m (cx.rep st.cur) kc :: (r.raw ++ [Ev.exit i r.res.code (cx.rep r.dropOnFail.st.cur)])) =
        survRun (acc.length :: stk, acc) (r.raw ++ [Ev.exit i r.res.code (cx.rep r.dropOnFail.st.cur)]) := by
      simp [survRun, survStep]
    rw [h1, survRun_append]
    cases hr : r.res with
    | ok =>
      rw [h.1 hr]
      simp [survRun, survStep, Res.code, Ret.dropOnFail, hr]
    | fail =>
      obtain ⟨x, hx⟩ := h.2 (acc.length :: stk) acc
      rw [hx]
      simp [survRun, survStep, Res.code, Ret.dropOnFail, hr]
    | thr e =>
      obtain ⟨x, hx⟩ := h.2 (acc.length :: stk) acc
      rw [hx]
      simp [survRun, survStep, Res.code, Ret.dropOnFail, hr]
  · intro hne
    simp only [bracket]
    unfold Ret.dropOnFail
    have : r.res ≠ .ok := by simpa using hne
    simp [this]

end Pegtl

namespace Pegtl

@[simp] theorem prepend_surv (raw surv : List Ev) (r : Ret) : (r.prepend raw surv).surv = surv ++ r.surv := rfl

section helpers
variable {rec : Rec} (hrec : SvRec rec)
include hrec

theorem seqAll_sv (a : AMode) (m : RMode) (env : Env) :
    ∀ (cs : List Nat) (st : St) (r : Ret), seqAll rec a m env cs st = some r → Adds r.raw r.surv := by
  intro cs
  induction cs with
  | nil => intro st r h; simp only [seqAll, Option.some.injEq] at h; subst h; exact Adds.nil
  | cons c cs ih =>
    intro st r h
    simp only [seqAll] at h
    split at h
    · exact absurd h (by simp)
    · rename_i r1 h1
      have s1 := (hrec _ _ _ _ _ _ h1).1
      split at h
      · split at h
        · exact absurd h (by simp)
        · rename_i r2 h2
          simp only [Option.some.injEq] at h; subst h
          exact s1.append (ih _ _ h2)
      · simp only [Option.some.injEq] at h; subst h; exact s1

theorem sorAny_sv (a : AMode) (m : RMode) (env : Env) :
    ∀ (cs : List Nat) (st : St) (r : Ret), sorAny rec a m env cs st = some r → Adds r.raw r.surv := by
  intro cs
  induction cs with
  | nil => intro st r h; simp only [sorAny, Option.some.injEq] at h; subst h; exact Adds.nil
  | cons c cs ih =>
    intro st r h
    cases cs with
    | nil => simp only [sorAny] at h; exact (hrec _ _ _ _ _ _ h).1
    | cons c' cs' =>
      simp only [sorAny] at h
      split at h
      · exact absurd h (by simp)
      · rename_i r1 h1
        have s1 := hrec _ _ _ _ _ _ h1
        split at h
        · rename_i hf
          split at h
          · exact absurd h (by simp)
          · rename_i r2 h2
            simp only [Option.some.injEq] at h; subst h
            have e1 : r1.surv = [] := s1.2 (by simp [hf])
            have := s1.1.append (ih _ _ h2)
            simpa [e1] using this
        · simp only [Option.some.injEq] at h; subst h; exact s1.1

theorem loopStar_sv (a : AMode) (env : Env) (cs : List Nat) :
    ∀ (k : Nat) (st : St) (r : Ret), loopStar rec a env cs k st = some r → Adds r.raw r.surv := by
  intro k
  induction k with
  | zero => intro st r h; simp [loopStar] at h
  | succ k ih =>
    intro st r h
    simp only [loopStar] at h
    split at h
    · exact absurd h (by simp)
    · rename_i r1 h1
      have s1 := seqAll_sv hrec a .required env cs st r1 h1
      split at h
      · split at h
        · exact absurd h (by simp)
        · rename_i r2 h2
          simp only [Option.some.injEq] at h; subst h
          exact s1.append (ih _ _ h2)
      · simp only [Option.some.injEq] at h; subst h; exact s1
      · simp only [Option.some.injEq] at h; subst h; exact s1

theorem repN_sv (a : AMode) (m : RMode) (env : Env) (c : Nat) :
    ∀ (k : Nat) (st : St) (r : Ret), repN rec a m env c k st = some r → Adds r.raw r.surv := by
  intro k
  induction k with
  | zero => intro st r h; simp only [repN, Option.some.injEq] at h; subst h; exact Adds.nil
  | succ k ih =>
    intro st r h
    simp only [repN] at h
    split at h
    · exact absurd h (by simp)
    · rename_i r1 h1
      have s1 := (hrec _ _ _ _ _ _ h1).1
      split at h
      · split at h
        · exact absurd h (by simp)
        · rename_i r2 h2
          simp only [Option.some.injEq] at h; subst h
          exact s1.append (ih _ _ h2)
      · simp only [Option.some.injEq] at h; subst h; exact s1

theorem repUpTo_sv (a : AMode) (env : Env) (c : Nat) :
    ∀ (k : Nat) (st : St) (r : Ret) (full : Bool), repUpTo rec a env c k st = some (r, full) → Adds r.raw r.surv := by
  intro k
  induction k with
  | zero =>
    intro st r full h
    simp only [repUpTo, Option.some.injEq, Prod.mk.injEq] at h
    obtain ⟨h, _⟩ := h; subst h; exact Adds.nil
  | succ k ih =>
    intro st r full h
    simp only [repUpTo] at h
    split at h
    · exact absurd h (by simp)
    · rename_i r1 h1
      have s1 := hrec _ _ _ _ _ _ h1
      split at h
      · split at h
        · exact absurd h (by simp)
        · rename_i r2 full2 h2
          simp only [Option.some.injEq, Prod.mk.injEq] at h
          obtain ⟨h, _⟩ := h; subst h
          exact s1.1.append (ih _ _ _ h2)
      · rename_i hf
        simp only [Option.some.injEq, Prod.mk.injEq] at h
        obtain ⟨h, _⟩ := h; subst h
        have e1 : r1.surv = [] := s1.2 (by simp [hf])
        simpa [e1] using s1.1
      · simp only [Option.some.injEq, Prod.mk.injEq] at h
        obtain ⟨h, _⟩ := h; subst h; exact s1.1

theorem loopUntil1_sv (cx : Ctx) (a : AMode) (env : Env) (cond : Nat) :
    ∀ (k : Nat) (st : St) (r : Ret), loopUntil1 cx rec a env cond k st = some r → Adds r.raw r.surv := by
  intro k
  induction k with
  | zero => intro st r h; simp [loopUntil1] at h
  | succ k ih =>
    intro st r h
    simp only [loopUntil1] at h
    split at h
    · exact absurd h (by simp)
    · rename_i r1 h1
      have s1 := hrec _ _ _ _ _ _ h1
      split at h
      · simp only [Option.some.injEq] at h; subst h; exact s1.1
      · simp only [Option.some.injEq] at h; subst h; exact s1.1
      · rename_i hf
        split at h
        · simp only [Option.some.injEq] at h; subst h; exact s1.1
        · split at h
          · exact absurd h (by simp)
          · rename_i r2 h2
            simp only [Option.some.injEq] at h; subst h
            have e1 : r1.surv = [] := s1.2 (by simp [hf])
            have := s1.1.append (ih _ _ h2)
            simpa [e1] using this

theorem loopUntil2_sv (a : AMode) (env : Env) (cond b : Nat) :
    ∀ (k : Nat) (st : St) (r : Ret), loopUntil2 rec a env cond b k st = some r → Adds r.raw r.surv := by
  intro k
  induction k with
  | zero => intro st r h; simp [loopUntil2] at h
  | succ k ih =>
    intro st r h
    simp only [loopUntil2] at h
    split at h
    · exact absurd h (by simp)
    · rename_i r1 h1
      have s1 := hrec _ _ _ _ _ _ h1
      split at h
      · simp only [Option.some.injEq] at h; subst h; exact s1.1
      · simp only [Option.some.injEq] at h; subst h; exact s1.1
      · rename_i hf
        have e1 : r1.surv = [] := s1.2 (by simp [hf])
        split at h
        · exact absurd h (by simp)
        · rename_i r2 h2
          have s2 := hrec _ _ _ _ _ _ h2
          split at h
          · split at h
            · exact absurd h (by simp)
            · rename_i r3 h3
              simp only [Option.some.injEq] at h; subst h
              have := (s1.1.append s2.1).append (ih _ _ h3)
              simpa [e1, List.append_assoc] using this
          · rename_i hn2
            simp only [Option.some.injEq] at h; subst h
            have e2 : r2.surv = [] := s2.2 (by intro h'; exact hn2 h')
            have := s1.1.append s2.1
            simpa [e1, e2] using this

theorem loopStarStrict_sv (a : AMode) (env : Env) (c rest : Nat) :
    ∀ (k : Nat) (st : St) (r : Ret), loopStarStrict rec a env c rest k st = some r → BodySurv r := by
  intro k
  induction k with
  | zero => intro st r h; simp [loopStarStrict] at h
  | succ k ih =>
    intro st r h
    simp only [loopStarStrict] at h
    split at h
    · exact absurd h (by simp)
    · rename_i r1 h1
      have s1 := hrec _ _ _ _ _ _ h1
      split at h
      · simp only [Option.some.injEq] at h; subst h; exact BodySurv.of_adds s1.1
      · simp only [Option.some.injEq] at h; subst h; exact BodySurv.of_adds s1.1
      · split at h
        · exact absurd h (by simp)
        · rename_i r2 h2
          have s2 := hrec _ _ _ _ _ _ h2
          split at h
          · split at h
            · exact absurd h (by simp)
            · rename_i r3 h3
              simp only [Option.some.injEq] at h; subst h
              have b3 := ih _ _ h3
              refine ⟨fun hok => ?_, ?_⟩
              · have := (s1.1.append s2.1).append (b3.1 (by simpa using hok))
                simpa [List.append_assoc] using this
              · simpa [List.append_assoc] using weak_append (s1.1.append s2.1).weak b3.2
          · rename_i hn2
            simp only [Option.some.injEq] at h; subst h
            refine ⟨fun hok => absurd (by simpa using hok) hn2, ?_⟩
            simpa using weak_append s1.1.weak s2.1.weak

theorem rematchAll_sv (a : AMode) (env : Env) (saved : Cursor) :
    ∀ (rs : List Nat) (st : St) (r : Ret), rematchAll rec a env saved rs st = some r → Adds r.raw r.surv := by
  intro rs
  induction rs with
  | nil => intro st r h; simp only [rematchAll, Option.some.injEq] at h; subst h; exact Adds.nil
  | cons c cs ih =>
    intro st r h
    simp only [rematchAll] at h
    split at h
    · exact absurd h (by simp)
    · rename_i r1 h1
      have s1 := (hrec _ _ _ _ _ _ h1).1
      split at h
      · split at h
        · exact absurd h (by simp)
        · rename_i r2 h2
          simp only [Option.some.injEq] at h; subst h
          exact s1.append (ih _ r2 h2)
      · simp only [Option.some.injEq] at h; subst h; exact s1

end helpers

end Pegtl

namespace Pegtl

/-- A guard and `dropOnFail` around a result whose trace adds its survivors. -/
theorem BodySurv.guard_drop {r : Ret} (h : Adds r.raw r.surv) (m : RMode) (c : Cursor) :
    BodySurv (guardRestore m c r).dropOnFail := by
  refine ⟨fun hok => ?_, by simpa using h.weak⟩
  have hok' : r.res = .ok := by simpa using hok
  have : (guardRestore m c r).dropOnFail.surv = r.surv := by
    simp [Ret.dropOnFail, guardRestore, hok']
  rw [this]; simpa using h

theorem BodySurv.guard_drop' {r : Ret} (h : BodySurv r) (m : RMode) (c : Cursor) :
    BodySurv (guardRestore m c r).dropOnFail := by
  refine ⟨fun hok => ?_, by simpa using h.2⟩
  have hok' : r.res = .ok := by simpa using hok
  have : (guardRestore m c r).dropOnFail.surv = r.surv := by
    simp [Ret.dropOnFail, guardRestore, hok']
  rw [this]; simpa using h.1 hok'

theorem hook_sctor (d : Nat) : Adds [Ev.sctor d] [] := Adds.hook ⟨by simp, by simp, by simp, by simp, by simp⟩
theorem hook_ssucc (d : Nat) (c : Cursor) (o : Nat) : Adds [Ev.ssucc d c o] [] := Adds.hook ⟨by simp, by simp, by simp, by simp, by simp⟩
theorem hook_sdtor (d : Nat) : Adds [Ev.sdtor d] [] := Adds.hook ⟨by simp, by simp, by simp, by simp, by simp⟩

/-- The events of a state object do not touch the transactional log. -/
theorem BodySurv.scope {r : Ret} (h : BodySurv r) (cx : Ctx) (o : Nat) (b : Bool) : BodySurv (stateScope cx o b r) := by
  have tail : ∀ (c : Prop) [Decidable c], Adds ((if c then [Ev.ssucc (o + 1) (cx.rep r.st.cur) o] else []) ++ [Ev.sdtor (o + 1)]) [] := by
    intro c _
    split
    · simpa using (hook_ssucc _ _ _).append (hook_sdtor _)
    · simpa using hook_sdtor (o + 1)
  have shape : (stateScope cx o b r).raw = [Ev.sctor (o + 1)] ++ (r.raw ++
      ((if r.res = .ok ∧ b = true then [Ev.ssucc (o + 1) (cx.rep r.st.cur) o] else []) ++ [Ev.sdtor (o + 1)])) := by
    unfold stateScope; simp
  refine ⟨fun hok => ?_, ?_⟩
  · rw [shape]
    have := (hook_sctor (o + 1)).append ((h.1 hok).append (tail (r.res = .ok ∧ b = true)))
    simpa using this
  · rw [shape]
    exact weak_append (hook_sctor _).weak (weak_append h.2 (tail _).weak)

theorem body_sv {rec : Rec} (hrec : SvRec rec) (cx : Ctx) (k : Nat) (kind : Kind) (a : AMode) (m : RMode) (env : Env)
    (st : St) (r : Ret) (h : body cx rec k kind a m env st = some r) : BodySurv r := by
  cases kind with
  | atom atm => simp only [body, Option.some.injEq] at h; subst h; exact BodySurv.of_adds Adds.nil
  | seq cs =>
    simp only [body] at h
    split at h
    · exact BodySurv.of_adds (hrec _ _ _ _ _ _ h).1
    · simp only [Option.map_eq_some_iff] at h
      obtain ⟨r0, h0, rfl⟩ := h
      exact BodySurv.guard_drop (seqAll_sv hrec _ _ _ _ _ _ h0) _ _
  | sor cs => simp only [body] at h; exact BodySurv.of_adds (sorAny_sv hrec _ _ _ _ _ _ h)
  | starPartial cs => simp only [body] at h; exact BodySurv.of_adds (loopStar_sv hrec _ _ _ _ _ _ h)
  | partialR cs =>
    simp only [body, Option.map_eq_some_iff] at h
    obtain ⟨r0, h0, rfl⟩ := h
    have s := seqAll_sv hrec _ _ _ _ _ _ h0
    split <;> exact BodySurv.of_adds s
  | plus c =>
    simp only [body] at h
    split at h
    · exact absurd h (by simp)
    · rename_i r1 h1
      have s1 := (hrec _ _ _ _ _ _ h1).1
      split at h
      · simp only [Option.map_eq_some_iff] at h
        obtain ⟨r2, h2, rfl⟩ := h
        exact BodySurv.of_adds (s1.append (loopStar_sv hrec _ _ _ _ _ _ h2))
      · simp only [Option.some.injEq] at h; subst h; exact BodySurv.of_adds s1
  | atR c =>
    simp only [body, Option.map_eq_some_iff] at h
    obtain ⟨r0, h0, rfl⟩ := h
    exact BodySurv.of_adds (hrec _ _ _ _ _ r0 h0).1
  | notAt c =>
    simp only [body, Option.map_eq_some_iff] at h
    obtain ⟨r0, h0, rfl⟩ := h
    have s := hrec _ _ _ _ _ r0 h0
    split
    · exact ⟨fun hok => by simp at hok, s.1.weak⟩
    · rename_i hf
      have e : r0.surv = [] := s.2 (by simp [alwaysRestore] at hf; simp [hf])
      refine ⟨fun _ => ?_, s.1.weak⟩
      simpa [alwaysRestore, e] using s.1
    · exact BodySurv.of_adds s.1
  | until1 cond =>
    simp only [body, Option.map_eq_some_iff] at h
    obtain ⟨r0, h0, rfl⟩ := h
    exact BodySurv.guard_drop (loopUntil1_sv hrec _ _ _ _ _ _ _ h0) _ _
  | until2 cond b =>
    simp only [body, Option.map_eq_some_iff] at h
    obtain ⟨r0, h0, rfl⟩ := h
    exact BodySurv.guard_drop (loopUntil2_sv hrec _ _ _ _ _ _ _ h0) _ _
  | rep n c =>
    simp only [body, Option.map_eq_some_iff] at h
    obtain ⟨r0, h0, rfl⟩ := h
    exact BodySurv.guard_drop (repN_sv hrec _ _ _ _ _ _ _ h0) _ _
  | repMinMax lo hi c na =>
    simp only [body] at h
    split at h
    · exact absurd h (by simp)
    · rename_i r1 h1
      have s1 := repN_sv hrec _ _ _ _ _ _ _ h1
      split at h
      · split at h
        · exact absurd h (by simp)
        · rename_i r2 full h2
          have s2 := repUpTo_sv hrec _ _ _ _ _ _ _ h2
          have s12 : Adds (r2.prepend r1.raw r1.surv).raw (r2.prepend r1.raw r1.surv).surv := s1.append s2
          split at h
          · split at h
            · exact absurd h (by simp)
            · rename_i r3 h3
              simp only [Option.some.injEq] at h; subst h
              exact BodySurv.guard_drop (s12.append (hrec _ _ _ _ _ _ h3).1) _ _
          · simp only [Option.some.injEq] at h; subst h
            exact BodySurv.guard_drop s12 _ _
      · simp only [Option.some.injEq] at h; subst h
        exact BodySurv.guard_drop s1 _ _
  | repOpt n c =>
    simp only [body, Option.map_eq_some_iff] at h
    obtain ⟨⟨r0, full⟩, h0, rfl⟩ := h
    exact BodySurv.of_adds (repUpTo_sv hrec _ _ _ _ _ _ _ h0)
  | ifThenElse c t e =>
    simp only [body] at h
    split at h
    · exact absurd h (by simp)
    · rename_i r1 h1
      have s1 := hrec _ _ _ _ _ _ h1
      split at h
      · simp only [Option.map_eq_some_iff] at h
        obtain ⟨r2, h2, rfl⟩ := h
        exact BodySurv.guard_drop (s1.1.append (hrec _ _ _ _ _ _ h2).1) _ _
      · rename_i hf
        simp only [Option.map_eq_some_iff] at h
        obtain ⟨r2, h2, rfl⟩ := h
        have e1 : r1.surv = [] := s1.2 (by simp [hf])
        have := s1.1.append (hrec _ _ _ _ _ _ h2).1
        exact BodySurv.guard_drop (by simpa [e1] using this) _ _
      · simp only [Option.some.injEq] at h; subst h
        exact BodySurv.guard_drop s1.1 _ _
  | strict c rest =>
    simp only [body] at h
    split at h
    · exact absurd h (by simp)
    · rename_i r1 h1
      have s1 := hrec _ _ _ _ _ _ h1
      split at h
      · simp only [Option.map_eq_some_iff] at h
        obtain ⟨r2, h2, rfl⟩ := h
        exact BodySurv.guard_drop (s1.1.append (hrec _ _ _ _ _ _ h2).1) _ _
      · simp only [Option.some.injEq] at h; subst h
        exact BodySurv.of_adds s1.1
      · simp only [Option.some.injEq] at h; subst h
        exact BodySurv.guard_drop s1.1 _ _
  | starStrict c rest =>
    simp only [body, Option.map_eq_some_iff] at h
    obtain ⟨r0, h0, rfl⟩ := h
    exact BodySurv.guard_drop' (loopStarStrict_sv hrec _ _ _ _ _ _ _ h0) _ _
  | rematch head rs =>
    simp only [body] at h
    split at h
    · exact BodySurv.of_adds (hrec _ _ _ _ _ _ h).1
    · split at h
      · exact absurd h (by simp)
      · rename_i r1 h1
        have s1 := (hrec _ _ _ _ _ _ h1).1
        split at h
        · split at h
          · exact absurd h (by simp)
          · rename_i r2 h2
            simp only [Option.some.injEq] at h; subst h
            have s12 := s1.append (rematchAll_sv hrec _ _ _ _ _ r2 h2)
            exact BodySurv.guard_drop (r := ⟨_, _, _, _⟩) s12 _ _
        · simp only [Option.some.injEq] at h; subst h
          exact BodySurv.guard_drop s1 _ _
  | must c =>
    simp only [body] at h
    split at h
    · exact absurd h (by simp)
    · rename_i r1 h1
      have s1 := (hrec _ _ _ _ _ _ h1).1
      split at h
      · simp only [Option.some.injEq] at h; subst h
        refine ⟨fun hok => by simp at hok, ?_⟩
        exact weak_append s1.weak (Adds.hook ⟨by simp, by simp, by simp, by simp, by simp⟩).weak
      · simp only [Option.some.injEq] at h; subst h; exact BodySurv.of_adds s1
  | ifMust dflt cond mn =>
    simp only [body] at h
    split at h
    · exact absurd h (by simp)
    · rename_i r1 h1
      have s1 := hrec _ _ _ _ _ _ h1
      split at h
      · simp only [Option.map_eq_some_iff] at h
        obtain ⟨r2, h2, rfl⟩ := h
        have s12 : Adds (r2.prepend r1.raw r1.surv).raw (r2.prepend r1.raw r1.surv).surv := s1.1.append (hrec _ _ _ _ _ _ h2).1
        split
        · exact ⟨fun hok => by simp_all, by simpa using s12.weak⟩
        · exact BodySurv.of_adds s12
      · simp only [Option.some.injEq] at h; subst h
        exact BodySurv.of_adds s1.1
      · simp only [Option.some.injEq] at h; subst h; exact BodySurv.of_adds s1.1
  | raise t =>
    simp only [body, Option.some.injEq] at h; subst h
    exact BodySurv.of_adds (Adds.hook ⟨by simp, by simp, by simp, by simp, by simp⟩)
  | tryCatchReturnFalse ex c =>
    simp only [body, Option.map_eq_some_iff] at h
    obtain ⟨r0, h0, rfl⟩ := h
    have s := (hrec _ _ _ _ _ _ h0).1
    apply BodySurv.guard_drop
    split
    · split <;> exact s
    · exact s
  | tryCatchRaiseNested ex c =>
    simp only [body, Option.map_eq_some_iff] at h
    obtain ⟨r0, h0, rfl⟩ := h
    have s := (hrec _ _ _ _ _ _ h0).1
    apply BodySurv.guard_drop
    split
    · split <;> exact s
    · exact s
  | enable c => simp only [body] at h; exact BodySurv.of_adds (hrec _ _ _ _ _ _ h).1
  | disable c => simp only [body] at h; exact BodySurv.of_adds (hrec _ _ _ _ _ _ h).1
  | action fam c => simp only [body] at h; exact BodySurv.of_adds (hrec _ _ _ _ _ _ h).1
  | control kc c => simp only [body] at h; exact BodySurv.of_adds (hrec _ _ _ _ _ _ h).1
  | state d c =>
    simp only [body, Option.map_eq_some_iff] at h
    obtain ⟨r0, h0, rfl⟩ := h
    exact (BodySurv.of_adds (hrec _ _ _ _ _ _ h0).1).scope _ _ _
  | ifApply c acts =>
    simp only [body] at h
    split at h
    · simp only [Option.map_eq_some_iff] at h
      obtain ⟨r0, h0, rfl⟩ := h
      have a0 := (hrec _ _ _ _ _ _ h0).1
      split
      · -- the rule matched: its actions, then the rule-level ones
        have hadd : Adds (r0.raw ++ (runActs cx env.sd st.cur r0.st.cur acts).2)
            (r0.surv ++ (runActs cx env.sd st.cur r0.st.cur acts).2) := a0.append (runActs_adds cx _ _ _ acts)
        refine ⟨fun hok => ?_, ?_⟩
        · simp only [dropOnFail_res, guardRestore_res] at hok
          simpa [Ret.dropOnFail, guardRestore, hok] using hadd
        · simpa using hadd.weak
      · refine ⟨fun hok => ?_, ?_⟩
        · simp only [dropOnFail_res, guardRestore_res] at hok
          simpa [Ret.dropOnFail, guardRestore, hok] using a0
        · simpa using a0.weak
    · exact BodySurv.of_adds (hrec _ _ _ _ _ _ h).1
  | applyR acts =>
    simp only [body] at h
    split at h
    · simp only [Option.some.injEq] at h
      subst h
      have hadd := runActs_adds cx env.sd st.cur st.cur acts
      refine ⟨fun hok => ?_, ?_⟩
      · simp only [dropOnFail_res] at hok
        simpa [Ret.dropOnFail, hok] using hadd
      · simpa using hadd.weak
    · simp only [Option.some.injEq] at h
      subst h
      exact BodySurv.of_adds Adds.nil

end Pegtl

namespace Pegtl

theorem actEvent_adds (cx : Ctx) (i : Nat) (act : ActionSpec) (sd : Nat) (b e : Cursor) :
    Adds [actEvent cx i act sd b e] [actEvent cx i act sd b e] := by
  unfold actEvent; split
  · exact Adds.act_apply _ _ _ _
  · exact Adds.act_apply0 _ _ _

theorem hook_start (i : Nat) (c : Cursor) (k : Nat) : Adds [Ev.start i c k] [] := Adds.hook ⟨by simp, by simp, by simp, by simp, by simp⟩
theorem hook_success (i : Nat) (c : Cursor) : Adds [Ev.success i c] [] := Adds.hook ⟨by simp, by simp, by simp, by simp, by simp⟩
theorem hook_failure (i : Nat) (c : Cursor) : Adds [Ev.failure i c] [] := Adds.hook ⟨by simp, by simp, by simp, by simp, by simp⟩
theorem hook_unwind (i : Nat) (c : Cursor) : Adds [Ev.unwind i c] [] := Adds.hook ⟨by simp, by simp, by simp, by simp, by simp⟩
theorem hook_raise (i : Nat) (c : Cursor) : Adds [Ev.raise i c] [] := Adds.hook ⟨by simp, by simp, by simp, by simp, by simp⟩

theorem failureHook_sv (cx : Ctx) (i : Nat) (c : Cursor) (r : Ret)
    (h : ∀ stk acc, ∃ extra, survRun (stk, acc) r.raw = (stk, acc ++ extra)) : BodySurv (failureHook cx i c r) :=
  ⟨fun hok => absurd hok (failureHook_res_ne_ok cx i c r),
   failureHook_raw_closed (Q := fun l => ∀ stk acc, ∃ extra, survRun (stk, acc) l = (stk, acc ++ extra)) weak_append
     (hook_failure _ _).weak (fun _ => (hook_raise _ _).weak) h⟩

theorem afterBody_sv (cx : Ctx) (i : Nat) (a : AMode) (act : ActionSpec) (sd : Nat) (saved : Cursor) (r : Ret) (h : BodySurv r) :
    BodySurv (afterBody cx i a act sd saved r) := by
  unfold afterBody
  split
  · rename_i e he
    refine ⟨fun hok => by simp [he] at hok, ?_⟩
    simp only
    split
    · exact weak_append h.2 (hook_unwind _ _).weak
    · simpa using h.2
  · exact failureHook_sv cx i _ r h.2
  · rename_i hok
    have hs := h.1 hok
    simp only
    split
    · exact BodySurv.of_adds (by simpa using hs.append (hook_success _ _))
    · refine ⟨fun ho => by simp at ho, ?_⟩
      simp only [List.append_assoc]
      apply weak_append hs.weak
      apply weak_append (actEvent_adds _ _ _ _ _ _).weak
      split
      · exact (hook_unwind _ _).weak
      · exact Adds.nil.weak
    · exact failureHook_sv cx i _ _ (weak_append hs.weak (actEvent_adds _ _ _ _ _ _).weak)
    · apply BodySurv.of_adds
      have := hs.append ((actEvent_adds cx i act sd saved r.st.cur).append (hook_success i (cx.rep r.st.cur)))
      simpa using this

theorem nodeCore_sv {rec : Rec} (hrec : SvRec rec) (cx : Ctx) (k i : Nat) (nd : Node) (a : AMode) (m : RMode)
    (env : Env) (st : St) (r : Ret) (h : nodeCore cx rec k i nd a m env st = some r) : BodySurv r := by
  unfold nodeCore at h
  split at h
  · exact body_sv hrec cx k _ _ _ _ _ _ h
  · simp only [Option.map_eq_some_iff] at h
    obtain ⟨r0, h0, rfl⟩ := h
    have hb := afterBody_sv (cx.withCtl env.ctl) i a (cx.actOf env i nd) env.sd st.cur r0 (body_sv hrec cx k _ _ _ _ _ _ h0)
    refine ⟨fun hok => ?_, ?_⟩
    · have hok' : (afterBody (cx.withCtl env.ctl) i a (cx.actOf env i nd) env.sd st.cur r0).res = .ok := by simpa using hok
      have := (hook_start i (cx.rep st.cur) env.ctl).append (hb.1 hok')
      simpa [guardRestore, hok'] using this
    · simpa using weak_append (hook_start i (cx.rep st.cur) env.ctl).weak hb.2

theorem nodeCall_sv {rec : Rec} (hrec : SvRec rec) (cx : Ctx) (k i : Nat) (a : AMode) (m : RMode)
    (env : Env) (st : St) (r : Ret) (h : nodeCall cx rec k i a m env st = some r) : InvSurv r := by
  unfold nodeCall at h
  split at h
  · exact absurd h (by simp)
  · rename_i nd _
    simp only [Option.map_eq_some_iff] at h
    obtain ⟨r0, h0, rfl⟩ := h
    apply bracket_surv
    split at h0
    · exact nodeCore_sv hrec cx k i nd a m env st r0 h0
    · exact BodySurv.of_adds (hrec _ _ _ _ _ _ h0).1
    · exact nodeCore_sv hrec cx k i nd _ m env st r0 h0
    · exact nodeCore_sv hrec cx k i nd _ m env st r0 h0
    · unfold limitDepthCall at h0
      split at h0
      · simp only [Option.some.injEq] at h0; subst h0
        exact BodySurv.of_adds (hook_raise _ _)
      · simp only [Option.map_eq_some_iff] at h0
        obtain ⟨r1, h1, rfl⟩ := h0
        exact nodeCore_sv hrec cx k i nd a m env _ r1 h1
    · unfold limitBytesCall at h0
      simp only [Option.map_eq_some_iff] at h0
      obtain ⟨r1, h1, rfl⟩ := h0
      have b := nodeCore_sv hrec cx k i nd a m env _ r1 h1
      split
      · exact ⟨fun hok => by simp at hok, weak_append b.2 (hook_raise _ _).weak⟩
      · exact b
    · simp only [Option.map_eq_some_iff] at h0
      obtain ⟨r1, h1, rfl⟩ := h0
      exact (nodeCore_sv hrec cx k i nd a m _ st r1 h1).scope _ _ _
    · simp only [Option.map_eq_some_iff] at h0
      obtain ⟨r1, h1, rfl⟩ := h0
      exact (BodySurv.of_adds (hrec _ _ _ _ _ _ h1).1).scope _ _ _
    · exact nodeCore_sv hrec cx k i nd a m _ st r0 h0

theorem run_sv (cx : Ctx) : ∀ n, SvRec (run cx n) := by
  intro n
  induction n with
  | zero => intro j a m env st r h; simp [run] at h
  | succ n ih =>
    intro j a m env st r h
    simp only [run] at h
    exact nodeCall_sv ih cx n j a m env st r h

/-- The surviving actions of an invocation are what the transactional reading of its own trace yields. -/
theorem run_surv_eq (cx : Ctx) (n i : Nat) (a : AMode) (m : RMode) (env : Env) (st : St) (r : Ret)
    (h : run cx n i a m env st = some r) : survOf r.raw = r.surv := by
  have := (run_sv cx n i a m env st r h).1 [] []
  simp [survOf, this]

end Pegtl
